import Driver.Common
import ScionVerif.Model.StdPath
import ScionVerif.Model.OneHop
import ScionVerif.Model.AesCmac
/-! line-protocol driver for the standard-path / one-hop-path model (C11, C12).
The mutating operations are run in their statement-sequence form (`*Imp`: receiver threaded through reads,
exits and writes in source order), so the bytes answered after an `err` are the receiver as written so far.
Stateless: every request carries the path bytes (hex) or an owned model in the wire format
`ci ch nseg { flags segid(2) ts(4) nhops hop(12)* }*` shared with `hx_path`. -/
open ScionVerif.StdPath ScionVerif.Generated.StdPath Driver
open ScionVerif.Mac (MacFn)

/-- the executable MAC (AES-128-CMAC, driver only) -/
def aesMac : MacFn (List UInt8) := fun k i => ScionVerif.AesCmac.hopMac k i.beta i.ts i.exp i.consIn i.consEg

def be (n k : Nat) : List UInt8 := natBE k n

def showM (m : PathM) : List UInt8 :=
  [UInt8.ofNat m.currInf, UInt8.ofNat m.currHf, UInt8.ofNat m.segs.length] ++
  (m.segs.map (fun s => [UInt8.ofNat s.info.flags] ++ be s.info.segId 2 ++ be s.info.ts 4 ++
      [UInt8.ofNat s.hops.length] ++ (s.hops.map HopF.toBytes).flatten)).flatten

def parseSegs : Nat → List UInt8 → Option (List SegM × List UInt8)
  | 0, b => some ([], b)
  | n + 1, b =>
    if b.length < 8 then none else
    let info : InfoM := { flags := beNat (b.take 1), segId := beNat ((b.drop 1).take 2), ts := beNat ((b.drop 3).take 4) }
    let nh := beNat ((b.drop 7).take 1)
    let rest := b.drop 8
    if rest.length < 12 * nh then none else
    let hops := decodeN HopF.ofBytes 12 nh rest
    match parseSegs n (rest.drop (12 * nh)) with
    | some (ss, r) => some (⟨info, hops⟩ :: ss, r)
    | none => none

def parseM (b : List UInt8) : Option PathM :=
  if b.length < 3 then none else
  let ns := beNat ((b.drop 2).take 1)
  if ns > 3 then none else
  match parseSegs ns (b.drop 3) with
  | some (ss, []) => some { currInf := beNat (b.take 1), currHf := beNat ((b.drop 1).take 1), segs := ss }
  | _ => none

def optS (o : Option Nat) : String := match o with | some n => toString n | none => "-"
def b01 (b : Bool) : String := if b then "1" else "0"
def commaList (xs : List Nat) : String := if xs.isEmpty then "-" else ",".intercalate (xs.map toString)

def vq (p : PathV) : String :=
  let fe := match p.infos.head?, p.hops.head? with
    | some i, some h => some (h.egressIf i) | _, _ => none
  let li := match p.infos.getLast?, p.hops.getLast? with
    | some i, some h => some (h.ingressIf i) | _, _ => none
  let ce := match p.infoAt p.currInf, p.hopAt p.currHf with
    | some i, some h => some (h.egressIf i) | _, _ => none
  let cin := match p.infoAt p.currInf, p.hopAt p.currHf with
    | some i, some h => some (h.ingressIf i) | _, _ => none
  let si := match p.segIndex p.currHf with
    | some (s, a, e) => s!"{s}:{b01 a}:{b01 e}" | none => "-"
  s!"ic={p.infoCount} hc={p.hopCount} fe={optS fe} li={optS li} ce={optS ce} cin={optS cin} si={si} segs={commaList (p.segments.map (·.2.length))}"

def advErr : AdvErr → String
  | .hopOob n => s!"err hop_oob:{n}"
  | .infoOob n => s!"err info_oob:{n}"
  | .segIdx e a => s!"err seg_idx:{e}:{a}"
  | .single => "err state:single"
  | .segEnd => "err state:segend"

def validatorOf (key : String) : Option Validator :=
  if key == "-" then some noValidation else
  match parseHex key with
  | some k => if k.length = 16 then some (hopMacValidator aesMac k) else none
  | none => none

def withView (hx : String) (f : PathV → List UInt8 → String) : String :=
  match parseHex hx with
  | none => "bad-op"
  | some b => match ofBytes b with
    | none => "rejected"
    | some (p, rest) => f p rest

def withModel (hx : String) (f : PathM → String) : String :=
  match parseHex hx with
  | none => "bad-op"
  | some b => match parseM b with
    | none => "bad-op"
    | some m => f m

open ScionVerif.OneHop in
def withOneHop (hx : String) (f : OneHopV → String) : String :=
  match parseHex hx with
  | none => "bad-op"
  | some b => match ScionVerif.OneHop.ofBytes b with
    | none => "rejected"
    | some (v, _) => f v

def step (_ : Unit) : List String → Unit × String
  | ["parse", hx] => ((), match parseHex hx with
    | none => "bad-op"
    | some b => match ofBytes b with
      | none => "err"
      | some (_, rest) => s!"ok {b.length - rest.length}")
  | ["vrev", hx] => ((), withView hx fun p rest =>
      match reverseViewImp.run p with
      | (q, .ok _) => s!"ok {toHex (q.toBytes ++ rest)}"
      | (q, .error _) => s!"err {toHex (q.toBytes ++ rest)}")
  | ["vexp", hx] => ((), withView hx fun p _ => match p.expiration with
      | some e => toString e | none => "panic")
  | ["vq", hx] => ((), withView hx fun p _ => vq p)
  | ["vmodel", hx] => ((), withView hx fun p _ => toHex (showM (fromView p)))
  | ["mrev", hx] => ((), withModel hx fun m => match reverseModelImp.run m with
      | (q, .ok _) => s!"ok {toHex (showM q)}"
      | (q, .error _) => s!"err {toHex (showM q)}")
  | ["mexp", hx] => ((), withModel hx fun m => toString m.expiration)
  | ["mq", hx] => ((), withModel hx fun m =>
      s!"ic={m.infoCount} hc={m.hopCount} segs={m.segLen 0},{m.segLen 1},{m.segLen 2}")
  | ["menc", hx] => ((), withModel hx fun m => match m.encode with
      | some p => s!"ok {toHex p.toBytes}" | none => "err")
  | ["ohparse", hx] => ((), match parseHex hx with
    | none => "bad-op"
    | some b => match ScionVerif.OneHop.ofBytes b with
      | none => "err" | some (_, rest) => s!"ok {b.length - rest.length}")
  | ["ohvrev", hx] => ((), withOneHop hx fun v => match ScionVerif.OneHop.reverseViewImp.run v with
      | (q, .ok _) => s!"ok {toHex q.toBytes}"
      | (q, .error _) => s!"err {toHex q.toBytes}")
  | ["ohmrev", hx] => ((), withOneHop hx fun v =>
      match ScionVerif.OneHop.reverseModelImp.run (ScionVerif.OneHop.fromView v) with
      | (q, .ok _) => s!"ok {toHex q.encode.toBytes}"
      | (q, .error _) => s!"err {toHex q.encode.toBytes}")
  | ["ohdprev", hx] => ((), withOneHop hx fun v =>
      match ScionVerif.OneHop.toReversedStandard (ScionVerif.OneHop.fromView v) with
      | .ok m => s!"ok {toHex (showM m)}"
      | .error _ => "err")
  | ["ohexp", hx] =>((), withOneHop hx fun v => toString v.expiration)
  | ["ohvset", adv, key, hx] => ((), match parseHex key with
    | some k => if k.length ≠ 16 ∨ (adv ≠ "0" ∧ adv ≠ "1") then "bad-op" else
      withOneHop hx fun v => toHex (ScionVerif.OneHop.setSecondHopView aesMac v 0x1234 k (adv == "1")).toBytes
    | none => "bad-op")
  | ["ing", fi, key, hx] => ((),
    if fi ≠ "0" ∧ fi ≠ "1" then "bad-op" else
    match validatorOf key with
    | none => "bad-op"
    | some val => withView hx fun p rest =>
      match (ingressImp val (fi == "1")).run p with
      | (q, .ok o) =>
        let act := match o.action with
          | .forwardLocal => "local" | .continueEgress e => s!"egress:{e}"
        s!"ok a={b01 o.alert} if={o.ingressIf} act={act} v={b01 o.valid} {toHex (q.toBytes ++ rest)}"
      | (q, .err e) => s!"{advErr e} {toHex (q.toBytes ++ rest)}"
      | (q, .panic) => s!"panic {toHex (q.toBytes ++ rest)}")
  | ["egr", key, hx] => ((),
    match validatorOf key with
    | none => "bad-op"
    | some val => withView hx fun p rest =>
      match (egressImp val).run p with
      | (q, .ok o) => s!"ok a={b01 o.alert} if={o.egressIf} v={b01 o.valid} {toHex (q.toBytes ++ rest)}"
      | (q, .err e) => s!"{advErr e} {toHex (q.toBytes ++ rest)}"
      | (q, .panic) => s!"panic {toHex (q.toBytes ++ rest)}")
  | _ => ((), "bad-op")

def main : IO Unit := Driver.run () step
