import Driver.Common
import ScionVerif.Model.ScmpHandler
import ScionVerif.Model.ScmpSubscribers
/-!
line-protocol driver for the SCMP model (C14)

```
errpkt <kind> <dstIa> <srcIa> <dstNib> <srcNib> <dstHost> <srcHost> <pathType> <path> <offending>
        kind = du:<code> | ptb:<mtu> | pp:<code>:<ptr> | eid:<ia>:<if> | icd:<ia>:<in>:<eg>
     -> pkt <hex> | invalid                                  complete SCMP error packet (ScionScmpPacket::try_encode)
echopkt <ty> <id> <seq> <data> <dstIa> <srcIa> <dstNib> <srcNib> <dstHost> <srcHost> <pathType> <path>
     -> pkt <hex> | invalid                                  echo request (128) / reply (129) packet
cksum <pkt>          -> ok | bad | undecodable               receiver-side checksum verification of an SCMP packet
recv <handlers> <nrecv> <pkt> <rev>
        handlers = comma list of error|echo ; rev = fail | <pathType>:<hex path>
     -> undecodable | skip | udp <payload> <srcIa> <srcNib> <srcHost> <port> | drop
      | scmp sent=<hex,..|-> reports=<n>x<report|->          what the socket loop does with one packet
sim <action> <localIa> <localIf> <routerNib> <routerHost> <pkt> <rev> <offending|->
        action = scmp | err:<kind>
     -> reply <hex> | none | error | undecodable | invalid   pocketscion handle_scmp / SendSCMPErrorResponse
subs <ops>      ops = comma list of r (register, gets the next identity 0,1,2..) | x<id> (drop receiver id) | e (SCMP error)
     -> subs=<l;l;..>   one l per e: identities notified in call order, joined by '.', '-' = nobody
const
```
-/
open ScionVerif.Scmp ScionVerif.Generated.Scmp Driver

def nat? (s : String) : Option Nat := s.toNat?

def parseKind (s : String) : Option ErrKind :=
  match s.splitOn ":" with
  | ["du", c] => (nat? c).map .destUnreachable
  | ["ptb", m] => (nat? m).map .packetTooBig
  | ["pp", c, p] => do some (.paramProblem (← nat? c) (← nat? p))
  | ["eid", ia, i] => do some (.extIfDown (← nat? ia) (← nat? i))
  | ["icd", ia, i, e] => do some (.intConnDown (← nat? ia) (← nat? i) (← nat? e))
  | _ => none

def parseAddr (dIa sIa dN sN dH sH : String) : Option AddrHdr := do
  some { dstIa := ← nat? dIa, srcIa := ← nat? sIa, dstNib := ← nat? dN, srcNib := ← nat? sN,
         dstHost := ← parseHex dH, srcHost := ← parseHex sH }

def parseRev (s : String) : Option Rev :=
  if s == "fail" then some (fun _ _ => none) else
  match s.splitOn ":" with
  | [pt, h] => do
    let t ← nat? pt
    let b ← parseHex h
    some (fun _ _ => some (t, b))
  | _ => none

def parseHandlers (s : String) : Option (List Handler) :=
  if s == "-" then some [] else
  (s.splitOn ",").mapM fun
    | "error" => some Handler.error
    | "echo" => some Handler.echo
    | _ => none

def kindStr : ErrKind → String
  | .destUnreachable c => s!"du:{c}"
  | .packetTooBig m => s!"ptb:{m}"
  | .paramProblem c p => s!"pp:{c}:{p}"
  | .extIfDown ia i => s!"eid:{ia}:{i % 65536}"
  | .intConnDown ia i e => s!"icd:{ia}:{i % 65536}:{e % 65536}"

def reportStr (r : Report) : String := s!"{kindStr r.kind}/{toHex r.quote}/{r.pathType}/{toHex r.path}"

def hexList (l : List (List UInt8)) : String := if l.isEmpty then "-" else ",".intercalate (l.map toHex)

def stepStr (nRecv : Nat) (p : Pkt) (st : Step) : String :=
  if p.nextHdr = PROTO_UDP then
    match st.delivered with
    | some d => s!"udp {toHex d.payload} {d.srcIa} {d.srcNib} {toHex d.srcHost} {d.srcPort}"
    | none => "drop"
  else if p.nextHdr = PROTO_SCMP then
    let rep := match st.reports with
      | [] => "-"
      | (_, r) :: _ => reportStr r
    let uniform := st.reports.all (fun x => st.reports.head?.map (·.2) == some x.2) && st.reports.map (·.1) == List.range nRecv
    s!"scmp sent={hexList st.sent} reports={if st.reports.isEmpty then 0 else if uniform then nRecv else 999999}x{rep}"
  else "skip"

def simStr : SimOut → String
  | .reply r => match r.encode with
    | some b => s!"reply {toHex b}"
    | none => "invalid"
  | .none => "none"
  | .error => "error"

def parseSubsOp (s : String) : Option SubsOp :=
  if s == "r" then some .register
  else if s == "e" then some .error
  else if s.startsWith "x" then (nat? (s.drop 1).toString).map .drop
  else none

def subsStr (ls : List (List Nat)) : String :=
  "subs=" ++ ";".intercalate (ls.map fun l => if l.isEmpty then "-" else ".".intercalate (l.map toString))

def step (st : Unit) : List String → Unit × String
  | ["errpkt", k, dIa, sIa, dN, sN, dH, sH, pt, path, off] =>
    match parseKind k, parseAddr dIa sIa dN sN dH sH, nat? pt, parseHex path, parseHex off with
    | some k, some a, some pt, some path, some off =>
      (st, match errorPacket k off a pt path with | some b => s!"pkt {toHex b}" | none => "invalid")
    | _, _, _, _, _ => (st, "bad-op")
  | ["echopkt", ty, ident, seq, data, dIa, sIa, dN, sN, dH, sH, pt, path] =>
    match nat? ty, nat? ident, nat? seq, parseHex data, parseAddr dIa sIa dN sN dH sH, nat? pt, parseHex path with
    | some ty, some ident, some seq, some data, some a, some pt, some path =>
      let r : RawPkt := { nextHdr := PROTO_SCMP, addr := a, pathType := pt, path := path, payload := echoMsg ty ident seq data a }
      (st, match r.encode with | some b => s!"pkt {toHex b}" | none => "invalid")
    | _, _, _, _, _, _, _ => (st, "bad-op")
  | ["cksum", hx] => match parseHex hx with
    | some b => (st, match parsePkt b with
        | some p => if scmpChecksumOk p then "ok" else "bad"
        | none => "undecodable")
    | none => (st, "bad-op")
  | ["recv", hs, n, hx, rv] => match parseHandlers hs, nat? n, parseHex hx, parseRev rv with
    | some hs, some n, some b, some rev =>
      (st, match parsePkt b with
        | some p => stepStr n p (recvOne rev n hs p)
        | none => "undecodable")
    | _, _, _, _ => (st, "bad-op")
  | ["sim", act, lia, lif, rn, rh, hx, rv, offHex] =>
    match nat? lia, nat? lif, nat? rn, parseHex rh, parseHex hx, parseRev rv, parseHex offHex with
    | some lia, some lif, some rn, some rh, some b, some rev, some off =>
      match parsePkt b with
      | none => (st, "undecodable")
      | some p =>
        if act == "scmp" then (st, simStr (simHandleScmp rev lia lif rn rh p))
        else match act.splitOn ":" with
          | "err" :: rest => match parseKind (":".intercalate rest) with
            | some k => (st, simStr (simErrorReply rev lia rn rh k off p))
            | none => (st, "bad-op")
          | _ => (st, "bad-op")
    | _, _, _, _, _, _, _ => (st, "bad-op")
  | ["stackcfg", f] =>
    (st, match stackHandlers f with
      | none => "none"
      | some hs =>
        if hs.isEmpty then "-" else
        ",".intercalate (hs.map fun | .error => "error" | .echo => "echo" | .custom _ => "custom"))
  | ["subs", ops] =>
    (st, match (ops.splitOn ",").mapM parseSubsOp with
      | some ops => subsStr (subsRun {} ops)
      | none => "bad-op")
  | ["const"] => (st, s!"max {SCMP_ERROR_MAX_PACKET_SIZE} maxhdr {MAX_HEADER_SIZE} scmp {PROTO_SCMP} udp {PROTO_UDP} cover {CHECKSUM_COVERS_MESSAGE} verify {VERIFY_CHECKSUM_ON_RECEIVE} unknownerr {NO_REPLY_TO_UNKNOWN_ERROR}")
  | _ => (st, "bad-op")

def main : IO Unit := Driver.run () step
