import Driver.Common
import ScionVerif.Model.Combinator
/-!
line-protocol driver for the path-combinator model (C19, C04)

request  `combine <src> <dst> <#cores> <#noncores> <segment>*`
  segment `S <ts> <segid> <id-hex> <#entries> <entry>*`
  entry   `E <ia> <mtu> <ingress_mtu> <exp> <cons_ingress> <cons_egress> <mac> <#peers> <peer>*`
  peer    `P <peer_ia> <peer_if> <peer_mtu> <exp> <cons_ingress> <cons_egress> <mac>`
  (numbers decimal, the 32-byte segment id as hex, the 6-byte MAC as a decimal number)
response `ok tie=<0|1> cands=<n> <path>*`  or `panic <site>`
  path    `src|dst|mtu|expiry|ia#if,ia#if,..|<seg>;<seg>..`   seg `<C|c><P|p>:segid:ts:exp.in.eg.mac/..`
-/
open ScionVerif.Comb Driver

def hexNat (s : String) : Option Nat :=
  s.toList.foldl (fun acc c => match acc, hexDigit c with
    | some a, some d => some (a * 16 + d)
    | _, _ => none) (some 0)

def nat (s : String) : Option Nat := s.toNat?

def parsePeers : Nat → List String → Option (List PeerE × List String)
  | 0, ts => some ([], ts)
  | n + 1, "P" :: a :: b :: c :: d :: e :: f :: g :: ts =>
    match nat a, nat b, nat c, nat d, nat e, nat f, nat g with
    | some a, some b, some c, some d, some e, some f, some g =>
      match parsePeers n ts with
      | some (ps, rest) => some (⟨a, b, c, ⟨d, e, f, g⟩⟩ :: ps, rest)
      | none => none
    | _, _, _, _, _, _, _ => none
  | _, _ => none

def parseEntries : Nat → List String → Option (List AsE × List String)
  | 0, ts => some ([], ts)
  | n + 1, "E" :: a :: b :: c :: d :: e :: f :: g :: np :: ts =>
    match nat a, nat b, nat c, nat d, nat e, nat f, nat g, nat np with
    | some a, some b, some c, some d, some e, some f, some g, some np =>
      match parsePeers np ts with
      | some (ps, rest) =>
        match parseEntries n rest with
        | some (es, rest') => some (⟨a, b, c, ⟨d, e, f, g⟩, ps⟩ :: es, rest')
        | none => none
      | none => none
    | _, _, _, _, _, _, _, _ => none
  | _, _ => none

def parseSegs : Nat → List String → Option (List Seg × List String)
  | 0, ts => some ([], ts)
  | n + 1, "S" :: a :: b :: idh :: ne :: ts =>
    match nat a, nat b, hexNat idh, nat ne with
    | some a, some b, some id, some ne =>
      match parseEntries ne ts with
      | some (es, rest) =>
        match parseSegs n rest with
        | some (ss, rest') => some (⟨a, b, es, id⟩ :: ss, rest')
        | none => none
      | none => none
    | _, _, _, _ => none
  | _, _ => none

def sep (s : String) (xs : List String) : String :=
  if xs.isEmpty then "-" else s.intercalate xs

def hopStr (h : HopF) : String := s!"{h.exp}.{h.ingress}.{h.egress}.{h.mac}"

def segStr (s : PSeg) : String :=
  (if s.consDir then "C" else "c") ++ (if s.peering then "P" else "p") ++
    s!":{s.segid}:{s.ts}:" ++ sep "/" (s.hops.map hopStr)

def pathStr (p : Path) : String :=
  s!"{p.src}|{p.dst}|{p.mtu}|{p.expiry}|" ++ sep "," (p.ifs.map fun i => s!"{i.1}#{i.2}") ++ "|" ++
    sep ";" (p.segs.map segStr)

def siteStr : Site → String
  | .weightUnderflow => "weight_underflow"
  | .capacityUnderflow => "capacity_underflow"
  | .peerIndex => "peer_index"
  | .lastIa => "last_ia"
  | .sliceRange => "slice_range"
  | .tryPush => "try_push"
  | .expTooLarge => "exp_too_large"
  | .viewInvalid => "view_invalid"

def step (st : Unit) : List String → Unit × String
  | "combine" :: src :: dst :: nc :: nn :: ts =>
    match nat src, nat dst, nat nc, nat nn with
    | some src, some dst, some nc, some nn =>
      match parseSegs nc ts with
      | some (cores, rest) =>
        match parseSegs nn rest with
        | some (nonCores, []) =>
          match combine src dst cores nonCores with
          | .error s => (st, "panic " ++ siteStr s)
          | .ok ps =>
            let cands := if src = dst then [] else sortedCandidates src dst (inputSegs cores nonCores)
            let tie := if hasTie cands then "1" else "0"
            (st, s!"ok tie={tie} cands={cands.length}" ++ String.join (ps.map fun p => " " ++ pathStr p))
        | _ => (st, "bad-op")
      | none => (st, "bad-op")
    | _, _, _, _ => (st, "bad-op")
  | _ => (st, "bad-op")

def main : IO Unit := Driver.run () step
