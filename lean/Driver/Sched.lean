import Driver.Common
import ScionVerif.Model.Sched
/-! line-protocol driver for the path-manager concurrency model (C20).

The harness proposes a schedule action by action; every action is answered `ok` (it was enabled in the
model and has been executed) or `disabled` (it is not enabled in the current model state – the observed
trace is *not* a trace of the model).  `q …` requests read the model state for comparison with what the
real `MultiPathManager` showed.
-/
open ScionVerif.Sched Driver

def parseStore : String → Option Store
  | "keep" => some .keep
  | "clear" => some .clear
  | s => if s.startsWith "set:" then (s.drop 4).toNat?.map Store.set else none

def parseRes : String → Option FetchRes
  | "ok" => some .ok
  | "empty" => some .empty
  | "err" => some .err
  | _ => none

def parseWAct : List String → Option WAct
  | ["upgradeStart"] => some .upgradeStart
  | ["setOngoing"] => some .setOngoing
  | ["fetchDone", r] => (parseRes r).map .fetchDone
  | ["cacheStore", a] => (parseStore a).map .cacheStore
  | ["setErr"] => some .setErr
  | ["publishActive", a] => (parseStore a).map .publishActive
  | ["clearAndNotify"] => some .clearAndNotify
  | ["releaseMgr"] => some .releaseMgr
  | ["cancelSeen"] => some .cancelSeen
  | ["mgrGone"] => some .mgrGone
  | ["tickRefetch"] => some .tickRefetch
  | ["tickIdle"] => some .tickIdle
  | ["tickNothing", "0"] => some (.tickNothing false)
  | ["tickNothing", "1"] => some (.tickNothing true)
  | ["issueRx", a] => (parseStore a).map .issueRx
  | ["exitRemove"] => some .exitRemove
  | ["exitNotify"] => some .exitNotify
  | ["storeNone"] => some .storeNone
  | _ => none

def parseTAct : String → Option TAct
  | "peek" => some (.peek false)
  | "peekExpired" => some (.peek true)
  | "contains" => some .contains
  | "ensure" => some .ensure
  | "loadActive" => some (.loadActive false)
  | "loadActiveExpired" => some (.loadActive true)
  | "lockCheck" => some .lockCheck
  | "awake" => some .awake
  | "reload" => some (.reload false)
  | "reloadExpired" => some (.reload true)
  | "readErr" => some .readErr
  | _ => none

def tActName : TAct → String
  | .peek e => if e then "peekExpired" else "peek"
  | .contains => "contains" | .ensure => "ensure"
  | .loadActive e => if e then "loadActiveExpired" else "loadActive"
  | .lockCheck => "lockCheck" | .awake => "awake"
  | .reload e => if e then "reloadExpired" else "reload"
  | .readErr => "readErr"

def reasonStr : Reason → String
  | .idle => "idle" | .cancelled => "cancelled" | .mgrGone => "mgrGone"

def errStr : Err → String
  | .noPaths => "noPaths" | .fetchFailed => "fetchFailed" | .exited r => "exited:" ++ reasonStr r

def frStr : FetchRes → String
  | .ok => "ok" | .empty => "empty" | .err => "err"

def wpcStr : WPc → String
  | .start => "start" | .setOngoing => "setOngoing" | .fetching => "fetching"
  | .cache r => "cache:" ++ frStr r | .setErr r => "setErr:" ++ frStr r | .publish => "publish"
  | .clear => "clear" | .release => "release" | .loop => "loop"
  | .exitRemove r => "exitRemove:" ++ reasonStr r | .exitNotify r => "exitNotify:" ++ reasonStr r
  | .exitStore => "exitStore" | .done => "done"

def tpcStr : TPc → String
  | .peek => "peek" | .contains => "contains" | .ensure => "ensure" | .loadActive => "loadActive"
  | .lockCheck => "lockCheck" | .waiting g => s!"waiting:{g}" | .reload => "reload" | .readErr => "readErr"
  | .done => "done"

def kindStr : Kind → String
  | .path => "path" | .cached => "cached" | .handle => "handle"

def resStr : Option Res → String
  | none => "-"
  | some (.path p) => s!"path:{p}"
  | some (.err e) => "err:" ++ errStr e
  | some .nothing => "nothing"

def optNat : Option Nat → String
  | none => "-"
  | some n => toString n

def b01 (b : Bool) : String := if b then "1" else "0"

def doAct (st : State) (a : Action) : State × String :=
  match step? st a with
  | some st' => (st', "ok")
  | none => (st, "disabled")

def stepD (st : State) : List String → State × String
  | ["reset"] => (State.init, "ok")
  | "w" :: i :: rest =>
    match i.toNat?, parseWAct rest with
    | some i, some a => doAct st (.w i a)
    | _, _ => (st, "bad-op")
  | ["t", j, "next"] =>
    match j.toNat? with
    | some j =>
      if j < st.nT then
        match (st.t j).nextAct with
        | some a =>
          match step? st (.t j a) with
          | some st' => (st', "ok " ++ tActName a)
          | none => (st, "blocked")
        | none => (st, "disabled")
      else (st, "disabled")
    | none => (st, "bad-op")
  | ["t", j, a] =>
    match j.toNat?, parseTAct a with
    | some j, some a => doAct st (.t j a)
    | _, _ => (st, "bad-op")
  | ["m", "spawnPath", k] => match k.toNat? with
    | some k => doAct st (.m (.spawnPath k))
    | none => (st, "bad-op")
  | ["m", "spawnCached", k] => match k.toNat? with
    | some k => doAct st (.m (.spawnCached k))
    | none => (st, "bad-op")
  | ["m", "spawnHandle", i] => match i.toNat? with
    | some i => doAct st (.m (.spawnHandle i))
    | none => (st, "bad-op")
  | ["m", "stop", k] => match k.toNat? with
    | some k => doAct st (.m (.stop k))
    | none => (st, "bad-op")
  | ["m", "drop"] => doAct st (.m .drop)
  | ["m", "reclaim", i] => match i.toNat? with
    | some i => doAct st (.m (.reclaim i))
    | none => (st, "bad-op")
  | ["q", "t", j] => match j.toNat? with
    | some j =>
      if j < st.nT then
        let t := st.t j
        (st, s!"{kindStr t.kind} key={t.key} pc={tpcStr t.pc} h={optNat t.h} res={resStr t.res}")
      else (st, "none")
    | none => (st, "bad-op")
  | ["q", "w", i] => match i.toNat? with
    | some i =>
      if i < st.nW then
        let x := st.w i
        (st, s!"key={x.key} pc={wpcStr x.pc} init={b01 x.sh.initialized} ongoing={b01 x.sh.ongoing} " ++
             s!"err={(x.sh.error.map errStr).getD "-"} active={optNat x.sh.active} gen={x.sh.gen} " ++
             s!"used={b01 x.used} cancelled={b01 x.cancelled} fetches={x.fetches}")
      else (st, "none")
    | none => (st, "bad-op")
  | ["q", "k", k] => match k.toNat? with
    | some k => (st, s!"entry={optNat (st.map k)} spawned={st.spawned k} removed={st.removed k}")
    | none => (st, "bad-op")
  | ["q", "g"] => (st, s!"nW={st.nW} nT={st.nT} alive={b01 st.alive} dropped={b01 st.userDropped}")
  | _ => (st, "bad-op")

/-- driver state: current model state + a stack of saved states (`save` / `restore` / `forget`), used by the
harness to try candidate linearisations of a racy segment -/
def stepS (st : State × List State) : List String → (State × List State) × String
  | ["save"] => ((st.1, st.1 :: st.2), "ok")
  | ["restore"] => match st.2 with
    | s :: rest => ((s, rest), "ok")
    | [] => (st, "disabled")
  | ["forget"] => match st.2 with
    | _ :: rest => ((st.1, rest), "ok")
    | [] => (st, "disabled")
  | ["reset"] => ((State.init, []), "ok")
  | ws => let (s', r) := stepD st.1 ws; ((s', st.2), r)

def main : IO Unit := Driver.run (State.init, ([] : List State)) stepS
