import Driver.Common
import ScionVerif.Model.HopPred
import ScionVerif.Model.Acl
import ScionVerif.Model.HopPattern
/-!
Line-protocol driver for the path-policy models (C16).  Strings travel as hex of their UTF-8 bytes.

```
ws                               -> code points < 0x3100 with isRustWhitespace, decimal, space separated
pred <hex>                       -> ok <Debug of HopPredicate> | err
show <pred>                      -> <hex of Display>                 pred = isd/asn|n/a|e<k>|b<k>,<m>
pm <pred> <hop> ...              -> 0/1 per hop                      hop  = isd:asn:in:eg
lex <hex>                        -> <kind>:<lo>:<hi> ...             kind = P<hex> ! & | ( ) ? + * $
ptoks <kind> ...                 -> ok <Debug of HopPatternPolicy> | err <class> <token index|->
parse <hex>                      -> same, on the lexed string
pmatch <hex> <hops> ...          -> 0/1 per hop sequence | err       hops = hop,hop,... | -
acl <hex>                        -> ok <Debug of AclPolicy> | err <class>
aclmatch <hex> <hops> ...        -> 0/1 per hop sequence | err
aclm <+|-> <entries|_> <hops>... -> 0/1 per hop sequence             entries = +pred;-pred;...
hops <nometa|noifs|-|iface,...>  -> ok <hops> | err <class>          iface = isd:asn:id
```
-/
open ScionVerif.Policy Driver

def hexToChars (h : String) : Option (List Char) :=
  match parseHex h with
  | none => none
  | some bs => (String.fromUTF8? (ByteArray.mk bs.toArray)).map (·.toList)

def charsToHex (cs : List Char) : String := toHex (String.ofList cs).toUTF8.toList

def str (cs : List Char) : String := String.ofList cs

/-! Rust `{:?}` renderings -/
def dbgIfs : Ifs → String
  | .any => "Any"
  | .either a => s!"Either(InterfacePredicate({a}))"
  | .both a b => "Both { ingress: InterfacePredicate(" ++ toString a ++ "), egress: InterfacePredicate(" ++ toString b ++ ") }"

def dbgPred (p : Pred) : String :=
  "HopPredicate { isd: " ++ toString p.isd ++ ", asn: " ++
    (match p.asn with | some a => "Some(" ++ str (showAsn a) ++ ")" | none => "None") ++
    ", interfaces: " ++ dbgIfs p.ifs ++ " }"

def dbgExpr : Expr → String
  | .pred p => "HopPredicate(" ++ dbgPred p ++ ")"
  | .or a b => "Or(" ++ dbgExpr a ++ ", " ++ dbgExpr b ++ ")"
  | .optional a => "Optional(" ++ dbgExpr a ++ ")"
  | .oneOrMore a => "OneOrMore(" ++ dbgExpr a ++ ")"
  | .zeroOrMore a => "ZeroOrMore(" ++ dbgExpr a ++ ")"

def dbgPolicy (es : List Expr) : String :=
  "HopPatternPolicy([" ++ ", ".intercalate (es.map dbgExpr) ++ "])"

def dbgOp : Op → String
  | .allow => "Allow"
  | .deny => "Deny"

def dbgAcl (a : Acl) : String :=
  "AclPolicy { entries: [" ++
    ", ".intercalate (a.entries.map fun e =>
      "AclEntry { operator: " ++ dbgOp e.op ++ ", hop_predicate: " ++ dbgPred e.pred ++ " }") ++
    "], default: " ++ dbgOp a.default ++ " }"

def perrStr (total : Nat) : PErr → String
  | .invalidPred r => s!"err invalid_pred {total - r}"
  | .bangUnsupported r => s!"err bang {total - r}"
  | .expectedRParen r => s!"err expected_rparen {total - r}"
  | .unclosedParen r => s!"err unclosed_paren {total - r}"
  | .unexpectedToken r => s!"err unexpected_token {total - r}"
  | .unexpectedEnd => "err unexpected_end -"
  | .andUnsupported r => s!"err and {total - r}"
  | .trailingTokens r => s!"err trailing {total - r}"
  | .tooDeep r => s!"err too_deep {total - r}"
  | .fuel => "err FUEL -"

def aclErrStr : AclErr → String
  | .invalidOperator => "err invalid_operator"
  | .invalidPredicate => "err invalid_predicate"
  | .wildcardNotLast => "err wildcard_not_last"
  | .missingDefault => "err missing_default"

/-! request decoding -/
def natOf (s : String) : Option Nat := s.toNat?

def splitStr (s : String) (sep : Char) : List String := s.splitOn (String.singleton sep)

def parseHopStr (s : String) : Option Hop :=
  match (splitStr s ':').map natOf with
  | [some a, some b, some c, some d] => some ⟨a, b, c, d⟩
  | _ => none

def allSome {α : Type} : List (Option α) → Option (List α)
  | [] => some []
  | none :: _ => none
  | some x :: xs => (allSome xs).map (x :: ·)

def parseHopsStr (s : String) : Option (List Hop) :=
  if s == "-" then some [] else allSome ((splitStr s ',').map parseHopStr)

def parseIfsStr (s : String) : Option Ifs :=
  if s == "a" then some .any
  else match s.toList with
    | 'e' :: r => (natOf (String.ofList r)).map .either
    | 'b' :: r =>
      match (splitStr (String.ofList r) ',').map natOf with
      | [some x, some y] => some (.both x y)
      | _ => none
    | _ => none

def parsePredStr (s : String) : Option Pred :=
  match splitStr s '/' with
  | [i, a, f] =>
    match natOf i, (if a == "n" then some none else (natOf a).map some), parseIfsStr f with
    | some isd, some asn, some ifs => some ⟨isd, asn, ifs⟩
    | _, _, _ => none
  | _ => none

def parseEntryStr (s : String) : Option Entry :=
  match s.toList with
  | '+' :: r => (parsePredStr (String.ofList r)).map (⟨.allow, ·⟩)
  | '-' :: r => (parsePredStr (String.ofList r)).map (⟨.deny, ·⟩)
  | _ => none

def parseEntriesStr (s : String) : Option (List Entry) :=
  if s == "_" then some [] else allSome ((splitStr s ';').map parseEntryStr)

def parseTokStr (s : String) : Option Tok :=
  match s.toList with
  | ['!'] => some .bang | ['&'] => some .and | ['|'] => some .or | ['('] => some .lparen
  | [')'] => some .rparen | ['?'] => some .qmark | ['+'] => some .plus | ['*'] => some .star
  | ['$'] => some .eoi
  | 'P' :: r => (hexToChars (String.ofList r)).map .pred
  | _ => none

def tokStr : Tok → String
  | .pred s => "P" ++ charsToHex s
  | .bang => "!" | .and => "&" | .or => "|" | .lparen => "(" | .rparen => ")"
  | .qmark => "?" | .plus => "+" | .star => "*" | .eoi => "$"

def parseIfaceStr (s : String) : Option Iface :=
  match (splitStr s ':').map natOf with
  | [some a, some b, some c] => some ⟨a, b, c⟩
  | _ => none

def bits (bs : List Bool) : String := String.ofList (bs.map fun b => if b then '1' else '0')

def hopStr (h : Hop) : String := s!"{h.isd}:{h.asn}:{h.ingress}:{h.egress}"

def parseResult (toks : List Tok) : String :=
  match parseTokens toks with
  | .ok es => "ok " ++ dbgPolicy es
  | .error e => perrStr toks.length e

def step (st : Unit) : List String → Unit × String
  | ["ws"] =>
    (st, " ".intercalate (((List.range 0x3100).filter fun n => isRustWhitespace (Char.ofNat n)).map toString))
  | ["pred", hx] =>
    match hexToChars hx with
    | none => (st, "bad-op")
    | some s => match parsePred s with
      | some p => (st, "ok " ++ dbgPred p)
      | none => (st, "err")
  | ["show", p] =>
    match parsePredStr p with
    | some p => (st, charsToHex (showPred p))
    | none => (st, "bad-op")
  | "pm" :: p :: hops =>
    match parsePredStr p, allSome (hops.map parseHopStr) with
    | some p, some hs => (st, bits (hs.map p.matches))
    | _, _ => (st, "bad-op")
  | ["lex", hx] =>
    match hexToChars hx with
    | none => (st, "bad-op")
    | some s => (st, " ".intercalate ((lex s).map fun t => s!"{tokStr t.kind}:{t.lo}:{t.hi}"))
  | "ptoks" :: toks =>
    match allSome (toks.map parseTokStr) with
    | some ts => (st, parseResult ts)
    | none => (st, "bad-op")
  | ["parse", hx] =>
    match hexToChars hx with
    | none => (st, "bad-op")
    | some s => (st, parseResult (lexKinds s))
  | "pmatch" :: hx :: hops =>
    match hexToChars hx, allSome (hops.map parseHopsStr) with
    | some s, some hss =>
      match parsePolicy s with
      | .ok es => (st, bits (hss.map (matchPolicy es)))
      | .error _ => (st, "err")
    | _, _ => (st, "bad-op")
  | ["acl", hx] =>
    match hexToChars hx with
    | none => (st, "bad-op")
    | some s => match parseAcl s with
      | .ok a => (st, "ok " ++ dbgAcl a)
      | .error e => (st, aclErrStr e)
  | "aclmatch" :: hx :: hops =>
    match hexToChars hx, allSome (hops.map parseHopsStr) with
    | some s, some hss =>
      match parseAcl s with
      | .ok a => (st, bits (hss.map a.matches))
      | .error _ => (st, "err")
    | _, _ => (st, "bad-op")
  | "aclm" :: d :: es :: hops =>
    match (if d == "+" then some Op.allow else if d == "-" then some Op.deny else none),
          parseEntriesStr es, allSome (hops.map parseHopsStr) with
    | some d, some es, some hss => (st, bits (hss.map (Acl.matches ⟨es, d⟩)))
    | _, _, _ => (st, "bad-op")
  | ["hops", x] =>
    let arg : Option (Option (Option (List Iface))) :=
      if x == "nometa" then some none
      else if x == "noifs" then some (some none)
      else if x == "-" then some (some (some []))
      else (allSome ((splitStr x ',').map parseIfaceStr)).map (fun l => some (some l))
    match arg with
    | none => (st, "bad-op")
    | some a =>
      match hopsFromPath a with
      | .ok hs => (st, "ok " ++ ",".intercalate (hs.map hopStr))
      | .error .noMetadata => (st, "err no_metadata")
      | .error .noInterfaces => (st, "err no_interfaces")
      | .error .oddInterfaces => (st, "err odd_interfaces")
      | .error .differentIsdAsn => (st, "err different_isd_asn")
  | _ => (st, "bad-op")

def main : IO Unit := Driver.run () step
