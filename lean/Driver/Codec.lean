import Driver.Common
import ScionVerif.Model.Layout
import ScionVerif.Model.Access
/-! line-protocol driver for the codec models (C02: view sizes and access ranges; C03: encode / decode)

requests
* `size <kind> <hex>`      → `ok <n>` | `err small <at> <required> <actual>` | `err other <msg>` | `panic`
  kinds: header stdpath onehop info hop raw udppkt scmppkt udp scmp scmpmsg:<Name>
* `ranges <kind> <hex>`    → `name=off+len …` for the slice-returning accessors of an accepted view (Model/Access)
* `const <name>`           → `<n>` (a generated constant, for the translator sanity check)
-/
open ScionVerif ScionVerif.Layout ScionVerif.Access ScionVerif.Generated.Layout Driver

def us (s : String) : String := String.ofList (s.toList.map (fun c => if c == ' ' then '_' else c))

def errStr : VErr → String
  | .tooSmall a r n => s!"err small {us a} {r} {n}"
  | .other m => s!"err other {us m}"
  | .panic => "panic"

def sizeStr : Except VErr Nat → String
  | .ok n => s!"ok {n}"
  | .error e => errStr e

def kindOf (s : String) : Option ViewKind :=
  match s with
  | "header" => some .header
  | "stdpath" => some .stdPath
  | "onehop" => some .oneHop
  | "info" => some .infoField
  | "hop" => some .hopField
  | "raw" => some .rawPacket
  | "udppkt" => some .udpPacket
  | "scmppkt" => some .scmpPacket
  | "udp" => some .udp
  | "scmp" => some .scmp
  | _ =>
    if s.startsWith "scmpmsg:" then
      let name := (s.drop 8).toString
      match scmpKinds.findIdx? (fun k => k.name == name) with
      | some i => some (.scmpMsg i)
      | none => none
    else none

def constOf (s : String) : Option Nat :=
  match s with
  | "CommonHeader.SIZE_BYTES" => some CommonHeader.SIZE_BYTES
  | "StdPathMeta.SIZE_BYTES" => some StdPathMeta.SIZE_BYTES
  | "InfoField.SIZE_BYTES" => some InfoField.SIZE_BYTES
  | "HopField.SIZE_BYTES" => some HopField.SIZE_BYTES
  | "OneHopPath.SIZE_BYTES" => some OneHopPath.SIZE_BYTES
  | "UdpDatagram.HEADER_SIZE_BYTES" => some UdpDatagram.HEADER_SIZE_BYTES
  | "ScionHeader.MAX_SIZE_BYTES" => some ScionHeader.MAX_SIZE_BYTES
  | "HopField.MAC_RNG.start" => some HopField.MAC_RNG.start
  | "HopField.MAC_RNG.stop" => some HopField.MAC_RNG.stop
  | "CommonHeader.FLOW_ID_RNG.start" => some CommonHeader.FLOW_ID_RNG.start
  | "CommonHeader.FLOW_ID_RNG.stop" => some CommonHeader.FLOW_ID_RNG.stop
  | "SCMP_ERROR_MAX_PACKET_SIZE" => some SCMP_ERROR_MAX_PACKET_SIZE
  | _ => none

def rngStr (name : String) (r : Nat × Nat) : String := s!"{name}={r.1}+{r.2 - r.1}"

/-- the ranges of the slice-returning accessors the harness can observe by pointer arithmetic -/
def observable (k : String) (v : Bytes) : Option (List String) :=
  let find (accs : List Acc) (n : String) : List String :=
    match accs.find? (fun a => a.name == n) with
    | some a => a.ranges.map (rngStr n)
    | none => []
  match k with
  | "header" =>
    some (match pathRng v with
      | some r => [rngStr "path" r]
      | none => ["path=-"])
  | "stdpath" =>
    let accs := stdAccs v
    let s := segFields v 0
    let ic := infoCount s.1 s.2.1 s.2.2
    let hc := hopCount s.1 s.2.1 s.2.2
    let ci := readBits v StdPathMeta.CURR_INFO_FIELD_RNG
    let ch := readBits v StdPathMeta.CURR_HOP_FIELD_RNG
    let infoOff := StdPathMeta.SIZE_BYTES
    let hopOff := infoOff + ic * InfoField.SIZE_BYTES
    some (find accs "info_fields" ++ find accs "hop_fields" ++
      (if ci < ic then [rngStr "curr_info_field" (infoOff + ci * InfoField.SIZE_BYTES, infoOff + ci * InfoField.SIZE_BYTES + InfoField.SIZE_BYTES)] else []) ++
      (if ch < hc then [rngStr "curr_hop_field" (hopOff + ch * HopField.SIZE_BYTES, hopOff + ch * HopField.SIZE_BYTES + HopField.SIZE_BYTES)] else []))
  | "raw" => some (find (rawAccs v) "header" ++ find (rawAccs v) "payload")
  | "udppkt" =>
    let pay := pktPayload v
    let n := min pay.length (readBits pay UdpDatagram.LENGTH_RNG)
    some (find (rawAccs v) "header" ++ find (rawAccs v) "payload" ++
      [rngStr "udp" (pktHl v, pktHl v + n), rngStr "udp.payload" (pktHl v + UdpDatagram.HEADER_SIZE_BYTES, pktHl v + n)])
  | "scmppkt" =>
    let pay := pktPayload v
    let kr := scmpRow (readBits (pay.take scmpMinSize) ScmpMessage.TYPE_RNG)
    let n := if kr.varLen then pay.length else kr.headerSize
    some (find (rawAccs v) "header" ++ find (rawAccs v) "payload" ++ [rngStr "scmp" (pktHl v, pktHl v + n)])
  | "udp" => some (find (udpAccs v) "payload")
  | _ => none

def step (st : Unit) : List String → Unit × String
  | ["size", k, hx] =>
    match kindOf k, parseHex hx with
    | some kind, some bs => (st, sizeStr (requiredSize kind bs))
    | _, _ => (st, "bad-op")
  | ["ranges", k, hx] =>
    match parseHex hx with
    | some bs =>
      match observable k bs with
      | some l => (st, String.intercalate " " l)
      | none => (st, "bad-op")
    | none => (st, "bad-op")
  | ["const", n] =>
    match constOf n with
    | some v => (st, toString v)
    | none => (st, "bad-op")
  | _ => (st, "bad-op")

def main : IO Unit := Driver.run () step
