import Driver.Common
import ScionVerif.Model.Layout
/-! line-protocol driver for the codec models (C02: view sizes and access ranges; C03: encode / decode)

requests
* `size <kind> <hex>`      → `ok <n>` | `err small <at> <required> <actual>` | `err other <msg>` | `panic`
  kinds: header stdpath onehop info hop raw udppkt scmppkt udp scmp scmpmsg:<Name>
* `const <name>`           → `<n>` (a generated constant, for the translator sanity check)
-/
open ScionVerif ScionVerif.Layout ScionVerif.Generated.Layout Driver

def us (s : String) : String := String.ofList (s.toList.map (fun c => if c == ' ' then '_' else c))

def errStr : VErr → String
  | .tooSmall a r n => s!"err small {us a} {r} {n}"
  | .other m => s!"err other {us m}"
  | .panic => "panic"

def sizeStr : Except VErr Nat → String
  | .ok n => s!"ok {n}"
  | .error e => errStr e

def kindOf (s : String) : Option ViewKind :=
  match s with
  | "header" => some .header
  | "stdpath" => some .stdPath
  | "onehop" => some .oneHop
  | "info" => some .infoField
  | "hop" => some .hopField
  | "raw" => some .rawPacket
  | "udppkt" => some .udpPacket
  | "scmppkt" => some .scmpPacket
  | "udp" => some .udp
  | "scmp" => some .scmp
  | _ =>
    if s.startsWith "scmpmsg:" then
      let name := (s.drop 8).toString
      match scmpKinds.findIdx? (fun k => k.name == name) with
      | some i => some (.scmpMsg i)
      | none => none
    else none

def constOf (s : String) : Option Nat :=
  match s with
  | "CommonHeader.SIZE_BYTES" => some CommonHeader.SIZE_BYTES
  | "StdPathMeta.SIZE_BYTES" => some StdPathMeta.SIZE_BYTES
  | "InfoField.SIZE_BYTES" => some InfoField.SIZE_BYTES
  | "HopField.SIZE_BYTES" => some HopField.SIZE_BYTES
  | "OneHopPath.SIZE_BYTES" => some OneHopPath.SIZE_BYTES
  | "UdpDatagram.HEADER_SIZE_BYTES" => some UdpDatagram.HEADER_SIZE_BYTES
  | "ScionHeader.MAX_SIZE_BYTES" => some ScionHeader.MAX_SIZE_BYTES
  | "HopField.MAC_RNG.start" => some HopField.MAC_RNG.start
  | "HopField.MAC_RNG.stop" => some HopField.MAC_RNG.stop
  | "CommonHeader.FLOW_ID_RNG.start" => some CommonHeader.FLOW_ID_RNG.start
  | "CommonHeader.FLOW_ID_RNG.stop" => some CommonHeader.FLOW_ID_RNG.stop
  | "SCMP_ERROR_MAX_PACKET_SIZE" => some SCMP_ERROR_MAX_PACKET_SIZE
  | _ => none

def step (st : Unit) : List String → Unit × String
  | ["size", k, hx] =>
    match kindOf k, parseHex hx with
    | some kind, some bs => (st, sizeStr (requiredSize kind bs))
    | _, _ => (st, "bad-op")
  | ["const", n] =>
    match constOf n with
    | some v => (st, toString v)
    | none => (st, "bad-op")
  | _ => (st, "bad-op")

def main : IO Unit := Driver.run () step
