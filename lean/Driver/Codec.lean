import Driver.Common
import ScionVerif.Model.Layout
import ScionVerif.Model.Access
import ScionVerif.Model.Packet
import ScionVerif.Spec.RefDecode
/-! line-protocol driver for the codec models (C02: view sizes and access ranges; C03: encode / decode)

requests
* `size <kind> <hex>`      → `ok <n>` | `err small <at> <required> <actual>` | `err other <msg>` | `panic`
  kinds: header stdpath onehop info hop raw udppkt scmppkt udp scmp scmpmsg:<Name>
* `ranges <kind> <hex>`    → `name=off+len …` for the slice-returning accessors of an accepted view (Model/Access)
* `enc <model>`            → `ok <hex>` | `err <wire_valid message>`      (Model/Packet.encode)
* `dec <raw|udp|scmp> <hex>` → `ok <consumed> <model>` | `err …`            (Model/Packet.decode)
* `ref <hex>`              → `ok hl=<n> pl=<n> rsv=<n> ulen=<n> ucs=<n> scs=<n> <model-as-read-by-the-reference-decoder>` | `none`
* `cksum <dia> <sia> <dsthex> <srchex> <proto> <a1><a2><a3> <msghex>` → digest model and spec value
  model grammar: `tc flow nh dia sia dst src path payload` (see `showPacket`)
* `const <name>`           → `<n>` (a generated constant, for the translator sanity check)
* `setters`                → `View::fn:safe|exempt|unsafe:start:stop …` every setter of Generated/Setters.lean
* `mutfns`                 → `View::fn:safe|unsafe:modelled|unmodelled …` every other `&mut self` function
* `saferanges <kind> <hex>` → `start-stop …` = Access.safeSetterRanges of the view bytes
-/
open ScionVerif ScionVerif.Layout ScionVerif.Access ScionVerif.Generated.Layout ScionVerif.Packet Driver

def us (s : String) : String := String.ofList (s.toList.map (fun c => if c == ' ' then '_' else c))

def errStr : VErr → String
  | .tooSmall a r n => s!"err small {us a} {r} {n}"
  | .other m => s!"err other {us m}"
  | .panic => "panic"

def sizeStr : Except VErr Nat → String
  | .ok n => s!"ok {n}"
  | .error e => errStr e

def kindOf (s : String) : Option ViewKind :=
  match s with
  | "header" => some .header
  | "stdpath" => some .stdPath
  | "onehop" => some .oneHop
  | "info" => some .infoField
  | "hop" => some .hopField
  | "raw" => some .rawPacket
  | "udppkt" => some .udpPacket
  | "scmppkt" => some .scmpPacket
  | "udp" => some .udp
  | "scmp" => some .scmp
  | _ =>
    if s.startsWith "scmpmsg:" then
      let name := (s.drop 8).toString
      match scmpKinds.findIdx? (fun k => k.name == name) with
      | some i => some (.scmpMsg i)
      | none => none
    else none

def constOf (s : String) : Option Nat :=
  match s with
  | "CommonHeader.SIZE_BYTES" => some CommonHeader.SIZE_BYTES
  | "StdPathMeta.SIZE_BYTES" => some StdPathMeta.SIZE_BYTES
  | "InfoField.SIZE_BYTES" => some InfoField.SIZE_BYTES
  | "HopField.SIZE_BYTES" => some HopField.SIZE_BYTES
  | "OneHopPath.SIZE_BYTES" => some OneHopPath.SIZE_BYTES
  | "UdpDatagram.HEADER_SIZE_BYTES" => some UdpDatagram.HEADER_SIZE_BYTES
  | "ScionHeader.MAX_SIZE_BYTES" => some ScionHeader.MAX_SIZE_BYTES
  | "HopField.MAC_RNG.start" => some HopField.MAC_RNG.start
  | "HopField.MAC_RNG.stop" => some HopField.MAC_RNG.stop
  | "CommonHeader.FLOW_ID_RNG.start" => some CommonHeader.FLOW_ID_RNG.start
  | "CommonHeader.FLOW_ID_RNG.stop" => some CommonHeader.FLOW_ID_RNG.stop
  | "SCMP_ERROR_MAX_PACKET_SIZE" => some SCMP_ERROR_MAX_PACKET_SIZE
  | _ => none

def rngStr (name : String) (r : Nat × Nat) : String := s!"{name}={r.1}+{r.2 - r.1}"

/-- the ranges of the slice-returning accessors the harness can observe by pointer arithmetic -/
def observable (k : String) (v : Bytes) : Option (List String) :=
  let find (accs : List Acc) (n : String) : List String :=
    match accs.find? (fun a => a.name == n) with
    | some a => a.ranges.map (rngStr n)
    | none => []
  match k with
  | "header" =>
    some (match pathRng v with
      | some r => [rngStr "path" r]
      | none => ["path=-"])
  | "stdpath" =>
    let accs := stdAccs v
    let s := segFields v 0
    let ic := infoCount s.1 s.2.1 s.2.2
    let hc := hopCount s.1 s.2.1 s.2.2
    let ci := readBits v StdPathMeta.CURR_INFO_FIELD_RNG
    let ch := readBits v StdPathMeta.CURR_HOP_FIELD_RNG
    let infoOff := StdPathMeta.SIZE_BYTES
    let hopOff := infoOff + ic * InfoField.SIZE_BYTES
    some (find accs "info_fields" ++ find accs "hop_fields" ++
      (if ci < ic then [rngStr "curr_info_field" (infoOff + ci * InfoField.SIZE_BYTES, infoOff + ci * InfoField.SIZE_BYTES + InfoField.SIZE_BYTES)] else []) ++
      (if ch < hc then [rngStr "curr_hop_field" (hopOff + ch * HopField.SIZE_BYTES, hopOff + ch * HopField.SIZE_BYTES + HopField.SIZE_BYTES)] else []))
  | "raw" => some (find (rawAccs v) "header" ++ find (rawAccs v) "payload")
  | "udppkt" =>
    let pay := pktPayload v
    let n := min pay.length (readBits pay UdpDatagram.LENGTH_RNG)
    some (find (rawAccs v) "header" ++ find (rawAccs v) "payload" ++
      [rngStr "udp" (pktHl v, pktHl v + n), rngStr "udp.payload" (pktHl v + UdpDatagram.HEADER_SIZE_BYTES, pktHl v + n)])
  | "scmppkt" =>
    let pay := pktPayload v
    let kr := scmpRow (readBits (pay.take scmpMinSize) ScmpMessage.TYPE_RNG)
    let n := if kr.varLen then pay.length else kr.headerSize
    some (find (rawAccs v) "header" ++ find (rawAccs v) "payload" ++ [rngStr "scmp" (pktHl v, pktHl v + n)])
  | "udp" => some (find (udpAccs v) "payload")
  | _ => none

/-! ## model text -/

def hexOrRep (s : String) : Option Bytes :=
  if s.startsWith "rep:" then
    match (s.drop 4).toString.splitOn ":" with
    | [b, n] => match b.toNat?, n.toNat? with
      | some bb, some nn => some (List.replicate nn (UInt8.ofNat bb))
      | _, _ => none
    | _ => none
  else parseHex s

def showHost : HostAddr → String
  | .v4 b => s!"v4:{toHex b}"
  | .v6 b => s!"v6:{toHex b}"
  | .svc a => s!"svc:{a}"
  | .unknown id b => s!"unk:{id}:{toHex b}"

def parseHost (s : String) : Option HostAddr :=
  match s.splitOn ":" with
  | ["v4", h] => (parseHex h).map .v4
  | ["v6", h] => (parseHex h).map .v6
  | ["svc", a] => a.toNat?.map .svc
  | ["unk", i, h] => match i.toNat?, parseHex h with
    | some id, some b => some (.unknown id b)
    | _, _ => none
  | _ => none

def showInfo (i : InfoFieldM) : String := s!"{i.flags},{i.segId},{i.timestamp}"
def showHop (h : HopFieldM) : String := s!"{h.flags},{h.expTime},{h.consIngress},{h.consEgress},{toHex h.mac}"

def parseInfo (s : String) : Option InfoFieldM :=
  match (s.splitOn ",").map String.toNat? with
  | [some f, some g, some t] => some ⟨f, g, t⟩
  | _ => none

def parseHop (s : String) : Option HopFieldM :=
  match s.splitOn "," with
  | [f, e, i, g, m] => match f.toNat?, e.toNat?, i.toNat?, g.toNat?, parseHex m with
    | some f, some e, some i, some g, some m => some ⟨f, e, i, g, m⟩
    | _, _, _, _, _ => none
  | _ => none

def allSome {α : Type} (l : List (Option α)) : Option (List α) :=
  l.foldr (fun x acc => match x, acc with
    | some a, some r => some (a :: r)
    | _, _ => none) (some [])

def showSeg (s : Segment) : String := String.intercalate "/" (showInfo s.info :: s.hops.map showHop)

def parseSeg (s : String) : Option Segment :=
  match s.splitOn "/" with
  | i :: hs => match parseInfo i, allSome (hs.map parseHop) with
    | some i, some hs => some ⟨i, hs⟩
    | _, _ => none
  | [] => none

def showPath : DpPath → String
  | .empty => "empty"
  | .unsupported t d => s!"unsup:{t}:{toHex d}"
  | .oneHop i a b => s!"onehop:{showInfo i}/{showHop a}/{showHop b}"
  | .standard p => s!"std:{p.currInfo}:{p.currHop}:" ++ String.intercalate ";" (p.segments.map showSeg)

def parsePath (s : String) : Option DpPath :=
  if s == "empty" then some .empty else
  match s.splitOn ":" with
  | ["unsup", t, d] => match t.toNat?, parseHex d with
    | some t, some d => some (.unsupported t d)
    | _, _ => none
  | ["onehop", r] => match r.splitOn "/" with
    | [i, a, b] => match parseInfo i, parseHop a, parseHop b with
      | some i, some a, some b => some (.oneHop i a b)
      | _, _, _ => none
    | _ => none
  | ["std", ci, ch, segs] => match ci.toNat?, ch.toNat?, allSome ((if segs == "" then [] else segs.splitOn ";").map parseSeg) with
    | some ci, some ch, some sg => some (.standard ⟨ci, ch, sg⟩)
    | _, _, _ => none
  | _ => none

def showVals (l : List Nat) : String := if l.isEmpty then "-" else String.intercalate "," (l.map toString)

def showPayload : Payload → String
  | .raw b => s!"raw:{toHex b}"
  | .udp sp dp d => s!"udp:{sp}:{dp}:{toHex d}"
  | .scmp m => s!"scmp:{m.kind}:{m.typ}:{m.code}:{showVals m.vals}:{toHex m.data}"

def parsePayload (s : String) : Option Payload :=
  match s.splitOn ":" with
  | "raw" :: rest => (hexOrRep (String.intercalate ":" rest)).map .raw
  | "udp" :: sp :: dp :: rest => match sp.toNat?, dp.toNat?, hexOrRep (String.intercalate ":" rest) with
    | some sp, some dp, some d => some (.udp sp dp d)
    | _, _, _ => none
  | "scmp" :: k :: t :: c :: vs :: rest =>
    match t.toNat?, c.toNat?, allSome ((if vs == "-" then [] else vs.splitOn ",").map String.toNat?),
          hexOrRep (String.intercalate ":" rest) with
    | some t, some c, some vs, some d => some (.scmp ⟨k, t, c, vs, d⟩)
    | _, _, _, _ => none
  | _ => none

def showPacket (p : PacketM) : String :=
  let h := p.header
  s!"{h.trafficClass} {h.flowId} {h.nextHeader} {h.dstIa} {h.srcIa} {showHost h.dstHost} {showHost h.srcHost} {showPath h.path} {showPayload p.payload}"

def parsePacket : List String → Option PacketM
  | [tc, fl, nh, dia, sia, dst, src, path, pay] =>
    match tc.toNat?, fl.toNat?, nh.toNat?, dia.toNat?, sia.toNat?, parseHost dst, parseHost src, parsePath path, parsePayload pay with
    | some tc, some fl, some nh, some dia, some sia, some dst, some src, some path, some pay =>
      some ⟨⟨tc, fl, nh, dia, sia, dst, src, path⟩, pay⟩
    | _, _, _, _, _, _, _, _, _ => none
  | _ => none

/-! ## reference decoder output in the same grammar -/
open ScionVerif.Spec in
def refHost (dt dl : Nat) (raw : Bytes) : String :=
  -- (DT,DL) of the specification: (0,0) IPv4, (0,3) IPv6, (1,0) service; anything else is "unknown type DT, length (DL+1)*4"
  if dt = 0 ∧ dl = 0 then s!"v4:{toHex raw}"
  else if dt = 0 ∧ dl = 3 then s!"v6:{toHex raw}"
  else if dt = 1 ∧ dl = 0 then s!"svc:{RefDecode.be raw 0 2}"
  else s!"unk:{dt}:{toHex raw}"

open ScionVerif.Spec in
def refInfo (i : RefDecode.RefInfo) : String := s!"{i.flags},{i.segId},{i.timestamp}"
open ScionVerif.Spec in
def refHop (h : RefDecode.RefHop) : String := s!"{h.flags},{h.expTime},{h.consIngress},{h.consEgress},{toHex h.mac}"

open ScionVerif.Spec in
def refPath : RefDecode.RefPath → String
  | .empty => "empty"
  | .other t raw => s!"unsup:{t}:{toHex raw}"
  | .oneHop i a b => s!"onehop:{refInfo i}/{refHop a}/{refHop b}"
  | .standard c h lens infos hops =>
    -- segments in order: the i-th info field owns the next `len` hop fields of the i-th non-empty segment
    let rec go : List RefDecode.RefInfo → List Nat → List RefDecode.RefHop → List String
      | i :: is, n :: ns, hs => String.intercalate "/" (refInfo i :: (hs.take n).map refHop) :: go is ns (hs.drop n)
      | _, _, _ => []
    s!"std:{c}:{h}:" ++ String.intercalate ";" (go infos (lens.filter (· > 0)) hops)

open ScionVerif.Spec in
def refShow (kind : String) (b : Bytes) : String :=
  match RefDecode.header b with
  | none => "none"
  | some h =>
    let l := RefDecode.l4 b h
    let pay :=
      if kind == "udp" then s!"udp:{l.udpSrc}:{l.udpDst}:{toHex (l.payload.drop 8)}"
      else if kind == "scmp" then
        let m := RefDecode.scmp l.payload
        let vs := if m.vals.isEmpty then "-" else String.intercalate "," (m.vals.map toString)
        s!"scmp:{m.typ}:{m.code}:{vs}:z{m.zero}:{toHex m.data}"
      else s!"raw:{toHex l.payload}"
    s!"ok v={h.version} hl={h.hdrLenBytes} pl={h.payloadLen} rsv={h.rsv} ulen={l.udpLen} ucs={l.udpChecksum} scs={l.scmpChecksum} " ++
    s!"{h.trafficClass} {h.flowId} {h.nextHdr} {h.dstIsd * 2 ^ 48 + h.dstAs} {h.srcIsd * 2 ^ 48 + h.srcAs} " ++
    s!"{refHost h.dt h.dl h.dstHost} {refHost h.st h.sl h.srcHost} {refPath h.path} {pay}"

def pktKindOf : String → Option PktKind
  | "raw" => some .raw
  | "udp" => some .udp
  | "scmp" => some .scmp
  | _ => none

def step (st : Unit) : List String → Unit × String
  | ["size", k, hx] =>
    match kindOf k, parseHex hx with
    | some kind, some bs => (st, sizeStr (requiredSize kind bs))
    | _, _ => (st, "bad-op")
  | ["ranges", k, hx] =>
    match parseHex hx with
    | some bs =>
      match observable k bs with
      | some l => (st, String.intercalate " " l)
      | none => (st, "bad-op")
    | none => (st, "bad-op")
  | "enc" :: rest =>
    match parsePacket rest with
    | some p => match encode p with
      | .ok b => (st, s!"ok {toHex b}")
      | .error e => (st, s!"err {us e}")
    | none => (st, "bad-op")
  | ["dec", k, hx] =>
    match pktKindOf k, parseHex hx with
    | some k, some b => match decode k b with
      | .ok (p, n) => (st, s!"ok {n} {showPacket p}")
      | .error e => (st, errStr e)
    | _, _ => (st, "bad-op")
  | ["ref", k, hx] =>
    match parseHex hx with
    | some b => (st, refShow k b)
    | none => (st, "bad-op")
  | ["cksum", dia, sia, dh, sh, proto, al, msg] =>
    match dia.toNat?, sia.toNat?, parseHex dh, parseHex sh, proto.toNat?, hexOrRep msg with
    | some dia, some sia, some dh, some sh, some proto, some msg =>
      let a := al.toList.map (· == '1')
      let m := Checksum.messageChecksum dia sia dh sh proto msg (a.getD 0 true) (a.getD 1 true) (a.getD 2 true)
      let sp := Checksum.specChecksum (Checksum.pseudoHeader dia sia dh sh proto msg.length ++ msg)
      (st, s!"{match m with | some v => toString v | none => "overflow"} {sp}")
    | _, _, _, _, _, _ => (st, "bad-op")
  | ["setters"] =>
    (st, String.intercalate " " (ScionVerif.Generated.Setters.setters.map (fun r =>
      let cls := if !r.safe then "unsafe" else if exemptSetters.contains (r.view, r.name) then "exempt" else "safe"
      s!"{r.view}::{r.name}:{cls}:{r.range.start}:{r.range.stop}")))
  | ["mutfns"] =>
    (st, String.intercalate " " (ScionVerif.Generated.Setters.mutFns.map (fun r =>
      s!"{r.view}::{r.name}:{if r.safe then "safe" else "unsafe"}:{if modelledMutFns.contains (r.view, r.name) then "modelled" else "unmodelled"}")))
  | ["saferanges", k, hx] =>
    match kindOf k, parseHex hx with
    | some kind, some bs =>
      let l := (safeSetterRanges kind bs).map (fun r => s!"{r.start}-{r.stop}")
      (st, if l.isEmpty then "-" else String.intercalate " " l)
    | _, _ => (st, "bad-op")
  | ["const", n] =>
    match constOf n with
    | some v => (st, toString v)
    | none => (st, "bad-op")
  | _ => (st, "bad-op")

def main : IO Unit := Driver.run () step
