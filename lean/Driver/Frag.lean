import Driver.Common
import ScionVerif.Model.Frag
/-! line-protocol driver for the fragmenting model (C17) -/
open ScionVerif.Frag Driver

structure St where
  d : Defrag UInt8 := Defrag.new 0 1
  mtu : Nat := 0
  so : Nat := 0

def msgLabel : Msg → String
  | .lastPacketSizeExceedsMax => "last_packet_size_exceeds_max_packet_size"
  | .inconsistentFrameSize => "inconsistent_frame_size"
  | .offsetAlignmentInvalid => "offset_alignment_invalid"
  | .frameTooSmall => "frame_too_small"
  | .frameIdxExceedsMaxFrames => "frame_idx_exceeds_max_frames"
  | .lastFrameOffsetAlignmentInvalid => "last_frame_offset_alignment_invalid"
  | .lastFrameSizeInvalid => "last_frame_size_invalid"
  | .frameBeyondLastFrame => "frame_beyond_last_frame"

def errLabel : Err → String
  | .queueNotAccepting => "queue_idle"
  | .invalidHeader => "invalid_header"
  | .invalidValue m => msgLabel m
  | .outOfBounds => "segment_out_of_bounds"
  | .duplicate => "duplicate_segment"
  | .tooOld => "segment_too_old"

def outStr : Out UInt8 → String
  | .packet s p => s!"pkt {s} {toHex p}"
  | .none => "none"
  | .err e => s!"err {errLabel e}"

def frameBytes (f : Frame UInt8) : List UInt8 :=
  let be (n k : Nat) : List UInt8 := (List.range k).map (fun i => UInt8.ofNat (n / 256 ^ (k - 1 - i) % 256))
  be f.hdr.streamOff 8 ++ be f.hdr.frameOff 2 ++ be f.hdr.flags 2 ++ [0, 0, 0, 0] ++ f.payload

def step (st : St) : List String → St × String
  | ["new", n] => match n.toNat? with
    | some k => ({ st with d := Defrag.new 0 k }, "ok")
    | none => (st, "bad-op")
  | ["recv", hx] => match parseHex hx with
    | some bs => match st.d.recvBytes bs with
      | some (d', o) => ({ st with d := d' }, outStr o)
      | none => (st, "panic")
    | none => (st, "bad-op")
  | ["fnew", m] => match m.toNat? with
    | some k => ({ st with mtu := clampMtu k, so := 0 }, s!"mtu {clampMtu k}")
    | none => (st, "bad-op")
  | ["fsetmtu", m] => match m.toNat? with
    | some k => ({ st with mtu := clampMtu k }, s!"mtu {clampMtu k}")
    | none => (st, "bad-op")
  | ["fsend", hx] => match parseHex hx with
    | some bs => match sendP st.mtu st.so bs with
      | none => (st, "panic")
      | some (.ok (fs, so')) => ({ st with so := so' },
          s!"frames {st.so} {fs.length}" ++ String.join (fs.map (fun f => " " ++ toHex (frameBytes f))))
      | some (.error .packetTooLarge) => (st, "err too_large")
      | some (.error .emptyPacket) => (st, "err empty")
    | none => (st, "bad-op")
  -- hook `Fragmenter::verif_set_stream_offset` (u64)
  | ["fso", n] => match n.toNat? with
    | some k => if k < 2 ^ 64 then ({ st with so := k }, "ok") else (st, "bad-op")
    | none => (st, "bad-op")
  -- `fsendlen <len>`: like `fsend` for a packet of `len` zero bytes; answers only the stream offset and the
  -- frame count (used for oversize packets, whose hex form would be needlessly long)
  | ["fsendlen", n] => match n.toNat? with
    | some k => match sendP st.mtu st.so (List.replicate k (0 : UInt8)) with
      | none => (st, "panic")
      | some (.ok (fs, so')) => ({ st with so := so' }, s!"frames {st.so} {fs.length}")
      | some (.error .packetTooLarge) => (st, "err too_large")
      | some (.error .emptyPacket) => (st, "err empty")
    | none => (st, "bad-op")
  | _ => (st, "bad-op")

def main : IO Unit := Driver.run ({} : St) step
