import Driver.Common
import ScionVerif.Model.Signed
import ScionVerif.Model.Rpc
/-!
Line-protocol driver for the C18 models (`drv_signed`).

The external functions of the models (prost decoders, the P-256 verdicts, the data-plane path parser, the
socket-address codec) are *oracle tokens* of each request: the harness computes them with the real
libraries and the model decides what to do with them (check order, casts, error classes, associated data).

Requests (tokens separated by blanks; byte strings hex, `-` = empty):

* `signhdr ALG TS (K0 | K1 keyid) ADN META`                      header fields `SignedMessage::sign` builds
* `val HB SIG ADN DECHB DECHDR KP WF VERIFY BODYDEC METADEC`      `validate` and `decode_validated`
* `ent INFO I N (KEY HB SIG)*N DECHB DECHDR KP WF V_0 … V_N`      `validate_signature` of entry I (code's
                                                                   take_while form and index form)
* `segrpc …`, `segto …`, `pathrpc …`, `pathto …`                           RPC conversions (see the parsers below)
-/
open ScionVerif.Signed ScionVerif.Rpc Driver

/-! ## a tiny token parser -/

abbrev P := StateT (List String) Option

def tok : P String := do
  match (← get) with
  | [] => failure
  | t :: ts => set ts; pure t

def pNat : P Nat := do
  let t ← tok
  match t.toNat? with
  | some n => pure n
  | none => failure

def pInt : P Int := do
  let t ← tok
  match t.toInt? with
  | some n => pure n
  | none => failure

def pHex : P Bytes := do
  let t ← tok
  match parseHex t with
  | some b => pure b
  | none => failure

def pBit : P Bool := do
  let t ← tok
  if t == "1" then pure true else if t == "0" then pure false else failure

def pMany {α : Type} (p : P α) : Nat → P (List α)
  | 0 => pure []
  | n + 1 => do
    let a ← p
    let as ← pMany p n
    pure (a :: as)

def pCounted {α : Type} (p : P α) : P (List α) := do
  let n ← pNat
  if n > 100000 then failure
  pMany p n

def pEnd : P Unit := do
  match (← get) with
  | [] => pure ()
  | _ => failure

/-! ## rendering -/

def vErrLabel : VErr → String
  | .invalidHeaderAndBody => "invalid_header_and_body"
  | .invalidHeader => "invalid_header"
  | .keyMissing => "key_missing"
  | .invalidValidationKeyId => "invalid_validation_key_id"
  | .adLen e a => s!"ad_len {e} {a}"
  | .invalidDigestAlgorithm => "invalid_digest_algorithm"
  | .signatureMalformed => "signature_malformed"
  | .verificationFailed => "verification_failed"
  | .invalidBody => "invalid_body"
  | .invalidMetadata => "invalid_metadata"

def rErrLabel : RErr → String
  | .macLen => "mac_len" | .expTime => "exp_time" | .hfIngress => "hf_ingress" | .hfEgress => "hf_egress"
  | .ingressMtu => "ingress_mtu" | .missingHopField => "missing_hop_field"
  | .peerInterface => "peer_interface" | .peerMtu => "peer_mtu" | .missingPeerHopField => "missing_peer_hop_field"
  | .missingSigned => "missing_signed" | .decodeHB => "decode_hb" | .decodeBody => "decode_body"
  | .missingHopEntry => "missing_hop_entry" | .decodeInfo => "decode_info" | .timestamp => "timestamp"
  | .segmentId => "segment_id" | .wildcardEmpty => "wildcard_empty" | .emptyPath => "empty_path"
  | .rawParse => "raw_parse" | .rawExtra => "raw_extra" | .nextHopParse => "next_hop_parse"
  | .ifaceCount => "iface_count" | .ifaceId => "iface_id" | .missingExpiration => "missing_expiration"
  | .mtu => "mtu" | .panic => "panic"

def hdrStr (h : Header) : String :=
  let ts := match h.ts with | some (s, n) => s!"{s} {n}" | none => "none"
  s!"{h.alg} {toHex h.keyId} {ts} {h.adLen} {toHex h.metadata}"

/-! ## signed messages -/

/-- oracle-backed instances: the decoders / verdicts are whatever the request says -/
def oracleCodec (decHB : Option (Bytes × Bytes)) (decHdr : Option Header) : Codec :=
  { encHB := fun _ _ => [], decHB := fun _ => decHB, encHdr := fun _ => [], decHdr := fun _ => decHdr }

def oracleScheme (wf : Bool) (verify : Bool) : Scheme Unit Unit :=
  { pk := id, sign := fun _ _ _ => none, wf := fun _ => wf, verify := fun _ _ _ _ => verify }

def pDecHB : P (Option (Bytes × Bytes)) := do
  let t ← tok
  if t == "H0" then pure none
  else if t == "H1" then do
    let h ← pHex
    let b ← pHex
    pure (some (h, b))
  else failure

def pDecHdr : P (Option Header) := do
  let t ← tok
  if t == "D0" then pure none
  else if t == "D1" then do
    let alg ← pInt
    let keyId ← pHex
    let adLen ← pInt
    let md ← pHex
    pure (some { alg := alg, keyId := keyId, ts := none, metadata := md, adLen := adLen })
  else failure

def pKp : P (Except VErr Unit) := do
  let t ← tok
  if t == "ok" then pure (.ok ())
  else if t == "missing" then pure (.error .keyMissing)
  else if t == "badid" then pure (.error .invalidValidationKeyId)
  else failure

def valStr : Except VErr (Header × Bytes) → String
  | .ok (h, b) => s!"ok {h.alg} {toHex h.keyId} {h.adLen} {toHex h.metadata} {toHex b}"
  | .error e => s!"err {vErrLabel e}"

def reqSignHdr : P String := do
  let algN ← pNat
  let ts ← pNat
  let k ← tok
  let keyId ← (if k == "K0" then pure none else if k == "K1" then (do let b ← pHex; pure (some b)) else failure : P (Option Bytes))
  let adN ← pNat
  let md ← pHex
  pEnd
  let a ← (match algN with | 1 => pure Alg.sha256 | 2 => pure Alg.sha384 | 3 => pure Alg.sha512 | _ => failure : P Alg)
  -- run the model's `sign` with a codec that exposes the header it built
  let seen : Codec :=
    { encHB := fun h _ => h, decHB := fun _ => none,
      encHdr := fun h => (hdrStr h).toUTF8.toList, decHdr := fun _ => none }
  let S : Scheme Unit Unit := { pk := id, sign := fun _ _ m => some m, wf := fun _ => true, verify := fun _ _ _ _ => true }
  match sign seen S () a ts keyId adN [] [] md with
  | none => pure "none"
  | some m => pure (String.fromUTF8! m.hb.toByteArray)

def reqVal : P String := do
  let hb ← pHex
  let sig ← pHex
  let adN ← pNat
  let decHB ← pDecHB
  let decHdr ← pDecHdr
  let kp ← pKp
  let wf ← pBit
  let ver ← pBit
  let bodyDec ← pBit
  let metaDec ← pBit
  pEnd
  let c := oracleCodec decHB decHdr
  let S := oracleScheme wf ver
  let m : SignedMsg := { hb := hb, sig := sig }
  let v := validate c S (fun _ => kp) m adN []
  let dv := decodeValidated c S (fun _ => kp) (fun _ => if bodyDec then some () else none)
    (fun _ => if metaDec then some () else none) m adN []
  let dvs := match dv with
    | .ok (_, none) => "ok nometa"
    | .ok (_, some _) => "ok meta"
    | .error e => s!"err {vErrLabel e}"
  pure s!"{valStr v} | {dvs}"

def pEntry : P (SEntry Nat) := do
  let k ← pNat
  let hb ← pHex
  let sig ← pHex
  pure { entry := k, signed := { hb := hb, sig := sig } }

def verdictStr : Except VErr (Header × Bytes) → String
  | .ok _ => "ok"
  | .error e => s!"err {vErrLabel e}"

/-- verify-oracle token: `0`, `1` or `?` (not computed by the harness yet) -/
def pTri : P (Option Bool) := do
  let t ← tok
  if t == "1" then pure (some true) else if t == "0" then pure (some false)
  else if t == "?" then pure none else failure

def reqEnt : P String := do
  let info ← pHex
  let i ← pNat
  let es ← pCounted pEntry
  let decHB ← pDecHB
  let decHdr ← pDecHdr
  let kp ← pKp
  let wf ← pBit
  let vs ← pMany pTri (es.length + 1)
  pEnd
  match es[i]? with
  | none => failure
  | some e =>
    let seg : Seg Nat := { info := info, entries := es }
    let c := oracleCodec decHB decHdr
    -- the verify oracle is indexed by the number of entries covered by the associated data
    let covered (ad : List Bytes) : Nat := (ad.length - 1) / 2
    let run (ad : List Bytes) (bit : Bool) : Except VErr (Header × Bytes) :=
      validate c (oracleScheme wf bit) (fun _ => kp) e.signed (total ad) ad
    let tw := assocTW seg e.entry
    let ix := assocIdx seg i
    -- is the verdict of the scheme consulted, and if so do we know it?
    let missing (ad : List Bytes) : Bool :=
      (vs.getD (covered ad) none).isNone && (run ad true).isOk
    if missing tw || missing ix then
      pure s!"need {covered tw} {covered ix}"
    else
      let fin (ad : List Bytes) := run ad ((vs.getD (covered ad) none).getD false)
      pure s!"tw {covered tw} {total tw} {verdictStr (fin tw)} | idx {covered ix} {total ix} {verdictStr (fin ix)}"

/-! ## segments over RPC -/

def pHF : P (Option RHopField) := do
  let t ← tok
  if t == "F0" then pure none
  else if t == "F1" then do
    let ing ← pNat
    let eg ← pNat
    let exp ← pNat
    let mac ← pHex
    pure (some { ingress := ing, egress := eg, expTime := exp, mac := mac })
  else failure

def pHopEntry : P (Option RHopEntry) := do
  let t ← tok
  if t == "E0" then pure none
  else if t == "E1" then do
    let mtu ← pNat
    let hf ← pHF
    pure (some { hopField := hf, ingressMtu := mtu })
  else failure

def pPeer : P RPeerEntry := do
  let ia ← pNat
  let ifc ← pNat
  let mtu ← pNat
  let hf ← pHF
  pure { peerIsdAs := ia, peerInterface := ifc, peerMtu := mtu, hopField := hf }

def pBody : P (Option RBody) := do
  let t ← tok
  if t == "B0" then pure none
  else if t == "B1" then do
    let ia ← pNat
    let nx ← pNat
    let mtu ← pNat
    let he ← pHopEntry
    let ps ← pCounted pPeer
    pure (some { isdAs := ia, nextIsdAs := nx, hopEntry := he, peers := ps, mtu := mtu })
  else failure

/-- an RPC AS entry together with the decoder oracle for its `header_and_body` -/
def pRAsEntry : P (RAsEntry × Option (Option RBody)) := do
  let t ← tok
  if t == "S0" then pure ({ signed := none }, none)
  else if t == "S1" then do
    let hb ← pHex
    let sig ← pHex
    let h ← tok
    if h == "H0" then pure ({ signed := some { hb := hb, sig := sig } }, none)
    else if h == "H1" then do
      let b ← pBody
      pure ({ signed := some { hb := hb, sig := sig } }, some b)
    else failure
  else failure

def hfStr (h : HopField) : String := s!"{h.exp} {h.ingress} {h.egress} {toHex h.mac}"

def entryStr (e : SEntry AsEntry) : String :=
  let a := e.entry
  let peers := String.join (a.peers.map fun p => s!" {p.peer} {p.peerInterface} {p.peerMtu} {hfStr p.hopField}")
  s!"{a.local_} {a.next} {a.mtu} {a.hopEntry.ingressMtu} {hfStr a.hopEntry.hopField} {a.peers.length}{peers} {toHex a.extensions} {toHex a.unsignedExtensions} {toHex e.signed.hb} {toHex e.signed.sig}"

def segStr (s : Segment) : String :=
  s!"{s.info.timestamp} {s.info.segmentId} {toHex s.info.encoded} {s.entries.length}" ++
    String.join (s.entries.map fun e => " " ++ entryStr e)

def reqSegRpc : P String := do
  let infoBytes ← pHex
  let t ← tok
  let decInfo ← (if t == "I0" then pure none else if t == "I1" then (do
      let ts ← pInt
      let sid ← pNat
      pure (some ({ timestamp := ts, segmentId := sid } : RSegInfo))) else failure : P (Option RSegInfo))
  let encInfo ← pHex
  let es ← pCounted pRAsEntry
  pEnd
  -- the decoders are association lists keyed by the `header_and_body` bytes (prost is a function of them);
  -- the "body" handed from `decHB` to `decBody` is that key again
  let lookup (hb : Bytes) : Option (Option RBody) :=
    (es.find? fun x => match x.1.signed with
      | some sm => sm.hb == hb
      | none => false).bind (·.2)
  let r : RSegment := { segmentInfo := infoBytes, asEntries := es.map (·.1) }
  let pc : PCodec :=
    { c := { encHB := fun _ _ => [], encHdr := fun _ => [], decHdr := fun _ => none,
             decHB := fun hb => match lookup hb with
               | none => none
               | some _ => some ([], hb) },
      decBody := fun key => match lookup key with
        | some (some b) => some b
        | _ => none,
      encBody := fun _ => [],
      decInfo := fun _ => decInfo,
      encInfo := fun _ => encInfo }
  match segFromRpc pc r with
  | .error e => pure (if e == .panic then "panic" else s!"err {rErrLabel e}")
  | .ok s => pure s!"ok {segStr s}"

def pPair {α β : Type} (p : P α) (q : P β) : P (α × β) := do
  let a ← p
  let b ← q
  pure (a, b)

/-- `segto TS SID ENCODED REENC N (HB SIG)*N`: what `into_rpc` sends for a segment whose info is
(TS, SID, ENCODED); REENC = prost encoding of (TS, SID) (oracle token for `encInfo`) -/
def reqSegTo : P String := do
  let ts ← pNat
  let sid ← pNat
  let enc ← pHex
  let reenc ← pHex
  let es ← pCounted (pPair pHex pHex)
  pEnd
  let pc : PCodec :=
    { c := oracleCodec none none, decBody := fun _ => none, encBody := fun _ => [],
      decInfo := fun _ => none, encInfo := fun _ => reenc }
  let dummy : AsEntry :=
    { local_ := 0, next := 0, mtu := 0, hopEntry := { ingressMtu := 0, hopField := { exp := 0, ingress := 0, egress := 0, mac := [] } },
      peers := [], extensions := [], unsignedExtensions := [] }
  let s : Segment :=
    { info := { timestamp := ts, segmentId := sid, encoded := enc },
      entries := es.map fun x => { entry := dummy, signed := { hb := x.1, sig := x.2 } } }
  let r := segToRpc pc s
  let ents := String.join (r.asEntries.map fun e => match e.signed with
    | none => " S0"
    | some sm => s!" S1 {toHex sm.hb} {toHex sm.sig}")
  pure s!"{toHex r.segmentInfo} {r.asEntries.length}{ents}"

/-! ## paths over RPC -/

def pOpt {α : Type} (none_ some_ : String) (p : P α) : P (Option α) := do
  let t ← tok
  if t == none_ then pure none
  else if t == some_ then (do let a ← p; pure (some a))
  else failure

def pRGeo : P RGeo := do
  let lat ← pNat
  let lon ← pNat
  let a ← pHex
  pure { lat := lat, lon := lon, address := a }

def pRIface : P RIface := do
  let ia ← pNat
  let id ← pNat
  pure { isdAs := ia, id := id }

def linkTypeStr : LinkType → String
  | .unset => "unset" | .direct => "direct" | .multiHop => "multihop" | .openNet => "opennet"
  | .unknown v => s!"unknown:{v}"

def pLinkType : P LinkType := do
  let t ← tok
  if t == "unset" then pure .unset
  else if t == "direct" then pure .direct
  else if t == "multihop" then pure .multiHop
  else if t == "opennet" then pure .openNet
  else match t.splitOn ":" with
    | ["unknown", v] => match v.toNat? with
      | some n => pure (.unknown n)
      | none => failure
    | _ => failure

def optStr {α : Type} (none_ some_ : String) (f : α → String) : Option α → String
  | none => none_
  | some a => s!"{some_} {f a}"

def ifMetaStr (m : IfMeta) : String :=
  let geo := optStr "G0" "G1" (fun (g : Geo) => s!"{g.lat} {g.lon} " ++ optStr "A0" "A1" toHex g.address) m.geo
  let lat := optStr "L0" "L1" (fun (d : Nat × Nat) => s!"{d.1} {d.2}") m.latency
  let bw := optStr "W0" "W1" (fun (b : Nat) => s!"{b}") m.bandwidth
  let link := match m.link with
    | none => "K0"
    | some (.ingress n) => s!"KI {n}"
    | some (.egress t) => s!"KE {linkTypeStr t}"
  s!"{m.isdAs} {m.id} {geo} {lat} {bw} {link}"

def metaStr (m : PathMeta) : String :=
  let ifs := optStr "I0" "I1" (fun (l : List IfMeta) => s!"{l.length}" ++ String.join (l.map fun x => " " ++ ifMetaStr x)) m.interfaces
  let epic := optStr "P0" "P1" (fun (e : Bytes × Bytes) => s!"{toHex e.1} {toHex e.2}") m.epic
  let notes := optStr "N0" "N1" (fun (l : List Bytes) => s!"{l.length}" ++ String.join (l.map fun x => " " ++ toHex x)) m.notes
  s!"{m.expiration} {m.mtu} {ifs} {epic} {notes}"

def pathStr (p : Path Bytes) : String :=
  let dp := match p.dp with | .empty => "E" | .standard raw => s!"S {toHex raw}"
  let nh := optStr "H0" "H1" toHex p.nextHop
  s!"{p.src} {p.dst} {dp} {nh} " ++ optStr "M0" "M1" metaStr p.pmeta

def pIfMeta : P IfMeta := do
  let ia ← pNat
  let id ← pNat
  let geo ← pOpt "G0" "G1" (do
    let lat ← pNat
    let lon ← pNat
    let a ← pOpt "A0" "A1" pHex
    pure ({ lat := lat, lon := lon, address := a } : Geo))
  let lat ← pOpt "L0" "L1" (pPair pNat pNat)
  let bw ← pOpt "W0" "W1" pNat
  let t ← tok
  let link ← (if t == "K0" then pure none
    else if t == "KI" then (do let n ← pNat; pure (some (LinkMeta.ingress n)))
    else if t == "KE" then (do let l ← pLinkType; pure (some (LinkMeta.egress l)))
    else failure : P (Option LinkMeta))
  pure { isdAs := ia, id := id, geo := geo, latency := lat, bandwidth := bw, link := link }

def pMeta : P PathMeta := do
  let exp ← pNat
  let mtu ← pNat
  let ifs ← pOpt "I0" "I1" (pCounted pIfMeta)
  let epic ← pOpt "P0" "P1" (pPair pHex pHex)
  let notes ← pOpt "N0" "N1" (pCounted pHex)
  pure { expiration := exp, mtu := mtu, interfaces := ifs, epic := epic, notes := notes }

def pPath : P (Path Bytes) := do
  let src ← pNat
  let dst ← pNat
  let t ← tok
  let dp ← (if t == "E" then pure Dp.empty else if t == "S" then (do let r ← pHex; pure (Dp.standard r)) else failure : P Dp)
  let nh ← pOpt "H0" "H1" pHex
  let m ← pOpt "M0" "M1" pMeta
  pure { src := src, dst := dst, dp := dp, pmeta := m, nextHop := nh }

def rpathStr (r : RPath) : String :=
  let cnt {α : Type} (f : α → String) (l : List α) : String := s!"{l.length}" ++ String.join (l.map fun x => " " ++ f x)
  let addr := optStr "A0" "A1" toHex r.ifaceAddr
  let exp := optStr "X0" "X1" (fun (e : Int × Int) => s!"{e.1} {e.2}") r.expiration
  let epic := optStr "P0" "P1" (fun (e : Bytes × Bytes) => s!"{toHex e.1} {toHex e.2}") r.epic
  s!"{toHex r.raw} {addr} {cnt (fun (i : RIface) => s!"{i.isdAs} {i.id}") r.interfaces} {r.mtu} {exp} " ++
  s!"{cnt (fun (d : Int × Int) => s!"{d.1} {d.2}") r.latency} {cnt (fun (b : Nat) => s!"{b}") r.bandwidth} " ++
  s!"{cnt (fun (g : RGeo) => s!"{g.lat} {g.lon} {toHex g.address}") r.geo} {cnt (fun (i : Int) => s!"{i}") r.linkType} " ++
  s!"{cnt (fun (h : Nat) => s!"{h}") r.internalHops} {cnt toHex r.notes} {epic}"

def pRPath : P RPath := do
  let raw ← pHex
  let addr ← pOpt "A0" "A1" pHex
  let ifs ← pCounted pRIface
  let mtu ← pNat
  let exp ← pOpt "X0" "X1" (pPair pInt pInt)
  let lat ← pCounted (pPair pInt pInt)
  let bw ← pCounted pNat
  let geo ← pCounted pRGeo
  let lt ← pCounted pInt
  let ih ← pCounted pNat
  let notes ← pCounted pHex
  let epic ← pOpt "P0" "P1" (pPair pHex pHex)
  pure { raw := raw, ifaceAddr := addr, interfaces := ifs, mtu := mtu, expiration := exp, latency := lat,
         bandwidth := bw, geo := geo, linkType := lt, internalHops := ih, notes := notes, epic := epic }

/-- `pathrpc SRC DST RAWPARSE ADDRPARSE <rpath>`: RAWPARSE ∈ err|extra|exact, ADDRPARSE = `n` | `y canon` -/
def reqPathRpc : P String := do
  let src ← pNat
  let dst ← pNat
  let rp ← tok
  let rawParse ← (if rp == "err" then pure RawParse.err else if rp == "extra" then pure RawParse.extra
    else if rp == "exact" then pure RawParse.exact else failure : P RawParse)
  let addrParse ← pOpt "n" "y" pHex
  let r ← pRPath
  pEnd
  let env : PathEnv Bytes := { parseRaw := fun _ => rawParse, parseAddr := fun _ => addrParse, showAddr := id }
  match pathFromRpc env r src dst with
  | .error e => pure (if e == .panic then "panic" else s!"err {rErrLabel e}")
  | .ok p => pure s!"ok {pathStr p}"

def reqPathTo : P String := do
  let p ← pPath
  pEnd
  let env : PathEnv Bytes := { parseRaw := fun _ => .exact, parseAddr := fun b => some b, showAddr := id }
  pure (rpathStr (pathToRpc env p))

def runP (p : P String) (args : List String) : String :=
  match p.run args with
  | some (s, _) => s
  | none => "bad-op"

def step (st : Unit) : List String → Unit × String
  | "signhdr" :: args => (st, runP reqSignHdr args)
  | "val" :: args => (st, runP reqVal args)
  | "ent" :: args => (st, runP reqEnt args)
  | "segrpc" :: args => (st, runP reqSegRpc args)
  | "segto" :: args => (st, runP reqSegTo args)
  | "pathrpc" :: args => (st, runP reqPathRpc args)
  | "pathto" :: args => (st, runP reqPathTo args)
  | _ => (st, "bad-op")

def main : IO Unit := Driver.run () step
