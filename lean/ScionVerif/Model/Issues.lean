import ScionVerif.Generated.PathMgr
/-!
# Model of `scion-stack/src/path/manager/issues.rs` (C05/C06/C07)

Paths as the path manager sees them, issue kinds, the target an issue maps to
(`IssueKind::target_type`) and `IssueMarkerTarget::{matches_path, applies_to_path,
applies_to_multiple_paths}`.  Also `PathPolicyHop::hops_from_path` (the only way the ACL / hop-pattern
policies look at a path) so that "no metadata ⇒ rejected" is a statement about the model.

Core-only.  Penalty magnitudes never enter the model: every decision that depends on f32 scores takes
the scores as an explicit argument (see `Model/PathSet.lean`).
-/
namespace ScionVerif.PathMgr

/-- `PathInterface` -/
structure Iface where
  ia : Nat
  id : Nat
deriving Repr, DecidableEq

/-- What the path manager reads of a `ScionPath`. -/
structure Path where
  /-- `fingerprint()` (data-plane fingerprint: src, dst, hop interfaces – not expiry, not metadata) -/
  fp : Nat
  /-- `expiration()` in seconds since the epoch -/
  expiry : Option Nat
  src : Nat
  dst : Nat
  /-- `metadata().interfaces` (`none` also when there is no metadata at all) -/
  ifaces : Option (List Iface)
  /-- `dp_path().first_egress_interface()` -/
  dpFirst : Option Nat
  /-- `dp_path().last_ingress_interface()` -/
  dpLast : Option Nat
deriving Repr, DecidableEq

/-- `ScionPath::first_egress_interface`: data-plane path first, then metadata -/
def Path.firstEgress (p : Path) : Option Iface :=
  match p.dpFirst with
  | some i => some ⟨p.src, i⟩
  | none => match p.ifaces with
    | some l => l.head?
    | none => none

/-- `ScionPath::last_ingress_interface` -/
def Path.lastIngress (p : Path) : Option Iface :=
  match p.dpLast with
  | some i => some ⟨p.dst, i⟩
  | none => match p.ifaces with
    | some l => l.getLast?
    | none => none

/-- `IssueMarkerTarget` (the destination host of `DestinationNetwork` is never read by the manager) -/
inductive Target
  | fullPath (fp : Nat)
  | interface (ia : Nat) (ingress : Option Nat) (egress : Nat)
  | firstHop (ia : Nat) (egress : Nat)
  | lastHop (ia : Nat) (ingress : Nat)
  | destNetwork (ia : Nat) (ingress : Nat)
deriving Repr, DecidableEq

/-- the `while let Some(interface) = iter.nth(1)` walk over the metadata interfaces:
    `nth(1)` skips one element (an egress interface) and yields the next (an ingress interface) -/
def ifaceWalk (ia : Nat) (ingress : Option Nat) (egress : Nat) : List Iface → Bool
  | _ :: x :: rest =>
    if x.ia ≠ ia then ifaceWalk ia ingress egress rest
    else
      match ingress with
      | some g =>
        if x.id ≠ g then false
        else match rest with
          | e :: _ => e.id == egress
          | [] => false
      | none =>
        match rest with
        | e :: _ => e.id == egress
        | [] => false
  | _ => false

/-- `IssueMarkerTarget::matches_path` -/
def Target.matchesPath (t : Target) (p : Path) : Bool :=
  match t with
  | .fullPath fp => p.fp == fp
  | .firstHop ia eg =>
    match p.firstEgress with
    | some i => i.ia == ia && i.id == eg
    | none => false
  | .destNetwork ia ing | .lastHop ia ing =>
    match p.lastIngress with
    | some i => i.ia == ia && i.id == ing
    | none => false
  | .interface ia ingress egress =>
    match p.ifaces with
    | none => false
    | some ifs =>
      if p.src = ia then
        match ingress with
        | some _ => false
        | none => match ifs.head? with
          | some i => i.id == egress
          | none => false
      else ifaceWalk ia ingress egress ifs

/-- `applies_to_multiple_paths` -/
def Target.multi : Target → Bool
  | .fullPath _ => false
  | _ => true

/-- `applies_to_path(src, dst)` -/
def Target.appliesTo (t : Target) (src dst : Nat) : Bool :=
  match t with
  | .fullPath _ | .interface _ _ _ => true
  | .firstHop ia _ => src == ia
  | .lastHop ia _ | .destNetwork ia _ => dst == ia

/-- `IssueKind` as far as `target_type` distinguishes it.  For destination-unreachable errors
    `routing` says whether the code is one of the six codes that map to a target and `parsed` is the
    (dst AS, last ingress interface) read from the quoted packet, if it parses. -/
inductive Kind
  | extIfDown (ia ifid : Nat)
  | intConnDown (ia ingress egress : Nat)
  | destUnreachable (routing : Bool) (parsed : Option (Nat × Nat))
  | packetTooBig
  | parameterProblem
  | icmp
  | firstHopUnreachable (ia ifid : Nat)
deriving Repr, DecidableEq

/-- `IssueKind::target_type` -/
def Kind.target : Kind → Option Target
  | .extIfDown ia i => some (.interface ia none i)
  | .intConnDown ia g e => some (.interface ia (some g) e)
  | .destUnreachable true (some (ia, g)) => some (.destNetwork ia g)
  | .destUnreachable _ _ => none
  | .packetTooBig | .parameterProblem | .icmp => none
  | .firstHopUnreachable ia i => some (.firstHop ia i)

/-- the target `MultiPathManager::report_path_issue` acts on: none for kinds without target and for
    `DestinationNetwork` ("can't handle dst network issues in a global path manager") -/
def Kind.managedTarget (k : Kind) : Option Target :=
  match k.target with
  | some (.destNetwork _ _) => none
  | t => t

/-- `IssueMarker` without the penalty -/
structure Marker where
  target : Target
  ts : Nat
deriving Repr, DecidableEq

/-! ## `PathPolicyHop::hops_from_path` -/

structure Hop where
  ia : Nat
  ingress : Nat
  egress : Nat
deriving Repr, DecidableEq

/-- the `as_chunks::<2>()` part: pairs of (ingress, egress) followed by exactly one last interface;
    `none` for the two error cases (even remainder / pair in different ASes) -/
def midHops : List Iface → Option (List Hop)
  | [l] => some [⟨l.ia, l.id, 0⟩]
  | i :: o :: rest =>
    if i.ia ≠ o.ia then none
    else match midHops rest with
      | some hs => some (⟨i.ia, i.id, o.id⟩ :: hs)
      | none => none
  | [] => none

/-- `hops_from_path`: `Err ↦ none` -/
def Path.hops (p : Path) : Option (List Hop) :=
  match p.ifaces with
  | none => none
  | some [] => none
  | some (f :: rest) =>
    match midHops rest with
    | some hs => some (⟨f.ia, 0, f.id⟩ :: hs)
    | none => none

/-- the blanket `impl<T: sciparse PathPolicy> PathPolicy for T`:
    `path_allowed(path).unwrap_or(false)` for a hop-list policy -/
def allowedByHops (pol : List Hop → Bool) (p : Path) : Bool :=
  match p.hops with
  | some hs => pol hs
  | none => false

end ScionVerif.PathMgr
