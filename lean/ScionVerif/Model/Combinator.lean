import ScionVerif.Generated.Comb
import ScionVerif.Model.BeaconSeg
/-!
# Model of `sciparse::path::combinator` (combinator.rs + combinator/graph.rs)

Statement-by-statement model of `combine` = `combine_with_weight_fn(.., number_of_hops)`:

* `MultiGraph::add_core_segment` / `add_non_core_segment`  →  `coreInserts` / `nonCoreInserts`
  (the sequence of `add_directed_edge` calls), `lastWins` (the `HashMap::insert` overwrite of the
  per-`(src, dst, segment)` entry), `graphOf` (one entry set per *distinct* input segment: the edge map
  is keyed by the segment value);
* `MultiGraph::get_paths`  →  `bfs` (rounds of the queue; a solution arriving at `AS dst` is final,
  the others are extended; `validNext` = `PathSolution::valid_next_seg`, generated Boolean tables) and
  `sortSols` (stable sort by cost, #edges, then per edge peer / shortcut index descending / segment id);
* `PathSolution::path`  →  `solPath` (`walk` = the reverse iteration over the AS entries with MTU,
  interface and hop-field assembly; `initSegId` = `SolutionEdge::initialize_segment_id`;
  `encodeOk` = `StandardPath::wire_valid`; `pathExpiry` = `StandardPath::expiration`);
* `has_loops`, `filter_duplicates`  →  `hasLoops`, `filterDuplicates`.

`has_loops` unwraps `path.metadata` and `metadata.interfaces` (two `unwrap()`s): `PathSolution::path`
returns `Some(path)` only through its last statement, which builds the path with
`Some(PathMetadata { interfaces: Some(interfaces), .. })`; the model's `Path` therefore always carries
`ifs` and these two sites are not `Site`s.  Likewise `ScionPath::new` → `StandardPathView::expiration`
(two `expect`s on the hop-field minimum of a view segment / on the `u32` conversion) is reached only
with the encoding of a `wire_valid` path (every segment non-empty, `exp : u8`); the same arithmetic is
`pathExpiry` (site `expTooLarge`).  These four sites are covered by the harness oracle `C19:panic`,
not by `total`.

Every `expect` / `unwrap` / slice / unsigned subtraction / `try_push` / `panic!` site of the code is a
`Site` and is reported as `.error site`, so that "never panics" is a theorem about this model
(`Theorems/C19.lean`).  The model is of the code *after* the commit `fix: combinator must not panic
on solutions without any interface` (the `interfaces.first().expect(..)` of the original code is gone:
such a solution yields no path) and after `fix: combinator must de-duplicate paths by their
interface sequence`.

Idealisations (stated in checks/C19.json, checks/C04.json):
* hash-map iteration order is not modelled: the BFS output is sorted afterwards, so it only matters
  for solutions with equal sort keys (`hasTie`); the harness compares those cases order-insensitively;
* SHA-256 (segment id, data-plane fingerprint) is collision free: the fingerprint is modelled as the
  hashed tuple itself, the segment id is an opaque key given with the segment.
-/
namespace ScionVerif.Comb
open ScionVerif.Generated.Comb

/-- panic sites of combinator.rs / graph.rs -/
inductive Site
  /-- `number_of_hops`: `len as u64 - 1 - shortcut_idx` -/
  | weightUnderflow
  /-- `TinyVec::with_capacity(len - shortcut_idx)` -/
  | capacityUnderflow
  /-- `peer_entries.get(peer_idx).expect(..)` -/
  | peerIndex
  /-- `last_ia().expect("Segments are checked to have at least one hop")` -/
  | lastIa
  /-- `len() - 1` and `as_entries[..stop_at]` in `initialize_segment_id` -/
  | sliceRange
  /-- `panic!("valid path segment should always fit in the path")` after `try_push` -/
  | tryPush
  /-- `exp_duration.try_into().expect("exp_units can't exceed u32")` -/
  | expTooLarge
  /-- `StandardPathView::try_from_boxed(encoded).expect(..)` -/
  | viewInvalid
deriving DecidableEq, Repr

/-- `graph::Vertex` -/
inductive Vertex
  | as (ia : Nat)
  | peering (localIa localIf peerIa peerIf : Nat)
deriving DecidableEq, Repr, Inhabited

/-- `Vertex::ia` -/
def Vertex.ia? : Vertex → Option Nat
  | .as ia => some ia
  | _ => none

/-- `graph::Edge` -/
structure Edge where
  weight : Nat
  shortcut : Nat
  peer : Option Nat
deriving DecidableEq, Repr, Inhabited

/-- one `add_directed_edge(src, dst, segment, edge)` call -/
abbrev Ins := Vertex × Vertex × Edge

/-- `number_of_hops(segment, shortcut_idx, towards_peer)`; the subtraction is on `u64`
(no underflow: see `weightsOk`) -/
def numberOfHops (s : Seg) (sc : Nat) (towardsPeer : Bool) : Nat :=
  if towardsPeer then s.len - 1 - sc + 1 else s.len - 1 - sc

/-- `add_core_segment` -/
def coreInserts (s : Seg) : List Ins :=
  match s.firstIa, s.lastIa with
  | some f, some l =>
    let e : Edge := ⟨numberOfHops s 0 false, 0, none⟩
    [(.as f, .as l, e), (.as l, .as f, e)]
  | _, _ => []

/-- the calls made for one `(idx, entry)` of `add_non_core_segment` -/
def entryInserts (s : Seg) (leaf : Nat) (x : AsE × Nat) : List Ins :=
  (if x.2 ≠ s.len - 1 then
      let e : Edge := ⟨numberOfHops s x.2 false, x.2, none⟩
      [(Vertex.as leaf, Vertex.as x.1.ia, e), (Vertex.as x.1.ia, Vertex.as leaf, e)]
    else []) ++
  x.1.peers.zipIdx.flatMap fun (p : PeerE × Nat) =>
    [(Vertex.as leaf, Vertex.peering x.1.ia p.1.hop.ingress p.1.peer p.1.peerIf,
        (⟨numberOfHops s x.2 true, x.2, some p.2⟩ : Edge)),
     (Vertex.peering p.1.peer p.1.peerIf x.1.ia p.1.hop.ingress, Vertex.as leaf,
        (⟨numberOfHops s x.2 false, x.2, some p.2⟩ : Edge))]

/-- `add_non_core_segment`: `for (idx, entry) in segment.iter().enumerate().rev()` -/
def nonCoreInserts (s : Seg) : List Ins :=
  match s.lastIa with
  | none => []
  | some leaf => s.entries.zipIdx.reverse.flatMap (entryInserts s leaf)

def inserts (s : InSeg) : List Ins :=
  if s.core then coreInserts s.seg else nonCoreInserts s.seg

/-- every `weight_fn` call of `add_segment` is made with `1 + shortcut_idx ≤ len` (else the `u64`
subtraction panics in debug builds) -/
def weightsOk (s : InSeg) : Bool :=
  if s.core then (s.seg.firstIa.isNone || s.seg.lastIa.isNone || decide (1 ≤ s.seg.len))
  else (s.seg.lastIa.isNone || s.seg.entries.zipIdx.all fun x => decide (1 + x.2 ≤ s.seg.len))

/-- `HashMap::insert` semantics of the per-segment `(src, dst) ↦ edge` map: a later insert for the same
`(src, dst)` replaces the earlier one -/
def lastWins : List Ins → List Ins
  | [] => []
  | x :: xs => if xs.any (fun y => y.1 = x.1 ∧ y.2.1 = x.2.1) then lastWins xs else x :: lastWins xs

/-- an edge of the multigraph: `adjacencies[src][dst][segment] = edge` -/
structure GEdge where
  src : Vertex
  dst : Vertex
  seg : InSeg
  edge : Edge
deriving DecidableEq, Repr, Inhabited

def segEdges (s : InSeg) : List GEdge :=
  (lastWins (inserts s)).map fun i => ⟨i.1, i.2.1, s, i.2.2⟩

/-- `add_segments` -/
def graphOf (segs : List InSeg) : List GEdge := segs.eraseDups.flatMap segEdges

/-- `PathSolution` -/
structure Sol where
  edges : List GEdge
  cur : Vertex
  cost : Nat
deriving DecidableEq, Repr, Inhabited

def Sol.new (v : Vertex) : Sol := ⟨[], v, 0⟩

/-- `SolutionEdge::in_construction_direction`: the edge ends at an AS vertex and that AS is the last AS
of its segment (`self.dst.ia().is_some_and(|dst| Some(dst) == segment.last_ia())`, no `expect`).
With `seg.core = false`: `true` = `is_down`, `false` = `is_up`. -/
def GEdge.consDir (e : GEdge) : Bool :=
  match e.dst.ia? with
  | some d => some d == e.seg.seg.lastIa
  | none => false

/-- `PathSolution::valid_next_seg(&next)` (tables from the Rust source; since the commit `fix: combinator
must not offer valley paths` they depend on the direction in which an edge traverses its segment) -/
def validNext (edges : List GEdge) (n : GEdge) : Bool :=
  match edges with
  | [] => true
  | [a] => valid2 a.seg.core a.consDir n.seg.core n.consDir
  | [a, b] => valid3 a.seg.core a.consDir b.seg.core b.consDir n.seg.core n.consDir
  | _ => false

/-- all `try_add_edge` successes of one popped solution -/
def extend (g : List GEdge) (s : Sol) : List Sol :=
  g.filterMap fun e =>
    if e.src = s.cur ∧ validNext s.edges e = true then
      some ⟨s.edges ++ [e], e.dst, s.cost + e.edge.weight⟩
    else none

/-- the `while let Some(..) = queue.pop_front()` loop, one queue generation per round -/
def bfs (g : List GEdge) (dst : Nat) : Nat → List Sol → List Sol
  | 0, _ => []
  | fuel + 1, frontier =>
    let new := frontier.flatMap (extend g)
    new.filter (fun s => decide (s.cur = .as dst)) ++
      bfs g dst fuel (new.filter (fun s => !decide (s.cur = .as dst)))

/-- rounds after which the queue is empty (`valid_next_seg` rejects a 4th edge) -/
def bfsRounds : Nat := MAX_SEGMENTS + 1

def candidates (g : List GEdge) (src dst : Nat) : List Sol :=
  bfs g dst bfsRounds [Sol.new (.as src)]

/-! ### the sort of `get_paths` -/

def peerKey : Option Nat → Int
  | none => 0
  | some i => (i : Int) + 1

/-- comparison key: `cost`, `edges.len()`, then per edge `peer` (`None < Some`), `shortcut_idx`
reversed, segment id.  Lexicographic order on this list is the comparator of `sort_by`. -/
def Sol.key (s : Sol) : List Int :=
  (s.cost : Int) :: (s.edges.length : Int) ::
    s.edges.flatMap fun e => [peerKey e.edge.peer, -(e.edge.shortcut : Int), (e.seg.seg.id : Int)]

def lexLe : List Int → List Int → Bool
  | [], _ => true
  | _ :: _, [] => false
  | a :: as, b :: bs => decide (a < b) || (decide (a = b) && lexLe as bs)

def solLe (a b : Sol) : Bool := lexLe a.key b.key

/-- `solutions.sort_by(..)` (stable) -/
def sortSols (l : List Sol) : List Sol := l.mergeSort solLe

/-! ### `PathSolution::path` -/

def u16Max : Nat := 65535
def u32Max : Nat := 4294967295

/-- hop-field choice and link-MTU update for one AS entry -/
def pickHop (sc : Nat) (peer : Option Nat) (a : AsE) (idx mtu : Nat) : Except Site (HopF × Nat) :=
  match peer with
  | some pi =>
    if idx = sc then
      match a.peers[pi]? with
      | none => .error .peerIndex
      | some p => .ok (p.hop, min mtu p.peerMtu)
    else
      .ok (a.hop, if a.ingressMtu ≠ 0 ∧ ¬(idx = sc ∧ idx ≠ 0) then min mtu a.ingressMtu else mtu)
  | none =>
    .ok (a.hop, if a.ingressMtu ≠ 0 ∧ ¬(idx = sc ∧ idx ≠ 0) then min mtu a.ingressMtu else mtu)

/-- interfaces pushed for one AS entry (egress first: the segment is walked against construction order) -/
def hopIfs (sc : Nat) (peer : Option Nat) (a : AsE) (idx : Nat) (hf : HopF) : List (Nat × Nat) :=
  (if hf.egress ≠ 0 then [(a.ia, hf.egress)] else []) ++
  (if hf.ingress ≠ 0 ∧ (¬(idx = sc ∧ idx ≠ 0) ∨ (idx = sc ∧ peer.isSome)) then [(a.ia, hf.ingress)] else [])

/-- the loop over `as_entries.iter().enumerate().skip(shortcut_idx).rev()`;
returns (mtu, segment_interfaces, hops) in iteration order -/
def walk (sc : Nat) (peer : Option Nat) : List (AsE × Nat) → Nat →
    Except Site (Nat × List (Nat × Nat) × List HopF)
  | [], mtu => .ok (mtu, [], [])
  | x :: rest, mtu =>
    match pickHop sc peer x.1 x.2 mtu with
    | .error s => .error s
    | .ok (hf, mtu1) =>
      match walk sc peer rest (min mtu1 (min x.1.mtu AS_MTU_SAT)) with
      | .error s => .error s
      | .ok (m, ifs, hops) => .ok (m, hopIfs sc peer x.1 x.2 hf ++ ifs, hf :: hops)

/-- `dst.ia().is_some_and(|dst| dst == segment.last_ia().expect(..))` -/
def consDirOf (e : GEdge) : Except Site Bool :=
  match e.seg.seg.lastIa with
  | none => .error .lastIa
  | some last => .ok (e.dst.ia? == some last)

/-- `SolutionEdge::initialize_segment_id` -/
def initSegId (e : GEdge) : Except Site Nat :=
  match consDirOf e with
  | .error s => .error s
  | .ok inCons =>
    if ¬inCons ∧ e.seg.seg.len = 0 then .error .sliceRange else
    let stop0 := if inCons then e.edge.shortcut else e.seg.seg.len - 1
    let stop := if e.edge.peer.isSome ∧ e.edge.shortcut = stop0 then stop0 + 1 else stop0
    if stop > e.seg.seg.len then .error .sliceRange else
    .ok ((e.seg.seg.entries.take stop).foldl (fun beta a => beta ^^^ a.hop.macHi) e.seg.seg.segid)

/-- one iteration of `for solution_edge in self.edges.iter()`: (mtu', segment interfaces, segment) -/
def edgePart (e : GEdge) (mtu : Nat) : Except Site (Nat × List (Nat × Nat) × PSeg) :=
  if e.seg.seg.len < e.edge.shortcut then .error .capacityUnderflow else
  match walk e.edge.shortcut e.edge.peer (e.seg.seg.entries.zipIdx.drop e.edge.shortcut).reverse mtu with
  | .error s => .error s
  | .ok (m, ifs, hops) =>
    match consDirOf e with
    | .error s => .error s
    | .ok cd =>
      match initSegId e with
      | .error s => .error s
      | .ok sid =>
        .ok (m, if cd then ifs.reverse else ifs,
             ⟨cd, e.edge.peer.isSome, sid, e.seg.seg.ts, if cd then hops.reverse else hops⟩)

/-- the edge loop; `n` = segments already pushed (`ArrayVec<[Segment; 3]>::try_push`) -/
def edgeParts : List GEdge → Nat → Nat → Except Site (Nat × List (Nat × Nat) × List PSeg)
  | [], mtu, _ => .ok (mtu, [], [])
  | e :: rest, mtu, n =>
    match edgePart e mtu with
    | .error s => .error s
    | .ok (m, ifs, ps) =>
      if n ≥ MAX_SEGMENTS then .error .tryPush else
      match edgeParts rest m (n + 1) with
      | .error s => .error s
      | .ok (m', ifs', pss) => .ok (m', ifs ++ ifs', ps :: pss)

/-- `exp_time_to_duration(exp).as_secs()`; `exp : u8` -/
def expSecs (e : Nat) : Nat := EXP_UNIT_MS * (e % 256 + 1) / 1000

def minExp : List HopF → Nat
  | [] => 0
  | h :: hs => hs.foldl (fun m x => min m (x.exp % 256)) (h.exp % 256)

/-- `StandardPath::expiration` (= `StandardPathView::expiration` of the encoded path) -/
def pathExpiry (segs : List PSeg) : Except Site Nat :=
  if segs.any (fun s => decide (expSecs (minExp s.hops) > u32Max)) then .error .expTooLarge else
  if segs.any (fun s => s.hops.isEmpty) then .ok 0 else
  .ok (segs.foldl (fun acc s => min acc (min (s.ts + expSecs (minExp s.hops)) u32Max)) u32Max)

/-- `hop_fields.len() as u8` of segment `i` -/
def segLenU8 (segs : List PSeg) (i : Nat) : Nat := ((segs[i]?.map (·.hops.length)).getD 0) % 256

/-- `StandardPath::required_size` -/
def requiredSize (segs : List PSeg) : Nat :=
  let l0 := segLenU8 segs 0; let l1 := segLenU8 segs 1; let l2 := segLenU8 segs 2
  META_SIZE + ((if l0 > 0 then 1 else 0) + (if l1 > 0 then 1 else 0) + (if l2 > 0 then 1 else 0)) * INFO_SIZE
    + (l0 + l1 + l2) * HOP_SIZE

/-- `StandardPath::hop_field_count` -/
def hopFieldCount (segs : List PSeg) : Nat := (segs.map (·.hops.length)).sum

/-- `StandardPath::wire_valid` with `current_info_field = current_hop_field = 0`: the rejection tests
`WIRE_VALID_CHECKS` (extracted list; the translator fails when the list in the source changes) in
source order — size, #segments, no segment, `0 >= hop_field_count`, `0 > MAX_TOTAL_HOPS`,
`hop_field_count > MAX_TOTAL_HOPS + 1` (since `fix: StandardPath::wire_valid must reject paths with more
than 64 hop fields`), (`0 >= info_field_count` = no segment), then per segment `> MAX_SEGMENT_HOPS` and
empty.  `InfoField::wire_valid` / `HopField::wire_valid` accept everything. -/
def encodeOk (segs : List PSeg) : Bool :=
  decide (requiredSize segs ≤ PATH_MAX_SIZE) && decide (segs.length ≤ MAX_SEGMENTS) && !segs.isEmpty &&
  decide (0 < hopFieldCount segs) && decide (0 ≤ MAX_TOTAL_HOPS) &&
  decide (hopFieldCount segs ≤ TOTAL_HOPS_LIMIT) &&
  segs.all fun s => decide (s.hops.length ≤ MAX_SEGMENT_HOPS) && !s.hops.isEmpty

/-- the encoded meta header has 6-bit length fields; the view is valid iff the buffer size computed
from the decoded lengths is the buffer size -/
def viewOk (segs : List PSeg) : Bool :=
  decide (segLenU8 segs 0 < 2 ^ SEG0_LEN_BITS) && decide (segLenU8 segs 1 < 2 ^ SEG1_LEN_BITS) &&
  decide (segLenU8 segs 2 < 2 ^ SEG2_LEN_BITS)

/-- result of `PathSolution::path().ok().flatten()` with the panic made explicit -/
inductive PathRes
  | panic (s : Site)
  /-- `Err(EncodeError)` or `Ok(None)`: dropped by `filter_map` -/
  | dropped
  | path (p : Path)
deriving DecidableEq, Repr

/-- `PathSolution::path` -/
def solPath (s : Sol) : PathRes :=
  if s.edges.isEmpty then .dropped else
  match edgeParts s.edges MTU_INIT 0 with
  | .error st => .panic st
  | .ok (mtu, ifs, segs) =>
    match pathExpiry segs with
    | .error st => .panic st
    | .ok expiry =>
      if !encodeOk segs then .dropped else
      if !viewOk segs then .panic .viewInvalid else
      match ifs.head?, ifs.getLast? with
      | some f, some l => .path ⟨f.1, l.1, segs, mtu, expiry, ifs⟩
      | _, _ => .dropped

/-- `solutions.iter().filter_map(|s| s.path().ok().flatten())` -/
def pathsOf : List Sol → Except Site (List Path)
  | [] => .ok []
  | s :: rest =>
    match solPath s with
    | .panic st => .error st
    | .dropped => pathsOf rest
    | .path p =>
      match pathsOf rest with
      | .error st => .error st
      | .ok ps => .ok (p :: ps)

/-- `has_loops`: some AS owns more than `LOOP_MAX_IFS` interfaces of the path -/
def hasLoops (p : Path) : Bool :=
  p.ifs.any fun i => decide ((p.ifs.filter fun j => decide (j.1 = i.1)).length > LOOP_MAX_IFS)

/-- what `DpPathFingerprint::from_dp_path` hashes (SHA-256 idealised as injective) -/
def Path.fpr (p : Path) : Nat × Nat × List (Nat × Nat) :=
  (p.src, p.dst, p.segs.flatMap fun s => s.hops.map fun h => (h.ingress, h.egress))

/-- key of `filter_duplicates`: the interface sequence of the path metadata (since the commit
`fix: combinator must de-duplicate paths by their interface sequence`; before, the data-plane
fingerprint `Path.fpr`) -/
def Path.dedupKey (p : Path) : List (Nat × Nat) := p.ifs

/-- one iteration of `filter_duplicates` -/
def insertDedup : List Path → Path → List Path
  | [], p => [p]
  | q :: qs, p =>
    if q.dedupKey = p.dedupKey then (if p.expiry > q.expiry then p :: qs else q :: qs)
    else q :: insertDedup qs p

/-- `filter_duplicates` -/
def filterDuplicates (ps : List Path) : List Path := ps.foldl insertDedup []

def inputSegs (cores nonCores : List Seg) : List InSeg :=
  cores.map (⟨true, ·⟩) ++ nonCores.map (⟨false, ·⟩)

def sortedCandidates (src dst : Nat) (segs : List InSeg) : List Sol :=
  sortSols (candidates (graphOf segs) src dst)

/-- `solutions.iter().filter_map(path).filter(!has_loops)` then `filter_duplicates` -/
def finish (sols : List Sol) : Except Site (List Path) :=
  match pathsOf sols with
  | .error st => .error st
  | .ok ps => .ok (filterDuplicates (ps.filter fun p => !hasLoops p))

/-- `combine(src, dst, cores, non_cores)` -/
def combine (src dst : Nat) (cores nonCores : List Seg) : Except Site (List Path) :=
  if src = dst then .ok [] else
  let segs := inputSegs cores nonCores
  if !segs.all weightsOk then .error .weightUnderflow else
  finish (sortedCandidates src dst segs)

/-- two adjacent sorted candidates compare equal but yield different results: the order of the
implementation's output then depends on hash-map iteration order -/
def hasTie : List Sol → Bool
  | a :: b :: rest => (solLe b a && decide (solPath a ≠ solPath b)) || hasTie (b :: rest)
  | _ => false

end ScionVerif.Comb
