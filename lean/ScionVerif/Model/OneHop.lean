import ScionVerif.Model.StdPath
/-!
# Model of the one-hop path (`onehop/view.rs`, `onehop/model.rs`)

`OneHopV` is the structured content of a `OneHopPathView` (all 256 bits: info field with its reserved
byte, two hop fields with all flag bits); `OneHopM` mirrors `OneHopPath`.  As in `Model/StdPath.lean`
a mutating operation is given as a statement sequence (`*Imp`, run by the driver) and as a summary.  Core-only.
-/
namespace ScionVerif.OneHop
open ScionVerif.Generated.StdPath ScionVerif.StdPath
open ScionVerif.Mac (betaStep MacInput MacFn)

structure OneHopV where
  info : InfoF
  hop1 : HopF
  hop2 : HopF
deriving Repr, DecidableEq

def OneHopV.Valid (v : OneHopV) : Prop := v.info.Valid ∧ v.hop1.Valid ∧ v.hop2.Valid

def OneHopV.toBytes (v : OneHopV) : Bytes := v.info.toBytes ++ v.hop1.toBytes ++ v.hop2.toBytes

/-- `OneHopPathView::try_from_slice`: the three records sit at the byte ranges of `OneHopPathLayout` -/
def ofBytes (b : Bytes) : Option (OneHopV × Bytes) :=
  if b.length < ONEHOP_SIZE_BYTES then none else
  let sl (start width : Nat) : Bytes := (b.drop (start / 8)).take (width / 8)
  some ({ info := InfoF.ofBytes (sl ONEHOP_INFO_FIELD_START ONEHOP_INFO_FIELD_WIDTH)
          hop1 := HopF.ofBytes (sl ONEHOP_HOP_FIELD_1_START ONEHOP_HOP_FIELD_1_WIDTH)
          hop2 := HopF.ofBytes (sl ONEHOP_HOP_FIELD_2_START ONEHOP_HOP_FIELD_2_WIDTH) },
        b.drop ONEHOP_SIZE_BYTES)

inductive RevErr | secondHopNotSet
deriving Repr, DecidableEq

/-- the hop field the second AS fills in is the second one *in construction direction*: position 2 with
CONS_DIR, position 1 once the path has been reversed (`/repo` 9957320 `fix: a reversed one-hop path must be
reversible again`; before, position 2 was looked at regardless of the direction) -/
def secondHopUnset (flags : Nat) (hop1 hop2 : HopF) : Bool :=
  if consDir flags then hop2.consIn == 0 else hop1.consIn == 0

/-- `OneHopPathView::try_reverse` (summary) -/
def reverseView (v : OneHopV) : OneHopV × Except RevErr Unit :=
  if secondHopUnset v.info.flags v.hop1 v.hop2 then (v, .error .secondHopNotSet) else
  ({ info := v.info.toggle, hop1 := v.hop2, hop2 := v.hop1 }, .ok ())

/-- `OneHopPathView::try_reverse`, statement by statement: the check, `std::mem::swap(hop1, hop2)`, the flag write -/
def reverseViewImp : Imp OneHopV (Except RevErr Unit) (Except RevErr Unit) := do
  let s ← Imp.get
  if secondHopUnset s.info.flags s.hop1 s.hop2 then Imp.exit (.error .secondHopNotSet) else do
  Imp.write fun s => { s with hop1 := s.hop2, hop2 := s.hop1 }
  let flags := toggleCons (← Imp.get).info.flags
  Imp.write fun s => { s with info := { s.info with flags := flags } }
  pure (.ok ())

def reverseViewImp.effects : List String := ["exit", "write:mut_hop_fields", "write:mem_swap", "write:info_field_mut"]

/-- the check as it was before `/repo` 9957320 (kept for the witness of the repaired defect) -/
def reverseViewPreFix (v : OneHopV) : OneHopV × Except RevErr Unit :=
  if v.hop2.consIn = 0 then (v, .error .secondHopNotSet) else
  ({ info := v.info.toggle, hop1 := v.hop2, hop2 := v.hop1 }, .ok ())

/-- `OneHopPathView::expiration` (after `fix: … must saturate`): `min` over both hop fields -/
def OneHopV.expiration (v : OneHopV) : Nat :=
  satAdd32 v.info.ts (expSecs (Nat.min v.hop1.exp v.hop2.exp))

/-- `OneHopPathView::set_second_hop` (after `fix: one-hop set_second_hop …`): built from scratch -/
def setSecondHopView {K : Type} (mac : MacFn K) (v : OneHopV) (ingress : Nat) (key : K) (advanced : Bool) : OneHopV :=
  let beta := if advanced then v.info.segId else betaStep v.info.segId v.hop1.mac
  let h : HopF := { flags := 0, exp := v.hop1.exp, consIn := ingress, consEg := 0, mac := 0 }
  { v with hop2 := { h with mac := mac key (macInput h { v.info with segId := beta }) } }

/-- `OneHopPath` -/
structure OneHopM where
  info : InfoM
  hop1 : HopF
  hop2 : HopF
deriving Repr, DecidableEq

def fromView (v : OneHopV) : OneHopM := { info := v.info.toM, hop1 := v.hop1, hop2 := v.hop2 }
/-- `encode_unchecked` (always `wire_valid`) -/
def OneHopM.encode (m : OneHopM) : OneHopV := { info := m.info.toV, hop1 := m.hop1, hop2 := m.hop2 }

/-- `OneHopPath::try_reverse` (summary) -/
def reverseModel (m : OneHopM) : OneHopM × Except RevErr Unit :=
  if secondHopUnset m.info.flags m.hop1 m.hop2 then (m, .error .secondHopNotSet) else
  ({ info := m.info.toggle, hop1 := m.hop2, hop2 := m.hop1 }, .ok ())

/-- `OneHopPath::try_reverse`, statement by statement: the check, `self.hops.swap(0, 1)`, `self.info.flags ^= CONS_DIR` -/
def reverseModelImp : Imp OneHopM (Except RevErr Unit) (Except RevErr Unit) := do
  let s ← Imp.get
  if secondHopUnset s.info.flags s.hop1 s.hop2 then Imp.exit (.error .secondHopNotSet) else do
  Imp.write fun s => { s with hop1 := s.hop2, hop2 := s.hop1 }
  Imp.write fun s => { s with info := s.info.toggle }
  pure (.ok ())

def reverseModelImp.effects : List String := ["exit", "write:hops.swap", "write:info.flags"]

/-- `OneHopPath::set_second_hop` -/
def setSecondHopModel {K : Type} (mac : MacFn K) (m : OneHopM) (ingress : Nat) (key : K) (advanced : Bool) : OneHopM :=
  let beta := if advanced then m.info.segId else betaStep m.info.segId m.hop1.mac
  let h : HopF := { flags := 0, exp := m.hop1.exp, consIn := ingress, consEg := 0, mac := 0 }
  { m with hop2 := { h with mac := mac key (macInput h { m.info.toV with segId := beta }) } }

/-- `OneHopPath::try_into_reversed_standard_path` (`DpPath::try_reverse` of a one-hop model) -/
def toReversedStandard (m : OneHopM) : Except RevErr PathM :=
  if secondHopUnset m.info.flags m.hop1 m.hop2 then .error .secondHopNotSet else
  .ok { currInf := 0, currHf := 0, segs := [{ info := m.info.toggle, hops := [m.hop2, m.hop1] }] }

end ScionVerif.OneHop
