import ScionVerif.Model.HopPred
/-!
# Model of `sciparse/src/scion/path/policy/hop_pattern.rs`

* `lex` mirrors `HopPatternLexer::tokenize` (`next_token` + `read_hop_predicate`) as a two-state machine
  over the characters (state `none` = between tokens, `some (start, ident)` = inside a hop predicate);
  spans are byte offsets (`Char.utf8Size`);
* `parseExpr` / `parseLoop` mirror `HopPatternParser::parse_expr` (prefix/atom part and the left
  denotation loop) including the `nesting` argument, the tracked `depth` and every `check_depth`
  (`MAX_EXPRESSION_DEPTH`); `parseTop` mirrors `HopPatternParser::parse`.  The recursion is on explicit fuel;
  `Theorems/C16.lean` proves that `tokens.length + 1` units are always enough (`parse_total`), so the
  `fuel` error is unreachable.  Token positions in errors are given as the number of tokens that were
  still unread (including the offending one) – the driver turns this into a token index;
* `matchFrom` mirrors `HopPatternExpression::match_from`, `allNested` mirrors `all_nested_matches` (the
  `while !frontier.is_empty()` loop runs on fuel `hops.length + 1`; `closure_fuel_sufficient` proves that
  the loop condition is false by then), `matchPolicy` mirrors `HopPatternPolicy::matches`.
  `BTreeSet<usize>` is represented by a list used only through membership.
Core-only.
-/
namespace ScionVerif.Policy
open ScionVerif.Generated.Policy

/-! ## lexer -/

/-- `TokenKind` -/
inductive Tok where
  | pred (s : List Char)
  | bang | and | or | lparen | rparen | qmark | plus | star | eoi
deriving DecidableEq, Repr

/-- `Token` (span = byte offsets) -/
structure Token where
  kind : Tok
  lo : Nat
  hi : Nat
deriving DecidableEq, Repr

def Tok.ofName : String → Option Tok
  | "Bang" => some .bang
  | "And" => some .and
  | "Or" => some .or
  | "LParen" => some .lparen
  | "RParen" => some .rparen
  | "QMark" => some .qmark
  | "Plus" => some .plus
  | "Star" => some .star
  | _ => none

/-- the single-character arms of `next_token` -/
def singleCharTok (c : Char) : Option Tok :=
  match SINGLE_CHAR_TOKENS.lookup c with
  | some n => Tok.ofName n
  | none => none

/-- the `c if c.is_whitespace() => continue` arm of `next_token` -/
def lexSkips (c : Char) : Bool := LEX_SKIPS_RUST_WHITESPACE && isRustWhitespace c

/-- `read_hop_predicate` stops in front of such a character -/
def stopsPred (c : Char) : Bool := isRustWhitespace c || RESERVED_CHARS.contains c

/-- lexer state inside a hop predicate: start offset and the identifier read so far (reversed) -/
abbrev PredState := Option (Nat × List Char)

def utf8Len (cs : List Char) : Nat := cs.foldl (fun n c => n + c.utf8Size) 0

/-- the token for a finished hop predicate -/
def flushPred : PredState → List Token
  | none => []
  | some (s0, acc) => [⟨.pred acc.reverse, s0, s0 + utf8Len acc⟩]

/-- one character seen by `next_token` (not inside a predicate): emitted token and new state -/
def lexStart (c : Char) (idx : Nat) : List Token × PredState :=
  match singleCharTok c with
  | some k => ([⟨k, idx, idx + 1⟩], none)
  | none => if lexSkips c then ([], none) else ([], some (idx, [c]))

def lexGo : List Char → Nat → PredState → List Token
  | [], idx, st => flushPred st ++ [⟨.eoi, idx, idx⟩]
  | c :: cs, idx, none =>
    let (t, st') := lexStart c idx
    t ++ lexGo cs (idx + c.utf8Size) st'
  | c :: cs, idx, some (s0, acc) =>
    if stopsPred c then
      let (t, st') := lexStart c idx
      flushPred (some (s0, acc)) ++ t ++ lexGo cs (idx + c.utf8Size) st'
    else lexGo cs (idx + c.utf8Size) (some (s0, c :: acc))

/-- `HopPatternLexer::new(s).tokenize()` -/
def lex (s : List Char) : List Token := lexGo s 0 none

def lexKinds (s : List Char) : List Tok := (lex s).map (·.kind)

/-! ## parser -/

/-- `HopPatternExpression` -/
inductive Expr where
  | pred (p : Pred)
  | or (a b : Expr)
  | optional (a : Expr)
  | oneOrMore (a : Expr)
  | zeroOrMore (a : Expr)
deriving DecidableEq, Repr

/-- depth of the syntax tree: a hop predicate has depth 1, every operator is one level above its deepest
    operand (the quantity that `match_from`, `clone`, `eq`, `drop` recurse on) -/
def Expr.depth : Expr → Nat
  | .pred _ => 1
  | .or a b => max a.depth b.depth + 1
  | .optional a => a.depth + 1
  | .oneOrMore a => a.depth + 1
  | .zeroOrMore a => a.depth + 1

/-- `ParseError` classes; the `Nat` is the number of unread tokens when the offending token was read
    (the offending token included) -/
inductive PErr where
  | invalidPred (rem : Nat)
  | bangUnsupported (rem : Nat)
  | expectedRParen (rem : Nat)
  | unclosedParen (rem : Nat)
  | unexpectedToken (rem : Nat)
  | unexpectedEnd
  | andUnsupported (rem : Nat)
  | trailingTokens (rem : Nat)
  /-- `check_depth`: "expression is nested deeper than MAX_EXPRESSION_DEPTH levels" (at the `(` / operator token) -/
  | tooDeep (rem : Nat)
  | fuel
deriving DecidableEq, Repr

/-- `check_depth(depth, span)` fails -/
def depthExceeded (depth : Nat) : Bool := decide (depth > MAX_EXPRESSION_DEPTH)

mutual
/-- `parse_expr(left_binding_power, nesting)`, prefix / atom part.  Result: expression, the depth the code
    tracks for it, unread tokens. -/
def parseExpr : Nat → Nat → Nat → List Tok → Except PErr ((Expr × Nat) × List Tok)
  | 0, _, _, _ => .error .fuel
  | fuel + 1, nesting, bp, toks =>
    match toks with
    | [] => .error .unexpectedEnd
    | .pred s :: rest =>
      match parsePred s with
      | none => .error (.invalidPred toks.length)
      | some p => parseLoop fuel nesting bp (.pred p) PRED_DEPTH rest
    | .bang :: _ => .error (.bangUnsupported toks.length)
    | .lparen :: rest =>
      if depthExceeded (nesting + 1) then .error (.tooDeep toks.length)
      else
        match parseExpr fuel (nesting + 1) NO_BIND_POWER rest with
        | .error e => .error e
        | .ok ((e, d), rest') =>
          match rest' with
          | .rparen :: rest'' => parseLoop fuel nesting bp e d rest''
          | [] => .error (.unclosedParen toks.length)
          | _ :: _ => .error (.expectedRParen rest'.length)
    | _ :: _ => .error (.unexpectedToken toks.length)
/-- `parse_expr`, left denotation loop (postfix operators via `consume_postfix`, then infix `|`) -/
def parseLoop : Nat → Nat → Nat → Expr → Nat → List Tok → Except PErr ((Expr × Nat) × List Tok)
  | 0, _, _, _, _, _ => .error .fuel
  | fuel + 1, nesting, bp, e, d, toks =>
    match toks with
    | .qmark :: rest =>
      if depthExceeded (d + 1) then .error (.tooDeep toks.length)
      else parseLoop fuel nesting bp (.optional e) (d + 1) rest
    | .plus :: rest =>
      if depthExceeded (d + 1) then .error (.tooDeep toks.length)
      else parseLoop fuel nesting bp (.oneOrMore e) (d + 1) rest
    | .star :: rest =>
      if depthExceeded (d + 1) then .error (.tooDeep toks.length)
      else parseLoop fuel nesting bp (.zeroOrMore e) (d + 1) rest
    | .and :: _ => .error (.andUnsupported toks.length)
    | .or :: rest =>
      if bp > OR_BIND_POWER then .ok ((e, d), toks)
      else if depthExceeded (nesting + 1) then .error (.tooDeep toks.length)
      else
        match parseExpr fuel (nesting + 1) (if OR_LEFT_TO_RIGHT then OR_BIND_POWER + 1 else OR_BIND_POWER) rest with
        | .error err => .error err
        | .ok ((r, dr), rest') =>
          if depthExceeded (max d dr + 1) then .error (.tooDeep toks.length)
          else parseLoop fuel nesting bp (.or e r) (max d dr + 1) rest'
    | _ => .ok ((e, d), toks)
end

/-- `HopPatternParser::parse` (`acc` = expressions so far, reversed) -/
def parseTop : Nat → List Tok → List Expr → Except PErr (List Expr)
  | 0, _, _ => .error .fuel
  | fuel + 1, toks, acc =>
    match toks with
    | .eoi :: rest =>
      if rest.isEmpty then .ok acc.reverse else .error (.trailingTokens toks.length)
    | _ =>
      match parseExpr (toks.length + 1) TOP_NESTING NO_BIND_POWER toks with
      | .error e => .error e
      | .ok ((e, _), rest) => parseTop fuel rest (e :: acc)

/-- `HopPatternParser::new(tokens).parse()` -/
def parseTokens (toks : List Tok) : Except PErr (List Expr) := parseTop (toks.length + 1) toks []

/-- `HopPatternPolicy::parse` -/
def parsePolicy (s : List Char) : Except PErr (List Expr) := parseTokens (lexKinds s)

/-! ## the grammar: the same parser without the depth limit

Proof device only (not driven by the harness): `parseExprU` / `parseLoopU` / `parseTopU` are `parse_expr` /
`parse` with every `check_depth` removed.  `Lemmas/Policy.lean` proves that the limited parser either reports
`tooDeep` or returns exactly what the unlimited one returns (`parse_agrees`), so results about the grammar
(redundant parentheses, totality) carry over. -/

mutual
def parseExprU : Nat → Nat → List Tok → Except PErr (Expr × List Tok)
  | 0, _, _ => .error .fuel
  | fuel + 1, bp, toks =>
    match toks with
    | [] => .error .unexpectedEnd
    | .pred s :: rest =>
      match parsePred s with
      | none => .error (.invalidPred toks.length)
      | some p => parseLoopU fuel bp (.pred p) rest
    | .bang :: _ => .error (.bangUnsupported toks.length)
    | .lparen :: rest =>
      match parseExprU fuel NO_BIND_POWER rest with
      | .error e => .error e
      | .ok (e, rest') =>
        match rest' with
        | .rparen :: rest'' => parseLoopU fuel bp e rest''
        | [] => .error (.unclosedParen toks.length)
        | _ :: _ => .error (.expectedRParen rest'.length)
    | _ :: _ => .error (.unexpectedToken toks.length)
def parseLoopU : Nat → Nat → Expr → List Tok → Except PErr (Expr × List Tok)
  | 0, _, _, _ => .error .fuel
  | fuel + 1, bp, e, toks =>
    match toks with
    | .qmark :: rest => parseLoopU fuel bp (.optional e) rest
    | .plus :: rest => parseLoopU fuel bp (.oneOrMore e) rest
    | .star :: rest => parseLoopU fuel bp (.zeroOrMore e) rest
    | .and :: _ => .error (.andUnsupported toks.length)
    | .or :: rest =>
      if bp > OR_BIND_POWER then .ok (e, toks)
      else
        match parseExprU fuel (if OR_LEFT_TO_RIGHT then OR_BIND_POWER + 1 else OR_BIND_POWER) rest with
        | .error err => .error err
        | .ok (r, rest') => parseLoopU fuel bp (.or e r) rest'
    | _ => .ok (e, toks)
end

def parseTopU : Nat → List Tok → List Expr → Except PErr (List Expr)
  | 0, _, _ => .error .fuel
  | fuel + 1, toks, acc =>
    match toks with
    | .eoi :: rest =>
      if rest.isEmpty then .ok acc.reverse else .error (.trailingTokens toks.length)
    | _ =>
      match parseExprU (toks.length + 1) NO_BIND_POWER toks with
      | .error e => .error e
      | .ok (e, rest) => parseTopU fuel rest (e :: acc)

def parseTokensU (toks : List Tok) : Except PErr (List Expr) := parseTopU (toks.length + 1) toks []

/-! ## matcher -/

/-- the body of the `for p in frontier { for n in inner.match_from(hops, p) { if !all.contains(&n) {
    all.insert(n); next.insert(n); } } }` loops, on the concatenated candidate list -/
def absorb : List Nat → List Nat × List Nat → List Nat × List Nat
  | [], s => s
  | n :: ns, (all, next) =>
    if n ∈ all then absorb ns (all, next) else absorb ns (n :: all, n :: next)

/-- `while !frontier.is_empty() { … }` of `all_nested_matches` -/
def closure (step : Nat → List Nat) : Nat → List Nat → List Nat → List Nat
  | 0, _, all => all
  | fuel + 1, frontier, all =>
    match frontier with
    | [] => all
    | _ :: _ =>
      let r := absorb (frontier.flatMap step) (all, [])
      closure step fuel r.2 r.1

/-- `all_nested_matches` for a given `inner.match_from(hops, ·)` -/
def allNestedWith (step : Nat → List Nat) (bound : Nat) (pos : Nat) : List Nat :=
  -- `frontier = inner.match_from(hops, pos)` is a set: duplicates removed; `all.extend(&frontier)`
  let r := absorb (step pos) ([], [])
  closure step (bound + 1) r.2 r.1

/-- `HopPatternExpression::match_from` -/
def matchFrom : Expr → List Hop → Nat → List Nat
  | .pred p, hs, pos =>
    match hs[pos]? with
    | some h => if p.matches h then [pos + 1] else []
    | none => []
  | .or a b, hs, pos => matchFrom a hs pos ++ matchFrom b hs pos
  | .optional a, hs, pos => pos :: matchFrom a hs pos
  | .oneOrMore a, hs, pos => allNestedWith (matchFrom a hs) hs.length pos
  | .zeroOrMore a, hs, pos => pos :: allNestedWith (matchFrom a hs) hs.length pos

/-- the `for expr in &self.0` loop of `HopPatternPolicy::matches`
    (`sort_unstable` + `dedup` only normalise the set representation) -/
def matchSeq : List Expr → List Hop → List Nat → Bool
  | [], hs, positions => positions.contains hs.length
  | e :: es, hs, positions =>
    let next := (positions.flatMap (matchFrom e hs)).eraseDups
    if next.isEmpty then false else matchSeq es hs next

/-- `HopPatternPolicy::matches` -/
def matchPolicy (es : List Expr) (hs : List Hop) : Bool := matchSeq es hs [0]

end ScionVerif.Policy
