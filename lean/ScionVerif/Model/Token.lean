import ScionVerif.Generated.Token
/-!
# Model of SNAP bearer-token verification (C10)

Mirrors, statement by statement,

* `SnapTokenVerifier::verify` (snap-control `server/token_verifier.rs`): `decode_header`, key selection by
  `kid` (JWKS store if configured, static key otherwise), `decode::<AnyClaims>`;
* `jsonwebtoken::decode` / `verify_signature_body` / `validate` (10.x, `validation.rs`, `decoding.rs`):
  algorithm membership, key family, signature, claims deserialisation (twice: `AnyClaims`, then
  `ClaimsForValidation`), required spec claims, `exp`/`nbf` with leeway, `sub`, `iss`, `aud`;
* `AnyClaims::deserialize` (snap-tokens `lib.rs`): `ver` dispatch, serde-derived v0 / v1 structs
  (field list and types come from `Generated/Token.lean`), v0 `Pssid` = `Uuid::parse_str`, v1 `Pssid` =
  base64url-no-pad of `0x00 ‖ 16 bytes`;
* `register_snaptun_identity_handler` (snap-control `api/crpc.rs`): `lifetime = exp_time − SystemTime::now()`.

Outside the model (library code, entering as data of `ParsedToken`, computed by the harness with the
libraries themselves): splitting at `.`, base64url, JSON tokenisation / number classification,
Ed25519 (`sigOkUnder` is an oracle bit per key), f64 rounding of a float-valued time claim.
Core-only: linked into `drv_token`.
-/
namespace ScionVerif.Token
open ScionVerif.Generated.Token (FieldTy expUnitNs bearerPrefix)

abbrev KeyId := Nat

/-- A JSON number as `serde_json` classifies it (no `arbitrary_precision`). -/
inductive JNum
  /-- non-negative integer that fits `u64` (`N::PosInt`) -/
  | u64 (n : Nat)
  /-- negative integer (`N::NegInt`) -/
  | neg
  /-- `N::Float`; `r = some (v.round() as u64)` when `v` is finite, `0 ≤ v < 2^64` (what jsonwebtoken's
  `numeric_type` visitor accepts), `none` otherwise -/
  | float (r : Option Nat)
  deriving DecidableEq, Repr

/-- The view of a JSON claim value that decides the verifier's behaviour. -/
inductive JVal
  | null
  | bool (b : Bool)
  | num (n : JNum)
  | str (s : String)
  /-- array all of whose elements are strings (in particular the empty array) -/
  | strs (l : List String)
  /-- any other array (necessarily non-empty) -/
  | arr
  /-- object; `empty` = it has no members -/
  | obj (empty : Bool)
  deriving DecidableEq, Repr

/-- The payload segment. -/
inductive Payload
  /-- not base64url-no-pad -/
  | badB64
  /-- bytes are not one JSON value (includes invalid UTF-8, trailing characters, recursion limit) -/
  | badJson
  /-- a JSON value that is not an object -/
  | nonObj
  /-- a JSON object: members in document order, duplicates kept -/
  | obj (claims : List (String × JVal))

/-- A compact-serialisation string whose header segment decodes (three segments, base64url, JSON object
that `jsonwebtoken::Header` accepts up to the algorithm name).  Strings that are not of this form are
refused by `decode_header` before anything else (`SnapTokenVerifyError::HeaderDecodeError`). -/
structure ParsedToken where
  alg : String
  kid : Option String
  /-- the signature segment is base64url-no-pad -/
  sigB64 : Bool
  /-- oracle: `ed25519_dalek::VerifyingKey::verify(header.payload, sig)` succeeds under key `k` -/
  sigOkUnder : KeyId → Bool
  payload : Payload

/-- Keys the verifier trusts. -/
structure Keys where
  /-- the statically configured key -/
  static : KeyId
  /-- content of the JWKS store (`kid ↦ key`), `none` when no store is configured -/
  jwks : Option (List (String × KeyId))
  /-- the key is an Ed25519 public key (`EdDSAVerifier::new` succeeds) -/
  edKey : KeyId → Bool

/-- `jsonwebtoken::Validation` (the fields `validate` reads). -/
structure Validation where
  algorithms : List String
  requiredSpecClaims : List String
  leeway : Nat
  rejectExpiringIn : Nat
  validateExp : Bool
  validateNbf : Bool
  validateAud : Bool
  aud : Option (List String)
  iss : Option (List String)
  sub : Option String

/-- The configuration `build_validation()` produces, as re-extracted from the source on every run. -/
def generatedValidation : Validation where
  algorithms := Generated.Token.algorithms
  requiredSpecClaims := Generated.Token.requiredSpecClaims
  leeway := Generated.Token.leeway
  rejectExpiringIn := Generated.Token.rejectExpiringIn
  validateExp := Generated.Token.validateExp
  validateNbf := Generated.Token.validateNbf
  validateAud := Generated.Token.validateAud
  aud := Generated.Token.audience
  iss := Generated.Token.issuer
  sub := Generated.Token.subject

/-- Error classes (`SnapTokenVerifyError` × `jsonwebtoken::errors::ErrorKind`) plus the panic site. -/
inductive Err
  | header | unknownKid | invalidAlgorithm | invalidKeyFormat | base64 | invalidSignature | json
  | missingRequiredClaim | invalidClaimFormat | invalidToken | expired | immature
  | invalidSubject | invalidIssuer | invalidAudience
  /-- `now - leeway` / `now + leeway` overflow in `validate` (debug build) -/
  | panic
  deriving DecidableEq, Repr

/-- What `verify` returns on success (the part of `AnyClaims` the control plane uses). -/
structure Claims where
  ver : Nat
  exp : Nat
  deriving DecidableEq, Repr

/-! ## claim lookup -/

/-- `serde_json::Map` semantics: the last member with that name wins. -/
def lookup (cs : List (String × JVal)) (k : String) : Option JVal :=
  (cs.reverse.find? (fun p => p.1 == k)).map (·.2)

/-- number of members named `k` -/
def count (cs : List (String × JVal)) (k : String) : Nat :=
  (cs.filter (fun p => p.1 == k)).length

/-- the claims serde-derived `ClaimsForValidation` knows: a repeated one is `duplicate field` -/
def registered : List String := ["exp", "nbf", "sub", "iss", "aud"]

def dupRegistered (cs : List (String × JVal)) : Bool :=
  registered.any (fun k => decide (1 < count cs k))

/-- `exp`/`nbf` are read with `deserialize_any` and a visitor that only knows numbers; the error is
swallowed (`FailedToParse`).  For a non-empty array / object the streaming JSON reader has by then
consumed the opening bracket only, so the enclosing struct reader fails (`ErrorKind::Json`); scalars,
`[]` and `{}` are consumed completely. -/
def numShapeOk : Option JVal → Bool
  | some (.strs (_ :: _)) => false
  | some .arr => false
  | some (.obj false) => false
  | _ => true

/-- `sub : Option<Cow<str>>`: on `[` or `{` serde_json reports the type error without consuming
anything, the swallowed error leaves the reader in front of the value: the struct reader fails. -/
def subShapeOk : Option JVal → Bool
  | some (.strs _) => false
  | some .arr => false
  | some (.obj _) => false
  | _ => true

/-- `serde_json::from_slice::<ClaimsForValidation>` succeeds (`aud`/`iss` are buffered untagged enums
and never disturb the reader) -/
def cfvReadable (cs : List (String × JVal)) : Bool :=
  !dupRegistered cs && numShapeOk (lookup cs "exp") && numShapeOk (lookup cs "nbf") && subShapeOk (lookup cs "sub")

/-! ## PSSID text forms -/

def isHexByte (b : UInt8) : Bool :=
  (48 ≤ b && b ≤ 57) || (65 ≤ b && b ≤ 70) || (97 ≤ b && b ≤ 102)

/-- `uuid::parser::parse_hyphenated` on 36 bytes -/
def hyphenatedOk (s : List UInt8) : Bool :=
  s.length == 36 &&
  (List.range 36).all (fun i =>
    if i == 8 || i == 13 || i == 18 || i == 23 then s[i]? == some 45 else (s[i]?.map isHexByte).getD false)

/-- `Uuid::parse_str` (uuid 1.x `try_parse`): simple, hyphenated, braced, URN -/
def uuidOk (str : String) : Bool :=
  let s := str.toUTF8.toList
  if s.length == 32 then s.all isHexByte
  else if s.length == 36 then hyphenatedOk s
  else if s.length == 38 then s.head? == some 123 && s.getLast? == some 125 && hyphenatedOk ((s.drop 1).take 36)
  else if s.length == 45 then s.take 9 == "urn:uuid:".toUTF8.toList && hyphenatedOk (s.drop 9)
  else false

/-- index of a byte in the base64url alphabet -/
def b64urlIdx (b : UInt8) : Option Nat :=
  if 65 ≤ b && b ≤ 90 then some (b.toNat - 65)
  else if 97 ≤ b && b ≤ 122 then some (b.toNat - 97 + 26)
  else if 48 ≤ b && b ≤ 57 then some (b.toNat - 48 + 52)
  else if b == 45 then some 62
  else if b == 95 then some 63
  else none

/-- v1 `Pssid::deserialize`: `URL_SAFE_NO_PAD.decode` gives 17 bytes, the first of which is `0x00`.
17 bytes are exactly 23 symbols whose 2 trailing bits are zero (canonical encoding is required);
first byte zero = first symbol `A` and the top two bits of the second symbol zero. -/
def pssidV1Ok (str : String) : Bool :=
  let s := str.toUTF8.toList
  s.length == 23 && s.all (fun b => (b64urlIdx b).isSome) &&
  (match s[0]?.bind b64urlIdx, s[1]?.bind b64urlIdx, s[22]?.bind b64urlIdx with
   | some a, some b, some z => a == 0 && b < 16 && z % 4 == 0
   | _, _, _ => false)

/-! ## `AnyClaims::deserialize` -/

/-- serde: can a struct field of that Rust type be read from this (possibly absent) JSON member? -/
def fieldOk : FieldTy → Option JVal → Bool
  | .u64, some (.num (.u64 _)) => true
  | .str, some (.str _) => true
  | .pssidV0, some (.str s) => uuidOk s
  | .pssidV1, some (.str s) => pssidV1Ok s
  | _, _ => false

def fieldsOk (fs : List (String × FieldTy)) (cs : List (String × JVal)) : Bool :=
  fs.all (fun f => fieldOk f.2 (lookup cs f.1))

def expOf (cs : List (String × JVal)) : Nat :=
  match lookup cs "exp" with
  | some (.num (.u64 n)) => n
  | _ => 0

/-- `ver` absent → v0; `ver.as_u64() == Some(1)` → v1; anything else is an error -/
def anyClaims (cs : List (String × JVal)) : Except Err Claims :=
  match lookup cs "ver" with
  | none => if fieldsOk Generated.Token.v0Fields cs then .ok ⟨0, expOf cs⟩ else .error .json
  | some (.num (.u64 n)) =>
    if n == Generated.Token.v1Tag then
      (if fieldsOk Generated.Token.v1Fields cs then .ok ⟨1, expOf cs⟩ else .error .json)
    else .error .json
  | some _ => .error .json

/-! ## `jsonwebtoken::validation` -/

inductive TryParse (α : Type)
  | parsed (a : α)
  | failed
  | notPresent
  deriving DecidableEq, Repr

def TryParse.isParsed {α : Type} : TryParse α → Bool
  | .parsed _ => true
  | _ => false

/-- `#[serde(deserialize_with = "numeric_type", default)] exp/nbf : TryParse<u64>`: only an absent member
is `NotPresent` (JSON `null` is `FailedToParse`); `u64` and roundable floats parse -/
def numericClaim : Option JVal → TryParse Nat
  | none => .notPresent
  | some (.num (.u64 n)) => .parsed n
  | some (.num (.float (some r))) => .parsed r
  | some _ => .failed

/-- `sub : TryParse<Cow<str>>` (through `Option<T>`: `null` is `NotPresent`) -/
def strClaim : Option JVal → TryParse String
  | none => .notPresent
  | some .null => .notPresent
  | some (.str s) => .parsed s
  | some _ => .failed

/-- `aud`/`iss : TryParse<Audience>` – a string (`Single`) or an array of strings (`Multiple`) -/
def setClaim : Option JVal → TryParse (List String)
  | none => .notPresent
  | some .null => .notPresent
  | some (.str s) => .parsed [s]
  | some (.strs l) => .parsed l
  | some _ => .failed

/-- the `match required_claim.as_str()` of `validate`: unknown names are skipped (`_ => continue`) -/
def specClaimPresent (cs : List (String × JVal)) (c : String) : Bool :=
  if c == "exp" then (numericClaim (lookup cs "exp")).isParsed
  else if c == "sub" then (strClaim (lookup cs "sub")).isParsed
  else if c == "iss" then (setClaim (lookup cs "iss")).isParsed
  else if c == "aud" then (setClaim (lookup cs "aud")).isParsed
  else if c == "nbf" then (numericClaim (lookup cs "nbf")).isParsed
  else true

def u64Max : Nat := 2 ^ 64 - 1

/-- the `exp`/`nbf` block of `validate` -/
def validateTime (cfg : Validation) (cs : List (String × JVal)) (now : Nat) : Except Err Unit :=
  if cfg.validateExp || cfg.validateNbf then
    let exp := numericClaim (lookup cs "exp")
    let nbf := numericClaim (lookup cs "nbf")
    if cfg.validateExp && exp == .failed then .error .invalidClaimFormat
    else if cfg.validateNbf && nbf == .failed then .error .invalidClaimFormat
    else
      match exp with
      | .parsed e =>
        if e < cfg.rejectExpiringIn then .error .invalidToken
        else if cfg.validateExp && now < cfg.leeway then .error .panic          -- `now - options.leeway`
        else if cfg.validateExp && e - cfg.rejectExpiringIn < now - cfg.leeway then .error .expired
        else
          match nbf with
          | .parsed n =>
            if cfg.validateNbf && u64Max < now + cfg.leeway then .error .panic  -- `now + options.leeway`
            else if cfg.validateNbf && now + cfg.leeway < n then .error .immature
            else .ok ()
          | _ => .ok ()
      | _ =>
        match nbf with
        | .parsed n =>
          if cfg.validateNbf && u64Max < now + cfg.leeway then .error .panic
          else if cfg.validateNbf && now + cfg.leeway < n then .error .immature
          else .ok ()
        | _ => .ok ()
  else .ok ()

/-- the `aud` block of `validate` -/
def validateAud (cfg : Validation) (cs : List (String × JVal)) : Except Err Unit :=
  if !cfg.validateAud then .ok ()
  else
    match setClaim (lookup cs "aud"), cfg.aud with
    | .parsed _, none => .error .invalidAudience
    | .parsed l, some correct => if l.any (fun a => correct.contains a) then .ok () else .error .invalidAudience
    | _, _ => .ok ()

/-- `jsonwebtoken::validation::validate` -/
def validate (cfg : Validation) (cs : List (String × JVal)) (now : Nat) : Except Err Unit :=
  if !cfg.requiredSpecClaims.all (specClaimPresent cs) then .error .missingRequiredClaim
  else
    match validateTime cfg cs now with
    | .error e => .error e
    | .ok () =>
      if (match strClaim (lookup cs "sub"), cfg.sub with
          | .parsed s, some correct => s != correct
          | _, _ => false) then .error .invalidSubject
      else if (match setClaim (lookup cs "iss"), cfg.iss with
          | .parsed l, some correct => !l.any (fun a => correct.contains a)
          | _, _ => false) then .error .invalidIssuer
      else validateAud cfg cs

/-! ## `SnapTokenVerifier::verify` -/

/-- `AlgorithmFamily` of a known algorithm name (0 Hmac, 1 Rsa, 2 Ec, 3 Ed) -/
def family (a : String) : Nat :=
  if a == "EdDSA" then 3
  else if a == "ES256" || a == "ES384" then 2
  else if a == "HS256" || a == "HS384" || a == "HS512" then 0
  else 1

/-- `JwksKeyStore::do_fetch` (snap-control `server/jwks_key_store.rs`) applied to one fetched JWKS document,
in document order: an entry without `kid` is skipped, an entry whose `kid` is already cached *replaces*
the cached key - so of several entries with the same `kid` the LAST one is the key the store serves
(also after any number of refreshes of the same document).  The result is searched from the front. -/
def docEntry : Option String × KeyId → Option (String × KeyId)
  | (some kid, key) => some (kid, key)
  | (none, _) => none

def storeOfDocument (doc : List (Option String × KeyId)) : List (String × KeyId) :=
  (doc.filterMap docEntry).reverse

/-- key selection: `(Some(kid), Some(store)) => store.await_key(kid)` else the static key -/
def selectKey (keys : Keys) (kid : Option String) : Except Err KeyId :=
  match kid, keys.jwks with
  | some k, some store =>
    match store.lookup k with
    | some key => .ok key
    | none => .error .unknownKid
  | _, _ => .ok keys.static

/-- `decode`: algorithm membership, `EdDSAVerifier::new(key)`, `verify_signature_body` -/
def checkSignature (cfg : Validation) (keys : Keys) (t : ParsedToken) (key : KeyId) : Except Err Unit :=
  if !cfg.algorithms.contains t.alg then .error .invalidAlgorithm
  else if !keys.edKey key then .error .invalidKeyFormat
  else if !cfg.algorithms.all (fun a => family a == family t.alg) then .error .invalidAlgorithm
  else if !t.sigB64 then .error .base64
  else if !t.sigOkUnder key then .error .invalidSignature
  else .ok ()

def verify (cfg : Validation) (keys : Keys) (t : ParsedToken) (now : Nat) : Except Err Claims :=
  if !Generated.Token.knownAlgorithms.contains t.alg then .error .header   -- serde: unknown `alg` variant
  else
    match selectKey keys t.kid with
    | .error e => .error e
    | .ok key =>
      match checkSignature cfg keys t key with
      | .error e => .error e
      | .ok () =>
        match t.payload with
        | .badB64 => .error .base64
        | .badJson => .error .json
        | .nonObj => .error .json
        | .obj cs =>
          match anyClaims cs with
          | .error e => .error e
          | .ok c =>
            if !cfvReadable cs then .error .json            -- `ClaimsForValidation` does not deserialise
            else
              match validate cfg cs now with
              | .error e => .error e
              | .ok () => .ok c

/-- the control plane's verdict on a bearer token -/
def accept (cfg : Validation) (keys : Keys) (t : ParsedToken) (now : Nat) : Bool :=
  match verify cfg keys t now with
  | .ok _ => true
  | .error _ => false

/-! ### One verifier instance over time

`struct SnapTokenVerifier { static_key, jwks_store, validation }` (re-extracted: `verifierFields`), `verify(&self, token)`
(`verifyReceiver`): `verify` reads the three fields and writes to none of them, so what an instance is made of - the
key configuration and the `Validation` - is the same before and after every call.  `present` is one call on an
instance, `run` a whole history of calls (token, clock second) on the same instance. -/

/-- what one `SnapTokenVerifier` instance consists of -/
structure Instance where
  cfg : Validation
  keys : Keys

/-- one `verify` call: the instance afterwards, and the verdict -/
def Instance.present (v : Instance) (t : ParsedToken) (now : Nat) : Instance × Except Err Claims :=
  (v, verify v.cfg v.keys t now)

/-- a history of calls on one instance: the instance afterwards and the verdicts, in order -/
def Instance.run (v : Instance) : List (ParsedToken × Nat) → Instance × List (Except Err Claims)
  | [] => (v, [])
  | (t, now) :: rest =>
    let (v1, r) := v.present t now
    let (v2, rs) := v1.run rest
    (v2, r :: rs)

/-- outcome of the lifetime computation of `register_snaptun_identity_handler` -/
inductive Grant
  /-- `Token::exp_time`: `UNIX_EPOCH + Duration::from_secs(exp)` overflows `SystemTime` (i64 seconds) -/
  | panic
  /-- "expiration time is in the past": no registration -/
  | past
  /-- registered with this lifetime (nanoseconds) -/
  | granted (ns : Nat)
  deriving DecidableEq, Repr

def i64Max : Nat := 2 ^ 63 - 1

/-- `register_snaptun_identity_handler` (snap-control `api/crpc.rs`), the value handed to
`SnapTunIdentityRegistry::register` as `lifetime`: `snap_token.exp_time().duration_since(SystemTime::now())`
with `exp_time() = UNIX_EPOCH + exp · expUnitNs ns`; `nowNs` = the handler's `SystemTime::now()` in
nanoseconds since the epoch.  Which statements compute and pass the value is re-extracted on every run
(`handlerLifetimeIsExpMinusNow`, `handlerRefusesPastExpiryBeforeRegister`, `handlerRegisterCalls`,
`expUnitNs` in `Generated/Token.lean`; any other shape of the handler is an extraction error); the
function itself is compared with the real handler by `hx_token` on every accepted token. -/
def lifetime (exp : Nat) (nowNs : Nat) : Grant :=
  if i64Max < exp then .panic
  else if nowNs ≤ exp * expUnitNs then .granted (exp * expUnitNs - nowNs)
  else .past

/-- `extract_bearer_token` (snap-control `server/auth.rs`) on the text of the `Authorization` header
value: `auth_str.strip_prefix("Bearer ")`, the remainder is the token, verbatim (no trimming, the
scheme is matched case-sensitively); `none` = 401 without consulting the verifier.  The prefix literal
is re-extracted (`bearerPrefix`). -/
def extractBearer (v : List Char) : Option (List Char) :=
  if bearerPrefix.toList.isPrefixOf v then some (v.drop bearerPrefix.toList.length) else none

end ScionVerif.Token
