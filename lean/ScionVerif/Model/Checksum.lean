import ScionVerif.Model.Bits
/-!
# SCION upper-layer checksum

* `specChecksum` – the specification: one's-complement of the one's-complement sum of the big-endian 16-bit
  words of `pseudo-header ‖ message` (zero padded), RFC 1071 / SCION header specification §"Checksum".
* `Digest.*` – model of `scion/checksum.rs::ChecksumDigest` on a little-endian host, statement by statement:
  `add_u64`, `add_u32`, `add_u16`, `add_slice` (native-endian `u16` loads, byte swaps, the odd-length and
  the unaligned case; the pointer alignment `data.as_ptr().align_offset(2) == 0` is an explicit argument),
  `fold_checksum`, `checksum`.  A `u32` overflow of the running sums (a debug-build panic, a silent wrap in
  release) is answered `none`.
-/
namespace ScionVerif.Checksum
open ScionVerif

/-- `fold_checksum`: two rounds of `(x >> 16) + (x & 0xffff)` -/
def fold16 (x : Nat) : Nat :=
  let y := x / 65536 + x % 65536
  y / 65536 + y % 65536

/-- `u16::swap_bytes` -/
def swap16 (s : Nat) : Nat := (s % 256) * 256 + s / 256

/-- big-endian 16-bit words of a byte string, the last byte zero-padded -/
def wordsBE : Bytes → List Nat
  | [] => []
  | [a] => [a.toNat * 256]
  | a :: b :: r => (a.toNat * 256 + b.toNat) :: wordsBE r

/-- native (little-endian) `u16` loads of the complete byte pairs, and the left-over last byte of an
    odd-length slice (0 if there is none) -/
def pairsLE : Bytes → List Nat × Nat
  | a :: b :: r => ((a.toNat + 256 * b.toNat) :: (pairsLE r).1, (pairsLE r).2)
  | [a] => ([], a.toNat)
  | [] => ([], 0)

def sum (l : List Nat) : Nat := l.foldl (· + ·) 0

/-- the one's-complement sum before folding -/
def sumBE (d : Bytes) : Nat := sum (wordsBE d)

/-- **specification** of the checksum of the byte string `d` (`pseudo-header ‖ message`) -/
def specChecksum (d : Bytes) : Nat := 65535 - fold16 (sumBE d)

/-- verification by a receiver: the folded sum over pseudo-header ‖ message (checksum field included) is 0xffff -/
def verifies (d : Bytes) : Bool := fold16 (sumBE d) == 65535

/-! ## the digest -/

def U32 : Nat := 4294967296

/-- `add_u16` -/
def addU16 (acc v : Nat) : Option Nat := if acc + v ≥ U32 then none else some (acc + v)
/-- `add_u32` -/
def addU32 (acc v : Nat) : Option Nat :=
  let s := v % 65536 + (v / 65536) % 65536
  if acc + s ≥ U32 then none else some (acc + s)
/-- `add_u64` -/
def addU64 (acc v : Nat) : Option Nat :=
  let s := v % 65536 + (v / 65536) % 65536 + (v / 4294967296) % 65536 + (v / 281474976710656) % 65536
  if acc + s ≥ U32 then none else some (acc + s)

/-- `add_slice(data)`; `aligned` is the result of `data.as_ptr().align_offset(2) == 0` -/
def addSlice (acc : Nat) (aligned : Bool) (data : Bytes) : Option Nat :=
  match data with
  | [] => some acc
  | d0 :: tl =>
    -- `initial_sum = (data[0] as u16).to_be()` and `data = &data[1..]` when unaligned
    let initial := if aligned then 0 else d0.toNat * 256
    let rest := if aligned then data else tl
    -- odd number of remaining bytes: `initial_sum += (last as u16).to_le()`, the pairs before it are
    -- loaded as native u16 (`slice::from_raw_parts(ptr as *const u16, len / 2)`)
    let s := initial + (pairsLE rest).2 + sum (pairsLE rest).1
    if s ≥ U32 then none else
    let f := fold16 s
    let f' := if aligned then f else swap16 f
    let add := swap16 f'                       -- `sum.to_be()` on a little-endian host
    if acc + add ≥ U32 then none else some (acc + add)

/-- `checksum()`: `!(fold_checksum(x) as u16)` -/
def finish (acc : Nat) : Nat := 65535 - fold16 acc % 65536

/-- `ChecksumDigest::with_pseudoheader(addr, protocol, buf).add_slice(buf).checksum()`.
`dstIa`, `srcIa` are the 64-bit ISD-AS numbers, `dstHost` / `srcHost` the encoded host addresses,
`a1 a2 a3` the (unknown) 2-byte alignments of the three slices handed to `add_slice`. -/
def messageChecksum (dstIa srcIa : Nat) (dstHost srcHost : Bytes) (proto : Nat) (msg : Bytes)
    (a1 a2 a3 : Bool) : Option Nat :=
  match addU64 0 dstIa with
  | none => none
  | some x1 =>
  match addU64 x1 srcIa with
  | none => none
  | some x2 =>
  match addSlice x2 a1 dstHost with
  | none => none
  | some x3 =>
  match addSlice x3 a2 srcHost with
  | none => none
  | some x4 =>
  match addU32 x4 (msg.length % U32) with
  | none => none
  | some x5 =>
  match addU32 x5 proto with
  | none => none
  | some x6 =>
  match addSlice x6 a3 msg with
  | none => none
  | some x7 => some (finish x7)

/-- `n` as `k` big-endian bytes, by arithmetic -/
def beBytes (k n : Nat) : Bytes := (List.range k).map (fun i => UInt8.ofNat (n / 256 ^ (k - 1 - i) % 256))

/-- the SCION pseudo-header as bytes (what the specification sums):
    DstISD-AS, SrcISD-AS, DstHostAddr, SrcHostAddr, upper-layer packet length (32 bit), zero(24 bit) ‖ next header -/
def pseudoHeader (dstIa srcIa : Nat) (dstHost srcHost : Bytes) (proto : Nat) (len : Nat) : Bytes :=
  beBytes 8 dstIa ++ beBytes 8 srcIa ++ dstHost ++ srcHost ++ beBytes 4 len ++ beBytes 4 proto

end ScionVerif.Checksum
