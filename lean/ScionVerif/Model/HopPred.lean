import ScionVerif.Generated.Policy
/-!
# Model of `sciparse/src/scion/path/policy/types.rs` (+ the text forms of `Isd`, `Asn`, `u16`)

* `Hop` = `PathPolicyHop`, `Pred` = `HopPredicate`, `Ifs` = `InterfacesPredicate`;
* `Pred.matches` mirrors `HopPredicate::matches` (`Isd::matches` / `Asn::matches` are *symmetric* in the
  wildcard: a hop whose ISD or AS number is 0 matches every predicate value; `InterfacePredicate::matches`
  is not: only the predicate's 0 is a wildcard);
* `parsePred` / `showPred` mirror `FromStr` / `Display` of `HopPredicate` (via `splitn(2, "-")`,
  `splitn(2, "#")`, `splitn(2, ",")`), `parseUInt` mirrors Rust's `uN::from_str_radix` (optional leading `+`,
  at least one digit, no overflow), `parseAsn` / `showAsn` mirror `Asn`'s `FromStr` / `Display`;
* `hopsFromPath` mirrors `PathPolicyHop::hops_from_path` on the list of path interfaces.

Strings are `List Char` (the driver converts).  All numeric parameters come from `Generated/Policy.lean`.
Core-only.
-/
namespace ScionVerif.Policy
open ScionVerif.Generated.Policy

/-- `PathPolicyHop` -/
structure Hop where
  isd : Nat
  asn : Nat
  ingress : Nat
  egress : Nat
deriving DecidableEq, Repr

/-- `InterfacesPredicate` -/
inductive Ifs where
  | any
  | either (i : Nat)
  | both (ingress egress : Nat)
deriving DecidableEq, Repr

/-- `HopPredicate` -/
structure Pred where
  isd : Nat
  asn : Option Nat
  ifs : Ifs
deriving DecidableEq, Repr

/-! ## matching -/

/-- `InterfacePredicate::matches` -/
def ifaceMatches (p i : Nat) : Bool := p == IF_WILDCARD || p == i
/-- `Isd::matches` (wildcard on either side) -/
def isdMatches (a b : Nat) : Bool := a == ISD_WILDCARD || b == ISD_WILDCARD || a == b
/-- `Asn::matches` (wildcard on either side) -/
def asnMatches (a b : Nat) : Bool := a == ASN_WILDCARD || b == ASN_WILDCARD || a == b

/-- `InterfacesPredicate::matches` -/
def Ifs.matches : Ifs → Nat → Nat → Bool
  | .either a, i, e => ifaceMatches a i || ifaceMatches a e
  | .both a b, i, e => ifaceMatches a i && ifaceMatches b e
  | .any, _, _ => true

/-- `HopPredicate::matches` / `PathPolicyHop::matches` -/
def Pred.matches (p : Pred) (h : Hop) : Bool :=
  isdMatches p.isd h.isd
    && (match p.asn with | some a => asnMatches a h.asn | none => true)
    && p.ifs.matches h.ingress h.egress

/-- `InterfacesPredicate::is_wildcard` -/
def Ifs.isWildcard : Ifs → Bool
  | .any => true
  | .either a => a == IF_WILDCARD
  | .both a b => a == IF_WILDCARD && b == IF_WILDCARD

/-- `HopPredicate::is_wildcard` -/
def Pred.isWildcard (p : Pred) : Bool :=
  p.isd == ISD_WILDCARD
    && (match p.asn with | some a => a == ASN_WILDCARD | none => true)
    && p.ifs.isWildcard

/-! ## integers as text -/

def decVal (c : Char) : Option Nat :=
  if '0' ≤ c ∧ c ≤ '9' then some (c.toNat - '0'.toNat) else none

def hexVal (c : Char) : Option Nat :=
  if '0' ≤ c ∧ c ≤ '9' then some (c.toNat - '0'.toNat)
  else if 'a' ≤ c ∧ c ≤ 'f' then some (c.toNat - 'a'.toNat + 10)
  else if 'A' ≤ c ∧ c ≤ 'F' then some (c.toNat - 'A'.toNat + 10)
  else none

/-- value of a digit string (most significant first); `none` if a character is not a digit -/
def digitsVal (val : Char → Option Nat) (radix : Nat) : List Char → Nat → Option Nat
  | [], acc => some acc
  | c :: cs, acc =>
    match val c with
    | some d => digitsVal val radix cs (radix * acc + d)
    | none => none

/-- the optional leading `+` accepted by Rust's integer parsers -/
def stripPlus : List Char → List Char
  | '+' :: r => r
  | s => s

/-- Rust `uN::from_str_radix`: optional leading `+`, at least one digit, value ≤ `max`
    (Rust detects the overflow digit by digit; the set of accepted strings is the same). -/
def parseUInt (val : Char → Option Nat) (radix max : Nat) (s : List Char) : Option Nat :=
  let ds := stripPlus s
  if ds.isEmpty then none else
  match digitsVal val radix ds 0 with
  | some v => if v ≤ max then some v else none
  | none => none

/-- `{}` of an unsigned integer -/
def showDec (n : Nat) : List Char := Nat.toDigits 10 n
/-- `{:x}` of an unsigned integer -/
def showHex (n : Nat) : List Char := Nat.toDigits 16 n

def U16_MAX : Nat := 2 ^ 16 - 1
def U64_MAX : Nat := 2 ^ 64 - 1

/-- `str::splitn(2, sep)`: the part before the first `sep` and, if there is one, the part after it -/
def splitOnce (sep : Char) : List Char → List Char × Option (List Char)
  | [] => ([], none)
  | c :: cs =>
    if c = sep then ([], some cs)
    else
      let (a, r) := splitOnce sep cs
      (c :: a, r)

/-- `str::splitn(n, sep)` -/
def splitN (sep : Char) : Nat → List Char → List (List Char)
  | 0, _ => []
  | 1, s => [s]
  | n + 2, s =>
    match splitOnce sep s with
    | (a, none) => [a]
    | (a, some r) => a :: splitN sep (n + 1) r

/-- `Isd::from_str` -/
def parseIsd (s : List Char) : Option Nat := parseUInt decVal 10 (2 ^ ISD_BITS - 1) s

/-- the `try_fold` of `Asn::from_str`: every part is a `u16` in radix 16 -/
def foldAsnParts : List (List Char) → Nat × Nat → Option (Nat × Nat)
  | [], acc => some acc
  | p :: ps, (v, n) =>
    match parseUInt hexVal 16 U16_MAX p with
    | some x => foldAsnParts ps (v * 2 ^ ASN_BITS_PER_PART + x, n + 1)
    | none => none

/-- `Asn::from_str` -/
def parseAsn (s : List Char) : Option Nat :=
  match parseUInt decVal 10 U64_MAX s with
  | some v => if v ≤ ASN_DECIMAL_MAX then some v else none
  | none =>
    match foldAsnParts (splitN ':' ASN_NUMBER_PARTS s) (0, 0) with
    | some (v, n) => if n = ASN_NUMBER_PARTS ∧ v ≤ 2 ^ ASN_BITS - 1 then some v else none
    | none => none

/-- `Display for Asn` -/
def showAsn (a : Nat) : List Char :=
  if a ≤ ASN_DECIMAL_MAX then showDec a
  else
    showHex (a / 2 ^ (ASN_BITS_PER_PART * 2) % 2 ^ 16) ++ ':' ::
    showHex (a / 2 ^ ASN_BITS_PER_PART % 2 ^ 16) ++ ':' ::
    showHex (a % 2 ^ 16)

def parseU16 (s : List Char) : Option Nat := parseUInt decVal 10 U16_MAX s

/-- `InterfacesPredicate::from_str` -/
def parseIfs (s : List Char) : Option Ifs :=
  match splitOnce SEP_IF s with
  | (a, none) => (parseU16 a).map .either
  | (a, some b) =>
    match parseU16 a, parseU16 b with
    | some x, some y => some (.both x y)
    | _, _ => none

/-- `HopPredicate::from_str` -/
def parsePred (s : List Char) : Option Pred :=
  match splitOnce SEP_ISD_ASN s with
  | (i, none) => (parseIsd i).map fun isd => ⟨isd, none, .any⟩
  | (i, some more) =>
    match parseIsd i with
    | none => none
    | some isd =>
      match splitOnce SEP_ASN_IF more with
      | (a, none) => (parseAsn a).map fun asn => ⟨isd, some asn, .any⟩
      | (a, some f) =>
        match parseAsn a with
        | none => none
        | some asn => (parseIfs f).map fun ifs => ⟨isd, some asn, ifs⟩

/-- `Display for InterfacesPredicate` -/
def showIfs : Ifs → List Char
  | .any => []
  | .either a => showDec a
  | .both a b => showDec a ++ SEP_IF :: showDec b

/-- `Display for HopPredicate` -/
def showPred (p : Pred) : List Char :=
  showDec p.isd
    ++ (match p.asn with | some a => SEP_ISD_ASN :: showAsn a | none => [])
    ++ (match p.ifs with | .any => [] | f => SEP_ASN_IF :: showIfs f)

/-! ## whitespace -/

/-- Rust `char::is_whitespace` (Unicode `White_Space`) -/
def isRustWhitespace (c : Char) : Bool :=
  let n := c.toNat
  (9 ≤ n && n ≤ 13) || n == 0x20 || n == 0x85 || n == 0xA0 || n == 0x1680
    || (0x2000 ≤ n && n ≤ 0x200A) || n == 0x2028 || n == 0x2029 || n == 0x202F || n == 0x205F
    || n == 0x3000

/-- `str::split_whitespace` (`cur` = current word, reversed) -/
def splitWsAux : List Char → List Char → List (List Char)
  | [], cur => if cur.isEmpty then [] else [cur.reverse]
  | c :: cs, cur =>
    if isRustWhitespace c then
      if cur.isEmpty then splitWsAux cs [] else cur.reverse :: splitWsAux cs []
    else splitWsAux cs (c :: cur)

def splitWhitespace (s : List Char) : List (List Char) := splitWsAux s []

/-! ## `PathPolicyHop::hops_from_path` -/

/-- `PathInterface` -/
structure Iface where
  isd : Nat
  asn : Nat
  id : Nat
deriving DecidableEq, Repr

inductive HopsErr where
  | noMetadata | noInterfaces | oddInterfaces | differentIsdAsn
deriving DecidableEq, Repr

/-- the loop over `as_chunks::<2>()` followed by the remainder check.  Rust checks the remainder
    (`let [last_hop] = remainder else …`) *before* the loop, so an even remainder wins over a mismatch. -/
def middleHops : List Iface → Except HopsErr (List Hop × Iface)
  | [] => .error .oddInterfaces
  | [l] => .ok ([], l)
  | a :: b :: rest =>
    match middleHops rest with
    | .error e => .error e
    | .ok (hs, l) =>
      if a.isd ≠ b.isd ∨ a.asn ≠ b.asn then .error .differentIsdAsn
      else .ok (⟨a.isd, a.asn, a.id, b.id⟩ :: hs, l)

/-- `hops_from_path` on `path.metadata.map(|m| m.interfaces)` -/
def hopsFromPath : Option (Option (List Iface)) → Except HopsErr (List Hop)
  | none => .error .noMetadata
  | some none => .error .noInterfaces
  | some (some []) => .error .noInterfaces
  | some (some (f :: rest)) =>
    match middleHops rest with
    | .error e => .error e
    | .ok (hs, l) => .ok (⟨f.isd, f.asn, 0, f.id⟩ :: hs ++ [⟨l.isd, l.asn, l.id, 0⟩])

end ScionVerif.Policy
