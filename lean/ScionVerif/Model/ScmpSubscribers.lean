import ScionVerif.Model.ScmpHandler
/-!
# Model of the receiver list behind `ScmpErrorHandler` (C14: "received SCMP errors reach the application-side receivers")

Mirrors `scion-stack/src/internal.rs` `Subscribers<T>` (a `Vec<Weak<T>>` behind a lock):

* `register(subscriber)`: `receivers.retain(|r| r.strong_count() > 0); receivers.push(downgrade(subscriber))` → `Slots.register`
* `for_each(f)`: `for r in receivers.iter() { if let Some(r) = r.upgrade() { f(&*r) } }` → `Slots.forEach`
  (the list of receivers `f` is called with, in call order; the Vec is **not** changed)

and its use: `ScionStack::bind_with_config` registers the socket's path manager, `ScmpErrorHandler::handle` calls `for_each`
once per SCMP error of a known kind (`errorHandle p = some report`).

A weak reference is modelled by the identity of the `Arc` it was downgraded from (a fresh number per registration);
whether an `Arc` is still alive is *not* part of the list: it is the environment (`alive`, the identities whose owner has
not dropped them yet).  Core-only.
-/
namespace ScionVerif.Scmp

/-- the `Vec<Weak<T>>` of a `Subscribers<T>`, oldest first -/
abbrev Slots := List Nat

/-- `Subscribers::register` with `live id` = "`strong_count() > 0`" -/
def Slots.register (live : Nat → Bool) (s : Slots) (id : Nat) : Slots := s.filter live ++ [id]

/-- `Subscribers::for_each`: the receivers the closure is called with, in call order -/
def Slots.forEach (live : Nat → Bool) (s : Slots) : List Nat := s.filter live

/-- one stack: its receiver list, the environment (which receivers are alive), the next fresh identity -/
structure SubsState where
  slots : Slots := []
  alive : List Nat := []
  next : Nat := 0
deriving Repr, DecidableEq

/-- events of a history: a receiver is registered (`register_scmp_error_receiver`, or the path manager of a socket being
    bound) and gets the next identity; the owner of receiver `id` drops it; an SCMP error of a known kind arrives -/
inductive SubsOp
  | register
  | drop (id : Nat)
  | error
deriving Repr, DecidableEq

def SubsState.live (w : SubsState) : Nat → Bool := fun i => w.alive.contains i

/-- the receivers told about an SCMP error arriving in state `w` -/
def SubsState.notified (w : SubsState) : List Nat := Slots.forEach w.live w.slots

/-- one event; the second component is `some l` for an error: `l` = receivers notified, in call order -/
def subsStep (w : SubsState) : SubsOp → SubsState × Option (List Nat)
  | .register =>
    ({ slots := Slots.register w.live w.slots w.next, alive := w.next :: w.alive, next := w.next + 1 }, none)
  | .drop id => ({ w with alive := w.alive.filter (fun i => i != id) }, none)
  | .error => (w, some w.notified)

/-- state after a history -/
def subsReach (w : SubsState) : List SubsOp → SubsState
  | [] => w
  | op :: ops => subsReach (subsStep w op).1 ops

/-- the notification lists of the errors of a history, in order -/
def subsRun (w : SubsState) : List SubsOp → List (List Nat)
  | [] => []
  | op :: ops =>
    match (subsStep w op).2 with
    | some l => l :: subsRun (subsStep w op).1 ops
    | none => subsRun (subsStep w op).1 ops

end ScionVerif.Scmp
