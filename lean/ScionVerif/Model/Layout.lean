import ScionVerif.Model.Bits
import ScionVerif.Generated.Layout
import ScionVerif.Generated.AddrType
/-!
# Size computation of every view (`View::has_required_size`)

Statement-by-statement mirrors of

* `ScionHeaderLayout::try_from_slice`            (proto/header/layout.rs)        → `Header.layout`
* `StdPathLayout::try_from_slice`                (standard/layout.rs)            → `StdPath.requiredSize`
* `OneHopPathLayout::try_from`                   (onehop/layout.rs)              → `OneHop.requiredSize`
* `InfoFieldView` / `HopFieldView::has_required_size`                            → `InfoField/HopField.requiredSize`
* `ScionRawPacketView / ScionUdpPacketView / ScionScmpPacketView::has_required_size` (packet/view.rs)
* `UdpDatagramView::has_required_size`           (payload/udp/view.rs)           → `Udp.requiredSize`
* `ScmpMessageLayout::try_from_slice` and the ten per-kind layouts (payload/scmp/layout.rs) → `Scmp.requiredSize`

over the constants of `Generated/Layout.lean` and the tables of `Generated/AddrType.lean`.

Every field read goes through `rd`, which is `readChk` on the *slice the Rust code reads from*
(e.g. `common_buf`, `path_meta_buf`): a read that leaves that slice is the Rust `debug_assert!` panic /
release-mode UB and is answered `.error .panic`.  "The size computation never reads outside the prefix
it has already checked" is therefore the theorem `… ≠ .error .panic` (Theorems/C02.lean).
-/
namespace ScionVerif.Layout
open ScionVerif ScionVerif.Generated.Layout ScionVerif.Generated.AddrType

/-- `ViewConversionError` (after `From<LayoutParseError>`), plus `panic` for a Rust panic / UB site -/
inductive VErr
  | tooSmall (at_ : String) (required actual : Nat)
  | other (msg : String)
  | panic
deriving Repr, DecidableEq

/-- checked field read on the slice the code holds at that point -/
def rd (sl : Bytes) (r : BitRange) : Except VErr Nat :=
  match readChk sl r with
  | some v => .ok v
  | none => .error .panic

/-- `WireHostAddrType::from(nibble).size()` -/
def addrSize (nibble : Nat) : Nat := (addrTable.getD nibble (3, 0, 0)).2.2
/-- kind of the address nibble: 0 IPv4, 1 IPv6, 2 Service, 3 Unknown -/
def addrKind (nibble : Nat) : Nat := (addrTable.getD nibble (3, 0, 0)).1
def addrId (nibble : Nat) : Nat := (addrTable.getD nibble (3, 0, 0)).2.1

/-- `AddressHeaderLayout::new(src, dst).size_bytes()` = `total_range().end / 8` -/
def addrHdrSize (srcLen dstLen : Nat) : Nat :=
  (AddressHeader.FIXED_SIZE_BITS + dstLen * 8 + srcLen * 8) / 8

/-- `StdPathDataLayout::info_field_count` -/
def infoCount (s0 s1 s2 : Nat) : Nat :=
  (if s0 > 0 then 1 else 0) + (if s1 > 0 then 1 else 0) + (if s2 > 0 then 1 else 0)
/-- `StdPathDataLayout::hop_field_count` -/
def hopCount (s0 s1 s2 : Nat) : Nat := s0 + s1 + s2
/-- `StdPathDataLayout::size_bytes` -/
def stdDataSize (s0 s1 s2 : Nat) : Nat :=
  infoCount s0 s1 s2 * InfoField.SIZE_BYTES + hopCount s0 s1 s2 * HopField.SIZE_BYTES

inductive PathKind
  | empty | scion | oneHop | other (t : Nat)
deriving Repr, DecidableEq

/-- `PathType::from(u8)` collapsed to the cases the layout code distinguishes -/
def pathKind (t : Nat) : PathKind :=
  if t = PATH_EMPTY then .empty else if t = PATH_SCION then .scion
  else if t = PATH_ONEHOP then .oneHop else .other t

/-- `ScionHeaderLayout` (the parts that matter for sizes) -/
structure HdrLayout where
  srcLen : Nat
  dstLen : Nat
  pathType : Nat
  segs : Nat × Nat × Nat     -- (0,0,0) unless standard path
  pathSize : Nat
  headerLen : Nat
  payloadLen : Nat
deriving Repr, DecidableEq

/-- offset of the path inside the header -/
def HdrLayout.pathOff (l : HdrLayout) : Nat := CommonHeader.SIZE_BYTES + addrHdrSize l.srcLen l.dstLen

/-- the common-header fields the size computation reads -/
structure CommonFields where
  ver : Nat
  pt : Nat
  st : Nat
  dt : Nat
  hl : Nat
  pl : Nat

def commonFields (buf : Bytes) : CommonFields :=
  let cb := buf.take CommonHeader.SIZE_BYTES
  ⟨readBits cb CommonHeader.VERSION_RNG, readBits cb CommonHeader.PATH_TYPE_RNG,
   readBits cb CommonHeader.SRC_ADDR_INFO_RNG, readBits cb CommonHeader.DST_ADDR_INFO_RNG,
   readBits cb CommonHeader.HEADER_LEN_RNG, readBits cb CommonHeader.PAYLOAD_LEN_RNG⟩

/-- the three segment lengths of a path meta header at byte offset `off` -/
def segFields (buf : Bytes) (off : Nat) : Nat × Nat × Nat :=
  let mb := (buf.drop off).take StdPathMeta.SIZE_BYTES
  (readBits mb StdPathMeta.SEG0_LEN_RNG, readBits mb StdPathMeta.SEG1_LEN_RNG, readBits mb StdPathMeta.SEG2_LEN_RNG)

/-- the "Important Checks" at the end of `ScionHeaderLayout::try_from_slice` -/
def Header.finish (len srcLen dstLen pt pl total : Nat) (segs : Nat × Nat × Nat) (pathSize : Nat) :
    Except VErr HdrLayout :=
  let calculated := CommonHeader.SIZE_BYTES + addrHdrSize srcLen dstLen + pathSize
  if calculated > len then .error (.tooSmall "TotalHeader" calculated len)
  else if calculated ≠ total then .error (.other "InvalidHeaderLength")
  else .ok ⟨srcLen, dstLen, pt, segs, pathSize, total, pl⟩

/-- the path part of `ScionHeaderLayout::try_from_slice` (after the address-header check) -/
def Header.pathPart (buf : Bytes) (srcLen dstLen pt pl total : Nat) : Except VErr HdrLayout :=
  let len := buf.length
  let addrEnd := CommonHeader.SIZE_BYTES + addrHdrSize srcLen dstLen
  match pathKind pt with
  | .scion =>
    let rest := buf.drop addrEnd
    if rest.length < StdPathMeta.SIZE_BYTES then
      .error (.tooSmall "PathMeta" StdPathMeta.SIZE_BYTES (len - addrEnd))
    else
    let mb := rest.take StdPathMeta.SIZE_BYTES         -- path_meta_buf
    match rd mb StdPathMeta.SEG0_LEN_RNG, rd mb StdPathMeta.SEG1_LEN_RNG, rd mb StdPathMeta.SEG2_LEN_RNG with
    | .ok s0, .ok s1, .ok s2 =>
      Header.finish len srcLen dstLen pt pl total (s0, s1, s2) (StdPathMeta.SIZE_BYTES + stdDataSize s0 s1 s2)
    | _, _, _ => .error .panic
  | .oneHop => Header.finish len srcLen dstLen pt pl total (0, 0, 0) OneHopPath.SIZE_BYTES
  | .empty => Header.finish len srcLen dstLen pt pl total (0, 0, 0) 0
  | .other _ =>
    if total < addrEnd then .error (.tooSmall "path" (addrEnd * 8) (total * 8))
    else Header.finish len srcLen dstLen pt pl total (0, 0, 0) ((BitRange.mk (addrEnd * 8) (total * 8)).sizeBytes)

/-- `ScionHeaderLayout::try_from_slice` -/
def Header.layout (buf : Bytes) : Except VErr HdrLayout :=
  let len := buf.length
  if len < CommonHeader.SIZE_BYTES then
    .error (.tooSmall "CommonHeader" CommonHeader.SIZE_BYTES len)
  else
  let cb := buf.take CommonHeader.SIZE_BYTES            -- common_buf
  match rd cb CommonHeader.VERSION_RNG, rd cb CommonHeader.PATH_TYPE_RNG,
        rd cb CommonHeader.SRC_ADDR_INFO_RNG, rd cb CommonHeader.DST_ADDR_INFO_RNG,
        rd cb CommonHeader.HEADER_LEN_RNG, rd cb CommonHeader.PAYLOAD_LEN_RNG with
  | .ok ver, .ok pt, .ok st, .ok dt, .ok hl, .ok pl =>
    if ver ≠ 0 then .error (.other "UnsupportedVersion") else
    let srcLen := addrSize st
    let dstLen := addrSize dt
    let total := hl * 4                                  -- header_len() as usize
    let addrEnd := CommonHeader.SIZE_BYTES + addrHdrSize srcLen dstLen
    if len < addrEnd then .error (.tooSmall "AddressHeader" addrEnd len) else
    Header.pathPart buf srcLen dstLen pt pl total
  | _, _, _, _, _, _ => .error .panic

/-- `ScionHeaderView::has_required_size` -/
def Header.requiredSize (buf : Bytes) : Except VErr Nat :=
  match Header.layout buf with
  | .ok l => .ok l.headerLen
  | .error e => .error e

/-- `StdPathLayout::try_from_slice` + `size_bytes` (`StandardPathView::has_required_size`) -/
def StdPath.requiredSize (buf : Bytes) : Except VErr Nat :=
  if buf.length < StdPathMeta.SIZE_BYTES then
    .error (.tooSmall "StdPathMeta" StdPathMeta.SIZE_BYTES buf.length)
  else
  let mb := buf.take StdPathMeta.SIZE_BYTES
  match rd mb StdPathMeta.SEG0_LEN_RNG, rd mb StdPathMeta.SEG1_LEN_RNG, rd mb StdPathMeta.SEG2_LEN_RNG with
  | .ok s0, .ok s1, .ok s2 =>
    let required := StdPathMeta.SIZE_BYTES + stdDataSize s0 s1 s2
    if buf.length < required then .error (.tooSmall "StdPathData" required buf.length)
    else .ok required
  | _, _, _ => .error .panic

/-- a view of fixed size: `OneHopPathView`, `InfoFieldView`, `HopFieldView` -/
def fixedRequiredSize (name : String) (size : Nat) (buf : Bytes) : Except VErr Nat :=
  if buf.length < size then .error (.tooSmall name size buf.length) else .ok size

def OneHop.requiredSize := fixedRequiredSize "OneHopPath" OneHopPath.SIZE_BYTES
def InfoFieldV.requiredSize := fixedRequiredSize "InfoFieldView" InfoField.SIZE_BYTES
def HopFieldV.requiredSize := fixedRequiredSize "HopFieldView" HopField.SIZE_BYTES

/-- `ScionRawPacketView::has_required_size` -/
def RawPacket.requiredSize (buf : Bytes) : Except VErr Nat :=
  match Header.layout buf with
  | .ok l => .ok (min (l.headerLen + l.payloadLen) buf.length)
  | .error e => .error e

/-- byte interval of `ScionPacketView::payload()` on a view with bytes `v` whose header fields read
    `headerLen` / `payloadLen` -/
def payloadRange (vlen headerLen payloadLen : Nat) : Nat × Nat :=
  let tail := vlen - headerLen                       -- saturating_sub
  (headerLen, headerLen + min payloadLen tail)

/-- `ScionPacketView::payload()` evaluated on the *whole* buffer, as `has_required_size` of the typed
    packet views does (`from_slice_unchecked(buf)` is not truncated to the packet length) -/
def packetPayload (buf : Bytes) (l : HdrLayout) : Bytes :=
  let (lo, hi) := payloadRange buf.length l.headerLen l.payloadLen
  (buf.drop lo).take (hi - lo)

/-- `UdpDatagramView::has_required_size` -/
def Udp.requiredSize (buf : Bytes) : Except VErr Nat :=
  if buf.length < UdpDatagram.HEADER_SIZE_BYTES then
    .error (.tooSmall "UdpHeader" UdpDatagram.HEADER_SIZE_BYTES buf.length)
  else
  match rd buf UdpDatagram.LENGTH_RNG with
  | .ok l =>
    if l < UdpDatagram.HEADER_SIZE_BYTES then
      .error (.other "UDP length field smaller than minimum header size")
    else .ok (min buf.length l)
  | .error e => .error e

/-- the row of the SCMP kind table selected by a type byte (`ScmpMessageType::from`) -/
def scmpRow (t : Nat) : ScmpKindRow :=
  match scmpKinds.find? (fun k => k.code == some t) with
  | some k => k
  | none => (scmpKinds.find? (fun k => k.code == none)).getD ⟨"Unknown", none, 8, true, []⟩

/-- header size of the catch-all `ScmpUnknownMessageLayout` (first check of `ScmpMessageLayout::try_from_slice`) -/
def scmpMinSize : Nat := (scmpRow 256).headerSize

/-- per-kind `Scmp…Layout::try_from_slice` + `size_bytes` (also the typed message views) -/
def ScmpMsg.requiredSize (k : ScmpKindRow) (buf : Bytes) : Except VErr Nat :=
  if buf.length < k.headerSize then
    .error (.tooSmall (if k.name == "Unknown" then "ScmpUnknownMessage" else "Scmp" ++ k.name) k.headerSize buf.length)
  else .ok (if k.varLen then buf.length else k.headerSize)

/-- `ScmpMessageLayout::try_from_slice` + `size_bytes` (`ScmpPayloadView::has_required_size`) -/
def Scmp.requiredSize (buf : Bytes) : Except VErr Nat :=
  if buf.length < scmpMinSize then .error (.tooSmall "ScmpMessageHeader" scmpMinSize buf.length) else
  match rd (buf.take scmpMinSize) ScmpMessage.TYPE_RNG with
  | .ok t => ScmpMsg.requiredSize (scmpRow t) buf
  | .error e => .error e

/-- `ScionUdpPacketView::has_required_size` -/
def UdpPacket.requiredSize (buf : Bytes) : Except VErr Nat :=
  match Header.layout buf with
  | .ok l =>
    match Udp.requiredSize (packetPayload buf l) with
    | .ok _ => .ok (min (l.headerLen + l.payloadLen) buf.length)
    | .error e => .error e
  | .error e => .error e

/-- `ScionScmpPacketView::has_required_size` -/
def ScmpPacket.requiredSize (buf : Bytes) : Except VErr Nat :=
  match Header.layout buf with
  | .ok l =>
    match Scmp.requiredSize (packetPayload buf l) with
    | .ok _ => .ok (min (l.headerLen + l.payloadLen) buf.length)
    | .error e => .error e
  | .error e => .error e

/-- the view kinds of the crate -/
inductive ViewKind
  | header | stdPath | oneHop | infoField | hopField | rawPacket | udpPacket | scmpPacket | udp | scmp
  | scmpMsg (row : Nat)      -- typed message view, index into `scmpKinds`
deriving Repr, DecidableEq

def requiredSize : ViewKind → Bytes → Except VErr Nat
  | .header => Header.requiredSize
  | .stdPath => StdPath.requiredSize
  | .oneHop => OneHop.requiredSize
  | .infoField => InfoFieldV.requiredSize
  | .hopField => HopFieldV.requiredSize
  | .rawPacket => RawPacket.requiredSize
  | .udpPacket => UdpPacket.requiredSize
  | .scmpPacket => ScmpPacket.requiredSize
  | .udp => Udp.requiredSize
  | .scmp => Scmp.requiredSize
  | .scmpMsg i => ScmpMsg.requiredSize (scmpKinds.getD i (scmpRow 256))

end ScionVerif.Layout
