import ScionVerif.Model.IssueMgr
import ScionVerif.Model.Backoff
/-!
# Model of the per-pair path set (`scion-stack/src/path/manager/pathset.rs`) and of
# `MultiPathManager::{cached_path, path, report_path_issue}` (`manager.rs`)

Statement-by-statement mirror of `maintain`, `idle_check`, `fetch_and_update`,
`fetch_and_filter_paths`, `update_path_cache`, `merge_new_paths_algo`, `rerank`,
`decide_active_path_update`, `apply_active_path_decision`, `best_path`, `active_path_entry`,
`handle_issue_rx`, `drain_and_apply_issue_channel`, `ingest_path_issue`, `check_path_expiry`.

* Time is nanoseconds since the epoch (`Nat`); the worker's `SystemTime::now()` is the `now` argument
  of each operation (the hooks inject it).
* The policy is an arbitrary predicate `allowed : Path → Bool` (`PathStrategy::predicate`); with several
  attached policies it is `allowedAll pols`, the conjunction of the attached predicates.
* f32 scores are never computed here (the one f32 operation of the control flow, the subtraction in
  `decide_active_path_update`, is `f32Round` of the exact difference).  Each operation takes the total score the real scorer assigns
  at that operation's `now` as a map `Fp → Int` (unit 2^-149, exact for every finite f32):
  `maintain` takes `sc0` (scores as they are) and `sc1` (scores after the issue notifications still
  queued for this path set have been ingested, which is what happens inside `update_path_cache`
  before new paths are ranked and merged; `sc1` also covers the new candidates).
* Nondeterminism is explicit: `ord` stands for the iteration order of the `HashMap` the new
  candidates come out of (only ties in score are affected), `backoff` is the f32/random
  `ExponentialBackoff::duration` (see `Model/Backoff.lean`).
* Panic sites (`expect`, `debug_assert!`) set `bad`; "never panics" is a theorem about `bad`.
-/
namespace ScionVerif.PathMgr
open ScionVerif.Generated.PathMgr

def NS : Nat := 1000000000

inductive ExpiryState | valid | near | expired
deriving Repr, DecidableEq

/-- `SystemTime::UNIX_EPOCH + Duration::from_secs(expiration().unwrap_or(0))` -/
def Path.expiryNs (p : Path) : Nat := p.expiry.getD 0 * NS

/-- `check_path_expiry` -/
def checkExpiry (p : Path) (now thr : Nat) : ExpiryState :=
  if p.expiryNs ≤ now then .expired
  else if p.expiryNs - now ≤ thr then .near
  else .valid

/-- `ScionPath::is_expired(now.as_secs())`.unwrap_or(false) as used by `cached_path` / `path` -/
def Path.expiredAt (p : Path) (now : Nat) : Bool :=
  match p.expiry with
  | some e => decide (e ≤ now / NS)
  | none => false

inductive FetchErr | noPaths | other
deriving Repr, DecidableEq

/-- what the `PathFetcher` answers -/
inductive Resp
  | ok (paths : List Path)
  | errNoPaths
  | errOther
deriving Repr

structure Env where
  cfg : Cfg
  src : Nat
  dst : Nat
  allowed : Path → Bool

/-- `PathStrategy::predicate` over the attached policies (`PathStrategy::add_policy` /
    `SocketConfig::with_path_policy` push one `PathPolicy::predicate` each):
    `self.policies.iter().all(|policy| policy.predicate(path))`; no policy attached ⇒ every path is accepted -/
def allowedAll (pols : List (Path → Bool)) : Path → Bool :=
  fun p => pols.all (fun pol => pol p)

structure St where
  cached : List Path := []
  active : Option Path := none
  failed : Nat := 0
  nextRefetch : Nat
  nextIdle : Nat
  used : Bool := false
  initialized : Bool := false
  err : Option FetchErr := none
  /-- the worker returned (`maintain` said "idle") -/
  exited : Bool := false
  /-- a panic site was reached -/
  bad : Bool := false
  /-- issue notifications queued in the broadcast channel for this path set -/
  pending : List Marker := []
  im : IssueMgr := {}
  /-- ghost: every path any fetch has returned so far -/
  delivered : List Path := []
deriving Repr

/-- `PathSet::new_with_time` -/
def init (env : Env) (now : Nat) : St :=
  { nextRefetch := now, nextIdle := now + env.cfg.maxIdle }

/-! ## ranking -/

/-- stable insertion: `x` goes after every `y` with `lt y x` that it meets, before the first other -/
def insertBy (lt : Path → Path → Bool) (x : Path) : List Path → List Path
  | [] => [x]
  | y :: ys => if lt y x then y :: insertBy lt x ys else x :: y :: ys

/-- stable sort (what `slice::sort_by` computes for a total preorder) -/
def sortBy (lt : Path → Path → Bool) (l : List Path) : List Path :=
  l.foldr (insertBy lt) []

/-- `PathStrategy::rank_inplace`: higher score first, ties keep their order -/
def rank (sc : Nat → Int) (l : List Path) : List Path :=
  sortBy (fun y x => decide (sc x.fp < sc y.fp)) l

/-- the order in which the candidates leave the `HashMap` -/
def orderBy (ord : List Nat) (l : List Path) : List Path :=
  sortBy (fun y x => decide (ord.idxOf y.fp < ord.idxOf x.fp)) l

/-! ## update_path_cache -/

/-- `collect::<HashMap<_,_>>()`: a later path with the same fingerprint replaces an earlier one -/
def dedupLast : List Path → List Path
  | [] => []
  | p :: rest => if rest.any (·.fp == p.fp) then dedupLast rest else p :: dedupLast rest

/-- `if let Some(matching_path) = fetched_paths.remove(&fp) { cached_path.path = matching_path }` -/
def refreshed (fm : List Path) (c : Path) : Path :=
  match fm.find? (·.fp == c.fp) with
  | some m => m
  | none => c

/-- the active slot after one round of the `retain_mut` loop -/
def retainActive (afp : Option Nat) (c c' : Path) (keep : Bool) (act : Option Path) : Option Path :=
  if some c.fp == afp then (if keep then some c' else none) else act

/-- the `retain_mut` loop; returns (kept entries, fetched paths not consumed, active slot) -/
def retainLoop (now thr : Nat) (afp : Option Nat) :
    List Path → List Path → Option Path → List Path × List Path × Option Path
  | [], fm, act => ([], fm, act)
  | c :: cs, fm, act =>
    let keep := checkExpiry (refreshed fm c) now thr != .expired
    let r := retainLoop now thr afp cs (fm.filter (·.fp != c.fp))
              (retainActive afp c (refreshed fm c) keep act)
    (if keep then refreshed fm c :: r.1 else r.1, r.2.1, r.2.2)

/-- `Vec::swap(0, idx)` (`idx` comes from `position`, so it is in range) -/
def swapFront (l : List Path) (idx : Nat) : List Path :=
  match l, idx with
  | [], _ => []
  | a :: t, 0 => a :: t
  | a :: t, i + 1 =>
    match t[i]? with
    | some b => b :: (t.take i ++ a :: t.drop (i + 1))
    | none => a :: t

/-- the `while kept_existing + kept_new < target` loop: prefixes kept of both ranked lists -/
def mergeTake (sc : Nat → Int) : Nat → List Path → List Path → List Path × List Path
  | 0, _, _ => ([], [])
  | b + 1, e :: es, n :: ns =>
    if sc n.fp ≤ sc e.fp then   -- existing preferred on tie
      let r := mergeTake sc b es (n :: ns); (e :: r.1, r.2)
    else
      let r := mergeTake sc b (e :: es) ns; (r.1, n :: r.2)
  | b + 1, e :: es, [] => let r := mergeTake sc b es []; (e :: r.1, r.2)
  | b + 1, [], n :: ns => let r := mergeTake sc b [] ns; (r.1, n :: r.2)
  | _ + 1, [], [] => ([], [])

/-- `merge_new_paths_algo`; the Boolean reports the `debug_assert!(false, "Active path fingerprint
    must be present in existing paths")` -/
def mergeNew (sc : Nat → Int) (existing new : List Path) (afp : Option Nat) (target : Nat) :
    List Path × Bool :=
  match afp with
  | some fp =>
    match existing.findIdx? (·.fp == fp) with
    | some idx =>
      match swapFront existing idx with
      | a :: rest => let r := mergeTake sc (target - 1) rest new; (a :: (r.1 ++ r.2), false)
      | [] => ([], true)
    | none => let r := mergeTake sc target existing new; (r.1 ++ r.2, true)
  | none => let r := mergeTake sc target existing new; (r.1 ++ r.2, false)

/-- `update_path_cache`; the Boolean says whether the issue channel was drained (new paths present) -/
def updateCache (env : Env) (s : St) (fetched : List Path) (now : Nat) (sc1 : Nat → Int)
    (ord : List Nat) : St × Bool :=
  let r := retainLoop now env.cfg.minExpiryThreshold (s.active.map (·.fp)) s.cached
            (dedupLast fetched) s.active
  let s1 := { s with cached := r.1, active := r.2.2 }
  if r.2.1.isEmpty then (s1, false)
  else
    let cands := rank sc1 (orderBy ord r.2.1)
    let m := mergeNew sc1 s1.cached cands (s1.active.map (·.fp)) env.cfg.maxCached
    ({ s1 with cached := m.1, pending := [], bad := s1.bad || m.2 }, true)

/-! ## active path decision -/

inductive Decision | noChange | replace | forceReplace
deriving Repr, DecidableEq

/-- `best_path`: first cached path that is not near expiry -/
def bestPath (cached : List Path) (now thr : Nat) : Option Path :=
  cached.find? (fun p => checkExpiry p now thr == .valid)

/-- `active_path_entry` -/
def activeEntry (s : St) : Option Path :=
  match s.active with
  | some a => s.cached.find? (·.fp == a.fp)
  | none => none

/-- "Determine if active path needs replacement - just by active path" -/
def baseDecision (active : Option Path) (now thr : Nat) : Decision :=
  match active with
  | none => .replace
  | some a =>
    if checkExpiry a now thr = .valid then .noChange
    else if checkExpiry a now thr = .near then .replace
    else .forceReplace

/-- smallest `e ≥ e0` with `a / 2^e < 2^24` (fuel-bounded; scores are below 2^278 units) -/
def f32Exp : Nat → Nat → Nat → Nat
  | 0, _, e => e
  | fuel + 1, a, e => if a / 2 ^ e < 2 ^ 24 then e else f32Exp fuel a (e + 1)

/-- the f32 nearest to the exact value `x` (unit 2^-149, round to nearest, ties to even): what the
    f32 subtraction `best_score - active_score` of two finite f32 values yields (IEEE 754; the grid
    below 2^24 units – subnormals and the first normal binade – is exact; no overflow for scores) -/
def f32Round (x : Int) : Int :=
  let a := x.natAbs
  let e := f32Exp 400 a 0
  let q := a / 2 ^ e
  let r := a % 2 ^ e
  let q' := if 2 ^ e < 2 * r ∨ (2 ^ e = 2 * r ∧ q % 2 = 1) then q + 1 else q
  if x < 0 then -((q' * 2 ^ e : Nat) : Int) else ((q' * 2 ^ e : Nat) : Int)

/-- "If no reason to change, and we have a best path, check if there is a reason to switch"; the
    Boolean reports the `debug_assert!(false, "failed to find active path entry …")` -/
def swapCheck (env : Env) (s : St) (sc : Nat → Int) (best : Option Path) : Decision × Bool :=
  match best, activeEntry s with
  | some b, some ae =>
    (if env.cfg.swapThreshold < f32Round (sc b.fp - sc ae.fp) then .replace else .noChange, false)
  | some _, none => (.noChange, true)
  | none, _ => (.noChange, false)

/-- `decide_active_path_update` -/
def decideActive (env : Env) (s : St) (now : Nat) (sc : Nat → Int) : Decision × Option Path × Bool :=
  let best := bestPath s.cached now env.cfg.minExpiryThreshold
  let d0 := baseDecision s.active now env.cfg.minExpiryThreshold
  if d0 = .noChange then ((swapCheck env s sc best).1, best, (swapCheck env s sc best).2)
  else (d0, best, false)

/-- `apply_active_path_decision` -/
def applyDecision (s : St) (d : Decision) (best : Option Path) : St :=
  -- "If best path is the active path, ignore it"
  let best' := if s.active.map (·.fp) == best.map (·.fp) then none else best
  match best' with
  | some b => if d = .noChange then s else { s with active := some b }
  | none => if d = .forceReplace then { s with active := none } else s

/-- `rerank` + `maybe_update_active_path` -/
def reevaluate (env : Env) (s : St) (now : Nat) (sc : Nat → Int) : St :=
  let s := { s with cached := rank sc s.cached }
  let d := decideActive env s now sc
  applyDecision { s with bad := s.bad || d.2.2 } d.1 d.2.1

/-! ## fetch_and_update -/

def minOpt : List Nat → Option Nat
  | [] => none
  | x :: xs => match minOpt xs with
    | some m => some (min x m)
    | none => some x

/-- `earliest_expiry` (seconds) -/
def earliestExpiry (cached : List Path) : Option Nat := minOpt (cached.filterMap (·.expiry))

/-- `(now + refetch_interval).min(earliest_expiry - min_expiry_threshold).max(now + min_refetch_delay)`;
    the subtraction may go below the epoch, hence `Int` -/
def nextAfterOk (cfg : Cfg) (now eeSecs : Nat) : Nat :=
  (max (min ((now + cfg.refetchInterval : Nat) : Int) ((eeSecs * NS : Nat) - (cfg.minExpiryThreshold : Nat)))
       ((now + cfg.minRefetchDelay : Nat) : Int)).toNat

/-- `fetch_and_filter_paths`, the removal of already expired paths and the empty check of
    `fetch_and_update` -/
def fetchFiltered (env : Env) (now : Nat) : Resp → Except FetchErr (List Path)
  | .ok ps =>
    let f := (ps.filter env.allowed).filter
      (fun p => checkExpiry p now env.cfg.minExpiryThreshold != .expired)
    if f.isEmpty then .error .noPaths else .ok f
  | .errNoPaths => .error .noPaths
  | .errOther => .error .other

def Resp.paths : Resp → List Path
  | .ok ps => ps
  | _ => []

/-- bookkeeping of the `Ok` arm of `fetch_and_update` -/
def afterOk (cfg : Cfg) (u : St) (now ee : Nat) : St :=
  { u with err := none, failed := 0, nextRefetch := nextAfterOk cfg now ee }

/-- bookkeeping of the `Err` arm of `fetch_and_update` (`failed` = attempts before this one) -/
def afterErr (cfg : Cfg) (u : St) (failed now backoff : Nat) (e : FetchErr) : St :=
  { u with failed := failed + 1, nextRefetch := now + failDelay backoff cfg.minRefetchDelay, err := some e }

/-- "Set update state": `initialized = true`, waiters notified -/
def markInit (s : St) : St := { s with initialized := true }

/-- the ghost record of what the fetcher returned -/
def noteDelivered (s : St) (resp : Resp) : St := { s with delivered := s.delivered ++ resp.paths }

def fetchAndUpdate (env : Env) (s : St) (now : Nat) (resp : Resp) (sc0 sc1 : Nat → Int)
    (ord : List Nat) (backoff : Nat) : St :=
  match fetchFiltered env now resp with
  | .ok f =>
    let u := updateCache env (noteDelivered s resp) f now sc1 ord
    match earliestExpiry u.1.cached with
    | none => { u.1 with bad := true }   -- `.expect("should have a path available …")`
    | some ee => markInit (reevaluate env (afterOk env.cfg u.1 now ee) now (if u.2 then sc1 else sc0))
  | .error e =>
    let u := updateCache env (noteDelivered s resp) [] now sc1 ord
    markInit (reevaluate env (afterErr env.cfg u.1 s.failed now backoff e) now sc0)

/-- `idle_check` (called only when `now ≥ next_idle_check`): new state and "is idle" -/
def idleCheck (env : Env) (s : St) (now : Nat) : St × Bool :=
  if s.used then ({ s with used := false, nextIdle := now + env.cfg.maxIdle }, false)
  else (s, true)

/-- the `if now >= self.internal.next_refetch` part of `maintain` -/
def refetchIfDue (env : Env) (s : St) (now : Nat) (resp : Resp) (sc0 sc1 : Nat → Int) (ord : List Nat)
    (backoff : Nat) : St :=
  if s.nextRefetch ≤ now then fetchAndUpdate env s now resp sc0 sc1 ord backoff else s

/-- `maintain` -/
def maintain (env : Env) (s : St) (now : Nat) (resp : Resp) (sc0 sc1 : Nat → Int) (ord : List Nat)
    (backoff : Nat) : St :=
  if s.nextIdle ≤ now then
    if (idleCheck env s now).2 then { (idleCheck env s now).1 with exited := true }
    else refetchIfDue env (idleCheck env s now).1 now resp sc0 sc1 ord backoff
  else refetchIfDue env s now resp sc0 sc1 ord backoff

/-! ## issues -/

/-- does ingesting `m` touch the active path (`ingest_path_issue().active_path_affected`)? -/
def affectsActive (s : St) (m : Marker) : Bool :=
  match s.active with
  | none => false
  | some a =>
    if m.target.multi then s.cached.any (fun e => m.target.matchesPath e && e.fp == a.fp)
    else match s.cached.find? (fun e => m.target.matchesPath e) with
      | some e => e.fp == a.fp
      | none => false

/-- the worker's `issue_rx.recv()` arm: `handle_issue_rx` on the oldest queued notification -/
def deliver (env : Env) (s : St) (now : Nat) (sc : Nat → Int) : St :=
  match s.pending with
  | [] => s
  | m :: rest =>
    if !m.target.appliesTo env.src env.dst then { s with pending := rest }
    else
      let applicable := (m :: rest).filter (·.target.appliesTo env.src env.dst)
      let affected := applicable.any (affectsActive s)
      let s1 := { s with pending := [] }
      if affected then reevaluate env s1 now sc else s1

/-- `report_path_issue` (+ the broadcast to this path set) -/
def report (env : Env) (s : St) (k : Kind) (id ts : Nat) : St :=
  match k.managedTarget with
  | none => s
  | some t =>
    let r := s.im.addIssue env.cfg.issueCacheSize env.cfg.dedupWindow id ⟨t, ts⟩
    { s with im := r.1, pending := if r.2 then s.pending ++ [⟨t, ts⟩] else s.pending }

/-! ## senders -/

/-- `MultiPathManager::cached_path`: an active path that has outlived its expiry is treated as absent -/
def sendCached (s : St) (now : Nat) : Option Path :=
  match s.active with
  | none => none
  | some a => if a.expiredAt now then none else some a

/-- result of `MultiPathManager::path` (src ≠ dst, no wildcard) in a quiescent state -/
inductive PathRes
  | ok (p : Path)
  | err (e : FetchErr)
  /-- not initialised yet: the caller waits for the first fetch -/
  | wait
deriving Repr, DecidableEq

/-- "No active path even after waiting, return last error if any" -/
def St.lastErr (s : St) : PathRes :=
  match s.err with
  | some e => .err e
  | none => .err .noPaths

def sendPath (s : St) (now : Nat) : PathRes :=
  match s.active with
  | some a => if a.expiredAt now then s.lastErr else .ok a
  | none => if !s.initialized then .wait else s.lastErr

/-! ## operations -/

inductive Op
  | maintain (now : Nat) (resp : Resp) (sc0 sc1 : Nat → Int) (ord : List Nat) (backoff : Nat)
  | report (k : Kind) (id ts : Nat)
  | deliver (now : Nat) (sc : Nat → Int)
  | send (now : Nat)

def step (env : Env) (s : St) (op : Op) : St :=
  if s.exited || s.bad then s
  else match op with
    | .maintain now resp sc0 sc1 ord backoff => maintain env s now resp sc0 sc1 ord backoff
    | .report k id ts => report env s k id ts
    | .deliver now sc => deliver env s now sc
    | .send _ => { s with used := true }

def run (env : Env) (t0 : Nat) (ops : List Op) : St := ops.foldl (step env) (init env t0)

end ScionVerif.PathMgr
