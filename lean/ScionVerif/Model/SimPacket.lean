import ScionVerif.Spec.RefRouter
/-!
# One-hop and empty paths in the simulated data plane, and the walk over all path kinds

Mirrors `pocketscion/src/network/scion/routing/spec/onehop.rs` (`OneHopRoutingLogic`),
`OneHopPathView::set_second_hop` (sciparse `onehop/view.rs`) and the path-type dispatch of
`SpecRoutingLogic::route` (`routing/spec.rs`): standard → `routeStd`, one-hop → below, empty → local
delivery, unsupported → drop; followed by the non-local-delivery check.

`Ref.processOneHop` is the reference behaviour for one-hop paths (first hop field verified and consumed by
the AS that created it, second hop field filled in by the neighbour, delivery there).
-/
namespace ScionVerif.Router
open ScionVerif.Generated.Router

structure OneHop where
  info : Info
  hop0 : Hop
  hop1 : Hop
deriving Repr, DecidableEq

inductive Pkt
  | std (p : Path)
  | oneHop (o : OneHop)
  | empty
  | unsupported
deriving Repr, DecidableEq

/-- `OneHopRoutingLogic::handle_one_hop_path` (no SCMP errors: every error is a drop) -/
def routeOneHop (macf : MacF) (o : OneHop) (ing : Nat) (key : List UInt8) : OneHop × Action :=
  if ing == 0 then
    -- ingress from inside the AS: continue at egress
    let info1 := if o.info.consDir then { o.info with segId := betaStep o.info.segId o.hop0.mac } else o.info
    ({ o with info := info1 }, .forwardNext o.hop0.consEgress)
  else
    if o.hop1.mac == 0 then
      if !o.info.consDir then (o, .drop)
      else
        -- `set_second_hop(ingress, key, true)`
        let h1 : Hop := { inAlert := false, egAlert := false, exp := o.hop0.exp, consIngress := ing, consEgress := 0,
                          mac := macf key o.info.segId o.info.ts o.hop0.exp ing 0 }
        ({ o with hop1 := h1 }, .forwardLocal)
    else
      if !o.info.consDir then
        ({ o with info := { o.info with segId := betaStep o.info.segId o.hop1.mac } }, .forwardLocal)
      else (o, .forwardLocal)

/-- `SpecRoutingLogic::route`: dispatch on the path type, then the non-local-delivery check -/
def routePkt (macf : MacF) (localAs dstAs : Nat) (k : Pkt) (ing now : Nat) (key : List UInt8)
    (lookup : Nat → Option IfState) (ign : Bool) : Pkt × Action :=
  match k with
  | .std p => let r := routeStd macf localAs dstAs p ing now key lookup ign; (.std r.1, r.2)
  | .oneHop o =>
    let r := routeOneHop macf o ing key
    match r.2 with
    | .forwardLocal => if localAs != dstAs then (.oneHop r.1, .scmpError .nonLocalDelivery) else (.oneHop r.1, .forwardLocal)
    | a => (.oneHop r.1, a)
  | .empty => if localAs != dstAs then (.empty, .scmpError .nonLocalDelivery) else (.empty, .forwardLocal)
  | .unsupported => (.unsupported, .drop)

/-- `ScionNetworkSimIter` for any path kind -/
def walkP (macf : MacF) (t : Topo) (dstAs now : Nat) (ignoreMacs : Bool) :
    Nat → Nat → Nat → Pkt → Nat → Option (Verdict × Pkt × Nat)
  | 0, _, _, _, _ => none
  | fuel + 1, curAs, curIf, k, steps =>
    match t.asInfo curAs with
    | none => some (.simError curAs, k, steps)
    | some a =>
      let (k1, act) := routePkt macf curAs dstAs k curIf now a.key (t.lookup curAs) ignoreMacs
      match act with
      | .forwardNext eg =>
        match t.link curAs eg with
        | none => some (.simError curAs, k1, steps + 1)
        | some l =>
          match t.asInfo l.peerAs with
          | none => some (.simError curAs, k1, steps + 1)
          | some b =>
            if b.external then some (.external curAs eg b.ia l.peerIf, k1, steps + 1)
            else walkP macf t dstAs now ignoreMacs fuel l.peerAs l.peerIf k1 (steps + 1)
      | .forwardLocal => some (.delivered curAs, k1, steps + 1)
      | .ingressScmp i => some (.scmpRequest curAs i false, k1, steps + 1)
      | .egressScmp i => some (.scmpRequest curAs i true, k1, steps + 1)
      | .scmpError e => some (.scmp curAs e, k1, steps + 1)
      | .drop => some (.dropped curAs, k1, steps + 1)

namespace Ref

/-- reference behaviour for a one-hop path: the creating AS verifies and consumes its own first hop field and
    sends the packet over the (existing, up) egress link; the neighbour fills in the second hop field and
    delivers the packet locally (it must be the destination) -/
def processOneHop (macf : MacF) (localAs dstAs : Nat) (o : OneHop) (ing now : Nat) (key : List UInt8)
    (lookup : Nat → Option IfState) (ign : Bool) : OneHop × Action :=
  if !o.info.consDir then (o, .drop) else
  if ing == 0 then
    match hopTimely o.hop0 o.info now with
    | some e => (o, .scmpError e)
    | none =>
    if !ign && o.hop0.mac != macf key o.info.segId o.info.ts o.hop0.exp o.hop0.consIngress o.hop0.consEgress then
      (o, .scmpError .invalidMac)
    else
    match lookup o.hop0.consEgress with
    | none => (o, .scmpError .ppConsEgress)
    | some st =>
      if !st.up then (o, .scmpError (.ifDown o.hop0.consEgress)) else
      ({ o with info := { o.info with segId := Nat.xor o.info.segId (o.hop0.mac / 4294967296) } }, .forwardNext o.hop0.consEgress)
  else
    if localAs != dstAs then (o, .scmpError .nonLocalDelivery) else
    if o.hop1.mac == 0 then
      ({ o with hop1 := { inAlert := false, egAlert := false, exp := o.hop0.exp, consIngress := ing, consEgress := 0,
                          mac := macf key o.info.segId o.info.ts o.hop0.exp ing 0 } }, .forwardLocal)
    else (o, .forwardLocal)

def processPkt (macf : MacF) (localAs dstAs : Nat) (k : Pkt) (ing now : Nat) (key : List UInt8)
    (lookup : Nat → Option IfState) (ign : Bool) : Pkt × Action :=
  match k with
  | .std p => let r := process macf localAs dstAs p ing now key lookup ign; (.std r.1, r.2)
  | .oneHop o => let r := processOneHop macf localAs dstAs o ing now key lookup ign; (.oneHop r.1, r.2)
  | .empty => if localAs != dstAs then (.empty, .scmpError .nonLocalDelivery) else (.empty, .forwardLocal)
  | .unsupported => (.unsupported, .drop)

def walkP (macf : MacF) (t : Topo) (dstAs now : Nat) (ignoreMacs : Bool) :
    Nat → Nat → Nat → Pkt → Nat → Option (Verdict × Pkt × Nat)
  | 0, _, _, _, _ => none
  | fuel + 1, curAs, curIf, k, steps =>
    match t.asInfo curAs with
    | none => some (.simError curAs, k, steps)
    | some a =>
      match processPkt macf curAs dstAs k curIf now a.key (t.lookup curAs) ignoreMacs with
      | (k1, .forwardNext eg) =>
        match t.link curAs eg with
        | none => some (.simError curAs, k1, steps + 1)
        | some l =>
          match t.asInfo l.peerAs with
          | none => some (.simError curAs, k1, steps + 1)
          | some b =>
            if b.external then some (.external curAs eg b.ia l.peerIf, k1, steps + 1)
            else walkP macf t dstAs now ignoreMacs fuel l.peerAs l.peerIf k1 (steps + 1)
      | (k1, .forwardLocal) => some (.delivered curAs, k1, steps + 1)
      | (k1, .ingressScmp i) => some (.scmpRequest curAs i false, k1, steps + 1)
      | (k1, .egressScmp i) => some (.scmpRequest curAs i true, k1, steps + 1)
      | (k1, .scmpError e) => some (.scmp curAs e, k1, steps + 1)
      | (k1, .drop) => some (.dropped curAs, k1, steps + 1)

end Ref
end ScionVerif.Router
