import ScionVerif.Generated.Router
/-!
# Model of the pocketscion data plane: per-AS routing of a standard-path packet and the inter-AS walk

Mirrors, statement by statement,
* `sciparse/src/proto/dataplane_path/standard/routing.rs` (`advance_ingress_with_validator`,
  `advance_egress_with_validator`, `_calculate_segment_index`),
* `pocketscion/src/network/scion/routing/spec/standard.rs` (`StandardValidator::{validate_hop,
  validate_segment_change}`, `StdRoutingLogic::{handle_standard_path, standard_path_ingress,
  standard_path_egress}`, `StandardRoutingError::to_scmp_error`),
* `routing/spec.rs` (`SpecRoutingLogic::route`: non-local delivery check),
* `simulator.rs` (`ScionNetworkSimIter::next_step`, `simulate_traversal`).

The path is modelled at field level (the byte codec is the subject of C02/C03/C11/C12).  The hop-field MAC
is a *parameter* `macf` – theorems hold for every MAC function; the driver instantiates AES-CMAC.
Decision tables (`segChangeValid`, link-role mapping, expiry unit) are generated from the Rust source.
Core-only.
-/
namespace ScionVerif.Router
open ScionVerif.Generated.Router

/-- info field -/
structure Info where
  consDir : Bool
  peer : Bool
  segId : Nat      -- u16
  ts : Nat         -- u32
deriving Repr, DecidableEq

/-- hop field -/
structure Hop where
  inAlert : Bool   -- CONS_INGRESS_ROUTER_ALERT
  egAlert : Bool   -- CONS_EGRESS_ROUTER_ALERT
  exp : Nat        -- u8
  consIngress : Nat
  consEgress : Nat
  mac : Nat        -- 48 bit
deriving Repr, DecidableEq

/-- standard path: meta header + info fields + hop fields -/
structure Path where
  currInf : Nat
  currHf : Nat
  seg0 : Nat
  seg1 : Nat
  seg2 : Nat
  infos : List Info
  hops : List Hop
deriving Repr, DecidableEq

def Path.hopCount (p : Path) : Nat := p.seg0 + p.seg1 + p.seg2

/-- `_calculate_segment_index`: (segment index, is start, is end) -/
def Path.segIndex (p : Path) (h : Nat) : Option (Nat × Bool × Bool) :=
  if h < p.seg0 then some (0, h == 0, h + 1 == p.seg0)
  else if h < p.seg0 + p.seg1 then some (1, h == p.seg0, h + 1 == p.seg0 + p.seg1)
  else if h < p.seg0 + p.seg1 + p.seg2 then some (2, h == p.seg0 + p.seg1, h + 1 == p.seg0 + p.seg1 + p.seg2)
  else none

def Hop.ingressIf (h : Hop) (i : Info) : Nat := if i.consDir then h.consIngress else h.consEgress
def Hop.egressIf (h : Hop) (i : Info) : Nat := if i.consDir then h.consEgress else h.consIngress
/-- `normalized_ingress_router_alert` -/
def Hop.ingressAlert (h : Hop) (consDir : Bool) : Bool := if consDir then h.inAlert else h.egAlert
def Hop.egressAlert (h : Hop) (consDir : Bool) : Bool := if consDir then h.egAlert else h.inAlert

/-- `mac_beta_step`: XOR with the first two MAC bytes -/
def betaStep (acc mac : Nat) : Nat := Nat.xor acc (mac / 2 ^ 32)

/-- `HopFieldView::expiry_timestamp`: ts + ⌊(exp+1)·EXP_TIME_UNIT⌋ seconds, saturating in u32 -/
def expiryTs (h : Hop) (i : Info) : Nat :=
  min (i.ts + (h.exp + 1) * EXP_UNIT_NANOS / 1000000000) (2 ^ 32 - 1)

structure IfState where
  linkType : LinkType
  up : Bool
deriving Repr, DecidableEq

/-- `StandardRoutingError` reduced to what `to_scmp_error` distinguishes.
    `ppConsIngress`/`ppConsEgress` = parameter problem UnknownHopFieldCons{Ingress,Egress}Interface -/
inductive VErr
  | ppConsIngress | ppConsEgress | invalidPath | pathExpired | invalidMac | invalidSegChange
  | erroneousHeader | ifDown (ifId : Nat) | nonLocalDelivery
deriving Repr, DecidableEq

/-- `AdvanceError` (path malformed: no reply possible, packet dropped) -/
inductive AdvErr | hopOob | infoOob | singleHopSegment | invalidSegIndex | atSegmentEnd
deriving Repr, DecidableEq

/-- the validator's context -/
structure VCtx where
  ingress : Bool
  now : Nat
  lookup : Nat → Option IfState
  curIf : Nat
  key : List UInt8
  ignoreMacs : Bool
  /-- `segment_changed`: set while validating the second hop field of a crossover -/
  segChanged : Bool := false

abbrev MacF := List UInt8 → Nat → Nat → Nat → Nat → Nat → Nat   -- key beta ts exp consIngress consEgress

/-- the interface part of `StandardValidator::validate_hop` -/
def ifaceCheck (c : VCtx) (h : Hop) (i : Info) : Option VErr :=
  if c.ingress then
    if c.segChanged then none
    else if c.curIf != 0 && h.ingressIf i != c.curIf then
      some (if i.consDir then .ppConsIngress else .ppConsEgress)
    else none
  else
    if h.egressIf i != c.curIf then some (if i.consDir then .ppConsEgress else .ppConsIngress) else none

/-- `StandardValidator::validate_hop` -/
def validateHop (macf : MacF) (c : VCtx) (h : Hop) (i : Info) : Option VErr :=
  match ifaceCheck c h i with
  | some e => some e
  | none =>
    if i.ts > c.now then some .invalidPath
    else if expiryTs h i < c.now then some .pathExpired
    else if !c.ignoreMacs && h.mac != macf c.key i.segId i.ts h.exp h.consIngress h.consEgress then some .invalidMac
    else none

/-- `StandardValidator::validate_segment_change` -/
def validateSegChange (c : VCtx) (h : Hop) (i : Info) (nh : Hop) (ni : Info) : Option VErr :=
  if h.egressAlert i.consDir then some .erroneousHeader
  else if nh.ingressAlert ni.consDir then some .erroneousHeader
  else
    match c.lookup (h.ingressIf i) with
    | none => some (if i.consDir then .ppConsIngress else .ppConsEgress)
    | some inSt =>
      match c.lookup (nh.egressIf ni) with
      | none => some (if ni.consDir then .ppConsEgress else .ppConsIngress)
      | some outSt => if segChangeValid inSt.linkType outSt.linkType then none else some .invalidSegChange

inductive IngressAction | continueEgress (egressIf : Nat) | forwardLocal
deriving Repr, DecidableEq

structure IngressOut where
  scmpAlert : Bool
  ingressIf : Nat
  action : IngressAction
deriving Repr, DecidableEq

def setAt {α} (l : List α) (i : Nat) (a : α) : List α := l.set i a

/-- `advance_ingress_with_validator` -/
def advanceIngress (macf : MacF) (c : VCtx) (p : Path) (fromInternal : Bool) :
    Except AdvErr (Path × IngressOut × Option VErr) :=
  match p.segIndex p.currHf with
  | none => .error .hopOob
  | some (segIdx, segStart, segEnd) =>
    if segStart && segEnd then .error .singleHopSegment
    else if segIdx != p.currInf then .error .invalidSegIndex
    else
      let isFinal := p.currHf + 1 ≥ p.hopCount
      match p.hops[p.currHf]?, p.infos[p.currInf]? with
      | none, _ => .error .hopOob
      | _, none => .error .infoOob
      | some hop, some info =>
        let curIngress := hop.ingressIf info
        let info1 := if !fromInternal && !info.consDir then { info with segId := betaStep info.segId hop.mac } else info
        let verr := validateHop macf c hop info1
        let alert := hop.ingressAlert info.consDir
        let hop1 : Hop :=
          if !fromInternal && alert then
            (if info.consDir then { hop with inAlert := false } else { hop with egAlert := false })
          else hop
        if isFinal && segEnd then
          .ok ({ p with infos := setAt p.infos p.currInf info1, hops := setAt p.hops p.currHf hop1 },
               { scmpAlert := alert, ingressIf := curIngress, action := .forwardLocal }, verr)
        else if !isFinal && !segEnd then
          .ok ({ p with infos := setAt p.infos p.currInf info1, hops := setAt p.hops p.currHf hop1 },
               { scmpAlert := alert, ingressIf := curIngress, action := .continueEgress (hop1.egressIf info1) }, verr)
        else if !isFinal && segEnd then
          -- the next hop-field index must fit the 6-bit CurrHF field
          if p.currHf + 1 > MAX_TOTAL_HOPS then .error .hopOob else
          match p.hops[p.currHf + 1]?, p.infos[segIdx + 1]? with
          | none, _ => .error .hopOob
          | _, none => .error .infoOob
          | some nh, some ni =>
            let verr1 := match verr with | some e => some e | none => validateSegChange c hop1 info1 nh ni
            let verr2 := match verr1 with | some e => some e | none => validateHop macf { c with segChanged := true } nh ni
            .ok ({ p with currHf := p.currHf + 1, currInf := segIdx + 1,
                          infos := setAt p.infos p.currInf info1, hops := setAt p.hops p.currHf hop1 },
                 { scmpAlert := alert, ingressIf := curIngress, action := .continueEgress (nh.egressIf ni) }, verr2)
        else
          -- `unreachable!`: final hop that is not a segment end (cannot happen: shown in the theorems)
          .error .hopOob

structure EgressOut where
  scmpAlert : Bool
  egressIf : Nat
deriving Repr, DecidableEq

/-- `advance_egress_with_validator` -/
def advanceEgress (macf : MacF) (c : VCtx) (p : Path) : Except AdvErr (Path × EgressOut × Option VErr) :=
  match p.segIndex p.currHf with
  | none => .error .hopOob
  | some (segIdx, _, segEnd) =>
    if segIdx != p.currInf then .error .invalidSegIndex
    else
      let isFinal := p.currHf + 1 ≥ p.hopCount
      match p.hops[p.currHf]?, p.infos[p.currInf]? with
      | none, _ => .error .hopOob
      | _, none => .error .infoOob
      | some hop, some info =>
        if isFinal then .error .hopOob
        else if p.currHf + 1 > MAX_TOTAL_HOPS then .error .hopOob   -- CurrHF is a 6-bit field
        else if segEnd then .error .atSegmentEnd
        else
          let verr := validateHop macf c hop info
          let info1 := if info.consDir then { info with segId := betaStep info.segId hop.mac } else info
          let alert := hop.egressAlert info.consDir
          let hop1 : Hop :=
            if alert then (if info.consDir then { hop with egAlert := false } else { hop with inAlert := false })
            else hop
          .ok ({ p with currHf := p.currHf + 1,
                        infos := setAt p.infos p.currInf info1, hops := setAt p.hops p.currHf hop1 },
               { scmpAlert := alert, egressIf := hop1.egressIf info1 }, verr)

/-- `AsRoutingAction` after `From<Result<..>>` (SCMP errors folded into a local action) -/
inductive Action
  | forwardNext (egressIf : Nat)
  | forwardLocal
  | ingressScmp (ifId : Nat)
  | egressScmp (ifId : Nat)
  | scmpError (e : VErr)
  | drop
deriving Repr, DecidableEq

/-- `StdRoutingLogic::handle_standard_path` followed by `SpecRoutingLogic::route`'s post-processing:
    result action and the path as left in the packet -/
def routeStd (macf : MacF) (localAs dstAs : Nat) (p : Path) (ingressIf now : Nat) (key : List UInt8)
    (lookup : Nat → Option IfState) (ignoreMacs : Bool) : Path × Action :=
  let cIn : VCtx := { ingress := true, now, lookup, curIf := ingressIf, key, ignoreMacs }
  match advanceIngress macf cIn p (ingressIf == 0) with
  | .error _ => (p, .drop)
  | .ok (p1, _, some e) => (p1, .scmpError e)
  | .ok (p1, out, none) =>
    if out.scmpAlert && ingressIf != 0 && out.ingressIf == ingressIf then (p1, .ingressScmp ingressIf)
    else
      match out.action with
      | .forwardLocal => if localAs != dstAs then (p1, .scmpError .nonLocalDelivery) else (p1, .forwardLocal)
      | .continueEgress egressId =>
        match p1.infos[p1.currInf]? with
        | none => (p1, .drop)
        | some inf =>
          match lookup egressId with
          | none => (p1, .scmpError (if inf.consDir then .ppConsEgress else .ppConsIngress))
          | some st =>
            if !st.up then (p1, .scmpError (.ifDown egressId))
            else
              let cEg : VCtx := { ingress := false, now, lookup, curIf := egressId, key, ignoreMacs }
              match advanceEgress macf cEg p1 with
              | .error _ => (p1, .drop)
              | .ok (p2, _, some e) => (p2, .scmpError e)
              | .ok (p2, eo, none) =>
                if eo.scmpAlert && eo.egressIf != 0 && eo.egressIf == egressId then (p2, .egressScmp eo.egressIf)
                else (p2, .forwardNext eo.egressIf)

/-! ## Topology and the inter-AS walk (`ScionNetworkSimIter`) -/

structure AsInfo where
  ia : Nat
  core : Bool
  external : Bool
  key : List UInt8
deriving Repr

/-- one end of a link: `owner#ifId` is `role` of `peerAs#peerIf` -/
structure HalfLink where
  owner : Nat
  ifId : Nat
  role : LinkRole
  peerAs : Nat
  peerIf : Nat
  up : Bool
deriving Repr

structure Topo where
  ases : List AsInfo
  links : List HalfLink
deriving Repr

def Topo.asInfo (t : Topo) (ia : Nat) : Option AsInfo := t.ases.find? (·.ia == ia)
def Topo.link (t : Topo) (ia ifId : Nat) : Option HalfLink := t.links.find? (fun l => l.owner == ia && l.ifId == ifId)
def Topo.lookup (t : Topo) (ia : Nat) (ifId : Nat) : Option IfState :=
  (t.link ia ifId).map (fun l => { linkType := roleToLinkType l.role, up := l.up })

/-- final verdict of `simulate_traversal` -/
inductive Verdict
  | delivered (atAs : Nat)                 -- ForwardLocal
  | scmp (atAs : Nat) (e : VErr)           -- SendSCMPErrorResponse
  | scmpRequest (atAs : Nat) (ifId : Nat) (egress : Bool)
  | external (atAs : Nat) (egressIf : Nat) (extAs : Nat) (extIf : Nat)
  | dropped (atAs : Nat)                   -- Drop: simulate_traversal returns Err("should return a local action")
  | simError (atAs : Nat)                  -- anyhow error inside next_step (missing link / AS)
deriving Repr, DecidableEq

/-- `ScionNetworkSimIter` run to completion.  `fuel` bounds the number of AS steps; `steps` counts them.
    Returns `none` only if the fuel is exhausted (shown impossible for fuel > hop count). -/
def walk (macf : MacF) (t : Topo) (dstAs now : Nat) (ignoreMacs : Bool) :
    Nat → Nat → Nat → Path → Nat → Option (Verdict × Path × Nat)
  | 0, _, _, _, _ => none
  | fuel + 1, curAs, curIf, p, steps =>
    match t.asInfo curAs with
    | none => some (.simError curAs, p, steps)
    | some a =>
      let (p1, act) := routeStd macf curAs dstAs p curIf now a.key (t.lookup curAs) ignoreMacs
      match act with
      | .forwardNext eg =>
        match t.link curAs eg with
        | none => some (.simError curAs, p1, steps + 1)
        | some l =>
          match t.asInfo l.peerAs with
          | none => some (.simError curAs, p1, steps + 1)
          | some b =>
            if b.external then some (.external curAs eg b.ia l.peerIf, p1, steps + 1)
            else walk macf t dstAs now ignoreMacs fuel l.peerAs l.peerIf p1 (steps + 1)
      | .forwardLocal => some (.delivered curAs, p1, steps + 1)
      | .ingressScmp i => some (.scmpRequest curAs i false, p1, steps + 1)
      | .egressScmp i => some (.scmpRequest curAs i true, p1, steps + 1)
      | .scmpError e => some (.scmp curAs e, p1, steps + 1)
      | .drop => some (.dropped curAs, p1, steps + 1)

/-! ## reversal (the reply path) -/

/-- `StandardPath::try_reverse` on the field-level model (all segments reversed, CONS_DIR toggled,
    pointers mirrored) -/
def reversePath (p : Path) : Path :=
  let lens := [p.seg0, p.seg1, p.seg2].filter (· != 0)
  let r := lens.reverse
  { currInf := p.infos.length - 1 - p.currInf, currHf := p.hops.length - 1 - p.currHf,
    seg0 := r.getD 0 0, seg1 := r.getD 1 0, seg2 := r.getD 2 0,
    infos := (p.infos.map (fun i => { i with consDir := !i.consDir })).reverse,
    hops := p.hops.reverse }

end ScionVerif.Router
