import ScionVerif.Model.TunServer
/-!
# The public entry points of `SnapTunServer` (`snap-tun/src/server.rs`)

`impl SnapTunServer` has two pairs of packet-moving public functions: the `_with_session` variants (modelled in
`Model/TunServer.lean`: `handleIncoming`, `handleOutgoing`) and the *compatibility wrappers*
`handle_incoming_packet` / `handle_outgoing_packet`, which return only the `TunnResult` / the `WgKind` to send.
The wrappers are modelled here statement by statement (delegation + projection), so that a payload that reaches the
SCION side or the wire through them is covered by the theorems too, and the correspondence harness drives them on
the real code with the same oracles.

`entryPoints` is the list of public functions the model has a function for and the harness drives; the translator
regenerates the list of `pub fn` of every `impl .. SnapTunServer<..>` block (`Generated.SnapTun.SERVER_PUB_FNS`) and
`Theorems/C09.lean: entry_points_pinned` compares the two by `decide`.
Core Lean only.
-/
namespace ScionVerif.SnapTun

/-- what a public function of `SnapTunServer` does -/
inductive Role
  /-- `new`: creates the empty tunnel table -/
  | construct
  /-- a datagram from the network: may hand a decrypted payload to the caller (the SCION side) -/
  | incoming
  /-- a payload from the SCION side: may hand an encrypted packet for the client to the caller -/
  | outgoing
  /-- `update_timers` -/
  | timers
  /-- read-only view compiled only with the `verif-hooks` feature -/
  | readOnlyHook
deriving Repr, DecidableEq

/-- every public function of `SnapTunServer`, in source order, with the model function that mirrors it:
`new` ↦ `({} : Server σ)`, `handle_incoming_packet` ↦ `handleIncomingPlain`,
`handle_incoming_packet_with_session` ↦ `handleIncoming`, `handle_outgoing_packet` ↦ `handleOutgoingPlain`,
`handle_outgoing_packet_with_session` ↦ `handleOutgoing`, `update_timers` ↦ `updateTimers`,
`verif_tunnels` ↦ `Server.tunnels` (what the harness compares). -/
def entryPoints : List (String × Role) :=
  [("new", .construct),
   ("handle_incoming_packet", .incoming),
   ("handle_incoming_packet_with_session", .incoming),
   ("handle_outgoing_packet", .outgoing),
   ("handle_outgoing_packet_with_session", .outgoing),
   ("update_timers", .timers),
   ("verif-hooks:verif_tunnels", .readOnlyHook)]

section
variable {σ Pkt Net SD : Type}

/-- `HandleIncomingPacketResult::into_result` -/
def InRes.intoResult : InRes Net SD → TunnResult Net
  | .result r => r
  | .forwarded p _ => .writeToTunnel p

/-- `SnapTunServer::handle_incoming_packet`:
`self.handle_incoming_packet_with_session(packet, from, send_to_network).into_result()`;
returns (server, what was pushed to `send_to_network`, the `TunnResult`) -/
def handleIncomingPlain (w : Wg σ Pkt Net) (authz : Id → Option SD) (s : Server σ) (pkt : Pkt) (frm : Addr) :
    Server σ × List Net × TunnResult Net :=
  let o := handleIncoming w authz s pkt frm
  (o.srv, o.net, o.res.intoResult)

/-- `SnapTunServer::handle_outgoing_packet`:
`self.handle_outgoing_packet_with_session(packet, to).and_then(HandleOutgoingPacketResult::into_packet)` -/
def handleOutgoingPlain (w : Wg σ Pkt Net) (authz : Id → Option SD) (s : Server σ) (payload : Payload) (to : Addr) :
    Server σ × Option Net :=
  let o := handleOutgoing w authz s payload to
  (o.srv, o.res.bind (fun h => h.1))

/-- through which of the two public functions an `incoming` / `outgoing` operation enters the server -/
inductive Via
  /-- `handle_incoming_packet_with_session` / `handle_outgoing_packet_with_session` -/
  | session
  /-- `handle_incoming_packet` / `handle_outgoing_packet` -/
  | plain
deriving Repr, DecidableEq

/-- what the caller of an entry point sees -/
inductive VOut (Net : Type)
  | session (o : Out Net)
  /-- `handle_incoming_packet`: `send_to_network` and the `TunnResult` -/
  | incomingPlain (net : List Net) (res : TunnResult Net)
  /-- `handle_outgoing_packet`: the packet to send, if any -/
  | outgoingPlain (res : Option Net)
deriving Repr, DecidableEq

/-- one operation of the system through the chosen entry point (operations with a single entry point – register,
advance, purge, tick – ignore the choice) -/
def stepVia (w : Wg σ Pkt Net) (s : Sys σ) : Via → Op Pkt → Sys σ × VOut Net
  | .plain, .incoming frm pkt =>
    let r := handleIncomingPlain w (s.reg.isAuthorized s.now) s.srv pkt frm
    ({ s with srv := r.1 }, .incomingPlain r.2.1 r.2.2)
  | .plain, .outgoing to payload =>
    let r := handleOutgoingPlain w (s.reg.isAuthorized s.now) s.srv payload to
    ({ s with srv := r.1 }, .outgoingPlain r.2)
  | _, op =>
    let r := step w s op
    (r.1, .session r.2)

/-- a history in which every operation names its entry point -/
def runVia (w : Wg σ Pkt Net) (s : Sys σ) (ops : List (Via × Op Pkt)) : Sys σ :=
  ops.foldl (fun s o => (stepVia w s o.1 o.2).1) s

/-- did traffic get through, as far as the caller of that entry point can tell: a decrypted payload was handed to the
SCION side (`Forwarded` / `TunnResult::WriteToTunnel`), an outbound payload was accepted (`_with_session`: `Some`),
or the wrapper returned a packet to send to the client (`handle_outgoing_packet(..)` is `Some`) -/
def VOut.flows : VOut Net → Bool
  | .session o => o.flow.isSome
  | .incomingPlain _ (.writeToTunnel _) => true
  | .outgoingPlain (some _) => true
  | _ => false

end
end ScionVerif.SnapTun
