import ScionVerif.Generated.Addr
/-!
# Model of the address / identifier text forms (property C15)

Statement-by-statement mirror, on `List Char`, of

* `sciparse/src/scion/identifier/{isd,asn,isd_asn}.rs`  (`FromStr` / `Display`),
* `sciparse/src/scion/address/{host_addr,addr,ip_addr,socket_addr,ip_socket_addr}.rs`,
* `scion-stack/src/resolver/txt.rs` (`parse_txt_payload`),

and of the pieces of `core`/`std` they call: `u16/u64::from_str`, `from_str_radix(_, 16)` (optional
leading `+`, at least one digit, overflow is an error – modelled as "value of the digit string as a
natural number, then compare with `2^bits`", which is what the checked arithmetic of `core` decides),
`{}` / `{:x}` / `{:#06x}` formatting of unsigned integers, `split_once`, `rsplit_once`, `splitn`,
`strip_prefix`, `strip_suffix`, `find`, `trim` (Unicode `White_Space`).

A Rust panic site is a distinguished result `Res.panic` so that "never panics" is a theorem:
`IsdAsn::from_str` (`expect` after counting separators), the byte slices of `parse_txt_payload`, the loop
fuel of the TXT parser.  Rust indexes strings by byte; every index the code computes is the position of
/ just after an ASCII character it has just seen, so it is a char boundary and the `List Char` model
loses nothing there.

`std::net::{Ipv4Addr, Ipv6Addr}` text is *not* part of the code under test: it is the parameter
`HostCodec`.  `stdCodec` is an executable transcription of std's parser / formatter used by the
driver; the correspondence harness validates it against std on every run.  The theorems never use it.

All numeric parameters, separator characters and name tables come from `Generated/Addr.lean`.
Core-only (no Mathlib) so that the driver links as a native executable.
-/
namespace ScionVerif.AddrText
open ScionVerif.Generated.Addr

abbrev Str := List Char

/-- `Result<T, _>` plus the observation "the code panicked" -/
inductive Res (α : Type) where
  | ok (v : α)
  | err
  | panic
deriving Repr, DecidableEq

/-! ## `str` primitives -/

/-- `str::split_once(sep)`: split at the first occurrence -/
def splitOnce (sep : Char) : Str → Option (Str × Str)
  | [] => none
  | c :: cs =>
    if c = sep then some ([], cs)
    else match splitOnce sep cs with
      | some (a, b) => some (c :: a, b)
      | none => none

/-- `str::rsplit_once(sep)`: split at the last occurrence -/
def rsplitOnce (sep : Char) (s : Str) : Option (Str × Str) :=
  match splitOnce sep s.reverse with
  | some (a, b) => some (b.reverse, a.reverse)
  | none => none

/-- `str::splitn(n, sep)` collected: at most `n` pieces, the last one holds the remainder -/
def splitN : Nat → Char → Str → List Str
  | 0, _, _ => []
  | 1, _, s => [s]
  | n + 2, sep, s =>
    match splitOnce sep s with
    | some (a, b) => a :: splitN (n + 1) sep b
    | none => [s]

/-- `str::strip_prefix` -/
def stripPrefix : Str → Str → Option Str
  | [], s => some s
  | _ :: _, [] => none
  | p :: ps, c :: cs => if p = c then stripPrefix ps cs else none

/-- `str::strip_suffix` -/
def stripSuffix (suf s : Str) : Option Str :=
  match stripPrefix suf.reverse s.reverse with
  | some r => some r.reverse
  | none => none

/-- `str::starts_with(char)` -/
def startsWith (c : Char) : Str → Bool
  | [] => false
  | x :: _ => x == c

/-- `str::find(char)` (index in characters; only used where everything before it is irrelevant) -/
def find (c : Char) : Str → Option Nat
  | [] => none
  | x :: xs => if x = c then some 0 else
    match find c xs with
    | some i => some (i + 1)
    | none => none

/-- `char::is_whitespace` (Unicode `White_Space`) -/
def isWhitespace (c : Char) : Bool :=
  let n := c.toNat
  (9 ≤ n && n ≤ 13) || n == 0x20 || n == 0x85 || n == 0xA0 || n == 0x1680 ||
  (0x2000 ≤ n && n ≤ 0x200A) || n == 0x2028 || n == 0x2029 || n == 0x202F || n == 0x205F || n == 0x3000

def trimStart (s : Str) : Str := s.dropWhile isWhitespace
def trimEnd (s : Str) : Str := (trimStart s.reverse).reverse
/-- `str::trim` -/
def trim (s : Str) : Str := trimEnd (trimStart s)

/-! ## unsigned integers: `from_str_radix` and `Display` / `LowerHex` -/

def lowerDigits : Str := ['0', '1', '2', '3', '4', '5', '6', '7', '8', '9', 'a', 'b', 'c', 'd', 'e', 'f']
def upperDigits : Str := ['0', '1', '2', '3', '4', '5', '6', '7', '8', '9', 'A', 'B', 'C', 'D', 'E', 'F']

def indexOf? (c : Char) : Str → Option Nat
  | [] => none
  | x :: xs => if x = c then some 0 else
    match indexOf? c xs with
    | some i => some (i + 1)
    | none => none

/-- `char::to_digit(radix)` for `radix ≤ 16`: decimal digits, lower- and upper-case letters -/
def digitVal (radix : Nat) (c : Char) : Option Nat :=
  match indexOf? c (lowerDigits.take radix) with
  | some d => some d
  | none => indexOf? c (upperDigits.take radix)

/-- value of a digit string, most significant digit first; `none` on a non-digit -/
def parseDigits (radix : Nat) : Str → Nat → Option Nat
  | [], acc => some acc
  | c :: cs, acc =>
    match digitVal radix c with
    | some d => parseDigits radix cs (acc * radix + d)
    | none => none

/-- the optional sign: `[b'+', rest @ ..] => rest` (for unsigned types `-` is just an invalid digit) -/
def stripPlus : Str → Str
  | [] => []
  | c :: rest => if c = '+' then rest else c :: rest

/-- `uN::from_str_radix(s, radix)` / `uN::from_str` (`radix = 10`) for `N = bits` -/
def parseUInt (radix bits : Nat) (s : Str) : Option Nat :=
  match stripPlus s with
  | [] => none                       -- `Empty`, or a lone `+` (`InvalidDigit`)
  | d :: ds =>
    match parseDigits radix (d :: ds) 0 with
    | some n => if n < 2 ^ bits then some n else none   -- `PosOverflow`
    | none => none                   -- `InvalidDigit`

def digitChar (d : Nat) : Char := lowerDigits.getD d '0'

/-- digits of `n`, most significant first (`fuel ≥ n` suffices for `radix ≥ 2`) -/
def showNatF (radix : Nat) : Nat → Nat → Str
  | 0, n => [digitChar (n % radix)]
  | fuel + 1, n =>
    if n < radix then [digitChar n]
    else showNatF radix fuel (n / radix) ++ [digitChar (n % radix)]

/-- `{}` (radix 10) and `{:x}` (radix 16) of an unsigned integer -/
def showNat (radix n : Nat) : Str := showNatF radix n n

/-- zero padding of `{:#06x}` after the `0x` -/
def padZeros (width : Nat) (s : Str) : Str := List.replicate (width - s.length) '0' ++ s

/-! ## ISD, AS, ISD-AS -/

/-- `Isd::from_str` -/
def parseIsd (s : Str) : Option Nat := parseUInt 10 ISD_BITS s

/-- `Display for Isd` -/
def showIsd (v : Nat) : Str := showNat 10 v

/-- the `try_fold` of `Asn::from_str`: `(asn_value << BITS_PER_PART) | value`, counting the parts
    (`value < 2^BITS_PER_PART`, so the `|` is a `+`) -/
def foldAsnParts : List Str → Nat × Nat → Option (Nat × Nat)
  | [], acc => some acc
  | p :: ps, (val, n) =>
    match parseUInt ASN_PART_RADIX ASN_PART_PARSE_BITS p with
    | some v => foldAsnParts ps (val * 2 ^ ASN_BITS_PER_PART + v, n + 1)
    | none => none

/-- `Asn::from_str` -/
def parseAsn (s : Str) : Option Nat :=
  match parseUInt 10 ASN_DECIMAL_PARSE_BITS s with
  | some bgp => if bgp ≤ ASN_PARSE_DECIMAL_MAX then some bgp else none
  | none =>
    match foldAsnParts (splitN ASN_NUMBER_PARTS ASN_SEP s) (0, 0) with
    | some (val, n) =>
      if n = ASN_NUMBER_PARTS then (if val ≤ ASN_MAX then some val else none)   -- `new_checked`
      else none
    | none => none

/-- the loop of `Display for Asn`: parts `i-1, …, 0`, separator after all but the last -/
def showAsnParts (v : Nat) : Nat → Str
  | 0 => []
  | i + 1 =>
    showNat 16 (v / 2 ^ (ASN_BITS_PER_PART * i) % 2 ^ 16) ++ (if i ≠ 0 then [ASN_SEP] else []) ++
      showAsnParts v i

/-- `Display for Asn` -/
def showAsn (v : Nat) : Str :=
  if v ≤ ASN_DISPLAY_DECIMAL_MAX then showNat 10 v else showAsnParts v ASN_NUMBER_PARTS

/-- `IsdAsn::new` (`asn < 2^ASN_BITS`, so the `|` is a `+`) -/
def mkIa (isd asn : Nat) : Nat := isd * 2 ^ ASN_BITS + asn

/-- `IsdAsn::from_str` -/
def parseIsdAsn (s : Str) : Res Nat :=
  if ((s.filter (· == IA_SEP)).take 2).length ≠ 1 then .err
  else
    match splitOnce IA_SEP s with
    | none => .panic     -- `.expect("already checked …")`
    | some (isdStr, asnStr) =>
      match parseIsd isdStr, parseAsn asnStr with
      | some isd, some asn => .ok (mkIa isd asn)
      | _, _ => .err

/-- `Display for IsdAsn`: `isd()` = top 16 bits, `asn()` = `Asn::new(low 48 bits)` -/
def showIsdAsn (v : Nat) : Str :=
  showIsd (v / 2 ^ ASN_BITS) ++ [IA_SEP] ++ showAsn (v % 2 ^ ASN_BITS)

/-! ## service and host addresses -/

def lookupName (tab : List (Str × Nat)) (s : Str) : Option Nat :=
  match tab with
  | [] => none
  | (n, v) :: rest => if n = s then some v else lookupName rest s

def lookupValue (tab : List (Str × Nat)) (v : Nat) : Option Str :=
  match tab with
  | [] => none
  | (n, w) :: rest => if w = v then some n else lookupValue rest v

/-- `(self.0 & MULTICAST_FLAG) == MULTICAST_FLAG` (the flag is one bit) -/
def isMulticast (v : Nat) : Bool := v / SVC_MULTICAST_FLAG % 2 == 1
/-- `self.0 | MULTICAST_FLAG` -/
def toMulticast (v : Nat) : Nat := if isMulticast v then v else v + SVC_MULTICAST_FLAG
/-- `self.0 & !MULTICAST_FLAG` -/
def toAnycast (v : Nat) : Nat := if isMulticast v then v - SVC_MULTICAST_FLAG else v

/-- `s.split_once('_').unwrap_or((s, "A"))` -/
def splitSvcSuffix (s : Str) : Str × Str :=
  match splitOnce SVC_SUFFIX_SEP s with
  | some p => p
  | none => (s, SVC_SUFFIX_ANYCAST)

/-- the `match service { … }` of `ServiceAddr::from_str`: a well-known name, or the numeric form
    `<SVC:0x....>` that `Display` prints (multicast flag not allowed inside the number) -/
def parseSvcBase (service : Str) : Option Nat :=
  match lookupName SVC_PARSE_NAMES service with
  | some v => some v
  | none =>
    match stripPrefix SVC_PARSE_HEX_OPEN service with
    | none => none
    | some rest =>
      match stripSuffix SVC_PARSE_HEX_CLOSE rest with
      | none => none
      | some hex =>
        match parseUInt SVC_PARSE_HEX_RADIX SVC_PARSE_HEX_BITS hex with
        | none => none
        | some value => if isMulticast value then none else some value

/-- `ServiceAddr::from_str` -/
def parseSvc (s : Str) : Option Nat :=
  match parseSvcBase (splitSvcSuffix s).1 with
  | none => none
  | some a =>
    if (splitSvcSuffix s).2 = SVC_SUFFIX_ANYCAST then some a
    else if (splitSvcSuffix s).2 = SVC_SUFFIX_MULTICAST then some (toMulticast a)
    else none

/-- the `match self.to_anycast() { … }` of `Display for ServiceAddr` -/
def showSvcBase (a : Nat) : Str :=
  match lookupValue SVC_SHOW_NAMES a with
  | some name => name
  | none => SVC_HEX_OPEN ++ padZeros SVC_HEX_WIDTH (showNat 16 a) ++ SVC_HEX_CLOSE

/-- `Display for ServiceAddr` -/
def showSvc (v : Nat) : Str :=
  showSvcBase (toAnycast v) ++ (if isMulticast v then SVC_SUFFIX_SEP :: SVC_SUFFIX_MULTICAST else [])

/-- `ScionHostAddr`; IPv4 / IPv6 addresses as their 32 / 128-bit values -/
inductive Host where
  | v4 (a : Nat)
  | v6 (a : Nat)
  | svc (v : Nat)
deriving Repr, DecidableEq

/-- text codec of `std::net::Ipv4Addr` / `Ipv6Addr` (`FromStr`, `Display`) – a parameter -/
structure HostCodec where
  parse4 : Str → Option Nat
  show4 : Nat → Str
  parse6 : Str → Option Nat
  show6 : Nat → Str

/-- `ScionHostAddr::from_str`: IPv4, then IPv6, then service -/
def parseHost (C : HostCodec) (s : Str) : Option Host :=
  match C.parse4 s with
  | some a => some (.v4 a)
  | none =>
    match C.parse6 s with
    | some a => some (.v6 a)
    | none =>
      match parseSvc s with
      | some v => some (.svc v)
      | none => none

/-- `IpAddr::from_str` (std: IPv4, then IPv6) -/
def parseIp (C : HostCodec) (s : Str) : Option Host :=
  match C.parse4 s with
  | some a => some (.v4 a)
  | none =>
    match C.parse6 s with
    | some a => some (.v6 a)
    | none => none

/-- `Display for ScionHostAddr` -/
def showHost (C : HostCodec) : Host → Str
  | .v4 a => C.show4 a
  | .v6 a => C.show6 a
  | .svc v => showSvc v

/-! ## SCION address `ia,host` -/

/-- `ScionAddr` / `ScionIpAddr` (the enum of structs is flattened) -/
structure ScionAddr where
  ia : Nat
  host : Host
deriving Repr, DecidableEq

/-- `parse_scion_addr::<T>` -/
def parseScionAddrT {α : Type} (ph : Str → Option α) (s : Str) : Res (Nat × α) :=
  match splitN 2 ADDR_SEP s with
  | [iaStr, hostStr] =>
    match parseIsdAsn iaStr with
    | .ok ia =>
      match ph hostStr with
      | some h => .ok (ia, h)
      | none => .err
    | .err => .err
    | .panic => .panic
  | _ => .err

/-- `ScionAddr::from_str`: service, then IPv4, then IPv6 -/
def parseScionAddr (C : HostCodec) (s : Str) : Res ScionAddr :=
  match parseScionAddrT parseSvc s with
  | .ok (ia, v) => .ok ⟨ia, .svc v⟩
  | .panic => .panic
  | .err =>
    match parseScionAddrT C.parse4 s with
    | .ok (ia, a) => .ok ⟨ia, .v4 a⟩
    | .panic => .panic
    | .err =>
      match parseScionAddrT C.parse6 s with
      | .ok (ia, a) => .ok ⟨ia, .v6 a⟩
      | .panic => .panic
      | .err => .err

/-- `ScionIpAddr::from_str`: IPv4, then IPv6 -/
def parseScionIpAddr (C : HostCodec) (s : Str) : Res ScionAddr :=
  match parseScionAddrT C.parse4 s with
  | .ok (ia, a) => .ok ⟨ia, .v4 a⟩
  | .panic => .panic
  | .err =>
    match parseScionAddrT C.parse6 s with
    | .ok (ia, a) => .ok ⟨ia, .v6 a⟩
    | .panic => .panic
    | .err => .err

/-- `format_scion_addr` -/
def showScionAddr (C : HostCodec) (a : ScionAddr) : Str :=
  showIsdAsn a.ia ++ [ADDR_SEP] ++ showHost C a.host

/-! ## SCION socket address `[ia,host]:port` -/

structure SocketAddr where
  ia : Nat
  host : Host
  port : Nat
deriving Repr, DecidableEq

/-- `parse_socket_addr::<T>` (bracket test by `strip_prefix('[')` / `strip_suffix(']')`) -/
def parseSocketT {α : Type} (pa : Str → Res (Nat × α)) (s : Str) : Res ((Nat × α) × Nat) :=
  match rsplitOnce PORT_SEP s with
  | none => .err
  | some (bracketed, portStr) =>
    match stripPrefix [SOCK_OPEN] bracketed with
    | none => .err
    | some r =>
      match stripSuffix [SOCK_CLOSE] r with
      | none => .err
      | some inner =>
        match pa inner with
        | .ok a =>
          match parseUInt 10 PORT_BITS portStr with
          | some p => .ok (a, p)
          | none => .err
        | .err => .err
        | .panic => .panic

/-- `ScionSocketAddr::from_str`: service, then IPv4, then IPv6 -/
def parseSocketAddr (C : HostCodec) (s : Str) : Res SocketAddr :=
  match parseSocketT (parseScionAddrT parseSvc) s with
  | .ok ((ia, v), p) => .ok ⟨ia, .svc v, p⟩
  | .panic => .panic
  | .err =>
    match parseSocketT (parseScionAddrT C.parse4) s with
    | .ok ((ia, a), p) => .ok ⟨ia, .v4 a, p⟩
    | .panic => .panic
    | .err =>
      match parseSocketT (parseScionAddrT C.parse6) s with
      | .ok ((ia, a), p) => .ok ⟨ia, .v6 a, p⟩
      | .panic => .panic
      | .err => .err

/-- `ScionSocketIpAddr::from_str`: IPv4, then IPv6 -/
def parseSocketIpAddr (C : HostCodec) (s : Str) : Res SocketAddr :=
  match parseSocketT (parseScionAddrT C.parse4) s with
  | .ok ((ia, a), p) => .ok ⟨ia, .v4 a, p⟩
  | .panic => .panic
  | .err =>
    match parseSocketT (parseScionAddrT C.parse6) s with
    | .ok ((ia, a), p) => .ok ⟨ia, .v6 a, p⟩
    | .panic => .panic
    | .err => .err

/-- `format_socket_addr` -/
def showSocketAddr (C : HostCodec) (a : SocketAddr) : Str :=
  [SOCK_OPEN] ++ showIsdAsn a.ia ++ [ADDR_SEP] ++ showHost C a.host ++ [SOCK_CLOSE] ++ [PORT_SEP] ++
    showNat 10 a.port

/-! ## DNS TXT payload (`parse_txt_payload`) -/

/-- the `while` loop of `parse_txt_payload`; `fuel` bounds the iterations (every iteration consumes at
    least the `[`), running out of fuel is reported as `panic` and proved unreachable. -/
def parseTxtLoop (C : HostCodec) : Nat → Str → Res (List ScionAddr)
  | 0, _ => .panic
  | fuel + 1, remaining =>
    if !startsWith TXT_OPEN remaining then .err            -- ExpectedOpenBracket
    else
      match find TXT_CLOSE remaining with
      | none => .err                                       -- MissingCloseBracket
      | some closeIdx =>
        if closeIdx < 1 then .panic                        -- `remaining[1..close_idx]`
        else
          let entry := trim ((remaining.take closeIdx).drop 1)
          let rest := trim (remaining.drop (closeIdx + 1))
          match splitOnce TXT_ENTRY_SEP entry with
          | none => .err                                   -- MissingSeparator
          | some (iaStr, hostStr) =>
            match parseIsdAsn (trim iaStr) with
            | .panic => .panic
            | .err => .err
            | .ok ia =>
              match parseIp C (trim hostStr) with
              | none => .err
              | some h =>
                if rest.isEmpty then .ok [⟨ia, h⟩]
                else if !startsWith TXT_LIST_SEP rest then .err    -- ExpectedComma
                else
                  let remaining' := trim (rest.drop 1)
                  if remaining'.isEmpty then .err          -- nothing after the separator
                  else
                    match parseTxtLoop C fuel remaining' with
                    | .ok more => .ok (⟨ia, h⟩ :: more)
                    | .err => .err
                    | .panic => .panic

/-- `parse_txt_payload` -/
def parseTxt (C : HostCodec) (payload : Str) : Res (List ScionAddr) :=
  let remaining := trim payload
  if remaining.isEmpty then .err                           -- MissingAddressList
  else parseTxtLoop C (remaining.length + 1) remaining

/-- the record grammar of the module documentation: `address *( "," address )`,
    `address = "[" isd-as "," host "]"` -/
def showTxtEntry (C : HostCodec) (a : ScionAddr) : Str :=
  [TXT_OPEN] ++ showIsdAsn a.ia ++ [TXT_ENTRY_SEP] ++ showHost C a.host ++ [TXT_CLOSE]

def showTxt (C : HostCodec) : List ScionAddr → Str
  | [] => []
  | [a] => showTxtEntry C a
  | a :: b :: rest => showTxtEntry C a ++ [TXT_LIST_SEP] ++ showTxt C (b :: rest)

/-! ## DNS TXT record layer (`txt_record_to_string`, the loop of `ScionTxtDnsResolver::resolve` after the
lookup, `resolve_txt_records_with_invalid`)

A TXT resource record is a list of character-strings (byte strings of at most 255 bytes on the wire).  The
code concatenates them with no separator and decodes the bytes with the *strict* `String::from_utf8`
(`TXT_UTF8_STRICT`, extracted).  `String::from_utf8` is std's and enters as the parameter `Utf8Codec`
(the driver instantiates it with Lean's own UTF-8 validator; the harness compares that with std's on
every input).  Bytes are natural numbers. -/

/-- `String::from_utf8` / `str::as_bytes` – a parameter -/
structure Utf8Codec where
  decode : List Nat → Option Str
  encode : Str → List Nat

/-- one TXT resource record: its character-strings -/
abbrev TxtRR := List (List Nat)

/-- `txt_record_to_string`: `txt_data().iter().flat_map(|chunk| chunk.iter())` then `String::from_utf8`;
    `none` is the `InvalidEntry::new("<invalid-utf8>", …)` -/
def txtRecordToString (U : Utf8Codec) (rr : TxtRR) : Option Str := U.decode rr.flatten

/-- the `for txt in lookup.iter()` loop of `resolve`: `(txt_records, invalid_entries)`; an invalid entry
    is represented by its `raw` text -/
def collectTxtRecords (U : Utf8Codec) : List TxtRR → List Str × List Str
  | [] => ([], [])
  | rr :: rest =>
    match txtRecordToString U rr with
    | some s => (s :: (collectTxtRecords U rest).1, (collectTxtRecords U rest).2)
    | none => ((collectTxtRecords U rest).1, TXT_INVALID_UTF8_RAW :: (collectTxtRecords U rest).2)

/-- outcome of the record level: `Ok(valid)`, `Err(NoValidEntries { invalid_entries })` (raw texts), or
    a panic -/
inductive TxtResolved where
  | ok (addrs : List ScionAddr)
  | noValid (invalid : List Str)
  | panic
deriving Repr, DecidableEq

/-- the `for record in records` loop of `resolve_txt_records_with_invalid` with its two accumulators;
    `none` = a panic inside `parse_txt_payload` -/
def resolveTxtLoop (C : HostCodec) : List Str → List ScionAddr → List Str → Option (List ScionAddr × List Str)
  | [], valid, invalid => some (valid, invalid)
  | record :: rest, valid, invalid =>
    match stripPrefix TXT_PREFIX record with
    | none => resolveTxtLoop C rest valid invalid                   -- `else { continue }`
    | some payload =>
      match parseTxt C payload with
      | .ok addresses => resolveTxtLoop C rest (valid ++ addresses) invalid
      | .err => resolveTxtLoop C rest valid (invalid ++ [record])   -- `InvalidEntry::new(record, …)`
      | .panic => none

/-- `resolve_txt_records_with_invalid` (the `tracing::info!` of ignored entries is not observable) -/
def resolveTxtRecords (C : HostCodec) (records : List Str) (invalid : List Str) : TxtResolved :=
  match resolveTxtLoop C records [] invalid with
  | none => .panic
  | some (valid, invalid') => if valid.isEmpty then .noValid invalid' else .ok valid

/-- `ScionTxtDnsResolver::resolve` after the DNS lookup (no override for the domain) -/
def resolveTxtRRs (C : HostCodec) (U : Utf8Codec) (rrs : List TxtRR) : TxtResolved :=
  resolveTxtRecords C (collectTxtRecords U rrs).1 (collectTxtRecords U rrs).2

/-! ## the socket-address splitter as it was before the repair (kept for the witness theorems)

`if !bracketed_addr.starts_with('[') && bracketed_addr.ends_with(']') { return None; }` followed by
`bracketed_addr[1..bracketed_addr.len() - 1]`: the test only rejects "no `[` but a `]`", and the slice
panics for an empty or one-character prefix (and, in bytes, inside a multi-byte character). -/
def parseSocketLegacyT {α : Type} (pa : Str → Res (Nat × α)) (s : Str) : Res ((Nat × α) × Nat) :=
  match rsplitOnce PORT_SEP s with
  | none => .err
  | some (bracketed, portStr) =>
    if !startsWith SOCK_OPEN bracketed && startsWith SOCK_CLOSE bracketed.reverse then .err
    else if bracketed.length < 1 then .panic               -- `len() - 1` underflows
    else if bracketed.length - 1 < 1 then .panic           -- slice start 1 > end 0
    else
      let inner := (bracketed.take (bracketed.length - 1)).drop 1
      match pa inner with
      | .ok a =>
        match parseUInt 10 PORT_BITS portStr with
        | some p => .ok (a, p)
        | none => .err
      | .err => .err
      | .panic => .panic

/-! ## executable transcription of std's IPv4 / IPv6 text codec (driver only; validated by the harness) -/
namespace StdNet

/-- greedy run of digits in `radix` -/
def spanDigits (radix : Nat) : Str → List Nat × Str
  | [] => ([], [])
  | c :: cs =>
    match digitVal radix c with
    | some d => let (ds, rest) := spanDigits radix cs; (d :: ds, rest)
    | none => ([], c :: cs)

/-- `Parser::read_number(radix, Some(max_digits), allow_zero_prefix)` into a type with maximum `maxVal` -/
def readNumber (radix maxDigits : Nat) (allowZeroPrefix : Bool) (maxVal : Nat) (s : Str) : Option (Nat × Str) :=
  let (ds, rest) := spanDigits radix s
  if ds.length = 0 || ds.length > maxDigits then none
  else if !allowZeroPrefix && ds.head? == some 0 && ds.length > 1 then none
  else
    let v := ds.foldl (fun acc d => acc * radix + d) 0
    if v > maxVal then none else some (v, rest)

def expectChar (c : Char) : Str → Option Str
  | [] => none
  | x :: xs => if x = c then some xs else none

/-- `Parser::read_ipv4_addr` -/
def readIpv4 (s : Str) : Option (Nat × Str) :=
  match readNumber 10 3 false 255 s with
  | none => none
  | some (a, s1) =>
    match expectChar '.' s1 with
    | none => none
    | some s1 =>
      match readNumber 10 3 false 255 s1 with
      | none => none
      | some (b, s2) =>
        match expectChar '.' s2 with
        | none => none
        | some s2 =>
          match readNumber 10 3 false 255 s2 with
          | none => none
          | some (c, s3) =>
            match expectChar '.' s3 with
            | none => none
            | some s3 =>
              match readNumber 10 3 false 255 s3 with
              | none => none
              | some (d, s4) => some (((a * 256 + b) * 256 + c) * 256 + d, s4)

/-- `Ipv4Addr::from_str` -/
def parse4 (s : Str) : Option Nat :=
  match readIpv4 s with
  | some (v, []) => some v
  | _ => none

/-- `Display for Ipv4Addr` -/
def show4 (a : Nat) : Str :=
  showNat 10 (a / 2 ^ 24 % 256) ++ ['.'] ++ showNat 10 (a / 2 ^ 16 % 256) ++ ['.'] ++
    showNat 10 (a / 2 ^ 8 % 256) ++ ['.'] ++ showNat 10 (a % 256)

/-- `read_groups` inside `Parser::read_ipv6_addr`; `fuel = limit - i` -/
def readGroups (limit : Nat) : Nat → Nat → Str → List Nat → List Nat × Bool × Str
  | 0, _, s, acc => (acc, false, s)
  | fuel + 1, i, s, acc =>
    let afterSep : Option Str := if i = 0 then some s else expectChar ':' s
    match afterSep with
    | none => (acc, false, s)
    | some s1 =>
      match (if i + 1 < limit then readIpv4 s1 else none) with
      | some (a, rest) => (acc ++ [a / 65536, a % 65536], true, rest)
      | none =>
        match readNumber 16 4 true 65535 s1 with
        | some (g, rest) => readGroups limit fuel (i + 1) rest (acc ++ [g])
        | none => (acc, false, s)

def groupsVal (gs : List Nat) : Nat := gs.foldl (fun acc g => acc * 65536 + g) 0

/-- `Parser::read_ipv6_addr` -/
def readIpv6 (s : Str) : Option (Nat × Str) :=
  let (head, headV4, s1) := readGroups 8 8 0 s []
  if head.length = 8 then some (groupsVal head, s1)
  else if headV4 then none
  else
    match s1 with
    | ':' :: ':' :: s2 =>
      let limit := 8 - (head.length + 1)
      let (tail, _, s3) := readGroups limit limit 0 s2 []
      some (groupsVal (head ++ List.replicate (8 - head.length - tail.length) 0 ++ tail), s3)
    | _ => none

/-- `Ipv6Addr::from_str` -/
def parse6 (s : Str) : Option Nat :=
  match readIpv6 s with
  | some (v, []) => some v
  | _ => none

def groupsOf (a : Nat) : List Nat := (List.range 8).map (fun i => a / 65536 ^ (7 - i) % 65536)

/-- the longest run of zero groups (first one on ties): `(start, len)` -/
def longestZeroRun (gs : List Nat) : Nat × Nat :=
  let step := fun (st : (Nat × Nat) × (Nat × Nat) × Nat) (g : Nat) =>
    let (longest, current, i) := st
    if g = 0 then
      let cur : Nat × Nat := (if current.2 = 0 then i else current.1, current.2 + 1)
      (if cur.2 > longest.2 then cur else longest, cur, i + 1)
    else (longest, (0, 0), i + 1)
  (gs.foldl step ((0, 0), (0, 0), 0)).1

def fmtGroups (gs : List Nat) : Str :=
  match gs with
  | [] => []
  | [g] => showNat 16 g
  | g :: rest => showNat 16 g ++ [':'] ++ fmtGroups rest

/-- `Display for Ipv6Addr` -/
def show6 (a : Nat) : Str :=
  let gs := groupsOf a
  if gs.take 5 = [0, 0, 0, 0, 0] ∧ gs.getD 5 0 = 0xffff then
    [':', ':', 'f', 'f', 'f', 'f', ':'] ++ show4 (a % 2 ^ 32)
  else
    let (start, len) := longestZeroRun gs
    if len > 1 then fmtGroups (gs.take start) ++ [':', ':'] ++ fmtGroups (gs.drop (start + len))
    else fmtGroups gs

end StdNet

/-- std's codec, executable (used by the driver; never by the theorems) -/
def stdCodec : HostCodec := ⟨StdNet.parse4, StdNet.show4, StdNet.parse6, StdNet.show6⟩

end ScionVerif.AddrText
