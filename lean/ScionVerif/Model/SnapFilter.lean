import ScionVerif.Generated.SnapFilter
import ScionVerif.Model.Scmp
/-!
# Model of the SNAP ingress filter (C08)

Statement-by-statement mirror of
* `sciparse/src/proto/header/layout.rs`  `ScionHeaderLayout::try_from_slice` → `headerLayout`
* `sciparse/src/proto/packet/view.rs`    `ScionRawPacketView::has_required_size` / `View::try_from_slice` → `packetView`
* `sciparse/src/proto/header/view.rs`    `header()`, `src_addr_type()`, `src_host_addr_range()`, `src_host_addr()`,
                                         `path_type()` → `headerFields`
* `sciparse/src/scion/address/host_addr.rs` `WireHostAddr::try_from_parts`, `ip()` → `hostIp`
* `snap-dataplane/src/tunnel_gateway/packet_policy.rs` `inbound_datagram_check` → `inboundCheck`
* `snap-dataplane/src/tunnel_gateway/gateway.rs` `create_inbound_scmp_error`, `create_scmp_error` and the
  `Forwarded` arm of the receive closure → `rejection`, `encodeReply`, `gatewayStep`.

Every *unchecked* read / slice of the Rust code (`unchecked_bit_range_be_read`, `get_unchecked`, `split_at_unchecked`)
is preceded here by an explicit bounds test that yields `panic` (standing for out-of-bounds access / UB), and every
checked slice (`&buf[a..]`) by one that yields `panic` (a real Rust panic), so that "no datagram makes the gateway
panic" is the theorem `inboundCheck d ip ≠ .panic`.

Self-contained byte-level reader (`Scmp.readBits`); does not depend on Model/Bits or Model/Layout.
-/
namespace ScionVerif.SnapFilter
open ScionVerif.Generated.SnapFilter
open ScionVerif.Scmp (Bytes byteAt readBits byteEnd AddrHdr)

/-- `std::net::IpAddr`, by its octets (4 resp. 16 of them for a well-formed value) -/
inductive Ip
  | v4 (octets : Bytes)
  | v6 (octets : Bytes)
deriving Repr, DecidableEq

def Ip.wf : Ip → Prop
  | .v4 o => o.length = 4
  | .v6 o => o.length = 16

/-- `at:` of `LayoutParseError::BufferTooSmall` -/
inductive Where
  | commonHeader | addressHeader | pathMeta | path | totalHeader
deriving Repr, DecidableEq

/-- `LayoutParseError` (= the `ViewConversionError` it is converted to) -/
inductive ParseErr
  | tooSmall (at_ : Where) (required actual : Nat)
  | unsupportedVersion
  | invalidHeaderLength
deriving Repr, DecidableEq

/-- result of code that contains unchecked accesses -/
inductive R (α : Type)
  | ok (a : α)
  | err (e : ParseErr)
  | panic
deriving Repr

/-- read bit range `r` through a view that covers `b[..limit]` -/
def rd {α : Type} (b : Bytes) (limit : Nat) (r : Nat × Nat) (k : Nat → R α) : R α :=
  if byteEnd r ≤ limit ∧ limit ≤ b.length then k (readBits b r) else .panic

/-- `WireHostAddrType::from(nibble)`: (kind, size, unknown id) -/
def addrEntry (nib : Nat) : Nat × Nat × Nat := ADDR_TYPE_TABLE.getD nib (3, 0, 0)
def addrKind (nib : Nat) : Nat := (addrEntry nib).1
def addrSize (nib : Nat) : Nat := (addrEntry nib).2.1

/-- the part of `ScionHeaderLayout` the filter uses -/
structure Layout where
  srcNib : Nat
  dstNib : Nat
  pathType : Nat
  pathLen : Nat
  headerLen : Nat
  payloadLen : Nat
deriving Repr, DecidableEq

def Layout.srcLen (l : Layout) : Nat := addrSize l.srcNib
def Layout.dstLen (l : Layout) : Nat := addrSize l.dstNib
/-- `addr_header_end` -/
def addrEnd (srcNib dstNib : Nat) : Nat := COMMON_SIZE + (ADDR_FIXED_SIZE + addrSize dstNib + addrSize srcNib)

def nz (n : Nat) : Nat := if n > 0 then 1 else 0

/-- `StdPathMetaLayout.size_bytes() + StdPathDataLayout::new(s0,s1,s2).size_bytes()` -/
def stdPathLen (s0 s1 s2 : Nat) : Nat :=
  PATH_META_SIZE + ((nz s0 + nz s1 + nz s2) * INFO_FIELD_SIZE + (s0 + s1 + s2) * HOP_FIELD_SIZE)

/-- the `match path_type` of `try_from_slice`: byte size of the path part -/
def pathLayout (b : Bytes) (pt ae total : Nat) : R Nat :=
  if pt = PT_SCION then
    -- `&buf[addr_header_end..]` (checked slice; `ae ≤ len` was tested before) + `split_off_checked`
    if b.length < ae then .panic else
    if b.length - ae < PATH_META_SIZE then .err (.tooSmall .pathMeta PATH_META_SIZE (b.length - ae)) else
    let m := b.drop ae
    rd m PATH_META_SIZE SEG0_LEN_RNG fun s0 =>
    rd m PATH_META_SIZE SEG1_LEN_RNG fun s1 =>
    rd m PATH_META_SIZE SEG2_LEN_RNG fun s2 =>
    .ok (stdPathLen s0 s1 s2)
  else if pt = PT_ONEHOP then .ok ONEHOP_PATH_SIZE
  else if pt = PT_EMPTY then .ok 0
  else
    if total < ae then .err (.tooSmall .path (ae * 8) (total * 8))
    else .ok (total - ae)   -- `BitRange(ae*8 .. total*8).size_bytes()`

/-- `ScionHeaderLayout::try_from_slice` -/
def headerLayout (b : Bytes) : R Layout :=
  if b.length < COMMON_SIZE then .err (.tooSmall .commonHeader COMMON_SIZE b.length) else
  rd b COMMON_SIZE VERSION_RNG fun ver =>
  if ver ≠ 0 then .err .unsupportedVersion else
  rd b COMMON_SIZE PATH_TYPE_RNG fun pt =>
  rd b COMMON_SIZE SRC_ADDR_INFO_RNG fun sn =>
  rd b COMMON_SIZE DST_ADDR_INFO_RNG fun dn =>
  rd b COMMON_SIZE HEADER_LEN_RNG fun hl =>
  rd b COMMON_SIZE PAYLOAD_LEN_RNG fun pl =>
  let total := hl * HEADER_LEN_UNIT
  let ae := addrEnd sn dn
  if b.length < ae then .err (.tooSmall .addressHeader ae b.length) else
  match pathLayout b pt ae total with
  | .panic => .panic
  | .err e => .err e
  | .ok plen =>
    let calculated := ae + plen
    if calculated > b.length then .err (.tooSmall .totalHeader calculated b.length) else
    if calculated ≠ total then .err .invalidHeaderLength else
    .ok { srcNib := sn, dstNib := dn, pathType := pt, pathLen := plen, headerLen := total, payloadLen := pl }

/-- `ScionRawPacketView::try_from_slice`: the view is the first `min(header_len + payload_len, len)` bytes -/
def packetView (b : Bytes) : R Bytes :=
  match headerLayout b with
  | .panic => .panic
  | .err e => .err e
  | .ok l =>
    let size := min (l.headerLen + l.payloadLen) b.length
    if b.length < size then .panic else .ok (b.take size)   -- `split_at_unchecked(size)`

/-- what the policy reads through `view.header()`: (source nibble, raw source host bytes, byte offset of the
    source host address, path type).  `header()` re-reads `HdrLen` and slices `..header_len` unchecked;
    `src_host_addr()` slices the address bytes unchecked. -/
def headerFields (view : Bytes) : R (Nat × Bytes × Nat × Nat) :=
  rd view COMMON_SIZE HEADER_LEN_RNG fun hl =>
  let hlen := hl * HEADER_LEN_UNIT
  if view.length < hlen then .panic else
  let hv := view.take hlen
  rd hv COMMON_SIZE SRC_ADDR_INFO_RNG fun sn =>
  rd hv COMMON_SIZE DST_ADDR_INFO_RNG fun dn =>
  rd hv COMMON_SIZE PATH_TYPE_RNG fun pt =>
  let start := COMMON_SIZE + (ADDR_FIXED_SIZE + addrSize dn)
  let stop := start + addrSize sn
  if hv.length < stop then .panic else
  .ok (sn, (hv.drop start).take (addrSize sn), start, pt)

/-- `WireHostAddr::try_from_parts(type, raw)` followed by `.ok().and_then(|w| w.ip())` -/
def hostIp (nib : Nat) (raw : Bytes) : Option Ip :=
  let kind := addrKind nib
  if kind = 0 then (if raw.length = EXPECTED_ADDR_LEN.getD 0 0 then some (.v4 raw) else none)
  else if kind = 1 then (if raw.length = EXPECTED_ADDR_LEN.getD 1 0 then some (.v6 raw) else none)
  else none

/-- outcome of `inbound_datagram_check` -/
inductive Verdict
  | dispatch (view : Bytes)
  | malformed (e : ParseErr)
  | badSource (view : Bytes) (srcOff : Nat)
  | badPathType (view : Bytes) (pt : Nat)
  | panic
deriving Repr

/-- `inbound_datagram_check(datagram, expected_ip)` -/
def inboundCheck (d : Bytes) (peer : Ip) : Verdict :=
  match packetView d with
  | .panic => .panic
  | .err e => .malformed e
  | .ok view =>
    match headerFields view with
    | .panic => .panic
    | .err _ => .panic
    | .ok (sn, raw, srcOff, pt) =>
      match hostIp sn raw with
      | none => .badSource view srcOff
      | some ip =>
        if ip ≠ peer then .badSource view srcOff
        else if pt ∈ ACCEPTED_PATH_TYPES then .dispatch view
        else .badPathType view pt

/-- `create_inbound_scmp_error`: (parameter-problem code, pointer, offending packet) -/
def rejection (v : Verdict) (d : Bytes) : Option (Nat × Nat × Bytes) :=
  match v with
  | .malformed _ => some (CODE_MALFORMED, 0, d)
  | .badSource view off => some (CODE_BAD_SOURCE, off % 65536, view)
  | .badPathType view _ => some (CODE_BAD_PATH_TYPE, PATH_TYPE_RNG.1 / 8 % 65536, view)
  | _ => none

/-- wire nibble and bytes of `ScionHostAddr::from(ip)` -/
def Ip.nibble : Ip → Nat
  | .v4 _ => NIBBLE_IPV4
  | .v6 _ => NIBBLE_IPV6
def Ip.octets : Ip → Bytes
  | .v4 o => o
  | .v6 o => o

/-- address header of the reply: `ScionAddr::new(WILDCARD, local)` → `ScionAddr::new(WILDCARD, peer)` -/
def replyAddr (localIp peer : Ip) : AddrHdr :=
  { dstIa := 0, srcIa := 0, dstNib := peer.nibble, srcNib := localIp.nibble, dstHost := peer.octets, srcHost := localIp.octets }

inductive EncErr
  | invalidStructure
  | bufferTooSmall (required : Nat)
deriving Repr, DecidableEq

/-- `create_scmp_error(err, local, dst, &mut buf)` with `buf.len() = PACKET_BUF_SIZE`
    (`ScionScmpPacket::new(.., DpPath::Empty, ParameterProblem).try_encode(buf)`, truncated to the returned length) -/
def encodeReply (code pointer : Nat) (offending : Bytes) (localIp peer : Ip) : Except EncErr Bytes :=
  let a := replyAddr localIp peer
  let hdr := Scmp.headerSize a []
  if hdr % 4 ≠ 0 ∨ hdr > MAX_HEADER_SIZE then .error .invalidStructure else
  let msg := Scmp.encodeError (.paramProblem code pointer) offending a hdr
  let required := hdr + msg.length
  if PACKET_BUF_SIZE < required then .error (.bufferTooSmall required) else
  .ok (Scmp.encodeHeader 0 0 Generated.Scmp.PROTO_SCMP a PT_EMPTY [] (msg.length % 65536) ++ msg)

/-- what the gateway does with one datagram that came out of a client's tunnel -/
structure Outcome where
  dispatched : List Bytes := []
  replies : List Bytes := []
  encodeFailed : Bool := false
  panicked : Bool := false
deriving Repr

/-- the `HandleIncomingPacketResult::Forwarded` arm of the receive closure of `TunnelGateway::start_server`
    (gateway.rs, `match inbound_datagram_check(&packet[..], from.ip()) { Ok(view) => .. try_dispatch(view) | Err(e) =>
    .. create_scmp_error(e, local_addr, (WILDCARD, from.ip()), buf) .. }`): `d` = the decrypted tunnel payload `packet`,
    `peer` = `from.ip()`, `localIp` = `socket.local_addr().ip()` (fallback `0.0.0.0`).  Not modelled: the observer call,
    the WireGuard encapsulation of the reply and the batched send.  Tied to the real closure by the generated
    `GATEWAY_*` facts (`gateway_glue_generated`) and by the harness stream "gateway", which runs the real
    `start_server` over loop-back UDP with a real WireGuard client and compares the bytes handed to
    `Dispatcher::try_dispatch` / the decrypted replies with this function. -/
def gatewayStep (d : Bytes) (peer localIp : Ip) : Outcome :=
  match inboundCheck d peer with
  | .dispatch view => { dispatched := [view] }
  | .panic => { panicked := true }
  | v =>
    match rejection v d with
    | none => {}
    | some (code, ptr, off) =>
      match encodeReply code ptr off localIp peer with
      | .ok r => { replies := [r] }
      | .error _ => { encodeFailed := true }

end ScionVerif.SnapFilter
