import ScionVerif.Model.SnapFilter
/-!
# Model of SCMP *handling* (C14, second half; construction is in `Model/Scmp.lean`)

Mirrors
* `scion-stack/src/stack/scmp_handler/echo.rs`  `DefaultEchoHandler::{try_echo_reply, handle}` → `echoHandle`
* `scion-stack/src/stack/scmp_handler/error.rs` `ScmpErrorHandler::handle` → `errorHandle`
* `scion-stack/src/stack/socket.rs` the receive loop of `recv_from` / `recv_from_with_path` (dispatch by `next_header`,
  handlers in order, replies encoded and `try_send`-ed, UDP validation) → `recvOne`, `recvAll`
* `pocketscion/src/network/local/simulator.rs` `maybe_create_scmp_reply`, `handle_scmp` → `simMaybeReply`, `simHandleScmp`
* the views they go through: `ScionRawPacketView::try_from_slice` (via `SnapFilter.headerLayout`), `try_as_scmp`,
  `ScmpMessageLayout::try_from_slice`, `ScmpPayloadView::message`, `is_error`, `try_as_udp`, `UdpDatagramView`.

Path reversal (`DpPath::try_reverse`, property C12) is a *parameter* `rev : pathType → pathBytes → Option (pathType × pathBytes)`.
Core-only.
-/
namespace ScionVerif.Scmp
open ScionVerif.Generated.Scmp

/-- reversal oracle: `none` = `try_reverse` fails -/
abbrev Rev := Nat → Bytes → Option (Nat × Bytes)

/-- what a `ScionRawPacketView` exposes -/
structure Pkt where
  tc : Nat
  flow : Nat
  nextHdr : Nat
  addr : AddrHdr
  pathType : Nat
  path : Bytes
  /-- `payload()`: the bytes after the header, at most `PayloadLen` of them -/
  payload : Bytes
deriving Repr, DecidableEq

/-- `ScionRawPacketView::try_from_slice(b)` and its accessors; `none` = does not decode (such byte strings are
    never handed out by an underlay) -/
def parsePkt (b : Bytes) : Option Pkt :=
  match SnapFilter.headerLayout b with
  | .ok l =>
    let dl := SnapFilter.addrSize l.dstNib
    let sl := SnapFilter.addrSize l.srcNib
    let view := b.take (min (l.headerLen + l.payloadLen) b.length)
    some {
      tc := readBits b Generated.SnapFilter.TRAFFIC_CLASS_RNG
      flow := readBits b Generated.SnapFilter.FLOW_ID_RNG
      nextHdr := readBits b Generated.SnapFilter.NEXT_HEADER_RNG
      addr := { dstIa := beRead b 12 8, srcIa := beRead b 20 8, dstNib := l.dstNib, srcNib := l.srcNib,
                dstHost := (b.drop 28).take dl, srcHost := (b.drop (28 + dl)).take sl }
      pathType := l.pathType
      path := (b.drop (28 + dl + sl)).take l.pathLen
      payload := view.drop l.headerLen }
  | _ => none

/-! ## SCMP messages as parsed by `ScmpPayloadView` -/

inductive Msg
  | error (k : ErrKind) (quote : Bytes)
  | echoRequest (ident seq : Nat) (data : Bytes)
  | echoReply (ident seq : Nat) (data : Bytes)
  | tracerouteRequest (ident seq : Nat)
  | tracerouteReply (ident seq ia ifId : Nat)
  | unknown (ty code : Nat) (data : Bytes)
deriving Repr, DecidableEq

def be (b : Bytes) (lo n : Nat) : Nat := beRead b lo n

/-- minimum length `ScmpMessageLayout::try_from_slice` demands for a message of type `ty` -/
def minLen (ty : Nat) : Nat :=
  let k := match (ERROR_KINDS ++ INFO_KINDS).find? (fun e => e.1 == ty) with
    | some e => e.2
    | none => UNKNOWN_HEADER_SIZE
  max UNKNOWN_HEADER_SIZE k

/-- `ScmpPayloadView::try_from_slice(m)` + `.message()`; `none` = too short for its kind (malformed) -/
def parseMsg (m : Bytes) : Option Msg :=
  if m.length < UNKNOWN_HEADER_SIZE then none else
  let ty := byteAt m 0
  let code := byteAt m 1
  if m.length < minLen ty then none else
  if ty = TYPE_DestinationUnreachable then some (.error (.destUnreachable code) (m.drop HDR_DestinationUnreachable))
  else if ty = TYPE_PacketTooBig then some (.error (.packetTooBig (be m 6 2)) (m.drop HDR_PacketTooBig))
  else if ty = TYPE_ParameterProblem then some (.error (.paramProblem code (be m 6 2)) (m.drop HDR_ParameterProblem))
  else if ty = TYPE_ExternalInterfaceDown then some (.error (.extIfDown (be m 4 8) (be m 12 8)) (m.drop HDR_ExternalInterfaceDown))
  else if ty = TYPE_InternalConnectivityDown then
    some (.error (.intConnDown (be m 4 8) (be m 12 8) (be m 20 8)) (m.drop HDR_InternalConnectivityDown))
  else if ty = TYPE_EchoRequest then some (.echoRequest (be m 4 2) (be m 6 2) (m.drop HDR_EchoRequest))
  else if ty = TYPE_EchoReply then some (.echoReply (be m 4 2) (be m 6 2) (m.drop HDR_EchoReply))
  else if ty = TYPE_TracerouteRequest then some (.tracerouteRequest (be m 4 2) (be m 6 2))
  else if ty = TYPE_TracerouteReply then some (.tracerouteReply (be m 4 2) (be m 6 2) (be m 8 8) (be m 16 8))
  else some (.unknown ty code (m.drop UNKNOWN_HEADER_SIZE))

/-- `ScmpMessageExt::is_error`: one of the five *known* error kinds -/
def Msg.isKnownError : Msg → Bool
  | .error _ _ => true
  | _ => false

/-- SCMP type byte of a parsed message -/
def Msg.ty : Msg → Nat
  | .error k _ => k.ty
  | .echoRequest _ _ _ => TYPE_EchoRequest
  | .echoReply _ _ _ => TYPE_EchoReply
  | .tracerouteRequest _ _ => TYPE_TracerouteRequest
  | .tracerouteReply _ _ _ _ => TYPE_TracerouteReply
  | .unknown ty _ _ => ty

/-- `try_as_scmp()`: `next_header == SCMP` and the payload is large enough for its message kind -/
def asScmp (p : Pkt) : Option Msg :=
  if p.nextHdr ≠ PROTO_SCMP then none else parseMsg p.payload

/-- receiver-side checksum verification over pseudo-header ++ message (`ScionScmpPacketView::verify_checksum`) -/
def scmpChecksumOk (p : Pkt) : Bool := checksumVerifies p.addr PROTO_SCMP p.payload

/-! ## packets the handlers build -/

/-- a `ScionRawPacket` model value: header fields + already encoded payload -/
structure RawPkt where
  nextHdr : Nat
  addr : AddrHdr
  pathType : Nat
  path : Bytes
  payload : Bytes
deriving Repr, DecidableEq

/-- `ScionRawPacket::try_encode_to_owned_view` (traffic class 0, flow id 0): `none` = `wire_valid` fails -/
def RawPkt.encode (r : RawPkt) : Option Bytes :=
  let hdr := headerSize r.addr r.path
  if hdr % 4 ≠ 0 ∨ hdr > MAX_HEADER_SIZE then none
  else some (encodeHeader 0 0 r.nextHdr r.addr r.pathType r.path (r.payload.length % 65536) ++ r.payload)

/-- host address kinds for which `scion_host_addr()` succeeds: IPv4, IPv6, service -/
def knownHost (nib : Nat) : Bool := SnapFilter.addrKind nib != 3

/-- source/destination swapped -/
def AddrHdr.swap (a : AddrHdr) : AddrHdr :=
  { dstIa := a.srcIa, srcIa := a.dstIa, dstNib := a.srcNib, srcNib := a.dstNib, dstHost := a.srcHost, srcHost := a.dstHost }

/-! ## `DefaultEchoHandler` -/

/-- `DefaultEchoHandler::handle(pkt)` -/
def echoHandle (rev : Rev) (p : Pkt) : Option RawPkt :=
  match asScmp p with
  | some (.echoRequest ident seq data) =>
    if !scmpChecksumOk p && VERIFY_CHECKSUM_ON_RECEIVE then none else
    match rev p.pathType p.path with
    | none => none
    | some (pt, path) =>
      if !knownHost p.addr.srcNib || !knownHost p.addr.dstNib then none else
      let a := p.addr.swap
      some { nextHdr := PROTO_SCMP, addr := a, pathType := pt, path := path,
             payload := echoMsg TYPE_EchoReply ident seq data a }
  | _ => none

/-! ## `ScmpErrorHandler` -/

/-- what one receiver is told: the error (kind with its fields, quoted packet) and the path of the packet -/
structure Report where
  kind : ErrKind
  quote : Bytes
  pathType : Nat
  path : Bytes
deriving Repr, DecidableEq

/-- `ScmpErrorHandler::handle(pkt)`: the report passed to **every** live receiver (it never replies) -/
def errorHandle (p : Pkt) : Option Report :=
  match asScmp p with
  | some (.error k q) => some { kind := k, quote := q, pathType := p.pathType, path := p.path }
  | _ => none

/-! ## socket receive loop -/

/-- an element of the socket's `Vec<Box<dyn ScmpHandler>>`: one of the two handlers the crate ships, or an arbitrary
    user implementation of the public trait `ScmpHandler` – modelled by the only thing the receive loop uses of it,
    the function `handle : &ScionRawPacketView → Option<ScionRawPacket>` (side effects of a user handler other than
    its return value are outside the model) -/
inductive Handler
  | error
  | echo
  | custom (handle : Pkt → Option RawPkt)

/-- the two handlers the crate ships (`ScmpErrorHandler`, `DefaultEchoHandler`) -/
def Handler.builtin : Handler → Bool
  | .error => true
  | .echo => true
  | .custom _ => false

/-- code of a handler type in the generated wiring table `STACK_SOCKET_HANDLERS` -/
def handlerOfCode : Nat → Option Handler
  | 0 => some .error
  | 1 => some .echo
  | _ => none

/-- the handler list `ScionStack::<f>` passes to `PathUnawareUdpScionSocket::new` for the socket it returns
    (`f` = `bind_with_config`, which `bind` / `connect*` go through, or `bind_path_unaware`); read off stack.rs by the
    translator.  `none` = no such construction site. -/
def handlersOfCodes : List Nat → Option (List Handler)
  | [] => some []
  | c :: cs =>
    match handlerOfCode c, handlersOfCodes cs with
    | some h, some hs => some (h :: hs)
    | _, _ => none

def stackHandlers (f : String) : Option (List Handler) :=
  match STACK_SOCKET_HANDLERS.lookup f with
  | some cs => handlersOfCodes cs
  | none => none

/-- effect of one handler on one SCMP packet: reports to each of `n` receivers, optional encoded reply sent -/
structure Effect where
  reports : List (Nat × Report) := []
  sent : List Bytes := []
deriving Repr

def runHandler (rev : Rev) (nRecv : Nat) (h : Handler) (p : Pkt) : Effect :=
  match h with
  | .error =>
    match errorHandle p with
    | some r => { reports := (List.range nRecv).map (fun i => (i, r)) }
    | none => {}
  | .echo =>
    match echoHandle rev p with
    | some r => match r.encode with
      | some bytes => { sent := [bytes] }
      | none => {}
    | none => {}
  | .custom f =>
    match f p with
    | some r => match r.encode with
      | some bytes => { sent := [bytes] }
      | none => {}
    | none => {}

/-- what `recv_from` hands to the application for a UDP packet: payload and source (ISD-AS, nibble, host, port) -/
structure Datagram where
  payload : Bytes
  srcIa : Nat
  srcNib : Nat
  srcHost : Bytes
  srcPort : Nat
deriving Repr, DecidableEq

/-- the UDP branch: `try_as_udp`, `src_socket_addr`, `try_to_scion_sock_ip_addr` -/
def deliverUdp (p : Pkt) : Option Datagram :=
  if p.payload.length < 8 then none else
  let ulen := be p.payload 4 2
  if ulen < 8 then none else
  let u := p.payload.take (min p.payload.length ulen)
  if !(SnapFilter.addrKind p.addr.srcNib == 0 || SnapFilter.addrKind p.addr.srcNib == 1) then none else
  some { payload := u.drop 8, srcIa := p.addr.srcIa, srcNib := p.addr.srcNib, srcHost := p.addr.srcHost, srcPort := be u 0 2 }

/-- outcome of one received packet in the loop of `recv_from` -/
structure Step where
  delivered : Option Datagram := none
  reports : List (Nat × Report) := []
  sent : List Bytes := []
deriving Repr

def recvOne (rev : Rev) (nRecv : Nat) (hs : List Handler) (p : Pkt) : Step :=
  if p.nextHdr = PROTO_UDP then { delivered := deliverUdp p }
  else if p.nextHdr = PROTO_SCMP then
    let es := hs.map (fun h => runHandler rev nRecv h p)
    { reports := es.flatMap (·.reports), sent := es.flatMap (·.sent) }
  else {}

/-- everything a socket does with a sequence of incoming packets (successive `recv_from` calls until the underlay
    is drained): datagrams handed to the application, reports to receivers, SCMP replies sent – each in order -/
structure LoopOut where
  delivered : List Datagram := []
  reports : List (Nat × Report) := []
  sent : List Bytes := []
deriving Repr

def recvAll (rev : Rev) (nRecv : Nat) (hs : List Handler) (ps : List Pkt) : LoopOut :=
  let steps := ps.map (recvOne rev nRecv hs)
  { delivered := steps.filterMap (·.delivered), reports := steps.flatMap (·.reports), sent := steps.flatMap (·.sent) }

/-! ## pocketscion: `maybe_create_scmp_reply` / `handle_scmp` -/

inductive SimOut
  | reply (r : RawPkt)
  | none
  | error
deriving Repr, DecidableEq

/-- `try_classify()`: UDP and SCMP packets must carry a well-sized payload -/
def classifyOk (p : Pkt) : Bool :=
  if p.nextHdr = PROTO_UDP then (8 ≤ p.payload.length && 8 ≤ be p.payload 4 2)
  else if p.nextHdr = PROTO_SCMP then (parseMsg p.payload).isSome
  else true

/-- is the packet an SCMP message to which no SCMP error may be sent?  The code tests `is_error()` (the five known
    kinds); with `NO_REPLY_TO_UNKNOWN_ERROR` (read off the source) also every other type < 128. -/
def simIsError (p : Pkt) : Bool :=
  if p.nextHdr ≠ PROTO_SCMP then false else
  match parseMsg p.payload with
  | some m => m.isKnownError || (NO_REPLY_TO_UNKNOWN_ERROR && m.ty < 128)
  | none => false

/-- `IpAddr::is_multicast` of the source host, if it is an IP -/
def srcMulticast (a : AddrHdr) : Bool :=
  (SnapFilter.addrKind a.srcNib == 0 && 224 ≤ byteAt a.srcHost 0 && byteAt a.srcHost 0 ≤ 239) ||
  (SnapFilter.addrKind a.srcNib == 1 && byteAt a.srcHost 0 == 255)

/-- `maybe_create_scmp_reply(local_as, router, scmp, respond_to)`; `msg a hdr` encodes the SCMP message for address
    header `a` behind a SCION header of `hdr` bytes (`into_raw()`) -/
def simMaybeReply (rev : Rev) (localIa : Nat) (routerNib : Nat) (routerHost : Bytes) (msg : AddrHdr → Nat → Bytes) (p : Pkt) : SimOut :=
  if !classifyOk p then .error else
  if simIsError p then .none else
  if !knownHost p.addr.srcNib then .error else
  if srcMulticast p.addr then .none else
  match rev p.pathType p.path with
  | none => .error
  | some (pt, path) =>
    let a : AddrHdr := { dstIa := p.addr.srcIa, srcIa := localIa, dstNib := p.addr.srcNib, srcNib := routerNib,
                         dstHost := p.addr.srcHost, srcHost := routerHost }
    .reply { nextHdr := PROTO_SCMP, addr := a, pathType := pt, path := path, payload := msg a (headerSize a path) }

/-- encoded traceroute reply -/
def tracerouteReplyMsg (ident seq ia ifId : Nat) (a : AddrHdr) : Bytes :=
  let body := be16 ident ++ be16 seq ++ be64 ia ++ be64 ifId
  let ck := checksum a PROTO_SCMP ([u8 TYPE_TracerouteReply, 0, 0, 0] ++ body)
  [u8 TYPE_TracerouteReply, 0] ++ be16 ck ++ body

/-- `LocalNetworkSimulation::handle_scmp` (router answering echo / traceroute requests addressed to it) -/
def simHandleScmp (rev : Rev) (localIa localIf : Nat) (routerNib : Nat) (routerHost : Bytes) (p : Pkt) : SimOut :=
  match asScmp p with
  | some (.echoRequest ident seq data) =>
    if !scmpChecksumOk p && VERIFY_CHECKSUM_ON_RECEIVE then .error else
    simMaybeReply rev localIa routerNib routerHost (fun a _ => echoMsg TYPE_EchoReply ident seq data a) p
  | some (.tracerouteRequest ident seq) =>
    if !scmpChecksumOk p && VERIFY_CHECKSUM_ON_RECEIVE then .error else
    simMaybeReply rev localIa routerNib routerHost (fun a _ => tracerouteReplyMsg ident seq localIa localIf a) p
  | _ => .error

/-- `SendSCMPErrorResponse(err)` / a failed local dispatch: an error message quoting the packet `raw` -/
def simErrorReply (rev : Rev) (localIa : Nat) (routerNib : Nat) (routerHost : Bytes) (k : ErrKind) (raw : Bytes) (p : Pkt) : SimOut :=
  simMaybeReply rev localIa routerNib routerHost (fun a hdr => encodeError k raw a hdr) p

end ScionVerif.Scmp
