import ScionVerif.Model.Registry
/-!
# Model of `snap-tun/src/server.rs` (`SnapTunServer`) and of the system registry + server + clock

`SnapTunServer<T: SnapTunAuthorization>` is generic in the authorisation layer; so is the model
(`authz : Id → Option SD` is `|id| self.authz.is_authorized(packet_now, id)` at the instant of the call).

WireGuard / Noise (`ana_gotatun::noise::Tunn`, `RateLimiter`, `parse_handshake_anon`) is an *abstract machine*
`Wg σ Pkt Net` – a parameter of the model.  The only thing the theorems assume about it is `Wg.Sound`
("a `Tunn` created for `peer_static` decrypts only traffic authenticated by that key"), always as an explicit
hypothesis.  `signer` is a ghost function (who produced the packet); the server model never calls it.

`InOut.peer` / `OutOut.peer` are ghost outputs: the identity whose authorisation was consulted.
Core Lean only.
-/
namespace ScionVerif.SnapTun

abbrev Payload := List Nat

/-- the two `WireGuardError`s the server itself produces + anything a `Tunn`/rate limiter returns -/
inductive WgErr
  | unexpectedPacket
  | invalidPacket
  | tunn (code : Nat)
deriving Repr, DecidableEq

/-- `ana_gotatun::noise::TunnResult` -/
inductive TunnResult (Net : Type)
  | done
  | err (e : WgErr)
  | writeToNetwork (n : Net)
  | writeToTunnel (p : Payload)
deriving Repr, DecidableEq

/-- result of `RateLimiter::verify_packet` (the parsed packet is the packet itself in the model) -/
inductive Verify (Net : Type)
  | ok
  | cookie (c : Net)
  | err (e : WgErr)

/-- the WireGuard machinery the server is built on (parameter of the model) -/
structure Wg (σ Pkt Net : Type) where
  /-- `rate_limiter.verify_packet(from.ip(), packet)` -/
  verify : Pkt → Verify Net
  /-- `none`: not a `WgKind::HandshakeInit`; `some r`: result of `parse_handshake_anon` (claimed static key) -/
  initClaim : Pkt → Option (Except WgErr Id)
  /-- `Tunn::new(static_private, peer_static, None, None, 0, rate_limiter, from)` -/
  new : Id → Addr → σ
  /-- `tunn.handle_incoming_packet(p)` -/
  recv : σ → Pkt → σ × TunnResult Net
  /-- `tunn.get_queued_packets()` (drained completely) -/
  queued : σ → σ × List Net
  /-- `tunn.handle_outgoing_packet(payload)` -/
  send : σ → Payload → σ × Option Net
  /-- `tunn.update_timers()` (`Err` is only logged ⇒ `none`) -/
  tick : σ → σ × Option Net
  /-- `tunn.is_expired()` -/
  expired : σ → Bool
  /-- ghost: the static key whose owner cryptographically authenticated this packet -/
  signer : Pkt → Option Id

/-- The single hypothesis about WireGuard: a `Tunn` created for `peer_static` stays a `Tunn` for that key and
accepts only traffic authenticated by that key – it hands a decrypted payload to the tunnel side (`decrypt`), and,
when fresh, answers without error (`accept`), only for packets authenticated by that key. -/
structure Wg.Sound {σ Pkt Net : Type} (w : Wg σ Pkt Net) where
  owns : σ → Id → Prop
  new : ∀ id a, owns (w.new id a) id
  recv : ∀ s id p, owns s id → owns (w.recv s p).1 id
  queued : ∀ s id, owns s id → owns (w.queued s).1 id
  send : ∀ s id pl, owns s id → owns (w.send s pl).1 id
  tick : ∀ s id, owns s id → owns (w.tick s).1 id
  decrypt : ∀ s id p pl, owns s id → (w.recv s p).2 = .writeToTunnel pl → w.signer p = some id
  /-- … and a fresh `Tunn` answers anything but an error only to a packet authenticated by that key (Noise IK: the
  initiation's timestamp is sealed under DH(static, static)) -/
  accept : ∀ id a p, (∀ e, (w.recv (w.new id a) p).2 ≠ .err e) → w.signer p = some id

/-- `ActiveTunnel` -/
structure Tunnel (σ : Type) where
  peerStatic : Id
  tunn : σ

/-- `SnapTunServer` (only the mutable part: `active_tunnels : HashMap<SocketAddr, ActiveTunnel>`) -/
structure Server (σ : Type) where
  tunnels : AMap (Tunnel σ) := []

/-- `HandleIncomingPacketResult<S>` -/
inductive InRes (Net SD : Type)
  | result (r : TunnResult Net)
  | forwarded (p : Payload) (sd : SD)
deriving Repr, DecidableEq

/-- `SnapTunServer::incoming_packet_result` -/
def incomingPacketResult {Net SD : Type} (r : TunnResult Net) (sd : SD) : InRes Net SD :=
  match r with
  | .writeToTunnel p => .forwarded p sd
  | r => .result r

structure InOut (σ Net SD : Type) where
  srv : Server σ
  /-- what was pushed to `send_to_network` -/
  net : List Net
  res : InRes Net SD
  /-- ghost: identity whose authorisation was consulted -/
  peer : Option Id

structure OutOut (σ Net SD : Type) where
  srv : Server σ
  res : Option (Option Net × SD)
  peer : Option Id

section
variable {σ Pkt Net SD : Type}

/-- `SnapTunServer::handle_incoming_and_drain_queue` -/
def drain (w : Wg σ Pkt Net) (tunn : σ) (p : Pkt) : σ × List Net × TunnResult Net :=
  let (t1, r0) := w.recv tunn p
  let (q1, r) : List Net × TunnResult Net :=
    match r0 with
    | .writeToNetwork n => ([n], .done)
    | .writeToTunnel pl => if pl.isEmpty then ([], .done) else ([], .writeToTunnel pl)
    | r => ([], r)
  let (t2, q2) := w.queued t1
  (t2, q1 ++ q2, r)

/-- tail of the `(Entry::Vacant, HandshakeInit)` arm: `parse_handshake_anon` only decrypts the claimed key; a
handshake that the new tunnel rejects leaves no tunnel state behind (fix 9197560), otherwise the entry is inserted -/
def acceptNew (s : Server σ) (frm : Addr) (peer : Id) (tunn' : σ) (q : List Net) (r : TunnResult Net) (sd : SD) :
    InOut σ Net SD :=
  match r with
  | .err e => ⟨s, q, .result (.err e), some peer⟩
  | r => ⟨{ tunnels := s.tunnels.insert frm ⟨peer, tunn'⟩ }, q, incomingPacketResult r sd, some peer⟩

/-- `SnapTunServer::handle_incoming_packet_with_session` -/
def handleIncoming (w : Wg σ Pkt Net) (authz : Id → Option SD) (s : Server σ) (pkt : Pkt) (frm : Addr) :
    InOut σ Net SD :=
  match w.verify pkt with
  | .cookie c => ⟨s, [c], .result .done, none⟩
  | .err e => ⟨s, [], .result (.err e), none⟩
  | .ok =>
    match s.tunnels.get? frm with
    | some t =>
      -- (Entry::Occupied, p)
      match authz t.peerStatic with
      | none => ⟨s, [], .result (.err .unexpectedPacket), some t.peerStatic⟩
      | some sd =>
        let (tunn', q, r) := drain w t.tunn pkt
        ⟨{ tunnels := s.tunnels.insert frm { t with tunn := tunn' } }, q, incomingPacketResult r sd,
          some t.peerStatic⟩
    | none =>
      match w.initClaim pkt with
      | some (.ok peer) =>
        -- (Entry::Vacant, WgKind::HandshakeInit)
        match authz peer with
        | none => ⟨s, [], .result (.err .unexpectedPacket), some peer⟩
        | some sd =>
          let (tunn', q, r) := drain w (w.new peer frm) pkt
          acceptNew s frm peer tunn' q r sd
      | some (.error e) => ⟨s, [], .result (.err e), none⟩
      | none => ⟨s, [], .result (.err .invalidPacket), none⟩

/-- `SnapTunServer::handle_outgoing_packet_with_session` -/
def handleOutgoing (w : Wg σ Pkt Net) (authz : Id → Option SD) (s : Server σ) (payload : Payload) (to : Addr) :
    OutOut σ Net SD :=
  match s.tunnels.get? to with
  | none => ⟨s, none, none⟩
  | some t =>
    match authz t.peerStatic with
    | none => ⟨s, none, some t.peerStatic⟩
    | some sd =>
      let (tunn', n) := w.send t.tunn payload
      ⟨{ tunnels := s.tunnels.insert to { t with tunn := tunn' } }, some (n, sd), some t.peerStatic⟩

/-- `SnapTunServer::update_timers` (`retain` with side effects; iteration order of the hash map = list order) -/
def updateTimers (w : Wg σ Pkt Net) (s : Server σ) : Server σ × List (Addr × Net) :=
  let r := s.tunnels.foldr (fun (kt : Nat × Tunnel σ) (acc : AMap (Tunnel σ) × List (Addr × Net)) =>
      let (tunn', o) := w.tick kt.2.tunn
      let res := match o with
        | some n => (kt.1, n) :: acc.2
        | none => acc.2
      if w.expired tunn' then (acc.1, res) else ((kt.1, { kt.2 with tunn := tunn' }) :: acc.1, res))
    ([], [])
  ({ tunnels := r.1 }, r.2)

/-! ## The system: identity registry + tunnel server + clock -/

structure Sys (σ : Type) where
  reg : Registry := {}
  now : Time := 0
  srv : Server σ := {}

inductive Op (Pkt : Type)
  /-- control plane: `IdentityRegistry::register(now, key, id, lifetime)` -/
  | register (key : Key) (id : Id) (life : Nat)
  /-- the clock advances -/
  | advance (d : Nat)
  /-- `IdentityRegistry::remove_expired(now)` -/
  | purge
  /-- a UDP datagram arrives from `frm` (handshake, data, anything) -/
  | incoming (frm : Addr) (pkt : Pkt)
  /-- the SCION side hands a payload for the client at `to` -/
  | outgoing (to : Addr) (payload : Payload)
  /-- `update_timers` -/
  | tick

inductive Out (Net : Type)
  | registered (wasNew : Bool)
  | unit
  | incoming (net : List Net) (res : InRes Net Unit) (peer : Option Id)
  | outgoing (res : Option (Option Net × Unit)) (peer : Option Id)
  | ticked (net : List (Addr × Net))
deriving Repr, DecidableEq

def step (w : Wg σ Pkt Net) (s : Sys σ) : Op Pkt → Sys σ × Out Net
  | .register key id life =>
    let (r, wasNew) := s.reg.register s.now key id life
    ({ s with reg := r }, .registered wasNew)
  | .advance d => ({ s with now := s.now + d }, .unit)
  | .purge => ({ s with reg := s.reg.cleanExpired s.now }, .unit)
  | .incoming frm pkt =>
    let o := handleIncoming w (s.reg.isAuthorized s.now) s.srv pkt frm
    ({ s with srv := o.srv }, .incoming o.net o.res o.peer)
  | .outgoing to payload =>
    let o := handleOutgoing w (s.reg.isAuthorized s.now) s.srv payload to
    ({ s with srv := o.srv }, .outgoing o.res o.peer)
  | .tick =>
    let (srv, net) := updateTimers w s.srv
    ({ s with srv := srv }, .ticked net)

def run (w : Wg σ Pkt Net) (s : Sys σ) (ops : List (Op Pkt)) : Sys σ :=
  ops.foldl (fun s op => (step w s op).1) s

/-- `some peer` iff the step let traffic through the tunnel: a decrypted payload was handed to the SCION side
(`HandleIncomingPacketResult::Forwarded`) or an outbound payload was accepted into the tunnel pipeline
(`handle_outgoing_packet_with_session(..)` is `Some`); `peer` is the ghost identity that was authorised. -/
def Out.flow : Out Net → Option (Option Id)
  | .incoming _ (.forwarded _ _) peer => some peer
  | .outgoing (some _) peer => some peer
  | _ => none

/-- network output produced by a tunnel while handling an incoming datagram (handshake response, flushed
queued payloads); `none` for cookie replies of the rate limiter / no output -/
def Out.tunnelNet : Out Net → Option (Option Id)
  | .incoming (_ :: _) _ (some peer) => some (some peer)
  | _ => none

end
/-! ## An executable stand-in for gotatun's `Tunn` (used by the model driver and for non-vacuity)

Abstract packets carry what the harness knows about the real packet: who produced it (`signer`, a ghost), which
handshake (`hs`, a harness-wide counter that also orders the TAI64N timestamps) and the public wire fields
(receiver index, counter).  The machine mirrors the parts of `ana_gotatun::noise::Tunn` that are reachable when no
WireGuard timer fires (the harness runs in milliseconds): timestamp replay check, `WrongKey`, the session ring
indexed by `local_index % N_SESSIONS`, `current`, the per-session replay filter, the outbound queue and the
responder-side handshake initiation.  It is *not* trusted: `attribution` is proved for every `Wg` satisfying
`Wg.Sound`, and `GoWg.sound` proves that this machine is one. -/
namespace GoWg
open ScionVerif.Generated.SnapTun

inductive Pkt
  /-- `HandshakeInit`: `claimed` = the static key inside `encrypted_static`; `signer = some claimed` for a genuine
  one (the timestamp AEAD verifies under DH(static,static)), anything else for a forgery -/
  | init (signer : Option Id) (claimed : Id) (ts : Nat) (hs : Nat)
  /-- `Data` under the keys of the session that the tunnel at address `src` established when it answered handshake
  `hs` (so produced by the initiator of `hs`, `signer`; the responder's ephemeral key is fresh per answer, hence a
  replayed initiation answered by another tunnel yields different keys) -/
  | data (signer : Option Id) (hs : Nat) (src : Addr) (ridx : Nat) (ctr : Nat) (payload : Payload)
  /-- `HandshakeResp` / `CookieReply` not matching any handshake state -/
  | other
  /-- not a WireGuard message (or bad `mac1`): refused by `RateLimiter::verify_packet` -/
  | junk
deriving Repr, DecidableEq

inductive Net
  | resp (hs : Nat) (idx : Nat)
  | init
  | data (hs : Nat) (payload : Payload)
deriving Repr, DecidableEq

/-- error codes of `WgErr.tunn` -/
def eWrongKey := 1
def eInvalidAeadTag := 2
def eWrongTimestamp := 3
def eWrongIndex := 4
def eNoCurrentSession := 5
def eDuplicateCounter := 6
def eWrongPacketType := 7

structure Session where
  idx : Nat
  hs : Nat
  seen : List Nat
deriving Repr, DecidableEq

structure Tunn where
  peer : Id
  addr : Addr
  lastTs : Nat := 0
  nextIdx : Nat := 0
  slots : List (Option Session) := List.replicate N_SESSIONS none
  current : Nat := 0
  initSent : Bool := false
  queue : List Payload := []
deriving Repr, DecidableEq

def slot (t : Tunn) (i : Nat) : Option Session := (t.slots.getD (i % N_SESSIONS) none)

def setSlot (t : Tunn) (i : Nat) (s : Session) : Tunn :=
  { t with slots := t.slots.set (i % N_SESSIONS) (some s) }

/-- `NoiseParams::inc_index` with `index = 0` -/
def incIdx (t : Tunn) : Tunn × Nat :=
  let n := (t.nextIdx + 1) % 256
  ({ t with nextIdx := n }, n)

def recv (t : Tunn) : Pkt → Tunn × TunnResult Net
  | .init signer claimed ts hs =>
    if claimed ≠ t.peer then (t, .err (.tunn eWrongKey))
    else if signer ≠ some claimed then (t, .err (.tunn eInvalidAeadTag))
    else if ts ≤ t.lastTs then (t, .err (.tunn eWrongTimestamp))
    else
      let (t1, idx) := incIdx { t with lastTs := ts }
      let t2 := setSlot t1 idx { idx := idx, hs := hs, seen := [] }
      ({ t2 with initSent := false }, .writeToNetwork (.resp hs idx))
  | .data signer hs src ridx ctr payload =>
    match slot t ridx with
    | none => (t, .err (.tunn eNoCurrentSession))
    | some s =>
      if s.idx ≠ ridx then (t, .err (.tunn eWrongIndex))
      else if ctr ∈ s.seen then (t, .err (.tunn eDuplicateCounter))
      else if s.hs ≠ hs ∨ src ≠ t.addr ∨ signer ≠ some t.peer then (t, .err (.tunn eInvalidAeadTag))
      else
        let t1 := setSlot t ridx { s with seen := ctr :: s.seen }
        ({ t1 with current := ridx }, .writeToTunnel payload)
  | .other => (t, .err (.tunn eWrongPacketType))
  | .junk => (t, .err .invalidPacket)

def send (t : Tunn) (payload : Payload) : Tunn × Option Net :=
  match slot t t.current with
  | some s => (t, some (.data s.hs payload))
  | none =>
    let t1 := if t.queue.length < MAX_QUEUE_DEPTH then { t with queue := t.queue ++ [payload] } else t
    if t1.initSent then (t1, none)
    else
      let (t2, _) := incIdx t1
      ({ t2 with initSent := true }, some .init)

/-- `get_queued_packets`: `from_fn(|| dequeue().and_then(|p| handle_outgoing_packet(p)))`, collected -/
def queuedLoop : Nat → Tunn → List Net → Tunn × List Net
  | 0, t, acc => (t, acc)
  | fuel + 1, t, acc =>
    match t.queue with
    | [] => (t, acc)
    | p :: rest =>
      match send { t with queue := rest } p with
      | (t', some n) => queuedLoop fuel t' (acc ++ [n])
      | (t', none) => (t', acc)

def queued (t : Tunn) : Tunn × List Net := queuedLoop (t.queue.length + 2) t []

def wg : Wg Tunn Pkt Net where
  verify p := match p with
    | .junk => .err .invalidPacket
    | _ => .ok
  initClaim p := match p with
    | .init _ claimed _ _ => some (.ok claimed)
    | _ => none
  new id a := { peer := id, addr := a }
  recv := recv
  queued := queued
  send := send
  tick t := (t, none)
  expired _ := false
  signer p := match p with
    | .init s _ _ _ => s
    | .data s _ _ _ _ _ => s
    | _ => none

end GoWg

end ScionVerif.SnapTun
