import ScionVerif.Generated.SnapTun
/-!
# Model of `snap-control/src/server/identity_registry.rs` (`IdentityRegistryState`)

Statement-by-statement model of `add_identity`, `clean_expired`, `is_authorized`.
* token keys (`Arc<str>`), identities (`[u8; 32]`) and instants are `Nat`s: the code only ever compares keys
  and identities for equality / uses them as map keys, and compares instants with the operator that the
  translator extracts into `Generated.SnapTun.authorizedAt`;
* a `BTreeMap` is an association list (`AMap`); that the list never holds two entries for one key is a
  *theorem* about the model (`Lemmas/SnapTun.lean`), not an assumption;
* `Instant + Duration` is unbounded here (in Rust it panics when the sum is not representable – only reachable
  by calling `IdentityRegistry::register` directly with a lifetime of ~2^63 s; the RPC handler cannot).
Core Lean only.
-/
namespace ScionVerif.SnapTun
open ScionVerif.Generated.SnapTun

abbrev Key := Nat
abbrev Id := Nat
abbrev Time := Nat
abbrev Addr := Nat

/-- finite map with `Nat` keys as an association list -/
abbrev AMap (α : Type) := List (Nat × α)

namespace AMap
variable {α : Type}

/-- `map.get(&k)` -/
def get? : AMap α → Nat → Option α
  | [], _ => none
  | (k', v) :: m, k => if k' = k then some v else get? m k

/-- `map.remove(&k)` -/
def erase (m : AMap α) (k : Nat) : AMap α := m.filter (fun p => p.1 != k)

/-- `map.insert(k, v)` -/
def insert (m : AMap α) (k : Nat) (v : α) : AMap α := (k, v) :: erase m k

/-- `map.contains_key(&k)` -/
def contains (m : AMap α) (k : Nat) : Bool := (get? m k).isSome

/-- `map.retain(|k, v| f(k, v))` -/
def retain (m : AMap α) (f : Nat → α → Bool) : AMap α := m.filter (fun p => f p.1 p.2)

def keys (m : AMap α) : List Nat := m.map (·.1)
def vals (m : AMap α) : List α := m.map (·.2)
end AMap

/-- `IdentityRegistryState` -/
structure Registry where
  /-- `associations : BTreeMap<Arc<str>, Identity>` (token key ⇀ identity) -/
  assoc : AMap Id := []
  /-- `sessions : BTreeMap<Identity, IdentityRegistration>` (identity ⇀ `expires_at`) -/
  sess : AMap Time := []
deriving Repr, DecidableEq

namespace Registry

/-- `IdentityRegistryState::is_authorized`:
`self.sessions.get(ident).filter(|s| s.is_authorized(now)).map(|_| UNIT_SESSION_DATA.clone())` -/
def isAuthorized (r : Registry) (now : Time) (id : Id) : Option Unit :=
  match r.sess.get? id with
  | some e => if authorizedAt e now then some () else none
  | none => none

/-- `IdentityRegistry::has_authorization` -/
def hasAuthorization (r : Registry) (now : Time) (id : Id) : Bool := (r.isAuthorized now id).isSome

/-- `IdentityRegistryState::add_identity(key, identity, expiry)`; second component = `was_new`. -/
def addIdentity (r : Registry) (key : Key) (id : Id) (expiry : Time) : Registry × Bool :=
  -- let was_new = !self.sessions.contains_key(&identity);
  let wasNew := !r.sess.contains id
  -- if let Some(prev_identity) = self.associations.insert(key.clone(), identity)
  --     && prev_identity != identity { self.sessions.remove(&prev_identity); }
  let prev := r.assoc.get? key
  let assoc1 := r.assoc.insert key id
  let sess1 := match prev with
    | some p => if p ≠ id then r.sess.erase p else r.sess
    | none => r.sess
  -- self.associations.retain(|k, v| *v != identity || k == &key);
  let assoc2 := assoc1.retain (fun k v => v != id || k == key)
  -- self.sessions.insert(identity, IdentityRegistration::new(expiry));
  ({ assoc := assoc2, sess := sess1.insert id expiry }, wasNew)

/-- `IdentityRegistry::register(now, key, ident, lifetime)` = `add_identity(key, ident, now + lifetime)` -/
def register (r : Registry) (now : Time) (key : Key) (id : Id) (lifetime : Nat) : Registry × Bool :=
  r.addIdentity key id (now + lifetime)

/-- one iteration of the `for identity in expired` loop of `clean_expired` -/
def dropIdentity (r : Registry) (id : Id) : Registry :=
  { sess := r.sess.erase id, assoc := r.assoc.retain (fun _ v => v != id) }

/-- `IdentityRegistryState::clean_expired(now)` -/
def cleanExpired (r : Registry) (now : Time) : Registry :=
  let expired := r.sess.filterMap (fun p => if !authorizedAt p.2 now then some p.1 else none)
  expired.foldl dropIdentity r

end Registry
end ScionVerif.SnapTun
