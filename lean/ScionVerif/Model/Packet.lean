import ScionVerif.Model.Layout
import ScionVerif.Model.Checksum
/-!
# Packet models and the wire codec

Structures mirroring `ScionPacketHeader`, `CommonHeader`, `AddressHeader`, `WireHostAddr`, `DpPath`
(`StandardPath`, `OneHopPath`, empty, unsupported), `UdpDatagram`, `ScmpMessage` (table-driven over
`Generated.Layout.scmpKinds`), `ScionPacket<T>`; `wireValid`, `requiredSize`, `encode` mirror
`WireEncode::{wire_valid, required_size, encode_unchecked}` / `PayloadEncode` *including the casts*
(`as u8`, `as u16`, 4- and 6-bit fields that silently truncate), `decode` mirrors
`TryFromView::try_from_slice` of `ScionRawPacket`, `ScionUdpPacket`, `ScionScmpPacket`.

`encode` mirrors `try_encode_to_vec` (zero-initialised buffer).  Numeric fields are `Nat`; the Rust types'
ranges are the predicate `WellTyped` (a `u8` is `< 256` …) – hypotheses of the theorems, facts of the types.
-/
namespace ScionVerif.Packet
open ScionVerif ScionVerif.Layout ScionVerif.Generated.Layout ScionVerif.Generated.AddrType

/-- `WireHostAddr` -/
inductive HostAddr
  | v4 (b : Bytes)            -- 4 bytes
  | v6 (b : Bytes)            -- 16 bytes
  | svc (a : Nat)             -- ServiceAddr(u16)
  | unknown (id : Nat) (b : Bytes)   -- id: u8, bytes: ArrayVec<[u8; 16]>
deriving Repr, DecidableEq

structure InfoFieldM where
  flags : Nat
  segId : Nat
  timestamp : Nat
deriving Repr, DecidableEq

structure HopFieldM where
  flags : Nat
  expTime : Nat
  consIngress : Nat
  consEgress : Nat
  mac : Bytes                 -- 6 bytes
deriving Repr, DecidableEq

structure Segment where
  info : InfoFieldM
  hops : List HopFieldM
deriving Repr, DecidableEq

structure StdPathM where
  currInfo : Nat
  currHop : Nat
  segments : List Segment     -- ArrayVec<[Segment; 3]>
deriving Repr, DecidableEq

inductive DpPath
  | standard (p : StdPathM)
  | oneHop (info : InfoFieldM) (h1 h2 : HopFieldM)
  | empty
  | unsupported (pathType : Nat) (data : Bytes)
deriving Repr, DecidableEq

structure Header where
  trafficClass : Nat
  flowId : Nat
  nextHeader : Nat
  dstIa : Nat
  srcIa : Nat
  dstHost : HostAddr
  srcHost : HostAddr
  path : DpPath
deriving Repr, DecidableEq

/-- `ScmpMessage`: kind name (a row of `scmpKinds`), type byte (only meaningful for `Unknown`), code,
    values of the model-carried header fields in row order, trailing data (offending packet / echo data /
    message-specific data) -/
structure ScmpM where
  kind : String
  typ : Nat
  code : Nat
  vals : List Nat
  data : Bytes
deriving Repr, DecidableEq

inductive Payload
  | raw (b : Bytes)
  | udp (srcPort dstPort : Nat) (data : Bytes)
  | scmp (m : ScmpM)
deriving Repr, DecidableEq

structure PacketM where
  header : Header
  payload : Payload
deriving Repr, DecidableEq

/-! ## sizes -/

def HostAddr.size : HostAddr → Nat
  | .v4 _ => 4
  | .v6 _ => 16
  | .svc _ => 4
  | .unknown _ b => b.length

/-- `WireHostAddr::addr_type()` then `u8::from(WireHostAddrType)` (8-bit arithmetic) -/
def HostAddr.nibbleByte : HostAddr → Nat
  | .v4 _ => NIBBLE_IPV4
  | .v6 _ => NIBBLE_IPV6
  | .svc _ => NIBBLE_SERVICE
  | .unknown id b => ((id * 4) % 256) ||| ((b.length % 256) / 4 - 1)

def HostAddr.encode : HostAddr → Bytes
  | .v4 b => b
  | .v6 b => b
  | .svc a => natBE 2 a ++ [0, 0]
  | .unknown _ b => b

def HostAddr.wireValid : HostAddr → Except String Unit
  | .unknown id b =>
    if b.isEmpty then .error "ScionHostAddr::Unknown bytes.len() must be non-zero"
    else if b.length % 4 ≠ 0 then .error "ScionHostAddr::Unknown bytes.len() must be a multiple of 4"
    else
      -- `*id > 0b11 || WireHostAddrType::from(u8::from(self.addr_type())) != self.addr_type()`
      let nb := (HostAddr.unknown id b).nibbleByte
      let same := nb ≠ NIBBLE_IPV4 ∧ nb ≠ NIBBLE_IPV6 ∧ nb ≠ NIBBLE_SERVICE ∧ nb / 4 = id ∧ (nb % 4 + 1) * 4 = b.length % 256
      if id > 3 ∨ ¬ same then .error "ScionHostAddr::Unknown id and length must not encode to another address type"
      else .ok ()
  | _ => .ok ()

def StdPathM.segSizes (p : StdPathM) : Nat × Nat × Nat :=
  (((p.segments[0]?.map (·.hops.length)).getD 0) % 256,
   ((p.segments[1]?.map (·.hops.length)).getD 0) % 256,
   ((p.segments[2]?.map (·.hops.length)).getD 0) % 256)

def StdPathM.hopCount (p : StdPathM) : Nat := (p.segments.map (·.hops.length)).foldl (· + ·) 0

def StdPathM.requiredSize (p : StdPathM) : Nat :=
  let s := p.segSizes
  StdPathMeta.SIZE_BYTES + stdDataSize s.1 s.2.1 s.2.2

def DpPath.requiredSize : DpPath → Nat
  | .standard p => p.requiredSize
  | .oneHop .. => OneHopPath.SIZE_BYTES
  | .empty => 0
  | .unsupported _ d => d.length

/-- `DpPath::path_type()` then `u8::from` -/
def DpPath.typeByte : DpPath → Nat
  | .standard _ => PATH_SCION
  | .oneHop .. => PATH_ONEHOP
  | .empty => PATH_EMPTY
  | .unsupported t _ => t % 256

def Header.addrSize (h : Header) : Nat := addrHdrSize (h.srcHost.size % 256) (h.dstHost.size % 256)

def Header.requiredSize (h : Header) : Nat :=
  CommonHeader.SIZE_BYTES + h.addrSize + h.path.requiredSize

/-! ## validity (`wire_valid`) -/

def StdPathM.wireValid (p : StdPathM) : Except String Unit :=
  if p.requiredSize > ScionHeaderPath.MAX_SIZE_BYTES then .error "Encoded path size exceeds maximum allowed"
  else if p.segments.length > StdPathMeta.MAX_SEGMENTS then .error "Number of segments exceeds maximum allowed"
  else if p.segments.isEmpty then .error "Standard path must contain at least one segment"
  else if p.currHop ≥ p.hopCount then .error "curr_hop_field exceeds total number of hop fields"
  else if p.currHop > StdPathMeta.MAX_TOTAL_HOPS then .error "curr_hop_field exceeds maximum encodeable value"
  else if p.hopCount > StdPathMeta.MAX_TOTAL_HOPS + 1 then .error "total number of hop fields exceeds maximum encodeable value"
  else if p.currInfo ≥ p.segments.length then .error "current_info_field exceeds total number of info fields"
  else
    match p.segments.find? (fun s => s.hops.length > StdPathMeta.MAX_SEGMENT_HOPS || s.hops.isEmpty) with
    | some s =>
      if s.hops.length > StdPathMeta.MAX_SEGMENT_HOPS then .error "Number of hop fields in segment exceeds maximum allowed"
      else .error "Segment must contain at least one hop field"
    | none => .ok ()

def DpPath.wireValid (p : DpPath) : Except String Unit :=
  if p.requiredSize > ScionHeaderPath.MAX_SIZE_BYTES then .error "Path size exceeds maximum encodable size (984 bytes)"
  else match p with
    | .standard s => s.wireValid
    | .unsupported t d =>
      if d.length % 4 ≠ 0 then .error "Path data must be a multiple of 4 bytes"
      -- supported path types, and the non-canonical `PathType::Other(0..=4)` (modelled as `256 + k`)
      else if t = PATH_EMPTY ∨ t = PATH_SCION ∨ t = PATH_ONEHOP ∨ t ≥ 256 then
        .error "Unsupported path must not use a supported path type"
      else .ok ()
    | _ => .ok ()

def Header.wireValid (h : Header) : Except String Unit :=
  if h.requiredSize % 4 ≠ 0 then .error "header size must be a multiple of 4 bytes"
  else if h.requiredSize > ScionHeader.MAX_SIZE_BYTES then .error "header size exceeds maximum encodeable value of 1020 bytes"
  else if h.flowId > CommonHeader.FLOW_ID_RNG.maxUint then .error "flow_id exceeds maximum encodeable value"
  -- a non-canonical `ProtocolNumber::Other(k)` with an assigned `k` (6, 17, 43, 201, 202, 203) is modelled as `256 + k`
  else if h.nextHeader ≥ 256 then .error "next_header must not be a non canonical ProtocolNumber::Other"
  else match h.dstHost.wireValid with
    | .error e => .error e
    | .ok () => match h.srcHost.wireValid with
      | .error e => .error e
      | .ok () => h.path.wireValid

/-! ## SCMP table: which header fields the model carries, and their width in the model -/

/-- model-side description of one SCMP kind: fields written from the model (`name`, bit width of the model
    value) and fields written as constant zero; `dataOff` = offset of the trailing data -/
structure ScmpEnc where
  name : String
  codeFromModel : Bool
  modelFields : List (String × Nat)
  zeroFields : List String
  isError : Bool               -- trailing data is a quoted packet truncated to SCMP_ERROR_MAX_PACKET_SIZE
  hasData : Bool

def scmpEncTable : List ScmpEnc := [
  ⟨"DestinationUnreachable", true, [], ["RESERVED_RNG"], true, true⟩,
  ⟨"PacketTooBig", false, [("MTU_RNG", 16)], ["RESERVED_RNG"], true, true⟩,
  ⟨"ParameterProblem", true, [("POINTER_RNG", 16)], ["RESERVED_RNG"], true, true⟩,
  ⟨"ExternalInterfaceDown", false, [("ISD_AS_RNG", 64), ("INTERFACE_ID_RNG", 16)], [], true, true⟩,
  ⟨"InternalConnectivityDown", false, [("ISD_AS_RNG", 64), ("INGRESS_INTERFACE_ID_RNG", 16), ("EGRESS_INTERFACE_ID_RNG", 16)], [], true, true⟩,
  ⟨"EchoRequest", false, [("IDENTIFIER_RNG", 16), ("SEQUENCE_NUMBER_RNG", 16)], [], false, true⟩,
  ⟨"EchoReply", false, [("IDENTIFIER_RNG", 16), ("SEQUENCE_NUMBER_RNG", 16)], [], false, true⟩,
  ⟨"TracerouteRequest", false, [("IDENTIFIER_RNG", 16), ("SEQUENCE_NUMBER_RNG", 16)], ["ISD_AS_RNG", "INTERFACE_ID_RNG"], false, false⟩,
  ⟨"TracerouteReply", false, [("IDENTIFIER_RNG", 16), ("SEQUENCE_NUMBER_RNG", 16), ("ISD_AS_RNG", 64), ("INTERFACE_ID_RNG", 16)], [], false, false⟩,
  ⟨"Unknown", true, [], [], false, true⟩
]

def scmpEncOf (name : String) : Option ScmpEnc := scmpEncTable.find? (·.name == name)
def scmpRowOf (name : String) : Option ScmpKindRow := scmpKinds.find? (·.name == name)
def fieldOf (row : ScmpKindRow) (f : String) : BitRange := ((row.fields.find? (·.1 == f)).map (·.2)).getD ⟨0, 0⟩

/-- `Scmp…Layout::from_offending_packet_length / from_data_length / from_message_specific_data_length(..).size_bytes()` -/
def ScmpM.requiredSize (m : ScmpM) (headerSize : Nat) : Nat :=
  match scmpEncOf m.kind, scmpRowOf m.kind with
  | some e, some row =>
    if e.isError then
      let maxPayload := SCMP_ERROR_MAX_PACKET_SIZE - headerSize          -- saturating_sub
      let maxOffending := maxPayload - row.headerSize
      row.headerSize + min m.data.length maxOffending
    else if e.hasData then m.data.length + row.headerSize
    else row.headerSize
  | _, _ => 0

def Payload.requiredSize (p : Payload) (headerSize : Nat) : Nat :=
  match p with
  | .raw b => b.length
  | .udp _ _ d => UdpDatagram.HEADER_SIZE_BYTES + d.length
  | .scmp m => m.requiredSize headerSize

def PacketM.requiredSize (p : PacketM) : Nat := p.header.requiredSize + p.payload.requiredSize p.header.requiredSize

/-- `PayloadEncode::wire_valid` -/
def Payload.wireValid : Payload → Except String Unit
  | .scmp m =>
    if m.kind == "Unknown" ∧ (scmpRow m.typ).code.isSome then .error "ScmpMessageUnknown must not use a known message type"
    -- a non-canonical `Scmp…Code::Unassigned(k)` with an assigned `k` is modelled as `256 + k`
    else if m.code ≥ 256 then .error "SCMP code must not be a non canonical Unassigned code"
    else .ok ()
  | _ => .ok ()

/-- `ScionPacket::wire_valid`: header, payload, then the 16-bit payload length -/
def PacketM.wireValid (p : PacketM) : Except String Unit :=
  match p.header.wireValid with
  | .error e => .error e
  | .ok () =>
    match p.payload.wireValid with
    | .error e => .error e
    | .ok () =>
      if p.payload.requiredSize p.header.requiredSize > 65535 then
        .error "payload size exceeds maximum encodeable value of 65535 bytes"
      else .ok ()

/-! ## encoding -/

def writeFields (buf : Bytes) (ws : List (BitRange × Nat)) : Bytes := ws.foldl (fun b w => writeBits b w.1 w.2) buf

/-- `CommonHeader::encode_unchecked` -/
def encodeCommon (h : Header) (hdrLenUnits payloadSize : Nat) : Bytes :=
  writeFields (zeros CommonHeader.SIZE_BYTES)
    [(CommonHeader.VERSION_RNG, 0), (CommonHeader.TRAFFIC_CLASS_RNG, h.trafficClass),
     (CommonHeader.FLOW_ID_RNG, h.flowId), (CommonHeader.NEXT_HEADER_RNG, h.nextHeader),
     (CommonHeader.HEADER_LEN_RNG, hdrLenUnits), (CommonHeader.PAYLOAD_LEN_RNG, payloadSize),
     (CommonHeader.PATH_TYPE_RNG, h.path.typeByte), (CommonHeader.DST_ADDR_INFO_RNG, h.dstHost.nibbleByte),
     (CommonHeader.SRC_ADDR_INFO_RNG, h.srcHost.nibbleByte), (CommonHeader.RSV_RNG, 0)]

/-- `AddressHeader::encode_unchecked` -/
def encodeAddr (h : Header) : Bytes :=
  writeFields (zeros (AddressHeader.FIXED_SIZE_BITS / 8))
    [(AddressHeader.DST_ISD_RNG, h.dstIa / 2 ^ 48), (AddressHeader.DST_AS_RNG, h.dstIa % 2 ^ 48),
     (AddressHeader.SRC_ISD_RNG, h.srcIa / 2 ^ 48), (AddressHeader.SRC_AS_RNG, h.srcIa % 2 ^ 48)]
  ++ h.dstHost.encode ++ h.srcHost.encode

def encodeInfo (i : InfoFieldM) : Bytes :=
  writeFields (zeros InfoField.SIZE_BYTES)
    [(InfoField.FLAGS_RNG, i.flags), (InfoField.RSV_RNG, 0), (InfoField.SEGMENT_ID_RNG, i.segId),
     (InfoField.TIMESTAMP_RNG, i.timestamp)]

def encodeHop (h : HopFieldM) : Bytes :=
  writeAt (writeFields (zeros HopField.SIZE_BYTES)
    [(HopField.FLAGS_RNG, h.flags), (HopField.EXP_TIME_RNG, h.expTime), (HopField.CONS_INGRESS_RNG, h.consIngress),
     (HopField.CONS_EGRESS_RNG, h.consEgress)]) HopField.MAC_RNG.byteLo h.mac

/-- `StandardPath::encode_unchecked` (the reserved bits of the meta header are not written) -/
def encodeStd (p : StdPathM) : Bytes :=
  let s := p.segSizes
  writeFields (zeros StdPathMeta.SIZE_BYTES)
    [(StdPathMeta.CURR_INFO_FIELD_RNG, p.currInfo), (StdPathMeta.CURR_HOP_FIELD_RNG, p.currHop),
     (StdPathMeta.SEG0_LEN_RNG, s.1), (StdPathMeta.SEG1_LEN_RNG, s.2.1), (StdPathMeta.SEG2_LEN_RNG, s.2.2)]
  ++ (p.segments.map (fun sg => encodeInfo sg.info)).flatten
  ++ (p.segments.map (fun sg => (sg.hops.map encodeHop).flatten)).flatten

def encodePath : DpPath → Bytes
  | .standard p => encodeStd p
  | .oneHop i h1 h2 => encodeInfo i ++ encodeHop h1 ++ encodeHop h2
  | .empty => []
  | .unsupported _ d => d

/-- `ScionPacketHeader::encode_unchecked(buf, payload_size)`; `size_units` = `(required_size / 4) as u8` -/
def encodeHeader (h : Header) (payloadSize : Nat) : Bytes :=
  encodeCommon h ((h.requiredSize / 4) % 256) payloadSize ++ encodeAddr h ++ encodePath h.path

/-- the checksum a payload encoder stores: `with_pseudoheader(addr, proto, msg).add_slice(msg).checksum()`;
    alignment flags are irrelevant for the value (`Theorems/C03.checksum_alignment_independent`), the model
    evaluates the aligned case -/
def payloadChecksum (h : Header) (proto : Nat) (msg : Bytes) : Nat :=
  (Checksum.messageChecksum h.dstIa h.srcIa h.dstHost.encode h.srcHost.encode proto msg true true true).getD 0

/-- `PayloadEncode for &UdpDatagram` -/
def encodeUdp (h : Header) (sp dp : Nat) (d : Bytes) : Bytes :=
  let hdr := writeFields (zeros UdpDatagram.HEADER_SIZE_BYTES)
    [(UdpDatagram.SRC_PORT_RNG, sp), (UdpDatagram.DST_PORT_RNG, dp),
     (UdpDatagram.LENGTH_RNG, (UdpDatagram.HEADER_SIZE_BYTES + d.length) % 65536), (UdpDatagram.CHECKSUM_RNG, 0)]
  let msg := hdr ++ d
  writeBits msg UdpDatagram.CHECKSUM_RNG (payloadChecksum h PROTO_UDP msg)

/-- the per-kind SCMP encoders -/
def encodeScmp (h : Header) (m : ScmpM) (headerSize : Nat) : Bytes :=
  match scmpEncOf m.kind, scmpRowOf m.kind with
  | some e, some row =>
    let size := m.requiredSize headerSize
    let typ := match row.code with
      | some c => c
      | none => m.typ
    let ws : List (BitRange × Nat) :=
      [(fieldOf row "TYPE_RNG", typ), (fieldOf row "CODE_RNG", if e.codeFromModel then m.code else 0),
       (fieldOf row "CHECKSUM_RNG", 0)] ++
      e.zeroFields.map (fun f => (fieldOf row f, 0)) ++
      (e.modelFields.zip m.vals).map (fun fv => (fieldOf row fv.1.1, fv.2))
    let hdr := writeFields (zeros row.headerSize) ws
    let msg := hdr ++ (if e.hasData then m.data.take (size - row.headerSize) else [])
    writeBits msg (fieldOf row "CHECKSUM_RNG") (payloadChecksum h PROTO_SCMP msg)
  | _, _ => []

def encodePayload (h : Header) (p : Payload) (headerSize : Nat) : Bytes :=
  match p with
  | .raw b => b
  | .udp sp dp d => encodeUdp h sp dp d
  | .scmp m => encodeScmp h m headerSize

/-- `WireEncode::try_encode_to_vec` of `ScionPacket<T>`: `wire_valid`, then `encode_unchecked` with
    `payload_size as u16` -/
def encode (p : PacketM) : Except String Bytes :=
  match p.wireValid with
  | .error e => .error e
  | .ok () =>
    let hs := p.header.requiredSize
    let ps := p.payload.requiredSize hs
    .ok (encodeHeader p.header (ps % 65536) ++ encodePayload p.header p.payload hs)

/-! ## decoding -/

/-- `WireHostAddr::try_from_parts(addr_type, raw)` for a nibble and the raw slice of the advertised size -/
def decodeHost (nibble : Nat) (raw : Bytes) : HostAddr :=
  match addrKind nibble with
  | 0 => .v4 raw
  | 1 => .v6 raw
  | 2 => .svc (beNat (raw.take 2))
  | _ => .unknown (addrId nibble) raw

def decodeInfo (b : Bytes) : InfoFieldM :=
  ⟨readBits b InfoField.FLAGS_RNG, readBits b InfoField.SEGMENT_ID_RNG, readBits b InfoField.TIMESTAMP_RNG⟩

def decodeHop (b : Bytes) : HopFieldM :=
  ⟨readBits b HopField.FLAGS_RNG, readBits b HopField.EXP_TIME_RNG, readBits b HopField.CONS_INGRESS_RNG,
   readBits b HopField.CONS_EGRESS_RNG, (b.drop HopField.MAC_RNG.byteLo).take (HopField.MAC_RNG.byteHi - HopField.MAC_RNG.byteLo)⟩

/-- consecutive chunks of `n` bytes -/
def chunks (n : Nat) : Nat → Bytes → List Bytes
  | 0, _ => []
  | k + 1, b => b.take n :: chunks n k (b.drop n)

/-- `StandardPath::from_view`: info fields zipped with the three segment sizes in order -/
def decodeStd (p : Bytes) : StdPathM :=
  let s := segFields p 0
  let ic := infoCount s.1 s.2.1 s.2.2
  let hc := hopCount s.1 s.2.1 s.2.2
  let infos := (chunks InfoField.SIZE_BYTES ic (p.drop StdPathMeta.SIZE_BYTES)).map decodeInfo
  let hops := (chunks HopField.SIZE_BYTES hc (p.drop (StdPathMeta.SIZE_BYTES + ic * InfoField.SIZE_BYTES))).map decodeHop
  let sizes := [s.1, s.2.1, s.2.2]
  let rec build : List InfoFieldM → List Nat → List HopFieldM → List Segment
    | i :: is, n :: ns, hs => ⟨i, hs.take n⟩ :: build is ns (hs.drop n)
    | _, _, _ => []
  ⟨readBits p StdPathMeta.CURR_INFO_FIELD_RNG, readBits p StdPathMeta.CURR_HOP_FIELD_RNG, build infos sizes hops⟩

/-- `DpPath::from_view(&view.path())` on the path bytes -/
def decodePath (pt : Nat) (p : Bytes) : DpPath :=
  match pathKind pt with
  | .empty => .empty
  | .scion => .standard (decodeStd p)
  | .oneHop =>
    .oneHop (decodeInfo (p.take InfoField.SIZE_BYTES))
      (decodeHop ((p.drop OneHopPath.HOP_FIELD_1.byteLo).take HopField.SIZE_BYTES))
      (decodeHop ((p.drop OneHopPath.HOP_FIELD_2.byteLo).take HopField.SIZE_BYTES))
  | .other t => .unsupported t p

/-- `ScionPacketHeader::try_from_view` on an accepted header with layout `l` -/
def decodeHeaderWith (v : Bytes) (l : HdrLayout) : Header :=
  let f := commonFields v
  let hostOff := CommonHeader.SIZE_BYTES + AddressHeader.FIXED_SIZE_BITS / 8
  let cb := v.take CommonHeader.SIZE_BYTES
  { trafficClass := readBits cb CommonHeader.TRAFFIC_CLASS_RNG
    flowId := readBits cb CommonHeader.FLOW_ID_RNG
    nextHeader := readBits cb CommonHeader.NEXT_HEADER_RNG
    dstIa := readBits v (AddressHeader.DST_IA_RNG.shift CommonHeader.SIZE_BYTES)
    srcIa := readBits v (AddressHeader.SRC_IA_RNG.shift CommonHeader.SIZE_BYTES)
    dstHost := decodeHost f.dt ((v.drop hostOff).take l.dstLen)
    srcHost := decodeHost f.st ((v.drop (hostOff + l.dstLen)).take l.srcLen)
    path := decodePath l.pathType ((v.drop l.pathOff).take (l.headerLen - l.pathOff)) }

def errOf : VErr → String
  | .tooSmall a r n => s!"small {a} {r} {n}"
  | .other m => s!"other {m}"
  | .panic => "panic"

/-- `ScmpMessage::from_view` on the message bytes `s` of kind `row` -/
def decodeScmp (s : Bytes) : ScmpM :=
  let row := scmpRow (readBits (s.take scmpMinSize) ScmpMessage.TYPE_RNG)
  match scmpEncOf row.name with
  | some e =>
    { kind := row.name
      typ := readBits s ScmpMessage.TYPE_RNG
      code := if e.codeFromModel then readBits s ScmpMessage.CODE_RNG else 0
      vals := e.modelFields.map (fun f => readBits s (fieldOf row f.1) % 2 ^ f.2)
      data := if e.hasData then s.drop row.headerSize else [] }
  | none => ⟨row.name, 0, 0, [], []⟩

inductive PktKind | raw | udp | scmp
deriving Repr, DecidableEq

/-- `TryFromView::try_from_slice` of `ScionRawPacket` / `ScionUdpPacket` / `ScionScmpPacket`:
    returns the model and the number of bytes consumed -/
def decode (k : PktKind) (buf : Bytes) : Except VErr (PacketM × Nat) :=
  let kind := match k with
    | .raw => ViewKind.rawPacket
    | .udp => ViewKind.udpPacket
    | .scmp => ViewKind.scmpPacket
  match requiredSize kind buf, Header.layout buf with
  | .ok n, .ok l =>
    let v := buf.take n
    let hdr := decodeHeaderWith (v.take l.headerLen) l
    let pay := packetPayload v l
    match k with
    | .raw => .ok (⟨hdr, .raw pay⟩, n)
    | .udp =>
      let u := pay.take (min pay.length (readBits pay UdpDatagram.LENGTH_RNG))
      .ok (⟨hdr, .udp (readBits u UdpDatagram.SRC_PORT_RNG) (readBits u UdpDatagram.DST_PORT_RNG)
                    (u.drop UdpDatagram.HEADER_SIZE_BYTES)⟩, n)
    | .scmp =>
      let row := scmpRow (readBits (pay.take scmpMinSize) ScmpMessage.TYPE_RNG)
      let s := pay.take (if row.varLen then pay.length else row.headerSize)
      .ok (⟨hdr, .scmp (decodeScmp s)⟩, n)
  | .error e, _ => .error e
  | _, .error e => .error e

end ScionVerif.Packet
