/-!
# AES-128 and AES-CMAC for one 16-byte block (executable, core-only)

Used only to *run* the hop-field MAC in the model drivers (`calculate_hop_mac` in
`sciparse/src/proto/dataplane_path/standard/mac.rs` feeds exactly one 16-byte block to
`Cmac<Aes128>` and keeps the first 6 bytes).  No theorem depends on this file: in the theorems the MAC is
an arbitrary function parameter.  The correspondence harness compares it with the `cmac`/`aes` crates.
-/
namespace ScionVerif.AesCmac

def sboxTable : Array UInt8 := #[
  99, 124, 119, 123, 242, 107, 111, 197, 48, 1, 103, 43, 254, 215, 171, 118,
  202, 130, 201, 125, 250, 89, 71, 240, 173, 212, 162, 175, 156, 164, 114, 192,
  183, 253, 147, 38, 54, 63, 247, 204, 52, 165, 229, 241, 113, 216, 49, 21,
  4, 199, 35, 195, 24, 150, 5, 154, 7, 18, 128, 226, 235, 39, 178, 117,
  9, 131, 44, 26, 27, 110, 90, 160, 82, 59, 214, 179, 41, 227, 47, 132,
  83, 209, 0, 237, 32, 252, 177, 91, 106, 203, 190, 57, 74, 76, 88, 207,
  208, 239, 170, 251, 67, 77, 51, 133, 69, 249, 2, 127, 80, 60, 159, 168,
  81, 163, 64, 143, 146, 157, 56, 245, 188, 182, 218, 33, 16, 255, 243, 210,
  205, 12, 19, 236, 95, 151, 68, 23, 196, 167, 126, 61, 100, 93, 25, 115,
  96, 129, 79, 220, 34, 42, 144, 136, 70, 238, 184, 20, 222, 94, 11, 219,
  224, 50, 58, 10, 73, 6, 36, 92, 194, 211, 172, 98, 145, 149, 228, 121,
  231, 200, 55, 109, 141, 213, 78, 169, 108, 86, 244, 234, 101, 122, 174, 8,
  186, 120, 37, 46, 28, 166, 180, 198, 232, 221, 116, 31, 75, 189, 139, 138,
  112, 62, 181, 102, 72, 3, 246, 14, 97, 53, 87, 185, 134, 193, 29, 158,
  225, 248, 152, 17, 105, 217, 142, 148, 155, 30, 135, 233, 206, 85, 40, 223,
  140, 161, 137, 13, 191, 230, 66, 104, 65, 153, 45, 15, 176, 84, 187, 22]

def sbox (b : UInt8) : UInt8 := sboxTable.getD b.toNat 0

def xtime (b : UInt8) : UInt8 := if b &&& 0x80 != 0 then (b <<< 1) ^^^ 0x1b else b <<< 1

abbrev Block := Array UInt8   -- 16 bytes, column-major as in FIPS-197 (byte i = row i%4, column i/4)

def xorBlock (a b : Block) : Block := (Array.range 16).map (fun i => a.getD i 0 ^^^ b.getD i 0)

def subBytes (s : Block) : Block := s.map sbox

def shiftRows (s : Block) : Block :=
  (Array.range 16).map (fun i => let r := i % 4; let c := i / 4; s.getD (((c + r) % 4) * 4 + r) 0)

def mixColumn (a0 a1 a2 a3 : UInt8) : UInt8 × UInt8 × UInt8 × UInt8 :=
  (xtime a0 ^^^ (xtime a1 ^^^ a1) ^^^ a2 ^^^ a3,
   a0 ^^^ xtime a1 ^^^ (xtime a2 ^^^ a2) ^^^ a3,
   a0 ^^^ a1 ^^^ xtime a2 ^^^ (xtime a3 ^^^ a3),
   (xtime a0 ^^^ a0) ^^^ a1 ^^^ a2 ^^^ xtime a3)

def mixColumns (s : Block) : Block := Id.run do
  let mut out : Array UInt8 := Array.replicate 16 0
  for c in [0:4] do
    let (b0, b1, b2, b3) := mixColumn (s.getD (4*c) 0) (s.getD (4*c+1) 0) (s.getD (4*c+2) 0) (s.getD (4*c+3) 0)
    out := (((out.set! (4*c) b0).set! (4*c+1) b1).set! (4*c+2) b2).set! (4*c+3) b3
  return out

def rcon : Array UInt8 := #[0x01, 0x02, 0x04, 0x08, 0x10, 0x20, 0x40, 0x80, 0x1b, 0x36]

/-- 11 round keys of 16 bytes -/
def expandKey (key : Block) : Array Block := Id.run do
  let mut w : Array UInt8 := key   -- 176 bytes at the end
  for i in [4:44] do
    let t0 := w.getD (4*(i-1)) 0; let t1 := w.getD (4*(i-1)+1) 0
    let t2 := w.getD (4*(i-1)+2) 0; let t3 := w.getD (4*(i-1)+3) 0
    let (u0, u1, u2, u3) :=
      if i % 4 == 0 then (sbox t1 ^^^ rcon.getD (i/4 - 1) 0, sbox t2, sbox t3, sbox t0) else (t0, t1, t2, t3)
    w := w.push (w.getD (4*(i-4)) 0 ^^^ u0)
    w := w.push (w.getD (4*(i-4)+1) 0 ^^^ u1)
    w := w.push (w.getD (4*(i-4)+2) 0 ^^^ u2)
    w := w.push (w.getD (4*(i-4)+3) 0 ^^^ u3)
  return (Array.range 11).map (fun r => w.extract (16*r) (16*r+16))

def encrypt (key pt : Block) : Block := Id.run do
  let rk := expandKey key
  let mut s := xorBlock pt (rk.getD 0 #[])
  for r in [1:10] do
    s := xorBlock (mixColumns (shiftRows (subBytes s))) (rk.getD r #[])
  return xorBlock (shiftRows (subBytes s)) (rk.getD 10 #[])

/-- doubling in GF(2^128) (CMAC subkey generation) -/
def dbl (b : Block) : Block :=
  let msb := b.getD 0 0 &&& 0x80 != 0
  let sh : Block := (Array.range 16).map (fun i =>
    (b.getD i 0 <<< 1) ||| (if i + 1 < 16 then b.getD (i+1) 0 >>> 7 else 0))
  if msb then sh.set! 15 (sh.getD 15 0 ^^^ 0x87) else sh

/-- AES-CMAC of exactly one complete 16-byte block -/
def cmac16 (key msg : Block) : Block :=
  let l := encrypt key (Array.replicate 16 0)
  let k1 := dbl l
  encrypt key (xorBlock msg k1)

def be (n k : Nat) : List UInt8 := (List.range k).map (fun i => UInt8.ofNat (n / 256 ^ (k - 1 - i) % 256))

/-- `algo::calculate_hop_mac`: first 6 bytes of CMAC over (0,0,beta,ts,0,exp,consIngress,consEgress,0,0), as a 48-bit number -/
def hopMac (key : List UInt8) (beta ts exp ci ce : Nat) : Nat :=
  let input : List UInt8 := [0, 0] ++ be beta 2 ++ be ts 4 ++ [0] ++ be exp 1 ++ be ci 2 ++ be ce 2 ++ [0, 0]
  let out := cmac16 key.toArray input.toArray
  (out.extract 0 6).foldl (fun acc b => acc * 256 + b.toNat) 0

end ScionVerif.AesCmac
