import ScionVerif.Model.Issues
/-!
# Model of `PathIssueManager` (`scion-stack/src/path/manager.rs`): issue cache + FIFO

`cache : HashMap<u64, IssueMarker>` is an association list with distinct keys (insertion replaces),
`fifo_issues : VecDeque<(u64, SystemTime)>` a list (front = head).  The dedup id (`DefaultHasher` over
the target and the `Display` text of the issue) is an input.
-/
namespace ScionVerif.PathMgr

structure IssueMgr where
  cache : List (Nat × Marker) := []
  fifo : List (Nat × Nat) := []
deriving Repr

def IssueMgr.lookup (m : IssueMgr) (id : Nat) : Option Marker :=
  (m.cache.find? (·.1 == id)).map (·.2)

/-- `HashMap::insert` -/
def cacheInsert (c : List (Nat × Marker)) (id : Nat) (mk : Marker) : List (Nat × Marker) :=
  (id, mk) :: c.filter (·.1 != id)

/-- the `while let Some(..) = fifo_issues.pop_front()` loop of `pop_front`: stale entries (the issue is
    no longer cached, or its cached marker carries another timestamp) are skipped, the first live
    entry is evicted from the cache.  Returns (remaining FIFO, cache). -/
def popLoop (cache : List (Nat × Marker)) : List (Nat × Nat) → List (Nat × Nat) × List (Nat × Marker)
  | [] => ([], cache)
  | (id, ts) :: rest =>
    match (cache.find? (·.1 == id)).map (·.2) with
    | some ex =>
      if ex.ts = ts then (rest, cache.filter (·.1 != id))
      else popLoop cache rest
    | none => popLoop cache rest

/-- `pop_front` -/
def IssueMgr.popFront (m : IssueMgr) : IssueMgr :=
  let r := popLoop m.cache m.fifo
  { m with fifo := r.1, cache := r.2 }

/-- the deduplication test of `add_issue` -/
def IssueMgr.isDup (m : IssueMgr) (window id : Nat) (mrk : Marker) : Bool :=
  match m.lookup id with
  | some ex => decide (mrk.ts - ex.ts < window)   -- duration_since(..).unwrap_or(0)
  | none => false

/-- `if self.cache.len() >= self.max_entries { self.pop_front(); }` -/
def IssueMgr.evictIfFull (m : IssueMgr) (maxEntries : Nat) : IssueMgr :=
  if m.cache.length ≥ maxEntries then m.popFront else m

/-- `fifo_issues.push_back((id, ts)); cache.insert(id, marker)` -/
def IssueMgr.insert (m : IssueMgr) (id : Nat) (mrk : Marker) : IssueMgr :=
  { m with fifo := m.fifo ++ [(id, mrk.ts)], cache := cacheInsert m.cache id mrk }

/-- `add_issue`; the Boolean says whether the issue was broadcast (not a duplicate) -/
def IssueMgr.addIssue (m : IssueMgr) (maxEntries window : Nat) (id : Nat) (mrk : Marker) :
    IssueMgr × Bool :=
  if m.isDup window id mrk then (m, false)
  else ((m.evictIfFull maxEntries).insert id mrk, true)

end ScionVerif.PathMgr
