import ScionVerif.Model.SimRouter
/-!
# Beaconing: hop-field MAC chaining along a path segment

Mirrors `AsEntry::update_macs` / `mac_chaining_beta` (sciparse `scion/segment.rs`, `mac.rs`): the MAC of the
k-th AS entry is computed over the accumulator β_k, and β_{k+1} = β_k XOR (first two bytes of MAC_k).
Peer entries are not modelled here (peering is a known finding of C01/C13).
-/
namespace ScionVerif.Router

/-- what one AS contributes to a segment during beaconing -/
structure Entry where
  ia : Nat
  key : List UInt8
  consIngress : Nat
  consEgress : Nat
  exp : Nat
deriving Repr

/-- hop fields of a segment with info timestamp `ts`, starting with accumulator `beta` -/
def mkHops (macf : MacF) (ts : Nat) : Nat → List Entry → List Hop
  | _, [] => []
  | beta, e :: es =>
    let m := macf e.key beta ts e.exp e.consIngress e.consEgress
    { inAlert := false, egAlert := false, exp := e.exp, consIngress := e.consIngress,
      consEgress := e.consEgress, mac := m } :: mkHops macf ts (betaStep beta m) es

/-- the accumulator after `k` entries -/
def betaAt (macf : MacF) (ts : Nat) : Nat → List Entry → Nat → Nat
  | beta, _, 0 => beta
  | beta, [], _ + 1 => beta
  | beta, e :: es, k + 1 => betaAt macf ts (betaStep beta (macf e.key beta ts e.exp e.consIngress e.consEgress)) es k

end ScionVerif.Router
