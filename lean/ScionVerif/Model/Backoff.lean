/-!
# Model of `scion-sdk-utils/src/backoff.rs` `ExponentialBackoff::duration`

`min_delay · factor^attempt + u · jitter`, clamped to `max_delay` (`u ∈ [0,1)` is `rand::random`).
The real computation is in f32; the path-set model therefore takes the resulting duration as an
explicit argument of a failed fetch.  This file states the *ideal* value in exact arithmetic
(nanoseconds, factor and `u` as fractions) – the harness checks that the observed f32 duration lies
between `ideal … 0 1` and `ideal … 1 1` up to f32 rounding – and the bounds the C06 theorems use.
-/
namespace ScionVerif.PathMgr

/-- ideal backoff in ns; `fNum/fDen` = factor, `uNum/uDen` = the random number -/
def backoffIdeal (minD maxD fNum fDen jitter : Nat) (attempt : Nat) (uNum uDen : Nat) : Nat :=
  min (minD * fNum ^ attempt / fDen ^ attempt + jitter * uNum / uDen) maxD

theorem backoffIdeal_le_max (minD maxD fNum fDen jitter attempt uNum uDen : Nat) :
    backoffIdeal minD maxD fNum fDen jitter attempt uNum uDen ≤ maxD := by
  unfold backoffIdeal; exact Nat.min_le_right _ _

theorem backoffIdeal_ge_min (minD maxD fNum fDen jitter attempt uNum uDen : Nat)
    (hf : fDen ≤ fNum) (hd : 0 < fDen) (hm : minD ≤ maxD) :
    minD ≤ backoffIdeal minD maxD fNum fDen jitter attempt uNum uDen := by
  unfold backoffIdeal
  have hpow : fDen ^ attempt ≤ fNum ^ attempt := Nat.pow_le_pow_left hf attempt
  have hpos : 0 < fDen ^ attempt := Nat.pow_pos hd
  have h1 : minD ≤ minD * fNum ^ attempt / fDen ^ attempt := by
    rw [Nat.le_div_iff_mul_le hpos]
    exact Nat.mul_le_mul_left minD hpow
  exact Nat.le_min.mpr ⟨Nat.le_trans h1 (Nat.le_add_right _ _), hm⟩

/-- the duration a failed fetch waits: `backoff.duration(n).max(min_refetch_delay)` -/
def failDelay (d minRefetchDelay : Nat) : Nat := max d minRefetchDelay

end ScionVerif.PathMgr
