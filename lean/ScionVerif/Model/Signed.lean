import ScionVerif.Generated.Signed
/-!
# Model of `sciparse::scion::signed_message` and of the signature chaining of `sciparse::scion::segment`

Mirrors, statement by statement,

* `SignedMessage::sign`      (header construction, the `as i32` cast of the associated-data length,
                              signature over `header_and_body ‖ associated data…`),
* `SignedMessage::validate`  (check order: HeaderAndBody decode → Header decode → key provider →
                              `header.associated_data_length as usize != associated_data.0` →
                              digest algorithm → DER signature → verification),
* `SignedMessage::decode_validated` (body / metadata type checks after validation),
* `AsEntry::associated_data` in **two** forms: the code's `take_while(|e| e.entry != *self)` form
  (`assocTW`) and the index form of the SCION specification (`assocIdx`),
* `AsEntry::signature`, `SignedPathSegment::add_entry_no_mac_update`, `try_into_signed_segment`
  (`addEntry`, `build`), `SignedAsEntry::validate_signature` (`validateEntry`).

What is *not* modelled but a parameter (with hypotheses stated where a theorem needs them):

* the protobuf layer (`prost` encode/decode of `HeaderAndBodyInternal` and `Header`): `Codec`;
* ECDSA-P256 with SHA-256/384/512 (`p256`, `ecdsa`, `sha2`): `Scheme` — `verify pk alg msg σ` is the
  verdict of `verify_prehash(hash_alg(msg), from_der(σ))`; that hashing the chunks one after the other
  equals hashing their concatenation is the (standard) property of the `Digest::update` API and is part
  of this abstraction.

Core-only (no Mathlib) so that the driver links as a native executable.
-/
namespace ScionVerif.Signed
open ScionVerif.Generated.Signed

abbrev Bytes := List UInt8

/-! ## integer casts -/

/-- `n as i32` for a `usize` (two's complement wrap to `AD_LEN_BITS` bits) -/
def usizeToI32 (n : Nat) : Int :=
  let m := n % 2 ^ AD_LEN_BITS
  if m < 2 ^ (AD_LEN_BITS - 1) then (m : Int) else (m : Int) - (2 ^ AD_LEN_BITS : Nat)

/-- `x as usize` for an `i32` (sign extension to `USIZE_BITS` bits) -/
def i32ToUsize (x : Int) : Nat :=
  if 0 ≤ x then x.toNat else ((2 ^ USIZE_BITS : Nat) + x).toNat

/-! ## the signed message -/

/-- `scion_protobuf::crypto::v1::Header` -/
structure Header where
  /-- open enumeration (`i32`) -/
  alg : Int
  keyId : Bytes
  /-- `Option<Timestamp { seconds, nanos }>` -/
  ts : Option (Int × Int)
  metadata : Bytes
  /-- `i32` -/
  adLen : Int
deriving DecidableEq, Repr

structure SignedMsg where
  hb : Bytes
  sig : Bytes
deriving DecidableEq, Repr

inductive Alg | sha256 | sha384 | sha512
deriving DecidableEq, Repr

def Alg.toI32 : Alg → Int
  | .sha256 => ALG_SHA256
  | .sha384 => ALG_SHA384
  | .sha512 => ALG_SHA512

/-- `SignatureAlgorithm::try_from(i32).ok()` followed by the `match` of `validate` -/
def algOfI32 (x : Int) : Option Alg :=
  if x = ALG_SHA256 then some .sha256
  else if x = ALG_SHA384 then some .sha384
  else if x = ALG_SHA512 then some .sha512
  else none

/-- the protobuf layer -/
structure Codec where
  /-- `HeaderAndBodyInternal { header, body }.encode_to_vec()` -/
  encHB : Bytes → Bytes → Bytes
  /-- `HeaderAndBodyInternal::decode` -/
  decHB : Bytes → Option (Bytes × Bytes)
  /-- `Header::encode_to_vec` -/
  encHdr : Header → Bytes
  /-- `Header::decode` -/
  decHdr : Bytes → Option Header

/-- decoding inverts encoding (the only property of `prost` the theorems use) -/
structure Codec.Lawful (c : Codec) : Prop where
  hb : ∀ h b, c.decHB (c.encHB h b) = some (h, b)
  hdr : ∀ h, c.decHdr (c.encHdr h) = some h

/-- the signature scheme -/
structure Scheme (PK SK : Type) where
  pk : SK → PK
  /-- `key.sign_prehash(hash(msg))` rendered as DER; `none` = `signature::Error` -/
  sign : SK → Alg → Bytes → Option Bytes
  /-- `Signature::from_der` succeeds -/
  wf : Bytes → Bool
  /-- `verifying_key.verify_prehash(hash(msg), sig)` succeeds -/
  verify : PK → Alg → Bytes → Bytes → Bool

/-- correctness of the scheme: what was signed verifies under the matching key -/
def Scheme.Correct {PK SK : Type} (S : Scheme PK SK) : Prop :=
  ∀ sk a m σ, S.sign sk a m = some σ → S.wf σ = true ∧ S.verify (S.pk sk) a m σ = true

/-- error classes of `ValidateError` (`key` = whatever the key provider returned) -/
inductive VErr
  | invalidHeaderAndBody
  | invalidHeader
  | keyMissing
  | invalidValidationKeyId
  | adLen (expected actual : Nat)
  | invalidDigestAlgorithm
  | signatureMalformed
  | verificationFailed
  | invalidBody
  | invalidMetadata
deriving DecidableEq, Repr

/-- total byte length of a chunk list (`final_iter.clone().map(len).sum()`) -/
def total (l : List Bytes) : Nat := (l.map List.length).sum

/-- `SignedMessage::sign(key, digest_algo, timestamp, verification_key_id, (adN, ad), message, metadata)`;
`keyId` is the already encoded `VerificationKeyId`, `body`/`metadata` the encoded messages. -/
def sign {PK SK : Type} (c : Codec) (S : Scheme PK SK) (sk : SK) (a : Alg) (timestamp : Nat)
    (keyId : Option Bytes) (adN : Nat) (ad : List Bytes) (body metadata : Bytes) : Option SignedMsg :=
  let hdr : Header :=
    { alg := a.toI32, keyId := keyId.getD [], ts := some (timestamp, 0), metadata := metadata,
      adLen := usizeToI32 adN }
  let hb := c.encHB (c.encHdr hdr) body
  match S.sign sk a (hb ++ ad.flatten) with
  | none => none
  | some σ => some { hb := hb, sig := σ }

/-- `SignedMessage::validate(key_provider, (adN, ad))` — same check order as the code -/
def validate {PK SK : Type} (c : Codec) (S : Scheme PK SK) (kp : Bytes → Except VErr PK)
    (m : SignedMsg) (adN : Nat) (ad : List Bytes) : Except VErr (Header × Bytes) :=
  match c.decHB m.hb with
  | none => .error .invalidHeaderAndBody
  | some (hbytes, body) =>
    match c.decHdr hbytes with
    | none => .error .invalidHeader
    | some hdr =>
      match kp hdr.keyId with
      | .error e => .error e
      | .ok pk =>
        if i32ToUsize hdr.adLen ≠ adN then .error (.adLen (i32ToUsize hdr.adLen) adN)
        else
          match algOfI32 hdr.alg with
          | none => .error .invalidDigestAlgorithm
          | some a =>
            if S.wf m.sig = false then .error .signatureMalformed
            else if S.verify pk a (m.hb ++ ad.flatten) m.sig = true then .ok (hdr, body)
            else .error .verificationFailed

/-- `SignedMessage::decode_validated::<Body, Metadata>`: `decBody`/`decMeta` are the `prost` decoders of the
requested types (`none` = `DecodeError`). -/
def decodeValidated {PK SK B M : Type} (c : Codec) (S : Scheme PK SK) (kp : Bytes → Except VErr PK)
    (decBody : Bytes → Option B) (decMeta : Bytes → Option M)
    (m : SignedMsg) (adN : Nat) (ad : List Bytes) : Except VErr (B × Option M) :=
  match validate c S kp m adN ad with
  | .error e => .error e
  | .ok (hdr, body) =>
    match decBody body with
    | none => .error .invalidBody
    | some b =>
      if hdr.metadata.isEmpty then .ok (b, none)
      else match decMeta hdr.metadata with
        | none => .error .invalidMetadata
        | some md => .ok (b, some md)

/-! ## segments: associated data, construction, validation -/

/-- `SignedAsEntry { entry, signed }` over an arbitrary entry type with decidable equality
(`AsEntry: PartialEq`) -/
structure SEntry (α : Type) where
  entry : α
  signed : SignedMsg
deriving DecidableEq, Repr

/-- `PathSegment<SignedAsEntry>`; `info` = `info.encoded` -/
structure Seg (α : Type) where
  info : Bytes
  entries : List (SEntry α)
deriving DecidableEq, Repr

/-- `[header_and_body, signature]` of every entry, in order -/
def chunks {α : Type} (es : List (SEntry α)) : List Bytes :=
  es.flatMap fun e => [e.signed.hb, e.signed.sig]

/-- associated data, **index form** (SCION specification / proto comment):
`segment_info ‖ (hb, sig) of entries 0..i-1` -/
def assocIdx {α : Type} (seg : Seg α) (i : Nat) : List Bytes :=
  seg.info :: chunks (seg.entries.take i)

/-- associated data, **the code's form**: `once(info.encoded).chain(entries.take_while(|e| e.entry != *self)…)` -/
def assocTW {α : Type} [DecidableEq α] (seg : Seg α) (a : α) : List Bytes :=
  seg.info :: chunks (seg.entries.takeWhile fun e => e.entry != a)

/-- `AsEntry::signature` + `add_entry_no_mac_update`: sign `a` (whose encoded `AsEntrySignedBody` is `body`)
with SHA-256, no metadata (`&()` encodes to the empty string), over the code's associated data of the
segment *so far*, and push it. -/
def addEntry {PK SK α : Type} [DecidableEq α] (c : Codec) (S : Scheme PK SK) (seg : Seg α)
    (a : α) (body : Bytes) (sk : SK) (keyId : Option Bytes) (timestamp : Nat) : Option (Seg α) :=
  let ad := assocTW seg a
  match sign c S sk .sha256 timestamp keyId (total ad) ad body [] with
  | none => none
  | some m => some { seg with entries := seg.entries ++ [{ entry := a, signed := m }] }

/-- one AS of a segment under construction -/
structure Item (SK α : Type) where
  entry : α
  sk : SK
  keyId : Option Bytes

/-- `try_into_signed_segment` / `SignedPathSegment::new` after the MAC update: fold of `addEntry` -/
def buildFrom {PK SK α : Type} [DecidableEq α] (c : Codec) (S : Scheme PK SK) (encBody : α → Bytes)
    (timestamp : Nat) : Seg α → List (Item SK α) → Option (Seg α)
  | seg, [] => some seg
  | seg, it :: rest =>
    match addEntry c S seg it.entry (encBody it.entry) it.sk it.keyId timestamp with
    | none => none
    | some seg' => buildFrom c S encBody timestamp seg' rest

def build {PK SK α : Type} [DecidableEq α] (c : Codec) (S : Scheme PK SK) (encBody : α → Bytes)
    (info : Bytes) (timestamp : Nat) (items : List (Item SK α)) : Option (Seg α) :=
  buildFrom c S encBody timestamp { info := info, entries := [] } items

/-- `SignedAsEntry::validate_signature(key_provider, path_segment)` for the entry at position `i`
(the code is handed `&self`, a reference to that entry; it finds "its position" by value equality) -/
def validateEntry {PK SK α : Type} [DecidableEq α] (c : Codec) (S : Scheme PK SK)
    (kp : Bytes → Except VErr PK) (seg : Seg α) (e : SEntry α) : Except VErr (Header × Bytes) :=
  let ad := assocTW seg e.entry
  validate c S kp e.signed (total ad) ad

/-- what the specification asks for: validation of entry `i` against the index-form associated data -/
def validateEntryIdx {PK SK α : Type} (c : Codec) (S : Scheme PK SK)
    (kp : Bytes → Except VErr PK) (seg : Seg α) (i : Nat) (e : SEntry α) : Except VErr (Header × Bytes) :=
  let ad := assocIdx seg i
  validate c S kp e.signed (total ad) ad

end ScionVerif.Signed
