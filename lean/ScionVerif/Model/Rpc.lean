import ScionVerif.Model.Signed
/-!
# Model of the RPC conversions: `segment/rpc.rs`, `ScionPath::{try_from_rpc,to_rpc}`, `path/metadata.rs`

The protobuf messages are structures mirroring the `prost` generated types (unsigned fields as `Nat`,
signed ones as `Int`; an "arbitrary RPC message" is an arbitrary value of these structures – the
theorems do not even need the fields to fit their wire width).  The conversions are total functions
into `Except RErr _`; every Rust panic site of the conversion code is an explicit `RErr.panic`
(`hop_field.mac[..6]` + `.expect(..)`, `Self::local(..).expect(..)`, the `usize` subtraction
`interface_count / 2 - 1`), so that "never panics" is a theorem and not a convention.

Parameters (not modelled): `prost` decode/encode of the nested messages (`PCodec`), the data-plane path
parser `StandardPathView::try_from_slice` and the `SocketAddr` text codec (`PathEnv`).
-/
namespace ScionVerif.Rpc
open ScionVerif.Generated.Signed ScionVerif.Signed

/-- error classes of `FromRpcError` (one per message text) + `panic` -/
inductive RErr
  | macLen | expTime | hfIngress | hfEgress | ingressMtu | missingHopField
  | peerInterface | peerMtu | missingPeerHopField
  | missingSigned | decodeHB | decodeBody | missingHopEntry
  | decodeInfo | timestamp | segmentId
  | wildcardEmpty | emptyPath | rawParse | rawExtra | nextHopParse | ifaceCount | ifaceId
  | missingExpiration | mtu
  | panic
deriving DecidableEq, Repr

/-- `Iterator<Item = Result<_, _>>::collect::<Result<Vec<_>, _>>()`: first error wins -/
def mapE {α β ε : Type} (f : α → Except ε β) : List α → Except ε (List β)
  | [] => .ok []
  | a :: as =>
    match f a with
    | .error e => .error e
    | .ok b =>
      match mapE f as with
      | .error e => .error e
      | .ok bs => .ok (b :: bs)

/-- `uN::try_from(x)` for an unsigned `x` -/
def tryU (x bits : Nat) (e : RErr) : Except RErr Nat :=
  if x < 2 ^ bits then .ok x else .error e

/-! ## segments -/

structure RHopField where
  ingress : Nat
  egress : Nat
  expTime : Nat
  mac : Bytes
deriving DecidableEq, Repr

structure RHopEntry where
  hopField : Option RHopField
  ingressMtu : Nat
deriving DecidableEq, Repr

structure RPeerEntry where
  peerIsdAs : Nat
  peerInterface : Nat
  peerMtu : Nat
  hopField : Option RHopField
deriving DecidableEq, Repr

/-- `AsEntrySignedBody` (the `extensions` field is ignored by the conversion) -/
structure RBody where
  isdAs : Nat
  nextIsdAs : Nat
  hopEntry : Option RHopEntry
  peers : List RPeerEntry
  mtu : Nat
deriving DecidableEq, Repr

/-- `control_plane::v1::AsEntry` (the `unsigned` field is ignored by the conversion) -/
structure RAsEntry where
  signed : Option SignedMsg
deriving DecidableEq, Repr

structure RSegInfo where
  timestamp : Int
  segmentId : Nat
deriving DecidableEq, Repr

structure RSegment where
  segmentInfo : Bytes
  asEntries : List RAsEntry
deriving DecidableEq, Repr

structure HopField where
  exp : Nat
  ingress : Nat
  egress : Nat
  mac : Bytes
deriving DecidableEq, Repr

structure HopEntry where
  ingressMtu : Nat
  hopField : HopField
deriving DecidableEq, Repr

structure PeerEntry where
  peer : Nat
  peerInterface : Nat
  peerMtu : Nat
  hopField : HopField
deriving DecidableEq, Repr

structure AsEntry where
  local_ : Nat
  next : Nat
  mtu : Nat
  hopEntry : HopEntry
  peers : List PeerEntry
  extensions : Bytes
  unsignedExtensions : Bytes
deriving DecidableEq, Repr

structure Info where
  timestamp : Nat
  segmentId : Nat
  encoded : Bytes
deriving DecidableEq, Repr

structure Segment where
  info : Info
  entries : List (SEntry AsEntry)
deriving DecidableEq, Repr

/-- the protobuf layer used by the segment conversions -/
structure PCodec where
  c : Codec
  decBody : Bytes → Option RBody
  encBody : RBody → Bytes
  decInfo : Bytes → Option RSegInfo
  encInfo : RSegInfo → Bytes

structure PCodec.Lawful (pc : PCodec) : Prop where
  c : pc.c.Lawful
  body : ∀ b, pc.decBody (pc.encBody b) = some b
  info : ∀ i, pc.decInfo (pc.encInfo i) = some i

/-- `hop_field.mac[..MAC_SLICE].try_into().expect(..)`: slicing panics when the vector is shorter,
`expect` panics when the slice is not `MAC_ARRAY_LEN` long -/
def macArray (mac : Bytes) : Except RErr Bytes :=
  if mac.length < MAC_SLICE then .error .panic
  else if (mac.take MAC_SLICE).length = MAC_ARRAY_LEN then .ok (mac.take MAC_SLICE)
  else .error .panic

/-- `SegmentHopField::try_from_rpc` -/
def hopFieldFromRpc (h : RHopField) : Except RErr HopField :=
  if h.mac.length ≠ MAC_LEN then .error .macLen
  else
    match tryU h.expTime HF_EXP_BITS .expTime with
    | .error e => .error e
    | .ok exp =>
      match tryU h.ingress HF_INGRESS_BITS .hfIngress with
      | .error e => .error e
      | .ok ing =>
        match tryU h.egress HF_EGRESS_BITS .hfEgress with
        | .error e => .error e
        | .ok eg =>
          match macArray h.mac with
          | .error e => .error e
          | .ok m => .ok { exp := exp, ingress := ing, egress := eg, mac := m }

/-- `HopEntry::try_from_rpc` -/
def hopEntryFromRpc (h : RHopEntry) : Except RErr HopEntry :=
  match tryU h.ingressMtu HE_INGRESS_MTU_BITS .ingressMtu with
  | .error e => .error e
  | .ok mtu =>
    match h.hopField with
    | none => .error .missingHopField
    | some hf =>
      match hopFieldFromRpc hf with
      | .error e => .error e
      | .ok hf' => .ok { ingressMtu := mtu, hopField := hf' }

/-- `PeerEntry::try_from_rpc` -/
def peerFromRpc (p : RPeerEntry) : Except RErr PeerEntry :=
  match tryU p.peerInterface PE_IF_BITS .peerInterface with
  | .error e => .error e
  | .ok pif =>
    match tryU p.peerMtu PE_MTU_BITS .peerMtu with
    | .error e => .error e
    | .ok pmtu =>
      match p.hopField with
      | none => .error .missingPeerHopField
      | some hf =>
        match hopFieldFromRpc hf with
        | .error e => .error e
        | .ok hf' => .ok { peer := p.peerIsdAs, peerInterface := pif, peerMtu := pmtu, hopField := hf' }

/-- the `AsEntry { .. }` literal of `SignedAsEntry::try_from_rpc` (extensions are dropped) -/
def entryFromBody (b : RBody) : Except RErr AsEntry :=
  match b.hopEntry with
  | none => .error .missingHopEntry
  | some he =>
    match hopEntryFromRpc he with
    | .error e => .error e
    | .ok he' =>
      match mapE peerFromRpc b.peers with
      | .error e => .error e
      | .ok ps =>
        .ok { local_ := b.isdAs, next := b.nextIsdAs, mtu := b.mtu, hopEntry := he', peers := ps,
              extensions := [], unsignedExtensions := [] }

/-- `SignedAsEntry::try_from_rpc` -/
def asEntryFromRpc (pc : PCodec) (e : RAsEntry) : Except RErr (SEntry AsEntry) :=
  match e.signed with
  | none => .error .missingSigned
  | some sm =>
    match pc.c.decHB sm.hb with
    | none => .error .decodeHB
    | some (_, body) =>
      match pc.decBody body with
      | none => .error .decodeBody
      | some rb =>
        match entryFromBody rb with
        | .error e => .error e
        | .ok a => .ok { entry := a, signed := sm }

/-- `SegmentInfo::new` -/
def infoNew (pc : PCodec) (timestamp segmentId : Nat) : Info :=
  { timestamp := timestamp, segmentId := segmentId,
    encoded := pc.encInfo { timestamp := timestamp, segmentId := segmentId } }

/-- `SegmentInfo::try_from_rpc` (`i64 → u32`, `u32 → u16`) -/
def infoFromRpc (pc : PCodec) (i : RSegInfo) : Except RErr Info :=
  if 0 ≤ i.timestamp ∧ i.timestamp < (2 ^ SI_TIMESTAMP_BITS : Nat) then
    match tryU i.segmentId SI_SEGID_BITS .segmentId with
    | .error e => .error e
    | .ok sid => .ok (infoNew pc i.timestamp.toNat sid)
  else .error .timestamp

/-- `SignedPathSegment::try_from_rpc` (since fix c0ed6e0: `info.encoded = segment.segment_info`, the bytes
as received – the entries are signed over them; before, the re-encoding built by `SegmentInfo::new` was kept) -/
def segFromRpc (pc : PCodec) (r : RSegment) : Except RErr Segment :=
  match pc.decInfo r.segmentInfo with
  | none => .error .decodeInfo
  | some i =>
    match infoFromRpc pc i with
    | .error e => .error e
    | .ok info =>
      let info := { info with encoded := r.segmentInfo }
      match mapE (asEntryFromRpc pc) r.asEntries with
      | .error e => .error e
      | .ok es => .ok { info := info, entries := es }

/-- `SignedPathSegment::into_rpc` (since fix c0ed6e0: `segment_info: self.info.encoded`; before,
`self.info.into_rpc().encode_to_vec()`) -/
def segToRpc (_pc : PCodec) (s : Segment) : RSegment :=
  { segmentInfo := s.info.encoded,
    asEntries := s.entries.map fun e => { signed := some e.signed } }

/-- the segment as `validate_signature` sees it: the associated data starts with `info.encoded` -/
def Segment.signedView (s : Segment) : Seg AsEntry := { info := s.info.encoded, entries := s.entries }

def hopFieldToRpc (h : HopField) : RHopField :=
  { ingress := h.ingress, egress := h.egress, expTime := h.exp, mac := h.mac }

/-- the `AsEntrySignedBody` built by `AsEntry::signature` (what is signed; extensions are not part of it) -/
def bodyOf (a : AsEntry) : RBody :=
  { isdAs := a.local_, nextIsdAs := a.next,
    hopEntry := some { hopField := some (hopFieldToRpc a.hopEntry.hopField), ingressMtu := a.hopEntry.ingressMtu },
    peers := a.peers.map fun p =>
      { peerIsdAs := p.peer, peerInterface := p.peerInterface, peerMtu := p.peerMtu,
        hopField := some (hopFieldToRpc p.hopField) },
    mtu := a.mtu }

/-! ## paths -/

structure RIface where
  isdAs : Nat
  id : Nat
deriving DecidableEq, Repr

/-- `daemon::v1::GeoCoordinates`; the `f32`s as bit patterns, the address as UTF-8 -/
structure RGeo where
  lat : Nat
  lon : Nat
  address : Bytes
deriving DecidableEq, Repr

/-- `daemon::v1::Path` (`discovery_information` is neither read nor written) -/
structure RPath where
  raw : Bytes
  /-- `interface.and_then(|i| i.address).map(|a| a.address)` -/
  ifaceAddr : Option Bytes
  interfaces : List RIface
  mtu : Nat
  /-- `Timestamp { seconds, nanos }` -/
  expiration : Option (Int × Int)
  /-- `Duration { seconds, nanos }` -/
  latency : List (Int × Int)
  bandwidth : List Nat
  geo : List RGeo
  linkType : List Int
  internalHops : List Nat
  notes : List Bytes
  epic : Option (Bytes × Bytes)
deriving DecidableEq, Repr

inductive LinkType | unset | direct | multiHop | openNet | unknown (v : Nat)
deriving DecidableEq, Repr

/-- `LinkType::from_i32` (`Unknown(value as u8)`) -/
def linkFromI32 (x : Int) : LinkType :=
  if x = LINK_UNSET then .unset
  else if x = LINK_DIRECT then .direct
  else if x = LINK_MULTIHOP then .multiHop
  else if x = LINK_OPENNET then .openNet
  else .unknown (x % (2 ^ LINK_UNKNOWN_BITS : Nat)).toNat

/-- `LinkType::to_i32` -/
def linkToI32 : LinkType → Int
  | .unset => LINK_UNSET
  | .direct => LINK_DIRECT
  | .multiHop => LINK_MULTIHOP
  | .openNet => LINK_OPENNET
  | .unknown v => v

inductive LinkMeta | ingress (internalHops : Nat) | egress (t : LinkType)
deriving DecidableEq, Repr

structure Geo where
  lat : Nat
  lon : Nat
  address : Option Bytes
deriving DecidableEq, Repr

structure IfMeta where
  isdAs : Nat
  id : Nat
  geo : Option Geo
  /-- `std::time::Duration` as (seconds, subsec nanos) -/
  latency : Option (Nat × Nat)
  bandwidth : Option Nat
  link : Option LinkMeta
deriving DecidableEq, Repr

structure PathMeta where
  expiration : Nat
  mtu : Nat
  interfaces : Option (List IfMeta)
  epic : Option (Bytes × Bytes)
  notes : Option (List Bytes)
deriving DecidableEq, Repr

/-- the data-plane path variants `try_from_rpc` can produce / `to_rpc` is meant for -/
inductive Dp | empty | standard (raw : Bytes)
deriving DecidableEq, Repr

/-- `ScionPath` without its computed fields (fingerprints, cached expiration: functions of the rest) -/
structure Path (A : Type) where
  src : Nat
  dst : Nat
  dp : Dp
  pmeta : Option PathMeta
  nextHop : Option A
deriving DecidableEq, Repr

/-- verdict of `StandardPathView::try_from_slice(raw)`: error, a view plus a non-empty rest, or a view of
all of `raw` -/
inductive RawParse | err | extra | exact
deriving DecidableEq, Repr

/-- external functions used by the path conversion -/
structure PathEnv (A : Type) where
  parseRaw : Bytes → RawParse
  /-- `str::parse::<SocketAddr>` -/
  parseAddr : Bytes → Option A
  /-- `SocketAddr::to_string` -/
  showAddr : A → Bytes

/-- `IsdAsn::is_wildcard`: ISD (upper bits) or AS number (lower `ASN_BITS` bits) is the wildcard -/
def isWildcard (ia : Nat) : Bool :=
  ia / 2 ^ ASN_BITS == ISD_WILDCARD || ia % 2 ^ ASN_BITS == ASN_WILDCARD

/-- `ScionPath::local` -/
def localPath {A : Type} (ia : Nat) : Option (Path A) :=
  if isWildcard ia then none
  else some { src := ia, dst := ia, dp := .empty, pmeta := none, nextHop := none }

def i64Min : Int := -((2 ^ (DUR_SECONDS_BITS - 1) : Nat) : Int)
def i64Max : Int := ((2 ^ (DUR_SECONDS_BITS - 1) : Nat) : Int) - 1
def i32Max : Int := ((2 ^ (DUR_NANOS_BITS - 1) : Nat) : Int) - 1

/-- `prost_types::Duration::normalize` -/
def normalizeDur (s n : Int) : Int × Int :=
  let nps : Int := NANOS_PER_SECOND
  let nmax : Int := NANOS_MAX
  let sn : Int × Int :=
    if n ≤ -nps ∨ n ≥ nps then
      let s' := s + Int.tdiv n nps
      if i64Min ≤ s' ∧ s' ≤ i64Max then (s', Int.tmod n nps)
      else if n < 0 then (i64Min, -nmax)
      else (i64Max, nmax)
    else (s, n)
  if sn.1 < 0 ∧ sn.2 > 0 then
    (if sn.1 + 1 ≤ i64Max then (sn.1 + 1, sn.2 - nps) else (sn.1, nmax))
  else if sn.1 > 0 ∧ sn.2 < 0 then
    (if i64Min ≤ sn.1 - 1 then (sn.1 - 1, sn.2 + nps) else (sn.1, -nmax))
  else sn

/-- `std::time::Duration::try_from(prost_types::Duration).ok()` -/
def durToStd (d : Int × Int) : Option (Nat × Nat) :=
  let sn := normalizeDur d.1 d.2
  if sn.1 ≥ 0 ∧ sn.2 ≥ 0 then some (sn.1.toNat, sn.2.toNat) else none

/-- `x == 0.0` on an `f32` bit pattern (`+0.0` and `-0.0`) -/
def f32IsZero (bits : Nat) : Bool := bits % 2 ^ 31 == 0

/-- `GeoCoordinates::try_from_rpc` -/
def geoFromRpc (g : RGeo) : Option Geo :=
  if f32IsZero g.lat && f32IsZero g.lon && g.address.isEmpty then none
  else some { lat := g.lat, lon := g.lon, address := if g.address.isEmpty then none else some g.address }

/-- the interface metadata at index `i` after all the `zip` loops of `try_from_rpc`
(`n` = number of interfaces) -/
def metaAt (r : RPath) (n i : Nat) (iface : Nat × Nat) : IfMeta :=
  { isdAs := iface.1, id := iface.2,
    geo := if r.geo.length = n then (r.geo[i]?).bind geoFromRpc else none,
    latency := if r.latency.length = n - 1 then (r.latency[i]?).bind durToStd else none,
    bandwidth := if r.bandwidth.length = n - 1 then
        (r.bandwidth[i]?).bind (fun b => if b > 0 then some b else none) else none,
    link :=
      if i % 2 = 0 then
        (if r.linkType.length = n / 2 then (r.linkType[i / 2]?).map (fun x => LinkMeta.egress (linkFromI32 x)) else none)
      else
        (if r.internalHops.length = n / 2 - 1 then (r.internalHops[i / 2]?).map LinkMeta.ingress else none) }

/-- `PathInterface::try_from_rpc` -/
def ifaceFromRpc (i : RIface) : Except RErr (Nat × Nat) :=
  match tryU i.id PATH_IFID_BITS .ifaceId with
  | .error e => .error e
  | .ok id => .ok (i.isdAs, id)

/-- the `next_hop` computation of `try_from_rpc` -/
def nextHopFromRpc {A : Type} (env : PathEnv A) (r : RPath) : Except RErr (Option A) :=
  match r.ifaceAddr with
  | none => .ok none
  | some s =>
    match env.parseAddr s with
    | none => .error .nextHopParse
    | some a => .ok (some a)

/-- the `path_meta` block of `try_from_rpc` -/
def metaFromRpc (r : RPath) : Except RErr PathMeta :=
  if r.interfaces.length = 0 ∨ r.interfaces.length % 2 ≠ 0 then .error .ifaceCount
  else
    match mapE ifaceFromRpc r.interfaces with
    | .error e => .error e
    | .ok ifs =>
      -- `interface_count / 2 - 1` on `usize`
      if r.interfaces.length / 2 < 1 then .error .panic
      else
        match r.expiration with
        | none => .error .missingExpiration
        | some secsNanos =>
          match tryU r.mtu PATH_MTU_BITS .mtu with
          | .error e => .error e
          | .ok mtu =>
            .ok { expiration := (secsNanos.1 % (2 ^ PATH_EXPIRATION_BITS : Nat)).toNat,
                  mtu := mtu,
                  interfaces := some (ifs.mapIdx fun i iface => metaAt r r.interfaces.length i iface),
                  epic := r.epic,
                  notes := if r.notes.length = r.interfaces.length / 2 + 1 then some r.notes else none }

/-- `ScionPath::try_from_rpc(rpc_path, src_ia, dst_ia)` -/
def pathFromRpc {A : Type} (env : PathEnv A) (r : RPath) (src dst : Nat) : Except RErr (Path A) :=
  if r.raw.isEmpty then
    if isWildcard src && isWildcard dst then .error .wildcardEmpty
    else if src = dst then
      (match localPath src with
       | none => .error .panic
       | some p => .ok p)
    else .error .emptyPath
  else
    match env.parseRaw r.raw with
    | .err => .error .rawParse
    | .extra => .error .rawExtra
    | .exact =>
      match nextHopFromRpc env r with
      | .error e => .error e
      | .ok nextHop =>
        match metaFromRpc r with
        | .error e => .error e
        | .ok m => .ok { src := src, dst := dst, dp := .standard r.raw, pmeta := some m, nextHop := nextHop }

/-- `step_by(2)` -/
def evens {α : Type} : List α → List α
  | [] => []
  | [a] => [a]
  | a :: _ :: rest => a :: evens rest

/-- `skip(1).step_by(2)` -/
def odds {α : Type} (l : List α) : List α := evens l.tail

/-- latency entry written by `to_rpc` -/
def latToRpc : Option (Nat × Nat) → Int × Int
  | none => (-1, 0)
  | some (s, ns) => (if (s : Int) ≤ i64Max then s else i64Max, if (ns : Int) ≤ i32Max then ns else i32Max)

def geoToRpc : Option Geo → RGeo
  | none => { lat := 0, lon := 0, address := [] }
  | some g => { lat := g.lat, lon := g.lon, address := g.address.getD [] }

def isEgress (m : IfMeta) : Bool :=
  match m.link with
  | some (.egress _) => true
  | _ => false

def isIngress (m : IfMeta) : Bool :=
  match m.link with
  | some (.ingress _) => true
  | _ => false

def egressI32 (m : IfMeta) : Int :=
  match m.link with
  | some (.egress t) => linkToI32 t
  | _ => LINK_UNSET

def ingressHops (m : IfMeta) : Nat :=
  match m.link with
  | some (.ingress c) => c
  | _ => 0

/-- `ScionPath::to_rpc` -/
def pathToRpc {A : Type} (env : PathEnv A) (p : Path A) : RPath :=
  let raw : Bytes := match p.dp with | .empty => [] | .standard raw => raw
  let base : RPath :=
    { raw := raw, ifaceAddr := p.nextHop.map env.showAddr, interfaces := [], mtu := 0, expiration := none,
      latency := [], bandwidth := [], geo := [], linkType := [], internalHops := [], notes := [], epic := none }
  match p.pmeta with
  | none => base
  | some m =>
    let b1 : RPath :=
      { base with mtu := m.mtu,
                  expiration := some (if (m.expiration : Int) ≤ i64Max then (m.expiration : Int) else i64Max, 0),
                  epic := m.epic }
    match m.interfaces with
    | none => b1
    | some ifm =>
      let n := ifm.length
      let ev := evens ifm
      let od := (odds ifm).take (n / 2 - 1)
      { b1 with
        interfaces := ifm.map fun x => { isdAs := x.isdAs, id := x.id },
        latency := (ifm.take (n - 1)).map fun x => latToRpc x.latency,
        bandwidth := (ifm.take (n - 1)).map fun x => x.bandwidth.getD 0,
        geo := ifm.map fun x => geoToRpc x.geo,
        linkType := if ev.any isEgress then ev.map egressI32 else [],
        internalHops := if od.any isIngress then od.map ingressHops else [],
        notes := match m.notes with
          | some ns => if ns.length = n / 2 + 1 then ns else []
          | none => [] }

end ScionVerif.Rpc
