/-!
# Bit-range reads and writes over byte strings

Model of `sciparse/src/core/layout.rs` (`BitRange`) and of
`core/read.rs::unchecked_bit_range_be_read` / `core/write.rs::unchecked_bit_range_be_write`.

`Bytes := List UInt8` (one representation everywhere).  A `BitRange` names the bits `[start, stop)` of a
buffer in big-endian bit order (bit 0 = most significant bit of byte 0).  The Rust functions copy the
*containing byte range* `[start/8, ⌈stop/8⌉)` into a 128-bit lane, shift and mask; the model does the
same on the bit string of that byte slice (`bitsOf`), which is what the shift/mask computes.
`Lemmas/Bits.lean` proves: length preservation, read-after-write, the bit-level frame rule
(bits outside the range are unchanged, also inside a shared byte), writes truncate the value to the
width, reads are `< 2^width`, and locality (`take`/`append`/`shift`).

The Rust functions are `unsafe`: reading outside the slice is UB (a `debug_assert!` panic in debug
builds).  `readChk` makes that explicit: it answers `none` exactly when the containing byte range does
not lie inside the slice, so "never reads out of the checked slice" is a theorem about callers.

Core-only (no Mathlib) so that drivers link as native executables.
-/
namespace ScionVerif

abbrev Bytes := List UInt8

/-- `core::layout::BitRange` (`end` is a Lean keyword, hence `stop`) -/
structure BitRange where
  start : Nat
  stop : Nat
deriving Repr, DecidableEq, Inhabited

namespace BitRange
/-- `BitRange::new(start, width)` -/
def new (start width : Nat) : BitRange := ⟨start, start + width⟩
/-- `size_bits` -/
def width (r : BitRange) : Nat := r.stop - r.start
/-- first byte of `containing_byte_range` -/
def byteLo (r : BitRange) : Nat := r.start / 8
/-- end (exclusive) of `containing_byte_range` -/
def byteHi (r : BitRange) : Nat := (r.stop + 7) / 8
/-- `size_bytes` -/
def sizeBytes (r : BitRange) : Nat := r.byteHi - r.byteLo
/-- `shift(bytes)` -/
def shift (r : BitRange) (bytes : Nat) : BitRange := ⟨r.start + 8 * bytes, r.stop + 8 * bytes⟩
/-- `max_uint` -/
def maxUint (r : BitRange) : Nat := 2 ^ r.width - 1
/-- well-formed: `start ≤ stop` (every range built by `new` is) -/
def wf (r : BitRange) : Prop := r.start ≤ r.stop
instance (r : BitRange) : Decidable r.wf := inferInstanceAs (Decidable (_ ≤ _))
/-- the two ranges share no bit -/
def disjoint (r s : BitRange) : Prop := r.stop ≤ s.start ∨ s.stop ≤ r.start
instance (r s : BitRange) : Decidable (r.disjoint s) := inferInstanceAs (Decidable (_ ∨ _))
end BitRange

/-- the `w` low bits of `v`, most significant first -/
def natBits : Nat → Nat → List Bool
  | 0, _ => []
  | w + 1, v => natBits w (v / 2) ++ [v % 2 == 1]

/-- value of a bit string, most significant bit first -/
def bitsNat (bs : List Bool) : Nat := bs.foldl (fun a b => 2 * a + b.toNat) 0

def byteBits (b : UInt8) : List Bool := natBits 8 b.toNat

/-- the bit string of a byte string -/
def bitsOf : Bytes → List Bool
  | [] => []
  | b :: bs => byteBits b ++ bitsOf bs

/-- inverse of `bitsOf` (a trailing group of fewer than 8 bits is dropped; never happens below) -/
def packBits : List Bool → Bytes
  | b0 :: b1 :: b2 :: b3 :: b4 :: b5 :: b6 :: b7 :: rest =>
    UInt8.ofNat (bitsNat [b0, b1, b2, b3, b4, b5, b6, b7]) :: packBits rest
  | _ => []

/-- the containing byte slice of a range -/
def sliceOf (buf : Bytes) (r : BitRange) : Bytes := (buf.drop r.byteLo).take r.sizeBytes

/-- `unchecked_bit_range_be_read(buf, r)` as a natural number (`< 2^width`) -/
def readBits (buf : Bytes) (r : BitRange) : Nat :=
  bitsNat (((bitsOf (sliceOf buf r)).drop (r.start - 8 * r.byteLo)).take r.width)

/-- `unchecked_bit_range_be_write(buf, r, v)`: `v` is truncated to the width; all other bits are kept -/
def writeBits (buf : Bytes) (r : BitRange) (v : Nat) : Bytes :=
  let bs := bitsOf (sliceOf buf r)
  let off := r.start - 8 * r.byteLo
  buf.take r.byteLo ++ packBits (bs.take off ++ natBits r.width v ++ bs.drop (off + r.width))
    ++ buf.drop r.byteHi

/-- the precondition of the two unsafe functions (`debug_assert!(byte_range.end <= buf.len())`) -/
def BitRange.inBuf (r : BitRange) (buf : Bytes) : Bool := r.byteHi ≤ buf.length

/-- checked read: `none` models the out-of-slice access (UB / debug panic) -/
def readChk (buf : Bytes) (r : BitRange) : Option Nat :=
  if r.inBuf buf then some (readBits buf r) else none

/-- checked write -/
def writeChk (buf : Bytes) (r : BitRange) (v : Nat) : Option Bytes :=
  if r.inBuf buf then some (writeBits buf r v) else none

/-- `n` as `k` big-endian bytes (low `8k` bits) -/
def natBE (k n : Nat) : Bytes := packBits (natBits (8 * k) n)

/-- value of a big-endian byte string -/
def beNat (bs : Bytes) : Nat := bitsNat (bitsOf bs)

/-- overwrite `buf[off .. off+p.length)` with `p` (`copy_from_slice` into a sub-slice) -/
def writeAt (buf : Bytes) (off : Nat) (p : Bytes) : Bytes :=
  buf.take off ++ p ++ buf.drop (off + p.length)

def zeros (n : Nat) : Bytes := List.replicate n 0

end ScionVerif
