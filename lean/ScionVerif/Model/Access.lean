import ScionVerif.Model.Layout
import ScionVerif.Generated.Setters
/-!
# Access descriptors of the views

For every view kind: the byte intervals read or written by its pub accessors / safe mutators, as a function
of the view's *own bytes* `v` (the size-determining fields are re-read from `v` on every call, exactly as the
Rust accessors do), and the bit ranges that determine sizes (`protectedRanges`): a write that shares no bit
with them is what the crate calls a *safe* setter (`gen_field_write!`), the others are `unsafe fn`s
(`gen_unsafe_field_write!`).

Mirrors `proto/header/view.rs`, `dataplane_path/standard/view.rs`, `onehop/view.rs`, `packet/view.rs`,
`payload/udp/view.rs`, `payload/scmp/view.rs`.
-/
namespace ScionVerif.Access
open ScionVerif ScionVerif.Layout ScionVerif.Generated.Layout ScionVerif.Generated.AddrType
open ScionVerif.Generated.Setters (setters mutFns)

/-- a byte interval `[lo, hi)` -/
abbrev Rng := Nat × Nat

structure Acc where
  name : String
  ranges : List Rng
deriving Repr

/-- the containing byte interval of a bit range, moved by `off` bytes -/
def fieldRng (r : BitRange) (off : Nat) : Rng := (r.byteLo + off, r.byteHi + off)

def fieldAccs (tab : List (String × BitRange)) (off : Nat) : List Acc :=
  tab.map (fun f => ⟨f.1, [fieldRng f.2 off]⟩)

def Acc.shift (a : Acc) (off : Nat) : Acc := ⟨a.name, a.ranges.map (fun r => (r.1 + off, r.2 + off))⟩

/-! ## field tables (over the generated ranges) -/

def commonFieldsTab : List (String × BitRange) :=
  [("version", CommonHeader.VERSION_RNG), ("traffic_class", CommonHeader.TRAFFIC_CLASS_RNG),
   ("flow_id", CommonHeader.FLOW_ID_RNG), ("next_header", CommonHeader.NEXT_HEADER_RNG),
   ("header_len", CommonHeader.HEADER_LEN_RNG), ("payload_len", CommonHeader.PAYLOAD_LEN_RNG),
   ("path_type", CommonHeader.PATH_TYPE_RNG), ("dst_addr_type", CommonHeader.DST_ADDR_INFO_RNG),
   ("src_addr_type", CommonHeader.SRC_ADDR_INFO_RNG)]

def addrFieldsTab : List (String × BitRange) :=
  [("dst_ia", AddressHeader.DST_IA_RNG), ("dst_isd", AddressHeader.DST_ISD_RNG), ("dst_as", AddressHeader.DST_AS_RNG),
   ("src_ia", AddressHeader.SRC_IA_RNG), ("src_isd", AddressHeader.SRC_ISD_RNG), ("src_as", AddressHeader.SRC_AS_RNG)]

def metaFieldsTab : List (String × BitRange) :=
  [("curr_info_field_idx", StdPathMeta.CURR_INFO_FIELD_RNG), ("curr_hop_field_idx", StdPathMeta.CURR_HOP_FIELD_RNG),
   ("seg0_len", StdPathMeta.SEG0_LEN_RNG), ("seg1_len", StdPathMeta.SEG1_LEN_RNG), ("seg2_len", StdPathMeta.SEG2_LEN_RNG)]

def infoFieldsTab : List (String × BitRange) :=
  [("flags", InfoField.FLAGS_RNG), ("segment_id", InfoField.SEGMENT_ID_RNG), ("timestamp", InfoField.TIMESTAMP_RNG),
   ("as_slice", InfoField.TOTAL_RNG)]

def hopFieldsTab : List (String × BitRange) :=
  [("flags", HopField.FLAGS_RNG), ("exp_time", HopField.EXP_TIME_RNG), ("cons_ingress", HopField.CONS_INGRESS_RNG),
   ("cons_egress", HopField.CONS_EGRESS_RNG), ("mac", HopField.MAC_RNG), ("as_slice", HopField.TOTAL_RNG)]

def udpFieldsTab : List (String × BitRange) :=
  [("src_port", UdpDatagram.SRC_PORT_RNG), ("dst_port", UdpDatagram.DST_PORT_RNG),
   ("length", UdpDatagram.LENGTH_RNG), ("checksum", UdpDatagram.CHECKSUM_RNG)]

/-! ## accessors per view -/

/-- `InfoFieldView` at byte offset `off` -/
def infoAccs (off : Nat) : List Acc := fieldAccs infoFieldsTab off
/-- `HopFieldView` at byte offset `off` -/
def hopAccs (off : Nat) : List Acc := fieldAccs hopFieldsTab off

/-- `StandardPathView` with bytes `p` -/
def stdAccs (p : Bytes) : List Acc :=
  let s := segFields p 0
  let ic := infoCount s.1 s.2.1 s.2.2
  let hc := hopCount s.1 s.2.1 s.2.2
  let infoOff := StdPathMeta.SIZE_BYTES
  let hopOff := infoOff + ic * InfoField.SIZE_BYTES
  fieldAccs metaFieldsTab 0 ++
  [⟨"as_slice", [(0, p.length)]⟩,
   ⟨"info_fields", [(infoOff, hopOff)]⟩,
   ⟨"hop_fields", [(hopOff, hopOff + hc * HopField.SIZE_BYTES)]⟩] ++
  (List.range ic).flatMap (fun i => infoAccs (infoOff + i * InfoField.SIZE_BYTES)) ++
  (List.range hc).flatMap (fun j => hopAccs (hopOff + j * HopField.SIZE_BYTES))

/-- `OneHopPathView` (32 bytes) -/
def oneHopAccs : List Acc :=
  [⟨"as_slice", [(0, OneHopPath.SIZE_BYTES)]⟩] ++
  infoAccs OneHopPath.INFO_FIELD.byteLo ++ hopAccs OneHopPath.HOP_FIELD_1.byteLo ++ hopAccs OneHopPath.HOP_FIELD_2.byteLo

/-- the path sub-view interval of `ScionHeaderView::path()` for a header with bytes `v` -/
def pathRng (v : Bytes) : Option Rng :=
  let f := commonFields v
  let off := CommonHeader.SIZE_BYTES + addrHdrSize (addrSize f.st) (addrSize f.dt)
  match pathKind f.pt with
  | .empty => none
  | .scion => some (off, f.hl * 4)
  | .oneHop => some (off, off + OneHopPath.SIZE_BYTES)
  | .other _ => some (off, f.hl * 4)

/-- `ScionHeaderView` with bytes `v` -/
def headerAccs (v : Bytes) : List Acc :=
  let f := commonFields v
  let dl := addrSize f.dt
  let sl := addrSize f.st
  let hostOff := CommonHeader.SIZE_BYTES + AddressHeader.FIXED_SIZE_BITS / 8
  let off := CommonHeader.SIZE_BYTES + addrHdrSize sl dl
  fieldAccs commonFieldsTab 0 ++ fieldAccs addrFieldsTab CommonHeader.SIZE_BYTES ++
  [⟨"as_slice", [(0, v.length)]⟩,
   ⟨"dst_host_addr", [(hostOff, hostOff + dl)]⟩,
   ⟨"src_host_addr", [(hostOff + dl, hostOff + dl + sl)]⟩] ++
  (match pathRng v with
   | none => []
   | some r => [⟨"path", [r]⟩]) ++
  (match pathKind f.pt with
   | .scion => (stdAccs ((v.drop off).take (f.hl * 4 - off))).map (·.shift off)
   | .oneHop => oneHopAccs.map (·.shift off)
   | _ => [])

/-- `UdpDatagramView` with bytes `u` -/
def udpAccs (u : Bytes) : List Acc :=
  fieldAccs udpFieldsTab 0 ++
  [⟨"as_slice", [(0, u.length)]⟩, ⟨"payload", [(UdpDatagram.HEADER_SIZE_BYTES, u.length)]⟩]

/-- `ScmpPayloadView` / typed message view of kind `k` with bytes `s` -/
def scmpMsgAccs (k : ScmpKindRow) (s : Bytes) : List Acc :=
  fieldAccs k.fields 0 ++ [⟨"as_slice", [(0, s.length)]⟩] ++
  (if k.varLen then [⟨"data", [(k.headerSize, s.length)]⟩] else [])

def scmpAccs (s : Bytes) : List Acc :=
  scmpMsgAccs (scmpRow (readBits (s.take scmpMinSize) ScmpMessage.TYPE_RNG)) s

/-- header length / payload length fields of a packet view -/
def pktHl (v : Bytes) : Nat := (commonFields v).hl * 4
def pktPl (v : Bytes) : Nat := (commonFields v).pl

/-- `ScionPacketView<T>` common part: `header()`, `payload()` -/
def rawAccs (v : Bytes) : List Acc :=
  [⟨"as_slice", [(0, v.length)]⟩, ⟨"header", [(0, pktHl v)]⟩,
   ⟨"payload", [payloadRange v.length (pktHl v) (pktPl v)]⟩] ++
  headerAccs (v.take (pktHl v))

/-- bytes of `payload()` -/
def pktPayload (v : Bytes) : Bytes :=
  let r := payloadRange v.length (pktHl v) (pktPl v)
  (v.drop r.1).take (r.2 - r.1)

/-- `ScionUdpPacketView`: `udp()` is the UDP view over the first `min(len, Length)` payload bytes -/
def udpPktAccs (v : Bytes) : List Acc :=
  let pay := pktPayload v
  let n := min pay.length (readBits pay UdpDatagram.LENGTH_RNG)
  rawAccs v ++ (udpAccs (pay.take n)).map (·.shift (pktHl v))

/-- `ScionScmpPacketView` -/
def scmpPktAccs (v : Bytes) : List Acc :=
  let pay := pktPayload v
  let k := scmpRow (readBits (pay.take scmpMinSize) ScmpMessage.TYPE_RNG)
  let n := if k.varLen then pay.length else k.headerSize
  rawAccs v ++ (scmpMsgAccs k (pay.take n)).map (·.shift (pktHl v))

/-- all accessors / mutators of a view of kind `k` with bytes `v` -/
def accessors : ViewKind → Bytes → List Acc
  | .header, v => headerAccs v
  | .stdPath, v => stdAccs v
  | .oneHop, _ => oneHopAccs
  | .infoField, _ => infoAccs 0
  | .hopField, _ => hopAccs 0
  | .rawPacket, v => rawAccs v
  | .udpPacket, v => udpPktAccs v
  | .scmpPacket, v => scmpPktAccs v
  | .udp, v => udpAccs v
  | .scmp, v => scmpAccs v
  | .scmpMsg i, v => scmpMsgAccs (scmpKinds.getD i (scmpRow 256)) v

/-! ## size-determining bits -/

/-- bit ranges of a header with bytes `v` whose value enters `has_required_size` -/
def headerProtected (v : Bytes) : List BitRange :=
  let f := commonFields v
  let off := CommonHeader.SIZE_BYTES + addrHdrSize (addrSize f.st) (addrSize f.dt)
  [CommonHeader.VERSION_RNG, CommonHeader.HEADER_LEN_RNG, CommonHeader.PAYLOAD_LEN_RNG, CommonHeader.PATH_TYPE_RNG,
   CommonHeader.DST_ADDR_INFO_RNG, CommonHeader.SRC_ADDR_INFO_RNG] ++
  (match pathKind f.pt with
   | .scion => [StdPathMeta.SEG0_LEN_RNG.shift off, StdPathMeta.SEG1_LEN_RNG.shift off, StdPathMeta.SEG2_LEN_RNG.shift off]
   | _ => [])

def protectedRanges : ViewKind → Bytes → List BitRange
  | .header, v => headerProtected v
  | .stdPath, _ => [StdPathMeta.SEG0_LEN_RNG, StdPathMeta.SEG1_LEN_RNG, StdPathMeta.SEG2_LEN_RNG]
  | .rawPacket, v => headerProtected v
  | .udpPacket, v => headerProtected v ++ [UdpDatagram.LENGTH_RNG.shift (pktHl v)]
  | .scmpPacket, v => headerProtected v ++ [ScmpMessage.TYPE_RNG.shift (pktHl v)]
  | .udp, _ => [UdpDatagram.LENGTH_RNG]
  | .scmp, _ => [ScmpMessage.TYPE_RNG]
  | .scmpMsg _, _ => []
  | _, _ => []

/-- a write is *size-neutral* on the view `v`: inside the view and sharing no bit with a protected range -/
def sizeNeutral (k : ViewKind) (v : Bytes) (r : BitRange) : Prop :=
  r.wf ∧ r.byteHi ≤ v.length ∧ ∀ p ∈ protectedRanges k v, r.disjoint p

/-! ## the safe setters of the crate

`Generated/Setters.lean` lists **every** setter of every view type as the translator finds it in the Rust
source (`gen_field_write!` / `gen_field_read_and_write!` / hand-written `pub fn set_*` = safe,
`gen_unsafe_field_write!` / `pub unsafe fn set_*` = unsafe) with its resolved bit range, and every other
`pub [unsafe] fn f(&mut self ..)`.  `safeSetterRanges` is *computed from that table*: a setter that becomes safe
in the source appears here on the next run and `safe_setters_neutral` has to be re-proved for it. -/

/-- safe setters of fields that `has_required_size` of their own view reads; the crate leaves them safe, no
accessor depends on the value after construction (`set_version`: only the version check; `set_length`: the view
keeps its slice length).  They are *excluded* from `safe_setters_preserve_size` and covered by deterministic
harness probes only. -/
def exemptSetters : List (String × String) :=
  [("ScionHeaderView", "set_version"), ("UdpDatagramView", "set_length")]

/-- bit ranges (relative to the start of the view) written by the safe setters of the Rust view type `view`,
as extracted from the source -/
def safeSettersOf (view : String) : List BitRange :=
  (setters.filter (fun s => s.view == view && s.safe && !(exemptSetters.contains (s.view, s.name)))).map (·.range)

/-- Rust type of the typed message view of an SCMP kind -/
def msgViewName (k : ScmpKindRow) : String := "Scmp" ++ k.name ++ "MessageView"

/-- the `pub fn f(&mut self ..)` (other than field setters) of the view types and where their writes are
accounted for.  `generated_mut_fns_modelled` (Theorems/C02) checks that the source has no *safe* function of this
shape outside this list. -/
def modelledMutFns : List (String × String) :=
  [ -- sub-views whose setters are part of `safeSetterRanges` of the parent (same bytes, shifted)
    ("ScionHeaderView", "path_mut"), ("ScionPacketView", "header_mut"), ("ScmpPayloadView", "message_mut"),
    ("StandardPathView", "curr_info_field_mut"), ("StandardPathView", "info_field_mut"),
    ("StandardPathView", "curr_hop_field_mut"), ("StandardPathView", "hop_field_mut"),
    ("StandardPathView", "info_fields_mut"), ("StandardPathView", "hop_fields_mut"),
    ("OneHopPathView", "info_field_mut"), ("OneHopPathView", "mut_hop_fields"),
    -- mutable byte slices: listed as the bit range of the whole slice
    ("ScionRawPacketView", "payload_mut"), ("UdpDatagramView", "payload_mut"),
    ("ScmpDestinationUnreachableMessageView", "offending_packet_mut"), ("ScmpPacketTooBigMessageView", "offending_packet_mut"),
    ("ScmpParameterProblemMessageView", "offending_packet_mut"), ("ScmpExternalInterfaceDownMessageView", "offending_packet_mut"),
    ("ScmpInternalConnectivityDownMessageView", "offending_packet_mut"), ("ScmpEchoRequestMessageView", "data_mut"),
    ("ScmpEchoReplyMessageView", "data_mut"), ("ScmpUnknownMessageView", "message_specific_data_mut"),
    -- re-validating conversions: the typed view is re-checked with has_required_size before it is handed out
    ("ScionRawPacketView", "try_as_udp_mut"), ("ScionRawPacketView", "try_as_scmp_mut"),
    -- in-place transformations that DO write size-determining bits (segment lengths): not size-neutral writes,
    -- byte-modelled in C11 / C12; here only `reverse_preserves_size` + the harness mutator sequences
    ("StandardPathView", "try_reverse"), ("StandardPathView", "advance_ingress"), ("StandardPathView", "advance_egress"),
    ("StandardPathView", "advance_ingress_with_validator"), ("StandardPathView", "advance_egress_with_validator"),
    -- one-hop: fixed 32-byte view, no size-determining bit
    ("OneHopPathView", "set_second_hop"), ("OneHopPathView", "try_reverse") ]

/-- bit ranges written by the *safe* setters of a view with bytes `v`.  Mutable slice accessors
(`payload_mut`, `offending_packet_mut`, `data_mut`, `Unsupported{buf}`, `set_mac`) are listed as the bit range
of the whole slice: any write inside it is a write to a sub-range. -/
def headerSafe (v : Bytes) : List BitRange :=
    let f := commonFields v
    let off := CommonHeader.SIZE_BYTES + addrHdrSize (addrSize f.st) (addrSize f.dt)
    safeSettersOf "ScionHeaderView" ++
    (match pathKind f.pt with
     | .scion => (safeSettersOf "StandardPathView").map (·.shift off) ++
                  [⟨(off + StdPathMeta.SIZE_BYTES) * 8, f.hl * 4 * 8⟩]
     | .oneHop => [⟨off * 8, (off + OneHopPath.SIZE_BYTES) * 8⟩]
     | .other _ => [⟨off * 8, f.hl * 4 * 8⟩]
     | .empty => [])

/-- safe writes through a typed SCMP message view of kind `k` over bytes `v`: its field setters (from the
source) and, for the variable-length kinds, the data slice -/
def scmpMsgSafe (k : ScmpKindRow) (v : Bytes) : List BitRange :=
  safeSettersOf (msgViewName k) ++ (if k.varLen then [⟨k.headerSize * 8, v.length * 8⟩] else [])

def safeSetterRanges : ViewKind → Bytes → List BitRange
  | .header, v => headerSafe v
  | .rawPacket, v => headerSafe v ++ [⟨pktHl v * 8, v.length * 8⟩]
  | .udpPacket, v => headerSafe v
  | .scmpPacket, v => headerSafe v
  | .stdPath, v => safeSettersOf "StandardPathView" ++ [⟨StdPathMeta.SIZE_BYTES * 8, v.length * 8⟩]
  | .oneHop, _ => [OneHopPath.TOTAL]
  | .infoField, _ => safeSettersOf "InfoFieldView"
  | .hopField, _ => safeSettersOf "HopFieldView"
  | .udp, v => safeSettersOf "UdpDatagramView" ++ [⟨UdpDatagram.HEADER_SIZE_BYTES * 8, v.length * 8⟩]
  | .scmp, v => safeSettersOf "ScmpPayloadView" ++
      scmpMsgSafe (scmpRow (readBits (v.take scmpMinSize) ScmpMessage.TYPE_RNG)) v
  | .scmpMsg i, v => scmpMsgSafe (scmpKinds.getD i (scmpRow 256)) v

end ScionVerif.Access
