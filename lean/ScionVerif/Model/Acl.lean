import ScionVerif.Model.HopPred
/-!
# Model of `sciparse/src/scion/path/policy/acl.rs`

`Acl.matches` mirrors `AclPolicy::matches` statement by statement (early exit on an empty path or an
empty entry list, outer loop over hops, inner loop over entries with `break` on Allow, `return false`
on Deny, the `!hop_matched && default == Deny` test after the inner loop).
`parseAcl` mirrors `AclPolicy::parse` (`split_whitespace`, pairs of operator / hop predicate, a wildcard
predicate must be last and turns its operator into the default, a single trailing operator is the default).
Core-only.
-/
namespace ScionVerif.Policy
open ScionVerif.Generated.Policy

/-- `AclEntryOperator` -/
inductive Op where
  | allow | deny
deriving DecidableEq, Repr

/-- `AclEntry` -/
structure Entry where
  op : Op
  pred : Pred
deriving DecidableEq, Repr

/-- `AclPolicy` -/
structure Acl where
  entries : List Entry
  default : Op
deriving DecidableEq, Repr

/-- `AclMatchResult` -/
inductive MatchResult where
  | allow | deny | impartial
deriving DecidableEq, Repr

/-- `AclEntry::matches` -/
def Entry.matches (e : Entry) (h : Hop) : MatchResult :=
  if e.pred.matches h then
    match e.op with
    | .allow => .allow
    | .deny => .deny
  else .impartial

/-- the inner `for entry in &self.entries` loop: `none` = `return false` (a Deny entry matched),
    `some hop_matched` otherwise -/
def scanEntries : List Entry → Hop → Option Bool
  | [], _ => some false
  | e :: es, h =>
    match e.matches h with
    | .allow => some true
    | .deny => none
    | .impartial => scanEntries es h

/-- the outer `for hop in path` loop -/
def hopLoop (acl : Acl) : List Hop → Bool
  | [] => true
  | h :: hs =>
    match scanEntries acl.entries h with
    | none => false
    | some matched =>
      if !matched && acl.default == .deny then false else hopLoop acl hs

/-- `AclPolicy::matches` -/
def Acl.matches (acl : Acl) (path : List Hop) : Bool :=
  if path.isEmpty || acl.entries.isEmpty then acl.default == .allow
  else hopLoop acl path

inductive AclErr where
  | invalidOperator | invalidPredicate | wildcardNotLast | missingDefault
deriving DecidableEq, Repr

/-- `AclEntryOperator::parse` -/
def parseOp (s : List Char) : Option Op :=
  if s = [ACL_ALLOW] then some .allow
  else if s = [ACL_DENY] then some .deny
  else none

/-- the `while let (Some(first), Some(second))` loop of `AclPolicy::parse` and what follows it,
    on the words of `split_whitespace` (`acc` = entries so far, reversed) -/
def parseAclWords : List (List Char) → List Entry → Except AclErr Acl
  | [], _ => .error .missingDefault
  | [f], acc =>
    match parseOp f with
    | some d => .ok ⟨acc.reverse, d⟩
    | none => .error .invalidOperator
  | f :: s :: rest, acc =>
    match parseOp f with
    | none => .error .invalidOperator
    | some op =>
      match parsePred s with
      | none => .error .invalidPredicate
      | some hop =>
        if hop.isWildcard then
          if rest.isEmpty then .ok ⟨acc.reverse, op⟩ else .error .wildcardNotLast
        else parseAclWords rest (⟨op, hop⟩ :: acc)

/-- `AclPolicy::parse` -/
def parseAcl (s : List Char) : Except AclErr Acl := parseAclWords (splitWhitespace s) []

end ScionVerif.Policy
