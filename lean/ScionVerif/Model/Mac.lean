import ScionVerif.Generated.StdPath
/-!
# Hop-field MAC interface (`standard/mac.rs`)

AES-128-CMAC is **not** modelled: every theorem takes `mac : K → MacInput → Nat` as an arbitrary
function (the executable AES-CMAC used by the driver lives in `Model/AesCmac.lean` and is validated
against the real `HopMacValidator` by the correspondence harness only).
Core-only.
-/
namespace ScionVerif.Mac
open ScionVerif.Generated.StdPath

/-- the 16-byte CMAC input of `calculate_hop_mac`: `0 | beta | timestamp | 0 | exp | ingress | egress | 0` -/
structure MacInput where
  beta   : Nat  -- u16 SegID / accumulator
  ts     : Nat  -- u32
  exp    : Nat  -- u8
  consIn : Nat  -- u16
  consEg : Nat  -- u16
deriving Repr, DecidableEq

/-- the MAC function, abstract: key type `K`, result = the 48-bit truncated tag as a number -/
abbrev MacFn (K : Type) := K → MacInput → Nat

/-- `mac_beta_step`: XOR the accumulator with the first two MAC bytes -/
def betaStep (beta mac : Nat) : Nat := beta ^^^ (mac / 2 ^ (HOP_MAC_WIDTH - 16) % 2 ^ 16)

end ScionVerif.Mac
