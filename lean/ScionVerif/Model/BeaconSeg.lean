/-!
# Control-plane path segments (beacons) as the combinator sees them

Mirrors the parts of `sciparse::segment::{PathSegment, SegmentInfo, AsEntry, HopEntry, PeerEntry,
SegmentHopField}` that `path::combinator` reads.  Core-only (linked into the model driver).

* integers are unbounded `Nat`; the Rust widths are in the comments and casts are explicit in the model;
* the hop-field MAC (6 bytes) is an opaque value copied through; only its first two bytes enter the
  computation (SegID accumulator), so it is carried as the big-endian number of the 6 bytes;
* `PathSegment::id()` (SHA-256 over `(local, cons_ingress, cons_egress)` of every AS entry) is *not*
  computed by the model: it enters as an opaque ordered key `id` supplied with each segment
  (the harness passes the real hash, read as a big-endian number, so `<` on `Nat` is `Ord` on `[u8; 32]`);
* `AsEntry::{next, extensions, unsigned_extensions}`, `SegmentInfo::encoded` and signatures are never
  read by the combinator and are not modelled.
-/
namespace ScionVerif.Comb

/-- `SegmentHopField` -/
structure HopF where
  /-- `expiration_units : u8` -/
  exp : Nat
  /-- `cons_ingress : u16` -/
  ingress : Nat
  /-- `cons_egress : u16` -/
  egress : Nat
  /-- `mac : [u8; 6]` as a big-endian number -/
  mac : Nat
deriving DecidableEq, Repr, Inhabited

/-- first two MAC bytes as `u16::from_be_bytes([mac[0], mac[1]])` -/
def HopF.macHi (h : HopF) : Nat := h.mac / 4294967296 % 65536

/-- `PeerEntry` -/
structure PeerE where
  /-- `peer : IsdAsn` (u64) -/
  peer : Nat
  /-- `peer_interface : u16` -/
  peerIf : Nat
  /-- `peer_mtu : u16` -/
  peerMtu : Nat
  hop : HopF
deriving DecidableEq, Repr, Inhabited

/-- `AsEntry` (with its `HopEntry` flattened) -/
structure AsE where
  /-- `local : IsdAsn` (u64) -/
  ia : Nat
  /-- `mtu : u32` -/
  mtu : Nat
  /-- `hop_entry.ingress_mtu : u16` -/
  ingressMtu : Nat
  /-- `hop_entry.hop_field` -/
  hop : HopF
  /-- `peer_entries` -/
  peers : List PeerE
deriving DecidableEq, Repr, Inhabited

/-- `PathSegment` + its `SegmentID` -/
structure Seg where
  /-- `info.timestamp : u32` -/
  ts : Nat
  /-- `info.segment_id : u16` (initial SegID accumulator β₀) -/
  segid : Nat
  /-- `as_entries` in construction (beaconing) order -/
  entries : List AsE
  /-- `PathSegment::id()` as an opaque ordered key -/
  id : Nat
deriving DecidableEq, Repr, Inhabited

/-- `graph::InputSegment` : a segment tagged core / non-core -/
structure InSeg where
  core : Bool
  seg : Seg
deriving DecidableEq, Repr, Inhabited

def Seg.firstIa (s : Seg) : Option Nat := s.entries.head?.map (·.ia)
def Seg.lastIa (s : Seg) : Option Nat := s.entries.getLast?.map (·.ia)
def Seg.len (s : Seg) : Nat := s.entries.length

/-! ### what the combinator returns (pure data; assembled by `Model/Combinator`, specified by `Spec/Combine`) -/

/-- data-plane segment: info field + hop fields -/
structure PSeg where
  consDir : Bool
  peering : Bool
  segid : Nat
  ts : Nat
  hops : List HopF
deriving DecidableEq, Repr, Inhabited

/-- the observable part of a `ScionPath` returned by `combine` -/
structure Path where
  src : Nat
  dst : Nat
  segs : List PSeg
  /-- `metadata.mtu` -/
  mtu : Nat
  /-- `metadata.expiration` = `ScionPath::expiration()` -/
  expiry : Nat
  /-- `metadata.interfaces` -/
  ifs : List (Nat × Nat)
deriving DecidableEq, Repr, Inhabited

end ScionVerif.Comb
