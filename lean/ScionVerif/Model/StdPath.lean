import ScionVerif.Generated.StdPath
import ScionVerif.Model.Mac
/-!
# Model of the standard SCION path: view (`standard/view.rs`), owned model (`standard/model.rs`)

*View side.*  `PathV` is the structured content of a `StandardPathView`: the six fields of the meta
header, the info fields and the hop fields — **every bit of the buffer is kept** (the reserved bits of
the meta header and of the info fields, all eight flag bits).  `ofBytes`/`toBytes` relate it to the raw
bytes; `ofBytes` mirrors the view constructor (`StdPathLayout::try_from_slice` + `split_at`), and
`Lemmas/StdPath.lean` proves that the two are mutually inverse on accepted buffers, so "the bytes are
unchanged" and "the structured state is unchanged" are the same statement.

*Model side.*  `PathM` mirrors `StandardPath` (no reserved bits; `u8` pointers; up to three segments).

Every mutating operation is modelled **twice**.  (i) As a *statement sequence* over the mutable receiver
(`Imp`, section "statement sequences"): reads, `?`/`return` exits and writes through `&mut self` in the
order of the Rust source; an exit hands back the receiver *as it has been written so far*, so failure
atomicity of these definitions (`ingressImp`, `egressImp`, `reverseViewImp`, `reverseModelImp`, the one-hop
ones) is a statement about the order of effects.  The driver runs these.  The source order of exits, panic
sites and writes of every modelled Rust function is re-extracted by the translator on every run
(`Generated.StdPath.EFFECTS_*`) and compared with the order written down next to each definition
(`*.effects`).  (ii) As a closed *summary* (`advanceIngress`, `advanceEgress`, `reverseView`, …: result and
final state as one expression; here an error branch returns the input by construction).  The theorems
`*_eq` (`Lemmas/StdPath.lean`) prove that (i) computes (ii); everything else is stated over (ii).
Bit ranges, sizes, limits and flag bits come from `Generated/StdPath.lean`.

Core-only (no Mathlib) so that the driver links as a native executable.
-/
namespace ScionVerif.StdPath
open ScionVerif.Generated.StdPath
open ScionVerif.Mac (betaStep MacInput MacFn)

abbrev Bytes := List UInt8

/-! ## statement sequences over a mutable receiver -/

/-- A sequence of Rust statements of a `&mut self` method.  Started in a receiver state it either runs to
its end (`Sum.inr a`) or leaves the method early with the method's result (`Sum.inl r`: the error arm of a
`?`, a `return`, a panic) – **in both cases together with the receiver as it has been written so far**. -/
def Imp (σ ρ α : Type) : Type := σ → σ × Sum ρ α

namespace Imp
variable {σ ρ α β : Type}
@[inline] protected def pure (a : α) : Imp σ ρ α := fun s => (s, .inr a)
@[inline] protected def bind (m : Imp σ ρ α) (f : α → Imp σ ρ β) : Imp σ ρ β := fun s =>
  match m s with
  | (s', .inl r) => (s', .inl r)
  | (s', .inr a) => f a s'
instance : Monad (Imp σ ρ) where
  pure := Imp.pure
  bind := Imp.bind
/-- `return r`, the error arm of `?`, or a panic site that fires -/
def exit (r : ρ) : Imp σ ρ α := fun s => (s, .inl r)
/-- a read of the receiver -/
def get : Imp σ ρ σ := fun s => (s, .inr s)
/-- a write through `&mut self` -/
def write (f : σ → σ) : Imp σ ρ Unit := fun s => (f s, .inr ())
/-- `opt.ok_or(r)?` -/
def orExit (o : Option α) (r : ρ) : Imp σ ρ α :=
  match o with
  | some a => Imp.pure a
  | none => exit r
/-- run a method body whose last expression is the method's result -/
def run (m : Imp σ ρ ρ) (s : σ) : σ × ρ :=
  match m s with
  | (s', .inl r) => (s', r)
  | (s', .inr r) => (s', r)
end Imp

/-! ## bytes ↔ numbers -/

/-- big-endian value of a byte string -/
def beNat : Bytes → Nat
  | [] => 0
  | b :: bs => b.toNat * 256 ^ bs.length + beNat bs

/-- the `n` low-order bytes of `v`, big-endian -/
def natBE : Nat → Nat → Bytes
  | 0, _ => []
  | n + 1, v => UInt8.ofNat (v / 256 ^ n % 256) :: natBE n v

/-- `unchecked_bit_range_be_read` on a word of `total` bits: the `width` bits starting at bit `start`
(bit 0 = most significant) -/
def field (total start width w : Nat) : Nat := w / 2 ^ (total - start - width) % 2 ^ width

/-- the contribution of a field value to the word (inverse of `field`) -/
def place (total start width v : Nat) : Nat := v % 2 ^ width * 2 ^ (total - start - width)

/-! ## info field, hop field -/

/-- `InfoFieldView`: all 64 bits -/
structure InfoF where
  flags : Nat  -- 8 bits, all kept (`from_bits_retain`)
  rsv   : Nat  -- 8 reserved bits
  segId : Nat  -- u16
  ts    : Nat  -- u32
deriving Repr, DecidableEq

/-- `HopFieldView` / `HopField`: all 96 bits -/
structure HopF where
  flags  : Nat -- 8 bits, all kept
  exp    : Nat -- u8
  consIn : Nat -- u16
  consEg : Nat -- u16
  mac    : Nat -- 48 bits (big-endian value of the 6 MAC bytes)
deriving Repr, DecidableEq

def InfoF.Valid (i : InfoF) : Prop :=
  i.flags < 2 ^ INFO_FLAGS_WIDTH ∧ i.rsv < 2 ^ INFO_RSV_WIDTH ∧ i.segId < 2 ^ INFO_SEGMENT_ID_WIDTH ∧
  i.ts < 2 ^ INFO_TIMESTAMP_WIDTH

def HopF.Valid (h : HopF) : Prop :=
  h.flags < 2 ^ HOP_FLAGS_WIDTH ∧ h.exp < 2 ^ HOP_EXP_TIME_WIDTH ∧ h.consIn < 2 ^ HOP_CONS_INGRESS_WIDTH ∧
  h.consEg < 2 ^ HOP_CONS_EGRESS_WIDTH ∧ h.mac < 2 ^ HOP_MAC_WIDTH

instance (i : InfoF) : Decidable i.Valid := by unfold InfoF.Valid; exact inferInstance
instance (h : HopF) : Decidable h.Valid := by unfold HopF.Valid; exact inferInstance

def InfoF.ofWord (w : Nat) : InfoF :=
  { flags := field INFO_TOTAL_WIDTH INFO_FLAGS_START INFO_FLAGS_WIDTH w
    rsv := field INFO_TOTAL_WIDTH INFO_RSV_START INFO_RSV_WIDTH w
    segId := field INFO_TOTAL_WIDTH INFO_SEGMENT_ID_START INFO_SEGMENT_ID_WIDTH w
    ts := field INFO_TOTAL_WIDTH INFO_TIMESTAMP_START INFO_TIMESTAMP_WIDTH w }

def InfoF.toWord (i : InfoF) : Nat :=
  place INFO_TOTAL_WIDTH INFO_FLAGS_START INFO_FLAGS_WIDTH i.flags +
  place INFO_TOTAL_WIDTH INFO_RSV_START INFO_RSV_WIDTH i.rsv +
  place INFO_TOTAL_WIDTH INFO_SEGMENT_ID_START INFO_SEGMENT_ID_WIDTH i.segId +
  place INFO_TOTAL_WIDTH INFO_TIMESTAMP_START INFO_TIMESTAMP_WIDTH i.ts

def HopF.ofWord (w : Nat) : HopF :=
  { flags := field HOP_TOTAL_WIDTH HOP_FLAGS_START HOP_FLAGS_WIDTH w
    exp := field HOP_TOTAL_WIDTH HOP_EXP_TIME_START HOP_EXP_TIME_WIDTH w
    consIn := field HOP_TOTAL_WIDTH HOP_CONS_INGRESS_START HOP_CONS_INGRESS_WIDTH w
    consEg := field HOP_TOTAL_WIDTH HOP_CONS_EGRESS_START HOP_CONS_EGRESS_WIDTH w
    mac := field HOP_TOTAL_WIDTH HOP_MAC_START HOP_MAC_WIDTH w }

def HopF.toWord (h : HopF) : Nat :=
  place HOP_TOTAL_WIDTH HOP_FLAGS_START HOP_FLAGS_WIDTH h.flags +
  place HOP_TOTAL_WIDTH HOP_EXP_TIME_START HOP_EXP_TIME_WIDTH h.exp +
  place HOP_TOTAL_WIDTH HOP_CONS_INGRESS_START HOP_CONS_INGRESS_WIDTH h.consIn +
  place HOP_TOTAL_WIDTH HOP_CONS_EGRESS_START HOP_CONS_EGRESS_WIDTH h.consEg +
  place HOP_TOTAL_WIDTH HOP_MAC_START HOP_MAC_WIDTH h.mac

def InfoF.ofBytes (b : Bytes) : InfoF := InfoF.ofWord (beNat b)
def InfoF.toBytes (i : InfoF) : Bytes := natBE INFO_SIZE_BYTES i.toWord
def HopF.ofBytes (b : Bytes) : HopF := HopF.ofWord (beNat b)
def HopF.toBytes (h : HopF) : Bytes := natBE HOP_SIZE_BYTES h.toWord

/-- `n` consecutive records of `size` bytes -/
def decodeN {α : Type} (dec : Bytes → α) (size : Nat) : Nat → Bytes → List α
  | 0, _ => []
  | n + 1, b => dec (b.take size) :: decodeN dec size n (b.drop size)

/-! ## the view -/

/-- structured content of a `StandardPathView` (every bit) -/
structure PathV where
  currInf : Nat   -- 2 bits
  currHf  : Nat   -- 6 bits
  rsv     : Nat   -- 6 reserved bits
  seg0    : Nat   -- 6 bits
  seg1    : Nat
  seg2    : Nat
  infos   : List InfoF
  hops    : List HopF
deriving Repr, DecidableEq

def b2n (b : Bool) : Nat := if b then 1 else 0

/-- `StdPathDataLayout::info_field_count` / `StandardPathView::info_field_count` -/
def infoCount (s0 s1 s2 : Nat) : Nat := b2n (decide (s0 > 0)) + b2n (decide (s1 > 0)) + b2n (decide (s2 > 0))

def PathV.infoCount (p : PathV) : Nat := StdPath.infoCount p.seg0 p.seg1 p.seg2
/-- `hop_field_count` (u8 addition; `3·63 < 256`, no overflow) -/
def PathV.hopCount (p : PathV) : Nat := p.seg0 + p.seg1 + p.seg2

/-- `StdPathLayout::size_bytes` -/
def requiredSize (s0 s1 s2 : Nat) : Nat :=
  META_SIZE_BYTES + infoCount s0 s1 s2 * INFO_SIZE_BYTES + (s0 + s1 + s2) * HOP_SIZE_BYTES

/-- what the view constructor guarantees about the structured state -/
def PathV.Valid (p : PathV) : Prop :=
  p.currInf < 2 ^ META_CURR_INFO_FIELD_WIDTH ∧ p.currHf < 2 ^ META_CURR_HOP_FIELD_WIDTH ∧
  p.rsv < 2 ^ META_RSV_WIDTH ∧ p.seg0 < 2 ^ META_SEG0_LEN_WIDTH ∧ p.seg1 < 2 ^ META_SEG1_LEN_WIDTH ∧
  p.seg2 < 2 ^ META_SEG2_LEN_WIDTH ∧ p.infos.length = p.infoCount ∧ p.hops.length = p.hopCount ∧
  (∀ i ∈ p.infos, i.Valid) ∧ (∀ h ∈ p.hops, h.Valid)

def metaWord (p : PathV) : Nat :=
  place META_TOTAL_WIDTH META_CURR_INFO_FIELD_START META_CURR_INFO_FIELD_WIDTH p.currInf +
  place META_TOTAL_WIDTH META_CURR_HOP_FIELD_START META_CURR_HOP_FIELD_WIDTH p.currHf +
  place META_TOTAL_WIDTH META_RSV_START META_RSV_WIDTH p.rsv +
  place META_TOTAL_WIDTH META_SEG0_LEN_START META_SEG0_LEN_WIDTH p.seg0 +
  place META_TOTAL_WIDTH META_SEG1_LEN_START META_SEG1_LEN_WIDTH p.seg1 +
  place META_TOTAL_WIDTH META_SEG2_LEN_START META_SEG2_LEN_WIDTH p.seg2

/-- the bytes of the view -/
def PathV.toBytes (p : PathV) : Bytes :=
  natBE META_SIZE_BYTES (metaWord p) ++ (p.infos.map InfoF.toBytes).flatten ++ (p.hops.map HopF.toBytes).flatten

/-- `StandardPathView::try_from_slice`: `none` = `BufferTooSmall`; otherwise the view over the first
`required_size` bytes and the rest of the buffer. -/
def ofBytes (b : Bytes) : Option (PathV × Bytes) :=
  if b.length < META_SIZE_BYTES then none else
  let w := beNat (b.take META_SIZE_BYTES)
  let s0 := field META_TOTAL_WIDTH META_SEG0_LEN_START META_SEG0_LEN_WIDTH w
  let s1 := field META_TOTAL_WIDTH META_SEG1_LEN_START META_SEG1_LEN_WIDTH w
  let s2 := field META_TOTAL_WIDTH META_SEG2_LEN_START META_SEG2_LEN_WIDTH w
  if b.length < requiredSize s0 s1 s2 then none else
  let data := b.drop META_SIZE_BYTES
  let ni := infoCount s0 s1 s2
  some ({ currInf := field META_TOTAL_WIDTH META_CURR_INFO_FIELD_START META_CURR_INFO_FIELD_WIDTH w
          currHf := field META_TOTAL_WIDTH META_CURR_HOP_FIELD_START META_CURR_HOP_FIELD_WIDTH w
          rsv := field META_TOTAL_WIDTH META_RSV_START META_RSV_WIDTH w
          seg0 := s0, seg1 := s1, seg2 := s2
          infos := decodeN InfoF.ofBytes INFO_SIZE_BYTES ni data
          hops := decodeN HopF.ofBytes HOP_SIZE_BYTES (s0 + s1 + s2) (data.drop (ni * INFO_SIZE_BYTES)) },
        b.drop (requiredSize s0 s1 s2))

/-! ### flags -/

def consDir (flags : Nat) : Bool := flags / INFO_FLAG_CONS_DIR % 2 == 1
def peering (flags : Nat) : Bool := flags / INFO_FLAG_PEERING % 2 == 1
/-- `flags.toggle(InfoFieldFlags::CONS_DIR)` -/
def toggleCons (flags : Nat) : Nat := flags ^^^ INFO_FLAG_CONS_DIR
def InfoF.toggle (i : InfoF) : InfoF := { i with flags := toggleCons i.flags }

/-- `HopFieldView::ingress_interface` -/
def HopF.ingressIf (h : HopF) (i : InfoF) : Nat := if consDir i.flags then h.consIn else h.consEg
/-- `HopFieldView::egress_interface` -/
def HopF.egressIf (h : HopF) (i : InfoF) : Nat := if consDir i.flags then h.consEg else h.consIn

/-! ### segment queries -/

/-- `_calculate_segment_index`: `(segment, is_segment_start, is_segment_end)` of a hop index -/
def segIndex (s0 s1 s2 hop : Nat) : Option (Nat × Bool × Bool) :=
  if hop < s0 then some (0, hop == 0, hop + 1 == s0)
  else if hop < s0 + s1 then some (1, hop == s0, hop + 1 == s0 + s1)
  else if hop < s0 + s1 + s2 then some (2, hop == s0 + s1, hop + 1 == s0 + s1 + s2)
  else none

def PathV.segIndex (p : PathV) (hop : Nat) := StdPath.segIndex p.seg0 p.seg1 p.seg2 hop

/-- `SegmentIterator::new`: number of leading non-empty segments -/
def leadingSegs (s0 s1 s2 : Nat) : Nat :=
  if s0 = 0 then 0 else if s1 = 0 then 1 else if s2 = 0 then 2 else 3

/-- `SegmentIterator`: `(info field, hop fields)` per segment.  `segs` are the remaining segment lengths
(already cut to the leading non-empty ones); iteration stops when the info fields run out. -/
def iterSegs : List InfoF → List Nat → List HopF → List (InfoF × List HopF)
  | i :: is, s :: ss, hs => (i, hs.take s) :: iterSegs is ss (hs.drop s)
  | _, _, _ => []

def PathV.segments (p : PathV) : List (InfoF × List HopF) :=
  iterSegs p.infos ([p.seg0, p.seg1, p.seg2].take (leadingSegs p.seg0 p.seg1 p.seg2)) p.hops

/-! ### expiry -/

def U32_MAX : Nat := 2 ^ 32 - 1
/-- `exp_time_to_duration(e).as_secs()` -/
def expSecs (e : Nat) : Nat := EXP_TIME_UNIT_MS * (e + 1) / 1000
def satAdd32 (a b : Nat) : Nat := if a + b > U32_MAX then U32_MAX else a + b

/-- minimum of a list of naturals, `none` on the empty list (`Iterator::min`) -/
def minList : List Nat → Option Nat
  | [] => none
  | x :: xs => match minList xs with
    | none => some x
    | some m => some (if x ≤ m then x else m)

/-- `StandardPathView::expiration`.  `none` = the `expect("segment iterator ensures at least one hop
field per segment")` fires (shown impossible in `Theorems/C12.lean`). -/
def expiryLoopV : List (InfoF × List HopF) → Nat → Option Nat
  | [], acc => some acc
  | (i, hs) :: rest, acc =>
    match minList (hs.map (·.exp)) with
    | none => none
    | some e => expiryLoopV rest (Nat.min acc (satAdd32 i.ts (expSecs e)))

def PathV.expiration (p : PathV) : Option Nat :=
  if leadingSegs p.seg0 p.seg1 p.seg2 = 0 then some 0 else expiryLoopV p.segments U32_MAX

/-! ### reversal (`StandardPathView::try_reverse`, after `fix: validate before mutating`) -/

inductive RevErr | noSegments | hopOob | infoOob
deriving Repr, DecidableEq

/-- the `match (seg0, seg1, seg2)` of `try_reverse` once `seg0 ≠ 0`: number of segments -/
def segCountNZ (s1 s2 : Nat) : Nat := if s1 = 0 then 1 else if s2 = 0 then 2 else 3

/-- the state written by the success path of `try_reverse`: segment lengths (1 segment: untouched;
2 segments: `seg0 ↔ seg1`; 3 segments: `seg0 ↔ seg2`), CONS_DIR toggled on every info field, order of
info and hop fields reversed, both pointers mirrored – written through the 6-bit / 2-bit fields, hence
the truncations. -/
def reversedState (p : PathV) : PathV :=
  { currInf := (segCountNZ p.seg1 p.seg2 - p.currInf - 1) % 2 ^ META_CURR_INFO_FIELD_WIDTH
    currHf := (p.seg0 + p.seg1 + p.seg2 - p.currHf - 1) % 2 ^ META_CURR_HOP_FIELD_WIDTH
    rsv := p.rsv
    seg0 := if p.seg1 = 0 then p.seg0 else if p.seg2 = 0 then p.seg1 else p.seg2
    seg1 := if p.seg1 = 0 then p.seg1 else if p.seg2 = 0 then p.seg0 else p.seg1
    seg2 := if p.seg1 = 0 then p.seg2 else if p.seg2 = 0 then p.seg2 else p.seg0
    infos := (p.infos.map InfoF.toggle).reverse
    hops := p.hops.reverse }

/-- `try_reverse` as it is in the tree: segment count, **validation, then** the writes. -/
def reverseView (p : PathV) : PathV × Except RevErr Unit :=
  if p.seg0 = 0 then (p, .error .noSegments) else
  if p.seg0 + p.seg1 + p.seg2 ≤ p.currHf then (p, .error .hopOob) else
  if segCountNZ p.seg1 p.seg2 ≤ p.currInf then (p, .error .infoOob) else
  (reversedState p, .ok ())

/-- the order of effects **before** the fix (kept for the witness theorem of the repaired defect):
the segment lengths were swapped first, validation came afterwards. -/
def reverseViewPreFix (p : PathV) : PathV × Except RevErr Unit :=
  if p.seg0 = 0 then (p, .error .noSegments) else
  let p1 : PathV := { p with seg0 := (reversedState p).seg0, seg1 := (reversedState p).seg1, seg2 := (reversedState p).seg2 }
  if p.seg0 + p.seg1 + p.seg2 ≤ p.currHf then (p1, .error .hopOob) else
  if segCountNZ p.seg1 p.seg2 ≤ p.currInf then (p1, .error .infoOob) else
  (reversedState p, .ok ())

/-- `StandardPathView::try_reverse`, statement by statement (reads of the five meta fields, the `match` with
its early return, the two validity checks, then the writes: segment lengths, info fields, hop fields, both
pointers – the pointer writes go through the 6-bit / 2-bit fields). -/
def reverseViewImp : Imp PathV (Except RevErr Unit) (Except RevErr Unit) := do
  let s ← Imp.get
  let seg0 := s.seg0
  let seg1 := s.seg1
  let seg2 := s.seg2
  let ch := s.currHf
  let ci := s.currInf
  if seg0 = 0 then Imp.exit (.error .noSegments) else
  let segCount := segCountNZ seg1 seg2
  let total := seg0 + seg1 + seg2
  if total ≤ ch then Imp.exit (.error .hopOob) else
  if segCount ≤ ci then Imp.exit (.error .infoOob) else do
  (if segCount = 1 then Imp.pure ()
   else if segCount = 2 then do
     Imp.write fun s => { s with seg0 := seg1 }
     Imp.write fun s => { s with seg1 := seg0 }
   else do
     Imp.write fun s => { s with seg0 := seg2 }
     Imp.write fun s => { s with seg1 := seg1 }
     Imp.write fun s => { s with seg2 := seg0 })
  Imp.write fun s => { s with infos := (s.infos.map InfoF.toggle).reverse }
  Imp.write fun s => { s with hops := s.hops.reverse }
  Imp.write fun s => { s with currHf := (total - ch - 1) % 2 ^ META_CURR_HOP_FIELD_WIDTH }
  Imp.write fun s => { s with currInf := (segCount - ci - 1) % 2 ^ META_CURR_INFO_FIELD_WIDTH }
  pure (.ok ())

/-- source order of exits (`exit`), panic sites (`panic`) and receiver writes (`write:…`) of
`StandardPathView::try_reverse` as mirrored by `reverseViewImp`; compared with the translator's extraction
(`Generated.StdPath.EFFECTS_VIEW_TRY_REVERSE`) in `Theorems/C12.lean` -/
def reverseViewImp.effects : List String :=
  ["exit", "exit", "exit", "write:set_seg0_len", "write:set_seg1_len", "write:set_seg0_len", "write:set_seg1_len",
   "write:set_seg2_len", "panic", "panic", "write:info_fields_mut", "write:hop_fields_mut", "write:set_curr_hop_field",
   "write:set_curr_info_field"]

/-! ## the owned model (`StandardPath`) -/

/-- `InfoField` (no reserved byte) -/
structure InfoM where
  flags : Nat
  segId : Nat
  ts    : Nat
deriving Repr, DecidableEq

structure SegM where
  info : InfoM
  hops : List HopF
deriving Repr, DecidableEq

/-- `StandardPath`; `segs.length ≤ 3` is the `ArrayVec<[Segment; 3]>` capacity -/
structure PathM where
  currInf : Nat  -- u8
  currHf  : Nat  -- u8
  segs    : List SegM
deriving Repr, DecidableEq

def InfoM.Valid (i : InfoM) : Prop := i.flags < 2 ^ 8 ∧ i.segId < 2 ^ 16 ∧ i.ts < 2 ^ 32
/-- representable as the Rust type (field widths, `ArrayVec` capacity) -/
def PathM.Repr (m : PathM) : Prop :=
  m.currInf < 2 ^ 8 ∧ m.currHf < 2 ^ 8 ∧ m.segs.length ≤ MAX_SEGMENTS ∧
  ∀ s ∈ m.segs, s.info.Valid ∧ ∀ h ∈ s.hops, h.Valid

def InfoM.toggle (i : InfoM) : InfoM := { i with flags := toggleCons i.flags }
def InfoM.toV (i : InfoM) : InfoF := { flags := i.flags, rsv := 0, segId := i.segId, ts := i.ts }
def InfoF.toM (i : InfoF) : InfoM := { flags := i.flags, segId := i.segId, ts := i.ts }

def PathM.hopCount (m : PathM) : Nat := (m.segs.map (·.hops.length)).sum
def PathM.infoCount (m : PathM) : Nat := m.segs.length
def PathM.iterHops (m : PathM) : List HopF := (m.segs.map (·.hops)).flatten
def PathM.iterInfos (m : PathM) : List InfoM := m.segs.map (·.info)
/-- `segment_sizes` / `segment_lengths` (`len as u8`) -/
def PathM.segLen (m : PathM) (k : Nat) : Nat := match m.segs[k]? with
  | some s => s.hops.length % 256
  | none => 0

/-- the segments after `try_reverse`: CONS_DIR toggled, segment order reversed, hop fields of every
segment reversed -/
def reversedSegs (segs : List SegM) : List SegM :=
  ((segs.map (fun s => { s with info := s.info.toggle })).reverse).map (fun s => { s with hops := s.hops.reverse })

/-- `StandardPath::try_reverse` (the new pointers are computed from the hop count of the reversed
segments and stored with `as u8`) -/
def reverseModel (m : PathM) : PathM × Except RevErr Unit :=
  if m.segs.length = 0 then (m, .error .noSegments) else
  if m.hopCount ≤ m.currHf then (m, .error .hopOob) else
  if m.segs.length ≤ m.currInf then (m, .error .infoOob) else
  ({ segs := reversedSegs m.segs
     currHf := (((reversedSegs m.segs).map (·.hops.length)).sum - m.currHf - 1) % 256
     currInf := (m.segs.length - m.currInf - 1) % 256 }, .ok ())

/-- `StandardPath::try_reverse`, statement by statement -/
def reverseModelImp : Imp PathM (Except RevErr Unit) (Except RevErr Unit) := do
  let s ← Imp.get
  let segCount := s.segs.length
  if segCount = 0 then Imp.exit (.error .noSegments) else
  if s.hopCount ≤ s.currHf then Imp.exit (.error .hopOob) else
  if segCount ≤ s.currInf then Imp.exit (.error .infoOob) else do
  Imp.write fun s => { s with segs := s.segs.map (fun x => { x with info := x.info.toggle }) }
  Imp.write fun s => { s with segs := s.segs.reverse }
  Imp.write fun s => { s with segs := s.segs.map (fun x => { x with hops := x.hops.reverse }) }
  let s' ← Imp.get
  let total := s'.hopCount
  let newHop := total - s'.currHf - 1
  let newInfo := segCount - s'.currInf - 1
  Imp.write fun s => { s with currHf := newHop % 256 }
  Imp.write fun s => { s with currInf := newInfo % 256 }
  pure (.ok ())

def reverseModelImp.effects : List String :=
  ["exit", "exit", "exit", "write:segments.iter_mut", "write:segments.reverse", "write:segments.iter_mut",
   "write:current_hop_field", "write:current_info_field"]

/-- `StandardPath::expiration`: `0` as soon as a segment without hop fields is met, `u32::MAX` for a path
without segments -/
def expiryLoopM : List SegM → Nat → Nat
  | [], acc => acc
  | s :: rest, acc =>
    match minList (s.hops.map (·.exp)) with
    | none => 0
    | some e => expiryLoopM rest (Nat.min acc (satAdd32 s.info.ts (expSecs e)))

def PathM.expiration (m : PathM) : Nat := expiryLoopM m.segs U32_MAX

/-- `WireEncode::wire_valid` of `StandardPath` (the error text is not observable through the check); the last two
conjuncts are the checks `current_hop_field > MAX_TOTAL_HOPS ⇒ Err` (/repo 6beb049) and
`hop_field_count() > MAX_TOTAL_HOPS + 1 ⇒ Err` (/repo b07ca50) -/
def PathM.wireValid (m : PathM) : Bool :=
  decide (META_SIZE_BYTES + m.segs.length * INFO_SIZE_BYTES + m.hopCount * HOP_SIZE_BYTES ≤ PATH_MAX_SIZE_BYTES) &&
  decide (m.segs.length ≤ MAX_SEGMENTS) && decide (m.segs.length ≠ 0) &&
  decide (m.currHf < m.hopCount) && decide (m.currInf < m.segs.length) &&
  m.segs.all (fun s => decide (s.hops.length ≤ MAX_SEGMENT_HOPS) && decide (s.hops.length ≠ 0)) &&
  decide (m.currHf ≤ MAX_TOTAL_HOPS) && decide (m.hopCount ≤ MAX_TOTAL_HOPS + 1)

/-- `encode_unchecked` into a zeroed buffer: pointers are written through 2-bit and 6-bit fields (truncated),
the reserved bits stay zero -/
def PathM.encodeUnchecked (m : PathM) : PathV :=
  { currInf := m.currInf % 2 ^ META_CURR_INFO_FIELD_WIDTH
    currHf := m.currHf % 2 ^ META_CURR_HOP_FIELD_WIDTH
    rsv := 0
    seg0 := m.segLen 0 % 2 ^ META_SEG0_LEN_WIDTH
    seg1 := m.segLen 1 % 2 ^ META_SEG1_LEN_WIDTH
    seg2 := m.segLen 2 % 2 ^ META_SEG2_LEN_WIDTH
    infos := m.iterInfos.map InfoM.toV
    hops := m.iterHops }

/-- `try_encode_to_vec` / `try_encode_to_owned_view`: `none` = `InvalidStructureError` -/
def PathM.encode (m : PathM) : Option PathV := if m.wireValid then some m.encodeUnchecked else none

/-- `StandardPath::from_view`: info fields zipped with the three segment lengths, hop fields handed out
sequentially -/
def fromViewSegs : List InfoF → List Nat → List HopF → List SegM
  | i :: is, s :: ss, hs => ⟨i.toM, hs.take s⟩ :: fromViewSegs is ss (hs.drop s)
  | _, _, _ => []

def fromView (p : PathV) : PathM :=
  { currInf := p.currInf, currHf := p.currHf, segs := fromViewSegs p.infos [p.seg0, p.seg1, p.seg2] p.hops }

/-! ## per-AS processing (`standard/routing.rs`) -/

/-- `AdvanceError` -/
inductive AdvErr
  | hopOob (n : Nat) | infoOob (n : Nat) | segIdx (expected actual : Nat) | single | segEnd
deriving Repr, DecidableEq

/-- result of an advance call: `panic` stands for the `unreachable!` arm and the two `expect`s of the
commit phase (shown never to be reached in `Theorems/C11.lean`) -/
inductive AdvRes (α : Type)
  | ok (out : α) | err (e : AdvErr) | panic
deriving Repr, DecidableEq

inductive IngAction | forwardLocal | continueEgress (egressIf : Nat)
deriving Repr, DecidableEq

/-- `IngressAdvanceOutput` + whether validation passed (`IngressValidateResult::Ok` vs `ValidationFailed`) -/
structure IngOut where
  alert : Bool
  ingressIf : Nat
  action : IngAction
  valid : Bool
deriving Repr, DecidableEq

structure EgrOut where
  alert : Bool
  egressIf : Nat
  valid : Bool
deriving Repr, DecidableEq

/-- `AdvanceValidator`: `true` = `Ok(())` -/
structure Validator where
  hop : (hopIdx : Nat) → HopF → InfoF → (segStart segEnd : Bool) → Bool
  segChange : (hopIdx : Nat) → HopF → InfoF → HopF → InfoF → Bool

/-- `NoValidation` -/
def noValidation : Validator := { hop := fun _ _ _ _ _ => true, segChange := fun _ _ _ _ _ => true }

/-- the CMAC input the router recomputes for a hop field under an info field -/
def macInput (h : HopF) (i : InfoF) : MacInput :=
  { beta := i.segId, ts := i.ts, exp := h.exp, consIn := h.consIn, consEg := h.consEg }

/-- `HopMacValidator { key }` for an arbitrary MAC function -/
def hopMacValidator {K : Type} (mac : MacFn K) (key : K) : Validator :=
  { hop := fun _ h i _ _ => h.mac == mac key (macInput h i), segChange := fun _ _ _ _ _ => true }

/-- `hop_field(index)` (bounds-checked against `hop_field_count`) -/
def PathV.hopAt (p : PathV) (i : Nat) : Option HopF := if i < p.hopCount then p.hops[i]? else none
/-- `info_field(index)` (bounds-checked against `info_field_count`) -/
def PathV.infoAt (p : PathV) (i : Nat) : Option InfoF := if i < p.infoCount then p.infos[i]? else none

def bitSet (flags bit : Nat) : Bool := flags / bit % 2 == 1
/-- `flags.remove(bit)` for a single-bit mask -/
def clearBit (flags bit : Nat) : Nat := if bitSet flags bit then flags - bit else flags
/-- `normalized_ingress_router_alert` -/
def ingressAlert (flags : Nat) (cons : Bool) : Bool :=
  if cons then bitSet flags HOP_FLAG_CONS_INGRESS_ROUTER_ALERT else bitSet flags HOP_FLAG_CONS_EGRESS_ROUTER_ALERT
/-- `normalized_egress_router_alert` -/
def egressAlert (flags : Nat) (cons : Bool) : Bool :=
  if cons then bitSet flags HOP_FLAG_CONS_EGRESS_ROUTER_ALERT else bitSet flags HOP_FLAG_CONS_INGRESS_ROUTER_ALERT

/-- the commit phase: `*info_field_mut(ci) = info; *hop_field_mut(ch) = hop` (`none` = an `expect` fires) -/
def PathV.commit (p : PathV) (ci : Nat) (info : InfoF) (ch : Nat) (hop : HopF) : Option PathV :=
  if ci < p.infoCount ∧ ci < p.infos.length ∧ ch < p.hopCount ∧ ch < p.hops.length then
    some { p with infos := p.infos.set ci info, hops := p.hops.set ch hop }
  else none

/-- the info-field copy after the ingress update: against construction direction and entering from
outside, the current MAC is folded into SegID *before* validation -/
def ingInfo (fromInternal : Bool) (hop : HopF) (info : InfoF) : InfoF :=
  if !fromInternal && !consDir info.flags then { info with segId := betaStep info.segId hop.mac } else info

/-- the hop-field copy after the ingress update: the ingress router alert is cleared when entering from outside -/
def ingHop (fromInternal : Bool) (hop : HopF) (info : InfoF) : HopF :=
  let cons := consDir info.flags
  let ibit := if cons then HOP_FLAG_CONS_INGRESS_ROUTER_ALERT else HOP_FLAG_CONS_EGRESS_ROUTER_ALERT
  if !fromInternal && ingressAlert hop.flags cons then { hop with flags := clearBit hop.flags ibit } else hop

/-- the info-field copy after the egress update: in construction direction the MAC is folded into SegID
*after* validation -/
def egrInfo (hop : HopF) (info : InfoF) : InfoF :=
  if consDir info.flags then { info with segId := betaStep info.segId hop.mac } else info

/-- the hop-field copy after the egress update: the egress router alert is cleared -/
def egrHop (hop : HopF) (info : InfoF) : HopF :=
  let cons := consDir info.flags
  let ebit := if cons then HOP_FLAG_CONS_EGRESS_ROUTER_ALERT else HOP_FLAG_CONS_INGRESS_ROUTER_ALERT
  if egressAlert hop.flags cons then { hop with flags := clearBit hop.flags ebit } else hop

/-- commit the copies and return `Ok` (`panic` = one of the two `expect`s) -/
def finishIngress (p q : PathV) (info1 : InfoF) (hop1 : HopF) (out : IngOut) : PathV × AdvRes IngOut :=
  match q.commit p.currInf info1 p.currHf hop1 with
  | some q' => (q', .ok out)
  | none => (q, .panic)

/-- `advance_ingress_with_validator`, statement by statement: extraction and checks on the unmodified
path, work on copies, pointer writes in the segment-change arm (through the 6-bit / 2-bit fields),
commit of the copies at the end.  Includes the check added by `fix: advancing a standard path must not
wrap the 6-bit CurrHF pointer` (next index `> MAX_TOTAL_HOPS` ⇒ `HopOutOfBounds`). -/
def advanceIngress (val : Validator) (fromInternal : Bool) (p : PathV) : PathV × AdvRes IngOut :=
  match p.segIndex p.currHf with
  | none => (p, .err (.hopOob p.currHf))
  | some (seg, sos, eos) =>
    if sos && eos then (p, .err .single) else
    if seg ≠ p.currInf then (p, .err (.segIdx seg p.currInf)) else
    match p.hopAt p.currHf with
    | none => (p, .err (.hopOob p.currHf))
    | some hop =>
    match p.infoAt p.currInf with
    | none => (p, .err (.infoOob p.currInf))
    | some info =>
      let info1 := ingInfo fromInternal hop info
      let hop1 := ingHop fromInternal hop info
      let v1 := val.hop p.currHf hop info1 sos eos
      let alert := ingressAlert hop.flags (consDir info.flags)
      match decide (p.currHf + 1 ≥ p.hopCount), eos with
      | true, true =>
        finishIngress p p info1 hop1 { alert, ingressIf := hop.ingressIf info, action := .forwardLocal, valid := v1 }
      | false, false =>
        finishIngress p p info1 hop1
          { alert, ingressIf := hop.ingressIf info, action := .continueEgress (hop1.egressIf info1), valid := v1 }
      | false, true =>
        if p.currHf + 1 > MAX_TOTAL_HOPS then (p, .err (.hopOob (p.currHf + 1))) else
        match p.hopAt (p.currHf + 1) with
        | none => (p, .err (.hopOob (p.currHf + 1)))
        | some nh =>
        match p.infoAt (seg + 1) with
        | none => (p, .err (.infoOob (seg + 1)))
        | some ni =>
          finishIngress p
            { p with currHf := (p.currHf + 1) % 2 ^ META_CURR_HOP_FIELD_WIDTH
                     currInf := (seg + 1) % 2 ^ META_CURR_INFO_FIELD_WIDTH }
            info1 hop1
            { alert, ingressIf := hop.ingressIf info, action := .continueEgress (nh.egressIf ni)
              valid := v1 && val.segChange p.currHf hop1 info1 nh ni && val.hop (p.currHf + 1) nh ni true false }
      | true, false => (p, .panic)

/-- `advance_egress_with_validator` -/
def advanceEgress (val : Validator) (p : PathV) : PathV × AdvRes EgrOut :=
  match p.segIndex p.currHf with
  | none => (p, .err (.hopOob p.currHf))
  | some (seg, sos, eos) =>
    if seg ≠ p.currInf then (p, .err (.segIdx seg p.currInf)) else
    match p.hopAt p.currHf with
    | none => (p, .err (.hopOob p.currHf))
    | some hop =>
    match p.infoAt p.currInf with
    | none => (p, .err (.infoOob p.currInf))
    | some info =>
      if p.currHf + 1 ≥ p.hopCount then (p, .err (.hopOob (p.currHf + 1))) else
      if p.currHf + 1 > MAX_TOTAL_HOPS then (p, .err (.hopOob (p.currHf + 1))) else
      if eos then (p, .err .segEnd) else
      let info1 := egrInfo hop info
      let hop1 := egrHop hop info
      match p.commit p.currInf info1 p.currHf hop1 with
      | none => (p, .panic)
      | some q =>
        ({ q with currHf := (p.currHf + 1) % 2 ^ META_CURR_HOP_FIELD_WIDTH },
         .ok { alert := egressAlert hop.flags (consDir info.flags), egressIf := hop1.egressIf info1
               valid := val.hop p.currHf hop info sos eos })

/-! ### the two advance functions as statement sequences -/

/-- `*self.info_field_mut(ci).expect(..) = info` -/
def setInfoOrPanic {α : Type} (ci : Nat) (info : InfoF) : Imp PathV (AdvRes α) Unit := do
  let s ← Imp.get
  if ci < s.infoCount ∧ ci < s.infos.length then Imp.write fun s => { s with infos := s.infos.set ci info }
  else Imp.exit .panic

/-- `*self.hop_field_mut(ch).expect(..) = hop` -/
def setHopOrPanic {α : Type} (ch : Nat) (hop : HopF) : Imp PathV (AdvRes α) Unit := do
  let s ← Imp.get
  if ch < s.hopCount ∧ ch < s.hops.length then Imp.write fun s => { s with hops := s.hops.set ch hop }
  else Imp.exit .panic

/-- `advance_ingress_with_validator` in the statement order of `routing.rs`: extraction and checks (every `?` /
`return Err` leaves with the receiver as it is at that point), work on the two *copies*, the `match` whose
segment-change arm has three more exits and then writes both pointers, finally the commit of the copies. -/
def ingressImp (val : Validator) (fromInternal : Bool) : Imp PathV (AdvRes IngOut) (AdvRes IngOut) := do
  let s ← Imp.get
  let hopCount := s.hopCount
  let ch := s.currHf
  let ci := s.currInf
  let (seg, sos, eos) ← Imp.orExit (s.segIndex ch) (.err (.hopOob ch))
  if sos && eos then Imp.exit (.err .single) else
  if seg ≠ ci then Imp.exit (.err (.segIdx seg ci)) else do
  let isFinal := decide (ch + 1 ≥ hopCount)
  let hop ← Imp.orExit ((← Imp.get).hopAt ch) (.err (.hopOob ch))
  let info ← Imp.orExit ((← Imp.get).infoAt ci) (.err (.infoOob ci))
  let info1 := ingInfo fromInternal hop info
  let v1 := val.hop ch hop info1 sos eos
  let alert := ingressAlert hop.flags (consDir info.flags)
  let hop1 := ingHop fromInternal hop info
  let out ← (match isFinal, eos with
    | true, true => Imp.pure { alert, ingressIf := hop.ingressIf info, action := .forwardLocal, valid := v1 }
    | false, false =>
      Imp.pure { alert, ingressIf := hop.ingressIf info, action := .continueEgress (hop1.egressIf info1), valid := v1 }
    | false, true =>
      if ch + 1 > MAX_TOTAL_HOPS then Imp.exit (.err (.hopOob (ch + 1))) else do
      let nh ← Imp.orExit ((← Imp.get).hopAt (ch + 1)) (.err (.hopOob (ch + 1)))
      let ni ← Imp.orExit ((← Imp.get).infoAt (seg + 1)) (.err (.infoOob (seg + 1)))
      let v := v1 && val.segChange ch hop1 info1 nh ni && val.hop (ch + 1) nh ni true false
      Imp.write fun s => { s with currHf := (ch + 1) % 2 ^ META_CURR_HOP_FIELD_WIDTH }
      Imp.write fun s => { s with currInf := (seg + 1) % 2 ^ META_CURR_INFO_FIELD_WIDTH }
      Imp.pure { alert, ingressIf := hop.ingressIf info, action := .continueEgress (nh.egressIf ni), valid := v }
    | true, false => Imp.exit .panic : Imp PathV (AdvRes IngOut) IngOut)
  setInfoOrPanic ci info1
  setHopOrPanic ch hop1
  pure (.ok out)

def ingressImp.effects : List String :=
  ["exit", "exit", "exit", "exit", "exit", "exit", "exit", "exit", "write:set_curr_hop_field", "write:set_curr_info_field",
   "panic", "write:info_field_mut", "panic", "write:hop_field_mut", "panic"]

/-- `advance_egress_with_validator` in the statement order of `routing.rs` -/
def egressImp (val : Validator) : Imp PathV (AdvRes EgrOut) (AdvRes EgrOut) := do
  let s ← Imp.get
  let hopCount := s.hopCount
  let ch := s.currHf
  let ci := s.currInf
  let (seg, sos, eos) ← Imp.orExit (s.segIndex ch) (.err (.hopOob ch))
  if seg ≠ ci then Imp.exit (.err (.segIdx seg ci)) else do
  let hop ← Imp.orExit ((← Imp.get).hopAt ch) (.err (.hopOob ch))
  let info ← Imp.orExit ((← Imp.get).infoAt ci) (.err (.infoOob ci))
  if ch + 1 ≥ hopCount then Imp.exit (.err (.hopOob (ch + 1))) else
  if ch + 1 > MAX_TOTAL_HOPS then Imp.exit (.err (.hopOob (ch + 1))) else
  if eos then Imp.exit (.err .segEnd) else
  if seg ≠ ci then Imp.exit (.err (.segIdx seg ci)) else do
  let v := val.hop ch hop info sos eos
  let info1 := egrInfo hop info
  let hop1 := egrHop hop info
  setInfoOrPanic ci info1
  setHopOrPanic ch hop1
  Imp.write fun s => { s with currHf := (ch + 1) % 2 ^ META_CURR_HOP_FIELD_WIDTH }
  pure (.ok { alert := egressAlert hop.flags (consDir info.flags), egressIf := hop1.egressIf info1, valid := v })

def egressImp.effects : List String :=
  ["exit", "exit", "exit", "exit", "exit", "exit", "exit", "exit", "write:info_field_mut", "panic",
   "write:hop_field_mut", "panic", "write:set_curr_hop_field"]

/-! ## `ScionPath::try_reverse` (`scion/path.rs`) -/

/-- `ScionPath` with a standard data-plane path; metadata and fingerprints are opaque -/
structure ScionPathS (Meta FP : Type) where
  src : Nat
  dst : Nat
  dp : PathV
  metadata : Option Meta
  nextHop : Option Nat
  fp : FP

/-- `ScionPath::try_reverse`: `self.dp_path.try_reverse()?` first (the view is mutated in place, so its
state after a failed call is what remains in `self`), then endpoints, next hop, metadata, fingerprint -/
def scionPathTryReverse {Meta FP : Type} (revMeta : Meta → Meta) (fpOf : PathV → Nat → Nat → FP)
    (s : ScionPathS Meta FP) : ScionPathS Meta FP × Except RevErr Unit :=
  match reverseView s.dp with
  | (dp', .error e) => ({ s with dp := dp' }, .error e)
  | (dp', .ok ()) =>
    ({ src := s.dst, dst := s.src, dp := dp', metadata := s.metadata.map revMeta, nextHop := none, fp := fpOf dp' s.dst s.src }, .ok ())

/-- `ScionPath::try_reverse`: the only exit is the `?` on the data-plane path reversal, before any other write -/
def scionPathTryReverse.effects : List String :=
  ["exit", "write:mem_swap", "write:next_hop", "write:metadata.as_mut", "write:_cp_fingerprint", "write:_fingerprint"]

/-- all early exits of a function precede all of its writes through the receiver (in source order) -/
def exitsBeforeWrites (effects : List String) : Bool :=
  (effects.dropWhile (fun e => e == "exit" || e == "panic")).all (fun e => e != "exit")

/-! ## byte-level wrappers used by the driver and by the byte-level theorems -/

/-- run a view operation on a buffer the way the Rust caller does: construct the view over the head of
the buffer, run, and read the whole buffer back -/
def onBytes {ε : Type} (op : PathV → PathV × ε) (b : Bytes) : Option (Bytes × ε) :=
  match ofBytes b with
  | none => none
  | some (p, rest) => let r := op p; some (r.1.toBytes ++ rest, r.2)

end ScionVerif.StdPath
