import ScionVerif.Generated.Scmp
/-!
# Model of SCMP construction and handling (C14; the wire helpers are shared with C08)

Mirrors, statement by statement,
* `sciparse/src/core/read.rs` (`unchecked_bit_range_be_read`) – `readBits`, with every unchecked read guarded by
  an explicit bounds test whose failure is the distinguished result `panic` (out-of-bounds unchecked access);
* `sciparse/src/scion/checksum.rs` (`ChecksumDigest::with_pseudoheader`, `add_u64/u32/slice`, `checksum`);
* `sciparse/src/proto/payload/scmp/layout.rs` (`*Layout::from_offending_packet_length`) – `quoteLen`;
* `sciparse/src/proto/payload/scmp/model.rs` (`encode_unchecked` of every error kind and of echo request/reply);
* `sciparse/src/proto/header/model.rs` (`ScionPacketHeader::encode_unchecked`, `wire_valid`) – `encodeHeader`;
(the handlers, the socket receive loop and pocketscion's `maybe_create_scmp_reply` are modelled in `Model/ScmpHandler.lean`).

Core-only. All numeric data comes from `Generated/Scmp.lean`.
-/
namespace ScionVerif.Scmp
open ScionVerif.Generated.Scmp

abbrev Bytes := List UInt8

/-! ## bytes -/

/-- `x as u8` -/
def u8 (n : Nat) : UInt8 := UInt8.ofNat (n % 256)
def be16 (n : Nat) : Bytes := [u8 (n / 256), u8 n]
def be32 (n : Nat) : Bytes := [u8 (n / 16777216), u8 (n / 65536), u8 (n / 256), u8 n]
def be64 (n : Nat) : Bytes := be32 (n / 4294967296) ++ be32 n

def byteAt (b : Bytes) (i : Nat) : Nat := (b.getD i 0).toNat

/-- big-endian value of the `n` bytes starting at `lo` -/
def beRead (b : Bytes) (lo : Nat) : Nat → Nat
  | 0 => 0
  | n + 1 => beRead b lo n * 256 + byteAt b (lo + n)

/-- index one past the last byte touched by bit range `r = (start, width)` (`containing_byte_range().end`) -/
def byteEnd (r : Nat × Nat) : Nat := (r.1 + r.2 + 7) / 8

/-- `unchecked_bit_range_be_read(buf, BitRange::new(start, width))` -/
def readBits (b : Bytes) (r : Nat × Nat) : Nat :=
  let lo := r.1 / 8
  let hi := byteEnd r
  (beRead b lo (hi - lo) / 2 ^ (hi * 8 - (r.1 + r.2))) % 2 ^ r.2

/-! ## checksum (`scion/checksum.rs`) -/

/-- sum of the big-endian 16-bit words of a byte string, an odd trailing byte padded with a zero byte
    (what `add_slice` adds, up to folding; the pointer-alignment case split of the Rust code computes the
    same one's-complement sum – RFC 1071 byte-order independence – and is not observable) -/
def sumWords : Bytes → Nat
  | [] => 0
  | [a] => a.toNat * 256
  | a :: b :: t => a.toNat * 256 + b.toNat + sumWords t

/-- `fold_checksum`: two rounds of end-around carry -/
def fold16 (x : Nat) : Nat :=
  let y := x / 65536 + x % 65536
  y / 65536 + y % 65536

/-- `add_u64` -/
def sum64 (v : Nat) : Nat := v % 65536 + v / 65536 % 65536 + v / 4294967296 % 65536 + v / 281474976710656 % 65536
/-- `add_u32` -/
def sum32 (v : Nat) : Nat := v % 65536 + v / 65536 % 65536

/-- the SCION address header as far as encoding needs it: ISD-AS numbers (u64), the wire type nibbles and
    the encoded host-address bytes -/
structure AddrHdr where
  dstIa : Nat
  srcIa : Nat
  dstNib : Nat
  srcNib : Nat
  dstHost : Bytes
  srcHost : Bytes
deriving Repr, DecidableEq

/-- `ChecksumDigest::with_pseudoheader(addr, protocol, buf)`: the running sum over the pseudo-header
    (`buf` contributes only its length) -/
def pseudoSum (a : AddrHdr) (len proto : Nat) : Nat :=
  sum64 a.dstIa + sum64 a.srcIa + fold16 (sumWords a.dstHost) + fold16 (sumWords a.srcHost)
    + sum32 (len % 4294967296) + sum32 proto

/-- the checksum the encoders write: `with_pseudoheader(..)[.add_slice(msg)].checksum()`; whether the message
    bytes are folded in is read off the source by the translator (`CHECKSUM_COVERS_MESSAGE`) -/
def checksum (a : AddrHdr) (proto : Nat) (msg : Bytes) : Nat :=
  65535 - fold16 (pseudoSum a msg.length proto + (if CHECKSUM_COVERS_MESSAGE then fold16 (sumWords msg) else 0))

/-- the pseudo-header as bytes (specification side): DstISD-AS, SrcISD-AS, DstHost, SrcHost, upper-layer
    length (32 bit), zero padding + next header (32 bit) -/
def pseudoHeaderBytes (a : AddrHdr) (len proto : Nat) : Bytes :=
  be64 a.dstIa ++ be64 a.srcIa ++ a.dstHost ++ a.srcHost ++ be32 len ++ be32 proto

/-- receiver-side verification per the SCION specification: the one's-complement sum over
    pseudo-header ++ message (checksum field in place) is `0xffff` -/
def checksumVerifies (a : AddrHdr) (proto : Nat) (msg : Bytes) : Bool :=
  fold16 (sumWords (pseudoHeaderBytes a msg.length proto) + sumWords msg) == 65535

/-! ## SCION header encoding (`header/model.rs`) -/

/-- `ScionPacketHeader::encode_unchecked` (version 0) followed by the already encoded path bytes -/
def encodeHeader (tc flow nextHdr : Nat) (a : AddrHdr) (pathType : Nat) (path : Bytes) (payloadLen : Nat) : Bytes :=
  let hdrLen := 12 + 16 + a.dstHost.length + a.srcHost.length + path.length
  [u8 (tc / 16), u8 (tc % 16 * 16 + flow / 65536 % 16), u8 (flow / 256), u8 flow,
   u8 nextHdr, u8 (hdrLen / 4), u8 (payloadLen / 256), u8 payloadLen,
   u8 pathType, u8 (a.dstNib % 16 * 16 + a.srcNib % 16), 0, 0]
  ++ be64 a.dstIa ++ be64 a.srcIa ++ a.dstHost ++ a.srcHost ++ path

/-- `ScionPacketHeader::required_size` -/
def headerSize (a : AddrHdr) (path : Bytes) : Nat := 12 + 16 + a.dstHost.length + a.srcHost.length + path.length

/-! ## SCMP error messages (`scmp/layout.rs`, `scmp/model.rs`) -/

/-- `included_offending` of `*Layout::from_offending_packet_length(off, hdr)` for a kind whose fixed part is
    `fixed` bytes: `off.min(MAX.saturating_sub(hdr).saturating_sub(fixed))` -/
def quoteLen (off hdr fixed : Nat) : Nat := min off ((SCMP_ERROR_MAX_PACKET_SIZE - hdr) - fixed)

/-- encoded SCMP error message: type, code, checksum, the kind's remaining fixed fields (`rest`, bytes 4 ‥ fixed),
    then as much of the offending packet as the budget allows -/
def errorMsg (ty code : Nat) (rest offending : Bytes) (a : AddrHdr) (hdr : Nat) : Bytes :=
  let q := offending.take (quoteLen offending.length hdr (4 + rest.length))
  let ck := checksum a PROTO_SCMP ([u8 ty, u8 code, 0, 0] ++ rest ++ q)
  [u8 ty, u8 code] ++ be16 ck ++ rest ++ q

/-- the five error kinds with their kind-specific fields -/
inductive ErrKind
  | destUnreachable (code : Nat)
  | packetTooBig (mtu : Nat)
  | paramProblem (code pointer : Nat)
  | extIfDown (ia ifId : Nat)
  | intConnDown (ia ingress egress : Nat)
deriving Repr, DecidableEq

def ErrKind.ty : ErrKind → Nat
  | .destUnreachable _ => TYPE_DestinationUnreachable
  | .packetTooBig _ => TYPE_PacketTooBig
  | .paramProblem _ _ => TYPE_ParameterProblem
  | .extIfDown _ _ => TYPE_ExternalInterfaceDown
  | .intConnDown _ _ _ => TYPE_InternalConnectivityDown

def ErrKind.code : ErrKind → Nat
  | .destUnreachable c => c
  | .paramProblem c _ => c
  | _ => 0

/-- bytes 4 ‥ HEADER_SIZE of the message (fields after the checksum) -/
def ErrKind.rest : ErrKind → Bytes
  | .destUnreachable _ => [0, 0, 0, 0]
  | .packetTooBig mtu => [0, 0] ++ be16 mtu
  | .paramProblem _ p => [0, 0] ++ be16 p
  | .extIfDown ia i => be64 ia ++ be64 i
  | .intConnDown ia i e => be64 ia ++ be64 i ++ be64 e

/-- fixed header size of the kind according to the generated table -/
def ErrKind.fixed (k : ErrKind) : Nat :=
  match ERROR_KINDS.find? (fun e => e.1 == k.ty) with
  | some e => e.2
  | none => 0

def encodeError (k : ErrKind) (offending : Bytes) (a : AddrHdr) (hdr : Nat) : Bytes :=
  errorMsg k.ty k.code k.rest offending a hdr

/-- a complete SCMP error packet (`ScionScmpPacket::new(..).try_encode`): header followed by the message;
    `none` = `wire_valid` refuses the header (size not a multiple of 4 or > 1020) -/
def errorPacket (k : ErrKind) (offending : Bytes) (a : AddrHdr) (pathType : Nat) (path : Bytes) : Option Bytes :=
  let hdr := headerSize a path
  if hdr % 4 ≠ 0 ∨ hdr > MAX_HEADER_SIZE then none else
  let msg := encodeError k offending a hdr
  some (encodeHeader 0 0 PROTO_SCMP a pathType path (msg.length % 65536) ++ msg)

/-! ## echo messages -/

/-- encoded echo request (`ty = 128`) / reply (`ty = 129`): type, code 0, checksum, identifier, sequence, data -/
def echoMsg (ty ident seq : Nat) (data : Bytes) (a : AddrHdr) : Bytes :=
  let ck := checksum a PROTO_SCMP ([u8 ty, 0, 0, 0] ++ be16 ident ++ be16 seq ++ data)
  [u8 ty, 0] ++ be16 ck ++ be16 ident ++ be16 seq ++ data

end ScionVerif.Scmp
