import ScionVerif.Generated.Frag
/-!
# Model of `anapaya-edge-tun/src/fragmenting.rs`

Hand-written, statement-by-statement mirror of `Fragmenter::send`, `DefragmenterInner::recv_fallible`,
`select_queue`, `DefragQueue::{init,ingest_frame}`.  All numeric parameters come from
`Generated/Frag.lean` (re-extracted from the Rust source on every run).

The model is polymorphic in the byte type `α`: the code never inspects payload bytes, only copies
them.  The driver instantiates `α := UInt8`; the integrity theorem instantiates nothing – it is stated
for every `α`, which is what makes "every emitted byte was received in a frame of the same packet"
expressible without ghost state.

Core-only (no Mathlib) so that the driver links as a native executable.
-/
namespace ScionVerif.Frag
open ScionVerif.Generated.Frag

/-- `proto::FragmentFrameHeader` -/
structure Header where
  streamOff : Nat   -- u64
  frameOff  : Nat   -- u16
  flags     : Nat   -- u16
deriving Repr, DecidableEq

/-- `FragmentFrameRef` -/
structure Frame (α : Type) where
  hdr : Header
  payload : List α
deriving Repr

def Header.isLast (h : Header) : Bool := (h.flags / FLAG_LAST) % 2 == 1

/-- the `&'static str` carried by `InvalidHeaderValue` -/
inductive Msg
  | lastPacketSizeExceedsMax | inconsistentFrameSize | offsetAlignmentInvalid | frameTooSmall
  | frameIdxExceedsMaxFrames | lastFrameOffsetAlignmentInvalid | lastFrameSizeInvalid
  | frameBeyondLastFrame
deriving Repr, DecidableEq

/-- `DefragmentInsertError` -/
inductive Err
  | queueNotAccepting | invalidHeader | invalidValue (m : Msg) | outOfBounds | duplicate | tooOld
deriving Repr, DecidableEq

/-- result of `recv`: `Ok(Some(packet))`, `Ok(None)`, `Err(e)` -/
inductive Out (α : Type)
  | packet (streamOff : Nat) (payload : List α)
  | none
  | err (e : Err)
deriving Repr

/-- `DefragQueue`.  `recv` is the set of bits of `recv_mask` (frame indices; `MAX_FRAMES-1` is the
    bit reserved for the LAST frame). -/
structure Queue (α : Type) where
  streamOff : Nat
  nextFrameOff : Nat
  buf : List α
  recv : List Nat
  window : Option Nat
  finalSize : Option Nat
  expected : Option Nat
  lastOff : Option Nat
  idle : Bool
  /-- the queue has been initialised for a packet at least once (added by a `fix:` commit) -/
  used : Bool
deriving Repr

def U64_MAX : Nat := 2^64 - 1

/-- `DefragQueue::new` -/
def Queue.new (z : α) : Queue α :=
  { streamOff := U64_MAX, nextFrameOff := 0, buf := List.replicate MAX_PACKET_SIZE z, recv := [],
    window := none, finalSize := none, expected := none, lastOff := none, idle := true, used := false }

/-- `DefragQueue::init` (note: `last_frame_offset`, `next_frame_offset` and the buffer are *not* reset) -/
def Queue.init (q : Queue α) (f : Frame α) : Queue α :=
  { q with recv := [], window := none, finalSize := none, expected := none, idle := false, used := true,
           streamOff := f.hdr.streamOff }

/-- `assembly_buffer[off..off+len].copy_from_slice(payload)` -/
def writeAt (buf : List α) (off : Nat) (p : List α) : List α :=
  buf.take off ++ p ++ buf.drop (off + p.length)

/-- `u16::is_multiple_of` : `x.is_multiple_of(0) = (x == 0)` -/
def isMultipleOf (x m : Nat) : Bool := if m == 0 then x == 0 else x % m == 0

/-- bits `0..n` of the mask are all set (new helper introduced by the `fix:` commit) -/
def hasFramesBelow (recv : List Nat) (n : Nat) : Bool := (List.range n).all (fun i => recv.contains i)

/-- the "one time operation after we received last and any middle frame" -/
def oneTime (q : Queue α) : Except Msg (Queue α) :=
  match q.finalSize, q.window, q.lastOff, q.expected with
  | some fin, some w, some lo, none =>
    if !isMultipleOf lo w then .error .lastFrameOffsetAlignmentInvalid
    else
      let lastLen := fin - lo
      if lastLen == 0 || lastLen > w then .error .lastFrameSizeInvalid
      else .ok { q with expected := some ((fin + w - 1) / w) }
  | _, _, _, _ => .ok q

/-- first half of `ingest_frame`: the `match frame.header.is_last()` block computing the frame index
    (`Err` carries the queue state left behind and the error) -/
def Queue.classify (q : Queue α) (f : Frame α) : Except (Queue α × Err) (Queue α × Nat) :=
  let off := f.hdr.frameOff
  let len := f.payload.length
  if f.hdr.isLast then
    -- (added by the `fix:` commit) only the first LAST frame defines the packet size
    if q.finalSize.isSome then .error (q, .duplicate) else
    let q1 := { q with finalSize := some (off + len), lastOff := some off }
    if off + len > MAX_PACKET_SIZE then .error ({ q1 with idle := true }, .invalidValue .lastPacketSizeExceedsMax)
    else .ok (q1, MAX_FRAMES - 1)
  else
    if q.window.isSome && q.window != some len then
      .error ({ q with idle := true }, .invalidValue .inconsistentFrameSize)
    else
      let q1 := { q with window := some len }
      if !isMultipleOf off (len % 65536) then
        .error ({ q1 with idle := true }, .invalidValue .offsetAlignmentInvalid)
      else if len < MIN_PAYLOAD_SIZE then
        .error ({ q1 with idle := true }, .invalidValue .frameTooSmall)
      else
        let idx := off / len
        if idx ≥ MAX_FRAMES - 1 then
          .error ({ q1 with idle := true }, .invalidValue .frameIdxExceedsMaxFrames)
        else .ok (q1, idx)

/-- last part of `ingest_frame`: duplicate check, copy, completion test -/
def Queue.finish (q2 : Queue α) (f : Frame α) (idx : Nat) : Queue α × Out α :=
  let off := f.hdr.frameOff
  let len := f.payload.length
  if q2.recv.contains idx then (q2, .err .duplicate) else
  let q3 := { q2 with buf := writeAt q2.buf off f.payload, recv := idx :: q2.recv,
                      nextFrameOff := (off + len) % 65536 }
  match q3.expected with
  | some e =>
    if q3.recv.length == e then
      let q4 := { q3 with idle := true }
      -- (added by the `fix:` commit) frames are counted, not located: check they are the ones below the last
      if !hasFramesBelow q3.recv (e - 1) then (q4, .err (.invalidValue .frameBeyondLastFrame))
      else (q4, .packet q3.streamOff (q3.buf.take (q3.finalSize.getD MAX_PACKET_SIZE)))
    else (q3, .none)
  | none => (q3, .none)

/-- `DefragQueue::ingest_frame` -/
def Queue.ingest (q : Queue α) (f : Frame α) : Queue α × Out α :=
  if q.idle then (q, .err .queueNotAccepting) else
  if f.hdr.frameOff + f.payload.length > MAX_PACKET_SIZE then ({ q with idle := true }, .err .outOfBounds) else
  match q.classify f with
  | .error (q', e) => (q', .err e)
  | .ok (q1, idx) =>
    match oneTime q1 with
    | .error m => ({ q1 with idle := true }, .err (.invalidValue m))
    | .ok q2 => q2.finish f idx

/-! ### Rust panic sites of `ingest_frame`

`Queue.ingest` above is total (Nat subtraction truncates, `writeAt` never fails, the receive mask is an
unbounded list).  The Rust code is not: it subtracts `usize`s, indexes `recv_mask`, slices the assembly
buffer and adds `u16`s (overflow checks are on in debug builds).  The `…Safe` functions below follow the
same control flow and evaluate, at every such site that is reached, the condition under which Rust does
**not** panic; `Queue.ingestP` is the model of `ingest_frame` proper: `none` = the Rust code panics.
`Theorems/C17.lean` (`ingest_no_panic`, `no_panic`) proves that no site fires in any reachable state. -/

/-- `oneTime`: `final_packet_size - last_frame_offset as usize` (fragmenting.rs, "last_frame_size") underflows
    iff `fin < lo`; `final_packet_size.div_ceil(frame_window_size)` panics iff `w = 0` -/
def oneTimeSafe (q : Queue α) : Bool :=
  match q.finalSize, q.window, q.lastOff, q.expected with
  | some fin, some w, some lo, none =>
    if !isMultipleOf lo w then true
    else
      decide (lo ≤ fin) &&
      (let lastLen := fin - lo
       if lastLen == 0 || lastLen > w then true else decide (0 < w))
  | _, _, _, _ => true

/-- `classify`: `frame_offset as usize / fragment.len()` divides by zero iff `len = 0` (reached only after
    the `frame_too_small` test) -/
def Queue.classifySafe (q : Queue α) (f : Frame α) : Bool :=
  let off := f.hdr.frameOff
  let len := f.payload.length
  if f.hdr.isLast then true
  else if q.window.isSome && q.window != some len then true
  else if !isMultipleOf off (len % 65536) then true
  else if len < MIN_PAYLOAD_SIZE then true
  else decide (0 < len)

/-- `finish`: `recv_mask[mask_index]` (index `< BITMASK_ENTRY_COUNT`), the slice
    `assembly_buffer[off..off+len]`, the `u16` addition `frame_offset + len as u16`, `expected_frames - 1`,
    the mask indices used by `has_frames_below` (stated conservatively: all of `0..e-1` fit the mask, whereas
    the Rust `all` stops at the first missing frame) and the slice `assembly_buffer[..packet_size]` -/
def Queue.finishSafe (q2 : Queue α) (f : Frame α) (idx : Nat) : Bool :=
  let off := f.hdr.frameOff
  let len := f.payload.length
  decide (idx / BITMASK_ENTRY_BITS < BITMASK_ENTRY_COUNT) &&
  (if q2.recv.contains idx then true else
    decide (off + len ≤ q2.buf.length) &&
    decide (off + len % 65536 < 65536) &&
    (match q2.expected with
     | some e =>
       if (idx :: q2.recv).length == e then
         decide (1 ≤ e) && decide (e - 1 ≤ BITMASK_ENTRY_BITS * BITMASK_ENTRY_COUNT) &&
         (if !hasFramesBelow (idx :: q2.recv) (e - 1) then true
          else decide (q2.finalSize.getD MAX_PACKET_SIZE ≤ (writeAt q2.buf off f.payload).length))
       else true
     | none => true))

/-- no panic site of `ingest_frame` fires on `(q, f)` -/
def Queue.ingestSafe (q : Queue α) (f : Frame α) : Bool :=
  if q.idle then true else
  if f.hdr.frameOff + f.payload.length > MAX_PACKET_SIZE then true else
  q.classifySafe f &&
  (match q.classify f with
   | .error _ => true
   | .ok (q1, idx) =>
     oneTimeSafe q1 &&
     (match oneTime q1 with
      | .error _ => true
      | .ok q2 => q2.finishSafe f idx))

/-- `DefragQueue::ingest_frame` including its panic sites: `none` = the Rust code panics -/
def Queue.ingestP (q : Queue α) (f : Frame α) : Option (Queue α × Out α) :=
  if q.ingestSafe f then some (q.ingest f) else none

/-- `DefragmenterInner` (metrics and the histogram timer are not modelled: they never influence results) -/
structure Defrag (α : Type) where
  queues : List (Queue α)
deriving Repr

def Defrag.new (z : α) (n : Nat) : Defrag α := { queues := List.replicate n (Queue.new z) }

/-- scan state of the `for (i, queue)` loop in `select_queue` -/
structure Scan where
  lowestOff : Nat := U64_MAX
  lowestIdx : Nat := 0
  idleIdx : Option Nat := none
deriving Repr

/-- one iteration of the loop body (after the `stream_offset ==` test) -/
def scanStep (q : Queue α) (i : Nat) (sc : Scan) : Scan :=
  let idleIdx := if q.idle then some i else sc.idleIdx
  if sc.lowestOff > q.streamOff then { lowestOff := q.streamOff, lowestIdx := i, idleIdx := idleIdx }
  else { sc with idleIdx := idleIdx }

/-- the loop of `select_queue`: `inl i` = existing queue found at `i`; `inr scan` = loop ran to the end -/
def scanQueues (s : Nat) : List (Queue α) → Nat → Scan → Sum Nat Scan
  | [], _, sc => .inr sc
  | q :: qs, i, sc =>
    -- (`queue.used &&` added by a `fix:` commit: a never-used queue carries the marker `u64::MAX`, not a packet)
    if q.used && q.streamOff == s then .inl i else scanQueues s qs (i + 1) (scanStep q i sc)

/-- `select_queue`: index of the queue to use and whether it must be `init`ed; `none` = too old.
    `panic` = the Rust code would index out of bounds (shown unreachable in `Theorems/C17.lean`). -/
inductive Sel | existing (i : Nat) | fresh (i : Nat) | tooOld | panic
deriving Repr, DecidableEq

def selectQueue (d : Defrag α) (f : Frame α) : Sel :=
  match scanQueues f.hdr.streamOff d.queues 0 {} with
  | .inl i => .existing i
  | .inr sc =>
    if d.queues.isEmpty then .tooOld   -- (added by a `fix:` commit) nothing to select or evict
    else if sc.idleIdx.isNone && f.hdr.streamOff < sc.lowestOff then .tooOld
    else
      let i := match sc.idleIdx with | some i => i | none => sc.lowestIdx
      if i < d.queues.length then .fresh i else .panic

/-- `recv_fallible` on a parsed frame.  `Option` result: `none` = the Rust code panics (an index computed by
    `select_queue` is out of range, or one of the panic sites of `ingest_frame` fires). -/
def Defrag.recvFrame (d : Defrag α) (f : Frame α) : Option (Defrag α × Out α) :=
  if f.hdr.isLast && f.hdr.frameOff == 0 then some (d, .packet f.hdr.streamOff f.payload) else
  match selectQueue d f with
  | .tooOld => some (d, .err .tooOld)
  | .panic => none
  | .existing i =>
    match d.queues[i]? with
    | some q =>
      match q.ingestP f with
      | some (q', o) => some ({ queues := d.queues.set i q' }, o)
      | none => none
    | none => none
  | .fresh i =>
    match d.queues[i]? with
    | some q =>
      match (q.init f).ingestP f with
      | some (q', o) => some ({ queues := d.queues.set i q' }, o)
      | none => none
    | none => none

/-! ## Byte-level parsing (`FragmentFrameRef::from_slice`) -/

def beNat (bs : List UInt8) : Nat := bs.foldl (fun acc b => acc * 256 + b.toNat) 0

def parseFrame (bytes : List UInt8) : Option (Frame UInt8) :=
  if bytes.length < HEADER_SIZE then none else
  some { hdr := { streamOff := beNat ((bytes.drop STREAM_OFFSET_RANGE_LO).take (STREAM_OFFSET_RANGE_HI - STREAM_OFFSET_RANGE_LO)),
                  frameOff := beNat ((bytes.drop FRAME_OFFSET_RANGE_LO).take (FRAME_OFFSET_RANGE_HI - FRAME_OFFSET_RANGE_LO)),
                  flags := beNat ((bytes.drop FLAGS_RANGE_LO).take (FLAGS_RANGE_HI - FLAGS_RANGE_LO)) },
         payload := bytes.drop HEADER_SIZE }

def Defrag.recvBytes (d : Defrag UInt8) (bytes : List UInt8) : Option (Defrag UInt8 × Out UInt8) :=
  match parseFrame bytes with
  | none => some (d, .err .invalidHeader)
  | some f => d.recvFrame f

/-! ## Fragmenter -/

/-- `Fragmenter::set_mtu` -/
def clampMtu (mtu : Nat) : Nat := max (min mtu MAX_MTU) MIN_MTU

/-- the `for frame_index in 0..frame_count` loop of `Fragmenter::send`; `p` = payload size per frame,
    `i` = current frame index, `rest` = `data[i*p..]`.  Fuel-free: recursion on the number of frames. -/
def fragLoop (s p : Nat) : Nat → Nat → List α → List (Frame α)
  | 0, _, _ => []
  | n + 1, i, rest =>
    { hdr := { streamOff := s, frameOff := (i * p) % 65536, flags := if n == 0 then FLAG_LAST else 0 },
      payload := rest.take p } :: fragLoop s p n (i + 1) (rest.drop p)

inductive SendErr | packetTooLarge | emptyPacket
deriving Repr, DecidableEq

/-- Rust panic sites of `Fragmenter::send` with `self.mtu = mtu`: `self.mtu - SIZE` (usize underflow),
    `div_ceil(payload_fragment_size)` (division by zero), and for every frame index `data.len() - offset`
    (underflow; it also makes the slice `data[offset..offset + this_fragment_size]` in range).
    `offset as u16` is a cast and cannot panic (the model truncates it the same way). -/
def sendSafe (mtu : Nat) (data : List α) : Bool :=
  if data.length > MAX_PACKET_SIZE then true
  else if data.isEmpty then true
  else
    decide (HEADER_SIZE ≤ mtu) &&
    (let p := mtu - HEADER_SIZE
     decide (0 < p) &&
     (List.range ((data.length + p - 1) / p)).all (fun i => decide (i * p ≤ data.length)))

/-- `Fragmenter::send` with `self.mtu = mtu` (already clamped) and `self.stream_offset = s`:
    frames handed to the sink, and the new stream offset -/
def send (mtu s : Nat) (data : List α) : Except SendErr (List (Frame α) × Nat) :=
  if data.length > MAX_PACKET_SIZE then .error .packetTooLarge
  else if data.isEmpty then .error .emptyPacket
  else
    let p := mtu - HEADER_SIZE
    let n := (data.length + p - 1) / p
    .ok (fragLoop s p n 0 data, (s + data.length) % 2^64)

/-- `Fragmenter::send` including its panic sites: `none` = the Rust code panics -/
def sendP (mtu s : Nat) (data : List α) : Option (Except SendErr (List (Frame α) × Nat)) :=
  if sendSafe mtu data then some (send mtu s data) else none

end ScionVerif.Frag
