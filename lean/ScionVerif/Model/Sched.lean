/-!
# Model of the path-manager concurrency protocol (C20)

Small-step transition system whose atomic actions are the **lock-protected regions and lock-free
stores/loads** of

* `crates/scion-stack/src/path/manager.rs`  (`path`, `cached_path`, `ensure_managed_paths` through
  `scc::HashIndex::entry_sync`, `stop_managing_paths`, drop of `MultiPathManagerInner`),
* `crates/scion-stack/src/path/manager/pathset.rs` (`PathSet::manage` – the worker task,
  `fetch_and_update`, `maintain`/`idle_check`, the exit sequence; `PathSetHandle::active_path`,
  `await_ongoing_update`, `current_error`; `PathSetTask::drop`).

One `Worker` per spawned `PathSet` task (it owns the `PathSetSharedState` of that path set), one
`Waiter` per call of `path()` / `cached_path()` (or of `PathSetHandle::active_path()` +
`current_error()` on a handle that somebody still holds), a manager-level map `(src,dst) ↦ worker`.
The scheduler is an arbitrary `List Action`: every interleaving of the atomic regions is a run.

Modelled primitives (assumptions about the runtime, see `checks/C20.json`):
* `std::sync::Mutex` regions are atomic; `ArcSwap` load/store are atomic single actions;
* tokio `Notify`: `notify_waiters()` increments a call counter (`gen`); a `Notified` future snapshots
  the counter when it is **created** (under the state lock) and is complete as soon as the counter
  differs – this is tokio's documented guarantee that a `Notified` receives `notify_waiters` wake-ups
  from the moment of its creation, polled or not;
* `scc::HashIndex::entry_sync` / `remove_sync` / `peek_with` are atomic per key;
* `Arc` strong count of `MultiPathManagerInner`: the manager value lives while the user holds it, while
  an API caller (a `path()` future borrows/clones the manager) is in flight, or while a worker holds an
  upgraded `Weak`; when the last one goes, `managed_paths` is dropped: every `PathSetTask` in it is
  dropped ⇒ its cancel token fires (`settle`).

Core Lean only (linked into `drv_sched`).
-/
namespace ScionVerif.Sched

abbrev Key := Nat
abbrev Path := Nat

/-- outcome of one `PathFetcher::fetch_paths` call (after filtering) -/
inductive FetchRes | ok | empty | err
  deriving DecidableEq, Repr, Inhabited

/-- why the worker task left its loop (`exit_reason`) -/
inductive Reason | idle | cancelled | mgrGone
  deriving DecidableEq, Repr, Inhabited

/-- `PathSetSyncState::current_error` (abstracted to its class) -/
inductive Err | noPaths | fetchFailed | exited (r : Reason)
  deriving DecidableEq, Repr, Inhabited

/-- a lock-free store into `active_path` (or no store) – the scoring decision is a parameter -/
inductive Store | keep | set (p : Path) | clear
  deriving DecidableEq, Repr, Inhabited

def Store.apply : Store → Option Path → Option Path
  | .keep, a => a
  | .set p, _ => some p
  | .clear, _ => none

/-- `PathSetSharedState` without the idle flag: `sync` (initialized / ongoing_start / completed_notify /
current_error) and `active_path` -/
structure Shared where
  initialized : Bool := false
  ongoing : Bool := false
  error : Option Err := none
  active : Option Path := none
  /-- number of `completed_notify.notify_waiters()` calls so far -/
  gen : Nat := 0
  deriving DecidableEq, Repr, Inhabited

/-- program counter of the worker task (`PathSet::manage`) – one value per atomic region -/
inductive WPc
  | start                 -- spawned; next: `self.manager.upgrade()` of the initial block
  | setOngoing            -- holds the upgraded manager; next: lock { ongoing_start = Some(now) }
  | fetching              -- awaiting `fetcher.fetch_paths`
  | cache (r : FetchRes)  -- lookup finished; next: `update_path_cache` (lock-free store, optional)
  | setErr (r : FetchRes) -- next: lock { current_error = None | Some(e) }
  | publish               -- next: `rerank` + `maybe_update_active_path` (lock-free store, optional)
  | clear                 -- next: lock { ongoing_start = None; initialized = true; notify_waiters() }
  | release               -- next: drop the upgraded manager reference (end of block / select arm)
  | loop                  -- `select! { biased; cancelled, sleep(next_tick), issue_rx.recv() }`
  | exitRemove (r : Reason) -- left the loop; next: `if let Some(mgr) = upgrade() { mgr.stop_managing_paths }`
  | exitNotify (r : Reason) -- next: lock { ongoing=None; initialized=true; notify_waiters(); current_error=Some(exited) }
  | exitStore             -- next: `active_path.store(None)`
  | done                  -- task finished
  deriving DecidableEq, Repr, Inhabited

structure Worker where
  key : Key := 0
  pc : WPc := .start
  sh : Shared := {}
  /-- `was_used_in_idle_period` -/
  used : Bool := false
  /-- the `CancellationToken` of its `PathSetTask` has fired -/
  cancelled : Bool := false
  /-- number of `fetch_paths` invocations made by this worker (observable through the fetcher) -/
  fetches : Nat := 0
  deriving DecidableEq, Repr, Inhabited

/-- value of every not-yet-allocated worker slot: a finished, cancelled, initialised task -/
def Worker.inert : Worker :=
  { pc := .done, sh := { initialized := true, error := some (.exited .mgrGone) }, cancelled := true }

/-- the worker holds an upgraded (strong) reference to the manager at these program points -/
def WPc.holds : WPc → Bool
  | .setOngoing | .fetching | .cache _ | .setErr _ | .publish | .clear | .release => true
  | _ => false

inductive Kind | path | cached | handle
  deriving DecidableEq, Repr, Inhabited

/-- what a caller got back -/
inductive Res | path (p : Path) | err (e : Err) | nothing
  deriving DecidableEq, Repr, Inhabited

/-- program counter of a caller of `MultiPathManager::path` / `cached_path` -/
inductive TPc
  | peek                -- `managed_paths.peek_with(key, |h| h.try_active_path())`
  | contains            -- `cached_path` only: `fast_ensure_managed_paths`: `managed_paths.contains`
  | ensure              -- `ensure_managed_paths`: `entry_sync` – occupied: clone handle | vacant: spawn + insert
  | loadActive          -- `handle.active_path()`: used := true; `active_path.load()`
  | lockCheck           -- `await_ongoing_update`: lock { if !ongoing && initialized {return}; notified_owned() }
  | waiting (g : Nat)   -- awaiting the `Notified` created when the counter was `g`
  | reload              -- `active_path.load()` after the wait
  | readErr             -- `current_error()`: lock { clone }
  | done
  deriving DecidableEq, Repr, Inhabited

structure Waiter where
  kind : Kind := .path
  key : Key := 0
  pc : TPc := .done
  /-- the `PathSetHandle` it works on (index of the worker owning that shared state) -/
  h : Option Nat := none
  res : Option Res := none
  deriving DecidableEq, Repr, Inhabited

/-- value of every not-yet-allocated waiter slot: a finished `cached_path` call -/
def Waiter.inert : Waiter := { kind := .cached, pc := .done, res := some .nothing }

/-- an API caller keeps the manager alive until it returns; a bare handle does not -/
def Waiter.holds (t : Waiter) : Bool := t.kind != .handle && t.pc != .done

inductive WAct
  | upgradeStart | setOngoing | fetchDone (r : FetchRes) | cacheStore (a : Store) | setErr
  | publishActive (a : Store) | clearAndNotify | releaseMgr
  | cancelSeen | mgrGone | tickRefetch | tickIdle | tickNothing (reset : Bool) | issueRx (a : Store)
  | exitRemove | exitNotify | storeNone
  deriving DecidableEq, Repr, Inhabited

/-- caller actions.  `exp` on the three loads of the active slot: the loaded path has outlived its expiry at the
caller's `now` – `path()` / `cached_path()` then treat it as absent (`path_expired_at`); whether that is the
case is a parameter of the action (time is not modelled). -/
inductive TAct
  | peek (exp : Bool) | contains | ensure | loadActive (exp : Bool) | lockCheck | awake | reload (exp : Bool)
  | readErr
  deriving DecidableEq, Repr, Inhabited

inductive MAct
  | spawnPath (k : Key) | spawnCached (k : Key) | spawnHandle (i : Nat) | stop (k : Key) | drop
  /-- the epoch-based collector of `scc::HashIndex` physically drops the removed entry of worker `i` (during a
  later insertion into the same bucket): `PathSetTask::drop` ⇒ its cancel token fires.  May happen at any
  time after the removal, or never before the manager is dropped. -/
  | reclaim (i : Nat)
  deriving DecidableEq, Repr, Inhabited

inductive Action
  | w (i : Nat) (a : WAct)
  | t (j : Nat) (a : TAct)
  | m (a : MAct)
  deriving DecidableEq, Repr, Inhabited

structure State where
  nW : Nat := 0
  nT : Nat := 0
  w : Nat → Worker := fun _ => Worker.inert
  t : Nat → Waiter := fun _ => Waiter.inert
  /-- `managed_paths` -/
  map : Key → Option Nat := fun _ => none
  /-- the user's own `MultiPathManager` value has been dropped -/
  userDropped : Bool := false
  /-- ghost: number of `insert_entry` per key / number of effective removals per key -/
  spawned : Key → Nat := fun _ => 0
  removed : Key → Nat := fun _ => 0

def State.init : State := {}

def State.setW (s : State) (i : Nat) (x : Worker) : State :=
  { s with w := fun k => if k = i then x else s.w k }

def State.setT (s : State) (j : Nat) (x : Waiter) : State :=
  { s with t := fun k => if k = j then x else s.t k }

/-- `MultiPathManagerInner` still exists (strong count > 0) -/
def State.alive (s : State) : Bool :=
  !s.userDropped
    || (List.range s.nW).any (fun i => (s.w i).pc.holds)
    || (List.range s.nT).any (fun j => (s.t j).holds)

/-- `managed_paths.remove_sync(key)`.  `scc::HashIndex` only marks the entry unreachable ("the memory will be
reclaimed later"): the `(PathSetHandle, PathSetTask)` value is **not dropped here**, so the cancel token of
the removed worker does not fire yet – see `MAct.reclaim`. -/
def State.removeKey (s : State) (k : Key) : State :=
  match s.map k with
  | some _ =>
    { s with
      map := fun k' => if k' = k then none else s.map k'
      removed := fun k' => if k' = k then s.removed k + 1 else s.removed k' }
  | none => s

/-- drop of `MultiPathManagerInner` once nobody holds it: `HashIndex::drop` drops the bucket array and with
it every entry still physically present (reachable or marked removed) ⇒ every cancel token fires -/
def State.settle (s : State) : State :=
  if s.alive then s else
  { s with
    w := fun i => { s.w i with cancelled := true }
    map := fun _ => none
    removed := fun k => if (s.map k).isSome then s.removed k + 1 else s.removed k }

/-- `vacant.insert_entry(managed.manage())`: a new worker task is spawned and entered under `k` -/
def State.insert (s : State) (k : Key) : State :=
  { s with
    nW := s.nW + 1
    w := fun i => if i = s.nW then { key := k } else s.w i
    map := fun k' => if k' = k then some s.nW else s.map k'
    spawned := fun k' => if k' = k then s.spawned k' + 1 else s.spawned k' }

def errOf : FetchRes → Option Err
  | .ok => none
  | .empty => some .noPaths
  | .err => some .fetchFailed

/-- worker-local part of a worker action: `al` = the manager is alive (an `upgrade()` would succeed) -/
def wNext (x : Worker) (al : Bool) : WAct → Option Worker
  | .upgradeStart => if x.pc = .start ∧ al then some { x with pc := .setOngoing } else none
  | .mgrGone =>
    if (x.pc = .start ∨ x.pc = .loop) ∧ !al then some { x with pc := .exitRemove .mgrGone } else none
  | .setOngoing =>
    if x.pc = .setOngoing then
      some { x with pc := .fetching, sh := { x.sh with ongoing := true }, fetches := x.fetches + 1 }
    else none
  | .fetchDone r => if x.pc = .fetching then some { x with pc := .cache r } else none
  | .cacheStore a =>
    match x.pc with
    | .cache r => some { x with pc := .setErr r, sh := { x.sh with active := a.apply x.sh.active } }
    | _ => none
  | .setErr =>
    match x.pc with
    | .setErr r => some { x with pc := .publish, sh := { x.sh with error := errOf r } }
    | _ => none
  | .publishActive a =>
    if x.pc = .publish then
      some { x with pc := .clear, sh := { x.sh with active := a.apply x.sh.active } }
    else none
  | .clearAndNotify =>
    if x.pc = .clear then
      some { x with pc := .release,
                    sh := { x.sh with ongoing := false, initialized := true, gen := x.sh.gen + 1 } }
    else none
  | .releaseMgr => if x.pc = .release then some { x with pc := .loop } else none
  | .cancelSeen =>
    if x.pc = .loop ∧ x.cancelled then some { x with pc := .exitRemove .cancelled } else none
  | .tickRefetch =>
    if x.pc = .loop ∧ al ∧ !x.cancelled then some { x with pc := .setOngoing } else none
  | .tickIdle =>
    if x.pc = .loop ∧ al ∧ !x.cancelled ∧ !x.used then some { x with pc := .exitRemove .idle } else none
  | .tickNothing reset =>
    if x.pc = .loop ∧ al ∧ !x.cancelled then some { x with used := x.used && !reset } else none
  | .issueRx a =>
    if x.pc = .loop ∧ al ∧ !x.cancelled then
      some { x with sh := { x.sh with active := a.apply x.sh.active } }
    else none
  | .exitRemove =>
    match x.pc with
    | .exitRemove r => some { x with pc := .exitNotify r }
    | _ => none
  | .exitNotify =>
    match x.pc with
    | .exitNotify r =>
      some { x with pc := .exitStore,
                    sh := { x.sh with ongoing := false, initialized := true, gen := x.sh.gen + 1,
                                      error := some (.exited r) } }
    | _ => none
  | .storeNone =>
    if x.pc = .exitStore then some { x with pc := .done, sh := { x.sh with active := none } } else none

def stepW (s : State) (i : Nat) (a : WAct) : Option State :=
  if i < s.nW then
    match wNext (s.w i) s.alive a with
    | some x =>
      let s1 := s.setW i x
      -- the only worker action with a global effect: `mgr.stop_managing_paths(src, dst)` on exit
      if a = .exitRemove ∧ s.alive then some (s1.removeKey x.key) else some s1
    | none => none
  else none

def Waiter.finish (t : Waiter) (r : Res) : Waiter := { t with pc := .done, res := some r }

def afterEnsure (t : Waiter) (i : Nat) : Waiter :=
  if t.kind = .cached then { t with h := some i, pc := .done, res := some .nothing }
  else { t with h := some i, pc := .loadActive }

def stepT (s : State) (j : Nat) (a : TAct) : Option State :=
  if j < s.nT then
    let t := s.t j
    match t.pc, a with
    | .peek, .peek exp =>
      let next : TPc := if t.kind = .cached then .contains else .ensure
      match s.map t.key with
      | some i =>
        let x := s.w i
        let s1 := s.setW i { x with used := true }
        match x.sh.active with
        | some p =>
          if exp then
            -- expired: `cached_path` returns `None` (without `fast_ensure`), `path` goes on to `ensure`
            if t.kind = .cached then some (s1.setT j (t.finish .nothing))
            else some (s1.setT j { t with pc := .ensure })
          else some (s1.setT j (t.finish (.path p)))
        | none => some (s1.setT j { t with pc := next })
      | none => some (s.setT j { t with pc := next })
    | .contains, .contains =>
      if (s.map t.key).isSome then some (s.setT j (t.finish .nothing))
      else some (s.setT j { t with pc := .ensure })
    | .ensure, .ensure =>
      match s.map t.key with
      | some i => some (s.setT j (afterEnsure t i))
      | none =>
        some ((s.insert t.key).setT j (afterEnsure t s.nW))
    | .loadActive, .loadActive exp =>
      match t.h with
      | some i =>
        let x := s.w i
        let s1 := s.setW i { x with used := true }
        match x.sh.active with
        | some p =>
          -- `active_path()` returns at once; `path()` (not the bare handle) drops an expired path and reads the error
          if exp && t.kind == .path then some (s1.setT j { t with pc := .readErr })
          else some (s1.setT j (t.finish (.path p)))
        | none => some (s1.setT j { t with pc := .lockCheck })
      | none => none
    | .lockCheck, .lockCheck =>
      match t.h with
      | some i =>
        let sh := (s.w i).sh
        if !sh.ongoing && sh.initialized then some (s.setT j { t with pc := .reload })
        else some (s.setT j { t with pc := .waiting sh.gen })
      | none => none
    | .waiting g, .awake =>
      match t.h with
      | some i => if (s.w i).sh.gen ≠ g then some (s.setT j { t with pc := .reload }) else none
      | none => none
    | .reload, .reload exp =>
      match t.h with
      | some i =>
        match (s.w i).sh.active with
        | some p =>
          if exp && t.kind == .path then some (s.setT j { t with pc := .readErr })
          else some (s.setT j (t.finish (.path p)))
        | none => some (s.setT j { t with pc := .readErr })
      | none => none
    | .readErr, .readErr =>
      match t.h with
      | some i => some (s.setT j (t.finish (.err (((s.w i).sh.error).getD .noPaths))))
      | none => none
    | _, _ => none
  else none

def stepM (s : State) : MAct → Option State
  | .spawnPath k =>
    if s.userDropped then none else
    some { (s.setT s.nT { kind := .path, key := k, pc := .peek }) with nT := s.nT + 1 }
  | .spawnCached k =>
    if s.userDropped then none else
    some { (s.setT s.nT { kind := .cached, key := k, pc := .peek }) with nT := s.nT + 1 }
  | .spawnHandle i =>
    if i < s.nW then
      some { (s.setT s.nT { kind := .handle, key := (s.w i).key, pc := .loadActive, h := some i })
             with nT := s.nT + 1 }
    else none
  | .stop k => if s.userDropped then none else some (s.removeKey k)
  | .drop => if s.userDropped then none else some { s with userDropped := true }
  | .reclaim i =>
    if i < s.nW ∧ s.map (s.w i).key ≠ some i then some (s.setW i { s.w i with cancelled := true }) else none

/-- the action's own effect, before a possible drop of the manager value -/
def stepRaw (s : State) : Action → Option State
  | .w i a => stepW s i a
  | .t j a => stepT s j a
  | .m a => stepM s a

/-- one enabled action (`none` = the action is not enabled in `s`) -/
def step? (s : State) (a : Action) : Option State := (stepRaw s a).map State.settle

/-- total step: a disabled action is a stutter -/
def step (s : State) (a : Action) : State := (step? s a).getD s

/-- run an arbitrary schedule -/
def run (s : State) (acts : List Action) : State := acts.foldl step s

/-- the deterministic next action of a waiter (its program is sequential) -/
def Waiter.nextAct (t : Waiter) : Option TAct :=
  match t.pc with
  | .peek => some (.peek false)
  | .contains => some .contains
  | .ensure => some .ensure
  | .loadActive => some (.loadActive false)
  | .lockCheck => some .lockCheck
  | .waiting _ => some .awake
  | .reload => some (.reload false)
  | .readErr => some .readErr
  | .done => none

/-! ## measures used by the liveness theorems -/

/-- the worker's handshake flags say "a lookup is pending" – exactly the condition under which
`await_ongoing_update` registers a `Notified` -/
def Worker.pending (x : Worker) : Bool := x.sh.ongoing || !x.sh.initialized

/-- number of own steps after which the worker has executed `notify_waiters()` under the lock -/
def WPc.notifyRank : WPc → Nat
  | .start => 7
  | .setOngoing => 6
  | .fetching => 5
  | .cache _ => 4
  | .setErr _ => 3
  | .publish => 2
  | .clear => 1
  | .exitRemove _ => 2
  | .exitNotify _ => 1
  | .release | .loop | .exitStore | .done => 0

/-- number of own steps to `done` once the manager value is gone -/
def WPc.exitRank : WPc → Nat
  | .done => 0
  | .exitStore => 1
  | .exitNotify _ => 2
  | .exitRemove _ => 3
  | .loop => 4
  | .start => 4
  | .release => 5
  | .clear => 6
  | .publish => 7
  | .setErr _ => 8
  | .cache _ => 9
  | .fetching => 10
  | .setOngoing => 11

/-- number of effective (enabled) steps of worker `i` in the schedule `acts` started in `s` -/
def effW (i : Nat) : State → List Action → Nat
  | _, [] => 0
  | s, a :: as =>
    (match a with
     | .w i' _ => if i' = i ∧ (step? s a).isSome then 1 else 0
     | _ => 0) + effW i (step s a) as

/-- number of effective steps of waiter `j` -/
def effT (j : Nat) : State → List Action → Nat
  | _, [] => 0
  | s, a :: as =>
    (match a with
     | .t j' _ => if j' = j ∧ (step? s a).isSome then 1 else 0
     | _ => 0) + effT j (step s a) as

end ScionVerif.Sched
