/-!
# Reference decoder of the SCION header, written from the header specification

Independent of `Generated/Layout.lean`, `Model/Layout.lean`, `Model/Bits.lean` and of the crate's layout
table: offsets and widths below are the literal numbers of the SCION header specification
(docs.scion.org/protocols/scion-header, draft-dekater-scion-dataplane §2), arithmetic is plain
division / remainder on bytes.  Used (a) as executable oracle on the bytes the *implementation* encodes and
(b) as the reference the harness oracle `C03:ref-disagrees` compares the *encoded model's own field values*
with (header, UDP and every SCMP message body).  No theorem relates it to the model decoder.

Common header (12 bytes)
```
 0                   1                   2                   3
 0 1 2 3 4 5 6 7 8 9 0 1 2 3 4 5 6 7 8 9 0 1 2 3 4 5 6 7 8 9 0 1
|Version| TrafficClass  |                FlowID                 |
|    NextHdr    |    HdrLen     |          PayloadLen           |
|    PathType   |DT |DL |ST |SL |              RSV              |
```
address header: DstISD(16) DstAS(48) SrcISD(16) SrcAS(48) DstHostAddr((DL+1)·4 B) SrcHostAddr((SL+1)·4 B);
standard path: PathMeta `C(2) CurrHF(6) RSV(6) Seg0Len(6) Seg1Len(6) Seg2Len(6)`, one 8-byte info field
`r r r r r r P C | RSV | SegID(16) | Timestamp(32)` per non-empty segment, 12-byte hop fields
`r r r r r r I E | ExpTime | ConsIngress(16) | ConsEgress(16) | MAC(48)`; one-hop path: info + 2 hop fields.
-/
namespace ScionVerif.Spec.RefDecode

abbrev B := List UInt8

def byte (b : B) (i : Nat) : Nat := (b.getD i 0).toNat
/-- big-endian integer of `n` bytes at offset `off` -/
def be (b : B) (off n : Nat) : Nat := ((b.drop off).take n).foldl (fun a x => a * 256 + x.toNat) 0
def sub (b : B) (off n : Nat) : B := (b.drop off).take n

structure RefInfo where
  flags : Nat
  segId : Nat
  timestamp : Nat
deriving Repr, DecidableEq

structure RefHop where
  flags : Nat
  expTime : Nat
  consIngress : Nat
  consEgress : Nat
  mac : B
deriving Repr, DecidableEq

inductive RefPath
  | empty
  | standard (currInf currHF : Nat) (segLens : List Nat) (infos : List RefInfo) (hops : List RefHop)
  | oneHop (info : RefInfo) (h1 h2 : RefHop)
  | other (pathType : Nat) (raw : B)
deriving Repr, DecidableEq

structure RefHeader where
  version : Nat
  trafficClass : Nat
  flowId : Nat
  nextHdr : Nat
  hdrLenBytes : Nat
  payloadLen : Nat
  pathType : Nat
  dt : Nat
  dl : Nat
  st : Nat
  sl : Nat
  rsv : Nat
  dstIsd : Nat
  dstAs : Nat
  srcIsd : Nat
  srcAs : Nat
  dstHost : B
  srcHost : B
  path : RefPath
deriving Repr, DecidableEq

def info (b : B) (off : Nat) : RefInfo := ⟨byte b off, be b (off + 2) 2, be b (off + 4) 4⟩
def hop (b : B) (off : Nat) : RefHop :=
  ⟨byte b off, byte b (off + 1), be b (off + 2) 2, be b (off + 4) 2, sub b (off + 6) 6⟩

/-- reads the header; `none` when the buffer is shorter than the header the fields announce or the
    announced header length is not the length of the parts -/
def header (b : B) : Option RefHeader :=
  if b.length < 12 then none else
  let dl := (byte b 9 / 16) % 4
  let sl := byte b 9 % 4
  let dlen := (dl + 1) * 4
  let slen := (sl + 1) * 4
  let pathOff := 12 + 16 + dlen + slen
  let hdrLen := byte b 5 * 4
  let pt := byte b 8
  if b.length < pathOff then none else
  let path? : Option (RefPath × Nat) :=
    if pt = 0 then some (.empty, 0)
    else if pt = 1 then
      if b.length < pathOff + 4 then none else
      let m := be b pathOff 4
      let s0 := (m / 4096) % 64
      let s1 := (m / 64) % 64
      let s2 := m % 64
      let nInf := (if s0 > 0 then 1 else 0) + (if s1 > 0 then 1 else 0) + (if s2 > 0 then 1 else 0)
      let nHop := s0 + s1 + s2
      let infoOff := pathOff + 4
      let hopOff := infoOff + 8 * nInf
      some (.standard (m / 2 ^ 30) ((m / 2 ^ 24) % 64) [s0, s1, s2]
        ((List.range nInf).map (fun i => info b (infoOff + 8 * i)))
        ((List.range nHop).map (fun j => hop b (hopOff + 12 * j))), 4 + 8 * nInf + 12 * nHop)
    else if pt = 2 then some (.oneHop (info b pathOff) (hop b (pathOff + 8)) (hop b (pathOff + 20)), 32)
    else if hdrLen < pathOff then none
    else some (.other pt (sub b pathOff (hdrLen - pathOff)), hdrLen - pathOff)
  match path? with
  | none => none
  | some (path, plen) =>
    if pathOff + plen ≠ hdrLen ∨ b.length < hdrLen then none else
    some {
      version := byte b 0 / 16
      trafficClass := (byte b 0 % 16) * 16 + byte b 1 / 16
      flowId := (byte b 1 % 16) * 65536 + byte b 2 * 256 + byte b 3
      nextHdr := byte b 4
      hdrLenBytes := hdrLen
      payloadLen := be b 6 2
      pathType := pt
      dt := byte b 9 / 64
      dl := dl
      st := (byte b 9 / 4) % 4
      sl := sl
      rsv := be b 10 2
      dstIsd := be b 12 2
      dstAs := be b 14 6
      srcIsd := be b 20 2
      srcAs := be b 22 6
      dstHost := sub b 28 dlen
      srcHost := sub b (28 + dlen) slen
      path := path }

/-- L4 part: the payload bytes present in the buffer, and the UDP / SCMP fixed fields -/
structure RefL4 where
  payload : B
  udpSrc : Nat
  udpDst : Nat
  udpLen : Nat
  udpChecksum : Nat
  scmpType : Nat
  scmpCode : Nat
  scmpChecksum : Nat
deriving Repr, DecidableEq

def l4 (b : B) (h : RefHeader) : RefL4 :=
  let p := sub b h.hdrLenBytes h.payloadLen
  ⟨p, be p 0 2, be p 2 2, be p 4 2, be p 6 2, byte p 0, byte p 1, be p 2 2⟩

/-- SCMP message as read from the SCMP specification (docs.scion.org/protocols/scmp, literal offsets inside the
L4 payload; nothing is taken from the crate's `scmp/layout.rs`):
```
 all:  Type(1) Code(1) Checksum(2)
 1   DestinationUnreachable    Unused(4)                                    | quoted packet from 8
 2   PacketTooBig              Reserved(2) MTU(2)                           | quoted packet from 8
 4   ParameterProblem          Reserved(2) Pointer(2)                       | quoted packet from 8
 5   ExternalInterfaceDown     ISD(2) AS(6) InterfaceID(8)                  | quoted packet from 20
 6   InternalConnectivityDown  ISD(2) AS(6) Ingress(8) Egress(8)            | quoted packet from 28
 128 / 129  Echo Request / Reply       Identifier(2) SequenceNumber(2)      | data from 8
 130 / 131  Traceroute Request / Reply Identifier(2) SequenceNumber(2) ISD(2) AS(6) InterfaceID(8)   (24 bytes)
```
`vals` = the informational fields in specification order (ISD-AS as one 64-bit number), `zero` = the bytes the
specification reserves / leaves unused (must be 0 in a message built by a sender), `data` = the variable part.
Unassigned types: 8-byte header (the crate's unknown-message form), data from 8. -/
structure RefScmp where
  typ : Nat
  code : Nat
  vals : List Nat
  zero : Nat
  data : B
deriving Repr, DecidableEq

def scmp (p : B) : RefScmp :=
  let t := byte p 0
  let c := byte p 1
  if t = 1 then ⟨t, c, [], be p 4 4, p.drop 8⟩
  else if t = 2 then ⟨t, c, [be p 6 2], be p 4 2, p.drop 8⟩
  else if t = 4 then ⟨t, c, [be p 6 2], be p 4 2, p.drop 8⟩
  else if t = 5 then ⟨t, c, [be p 4 8, be p 12 8], 0, p.drop 20⟩
  else if t = 6 then ⟨t, c, [be p 4 8, be p 12 8, be p 20 8], 0, p.drop 28⟩
  else if t = 128 ∨ t = 129 then ⟨t, c, [be p 4 2, be p 6 2], 0, p.drop 8⟩
  else if t = 130 then ⟨t, c, [be p 4 2, be p 6 2], be p 8 16, p.drop 24⟩
  else if t = 131 then ⟨t, c, [be p 4 2, be p 6 2, be p 8 8, be p 16 8], 0, p.drop 24⟩
  else ⟨t, c, [], be p 4 4, p.drop 8⟩

end ScionVerif.Spec.RefDecode
