import ScionVerif.Model.BeaconSeg
/-!
# Declarative SCION path-combination rules (specification, independent of `Model/Combinator`)

No graph, no hash maps, no search: an end-to-end path is a *combination* of one to three *pieces*;
a piece is a use of one given segment, described by positions in that segment:

* `cut`  – index of the AS entry where the used part of the segment starts (construction order);
  `0` = the whole segment, `> 0` = shortcut / on-path use;
* `down` – the piece is travelled in construction direction (`cut → leaf`), else against it (`leaf → cut`);
* `peer` – the piece ends (or starts) on the `peer`-th peering link of the AS entry at `cut`.

Rules: core segments are used whole and without peering (in either direction); a non-core segment is
used either as an *up* segment (against construction direction, from its leaf towards the core) or as a
*down* segment (in construction direction, towards its leaf); the uses follow `up? · core? · down?`
(`usesOk`: at least one piece, uses strictly ordered up < core < down — so a path never changes from a
down segment to anything, nor from anything to an up segment: no valley); consecutive pieces meet at one
AS, or across a peering link that is recorded by both segments (`Joint.link` read from either side); the
first piece starts at the source AS, the last ends at the destination AS.

`realises` gives the data-plane segments (flags, SegID, timestamp, hop fields in travel order) and the
interface list in travel order of a combination.
-/
namespace ScionVerif.Comb.Spec
open ScionVerif.Comb

/-- where a piece starts / ends: at an AS, or on a peering link crossed from `(fromIa, fromIf)` to `(toIa, toIf)` -/
inductive Joint
  | as (ia : Nat)
  | link (fromIa fromIf toIa toIf : Nat)
deriving DecidableEq, Repr

structure Piece where
  seg : InSeg
  cut : Nat
  down : Bool
  peer : Option Nat
deriving DecidableEq, Repr

namespace Piece

def entries (p : Piece) : List AsE := p.seg.seg.entries
def len (p : Piece) : Nat := p.entries.length

/-- the peer entry the piece uses -/
def peerE? (p : Piece) : Option PeerE :=
  match p.peer with
  | none => none
  | some i => (p.entries[p.cut]?).bind fun a => a.peers[i]?

structure Valid (p : Piece) : Prop where
  cut_lt : p.cut < p.len
  /-- core segments connect their two end ASes only -/
  core_whole : p.seg.core = true → p.cut = 0 ∧ p.peer = none
  /-- a non-peering use of a non-core segment covers at least one link -/
  noncore_link : p.seg.core = false → p.peer = none → p.cut + 1 < p.len
  peer_ok : ∀ i, p.peer = some i → ∃ q, p.peerE? = some q

/-- the leaf end (last AS entry) of the segment -/
def leaf? (p : Piece) : Option Joint := p.entries.getLast?.map fun a => Joint.as a.ia

/-- the end at the cut: the AS at `cut`, or the peering link (oriented in travel direction) -/
def near? (p : Piece) : Option Joint :=
  match p.entries[p.cut]? with
  | none => none
  | some a =>
    match p.peer with
    | none => some (.as a.ia)
    | some _ =>
      match p.peerE? with
      | none => none
      | some q =>
        if p.down then some (.link q.peer q.peerIf a.ia q.hop.ingress)
        else some (.link a.ia q.hop.ingress q.peer q.peerIf)

def from? (p : Piece) : Option Joint := if p.down then p.near? else p.leaf?
def to? (p : Piece) : Option Joint := if p.down then p.leaf? else p.near?

/-- hop field of the AS entry `a` at index `i`: the peering hop field at the cut of a peering piece -/
def hopAt (p : Piece) (i : Nat) (a : AsE) : HopF :=
  if i = p.cut then (match p.peerE? with | some q => q.hop | none => a.hop) else a.hop

/-- used AS entries with their indices, construction order -/
def used (p : Piece) : List (AsE × Nat) := p.entries.zipIdx.drop p.cut

/-- hop fields in construction order / in travel order -/
def consHops (p : Piece) : List HopF := p.used.map fun x => p.hopAt x.2 x.1
def hops (p : Piece) : List HopF := if p.down then p.consHops else p.consHops.reverse

/-- interfaces in construction order: ingress then egress of every used AS; zero ids name no
interface; the ingress interface of the AS at a non-peering cut (`cut > 0`) is not traversed -/
def consIfs (p : Piece) : List (Nat × Nat) :=
  p.used.flatMap fun x =>
    let h := p.hopAt x.2 x.1
    (if h.ingress ≠ 0 ∧ (x.2 ≠ p.cut ∨ p.cut = 0 ∨ p.peer.isSome) then [(x.1.ia, h.ingress)] else []) ++
    (if h.egress ≠ 0 then [(x.1.ia, h.egress)] else [])

/-- interfaces in travel order -/
def ifs (p : Piece) : List (Nat × Nat) := if p.down then p.consIfs else p.consIfs.reverse

/-- SegID accumulator β_n = segid ⊕ mac₀ ⊕ … ⊕ mac_{n-1} (first two MAC bytes) -/
def beta (p : Piece) (n : Nat) : Nat :=
  (p.entries.take n).foldl (fun b a => b ^^^ a.hop.macHi) p.seg.seg.segid

/-- initial SegID of the info field: β of the first hop field traversed in construction direction
(`cut` when going down, the leaf when going up); a peering hop field is verified against the β of the
*next* hop, so a piece whose first-verified hop field is the peering one starts one step further -/
def segId (p : Piece) : Nat :=
  let n := if p.down then p.cut else p.len - 1
  p.beta (if p.peer.isSome ∧ p.cut = n then n + 1 else n)

def pseg (p : Piece) : PSeg := ⟨p.down, p.peer.isSome, p.segId, p.seg.seg.ts, p.hops⟩

end Piece

/-! ### reading the traversed interfaces off the hop fields of a data-plane segment -/

/-- interface ids of one hop field in construction order (`0` names no interface) -/
def hopIds (dropIngress : Bool) (h : HopF) : List Nat :=
  (if h.ingress ≠ 0 ∧ dropIngress = false then [h.ingress] else []) ++ (if h.egress ≠ 0 then [h.egress] else [])

/-- hop fields given in construction order: the ConsIngress of the first hop field is where the
segment is entered / left (source, destination, segment change or shortcut) and is traversed only when
the segment is a peering segment (the first hop field is then the peering hop field) -/
def consIds (peering : Bool) : List HopF → List Nat
  | [] => []
  | h :: rest => hopIds (!peering) h ++ rest.flatMap (hopIds false)

/-- interface ids a data-plane segment traverses, in travel order -/
def segIds (s : PSeg) : List Nat :=
  if s.consDir then consIds s.peering s.hops else (consIds s.peering s.hops.reverse).reverse

/-- how a piece uses its segment -/
inductive Use
  | up | core | down
deriving DecidableEq, Repr

def Use.rank : Use → Nat
  | .up => 0
  | .core => 1
  | .down => 2

/-- a core segment is a core use in either direction; a non-core segment travelled in construction
direction (towards its leaf) is a down use, against it an up use -/
def Piece.use (p : Piece) : Use := if p.seg.core then .core else if p.down then .down else .up

/-- the segment sequencing rule `up? · core? · down?`: at least one piece, uses strictly increasing in
the order up < core < down (hence at most three pieces, at most one of each use) -/
def usesOk : List Use → Bool
  | [] => false
  | [_] => true
  | a :: b :: rest => decide (a.rank < b.rank) && usesOk (b :: rest)

/-- consecutive pieces meet -/
def chained : List Piece → Prop
  | a :: b :: rest => (∃ j, a.to? = some j ∧ b.from? = some j) ∧ chained (b :: rest)
  | _ => True

/-- a combination of the given segments from `src` to `dst` -/
structure Valid (segs : List InSeg) (src dst : Nat) (c : List Piece) : Prop where
  pieces : ∀ p ∈ c, p.Valid ∧ p.seg ∈ segs
  kinds : usesOk (c.map Piece.use) = true
  start : c.head?.bind Piece.from? = some (.as src)
  finish : c.getLast?.bind Piece.to? = some (.as dst)
  chain : chained c

/-- data-plane segments and interface list (travel order) of a combination -/
def realises (c : List Piece) : List PSeg × List (Nat × Nat) :=
  (c.map Piece.pseg, c.flatMap Piece.ifs)

end ScionVerif.Comb.Spec
