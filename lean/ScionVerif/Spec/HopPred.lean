/-!
# When does a hop predicate match a hop?  (spec side of C16)

No imports, no reference to the model: own data types, propositions only.  Written from the documentation of
`policy/types.rs` (`HopPredicate`: "1" just the ISD, "1-2" ISD and AS, "1-2#3" ISD, AS and *either* ingress or
egress interface, "1-2#3,4" ISD, AS and *exact* ingress and egress interface; `InterfacePredicate`: "0 is deemed
as a wildcard, all other values have to match exactly") and of `Isd::matches` / `Asn::matches` ("matches another
… taking wildcards into account": the wildcard 0 on *either* side matches).

* identifiers (ISD, AS number): equal, or one of the two is the wildcard `0` – symmetric: a hop in ISD 0 / AS 0
  satisfies every ISD / AS predicate;
* a missing AS part constrains nothing;
* interfaces: only the *predicate's* `0` is a wildcard.  A hop's interface `0` is an ordinary value (the first
  hop of a path has ingress `0`, the last hop egress `0`): `#3,4` does not match the first hop, `#0,4` does,
  `#4` matches the first hop iff its egress is `4`;
* `either i`: the ingress *or* the egress satisfies `i`;  `both a b`: the ingress satisfies `a` *and* the egress
  satisfies `b`;  `any`: no constraint.
-/
namespace ScionVerif.Spec

/-- the interface part of a hop predicate -/
inductive HopInterfaces where
  | any
  | either (i : Nat)
  | both (ingress egress : Nat)

/-- a hop predicate: ISD, optional AS number, interface part -/
structure HopPredicate where
  isd : Nat
  asn : Option Nat
  interfaces : HopInterfaces

/-- a hop of a path as seen by a policy -/
structure PolicyHop where
  isd : Nat
  asn : Nat
  ingress : Nat
  egress : Nat

/-- identifiers: equal, or the wildcard `0` on either side -/
def idMatches (wanted actual : Nat) : Prop := wanted = 0 ∨ actual = 0 ∨ wanted = actual

/-- interfaces: equal, or the predicate is the wildcard `0` -/
def ifMatches (wanted actual : Nat) : Prop := wanted = 0 ∨ wanted = actual

/-- **the hop `h` satisfies the hop predicate `p`** -/
def predMatches (p : HopPredicate) (h : PolicyHop) : Prop :=
  idMatches p.isd h.isd ∧
  (∀ a, p.asn = some a → idMatches a h.asn) ∧
  (∀ i, p.interfaces = .either i → ifMatches i h.ingress ∨ ifMatches i h.egress) ∧
  (∀ a b, p.interfaces = .both a b → ifMatches a h.ingress ∧ ifMatches b h.egress)

end ScionVerif.Spec
