/-!
# Declarative semantics of regular expressions over an arbitrary alphabet (spec side of C16)

No imports, no reference to the model of the matcher: `Regex π` is the syntax (atoms are predicates
`p : π` on letters), `Lang sat r w` says that the word `w : List σ` belongs to the regular language
denoted by `r`, where `sat p x` means "letter `x` satisfies atom `p`".  The denotation is the textbook one:

* `eps`        the empty word only
* `atom p`     exactly the one-letter words `[x]` with `sat p x`
* `alt a b`    union
* `cat a b`    concatenation  `{u ++ v | u ∈ L a, v ∈ L b}`
* `opt a`      `{[]} ∪ L a`                     (documented operator `?`: zero or one time)
* `plus a`     `⋃ n ≥ 1, (L a)ⁿ`                (documented operator `+`: one or more times)
* `star a`     `⋃ n ≥ 0, (L a)ⁿ`                (documented operator `*`: zero or more times)

`(L a)ⁿ` is spelled as "the flattening of a list of `n` words of `L a`".
-/
namespace ScionVerif.Spec

inductive Regex (π : Type) where
  | eps
  | atom (p : π)
  | alt (a b : Regex π)
  | cat (a b : Regex π)
  | opt (a : Regex π)
  | plus (a : Regex π)
  | star (a : Regex π)
deriving Repr

variable {π σ : Type}

/-- membership of a word in the language denoted by a regular expression -/
def Lang (sat : π → σ → Prop) : Regex π → List σ → Prop
  | .eps, w => w = []
  | .atom p, w => ∃ x, w = [x] ∧ sat p x
  | .alt a b, w => Lang sat a w ∨ Lang sat b w
  | .cat a b, w => ∃ u v, w = u ++ v ∧ Lang sat a u ∧ Lang sat b v
  | .opt a, w => w = [] ∨ Lang sat a w
  | .plus a, w => ∃ ws : List (List σ), ws ≠ [] ∧ (∀ x ∈ ws, Lang sat a x) ∧ w = ws.flatten
  | .star a, w => ∃ ws : List (List σ), (∀ x ∈ ws, Lang sat a x) ∧ w = ws.flatten

/-- concatenation of a sequence of expressions (a hop pattern is a juxtaposition of expressions) -/
def Regex.seq : List (Regex π) → Regex π
  | [] => .eps
  | r :: rs => .cat r (Regex.seq rs)

/-- **First-match semantics of an access control list**, stated on abstract rules `(allow?, predicate)`:
the verdict for one item is the action of the first rule whose predicate holds, the default if none does. -/
def firstMatch {ρ ι : Type} (holds : ρ → ι → Bool) (rules : List (Bool × ρ)) (default : Bool) (x : ι) : Bool :=
  match rules.find? (fun r => holds r.2 x) with
  | some r => r.1
  | none => default

/-- an ACL allows a sequence iff every item's first-match verdict is "allow" -/
def aclAllows {ρ ι : Type} (holds : ρ → ι → Bool) (rules : List (Bool × ρ)) (default : Bool) (xs : List ι) : Prop :=
  ∀ x ∈ xs, firstMatch holds rules default x = true

end ScionVerif.Spec
