/-!
# Independent decision procedure for the SNAP ingress policy (C08)

Written from the SCION header format (draft-dekater-scion-dataplane, "Common Header" / "Address Header" /
"Path Type: SCION") with *literal* byte offsets.  It shares no definition with `Model/SnapFilter.lean`, with the
generated tables or with the Rust code; `Theorems/C08.lean` proves that the model computes exactly this function on
every byte string, and the harness evaluates it on the implementation's inputs.

```
 byte 0      Version(4) | TrafficClass(4 high bits)
 byte 4      NextHdr        byte 5  HdrLen (units of 4 bytes)     bytes 6-7 PayloadLen
 byte 8      PathType       byte 9  DT(2) DL(2) ST(2) SL(2)       bytes 10-11 RSV
 bytes 12-19 DstISD-AS      bytes 20-27 SrcISD-AS
 bytes 28..  DstHostAddr (4*(DL+1) bytes)  then SrcHostAddr (4*(SL+1) bytes)  then the path
 host address type/length nibble: IPv4 = T 00 L 00 (0x0), IPv6 = T 00 L 11 (0x3), service = T 01 L 00 (0x4)
 path type: 0 empty, 1 SCION (PathMeta: C(2) CurrHF(6) RSV(6) Seg0Len(6) Seg1Len(6) Seg2Len(6); 8-byte info
            field per non-empty segment, 12-byte hop fields), 2 one-hop (8 + 2*12)
```
-/
namespace ScionVerif.Spec.SnapFilter

abbrev Bytes := List UInt8

/-- byte `i` of the datagram -/
def B (d : Bytes) (i : Nat) : Nat := (d.getD i 0).toNat

/-- host address length announced by a type/length nibble: `4 * (L + 1)` -/
def hostLen (nibble : Nat) : Nat := 4 * (nibble % 4 + 1)

/-- offset of the source host address -/
def srcOff (d : Bytes) : Nat := 28 + hostLen (B d 9 / 16)
/-- offset of the path (end of the address header) -/
def pathOff (d : Bytes) : Nat := srcOff d + hostLen (B d 9 % 16)

def one (n : Nat) : Nat := if n = 0 then 0 else 1

/-- length of the path implied by the path type (`none`: not determinable / inconsistent) -/
def pathLen (d : Bytes) : Option Nat :=
  let p := pathOff d
  match B d 8 with
  | 0 => some 0
  | 1 =>
    if d.length < p + 4 then none else
    let s0 := B d (p + 1) % 4 * 16 + B d (p + 2) / 16
    let s1 := B d (p + 2) % 16 * 4 + B d (p + 3) / 64
    let s2 := B d (p + 3) % 64
    some (4 + 8 * (one s0 + one s1 + one s2) + 12 * (s0 + s1 + s2))
  | 2 => some 32
  | _ => if 4 * B d 5 < p then none else some (4 * B d 5 - p)

/-- the datagram carries a complete, version-0 SCION header whose parts add up to `HdrLen` -/
def wellFormed (d : Bytes) : Bool :=
  12 ≤ d.length && B d 0 / 16 == 0 && pathOff d ≤ d.length &&
  match pathLen d with
  | none => false
  | some l => pathOff d + l ≤ d.length && pathOff d + l == 4 * B d 5

/-- peer address of the tunnel -/
inductive Peer
  | v4 (octets : Bytes)
  | v6 (octets : Bytes)

/-- the source host address is an IP address (IPv4: nibble 0x0, IPv6: nibble 0x3) equal to the peer's -/
def sourceMatches (d : Bytes) (peer : Peer) : Bool :=
  match B d 9 % 16, peer with
  | 0, .v4 o => (d.drop (srcOff d)).take 4 == o
  | 3, .v6 o => (d.drop (srcOff d)).take 16 == o
  | _, _ => false

inductive Class
  | accept | malformed | badSource | badPathType
deriving Repr, DecidableEq

/-- the policy: parse, then source, then path type -/
def classify (d : Bytes) (peer : Peer) : Class :=
  if !wellFormed d then .malformed
  else if !sourceMatches d peer then .badSource
  else if B d 8 == 0 || B d 8 == 1 then .accept
  else .badPathType

/-- the packet proper: header plus announced payload, cut at the datagram end -/
def packetLen (d : Bytes) : Nat := min (4 * B d 5 + (B d 6 * 256 + B d 7)) d.length

end ScionVerif.Spec.SnapFilter
