import ScionVerif.Model.SimRouter
/-!
# Reference border router, written from the SCION data-plane rules

Independent of `Model/SimRouter.lean`'s *logic* (it only shares the data types `Path`, `Topo`, `Verdict`):
one pass per AS in the order of the reference implementation of the SCION data plane
(draft-dekater-scion-dataplane §4.2 / scionproto `router/dataplane.go process()`):

  parse (pointers consistent, segment has ≥ 2 hop fields, a non-final segment end is followed by a hop and an info field;
  a malformed path is dropped without reply) → hop expiry → ingress-interface check → non-cons-dir SegID update → MAC → ingress router alert
  → local delivery at the last hop (destination must be this AS)
  → crossover (not on a peering hop): segment-change rule, then expiry + MAC of the second hop field
     (NO ingress-interface check on the second hop field, NO SegID update)
  → egress interface known → egress router alert → egress link up → cons-dir SegID update → next hop field

Peering (info field `P` flag): the two hop fields adjacent to the boundary of a peering segment pair
are *peering hops*: no crossover there, and the SegID is neither updated on ingress (non-cons-dir) nor
on egress (cons-dir) of a peering hop.

Its segment-change table is a literal copy of the rules (core→child, child→core, child→child; with
peering: child→peer, peer→child) and deliberately does NOT use `Generated.Router.segChangeValid`.
Where the rules are silent (order of checks, error class of a malformed path) the reference follows the
order listed above; a malformed path is dropped without reply.
-/
namespace ScionVerif.Router.Ref
open ScionVerif.Router
open ScionVerif.Generated.Router (LinkType LinkRole)

/-- literal segment-change rules -/
def xoverAllowed : LinkType → LinkType → Bool
  | .toCore, .toChild => true      -- core segment → down segment
  | .toChild, .toCore => true      -- up segment → core segment
  | .toChild, .toChild => true     -- up segment → down segment (shortcut / common parent)
  | .toChild, .toPeer => true      -- up segment → peering link
  | .toPeer, .toChild => true      -- peering link → down segment
  | _, _ => false

/-- index of the segment that hop `h` belongs to, and the index of the first hop of that segment -/
def segOf (p : Path) (h : Nat) : Option (Nat × Nat × Nat) :=   -- (segment, first hop, length)
  if h < p.seg0 then some (0, 0, p.seg0)
  else if h < p.seg0 + p.seg1 then some (1, p.seg0, p.seg1)
  else if h < p.seg0 + p.seg1 + p.seg2 then some (2, p.seg0 + p.seg1, p.seg2)
  else none

/-- hop field not expired and its segment not from the future -/
def hopTimely (h : Hop) (i : Info) (now : Nat) : Option VErr :=
  if i.ts > now then some .invalidPath
  else if min (i.ts + (h.exp + 1) * 675 / 2) 4294967295 < now then some .pathExpired
  else none

/-- peering hop: info has the P flag and the hop is adjacent to the boundary between segment 0 and 1 -/
def isPeeringHop (p : Path) (i : Info) : Bool :=
  i.peer && p.seg0 > 0 && p.seg1 > 0 && (p.currHf + 1 == p.seg0 || p.currHf == p.seg0)

/-- egress half: the current hop field of `q` is the one that names the egress interface `eg` -/
def egress (macf : MacF) (q : Path) (eg now : Nat) (key : List UInt8) (lookup : Nat → Option IfState)
    (ignoreMacs : Bool) : Path × Action :=
  match q.hops[q.currHf]?, q.infos[q.currInf]?, segOf q q.currHf with
  | some hop, some info, some (seg, first, len) =>
    match lookup eg with
    | none => (q, .scmpError (if info.consDir then .ppConsEgress else .ppConsIngress))
    | some st =>
      if !st.up then (q, .scmpError (.ifDown eg)) else
      if seg != q.currInf then (q, .drop) else
      if q.currHf + 1 == first + len then (q, .drop) else      -- would leave the segment on egress
      if q.currHf + 1 > 63 then (q, .drop) else                -- the 6-bit CurrHF pointer cannot address the next hop field
      match hopTimely hop info now with
      | some e => (q, .scmpError e)
      | none =>
      if !ignoreMacs && hop.mac != macf key info.segId info.ts hop.exp hop.consIngress hop.consEgress then
        (q, .scmpError .invalidMac)
      else
      let peering := isPeeringHop q info
      let info1 := if info.consDir && !peering
                   then { info with segId := Nat.xor info.segId (hop.mac / 4294967296) } else info
      let alertOut := if info.consDir then hop.egAlert else hop.inAlert
      let hop1 := if alertOut
                  then (if info.consDir then { hop with egAlert := false } else { hop with inAlert := false }) else hop
      let q1 := { q with currHf := q.currHf + 1,
                         infos := q.infos.set q.currInf info1, hops := q.hops.set q.currHf hop1 }
      if alertOut && eg != 0 then (q1, .egressScmp eg) else (q1, .forwardNext eg)
  | _, _, _ => (q, .drop)

/-- one AS: returns the packet as forwarded and the action -/
def process (macf : MacF) (localAs dstAs : Nat) (p : Path) (ingressIf now : Nat) (key : List UInt8)
    (lookup : Nat → Option IfState) (ignoreMacs : Bool) : Path × Action :=
  match segOf p p.currHf, p.hops[p.currHf]?, p.infos[p.currInf]? with
  | some (seg, first, len), some hop, some info =>
    if seg != p.currInf then (p, .drop)                       -- pointers inconsistent
    else if len == 1 then (p, .drop)                           -- a segment needs two hop fields
    else if p.currHf + 1 == first + len && p.currHf + 1 != p.seg0 + p.seg1 + p.seg2 &&
            ((p.hops[p.currHf + 1]?).isNone || (p.infos[seg + 1]?).isNone) then
      (p, .drop)                                               -- segment end without a following segment
    else if p.currHf + 1 == first + len && p.currHf + 1 != p.seg0 + p.seg1 + p.seg2 && p.currHf + 1 > 63 then
      (p, .drop)                                               -- the 6-bit CurrHF pointer cannot address the next segment
    else
    let peering := isPeeringHop p info
    let pktIngress := if info.consDir then hop.consIngress else hop.consEgress
    -- the packet must have arrived over the interface the hop field names
    if ingressIf != 0 && pktIngress != ingressIf then
      (p, .scmpError (if info.consDir then .ppConsIngress else .ppConsEgress))
    else
    -- SegID update on ingress against construction direction
    let info1 := if !info.consDir && ingressIf != 0 && !peering
                 then { info with segId := Nat.xor info.segId (hop.mac / 4294967296) } else info
    let alertIn := if info.consDir then hop.inAlert else hop.egAlert
    let hop1 := if ingressIf != 0 && alertIn
                then (if info.consDir then { hop with inAlert := false } else { hop with egAlert := false }) else hop
    let p1 := { p with infos := p.infos.set p.currInf info1, hops := p.hops.set p.currHf hop1 }
    match hopTimely hop info1 now with
    | some e => (p1, .scmpError e)
    | none =>
    if !ignoreMacs && hop.mac != macf key info1.segId info1.ts hop.exp hop.consIngress hop.consEgress then
      (p1, .scmpError .invalidMac)
    else
    let isLast := p.currHf + 1 == p.seg0 + p.seg1 + p.seg2
    let segEnd := p.currHf + 1 == first + len
    let handleAlert := alertIn && ingressIf != 0 && pktIngress == ingressIf
    if isLast then
      if handleAlert then (p1, .ingressScmp ingressIf)
      else if localAs != dstAs then (p1, .scmpError .nonLocalDelivery) else (p1, .forwardLocal)
    else if segEnd && !peering then
      -- crossover into the next segment
      match p.hops[p.currHf + 1]?, p.infos[seg + 1]? with
      | some nh, some ni =>
        let p2 := { p1 with currHf := p.currHf + 1, currInf := seg + 1 }
        let alertOutCur := if info.consDir then hop1.egAlert else hop1.inAlert
        let alertInNext := if ni.consDir then nh.inAlert else nh.egAlert
        if alertOutCur || alertInNext then (p2, .scmpError .erroneousHeader) else
        let nextEgress := if ni.consDir then nh.consEgress else nh.consIngress
        match lookup pktIngress, lookup nextEgress with
        | none, _ => (p2, .scmpError (if info.consDir then .ppConsIngress else .ppConsEgress))
        | _, none => (p2, .scmpError (if ni.consDir then .ppConsEgress else .ppConsIngress))
        | some a, some b =>
          if !xoverAllowed a.linkType b.linkType then (p2, .scmpError .invalidSegChange) else
          match hopTimely nh ni now with
          | some e => (p2, .scmpError e)
          | none =>
          if !ignoreMacs && nh.mac != macf key ni.segId ni.ts nh.exp nh.consIngress nh.consEgress then
            (p2, .scmpError .invalidMac)
          else if handleAlert then (p2, .ingressScmp ingressIf)
          else egress macf p2 nextEgress now key lookup ignoreMacs
      | _, _ => (p, .drop)
    else if segEnd then
      -- peering hop at the end of its segment: move to the peer's hop field without crossover checks
      match p.hops[p.currHf + 1]?, p.infos[seg + 1]? with
      | some nh, some ni =>
        let p2 := { p1 with currHf := p.currHf + 1, currInf := seg + 1 }
        if handleAlert then (p2, .ingressScmp ingressIf)
        else egress macf p2 (if ni.consDir then nh.consEgress else nh.consIngress) now key lookup ignoreMacs
      | _, _ => (p, .drop)
    else
      if handleAlert then (p1, .ingressScmp ingressIf)
      else egress macf p1 (if info1.consDir then hop1.consEgress else hop1.consIngress) now key lookup ignoreMacs
  | _, _, _ => (p, .drop)

/-- inter-AS walk with the reference router -/
def walk (macf : MacF) (t : Topo) (dstAs now : Nat) (ignoreMacs : Bool) :
    Nat → Nat → Nat → Path → Nat → Option (Verdict × Path × Nat)
  | 0, _, _, _, _ => none
  | fuel + 1, curAs, curIf, p, steps =>
    match t.asInfo curAs with
    | none => some (.simError curAs, p, steps)
    | some a =>
      match process macf curAs dstAs p curIf now a.key (t.lookup curAs) ignoreMacs with
      | (p1, .forwardNext eg) =>
        match t.link curAs eg with
        | none => some (.simError curAs, p1, steps + 1)
        | some l =>
          match t.asInfo l.peerAs with
          | none => some (.simError curAs, p1, steps + 1)
          | some b =>
            if b.external then some (.external curAs eg b.ia l.peerIf, p1, steps + 1)
            else walk macf t dstAs now ignoreMacs fuel l.peerAs l.peerIf p1 (steps + 1)
      | (p1, .forwardLocal) => some (.delivered curAs, p1, steps + 1)
      | (p1, .ingressScmp i) => some (.scmpRequest curAs i false, p1, steps + 1)
      | (p1, .egressScmp i) => some (.scmpRequest curAs i true, p1, steps + 1)
      | (p1, .scmpError e) => some (.scmp curAs e, p1, steps + 1)
      | (p1, .drop) => some (.dropped curAs, p1, steps + 1)

end ScionVerif.Router.Ref
