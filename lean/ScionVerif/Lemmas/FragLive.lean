import ScionVerif.Lemmas.Frag
/-!
Liveness of one reassembly slot (C17): the state of a queue that is reassembling an honest multi-frame packet
is characterised by the set of frames seen so far (`Live`); one honest frame is either a rejected duplicate, an
accepted frame, or the frame that completes the packet (`Live.step`); hence the packet is emitted exactly
when the last missing frame arrives (`Live.run_emits`).
-/
namespace ScionVerif.Frag
open ScionVerif.Generated.Frag
variable {α : Type}

/-- shape of an honest multi-frame packet: `n ≥ 2` frames, regular payload size `p`, last payload size `l` -/
structure Shape where
  S : Nat      -- stream offset
  p : Nat
  n : Nat
  l : Nat
  hn : 2 ≤ n
  hp : MIN_PAYLOAD_SIZE ≤ p
  hl1 : 1 ≤ l
  hl2 : l ≤ p
  hfit : (n - 1) * p + l ≤ MAX_PACKET_SIZE

namespace Shape
variable (sh : Shape)
def total : Nat := (sh.n - 1) * sh.p + sh.l
/-- frame number `j` of the packet (`j = n-1` is the LAST frame) -/
def IsFrame (f : Frame α) (j : Nat) : Prop :=
  f.hdr.streamOff = sh.S ∧ j < sh.n ∧ f.hdr.frameOff = j * sh.p ∧
  (if j = sh.n - 1 then f.hdr.isLast = true ∧ f.payload.length = sh.l
   else f.hdr.isLast = false ∧ f.payload.length = sh.p)
/-- bit of the receive mask used for frame `j` -/
def bit (j : Nat) : Nat := if j = sh.n - 1 then LASTBIT else j
def hasMid (seen : List Nat) : Bool := seen.any (fun j => decide (j < sh.n - 1))
def hasLast (seen : List Nat) : Bool := seen.contains (sh.n - 1)

theorem p_pos : 0 < sh.p := by have := sh.hp; have : 0 < MIN_PAYLOAD_SIZE := by decide
                               omega
theorem n_le : sh.n - 1 < LASTBIT + 1 := by
  have h1 := sh.hfit; have h2 := sh.hp
  have hm : MIN_PAYLOAD_SIZE = 256 := by decide
  have hx : MAX_PACKET_SIZE = 65535 := by decide
  have hb : LASTBIT = 255 := by decide
  rw [hb]
  have : (sh.n - 1) * 256 ≤ (sh.n - 1) * sh.p := Nat.mul_le_mul_left _ (by omega)
  omega
end Shape

/-- the queue is reassembling the packet and has so far accepted exactly the frames in `seen` -/
structure Live (sh : Shape) (q : Queue α) (seen : List Nat) : Prop where
  notIdle : q.idle = false
  nodup : seen.Nodup
  lt : ∀ j ∈ seen, j < sh.n
  recv : q.recv = seen.map sh.bit
  window : q.window = if sh.hasMid seen then some sh.p else none
  final : q.finalSize = if sh.hasLast seen then some sh.total else none
  lastOff : sh.hasLast seen = true → q.lastOff = some ((sh.n - 1) * sh.p)
  expected : q.expected = if sh.hasMid seen && sh.hasLast seen then some sh.n else none
  buflen : q.buf.length = MAX_PACKET_SIZE
  stream : q.streamOff = sh.S

theorem Shape.bit_inj (sh : Shape) {i j : Nat} (hi : i < sh.n) (hj : j < sh.n) (h : sh.bit i = sh.bit j) : i = j := by
  have hn := sh.n_le
  unfold Shape.bit at h
  split at h <;> split at h <;> omega

theorem Live.contains_bit {sh : Shape} {q : Queue α} {seen : List Nat} (h : Live sh q seen) (j : Nat) (hj : j < sh.n) :
    q.recv.contains (sh.bit j) = seen.contains j := by
  rw [h.recv]
  rw [Bool.eq_iff_iff]
  simp only [List.contains_eq_mem, List.mem_map, decide_eq_true_eq]
  constructor
  · rintro ⟨i, hi, hb⟩
    rw [← sh.bit_inj (h.lt i hi) hj hb]; exact hi
  · intro hm; exact ⟨j, hm, rfl⟩


theorem Shape.total_le (sh : Shape) : sh.total ≤ MAX_PACKET_SIZE := sh.hfit

theorem Shape.expected_n (sh : Shape) : (sh.total + sh.p - 1) / sh.p = sh.n := by
  have hp := sh.p_pos
  have h := expected_eq (fin := sh.total) (w := sh.p) (lo := (sh.n - 1) * sh.p) hp
    (Nat.mul_mod_left _ _) (by unfold Shape.total; have := sh.hl1; omega) (by unfold Shape.total; have := sh.hl2; omega)
  rw [h, Nat.mul_div_cancel _ hp]; have := sh.hn; omega

/-- classification of an honest frame -/
theorem Live.classify {sh : Shape} {q : Queue α} {seen : List Nat} (h : Live sh q seen) (f : Frame α) (j : Nat)
    (hf : sh.IsFrame f j) :
    (j = sh.n - 1 ∧ sh.hasLast seen = true ∧ q.classify f = .error (q, .duplicate)) ∨
    (j = sh.n - 1 ∧ sh.hasLast seen = false ∧
      q.classify f = .ok ({ q with finalSize := some sh.total, lastOff := some ((sh.n - 1) * sh.p) }, LASTBIT)) ∨
    (j < sh.n - 1 ∧ q.classify f = .ok ({ q with window := some sh.p }, j)) := by
  obtain ⟨hS, hj, hoff, hkind⟩ := hf
  have hpp := sh.p_pos
  by_cases hjl : j = sh.n - 1
  · simp only [hjl, ↓reduceIte] at hkind
    obtain ⟨hlast, hlen⟩ := hkind
    cases hL : sh.hasLast seen
    · right; left
      refine ⟨hjl, rfl, ?_⟩
      unfold Queue.classify
      have hfit := sh.hfit
      simp only [hlast, ↓reduceIte, h.final, hL, Bool.false_eq_true, Option.isSome_none, hoff, hlen, hjl]
      have : ¬ (sh.n - 1) * sh.p + sh.l > MAX_PACKET_SIZE := by omega
      simp [this, Shape.total, LASTBIT]
    · left
      refine ⟨hjl, rfl, ?_⟩
      unfold Queue.classify
      simp [hlast, h.final, hL]
  · right; right
    have hjlt : j < sh.n - 1 := by omega
    simp only [hjl, ↓reduceIte] at hkind
    obtain ⟨hlast, hlen⟩ := hkind
    refine ⟨hjlt, ?_⟩
    unfold Queue.classify
    have hw : (q.window.isSome && q.window != some sh.p) = false := by
      rw [h.window]; split <;> simp
    have hmax : MAX_PACKET_SIZE < 65536 := by decide
    have hfit := sh.hfit
    have hple : sh.p ≤ MAX_PACKET_SIZE := by
      have : 1 * sh.p ≤ (sh.n - 1) * sh.p := Nat.mul_le_mul_right _ (by have := sh.hn; omega)
      omega
    have hmod : sh.p % 65536 = sh.p := Nat.mod_eq_of_lt (by omega)
    have hmul : isMultipleOf (j * sh.p) sh.p = true := by
      unfold isMultipleOf
      have : (sh.p == 0) = false := by simp; omega
      simp [this]
    have hmin : ¬ sh.p < MIN_PAYLOAD_SIZE := by have := sh.hp; omega
    have hidx : ¬ (j ≥ MAX_FRAMES - 1) := by
      have := sh.n_le
      simp only [LASTBIT] at this
      omega
    simp only [hlast, Bool.false_eq_true, ↓reduceIte, hlen, hw, hoff, hmod, hmul, Bool.not_true, hmin, hidx,
      Nat.mul_div_cancel _ hpp]


theorem Shape.oneTime_last (sh : Shape) (q : Queue α) (mid : Bool)
    (hw : q.window = if mid then some sh.p else none) (he : q.expected = none) :
    oneTime { q with finalSize := some sh.total, lastOff := some ((sh.n - 1) * sh.p) } =
      .ok { q with finalSize := some sh.total, lastOff := some ((sh.n - 1) * sh.p),
                   expected := if mid then some sh.n else none } := by
  unfold oneTime
  cases mid
  · simp [hw, he]
  · have hpp := sh.p_pos
    have hm : isMultipleOf ((sh.n - 1) * sh.p) sh.p = true := by
      unfold isMultipleOf
      have : (sh.p == 0) = false := by simp; omega
      simp [this]
    have hl : sh.total - (sh.n - 1) * sh.p = sh.l := by unfold Shape.total; omega
    have h1 := sh.hl1; have h2 := sh.hl2
    have hz : (sh.l == 0) = false := by simp; omega
    have hg : ¬ sh.l > sh.p := by omega
    simp [hw, he, hm, hl, hz, hg, sh.expected_n]

theorem Shape.oneTime_mid (sh : Shape) (q : Queue α) (mid last : Bool)
    (hf : q.finalSize = if last then some sh.total else none)
    (hl : last = true → q.lastOff = some ((sh.n - 1) * sh.p))
    (he : q.expected = if mid && last then some sh.n else none) :
    oneTime { q with window := some sh.p } =
      .ok { q with window := some sh.p, expected := if last then some sh.n else none } := by
  unfold oneTime
  cases last
  · simp [hf, he]
  · cases mid
    · have hpp := sh.p_pos
      have hm : isMultipleOf ((sh.n - 1) * sh.p) sh.p = true := by
        unfold isMultipleOf
        have : (sh.p == 0) = false := by simp; omega
        simp [this]
      have hll : sh.total - (sh.n - 1) * sh.p = sh.l := by unfold Shape.total; omega
      have h1 := sh.hl1; have h2 := sh.hl2
      have hz : (sh.l == 0) = false := by simp; omega
      have hg : ¬ sh.l > sh.p := by omega
      simp [hf, he, hl rfl, hm, hll, hz, hg, sh.expected_n]
    · simp [hf, he, hl rfl]


theorem Shape.hasMid_cons (sh : Shape) (j : Nat) (seen : List Nat) :
    sh.hasMid (j :: seen) = (decide (j < sh.n - 1) || sh.hasMid seen) := by simp [Shape.hasMid]
theorem Shape.hasLast_cons (sh : Shape) (j : Nat) (seen : List Nat) :
    sh.hasLast (j :: seen) = (decide (j = sh.n - 1) || sh.hasLast seen) := by
  simp only [Shape.hasLast, List.contains_cons]
  congr 1
  rw [Bool.eq_iff_iff]
  simp only [beq_iff_eq, decide_eq_true_eq]
  exact eq_comm

/-- a duplicate-free list of `n` numbers below `n` contains every number below `n` -/
theorem all_seen {n : Nat} {l : List Nat} (hnd : l.Nodup) (hlt : ∀ j ∈ l, j < n) (hlen : l.length = n) :
    ∀ k, k < n → k ∈ l := by
  intro k hk
  apply Classical.byContradiction
  intro hnot
  have hsub : l ⊆ (List.range n).erase k := by
    intro x hx
    have hxk : x ≠ k := fun e => hnot (e ▸ hx)
    exact (List.mem_erase_of_ne hxk).mpr (List.mem_range.mpr (hlt x hx))
  have h1 := List.Nodup.length_le_of_subset hnd hsub
  have h2 : ((List.range n).erase k).length = n - 1 := by
    rw [List.length_erase_of_mem (List.mem_range.mpr hk), List.length_range]
  omega

theorem Live.bound {sh : Shape} {f : Frame α} {j : Nat} (hf : sh.IsFrame f j) :
    ¬ f.hdr.frameOff + f.payload.length > MAX_PACKET_SIZE := by
  obtain ⟨_, hj, hoff, hkind⟩ := hf
  have hfit := sh.hfit
  have h2 := sh.hl2
  rw [hoff]
  split at hkind
  · rename_i hjl; rw [hkind.2, hjl]; omega
  · rename_i hjl; rw [hkind.2]
    have : (j + 1) * sh.p ≤ (sh.n - 1) * sh.p := Nat.mul_le_mul_right _ (by omega)
    rw [Nat.add_mul, Nat.one_mul] at this
    have := sh.hl1
    omega


/-- state after `classify` + `oneTime` for a frame that was not seen before -/
def Shape.next (sh : Shape) (q : Queue α) (j : Nat) (seen : List Nat) : Queue α :=
  { q with window := if sh.hasMid (j :: seen) then some sh.p else none,
           finalSize := if sh.hasLast (j :: seen) then some sh.total else none,
           lastOff := if j = sh.n - 1 then some ((sh.n - 1) * sh.p) else q.lastOff,
           expected := if sh.hasMid (j :: seen) && sh.hasLast (j :: seen) then some sh.n else none }

theorem Live.pre_finish {sh : Shape} {q : Queue α} {seen : List Nat} (h : Live sh q seen) (f : Frame α) (j : Nat)
    (hf : sh.IsFrame f j) (hnew : j ∉ seen) :
    q.ingest f = (sh.next q j seen).finish f (sh.bit j) := by
  have hb := Live.bound hf
  unfold Queue.ingest
  simp only [h.notIdle, Bool.false_eq_true, ↓reduceIte, hb]
  rcases h.classify f j hf with ⟨hjl, hL, _⟩ | ⟨hjl, hL, hc⟩ | ⟨hjl, hc⟩
  · exfalso
    apply hnew
    have : seen.contains (sh.n - 1) = true := hL
    simpa [hjl] using this
  · rw [hc]
    simp only []
    have hexp : q.expected = none := by rw [h.expected, hL]; simp
    rw [sh.oneTime_last q (sh.hasMid seen) h.window hexp]
    simp only []
    congr 1
    · subst hjl
      simp [Shape.next, sh.hasMid_cons, sh.hasLast_cons, h.window]
    · simp [Shape.bit, hjl]
  · rw [hc]
    simp only []
    rw [sh.oneTime_mid q (sh.hasMid seen) (sh.hasLast seen) h.final h.lastOff h.expected]
    simp only []
    congr 1
    · have hne : ¬ j = sh.n - 1 := by omega
      simp [Shape.next, sh.hasMid_cons, sh.hasLast_cons, hjl, hne, h.final]
    · have hne : ¬ j = sh.n - 1 := by omega
      simp [Shape.bit, hne]


/-- state after an accepted frame that does not complete the packet -/
def Shape.after (sh : Shape) (q : Queue α) (f : Frame α) (j : Nat) (seen : List Nat) : Queue α :=
  let n := sh.next q j seen
  { n with buf := writeAt q.buf f.hdr.frameOff f.payload, recv := sh.bit j :: q.recv,
           nextFrameOff := (f.hdr.frameOff + f.payload.length) % 65536 }

/-- **one honest frame**: a duplicate is rejected without changing the state; a new frame is accepted; the packet
    is emitted exactly when the last missing frame arrives -/
theorem Live.step {sh : Shape} {q : Queue α} {seen : List Nat} (h : Live sh q seen) (f : Frame α) (j : Nat)
    (hf : sh.IsFrame f j) :
    (j ∈ seen ∧ q.ingest f = (q, .err .duplicate)) ∨
    (j ∉ seen ∧ seen.length + 1 < sh.n ∧ (q.ingest f).2 = .none ∧ Live sh (q.ingest f).1 (j :: seen)) ∨
    (j ∉ seen ∧ seen.length + 1 = sh.n ∧ (q.ingest f).1.idle = true ∧
      ∃ buf : List α, buf.length = MAX_PACKET_SIZE ∧ (q.ingest f).2 = .packet sh.S (buf.take sh.total)) := by
  by_cases hmem : j ∈ seen
  · left
    refine ⟨hmem, ?_⟩
    have hb := Live.bound hf
    have hjn := hf.2.1
    unfold Queue.ingest
    simp only [h.notIdle, Bool.false_eq_true, ↓reduceIte, hb]
    rcases h.classify f j hf with ⟨_, _, hc⟩ | ⟨hjl, hL, _⟩ | ⟨hjl, hc⟩
    · rw [hc]
    · exfalso
      have : seen.contains (sh.n - 1) = false := hL
      rw [← hjl] at this
      simp [hmem] at this
    · rw [hc]
      simp only []
      have hmid : sh.hasMid seen = true := by
        simp only [Shape.hasMid, List.any_eq_true, decide_eq_true_eq]; exact ⟨j, hmem, hjl⟩
      rw [sh.oneTime_mid q (sh.hasMid seen) (sh.hasLast seen) h.final h.lastOff h.expected]
      simp only []
      have hq : ({ q with window := some sh.p, expected := if sh.hasLast seen = true then some sh.n else none } : Queue α) = q := by
        have hw := h.window; have he := h.expected
        rw [hmid] at hw he
        simp only [↓reduceIte, Bool.true_and] at hw he
        cases q; simp_all
      rw [hq]
      unfold Queue.finish
      have hne : ¬ j = sh.n - 1 := by omega
      have hc' := h.contains_bit j hjn
      simp only [Shape.bit, hne, ↓reduceIte] at hc'
      have hin : q.recv.contains j = true := by rw [hc']; simpa using hmem
      simp only [hin, ↓reduceIte]
  · right
    rw [h.pre_finish f j hf hmem]
    have hjn := hf.2.1
    have hcont : (sh.next q j seen).recv.contains (sh.bit j) = false := by
      have := h.contains_bit j hjn
      simp only [Shape.next]
      rw [this]; simpa using hmem
    have hnd : (j :: seen).Nodup := List.nodup_cons.mpr ⟨hmem, h.nodup⟩
    have hlt : ∀ k ∈ j :: seen, k < sh.n := by
      intro k hk; rcases List.mem_cons.mp hk with rfl | hk
      · exact hjn
      · exact h.lt k hk
    have hb := Live.bound hf
    have hbuf : (writeAt q.buf f.hdr.frameOff f.payload).length = MAX_PACKET_SIZE := by
      rw [writeAt_length _ _ _ (by rw [h.buflen]; omega)]; exact h.buflen
    unfold Queue.finish
    simp only [hcont, Bool.false_eq_true, ↓reduceIte]
    by_cases hcomp : seen.length + 1 = sh.n
    · right
      have hall := all_seen hnd hlt (by simpa using hcomp)
      have hn := sh.hn
      have hmid : sh.hasMid (j :: seen) = true := by
        simp only [Shape.hasMid, List.any_eq_true, decide_eq_true_eq]; exact ⟨0, hall 0 (by omega), by omega⟩
      have hlast : sh.hasLast (j :: seen) = true := by
        simp only [Shape.hasLast, List.contains_eq_mem, decide_eq_true_eq]; exact hall _ (by omega)
      have hexp : (sh.next q j seen).expected = some sh.n := by simp [Shape.next, hmid, hlast]
      have hrl : (sh.bit j :: q.recv).length = sh.n := by
        simp only [List.length_cons, h.recv, List.length_map]; exact hcomp
      have hbelow : hasFramesBelow (sh.bit j :: q.recv) (sh.n - 1) = true := by
        simp only [hasFramesBelow, List.all_eq_true, List.mem_range, List.contains_eq_mem, decide_eq_true_eq]
        intro i hi
        have him := hall i (by omega)
        have hbi : sh.bit i = i := by simp [Shape.bit]; omega
        rcases List.mem_cons.mp him with rfl | him
        · rw [hbi]; exact List.mem_cons_self
        · apply List.mem_cons_of_mem
          simp only [h.recv, List.mem_map]
          exact ⟨i, him, hbi⟩
      refine ⟨hmem, hcomp, ?_, writeAt q.buf f.hdr.frameOff f.payload, hbuf, ?_⟩
      · simp only [hexp]
        have hrl' : (sh.bit j :: (sh.next q j seen).recv).length = sh.n := hrl
        have hb' : hasFramesBelow (sh.bit j :: (sh.next q j seen).recv) (sh.n - 1) = true := hbelow
        simp [hrl', hb']
      · simp only [hexp]
        have hrl' : (sh.bit j :: (sh.next q j seen).recv).length = sh.n := hrl
        have hb' : hasFramesBelow (sh.bit j :: (sh.next q j seen).recv) (sh.n - 1) = true := hbelow
        have hfin : (sh.next q j seen).finalSize = some sh.total := by simp [Shape.next, hlast]
        have hso : (sh.next q j seen).streamOff = sh.S := h.stream
        have hbf : (sh.next q j seen).buf = q.buf := rfl
        simp [hrl', hb', hfin, hso, hbf]
    · left
      have hlen : seen.length + 1 < sh.n := by
        have : (j :: seen).length ≤ sh.n := by
          have hsub : (j :: seen) ⊆ List.range sh.n := fun x hx => List.mem_range.mpr (hlt x hx)
          simpa using List.Nodup.length_le_of_subset hnd hsub
        simp at this; omega
      have hrl : ¬ (sh.bit j :: (sh.next q j seen).recv).length = sh.n := by
        show ¬ (sh.bit j :: q.recv).length = sh.n
        simp only [List.length_cons, h.recv, List.length_map]; omega
      have hlive : Live sh (sh.after q f j seen) (j :: seen) := by
        refine ⟨h.notIdle, hnd, hlt, by simp [Shape.after, h.recv], by simp [Shape.after, Shape.next],
          by simp [Shape.after, Shape.next], ?_, by simp [Shape.after, Shape.next], hbuf, h.stream⟩
        intro hl
        simp only [Shape.after, Shape.next]
        split
        · rfl
        · rename_i hne
          rw [sh.hasLast_cons] at hl
          have : sh.hasLast seen = true := by simpa [hne] using hl
          exact h.lastOff this
      refine ⟨hmem, hlen, ?_, ?_⟩
      · split
        · rename_i e he
          have : e = sh.n := by
            simp only [Shape.next] at he
            split at he <;> simp at he
            exact he.symm
          subst this
          have hrl2 : ¬ (sh.next q j seen).recv.length + 1 = sh.n := by simpa using hrl
          simp [hrl2]
        · rfl
      · split
        · rename_i e he
          have : e = sh.n := by
            simp only [Shape.next] at he
            split at he <;> simp at he
            exact he.symm
          subst this
          have hrl2 : ¬ (sh.next q j seen).recv.length + 1 = sh.n := by simpa using hrl
          simp only [List.length_cons, beq_iff_eq, hrl2, ↓reduceIte]
          exact hlive
        · exact hlive


/-- feeding a frame sequence to one reassembly queue -/
def qrun (q : Queue α) : List (Frame α) → List (Out α)
  | [] => []
  | f :: fs => (q.ingest f).2 :: qrun (q.ingest f).1 fs

/-- **Liveness of one slot**: if the frames still missing all arrive – in any order, with any duplicates of
    frames of this packet in between – the packet is emitted at the moment the last missing frame arrives, and
    nothing but `Ok(None)` / `Duplicate` is reported before. -/
theorem Live.run_emits {sh : Shape} :
    ∀ (fj : List (Frame α × Nat)) (q : Queue α) (seen : List Nat), Live sh q seen → seen.length < sh.n →
      (∀ x ∈ fj, sh.IsFrame x.1 x.2) → (∀ k, k < sh.n → k ∈ seen ∨ k ∈ fj.map (·.2)) →
      ∃ (i : Nat) (buf : List α), buf.length = MAX_PACKET_SIZE ∧
        (qrun q (fj.map (·.1)))[i]? = some (.packet sh.S (buf.take sh.total)) ∧
        ∀ i', i' < i → (qrun q (fj.map (·.1)))[i']? = some .none ∨
                        (qrun q (fj.map (·.1)))[i']? = some (.err .duplicate) := by
  intro fj
  induction fj with
  | nil =>
    intro q seen h hlen _ hall
    exfalso
    have hsub : List.range sh.n ⊆ seen := by
      intro k hk
      rcases hall k (List.mem_range.mp hk) with h1 | h1
      · exact h1
      · simp at h1
    have := List.Nodup.length_le_of_subset (List.nodup_range) hsub
    simp at this; omega
  | cons x fj ih =>
    intro q seen h hlen hfr hall
    obtain ⟨f, j⟩ := x
    have hf : sh.IsFrame f j := hfr (f, j) List.mem_cons_self
    have hfr' : ∀ x ∈ fj, sh.IsFrame x.1 x.2 := fun x hx => hfr x (List.mem_cons_of_mem _ hx)
    rcases h.step f j hf with ⟨hmem, hdup⟩ | ⟨hnew, hl, hout, hlive⟩ | ⟨hnew, hl, _, buf, hbl, hout⟩
    · -- duplicate: state unchanged
      have hall' : ∀ k, k < sh.n → k ∈ seen ∨ k ∈ fj.map (·.2) := by
        intro k hk
        rcases hall k hk with h1 | h1
        · exact Or.inl h1
        · simp only [List.map_cons, List.mem_cons] at h1
          rcases h1 with rfl | h1
          · exact Or.inl hmem
          · exact Or.inr h1
      obtain ⟨i, buf, hb, hi, hbefore⟩ := ih q seen h hlen hfr' hall'
      refine ⟨i + 1, buf, hb, ?_, ?_⟩
      · simp only [List.map_cons, qrun, hdup, List.getElem?_cons_succ]; exact hi
      · intro i' hi'
        cases i' with
        | zero => right; simp [qrun, hdup]
        | succ i' =>
          simp only [List.map_cons, qrun, hdup, List.getElem?_cons_succ]
          exact hbefore i' (by omega)
    · -- accepted, packet not yet complete
      have hall' : ∀ k, k < sh.n → k ∈ j :: seen ∨ k ∈ fj.map (·.2) := by
        intro k hk
        rcases hall k hk with h1 | h1
        · exact Or.inl (List.mem_cons_of_mem _ h1)
        · simp only [List.map_cons, List.mem_cons] at h1
          rcases h1 with rfl | h1
          · exact Or.inl List.mem_cons_self
          · exact Or.inr h1
      obtain ⟨i, buf, hb, hi, hbefore⟩ := ih _ (j :: seen) hlive (by simpa using hl) hfr' hall'
      refine ⟨i + 1, buf, hb, ?_, ?_⟩
      · simp only [List.map_cons, qrun, List.getElem?_cons_succ]; exact hi
      · intro i' hi'
        cases i' with
        | zero => left; simp [qrun, hout]
        | succ i' =>
          simp only [List.map_cons, qrun, List.getElem?_cons_succ]
          exact hbefore i' (by omega)
    · -- the last missing frame: emitted now
      exact ⟨0, buf, hbl, by simp [qrun, hout], fun i' hi' => by omega⟩

/-- a queue freshly initialised for the first frame of the packet is in the `Live` state with nothing seen -/
theorem Live.init (sh : Shape) (q : Queue α) (f : Frame α) (hb : q.buf.length = MAX_PACKET_SIZE)
    (hs : f.hdr.streamOff = sh.S) : Live sh (q.init f) [] := by
  refine ⟨rfl, List.nodup_nil, by simp, by simp [Queue.init], by simp [Queue.init, Shape.hasMid],
    by simp [Queue.init, Shape.hasLast], by simp [Shape.hasLast], by simp [Queue.init, Shape.hasMid], by simpa [Queue.init] using hb,
    by simp [Queue.init, hs]⟩



end ScionVerif.Frag
