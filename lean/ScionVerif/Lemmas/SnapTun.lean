import ScionVerif.Model.TunServer
/-!
Helper lemmas for C09: association-list maps, the registry invariant and its preservation by
`addIdentity` / `cleanExpired`, monotonicity of "not authorised", tunnel-ownership invariant of the server.
-/
namespace ScionVerif.SnapTun
open ScionVerif.Generated.SnapTun

namespace AMap
variable {α : Type}

theorem get?_erase (m : AMap α) (p k : Nat) :
    get? (erase m p) k = if p = k then none else get? m k := by
  induction m with
  | nil => simp [erase, get?]
  | cons x m ih =>
    obtain ⟨k', v⟩ := x
    unfold erase at ih ⊢
    by_cases h : k' = p
    · subst h
      simp only [List.filter_cons, bne_self_eq_false, Bool.false_eq_true, if_false]
      rw [ih]
      by_cases hk : k' = k
      · simp [hk]
      · simp [hk, get?]
    · have : (k' != p) = true := by simp [h]
      simp only [List.filter_cons, this, if_true, get?]
      rw [ih]
      by_cases hk : k' = k
      · subst hk; simp [Ne.symm h]
      · simp [hk]

theorem get?_insert (m : AMap α) (k k' : Nat) (v : α) :
    get? (insert m k v) k' = if k = k' then some v else get? m k' := by
  unfold insert
  simp only [get?]
  by_cases h : k = k'
  · simp [h]
  · simp [h, get?_erase]

theorem mem_of_get? {m : AMap α} {k : Nat} {v : α} (h : get? m k = some v) : (k, v) ∈ m := by
  induction m with
  | nil => simp [get?] at h
  | cons x m ih =>
    obtain ⟨k', v'⟩ := x
    simp only [get?] at h
    by_cases hk : k' = k
    · simp [hk] at h; subst hk; subst h; simp
    · simp [hk] at h; exact List.mem_cons_of_mem _ (ih h)

theorem get?_of_mem {m : AMap α} (hn : (keys m).Nodup) {k : Nat} {v : α} (h : (k, v) ∈ m) :
    get? m k = some v := by
  induction m with
  | nil => simp at h
  | cons x m ih =>
    obtain ⟨k', v'⟩ := x
    simp only [keys, List.map_cons, List.nodup_cons] at hn
    simp only [get?]
    rcases List.mem_cons.mp h with h | h
    · cases h; simp
    · have : k' ≠ k := by
        intro e; subst e
        exact hn.1 (List.mem_map.mpr ⟨(k', v), h, rfl⟩)
      simp [this]; exact ih hn.2 h

theorem get?_isSome_iff_mem_keys (m : AMap α) (k : Nat) : (get? m k).isSome ↔ k ∈ keys m := by
  induction m with
  | nil => simp [get?, keys]
  | cons x m ih =>
    obtain ⟨k', v'⟩ := x
    simp only [get?, keys, List.map_cons, List.mem_cons]
    by_cases hk : k' = k
    · simp [hk]
    · simp only [hk, if_false]
      rw [ih]
      constructor
      · intro h; exact Or.inr h
      · intro h; rcases h with h | h
        · exact absurd h.symm hk
        · exact h

theorem get?_eq_none_iff (m : AMap α) (k : Nat) : get? m k = none ↔ k ∉ keys m := by
  rw [← get?_isSome_iff_mem_keys]
  cases get? m k <;> simp

theorem mem_keys_filter (m : AMap α) (f : Nat × α → Bool) (k : Nat) :
    k ∈ keys (m.filter f) ↔ ∃ v, (k, v) ∈ m ∧ f (k, v) = true := by
  simp only [keys, List.mem_map, List.mem_filter]
  constructor
  · rintro ⟨⟨k', v⟩, ⟨hm, hf⟩, rfl⟩; exact ⟨v, hm, hf⟩
  · rintro ⟨v, hm, hf⟩; exact ⟨(k, v), ⟨hm, hf⟩, rfl⟩

theorem mem_vals_filter (m : AMap α) (f : Nat × α → Bool) (v : α) :
    v ∈ vals (m.filter f) ↔ ∃ k, (k, v) ∈ m ∧ f (k, v) = true := by
  simp only [vals, List.mem_map, List.mem_filter]
  constructor
  · rintro ⟨⟨k, v'⟩, ⟨hm, hf⟩, rfl⟩; exact ⟨k, hm, hf⟩
  · rintro ⟨k, hm, hf⟩; exact ⟨(k, v), ⟨hm, hf⟩, rfl⟩

theorem keys_filter_nodup {m : AMap α} (f : Nat × α → Bool) (h : (keys m).Nodup) :
    (keys (m.filter f)).Nodup :=
  List.Nodup.sublist (List.Sublist.map _ (List.filter_sublist)) h

theorem vals_filter_nodup {m : AMap α} (f : Nat × α → Bool) (h : (vals m).Nodup) :
    (vals (m.filter f)).Nodup :=
  List.Nodup.sublist (List.Sublist.map _ (List.filter_sublist)) h

theorem mem_keys_of_mem {m : AMap α} {k : Nat} {v : α} (h : (k, v) ∈ m) : k ∈ keys m :=
  List.mem_map.mpr ⟨(k, v), h, rfl⟩

theorem mem_vals_of_mem {m : AMap α} {k : Nat} {v : α} (h : (k, v) ∈ m) : v ∈ vals m :=
  List.mem_map.mpr ⟨(k, v), h, rfl⟩

theorem exists_of_mem_keys {m : AMap α} {k : Nat} (h : k ∈ keys m) : ∃ v, (k, v) ∈ m := by
  obtain ⟨⟨k', v⟩, hm, rfl⟩ := List.mem_map.mp h
  exact ⟨v, hm⟩

theorem exists_of_mem_vals {m : AMap α} {v : α} (h : v ∈ vals m) : ∃ k, (k, v) ∈ m := by
  obtain ⟨⟨k, v'⟩, hm, rfl⟩ := List.mem_map.mp h
  exact ⟨k, hm⟩

/-- values pairwise distinct ⇒ a value determines its key -/
theorem key_unique_of_vals_nodup {m : AMap α} (h : (vals m).Nodup) {k₁ k₂ : Nat} {v : α}
    (h₁ : (k₁, v) ∈ m) (h₂ : (k₂, v) ∈ m) : k₁ = k₂ := by
  induction m with
  | nil => simp at h₁
  | cons x m ih =>
    obtain ⟨k', v'⟩ := x
    simp only [vals, List.map_cons, List.nodup_cons] at h
    rcases List.mem_cons.mp h₁ with e₁ | e₁ <;> rcases List.mem_cons.mp h₂ with e₂ | e₂
    · cases e₁; cases e₂; rfl
    · cases e₁; exact absurd (mem_vals_of_mem e₂) h.1
    · cases e₂; exact absurd (mem_vals_of_mem e₁) h.1
    · exact ih h.2 e₁ e₂

/-- keys pairwise distinct ⇒ a key determines its value -/
theorem val_unique_of_keys_nodup {m : AMap α} (h : (keys m).Nodup) {k : Nat} {v₁ v₂ : α}
    (h₁ : (k, v₁) ∈ m) (h₂ : (k, v₂) ∈ m) : v₁ = v₂ := by
  have a := get?_of_mem h h₁
  have b := get?_of_mem h h₂
  rw [a] at b; exact Option.some.inj b

end AMap

/-! ## Registry invariant -/

/-- What `IdentityRegistryState` really maintains. -/
structure Registry.Inv (r : Registry) : Prop where
  /-- at most one identity per token key -/
  keys_nodup : r.assoc.keys.Nodup
  /-- at most one token key per identity -/
  vals_nodup : r.assoc.vals.Nodup
  /-- at most one registration record per identity -/
  sess_nodup : r.sess.keys.Nodup
  /-- the associated identities are exactly the identities that have a registration record -/
  range_eq : ∀ id, id ∈ r.assoc.vals ↔ id ∈ r.sess.keys

theorem Registry.inv_empty : ({} : Registry).Inv :=
  ⟨List.nodup_nil, List.nodup_nil, List.nodup_nil, fun _ => by simp [AMap.vals, AMap.keys]⟩

theorem Registry.addIdentity_assoc (r : Registry) (key : Key) (id : Id) (e : Time) :
    (r.addIdentity key id e).1.assoc
      = (key, id) :: r.assoc.filter (fun p => p.1 != key && p.2 != id) := by
  simp only [Registry.addIdentity, AMap.insert, AMap.retain, AMap.erase, List.filter_cons]
  simp only [bne_self_eq_false, beq_self_eq_true, Bool.or_true, if_true, List.filter_filter]
  congr 1
  apply List.filter_congr
  intro ⟨k, v⟩ _
  show ((v != id || k == key) && k != key) = (k != key && v != id)
  by_cases hk : k = key
  · subst hk; simp
  · have h1 : (k != key) = true := bne_iff_ne.mpr hk
    have h2 : (k == key) = false := beq_eq_false_iff_ne.mpr hk
    rw [h1, h2]; simp

theorem Registry.addIdentity_sess_keys (r : Registry) (key : Key) (id : Id) (e : Time) (x : Id) :
    x ∈ (r.addIdentity key id e).1.sess.keys ↔
      x = id ∨ (x ∈ r.sess.keys ∧ ∀ p, r.assoc.get? key = some p → p ≠ id → x ≠ p) := by
  simp only [Registry.addIdentity, AMap.insert, AMap.keys, List.map_cons, List.mem_cons]
  constructor
  · rintro (h | h)
    · exact Or.inl h
    · have h' := (AMap.mem_keys_filter _ _ x).mp h
      obtain ⟨v, hm, hf⟩ := h'
      have hx : x ≠ id := by simpa using hf
      right
      cases hp : r.assoc.get? key with
      | none =>
        simp only [hp] at hm
        exact ⟨AMap.mem_keys_of_mem hm, fun p h => by cases h⟩
      | some p =>
        simp only [hp] at hm
        by_cases hpi : p = id
        · simp only [hpi, ne_eq, not_true_eq_false, if_false] at hm
          exact ⟨AMap.mem_keys_of_mem hm, fun p' h hne => by cases h; exact absurd hpi hne⟩
        · simp only [ne_eq, hpi, not_false_eq_true, if_true, AMap.erase, List.mem_filter] at hm
          refine ⟨AMap.mem_keys_of_mem hm.1, fun p' h _ => ?_⟩
          cases h
          simpa using hm.2
  · rintro (h | ⟨hk, hp⟩)
    · exact Or.inl h
    · by_cases hx : x = id
      · exact Or.inl hx
      · right
        apply (AMap.mem_keys_filter _ _ x).mpr
        obtain ⟨v, hm⟩ := AMap.exists_of_mem_keys hk
        refine ⟨v, ?_, by simpa using hx⟩
        cases hq : r.assoc.get? key with
        | none => simpa [hq] using hm
        | some p =>
          by_cases hpi : p = id
          · simpa [hq, hpi] using hm
          · simp only [ne_eq, hpi, not_false_eq_true, if_true, AMap.erase, List.mem_filter]
            exact ⟨hm, by simpa using hp p hq hpi⟩

theorem Registry.addIdentity_inv {r : Registry} (h : r.Inv) (key : Key) (id : Id) (e : Time) :
    (r.addIdentity key id e).1.Inv := by
  have ha := Registry.addIdentity_assoc r key id e
  refine ⟨?_, ?_, ?_, ?_⟩
  · rw [ha]
    simp only [AMap.keys, List.map_cons, List.nodup_cons]
    refine ⟨?_, AMap.keys_filter_nodup _ h.keys_nodup⟩
    intro hm
    obtain ⟨v, _, hf⟩ := (AMap.mem_keys_filter _ _ key).mp hm
    simp at hf
  · rw [ha]
    simp only [AMap.vals, List.map_cons, List.nodup_cons]
    refine ⟨?_, AMap.vals_filter_nodup _ h.vals_nodup⟩
    intro hm
    obtain ⟨k, _, hf⟩ := (AMap.mem_vals_filter _ _ id).mp hm
    simp at hf
  · simp only [Registry.addIdentity, AMap.insert, AMap.keys, List.map_cons, List.nodup_cons]
    constructor
    · intro hm
      obtain ⟨v, _, hf⟩ := (AMap.mem_keys_filter _ _ id).mp hm
      simp at hf
    · apply AMap.keys_filter_nodup
      cases r.assoc.get? key with
      | none => exact h.sess_nodup
      | some p =>
        by_cases hpi : p = id
        · simpa [hpi] using h.sess_nodup
        · simp only [ne_eq, hpi, not_false_eq_true, if_true]
          exact AMap.keys_filter_nodup _ h.sess_nodup
  · intro x
    rw [Registry.addIdentity_sess_keys, ha]
    simp only [AMap.vals, List.map_cons, List.mem_cons]
    constructor
    · rintro (hx | hx)
      · exact Or.inl hx
      · obtain ⟨k, hm, hf⟩ := (AMap.mem_vals_filter _ _ x).mp hx
        simp only [Bool.and_eq_true, bne_iff_ne, ne_eq] at hf
        right
        refine ⟨(h.range_eq x).mp (AMap.mem_vals_of_mem hm), fun p hp _ hxp => ?_⟩
        subst hxp
        exact hf.1 (AMap.key_unique_of_vals_nodup h.vals_nodup hm (AMap.mem_of_get? hp))
    · rintro (hx | ⟨hk, hp⟩)
      · exact Or.inl hx
      · by_cases hxi : x = id
        · exact Or.inl hxi
        · right
          obtain ⟨k, hm⟩ := AMap.exists_of_mem_vals ((h.range_eq x).mpr hk)
          apply (AMap.mem_vals_filter _ _ x).mpr
          refine ⟨k, hm, ?_⟩
          simp only [Bool.and_eq_true, bne_iff_ne, ne_eq]
          refine ⟨fun hkk => ?_, hxi⟩
          subst hkk
          exact hp x (AMap.get?_of_mem h.keys_nodup hm) hxi rfl

theorem Registry.dropIdentity_inv {r : Registry} (h : r.Inv) (id : Id) : (r.dropIdentity id).Inv := by
  refine ⟨AMap.keys_filter_nodup _ h.keys_nodup, AMap.vals_filter_nodup _ h.vals_nodup,
    AMap.keys_filter_nodup _ h.sess_nodup, fun x => ?_⟩
  simp only [Registry.dropIdentity, AMap.retain, AMap.erase]
  rw [AMap.mem_vals_filter, AMap.mem_keys_filter]
  constructor
  · rintro ⟨k, hm, hf⟩
    obtain ⟨v, hv⟩ := AMap.exists_of_mem_keys ((h.range_eq x).mp (AMap.mem_vals_of_mem hm))
    exact ⟨v, hv, by simpa using hf⟩
  · rintro ⟨v, hm, hf⟩
    obtain ⟨k, hk⟩ := AMap.exists_of_mem_vals ((h.range_eq x).mpr (AMap.mem_keys_of_mem hm))
    exact ⟨k, hk, by simpa using hf⟩

theorem Registry.foldl_dropIdentity_inv {r : Registry} (h : r.Inv) (ids : List Id) :
    (ids.foldl Registry.dropIdentity r).Inv := by
  induction ids generalizing r with
  | nil => exact h
  | cons i ids ih => exact ih (Registry.dropIdentity_inv h i)

theorem Registry.cleanExpired_inv {r : Registry} (h : r.Inv) (now : Time) : (r.cleanExpired now).Inv :=
  Registry.foldl_dropIdentity_inv h _

/-! ## what the operations do to one identity's registration record -/

theorem Registry.foldl_dropIdentity_sess_get? (r : Registry) (ids : List Id) (id : Id) :
    (ids.foldl Registry.dropIdentity r).sess.get? id = if id ∈ ids then none else r.sess.get? id := by
  induction ids generalizing r with
  | nil => simp
  | cons i ids ih =>
    simp only [List.foldl_cons, List.mem_cons]
    rw [ih]
    by_cases h : id ∈ ids
    · simp [h]
    · simp only [h, if_false, Registry.dropIdentity, AMap.get?_erase, or_false]
      by_cases hi : i = id
      · simp [hi]
      · simp [hi, Ne.symm hi]

/-- purge removes exactly the records that are not authorised at `now` -/
theorem Registry.cleanExpired_sess_get? {r : Registry} (h : r.sess.keys.Nodup) (now : Time) (id : Id) :
    (r.cleanExpired now).sess.get? id = (r.sess.get? id).filter (fun e => authorizedAt e now) := by
  simp only [Registry.cleanExpired]
  rw [Registry.foldl_dropIdentity_sess_get?]
  simp only [List.mem_filterMap]
  cases hg : r.sess.get? id with
  | none =>
    simp
  | some e =>
    have hm := AMap.mem_of_get? hg
    by_cases ha : authorizedAt e now = true
    · simp only [Option.filter, ha, if_true]
      rw [if_neg]
      rintro ⟨⟨x, e'⟩, hm', hf⟩
      by_cases hb : authorizedAt e' now = true
      · simp [hb] at hf
      · simp [hb] at hf
        subst hf
        have := AMap.val_unique_of_keys_nodup h hm hm'
        subst this
        exact hb ha
    · simp only [Option.filter, ha]
      rw [if_pos]
      · simp
      · exact ⟨(id, e), hm, by simp [ha]⟩

theorem Registry.addIdentity_sess_get? (r : Registry) (key : Key) (id : Id) (e : Time) (x : Id) :
    (r.addIdentity key id e).1.sess.get? x =
      if id = x then some e
      else match r.assoc.get? key with
        | some p => if p ≠ id ∧ p = x then none else r.sess.get? x
        | none => r.sess.get? x := by
  simp only [Registry.addIdentity]
  rw [AMap.get?_insert]
  by_cases hx : id = x
  · simp [hx]
  · simp only [hx, if_false]
    cases r.assoc.get? key with
    | none => rfl
    | some p =>
      by_cases hp : p = id
      · simp [hp]
      · simp only [ne_eq, hp, not_false_eq_true, if_true, AMap.get?_erase, true_and]

/-! ## authorisation verdicts -/

theorem authorizedAt_iff (e now : Nat) : authorizedAt e now = true ↔ now < e := by
  simp [authorizedAt]

theorem authorizedAt_false_mono {e now : Nat} (d : Nat) (h : authorizedAt e now = false) :
    authorizedAt e (now + d) = false := by
  simp only [authorizedAt, decide_eq_false_iff_not] at h ⊢
  omega

theorem Registry.isAuthorized_eq_some (r : Registry) (now : Time) (id : Id) :
    r.isAuthorized now id = some () ↔ ∃ e, r.sess.get? id = some e ∧ now < e := by
  unfold Registry.isAuthorized
  cases r.sess.get? id with
  | none => simp
  | some e =>
    by_cases h : authorizedAt e now = true
    · simp [h, (authorizedAt_iff e now).mp h]
    · have : ¬ now < e := fun hl => h ((authorizedAt_iff e now).mpr hl)
      simp [h, this]

theorem Registry.isAuthorized_eq_none (r : Registry) (now : Time) (id : Id) :
    r.isAuthorized now id = none ↔ ∀ e, r.sess.get? id = some e → authorizedAt e now = false := by
  unfold Registry.isAuthorized
  cases r.sess.get? id with
  | none => simp
  | some e =>
    by_cases h : authorizedAt e now = true
    · simp [h]
    · simp [h]

/-- a registration record that is absent or not authorised stays so if the only thing that happens to it is
removal -/
theorem Registry.unauth_of_get?_sub {r r' : Registry} {now : Time} {id : Id}
    (h : r.isAuthorized now id = none)
    (hsub : r'.sess.get? id = none ∨ r'.sess.get? id = r.sess.get? id) :
    r'.isAuthorized now id = none := by
  rw [Registry.isAuthorized_eq_none] at h ⊢
  intro e he
  rcases hsub with hs | hs
  · rw [hs] at he; cases he
  · rw [hs] at he; exact h e he

theorem Registry.unauth_register_other {r : Registry} {now : Time} {id : Id}
    (h : r.isAuthorized now id = none) (key : Key) (id' : Id) (life : Nat) (hne : id' ≠ id) :
    (r.register now key id' life).1.isAuthorized now id = none := by
  apply Registry.unauth_of_get?_sub h
  unfold Registry.register
  rw [Registry.addIdentity_sess_get?]
  simp only [hne, if_false]
  cases r.assoc.get? key with
  | none => exact Or.inr rfl
  | some p =>
    show (if p ≠ id' ∧ p = id then none else r.sess.get? id) = none ∨
      (if p ≠ id' ∧ p = id then none else r.sess.get? id) = r.sess.get? id
    by_cases hp : p ≠ id' ∧ p = id
    · rw [if_pos hp]; exact Or.inl rfl
    · rw [if_neg hp]; exact Or.inr rfl

theorem Registry.unauth_cleanExpired {r : Registry} {now : Time} {id : Id}
    (h : r.isAuthorized now id = none) (t : Time) :
    (r.cleanExpired t).isAuthorized now id = none := by
  apply Registry.unauth_of_get?_sub h
  simp only [Registry.cleanExpired]
  rw [Registry.foldl_dropIdentity_sess_get?]
  split
  · exact Or.inl rfl
  · exact Or.inr rfl

theorem Registry.unauth_advance {r : Registry} {now : Time} {id : Id}
    (h : r.isAuthorized now id = none) (d : Nat) : r.isAuthorized (now + d) id = none := by
  rw [Registry.isAuthorized_eq_none] at h ⊢
  exact fun e he => authorizedAt_false_mono d (h e he)

/-! ## server: case analysis of the two packet handlers -/

section
variable {σ Pkt Net SD : Type}

theorem incomingPacketResult_forwarded {r : TunnResult Net} {sd sd' : SD} {pl : Payload}
    (h : incomingPacketResult r sd = .forwarded pl sd') : r = .writeToTunnel pl ∧ sd = sd' := by
  cases r <;> simp [incomingPacketResult] at h
  exact ⟨by rw [h.1], h.2⟩

theorem drain_fst (w : Wg σ Pkt Net) (t : σ) (p : Pkt) :
    (drain w t p).1 = (w.queued (w.recv t p).1).1 := by
  simp [drain]

theorem drain_writeToTunnel {w : Wg σ Pkt Net} {t : σ} {p : Pkt} {pl : Payload}
    (h : (drain w t p).2.2 = .writeToTunnel pl) : (w.recv t p).2 = .writeToTunnel pl := by
  simp only [drain] at h
  cases hr : (w.recv t p).2 with
  | done => simp [hr] at h
  | err e => simp [hr] at h
  | writeToNetwork n => simp [hr] at h
  | writeToTunnel q =>
    simp only [hr] at h
    by_cases he : q.isEmpty = true
    · simp [he] at h
    · simp [he] at h; rw [h]

theorem acceptNew_peer (s : Server σ) (frm : Addr) (peer : Id) (t : σ) (q : List Net) (r : TunnResult Net)
    (sd : SD) : (acceptNew s frm peer t q r sd).peer = some peer := by
  cases r <;> rfl

theorem acceptNew_net (s : Server σ) (frm : Addr) (peer : Id) (t : σ) (q : List Net) (r : TunnResult Net)
    (sd : SD) : (acceptNew s frm peer t q r sd).net = q := by
  cases r <;> rfl

theorem acceptNew_forwarded {s : Server σ} {frm : Addr} {peer : Id} {t : σ} {q : List Net} {r : TunnResult Net}
    {sd sd' : SD} {pl : Payload} (h : (acceptNew s frm peer t q r sd).res = .forwarded pl sd') :
    r = .writeToTunnel pl ∧ sd = sd' := by
  cases r with
  | err e => simp [acceptNew] at h
  | done => exact incomingPacketResult_forwarded h
  | writeToNetwork n => exact incomingPacketResult_forwarded h
  | writeToTunnel p => exact incomingPacketResult_forwarded h

/-- either nothing was inserted, or the tunnel accepted the packet and the entry `(frm, ⟨peer, t⟩)` was inserted -/
theorem acceptNew_srv (s : Server σ) (frm : Addr) (peer : Id) (t : σ) (q : List Net) (r : TunnResult Net)
    (sd : SD) :
    (acceptNew s frm peer t q r sd).srv = s ∨
      ((∀ e, r ≠ .err e) ∧ (acceptNew s frm peer t q r sd).srv = { tunnels := s.tunnels.insert frm ⟨peer, t⟩ }) := by
  cases r with
  | err e => exact Or.inl rfl
  | done => exact Or.inr ⟨fun e h => (by cases h), rfl⟩
  | writeToNetwork n => exact Or.inr ⟨fun e h => (by cases h), rfl⟩
  | writeToTunnel p => exact Or.inr ⟨fun e h => (by cases h), rfl⟩

/-- Everything that can make `handle_incoming_packet_with_session` return `Forwarded`. -/
theorem handleIncoming_forwarded {w : Wg σ Pkt Net} {authz : Id → Option SD} {s : Server σ} {pkt : Pkt}
    {frm : Addr} {pl : Payload} {sd : SD}
    (h : (handleIncoming w authz s pkt frm).res = .forwarded pl sd) :
    ∃ id, (handleIncoming w authz s pkt frm).peer = some id ∧ authz id = some sd ∧
      ((∃ t, s.tunnels.get? frm = some t ∧ t.peerStatic = id ∧ (w.recv t.tunn pkt).2 = .writeToTunnel pl) ∨
       (s.tunnels.get? frm = none ∧ w.initClaim pkt = some (.ok id) ∧
          (w.recv (w.new id frm) pkt).2 = .writeToTunnel pl)) := by
  unfold handleIncoming at h ⊢
  cases hv : w.verify pkt with
  | cookie c => simp [hv] at h
  | err e => simp [hv] at h
  | ok =>
    simp only [hv] at h ⊢
    cases ht : s.tunnels.get? frm with
    | some t =>
      simp only [ht] at h ⊢
      cases ha : authz t.peerStatic with
      | none => simp [ha] at h
      | some sd0 =>
        simp only [ha] at h ⊢
        obtain ⟨h1, h2⟩ := incomingPacketResult_forwarded h
        exact ⟨t.peerStatic, rfl, by rw [ha, h2], Or.inl ⟨t, rfl, rfl, drain_writeToTunnel h1⟩⟩
    | none =>
      simp only [ht] at h ⊢
      cases hc : w.initClaim pkt with
      | none => simp [hc] at h
      | some c =>
        cases c with
        | error e => simp [hc] at h
        | ok peer =>
          simp only [hc] at h ⊢
          cases ha : authz peer with
          | none => simp [ha] at h
          | some sd0 =>
            simp only [ha] at h ⊢
            obtain ⟨h1, h2⟩ := acceptNew_forwarded h
            refine ⟨peer, acceptNew_peer _ _ _ _ _ _ _, by rw [ha, h2], Or.inr ⟨?_, ?_, drain_writeToTunnel h1⟩⟩ <;>
              first | rfl | trivial

/-- network output of a tunnel (not a rate-limiter cookie) is produced only after the authorisation check -/
theorem handleIncoming_net {w : Wg σ Pkt Net} {authz : Id → Option SD} {s : Server σ} {pkt : Pkt}
    {frm : Addr} {id : Id}
    (hp : (handleIncoming w authz s pkt frm).peer = some id)
    (hn : (handleIncoming w authz s pkt frm).net ≠ []) : (authz id).isSome := by
  unfold handleIncoming at hp hn
  cases hv : w.verify pkt with
  | cookie c => simp [hv] at hp
  | err e => simp [hv] at hp
  | ok =>
    simp only [hv] at hp hn
    cases ht : s.tunnels.get? frm with
    | some t =>
      simp only [ht] at hp hn
      cases ha : authz t.peerStatic with
      | none => simp [ha] at hn
      | some sd0 =>
        simp only [ha] at hp
        cases hp; simp [ha]
    | none =>
      simp only [ht] at hp hn
      cases hc : w.initClaim pkt with
      | none => simp [hc] at hp
      | some c =>
        cases c with
        | error e => simp [hc] at hp
        | ok peer =>
          simp only [hc] at hp hn
          cases ha : authz peer with
          | none => simp [ha] at hn
          | some sd0 =>
            simp only [ha, acceptNew_peer, Option.some.injEq] at hp
            subst hp; simp [ha]

/-- Everything that can make `handle_outgoing_packet_with_session` return `Some`. -/
theorem handleOutgoing_some {w : Wg σ Pkt Net} {authz : Id → Option SD} {s : Server σ} {payload : Payload}
    {to : Addr} {n : Option Net} {sd : SD}
    (h : (handleOutgoing w authz s payload to).res = some (n, sd)) :
    ∃ t, s.tunnels.get? to = some t ∧ (handleOutgoing w authz s payload to).peer = some t.peerStatic ∧
      authz t.peerStatic = some sd ∧ n = (w.send t.tunn payload).2 := by
  unfold handleOutgoing at h ⊢
  cases ht : s.tunnels.get? to with
  | none => simp [ht] at h
  | some t =>
    simp only [ht] at h ⊢
    cases ha : authz t.peerStatic with
    | none => simp [ha] at h
    | some sd0 =>
      simp only [ha, Option.some.injEq, Prod.mk.injEq] at h ⊢
      exact ⟨t, rfl, rfl, by rw [ha, h.2], h.1.symm⟩

/-! ## tunnel ownership invariant (needs the WireGuard hypothesis) -/

def Server.Owned {w : Wg σ Pkt Net} (hs : w.Sound) (s : Server σ) : Prop :=
  ∀ a t, (a, t) ∈ s.tunnels → hs.owns t.tunn t.peerStatic

theorem AMap.mem_insert {α : Type} {m : AMap α} {k k' : Nat} {v v' : α}
    (h : (k', v') ∈ AMap.insert m k v) : (k', v') = (k, v) ∨ (k', v') ∈ m := by
  simp only [AMap.insert, AMap.erase, List.mem_cons, List.mem_filter] at h
  rcases h with h | h
  · exact Or.inl h
  · exact Or.inr h.1

theorem handleIncoming_owned {w : Wg σ Pkt Net} (hs : w.Sound) (authz : Id → Option SD) {s : Server σ}
    (ho : s.Owned hs) (pkt : Pkt) (frm : Addr) : (handleIncoming w authz s pkt frm).srv.Owned hs := by
  unfold handleIncoming
  cases hv : w.verify pkt with
  | cookie c => exact ho
  | err e => exact ho
  | ok =>
    simp only
    cases ht : s.tunnels.get? frm with
    | some t =>
      simp only
      cases ha : authz t.peerStatic with
      | none => exact ho
      | some sd0 =>
        intro a t' hm
        rcases AMap.mem_insert hm with e | e
        · cases e
          simp only [drain_fst]
          exact hs.queued _ _ (hs.recv _ _ _ (ho frm t (AMap.mem_of_get? ht)))
        · exact ho a t' e
    | none =>
      simp only
      cases hc : w.initClaim pkt with
      | none => exact ho
      | some c =>
        cases c with
        | error e => exact ho
        | ok peer =>
          simp only
          cases ha : authz peer with
          | none => exact ho
          | some sd0 =>
            simp only
            rcases acceptNew_srv s frm peer (drain w (w.new peer frm) pkt).1 (drain w (w.new peer frm) pkt).2.1
              (drain w (w.new peer frm) pkt).2.2 sd0 with e | ⟨_, e⟩
            · rw [e]; exact ho
            · rw [e]
              intro a t' hm
              rcases AMap.mem_insert hm with e | e
              · cases e
                simp only [drain_fst]
                exact hs.queued _ _ (hs.recv _ _ _ (hs.new peer frm))
              · exact ho a t' e

theorem handleOutgoing_owned {w : Wg σ Pkt Net} (hs : w.Sound) (authz : Id → Option SD) {s : Server σ}
    (ho : s.Owned hs) (payload : Payload) (to : Addr) : (handleOutgoing w authz s payload to).srv.Owned hs := by
  unfold handleOutgoing
  cases ht : s.tunnels.get? to with
  | none => exact ho
  | some t =>
    simp only
    cases ha : authz t.peerStatic with
    | none => exact ho
    | some sd0 =>
      intro a t' hm
      rcases AMap.mem_insert hm with e | e
      · cases e
        exact hs.send _ _ _ (ho to t (AMap.mem_of_get? ht))
      · exact ho a t' e

theorem updateTimers_mem {w : Wg σ Pkt Net} (l : AMap (Tunnel σ)) (a : Nat) (t' : Tunnel σ)
    (h : (a, t') ∈ (l.foldr (fun (kt : Nat × Tunnel σ) (acc : AMap (Tunnel σ) × List (Addr × Net)) =>
      let (tunn', o) := w.tick kt.2.tunn
      let res := match o with
        | some n => (kt.1, n) :: acc.2
        | none => acc.2
      if w.expired tunn' then (acc.1, res) else ((kt.1, { kt.2 with tunn := tunn' }) :: acc.1, res))
      ([], [])).1) :
    ∃ t, (a, t) ∈ l ∧ t'.peerStatic = t.peerStatic ∧ t'.tunn = (w.tick t.tunn).1 := by
  induction l with
  | nil => simp at h
  | cons x l ih =>
    simp only [List.foldr_cons] at h
    split at h
    · obtain ⟨t, hm, hp⟩ := ih h
      exact ⟨t, List.mem_cons_of_mem _ hm, hp⟩
    · rcases List.mem_cons.mp h with e | e
      · cases e
        exact ⟨x.2, by simp, rfl, rfl⟩
      · obtain ⟨t, hm, hp⟩ := ih e
        exact ⟨t, List.mem_cons_of_mem _ hm, hp⟩

theorem updateTimers_owned {w : Wg σ Pkt Net} (hs : w.Sound) {s : Server σ} (ho : s.Owned hs) :
    (updateTimers w s).1.Owned hs := by
  intro a t' hm
  obtain ⟨t, hmem, hp, ht⟩ := updateTimers_mem (w := w) s.tunnels a t' hm
  rw [hp, ht]
  exact hs.tick _ _ (ho a t hmem)

theorem step_owned {w : Wg σ Pkt Net} (hs : w.Sound) {s : Sys σ} (ho : s.srv.Owned hs) (op : Op Pkt) :
    (step w s op).1.srv.Owned hs := by
  cases op with
  | register k i l => exact ho
  | advance d => exact ho
  | purge => exact ho
  | incoming frm pkt => exact handleIncoming_owned hs _ ho pkt frm
  | outgoing to pl => exact handleOutgoing_owned hs _ ho pl to
  | tick => exact updateTimers_owned hs ho

theorem run_owned {w : Wg σ Pkt Net} (hs : w.Sound) {s : Sys σ} (ho : s.srv.Owned hs) (ops : List (Op Pkt)) :
    (run w s ops).srv.Owned hs := by
  induction ops generalizing s with
  | nil => exact ho
  | cons op ops ih => exact ih (step_owned hs ho op)

theorem step_reg_inv {w : Wg σ Pkt Net} {s : Sys σ} (h : s.reg.Inv) (op : Op Pkt) :
    (step w s op).1.reg.Inv := by
  cases op with
  | register k i l => exact Registry.addIdentity_inv h k i _
  | advance d => exact h
  | purge => exact Registry.cleanExpired_inv h _
  | incoming frm pkt => exact h
  | outgoing to pl => exact h
  | tick => exact h

theorem run_reg_inv {w : Wg σ Pkt Net} {s : Sys σ} (h : s.reg.Inv) (ops : List (Op Pkt)) :
    (run w s ops).reg.Inv := by
  induction ops generalizing s with
  | nil => exact h
  | cons op ops ih => exact ih (step_reg_inv h op)

theorem run_append (w : Wg σ Pkt Net) (s : Sys σ) (a b : List (Op Pkt)) :
    run w s (a ++ b) = run w (run w s a) b := by
  simp [run, List.foldl_append]

/-- one step keeps an identity unauthorised unless the step registers that identity -/
theorem step_unauth {w : Wg σ Pkt Net} {s : Sys σ} {id : Id}
    (h : s.reg.isAuthorized s.now id = none) (op : Op Pkt)
    (hop : ∀ k l, op ≠ .register k id l) :
    (step w s op).1.reg.isAuthorized (step w s op).1.now id = none := by
  cases op with
  | register k i l =>
    have : i ≠ id := fun e => hop k l (by rw [e])
    exact Registry.unauth_register_other h k i l this
  | advance d => exact Registry.unauth_advance h d
  | purge => exact Registry.unauth_cleanExpired h _
  | incoming frm pkt => exact h
  | outgoing to pl => exact h
  | tick => exact h

/-- whatever flows in one step flows for an identity that the registry authorises at that instant -/
theorem step_flow {w : Wg σ Pkt Net} {s : Sys σ} {op : Op Pkt} {peer : Option Id}
    (h : (step w s op).2.flow = some peer) :
    ∃ id, peer = some id ∧ s.reg.isAuthorized s.now id = some () := by
  cases op with
  | register k i l => simp [step, Out.flow] at h
  | advance d => simp [step, Out.flow] at h
  | purge => simp [step, Out.flow] at h
  | tick => simp [step, Out.flow] at h
  | incoming frm pkt =>
    simp only [step] at h
    cases hr : (handleIncoming w (s.reg.isAuthorized s.now) s.srv pkt frm).res with
    | result r => simp [Out.flow, hr] at h
    | forwarded pl sd =>
      obtain ⟨id, hp, ha, _⟩ := handleIncoming_forwarded hr
      simp only [Out.flow, hr, Option.some.injEq] at h
      exact ⟨id, by rw [← h, hp], ha⟩
  | outgoing to pl =>
    simp only [step] at h
    cases hr : (handleOutgoing w (s.reg.isAuthorized s.now) s.srv pl to).res with
    | none => simp [Out.flow, hr] at h
    | some x =>
      obtain ⟨n, sd⟩ := x
      obtain ⟨t, _, hp, ha, _⟩ := handleOutgoing_some hr
      simp only [Out.flow, hr, Option.some.injEq] at h
      exact ⟨t.peerStatic, by rw [← h, hp], ha⟩

end

/-! ## the tunnel table: one entry per remote address, and an entry never changes its peer static identity -/

theorem AMap.insert_keys_nodup {α : Type} {m : AMap α} (h : (AMap.keys m).Nodup) (k : Nat) (v : α) :
    (AMap.keys (AMap.insert m k v)).Nodup := by
  simp only [AMap.insert, AMap.keys, List.map_cons, List.nodup_cons]
  refine ⟨?_, AMap.keys_filter_nodup _ h⟩
  intro hm
  obtain ⟨v', _, hf⟩ := (AMap.mem_keys_filter _ _ k).mp hm
  simp at hf

section
variable {σ Pkt Net SD : Type}

theorem updateTimers_keys_sublist (w : Wg σ Pkt Net) (l : AMap (Tunnel σ)) :
    List.Sublist (AMap.keys (l.foldr (fun (kt : Nat × Tunnel σ) (acc : AMap (Tunnel σ) × List (Addr × Net)) =>
      let (tunn', o) := w.tick kt.2.tunn
      let res := match o with
        | some n => (kt.1, n) :: acc.2
        | none => acc.2
      if w.expired tunn' then (acc.1, res) else ((kt.1, { kt.2 with tunn := tunn' }) :: acc.1, res))
      ([], [])).1) (AMap.keys l) := by
  induction l with
  | nil => simp [AMap.keys]
  | cons x l ih =>
    simp only [List.foldr_cons, AMap.keys, List.map_cons]
    split
    · exact List.Sublist.cons _ ih
    · simp only [List.map_cons]
      exact List.Sublist.cons_cons _ ih

theorem handleIncoming_keys_nodup (w : Wg σ Pkt Net) (authz : Id → Option SD) {s : Server σ}
    (h : (AMap.keys s.tunnels).Nodup) (pkt : Pkt) (frm : Addr) :
    (AMap.keys (handleIncoming w authz s pkt frm).srv.tunnels).Nodup := by
  unfold handleIncoming
  cases w.verify pkt with
  | cookie c => exact h
  | err e => exact h
  | ok =>
    simp only
    cases s.tunnels.get? frm with
    | some t =>
      simp only
      cases authz t.peerStatic with
      | none => exact h
      | some sd0 => exact AMap.insert_keys_nodup h _ _
    | none =>
      simp only
      cases w.initClaim pkt with
      | none => exact h
      | some c =>
        cases c with
        | error e => exact h
        | ok peer =>
          simp only
          cases authz peer with
          | none => exact h
          | some sd0 =>
            simp only
            rcases acceptNew_srv s frm peer (drain w (w.new peer frm) pkt).1 (drain w (w.new peer frm) pkt).2.1
              (drain w (w.new peer frm) pkt).2.2 sd0 with e | ⟨_, e⟩
            · rw [e]; exact h
            · rw [e]; exact AMap.insert_keys_nodup h _ _

theorem handleOutgoing_keys_nodup (w : Wg σ Pkt Net) (authz : Id → Option SD) {s : Server σ}
    (h : (AMap.keys s.tunnels).Nodup) (pl : Payload) (to : Addr) :
    (AMap.keys (handleOutgoing w authz s pl to).srv.tunnels).Nodup := by
  unfold handleOutgoing
  cases s.tunnels.get? to with
  | none => exact h
  | some t =>
    simp only
    cases authz t.peerStatic with
    | none => exact h
    | some sd0 => exact AMap.insert_keys_nodup h _ _

theorem step_tunnels_nodup {w : Wg σ Pkt Net} {s : Sys σ} (h : (AMap.keys s.srv.tunnels).Nodup) (op : Op Pkt) :
    (AMap.keys (step w s op).1.srv.tunnels).Nodup := by
  cases op with
  | register k i l => exact h
  | advance d => exact h
  | purge => exact h
  | incoming frm pkt => exact handleIncoming_keys_nodup w _ h pkt frm
  | outgoing to pl => exact handleOutgoing_keys_nodup w _ h pl to
  | tick => exact List.Nodup.sublist (updateTimers_keys_sublist w s.srv.tunnels) h

theorem run_tunnels_nodup {w : Wg σ Pkt Net} {s : Sys σ} (h : (AMap.keys s.srv.tunnels).Nodup)
    (ops : List (Op Pkt)) : (AMap.keys (run w s ops).srv.tunnels).Nodup := by
  induction ops generalizing s with
  | nil => exact h
  | cons op ops ih => exact ih (step_tunnels_nodup h op)

theorem handleIncoming_peer_stable (w : Wg σ Pkt Net) (authz : Id → Option SD) (s : Server σ) (pkt : Pkt)
    (frm a : Addr) (t t' : Tunnel σ) (h : s.tunnels.get? a = some t)
    (h' : (handleIncoming w authz s pkt frm).srv.tunnels.get? a = some t') : t'.peerStatic = t.peerStatic := by
  unfold handleIncoming at h'
  cases hv : w.verify pkt with
  | cookie c => simp only [hv] at h'; rw [h] at h'; cases h'; rfl
  | err e => simp only [hv] at h'; rw [h] at h'; cases h'; rfl
  | ok =>
    simp only [hv] at h'
    cases ht : s.tunnels.get? frm with
    | some t0 =>
      simp only [ht] at h'
      cases ha : authz t0.peerStatic with
      | none => simp only [ha] at h'; rw [h] at h'; cases h'; rfl
      | some sd0 =>
        simp only [ha, AMap.get?_insert] at h'
        by_cases hfa : frm = a
        · subst hfa
          simp only [if_true, Option.some.injEq] at h'
          rw [ht] at h; cases h; rw [← h']
        · simp only [hfa, if_false] at h'
          rw [h] at h'; cases h'; rfl
    | none =>
      simp only [ht] at h'
      cases hc : w.initClaim pkt with
      | none => simp only [hc] at h'; rw [h] at h'; cases h'; rfl
      | some c =>
        cases c with
        | error e => simp only [hc] at h'; rw [h] at h'; cases h'; rfl
        | ok peer =>
          simp only [hc] at h'
          cases ha : authz peer with
          | none => simp only [ha] at h'; rw [h] at h'; cases h'; rfl
          | some sd0 =>
            simp only [ha] at h'
            rcases acceptNew_srv s frm peer (drain w (w.new peer frm) pkt).1 (drain w (w.new peer frm) pkt).2.1
              (drain w (w.new peer frm) pkt).2.2 sd0 with e | ⟨_, e⟩
            · rw [e, h] at h'; cases h'; rfl
            · rw [e] at h'
              simp only [AMap.get?_insert] at h'
              by_cases hfa : frm = a
              · subst hfa; rw [ht] at h; cases h
              · simp only [hfa, if_false] at h'
                rw [h] at h'; cases h'; rfl

theorem handleOutgoing_peer_stable (w : Wg σ Pkt Net) (authz : Id → Option SD) (s : Server σ) (pl : Payload)
    (to a : Addr) (t t' : Tunnel σ) (h : s.tunnels.get? a = some t)
    (h' : (handleOutgoing w authz s pl to).srv.tunnels.get? a = some t') : t'.peerStatic = t.peerStatic := by
  unfold handleOutgoing at h'
  cases ht : s.tunnels.get? to with
  | none => simp only [ht] at h'; rw [h] at h'; cases h'; rfl
  | some t0 =>
    simp only [ht] at h'
    cases ha : authz t0.peerStatic with
    | none => simp only [ha] at h'; rw [h] at h'; cases h'; rfl
    | some sd0 =>
      simp only [ha, AMap.get?_insert] at h'
      by_cases hfa : to = a
      · subst hfa
        simp only [if_true, Option.some.injEq] at h'
        rw [ht] at h; cases h; rw [← h']
      · simp only [hfa, if_false] at h'
        rw [h] at h'; cases h'; rfl

theorem step_peer_stable {w : Wg σ Pkt Net} {s : Sys σ} (hn : (AMap.keys s.srv.tunnels).Nodup) (op : Op Pkt)
    (a : Addr) (t t' : Tunnel σ) (h : s.srv.tunnels.get? a = some t)
    (h' : (step w s op).1.srv.tunnels.get? a = some t') : t'.peerStatic = t.peerStatic := by
  cases op with
  | register k i l => simp only [step] at h'; rw [h] at h'; cases h'; rfl
  | advance d => simp only [step] at h'; rw [h] at h'; cases h'; rfl
  | purge => simp only [step] at h'; rw [h] at h'; cases h'; rfl
  | incoming frm pkt => exact handleIncoming_peer_stable w _ s.srv pkt frm a t t' h h'
  | outgoing to pl => exact handleOutgoing_peer_stable w _ s.srv pl to a t t' h h'
  | tick =>
    simp only [step, updateTimers] at h'
    obtain ⟨t0, hm, hp, _⟩ := updateTimers_mem (w := w) s.srv.tunnels a t' (AMap.mem_of_get? h')
    have := AMap.get?_of_mem hn hm
    rw [h] at this; cases this
    exact hp

end

/-! ## where tunnel entries come from -/

section
variable {σ Pkt Net SD : Type}

theorem drain_not_err {w : Wg σ Pkt Net} {t : σ} {p : Pkt} (h : ∀ e, (drain w t p).2.2 ≠ .err e) :
    ∀ e, (w.recv t p).2 ≠ .err e := by
  intro e he
  apply h e
  simp [drain, he]

/-- a new entry in the tunnel table comes from a datagram, sent from that address, that the fresh tunnel accepted -/
theorem handleIncoming_creates {w : Wg σ Pkt Net} (hs : w.Sound) (authz : Id → Option SD) (s : Server σ) (pkt : Pkt)
    (frm a : Addr) (t' : Tunnel σ) (h : s.tunnels.get? a = none)
    (h' : (handleIncoming w authz s pkt frm).srv.tunnels.get? a = some t') :
    a = frm ∧ w.signer pkt = some t'.peerStatic := by
  unfold handleIncoming at h'
  cases hv : w.verify pkt with
  | cookie c => simp only [hv] at h'; rw [h] at h'; cases h'
  | err e => simp only [hv] at h'; rw [h] at h'; cases h'
  | ok =>
    simp only [hv] at h'
    cases ht : s.tunnels.get? frm with
    | some t0 =>
      simp only [ht] at h'
      cases ha : authz t0.peerStatic with
      | none => simp only [ha] at h'; rw [h] at h'; cases h'
      | some sd0 =>
        simp only [ha, AMap.get?_insert] at h'
        by_cases hfa : frm = a
        · subst hfa; rw [ht] at h; cases h
        · simp only [hfa, if_false] at h'; rw [h] at h'; cases h'
    | none =>
      simp only [ht] at h'
      cases hc : w.initClaim pkt with
      | none => simp only [hc] at h'; rw [h] at h'; cases h'
      | some c =>
        cases c with
        | error e => simp only [hc] at h'; rw [h] at h'; cases h'
        | ok peer =>
          simp only [hc] at h'
          cases ha : authz peer with
          | none => simp only [ha] at h'; rw [h] at h'; cases h'
          | some sd0 =>
            simp only [ha] at h'
            rcases acceptNew_srv s frm peer (drain w (w.new peer frm) pkt).1 (drain w (w.new peer frm) pkt).2.1
              (drain w (w.new peer frm) pkt).2.2 sd0 with e | ⟨hne, e⟩
            · rw [e, h] at h'; cases h'
            · rw [e] at h'
              simp only [AMap.get?_insert] at h'
              by_cases hfa : frm = a
              · simp only [hfa, if_true, Option.some.injEq] at h'
                subst h'
                exact ⟨hfa.symm, hs.accept peer frm pkt (drain_not_err hne)⟩
              · simp only [hfa, if_false] at h'; rw [h] at h'; cases h'

theorem handleOutgoing_creates_not (w : Wg σ Pkt Net) (authz : Id → Option SD) (s : Server σ) (pl : Payload)
    (to a : Addr) (h : s.tunnels.get? a = none) : (handleOutgoing w authz s pl to).srv.tunnels.get? a = none := by
  unfold handleOutgoing
  cases ht : s.tunnels.get? to with
  | none => exact h
  | some t0 =>
    simp only
    cases ha : authz t0.peerStatic with
    | none => exact h
    | some sd0 =>
      simp only [AMap.get?_insert]
      by_cases hfa : to = a
      · subst hfa; rw [ht] at h; cases h
      · simp only [hfa, if_false]; exact h

theorem step_creates {w : Wg σ Pkt Net} (hs : w.Sound) {s : Sys σ} (op : Op Pkt) (a : Addr) (t' : Tunnel σ)
    (h : s.srv.tunnels.get? a = none) (h' : (step w s op).1.srv.tunnels.get? a = some t') :
    ∃ pkt, op = .incoming a pkt ∧ w.signer pkt = some t'.peerStatic := by
  cases op with
  | register k i l => simp only [step] at h'; rw [h] at h'; cases h'
  | advance d => simp only [step] at h'; rw [h] at h'; cases h'
  | purge => simp only [step] at h'; rw [h] at h'; cases h'
  | incoming frm pkt =>
    obtain ⟨e, hsg⟩ := handleIncoming_creates hs _ s.srv pkt frm a t' h h'
    subst e
    exact ⟨pkt, rfl, hsg⟩
  | outgoing to pl =>
    simp only [step] at h'
    rw [handleOutgoing_creates_not w _ s.srv pl to a h] at h'; cases h'
  | tick =>
    simp only [step, updateTimers] at h'
    obtain ⟨t0, hm, _, _⟩ := updateTimers_mem (w := w) s.srv.tunnels a t' (AMap.mem_of_get? h')
    have := (AMap.get?_eq_none_iff s.srv.tunnels a).mp h
    exact absurd (AMap.mem_keys_of_mem hm) this

/-- every tunnel entry either stems from the start state (`Q`) or was created, at its address, by a datagram in the
history that was authenticated by the entry's peer static key -/
theorem run_tunnel_origin {w : Wg σ Pkt Net} (hs : w.Sound) (ops : List (Op Pkt)) :
    ∀ (Q : Addr → Id → Prop) (s : Sys σ), (AMap.keys s.srv.tunnels).Nodup →
      (∀ a t, s.srv.tunnels.get? a = some t → Q a t.peerStatic) →
      ∀ a t, (run w s ops).srv.tunnels.get? a = some t →
        Q a t.peerStatic ∨
          ∃ pre pkt post, ops = pre ++ .incoming a pkt :: post ∧ w.signer pkt = some t.peerStatic := by
  induction ops with
  | nil => intro Q s _ hq a t h; exact Or.inl (hq a t h)
  | cons op ops ih =>
    intro Q s hn hq a t h
    have hstep : ∀ a t, (step w s op).1.srv.tunnels.get? a = some t →
        (Q a t.peerStatic ∨ ∃ pkt, op = .incoming a pkt ∧ w.signer pkt = some t.peerStatic) := by
      intro a t h1
      cases h0 : s.srv.tunnels.get? a with
      | some t0 =>
        left
        rw [step_peer_stable hn op a t0 t h0 h1]
        exact hq a t0 h0
      | none => exact Or.inr (step_creates hs op a t h0 h1)
    have := ih (fun a p => Q a p ∨ ∃ pkt, op = .incoming a pkt ∧ w.signer pkt = some p)
      (step w s op).1 (step_tunnels_nodup hn op) hstep a t h
    rcases this with (hq' | ⟨pkt, hop, hsg⟩) | ⟨pre, pkt, post, hsplit, hsg⟩
    · exact Or.inl hq'
    · exact Or.inr ⟨[], pkt, ops, by rw [hop]; rfl, hsg⟩
    · exact Or.inr ⟨op :: pre, pkt, post, by rw [hsplit]; rfl, hsg⟩

end

/-! ## the executable WireGuard stand-in of the driver satisfies the WireGuard hypothesis -/

namespace GoWg

theorem setSlot_peer (t : Tunn) (i : Nat) (s : Session) : (setSlot t i s).peer = t.peer := rfl

theorem recv_peer (t : Tunn) (p : Pkt) : (recv t p).1.peer = t.peer := by
  cases p with
  | init signer claimed ts hs =>
    simp only [recv]
    split
    · rfl
    · split
      · rfl
      · split
        · rfl
        · rfl
  | data signer hs src ridx ctr payload =>
    simp only [recv]
    split
    · rfl
    · split
      · rfl
      · split
        · rfl
        · split
          · rfl
          · rfl
  | other => rfl
  | junk => rfl

theorem send_peer (t : Tunn) (pl : Payload) : (send t pl).1.peer = t.peer := by
  simp only [send]
  split
  · rfl
  · split
    · split <;> rfl
    · split <;> rfl

theorem queuedLoop_peer (fuel : Nat) (t : Tunn) (acc : List Net) :
    (queuedLoop fuel t acc).1.peer = t.peer := by
  induction fuel generalizing t acc with
  | zero => rfl
  | succ n ih =>
    simp only [queuedLoop]
    split
    · rfl
    · rename_i p rest _
      have hs := send_peer { t with queue := rest } p
      split
      · rename_i t' nn he
        rw [ih]
        rw [he] at hs
        exact hs
      · rename_i t' he
        rw [he] at hs
        exact hs

theorem recv_decrypt (t : Tunn) (p : Pkt) (pl : Payload) (h : (recv t p).2 = .writeToTunnel pl) :
    wg.signer p = some t.peer := by
  cases p with
  | init signer claimed ts hs =>
    simp only [recv] at h
    split at h
    · cases h
    · split at h
      · cases h
      · split at h
        · cases h
        · cases h
  | data signer hs src ridx ctr payload =>
    simp only [recv] at h
    split at h
    · cases h
    · split at h
      · cases h
      · split at h
        · cases h
        · split at h
          · cases h
          · rename_i hc
            simp only [not_or, Decidable.not_not] at hc
            exact hc.2.2
  | other => cases h
  | junk => cases h

/-- `GoWg.wg` is a WireGuard machine in the sense of the hypothesis of `attribution`. -/
def sound : wg.Sound where
  owns t id := t.peer = id
  new _ _ := rfl
  recv t id p h := by show (recv t p).1.peer = id; rw [recv_peer]; exact h
  queued t id h := by show (queuedLoop _ t []).1.peer = id; rw [queuedLoop_peer]; exact h
  send t id pl h := by show (send t pl).1.peer = id; rw [send_peer]; exact h
  tick _ _ h := h
  decrypt t id p pl h hr := by rw [← h]; exact recv_decrypt t p pl hr
  accept id a p h := by
    cases p with
    | init signer claimed ts hs =>
      have h' := h
      simp only [wg, recv] at h'
      by_cases h1 : claimed ≠ id
      · simp [h1] at h'
      · by_cases h2 : signer ≠ some claimed
        · simp [h1, h2] at h'
        · simp only [Decidable.not_not] at h1 h2
          simp only [wg]; rw [h2, h1]
    | data signer hs src ridx ctr payload =>
      exfalso
      apply h (.tunn eNoCurrentSession)
      have hs : slot { peer := id, addr := a } ridx = none := by
        simp only [slot, N_SESSIONS]
        have hlt : ridx % 8 < 8 := Nat.mod_lt _ (by decide)
        generalize ridx % 8 = k at hlt
        have : k = 0 ∨ k = 1 ∨ k = 2 ∨ k = 3 ∨ k = 4 ∨ k = 5 ∨ k = 6 ∨ k = 7 := by omega
        rcases this with h | h | h | h | h | h | h | h <;> subst h <;> rfl
      simp only [wg, recv, hs]
    | other => exact absurd rfl (h _)
    | junk => exact absurd rfl (h _)

end GoWg

end ScionVerif.SnapTun
