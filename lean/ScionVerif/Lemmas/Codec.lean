import ScionVerif.Model.Layout
import ScionVerif.Lemmas.Bits
/-!
# Lemmas about the size computations of Model/Layout.lean (C02) 

* `Header.layout_ok_iff` – `ScionHeaderLayout::try_from_slice` succeeds with layout `l` **iff** `HdrSpec buf l`
  (a declarative description: version 0, the size fields read from the first 12 bytes / the path meta
  header, header length = sum of the parts = advertised length ≤ buffer length);
* `HdrSpec.take` – the description only depends on the first `headerLen` bytes;
* per-view `…_le`, `…_no_panic`, `…_take` lemmas used by Theorems/C02.lean.
-/
namespace ScionVerif.Layout
open ScionVerif ScionVerif.Generated.Layout ScionVerif.Generated.AddrType

theorem rd_ok (sl : Bytes) (r : BitRange) (h : r.byteHi ≤ sl.length) : rd sl r = .ok (readBits sl r) := by
  simp [rd, readChk, BitRange.inBuf, h]

/-- the common-header fields the size computation reads -/
structure CommonFields where
  ver : Nat
  pt : Nat
  st : Nat
  dt : Nat
  hl : Nat
  pl : Nat

def commonFields (buf : Bytes) : CommonFields :=
  let cb := buf.take CommonHeader.SIZE_BYTES
  ⟨readBits cb CommonHeader.VERSION_RNG, readBits cb CommonHeader.PATH_TYPE_RNG,
   readBits cb CommonHeader.SRC_ADDR_INFO_RNG, readBits cb CommonHeader.DST_ADDR_INFO_RNG,
   readBits cb CommonHeader.HEADER_LEN_RNG, readBits cb CommonHeader.PAYLOAD_LEN_RNG⟩

theorem Header.layout_eq (buf : Bytes) (h : CommonHeader.SIZE_BYTES ≤ buf.length) :
    Header.layout buf =
      let f := commonFields buf
      if f.ver ≠ 0 then .error (.other "UnsupportedVersion") else
      if buf.length < CommonHeader.SIZE_BYTES + addrHdrSize (addrSize f.st) (addrSize f.dt) then
        .error (.tooSmall "AddressHeader" (CommonHeader.SIZE_BYTES + addrHdrSize (addrSize f.st) (addrSize f.dt)) buf.length)
      else Header.pathPart buf (addrSize f.st) (addrSize f.dt) f.pt f.pl (f.hl * 4) := by
  have hl : (buf.take CommonHeader.SIZE_BYTES).length = CommonHeader.SIZE_BYTES := by simp; omega
  unfold Header.layout
  have hn : ¬ buf.length < CommonHeader.SIZE_BYTES := by omega
  simp only [hn, if_false]
  rw [rd_ok _ _ (by rw [hl]; decide), rd_ok _ _ (by rw [hl]; decide), rd_ok _ _ (by rw [hl]; decide),
      rd_ok _ _ (by rw [hl]; decide), rd_ok _ _ (by rw [hl]; decide), rd_ok _ _ (by rw [hl]; decide)]
  rfl

def segFields (buf : Bytes) (off : Nat) : Nat × Nat × Nat :=
  let mb := (buf.drop off).take StdPathMeta.SIZE_BYTES
  (readBits mb StdPathMeta.SEG0_LEN_RNG, readBits mb StdPathMeta.SEG1_LEN_RNG, readBits mb StdPathMeta.SEG2_LEN_RNG)

theorem Header.pathPart_scion (buf : Bytes) (srcLen dstLen pt pl total : Nat) (hk : pathKind pt = .scion)
    (h : CommonHeader.SIZE_BYTES + addrHdrSize srcLen dstLen + StdPathMeta.SIZE_BYTES ≤ buf.length) :
    Header.pathPart buf srcLen dstLen pt pl total =
      let s := segFields buf (CommonHeader.SIZE_BYTES + addrHdrSize srcLen dstLen)
      Header.finish buf.length srcLen dstLen pt pl total s (StdPathMeta.SIZE_BYTES + stdDataSize s.1 s.2.1 s.2.2) := by
  unfold Header.pathPart
  simp only [hk]
  have hn : ¬ (buf.drop (CommonHeader.SIZE_BYTES + addrHdrSize srcLen dstLen)).length < StdPathMeta.SIZE_BYTES := by
    simp; omega
  simp only [hn, if_false]
  have hl : ((buf.drop (CommonHeader.SIZE_BYTES + addrHdrSize srcLen dstLen)).take StdPathMeta.SIZE_BYTES).length
      = StdPathMeta.SIZE_BYTES := by simp; omega
  rw [rd_ok _ _ (by rw [hl]; decide), rd_ok _ _ (by rw [hl]; decide), rd_ok _ _ (by rw [hl]; decide)]
  rfl


theorem Header.finish_ok_iff (len srcLen dstLen pt pl total : Nat) (segs : Nat × Nat × Nat) (ps : Nat) (l : HdrLayout) :
    Header.finish len srcLen dstLen pt pl total segs ps = .ok l ↔
      (CommonHeader.SIZE_BYTES + addrHdrSize srcLen dstLen + ps ≤ len ∧
       CommonHeader.SIZE_BYTES + addrHdrSize srcLen dstLen + ps = total ∧
       l = ⟨srcLen, dstLen, pt, segs, ps, total, pl⟩) := by
  unfold Header.finish
  simp only []
  constructor
  · intro h
    split at h
    · contradiction
    · split at h
      · contradiction
      · injection h with h
        exact ⟨by omega, by omega, h.symm⟩
  · rintro ⟨h1, h2, h3⟩
    have a : ¬ CommonHeader.SIZE_BYTES + addrHdrSize srcLen dstLen + ps > len := by omega
    have b : ¬ CommonHeader.SIZE_BYTES + addrHdrSize srcLen dstLen + ps ≠ total := by omega
    simp only [a, b, if_false, h3]

/-- what `ScionHeaderLayout::try_from_slice` establishes about the path -/
def PathSpec (buf : Bytes) (l : HdrLayout) : Prop :=
  match pathKind l.pathType with
  | .scion => l.pathOff + StdPathMeta.SIZE_BYTES ≤ buf.length ∧ l.segs = segFields buf l.pathOff ∧
      l.pathSize = StdPathMeta.SIZE_BYTES + stdDataSize l.segs.1 l.segs.2.1 l.segs.2.2
  | .oneHop => l.segs = (0, 0, 0) ∧ l.pathSize = OneHopPath.SIZE_BYTES
  | .empty => l.segs = (0, 0, 0) ∧ l.pathSize = 0
  | .other _ => l.segs = (0, 0, 0)

/-- what `ScionHeaderLayout::try_from_slice` establishes (and all it needs) -/
structure HdrSpec (buf : Bytes) (l : HdrLayout) : Prop where
  len12 : CommonHeader.SIZE_BYTES ≤ buf.length
  ver : (commonFields buf).ver = 0
  src : l.srcLen = addrSize (commonFields buf).st
  dst : l.dstLen = addrSize (commonFields buf).dt
  pt : l.pathType = (commonFields buf).pt
  pl : l.payloadLen = (commonFields buf).pl
  hl : l.headerLen = (commonFields buf).hl * 4
  sum : l.headerLen = l.pathOff + l.pathSize
  fits : l.headerLen ≤ buf.length
  path : PathSpec buf l

theorem sizeBytes_mul8 (a b : Nat) (h : a ≤ b) : (BitRange.mk (a * 8) (b * 8)).sizeBytes = b - a := by
  unfold BitRange.sizeBytes BitRange.byteHi BitRange.byteLo; simp; omega

theorem Header.layout_ok_iff (buf : Bytes) (l : HdrLayout) : Header.layout buf = .ok l ↔ HdrSpec buf l := by
  constructor
  · intro h
    have h12 : CommonHeader.SIZE_BYTES ≤ buf.length := by
      unfold Header.layout at h
      by_cases hc : buf.length < CommonHeader.SIZE_BYTES
      · simp [hc] at h
      · omega
    rw [Header.layout_eq buf h12] at h
    simp only [] at h
    split at h
    · contradiction
    rename_i hver
    split at h
    · contradiction
    rename_i haddr
    have hver' : (commonFields buf).ver = 0 := by omega
    unfold Header.pathPart at h
    simp only [] at h
    split at h
    · -- scion
      rename_i hk
      split at h
      · contradiction
      rename_i hrest
      simp only [List.length_drop] at hrest
      have hfit : CommonHeader.SIZE_BYTES + addrHdrSize (addrSize (commonFields buf).st) (addrSize (commonFields buf).dt) + StdPathMeta.SIZE_BYTES ≤ buf.length := by omega
      have hl : ((buf.drop (CommonHeader.SIZE_BYTES + addrHdrSize (addrSize (commonFields buf).st) (addrSize (commonFields buf).dt))).take StdPathMeta.SIZE_BYTES).length
          = StdPathMeta.SIZE_BYTES := by simp; omega
      rw [rd_ok _ _ (by rw [hl]; decide), rd_ok _ _ (by rw [hl]; decide), rd_ok _ _ (by rw [hl]; decide)] at h
      simp only [] at h
      obtain ⟨h1, h2, rfl⟩ := (Header.finish_ok_iff ..).1 h
      refine ⟨h12, hver', rfl, rfl, rfl, rfl, rfl, ?_, ?_, ?_⟩
      · simp only [HdrLayout.pathOff]; omega
      · simp only []; omega
      · unfold PathSpec; simp only [hk, HdrLayout.pathOff]
        exact ⟨hfit, rfl, trivial⟩
    · rename_i hk
      obtain ⟨h1, h2, rfl⟩ := (Header.finish_ok_iff ..).1 h
      refine ⟨h12, hver', rfl, rfl, rfl, rfl, rfl, ?_, ?_, ?_⟩
      · simp only [HdrLayout.pathOff]; omega
      · simp only []; omega
      · unfold PathSpec; simp only [hk]; exact ⟨trivial, trivial⟩
    · rename_i hk
      obtain ⟨h1, h2, rfl⟩ := (Header.finish_ok_iff ..).1 h
      refine ⟨h12, hver', rfl, rfl, rfl, rfl, rfl, ?_, ?_, ?_⟩
      · simp only [HdrLayout.pathOff]; omega
      · simp only []; omega
      · unfold PathSpec; simp only [hk]; exact ⟨trivial, trivial⟩
    · rename_i t hk
      split at h
      · contradiction
      rename_i htot
      obtain ⟨h1, h2, rfl⟩ := (Header.finish_ok_iff ..).1 h
      refine ⟨h12, hver', rfl, rfl, rfl, rfl, rfl, ?_, ?_, ?_⟩
      · simp only [HdrLayout.pathOff]; omega
      · simp only []; omega
      · unfold PathSpec; simp only [hk]
  · intro hs
    rw [Header.layout_eq buf hs.len12]
    simp only []
    have hv := hs.ver
    have a : ¬ (commonFields buf).ver ≠ 0 := by omega
    have hsum := hs.sum
    have hfits := hs.fits
    have hsrc := hs.src
    have hdst := hs.dst
    unfold HdrLayout.pathOff at hsum
    rw [hsrc, hdst] at hsum
    have b : ¬ buf.length < CommonHeader.SIZE_BYTES + addrHdrSize (addrSize (commonFields buf).st) (addrSize (commonFields buf).dt) := by omega
    simp only [a, b, if_false]
    have hp := hs.path
    unfold PathSpec at hp
    have hpt := hs.pt
    have hl := hs.hl
    have hpl := hs.pl
    cases l with
    | mk srcLen dstLen pathType segs pathSize headerLen payloadLen =>
    simp only [] at *
    subst hsrc hdst hpt hpl
    unfold Header.pathPart
    simp only []
    split at hp <;> rename_i hk <;> simp only [hk]
    · obtain ⟨h1, h2, h3⟩ := hp
      unfold HdrLayout.pathOff at h1 h2
      simp only [] at h1 h2 h3
      have hn : ¬ (buf.drop (CommonHeader.SIZE_BYTES + addrHdrSize (addrSize (commonFields buf).st) (addrSize (commonFields buf).dt))).length < StdPathMeta.SIZE_BYTES := by
        simp; omega
      simp only [hn, if_false]
      have hl' : ((buf.drop (CommonHeader.SIZE_BYTES + addrHdrSize (addrSize (commonFields buf).st) (addrSize (commonFields buf).dt))).take StdPathMeta.SIZE_BYTES).length
          = StdPathMeta.SIZE_BYTES := by simp; omega
      rw [rd_ok _ _ (by rw [hl']; decide), rd_ok _ _ (by rw [hl']; decide), rd_ok _ _ (by rw [hl']; decide)]
      simp only []
      rw [Header.finish_ok_iff]
      have e : segs = segFields buf (CommonHeader.SIZE_BYTES + addrHdrSize (addrSize (commonFields buf).st) (addrSize (commonFields buf).dt)) := h2
      unfold segFields at e
      simp only [] at e
      subst e
      simp only [] at h3
      refine ⟨by omega, by omega, ?_⟩
      simp only [h3, hl]
    · obtain ⟨h1, h2⟩ := hp
      rw [Header.finish_ok_iff]
      subst h1 h2
      exact ⟨by omega, by omega, by simp only [hl]⟩
    · obtain ⟨h1, h2⟩ := hp
      rw [Header.finish_ok_iff]
      subst h1 h2
      exact ⟨by omega, by omega, by simp only [hl]⟩
    · subst hp
      have c : ¬ (commonFields buf).hl * 4 < CommonHeader.SIZE_BYTES + addrHdrSize (addrSize (commonFields buf).st) (addrSize (commonFields buf).dt) := by omega
      simp only [c, if_false]
      rw [Header.finish_ok_iff, sizeBytes_mul8 _ _ (by omega)]
      refine ⟨by omega, by omega, ?_⟩
      have : pathSize = (commonFields buf).hl * 4 - (CommonHeader.SIZE_BYTES + addrHdrSize (addrSize (commonFields buf).st) (addrSize (commonFields buf).dt)) := by omega
      simp only [this, hl]


/-! ## locality -/

theorem commonFields_take (buf : Bytes) (m : Nat) (h : CommonHeader.SIZE_BYTES ≤ m) :
    commonFields (buf.take m) = commonFields buf := by
  unfold commonFields
  rw [List.take_take, Nat.min_eq_left h]

theorem segFields_take (buf : Bytes) (off m : Nat) (h : off + StdPathMeta.SIZE_BYTES ≤ m) :
    segFields (buf.take m) off = segFields buf off := by
  unfold segFields
  rw [List.drop_take, List.take_take, Nat.min_eq_left (by omega)]

theorem HdrSpec.take {buf : Bytes} {l : HdrLayout} (hs : HdrSpec buf l) (m : Nat) (hm : l.headerLen ≤ m) :
    HdrSpec (buf.take m) l := by
  have h12 : CommonHeader.SIZE_BYTES ≤ l.headerLen := by
    have := hs.sum; unfold HdrLayout.pathOff at this; omega
  have hcf := commonFields_take buf m (by omega)
  refine ⟨by simp; have := hs.len12; omega, by rw [hcf]; exact hs.ver, by rw [hcf]; exact hs.src,
    by rw [hcf]; exact hs.dst, by rw [hcf]; exact hs.pt, by rw [hcf]; exact hs.pl, by rw [hcf]; exact hs.hl,
    hs.sum, by simp; have := hs.fits; omega, ?_⟩
  have hp := hs.path
  unfold PathSpec at hp ⊢
  split at hp <;> rename_i hk <;> (try simp only [hk])
  · obtain ⟨h1, h2, h3⟩ := hp
    have hsum := hs.sum
    have hfits := hs.fits
    refine ⟨by simp; omega, ?_, h3⟩
    rw [segFields_take _ _ _ (by omega)]; exact h2
  · exact hp
  · exact hp
  · exact hp

theorem Header.layout_take (buf : Bytes) (l : HdrLayout) (m : Nat) (h : Header.layout buf = .ok l)
    (hm : l.headerLen ≤ m) : Header.layout (buf.take m) = .ok l :=
  (Header.layout_ok_iff _ _).2 (((Header.layout_ok_iff _ _).1 h).take m hm)

theorem Header.layout_le (buf : Bytes) (l : HdrLayout) (h : Header.layout buf = .ok l) :
    l.headerLen ≤ buf.length := ((Header.layout_ok_iff _ _).1 h).fits

/-! ## no panic: every field read lies in the slice checked before -/

theorem Header.finish_no_panic (len srcLen dstLen pt pl total : Nat) (segs : Nat × Nat × Nat) (ps : Nat) :
    Header.finish len srcLen dstLen pt pl total segs ps ≠ .error .panic := by
  unfold Header.finish; simp only []
  split
  · simp
  · split <;> simp

theorem Header.layout_no_panic (buf : Bytes) : Header.layout buf ≠ .error .panic := by
  by_cases h12 : CommonHeader.SIZE_BYTES ≤ buf.length
  · rw [Header.layout_eq buf h12]
    simp only []
    split
    · simp
    split
    · simp
    rename_i haddr
    unfold Header.pathPart
    simp only []
    split
    · split
      · simp
      rename_i hrest
      simp only [List.length_drop] at hrest
      have hl : ((buf.drop (CommonHeader.SIZE_BYTES + addrHdrSize (addrSize (commonFields buf).st) (addrSize (commonFields buf).dt))).take StdPathMeta.SIZE_BYTES).length
          = StdPathMeta.SIZE_BYTES := by simp; omega
      rw [rd_ok _ _ (by rw [hl]; decide), rd_ok _ _ (by rw [hl]; decide), rd_ok _ _ (by rw [hl]; decide)]
      exact Header.finish_no_panic _ _ _ _ _ _ _ _
    · exact Header.finish_no_panic _ _ _ _ _ _ _ _
    · exact Header.finish_no_panic _ _ _ _ _ _ _ _
    · split
      · simp
      · exact Header.finish_no_panic _ _ _ _ _ _ _ _
  · unfold Header.layout
    have : buf.length < CommonHeader.SIZE_BYTES := by omega
    simp [this]


/-! ## the other views -/

theorem StdPath.requiredSize_ok_iff (buf : Bytes) (n : Nat) :
    StdPath.requiredSize buf = .ok n ↔
      StdPathMeta.SIZE_BYTES ≤ buf.length ∧
      n = StdPathMeta.SIZE_BYTES + stdDataSize (segFields buf 0).1 (segFields buf 0).2.1 (segFields buf 0).2.2 ∧
      n ≤ buf.length := by
  unfold StdPath.requiredSize segFields
  simp only [List.drop_zero]
  by_cases h4 : buf.length < StdPathMeta.SIZE_BYTES
  · simp only [h4, if_true]
    constructor
    · intro h; contradiction
    · rintro ⟨h, _⟩; omega
  · simp only [h4, if_false]
    have hl : (buf.take StdPathMeta.SIZE_BYTES).length = StdPathMeta.SIZE_BYTES := by simp; omega
    rw [rd_ok _ _ (by rw [hl]; decide), rd_ok _ _ (by rw [hl]; decide), rd_ok _ _ (by rw [hl]; decide)]
    simp only []
    constructor
    · intro h
      split at h
      · contradiction
      · injection h with h; exact ⟨by omega, h.symm, by omega⟩
    · rintro ⟨_, h2, h3⟩
      have : ¬ buf.length < StdPathMeta.SIZE_BYTES + stdDataSize
          (readBits (buf.take StdPathMeta.SIZE_BYTES) StdPathMeta.SEG0_LEN_RNG)
          (readBits (buf.take StdPathMeta.SIZE_BYTES) StdPathMeta.SEG1_LEN_RNG)
          (readBits (buf.take StdPathMeta.SIZE_BYTES) StdPathMeta.SEG2_LEN_RNG) := by omega
      simp only [this, if_false, h2]

theorem StdPath.no_panic (buf : Bytes) : StdPath.requiredSize buf ≠ .error .panic := by
  unfold StdPath.requiredSize
  by_cases h4 : buf.length < StdPathMeta.SIZE_BYTES
  · simp [h4]
  · simp only [h4, if_false]
    have hl : (buf.take StdPathMeta.SIZE_BYTES).length = StdPathMeta.SIZE_BYTES := by simp; omega
    rw [rd_ok _ _ (by rw [hl]; decide), rd_ok _ _ (by rw [hl]; decide), rd_ok _ _ (by rw [hl]; decide)]
    simp only []
    split <;> simp

theorem fixed_ok_iff (name : String) (size : Nat) (buf : Bytes) (n : Nat) :
    fixedRequiredSize name size buf = .ok n ↔ size ≤ buf.length ∧ n = size := by
  unfold fixedRequiredSize
  by_cases h : buf.length < size
  · simp only [h, if_true]; constructor
    · intro h; contradiction
    · rintro ⟨h, _⟩; omega
  · simp only [h, if_false]; constructor
    · intro h'; injection h' with h'; exact ⟨by omega, h'.symm⟩
    · rintro ⟨_, rfl⟩; rfl

theorem fixed_no_panic (name : String) (size : Nat) (buf : Bytes) :
    fixedRequiredSize name size buf ≠ .error .panic := by
  unfold fixedRequiredSize; split <;> simp

theorem Udp.requiredSize_ok_iff (buf : Bytes) (n : Nat) :
    Udp.requiredSize buf = .ok n ↔
      UdpDatagram.HEADER_SIZE_BYTES ≤ buf.length ∧
      UdpDatagram.HEADER_SIZE_BYTES ≤ readBits buf UdpDatagram.LENGTH_RNG ∧
      n = min buf.length (readBits buf UdpDatagram.LENGTH_RNG) := by
  unfold Udp.requiredSize
  by_cases h8 : buf.length < UdpDatagram.HEADER_SIZE_BYTES
  · simp only [h8, if_true]; constructor
    · intro h; contradiction
    · rintro ⟨h, _⟩; omega
  · simp only [h8, if_false]
    have h8' : UdpDatagram.HEADER_SIZE_BYTES ≤ buf.length := by omega
    rw [rd_ok _ _ (Nat.le_trans (by decide) h8')]
    simp only []
    constructor
    · intro h
      split at h
      · contradiction
      · injection h with h; exact ⟨h8', by omega, h.symm⟩
    · rintro ⟨_, h2, h3⟩
      have : ¬ readBits buf UdpDatagram.LENGTH_RNG < UdpDatagram.HEADER_SIZE_BYTES := by omega
      simp only [this, if_false, h3]

theorem Udp.no_panic (buf : Bytes) : Udp.requiredSize buf ≠ .error .panic := by
  unfold Udp.requiredSize
  by_cases h8 : buf.length < UdpDatagram.HEADER_SIZE_BYTES
  · simp [h8]
  · simp only [h8, if_false]
    rw [rd_ok _ _ (Nat.le_trans (by decide) (by omega : UdpDatagram.HEADER_SIZE_BYTES ≤ buf.length))]
    simp only []
    split <;> simp

theorem ScmpMsg.requiredSize_ok_iff (k : ScmpKindRow) (buf : Bytes) (n : Nat) :
    ScmpMsg.requiredSize k buf = .ok n ↔
      k.headerSize ≤ buf.length ∧ n = if k.varLen then buf.length else k.headerSize := by
  unfold ScmpMsg.requiredSize
  by_cases h : buf.length < k.headerSize
  · simp only [h, if_true]; constructor
    · intro h; contradiction
    · rintro ⟨h, _⟩; omega
  · simp only [h, if_false]; constructor
    · intro h'; injection h' with h'; exact ⟨by omega, h'.symm⟩
    · rintro ⟨_, rfl⟩; rfl

theorem ScmpMsg.no_panic (k : ScmpKindRow) (buf : Bytes) : ScmpMsg.requiredSize k buf ≠ .error .panic := by
  unfold ScmpMsg.requiredSize; split <;> simp

theorem scmpRow_mem (t : Nat) : scmpRow t ∈ scmpKinds := by
  unfold scmpRow
  split
  · rename_i k hk; exact List.mem_of_find?_eq_some hk
  · decide

/-- every kind's fixed header is at least as long as the common minimum checked first, and contains its fields -/
theorem scmpKinds_wf : ∀ k ∈ scmpKinds, scmpMinSize ≤ k.headerSize ∧
    ∀ f ∈ k.fields, f.2.wf ∧ f.2.byteHi ≤ k.headerSize := by decide

theorem scmpMinSize_type : ScmpMessage.TYPE_RNG.byteHi ≤ scmpMinSize := by decide

theorem Scmp.requiredSize_eq (buf : Bytes) (h : scmpMinSize ≤ buf.length) :
    Scmp.requiredSize buf = ScmpMsg.requiredSize (scmpRow (readBits (buf.take scmpMinSize) ScmpMessage.TYPE_RNG)) buf := by
  unfold Scmp.requiredSize
  have : ¬ buf.length < scmpMinSize := by omega
  simp only [this, if_false]
  rw [rd_ok _ _ (by rw [List.length_take, Nat.min_eq_left h]; exact scmpMinSize_type)]

theorem Scmp.no_panic (buf : Bytes) : Scmp.requiredSize buf ≠ .error .panic := by
  by_cases h : scmpMinSize ≤ buf.length
  · rw [Scmp.requiredSize_eq buf h]; exact ScmpMsg.no_panic _ _
  · unfold Scmp.requiredSize
    have : buf.length < scmpMinSize := by omega
    simp [this]

theorem Scmp.min_le (buf : Bytes) (n : Nat) (h : Scmp.requiredSize buf = .ok n) : scmpMinSize ≤ buf.length := by
  by_cases hc : scmpMinSize ≤ buf.length
  · exact hc
  · unfold Scmp.requiredSize at h
    have : buf.length < scmpMinSize := by omega
    simp [this] at h

end ScionVerif.Layout
