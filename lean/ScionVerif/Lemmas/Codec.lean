import ScionVerif.Model.Layout
import ScionVerif.Model.Access
import ScionVerif.Model.Packet
import ScionVerif.Lemmas.Bits
/-!
# Lemmas about the size computations of Model/Layout.lean (C02) 

* `Header.layout_ok_iff` – `ScionHeaderLayout::try_from_slice` succeeds with layout `l` **iff** `HdrSpec buf l`
  (a declarative description: version 0, the size fields read from the first 12 bytes / the path meta
  header, header length = sum of the parts = advertised length ≤ buffer length);
* `HdrSpec.take` – the description only depends on the first `headerLen` bytes;
* per-view `…_le`, `…_no_panic`, `…_take` lemmas used by Theorems/C02.lean.
-/
namespace ScionVerif.Layout
open ScionVerif ScionVerif.Generated.Layout ScionVerif.Generated.AddrType

theorem rd_ok (sl : Bytes) (r : BitRange) (h : r.byteHi ≤ sl.length) : rd sl r = .ok (readBits sl r) := by
  simp [rd, readChk, BitRange.inBuf, h]

theorem Header.layout_eq (buf : Bytes) (h : CommonHeader.SIZE_BYTES ≤ buf.length) :
    Header.layout buf =
      let f := commonFields buf
      if f.ver ≠ 0 then .error (.other "UnsupportedVersion") else
      if buf.length < CommonHeader.SIZE_BYTES + addrHdrSize (addrSize f.st) (addrSize f.dt) then
        .error (.tooSmall "AddressHeader" (CommonHeader.SIZE_BYTES + addrHdrSize (addrSize f.st) (addrSize f.dt)) buf.length)
      else Header.pathPart buf (addrSize f.st) (addrSize f.dt) f.pt f.pl (f.hl * 4) := by
  have hl : (buf.take CommonHeader.SIZE_BYTES).length = CommonHeader.SIZE_BYTES := by simp; omega
  unfold Header.layout
  have hn : ¬ buf.length < CommonHeader.SIZE_BYTES := by omega
  simp only [hn, if_false]
  rw [rd_ok _ _ (by rw [hl]; decide), rd_ok _ _ (by rw [hl]; decide), rd_ok _ _ (by rw [hl]; decide),
      rd_ok _ _ (by rw [hl]; decide), rd_ok _ _ (by rw [hl]; decide), rd_ok _ _ (by rw [hl]; decide)]
  rfl

theorem Header.pathPart_scion (buf : Bytes) (srcLen dstLen pt pl total : Nat) (hk : pathKind pt = .scion)
    (h : CommonHeader.SIZE_BYTES + addrHdrSize srcLen dstLen + StdPathMeta.SIZE_BYTES ≤ buf.length) :
    Header.pathPart buf srcLen dstLen pt pl total =
      let s := segFields buf (CommonHeader.SIZE_BYTES + addrHdrSize srcLen dstLen)
      Header.finish buf.length srcLen dstLen pt pl total s (StdPathMeta.SIZE_BYTES + stdDataSize s.1 s.2.1 s.2.2) := by
  unfold Header.pathPart
  simp only [hk]
  have hn : ¬ (buf.drop (CommonHeader.SIZE_BYTES + addrHdrSize srcLen dstLen)).length < StdPathMeta.SIZE_BYTES := by
    simp; omega
  simp only [hn, if_false]
  have hl : ((buf.drop (CommonHeader.SIZE_BYTES + addrHdrSize srcLen dstLen)).take StdPathMeta.SIZE_BYTES).length
      = StdPathMeta.SIZE_BYTES := by simp; omega
  rw [rd_ok _ _ (by rw [hl]; decide), rd_ok _ _ (by rw [hl]; decide), rd_ok _ _ (by rw [hl]; decide)]
  rfl


theorem Header.finish_ok_iff (len srcLen dstLen pt pl total : Nat) (segs : Nat × Nat × Nat) (ps : Nat) (l : HdrLayout) :
    Header.finish len srcLen dstLen pt pl total segs ps = .ok l ↔
      (CommonHeader.SIZE_BYTES + addrHdrSize srcLen dstLen + ps ≤ len ∧
       CommonHeader.SIZE_BYTES + addrHdrSize srcLen dstLen + ps = total ∧
       l = ⟨srcLen, dstLen, pt, segs, ps, total, pl⟩) := by
  unfold Header.finish
  simp only []
  constructor
  · intro h
    split at h
    · contradiction
    · split at h
      · contradiction
      · injection h with h
        exact ⟨by omega, by omega, h.symm⟩
  · rintro ⟨h1, h2, h3⟩
    have a : ¬ CommonHeader.SIZE_BYTES + addrHdrSize srcLen dstLen + ps > len := by omega
    have b : ¬ CommonHeader.SIZE_BYTES + addrHdrSize srcLen dstLen + ps ≠ total := by omega
    simp only [a, b, if_false, h3]

/-- what `ScionHeaderLayout::try_from_slice` establishes about the path -/
def PathSpec (buf : Bytes) (l : HdrLayout) : Prop :=
  match pathKind l.pathType with
  | .scion => l.pathOff + StdPathMeta.SIZE_BYTES ≤ buf.length ∧ l.segs = segFields buf l.pathOff ∧
      l.pathSize = StdPathMeta.SIZE_BYTES + stdDataSize l.segs.1 l.segs.2.1 l.segs.2.2
  | .oneHop => l.segs = (0, 0, 0) ∧ l.pathSize = OneHopPath.SIZE_BYTES
  | .empty => l.segs = (0, 0, 0) ∧ l.pathSize = 0
  | .other _ => l.segs = (0, 0, 0)

/-- what `ScionHeaderLayout::try_from_slice` establishes (and all it needs) -/
structure HdrSpec (buf : Bytes) (l : HdrLayout) : Prop where
  len12 : CommonHeader.SIZE_BYTES ≤ buf.length
  ver : (commonFields buf).ver = 0
  src : l.srcLen = addrSize (commonFields buf).st
  dst : l.dstLen = addrSize (commonFields buf).dt
  pt : l.pathType = (commonFields buf).pt
  pl : l.payloadLen = (commonFields buf).pl
  hl : l.headerLen = (commonFields buf).hl * 4
  sum : l.headerLen = l.pathOff + l.pathSize
  fits : l.headerLen ≤ buf.length
  path : PathSpec buf l

theorem sizeBytes_mul8 (a b : Nat) (h : a ≤ b) : (BitRange.mk (a * 8) (b * 8)).sizeBytes = b - a := by
  unfold BitRange.sizeBytes BitRange.byteHi BitRange.byteLo; simp; omega

theorem Header.layout_ok_iff (buf : Bytes) (l : HdrLayout) : Header.layout buf = .ok l ↔ HdrSpec buf l := by
  constructor
  · intro h
    have h12 : CommonHeader.SIZE_BYTES ≤ buf.length := by
      unfold Header.layout at h
      by_cases hc : buf.length < CommonHeader.SIZE_BYTES
      · simp [hc] at h
      · omega
    rw [Header.layout_eq buf h12] at h
    simp only [] at h
    split at h
    · contradiction
    rename_i hver
    split at h
    · contradiction
    rename_i haddr
    have hver' : (commonFields buf).ver = 0 := by omega
    unfold Header.pathPart at h
    simp only [] at h
    split at h
    · -- scion
      rename_i hk
      split at h
      · contradiction
      rename_i hrest
      simp only [List.length_drop] at hrest
      have hfit : CommonHeader.SIZE_BYTES + addrHdrSize (addrSize (commonFields buf).st) (addrSize (commonFields buf).dt) + StdPathMeta.SIZE_BYTES ≤ buf.length := by omega
      have hl : ((buf.drop (CommonHeader.SIZE_BYTES + addrHdrSize (addrSize (commonFields buf).st) (addrSize (commonFields buf).dt))).take StdPathMeta.SIZE_BYTES).length
          = StdPathMeta.SIZE_BYTES := by simp; omega
      rw [rd_ok _ _ (by rw [hl]; decide), rd_ok _ _ (by rw [hl]; decide), rd_ok _ _ (by rw [hl]; decide)] at h
      simp only [] at h
      obtain ⟨h1, h2, rfl⟩ := (Header.finish_ok_iff ..).1 h
      refine ⟨h12, hver', rfl, rfl, rfl, rfl, rfl, ?_, ?_, ?_⟩
      · simp only [HdrLayout.pathOff]; omega
      · simp only []; omega
      · unfold PathSpec; simp only [hk, HdrLayout.pathOff]
        exact ⟨hfit, rfl, trivial⟩
    · rename_i hk
      obtain ⟨h1, h2, rfl⟩ := (Header.finish_ok_iff ..).1 h
      refine ⟨h12, hver', rfl, rfl, rfl, rfl, rfl, ?_, ?_, ?_⟩
      · simp only [HdrLayout.pathOff]; omega
      · simp only []; omega
      · unfold PathSpec; simp only [hk]; exact ⟨trivial, trivial⟩
    · rename_i hk
      obtain ⟨h1, h2, rfl⟩ := (Header.finish_ok_iff ..).1 h
      refine ⟨h12, hver', rfl, rfl, rfl, rfl, rfl, ?_, ?_, ?_⟩
      · simp only [HdrLayout.pathOff]; omega
      · simp only []; omega
      · unfold PathSpec; simp only [hk]; exact ⟨trivial, trivial⟩
    · rename_i t hk
      split at h
      · contradiction
      rename_i htot
      obtain ⟨h1, h2, rfl⟩ := (Header.finish_ok_iff ..).1 h
      refine ⟨h12, hver', rfl, rfl, rfl, rfl, rfl, ?_, ?_, ?_⟩
      · simp only [HdrLayout.pathOff]; omega
      · simp only []; omega
      · unfold PathSpec; simp only [hk]
  · intro hs
    rw [Header.layout_eq buf hs.len12]
    simp only []
    have hv := hs.ver
    have a : ¬ (commonFields buf).ver ≠ 0 := by omega
    have hsum := hs.sum
    have hfits := hs.fits
    have hsrc := hs.src
    have hdst := hs.dst
    unfold HdrLayout.pathOff at hsum
    rw [hsrc, hdst] at hsum
    have b : ¬ buf.length < CommonHeader.SIZE_BYTES + addrHdrSize (addrSize (commonFields buf).st) (addrSize (commonFields buf).dt) := by omega
    simp only [a, b, if_false]
    have hp := hs.path
    unfold PathSpec at hp
    have hpt := hs.pt
    have hl := hs.hl
    have hpl := hs.pl
    cases l with
    | mk srcLen dstLen pathType segs pathSize headerLen payloadLen =>
    simp only [] at *
    subst hsrc hdst hpt hpl
    unfold Header.pathPart
    simp only []
    split at hp <;> rename_i hk <;> simp only [hk]
    · obtain ⟨h1, h2, h3⟩ := hp
      unfold HdrLayout.pathOff at h1 h2
      simp only [] at h1 h2 h3
      have hn : ¬ (buf.drop (CommonHeader.SIZE_BYTES + addrHdrSize (addrSize (commonFields buf).st) (addrSize (commonFields buf).dt))).length < StdPathMeta.SIZE_BYTES := by
        simp; omega
      simp only [hn, if_false]
      have hl' : ((buf.drop (CommonHeader.SIZE_BYTES + addrHdrSize (addrSize (commonFields buf).st) (addrSize (commonFields buf).dt))).take StdPathMeta.SIZE_BYTES).length
          = StdPathMeta.SIZE_BYTES := by simp; omega
      rw [rd_ok _ _ (by rw [hl']; decide), rd_ok _ _ (by rw [hl']; decide), rd_ok _ _ (by rw [hl']; decide)]
      simp only []
      rw [Header.finish_ok_iff]
      have e : segs = segFields buf (CommonHeader.SIZE_BYTES + addrHdrSize (addrSize (commonFields buf).st) (addrSize (commonFields buf).dt)) := h2
      unfold segFields at e
      simp only [] at e
      subst e
      simp only [] at h3
      refine ⟨by omega, by omega, ?_⟩
      simp only [h3, hl]
    · obtain ⟨h1, h2⟩ := hp
      rw [Header.finish_ok_iff]
      subst h1 h2
      exact ⟨by omega, by omega, by simp only [hl]⟩
    · obtain ⟨h1, h2⟩ := hp
      rw [Header.finish_ok_iff]
      subst h1 h2
      exact ⟨by omega, by omega, by simp only [hl]⟩
    · subst hp
      have c : ¬ (commonFields buf).hl * 4 < CommonHeader.SIZE_BYTES + addrHdrSize (addrSize (commonFields buf).st) (addrSize (commonFields buf).dt) := by omega
      simp only [c, if_false]
      rw [Header.finish_ok_iff, sizeBytes_mul8 _ _ (by omega)]
      refine ⟨by omega, by omega, ?_⟩
      have : pathSize = (commonFields buf).hl * 4 - (CommonHeader.SIZE_BYTES + addrHdrSize (addrSize (commonFields buf).st) (addrSize (commonFields buf).dt)) := by omega
      simp only [this, hl]


/-! ## locality -/

theorem commonFields_take (buf : Bytes) (m : Nat) (h : CommonHeader.SIZE_BYTES ≤ m) :
    commonFields (buf.take m) = commonFields buf := by
  unfold commonFields
  rw [List.take_take, Nat.min_eq_left h]

theorem segFields_take (buf : Bytes) (off m : Nat) (h : off + StdPathMeta.SIZE_BYTES ≤ m) :
    segFields (buf.take m) off = segFields buf off := by
  unfold segFields
  rw [List.drop_take, List.take_take, Nat.min_eq_left (by omega)]

theorem HdrSpec.take {buf : Bytes} {l : HdrLayout} (hs : HdrSpec buf l) (m : Nat) (hm : l.headerLen ≤ m) :
    HdrSpec (buf.take m) l := by
  have h12 : CommonHeader.SIZE_BYTES ≤ l.headerLen := by
    have := hs.sum; unfold HdrLayout.pathOff at this; omega
  have hcf := commonFields_take buf m (by omega)
  refine ⟨by simp; have := hs.len12; omega, by rw [hcf]; exact hs.ver, by rw [hcf]; exact hs.src,
    by rw [hcf]; exact hs.dst, by rw [hcf]; exact hs.pt, by rw [hcf]; exact hs.pl, by rw [hcf]; exact hs.hl,
    hs.sum, by simp; have := hs.fits; omega, ?_⟩
  have hp := hs.path
  unfold PathSpec at hp ⊢
  split at hp <;> rename_i hk <;> (try simp only [hk])
  · obtain ⟨h1, h2, h3⟩ := hp
    have hsum := hs.sum
    have hfits := hs.fits
    refine ⟨by simp; omega, ?_, h3⟩
    rw [segFields_take _ _ _ (by omega)]; exact h2
  · exact hp
  · exact hp
  · exact hp

theorem Header.layout_take (buf : Bytes) (l : HdrLayout) (m : Nat) (h : Header.layout buf = .ok l)
    (hm : l.headerLen ≤ m) : Header.layout (buf.take m) = .ok l :=
  (Header.layout_ok_iff _ _).2 (((Header.layout_ok_iff _ _).1 h).take m hm)

theorem Header.layout_le (buf : Bytes) (l : HdrLayout) (h : Header.layout buf = .ok l) :
    l.headerLen ≤ buf.length := ((Header.layout_ok_iff _ _).1 h).fits

/-! ## no panic: every field read lies in the slice checked before -/

theorem Header.finish_no_panic (len srcLen dstLen pt pl total : Nat) (segs : Nat × Nat × Nat) (ps : Nat) :
    Header.finish len srcLen dstLen pt pl total segs ps ≠ .error .panic := by
  unfold Header.finish; simp only []
  split
  · simp
  · split <;> simp

theorem Header.layout_no_panic (buf : Bytes) : Header.layout buf ≠ .error .panic := by
  by_cases h12 : CommonHeader.SIZE_BYTES ≤ buf.length
  · rw [Header.layout_eq buf h12]
    simp only []
    split
    · simp
    split
    · simp
    rename_i haddr
    unfold Header.pathPart
    simp only []
    split
    · split
      · simp
      rename_i hrest
      simp only [List.length_drop] at hrest
      have hl : ((buf.drop (CommonHeader.SIZE_BYTES + addrHdrSize (addrSize (commonFields buf).st) (addrSize (commonFields buf).dt))).take StdPathMeta.SIZE_BYTES).length
          = StdPathMeta.SIZE_BYTES := by simp; omega
      rw [rd_ok _ _ (by rw [hl]; decide), rd_ok _ _ (by rw [hl]; decide), rd_ok _ _ (by rw [hl]; decide)]
      exact Header.finish_no_panic _ _ _ _ _ _ _ _
    · exact Header.finish_no_panic _ _ _ _ _ _ _ _
    · exact Header.finish_no_panic _ _ _ _ _ _ _ _
    · split
      · simp
      · exact Header.finish_no_panic _ _ _ _ _ _ _ _
  · unfold Header.layout
    have : buf.length < CommonHeader.SIZE_BYTES := by omega
    simp [this]


/-! ## the other views -/

theorem StdPath.requiredSize_ok_iff (buf : Bytes) (n : Nat) :
    StdPath.requiredSize buf = .ok n ↔
      StdPathMeta.SIZE_BYTES ≤ buf.length ∧
      n = StdPathMeta.SIZE_BYTES + stdDataSize (segFields buf 0).1 (segFields buf 0).2.1 (segFields buf 0).2.2 ∧
      n ≤ buf.length := by
  unfold StdPath.requiredSize segFields
  simp only [List.drop_zero]
  by_cases h4 : buf.length < StdPathMeta.SIZE_BYTES
  · simp only [h4, if_true]
    constructor
    · intro h; contradiction
    · rintro ⟨h, _⟩; omega
  · simp only [h4, if_false]
    have hl : (buf.take StdPathMeta.SIZE_BYTES).length = StdPathMeta.SIZE_BYTES := by simp; omega
    rw [rd_ok _ _ (by rw [hl]; decide), rd_ok _ _ (by rw [hl]; decide), rd_ok _ _ (by rw [hl]; decide)]
    simp only []
    constructor
    · intro h
      split at h
      · contradiction
      · injection h with h; exact ⟨by omega, h.symm, by omega⟩
    · rintro ⟨_, h2, h3⟩
      have : ¬ buf.length < StdPathMeta.SIZE_BYTES + stdDataSize
          (readBits (buf.take StdPathMeta.SIZE_BYTES) StdPathMeta.SEG0_LEN_RNG)
          (readBits (buf.take StdPathMeta.SIZE_BYTES) StdPathMeta.SEG1_LEN_RNG)
          (readBits (buf.take StdPathMeta.SIZE_BYTES) StdPathMeta.SEG2_LEN_RNG) := by omega
      simp only [this, if_false, h2]

theorem StdPath.no_panic (buf : Bytes) : StdPath.requiredSize buf ≠ .error .panic := by
  unfold StdPath.requiredSize
  by_cases h4 : buf.length < StdPathMeta.SIZE_BYTES
  · simp [h4]
  · simp only [h4, if_false]
    have hl : (buf.take StdPathMeta.SIZE_BYTES).length = StdPathMeta.SIZE_BYTES := by simp; omega
    rw [rd_ok _ _ (by rw [hl]; decide), rd_ok _ _ (by rw [hl]; decide), rd_ok _ _ (by rw [hl]; decide)]
    simp only []
    split <;> simp

theorem fixed_ok_iff (name : String) (size : Nat) (buf : Bytes) (n : Nat) :
    fixedRequiredSize name size buf = .ok n ↔ size ≤ buf.length ∧ n = size := by
  unfold fixedRequiredSize
  by_cases h : buf.length < size
  · simp only [h, if_true]; constructor
    · intro h; contradiction
    · rintro ⟨h, _⟩; omega
  · simp only [h, if_false]; constructor
    · intro h'; injection h' with h'; exact ⟨by omega, h'.symm⟩
    · rintro ⟨_, rfl⟩; rfl

theorem fixed_no_panic (name : String) (size : Nat) (buf : Bytes) :
    fixedRequiredSize name size buf ≠ .error .panic := by
  unfold fixedRequiredSize; split <;> simp

theorem Udp.requiredSize_ok_iff (buf : Bytes) (n : Nat) :
    Udp.requiredSize buf = .ok n ↔
      UdpDatagram.HEADER_SIZE_BYTES ≤ buf.length ∧
      UdpDatagram.HEADER_SIZE_BYTES ≤ readBits buf UdpDatagram.LENGTH_RNG ∧
      n = min buf.length (readBits buf UdpDatagram.LENGTH_RNG) := by
  unfold Udp.requiredSize
  by_cases h8 : buf.length < UdpDatagram.HEADER_SIZE_BYTES
  · simp only [h8, if_true]; constructor
    · intro h; contradiction
    · rintro ⟨h, _⟩; omega
  · simp only [h8, if_false]
    have h8' : UdpDatagram.HEADER_SIZE_BYTES ≤ buf.length := by omega
    rw [rd_ok _ _ (Nat.le_trans (by decide) h8')]
    simp only []
    constructor
    · intro h
      split at h
      · contradiction
      · injection h with h; exact ⟨h8', by omega, h.symm⟩
    · rintro ⟨_, h2, h3⟩
      have : ¬ readBits buf UdpDatagram.LENGTH_RNG < UdpDatagram.HEADER_SIZE_BYTES := by omega
      simp only [this, if_false, h3]

theorem Udp.no_panic (buf : Bytes) : Udp.requiredSize buf ≠ .error .panic := by
  unfold Udp.requiredSize
  by_cases h8 : buf.length < UdpDatagram.HEADER_SIZE_BYTES
  · simp [h8]
  · simp only [h8, if_false]
    rw [rd_ok _ _ (Nat.le_trans (by decide) (by omega : UdpDatagram.HEADER_SIZE_BYTES ≤ buf.length))]
    simp only []
    split <;> simp

theorem ScmpMsg.requiredSize_ok_iff (k : ScmpKindRow) (buf : Bytes) (n : Nat) :
    ScmpMsg.requiredSize k buf = .ok n ↔
      k.headerSize ≤ buf.length ∧ n = if k.varLen then buf.length else k.headerSize := by
  unfold ScmpMsg.requiredSize
  by_cases h : buf.length < k.headerSize
  · simp only [h, if_true]; constructor
    · intro h; contradiction
    · rintro ⟨h, _⟩; omega
  · simp only [h, if_false]; constructor
    · intro h'; injection h' with h'; exact ⟨by omega, h'.symm⟩
    · rintro ⟨_, rfl⟩; rfl

theorem ScmpMsg.no_panic (k : ScmpKindRow) (buf : Bytes) : ScmpMsg.requiredSize k buf ≠ .error .panic := by
  unfold ScmpMsg.requiredSize; split <;> simp

theorem scmpRow_mem (t : Nat) : scmpRow t ∈ scmpKinds := by
  unfold scmpRow
  split
  · rename_i k hk; exact List.mem_of_find?_eq_some hk
  · decide

/-- every kind's fixed header is at least as long as the common minimum checked first, and contains its fields -/
theorem scmpKinds_wf : ∀ k ∈ scmpKinds, scmpMinSize ≤ k.headerSize ∧
    ∀ f ∈ k.fields, f.2.wf ∧ f.2.byteHi ≤ k.headerSize := by decide

theorem scmpMinSize_type : ScmpMessage.TYPE_RNG.byteHi ≤ scmpMinSize := by decide

theorem Scmp.requiredSize_eq (buf : Bytes) (h : scmpMinSize ≤ buf.length) :
    Scmp.requiredSize buf = ScmpMsg.requiredSize (scmpRow (readBits (buf.take scmpMinSize) ScmpMessage.TYPE_RNG)) buf := by
  unfold Scmp.requiredSize
  have : ¬ buf.length < scmpMinSize := by omega
  simp only [this, if_false]
  rw [rd_ok _ _ (by rw [List.length_take, Nat.min_eq_left h]; exact scmpMinSize_type)]

theorem Scmp.no_panic (buf : Bytes) : Scmp.requiredSize buf ≠ .error .panic := by
  by_cases h : scmpMinSize ≤ buf.length
  · rw [Scmp.requiredSize_eq buf h]; exact ScmpMsg.no_panic _ _
  · unfold Scmp.requiredSize
    have : buf.length < scmpMinSize := by omega
    simp [this]

theorem Scmp.min_le (buf : Bytes) (n : Nat) (h : Scmp.requiredSize buf = .ok n) : scmpMinSize ≤ buf.length := by
  by_cases hc : scmpMinSize ≤ buf.length
  · exact hc
  · unfold Scmp.requiredSize at h
    have : buf.length < scmpMinSize := by omega
    simp [this] at h

end ScionVerif.Layout

/-! # Access descriptors stay inside the view -/

namespace ScionVerif.Access
open ScionVerif ScionVerif.Layout ScionVerif.Generated.Layout ScionVerif.Generated.AddrType

/-- every interval of every accessor is well-formed and ends inside the first `n` bytes -/
def InB (n : Nat) (accs : List Acc) : Prop := ∀ a ∈ accs, ∀ r ∈ a.ranges, r.1 ≤ r.2 ∧ r.2 ≤ n

theorem InB_append {n : Nat} {a b : List Acc} : InB n (a ++ b) ↔ InB n a ∧ InB n b := by
  unfold InB
  constructor
  · intro h
    exact ⟨fun x hx => h x (List.mem_append_left _ hx), fun x hx => h x (List.mem_append_right _ hx)⟩
  · rintro ⟨h1, h2⟩ x hx
    rcases List.mem_append.1 hx with hx | hx
    · exact h1 x hx
    · exact h2 x hx

theorem InB_nil (n : Nat) : InB n [] := by intro a ha; simp at ha

theorem InB_single {n : Nat} (name : String) (lo hi : Nat) (h1 : lo ≤ hi) (h2 : hi ≤ n) :
    InB n [⟨name, [(lo, hi)]⟩] := by
  intro a ha r hr
  simp at ha; subst ha
  simp at hr; subst hr
  exact ⟨h1, h2⟩

theorem InB_mono {m n : Nat} {accs : List Acc} (h : InB m accs) (hmn : m ≤ n) : InB n accs := by
  intro a ha r hr
  have := h a ha r hr
  exact ⟨this.1, Nat.le_trans this.2 hmn⟩

theorem InB_shift {m n off : Nat} {accs : List Acc} (h : InB m accs) (hmn : m + off ≤ n) :
    InB n (accs.map (·.shift off)) := by
  intro a ha r hr
  obtain ⟨a0, ha0, rfl⟩ := List.mem_map.1 ha
  simp only [Acc.shift] at hr
  obtain ⟨r0, hr0, rfl⟩ := List.mem_map.1 hr
  have := h a0 ha0 r0 hr0
  simp only
  omega

theorem InB_fieldAccs {n size off : Nat} (tab : List (String × BitRange))
    (ht : ∀ f ∈ tab, f.2.wf ∧ f.2.byteHi ≤ size) (h : size + off ≤ n) : InB n (fieldAccs tab off) := by
  intro a ha r hr
  unfold fieldAccs at ha
  obtain ⟨f, hf, rfl⟩ := List.mem_map.1 ha
  simp only [List.mem_singleton] at hr
  subst hr
  obtain ⟨hw, hb⟩ := ht f hf
  have := f.2.byteLo_le_byteHi hw
  simp only [fieldRng]
  omega

theorem InB_flatMap_range {n k : Nat} (g : Nat → List Acc) (h : ∀ i, i < k → InB n (g i)) :
    InB n ((List.range k).flatMap g) := by
  intro a ha
  obtain ⟨i, hi, hai⟩ := List.mem_flatMap.1 ha
  exact h i (List.mem_range.1 hi) a hai

theorem commonTab_wf : ∀ f ∈ commonFieldsTab, f.2.wf ∧ f.2.byteHi ≤ CommonHeader.SIZE_BYTES := by decide
theorem addrTab_wf : ∀ f ∈ addrFieldsTab, f.2.wf ∧ f.2.byteHi ≤ AddressHeader.FIXED_SIZE_BITS / 8 := by decide
theorem metaTab_wf : ∀ f ∈ metaFieldsTab, f.2.wf ∧ f.2.byteHi ≤ StdPathMeta.SIZE_BYTES := by decide
theorem infoTab_wf : ∀ f ∈ infoFieldsTab, f.2.wf ∧ f.2.byteHi ≤ InfoField.SIZE_BYTES := by decide
theorem hopTab_wf : ∀ f ∈ hopFieldsTab, f.2.wf ∧ f.2.byteHi ≤ HopField.SIZE_BYTES := by decide
theorem udpTab_wf : ∀ f ∈ udpFieldsTab, f.2.wf ∧ f.2.byteHi ≤ UdpDatagram.HEADER_SIZE_BYTES := by decide

theorem stdDataSize_eq (a b c : Nat) :
    stdDataSize a b c = infoCount a b c * InfoField.SIZE_BYTES + hopCount a b c * HopField.SIZE_BYTES := rfl

/-- `StandardPathView`: every accessor stays inside a view of exactly the computed size -/
theorem std_inB (p : Bytes) (n : Nat)
    (hn : n = StdPathMeta.SIZE_BYTES + stdDataSize (segFields p 0).1 (segFields p 0).2.1 (segFields p 0).2.2)
    (hp : p.length = n) : InB n (stdAccs p) := by
  unfold stdAccs
  simp only []
  rw [stdDataSize_eq] at hn
  generalize infoCount (segFields p 0).1 (segFields p 0).2.1 (segFields p 0).2.2 = ic at *
  generalize hopCount (segFields p 0).1 (segFields p 0).2.1 (segFields p 0).2.2 = hc at *
  have e8 : InfoField.SIZE_BYTES = 8 := by decide
  have e12 : HopField.SIZE_BYTES = 12 := by decide
  have e4 : StdPathMeta.SIZE_BYTES = 4 := by decide
  simp only [e8, e12, e4] at hn ⊢
  refine InB_append.2 ⟨InB_append.2 ⟨InB_append.2 ⟨?_, ?_⟩, ?_⟩, ?_⟩
  · exact InB_fieldAccs (size := 4) _ (by have := metaTab_wf; rwa [e4] at this) (by omega)
  · intro a ha r hr
    simp at ha
    rcases ha with rfl | rfl | rfl <;> simp at hr <;> subst hr <;> simp only <;> omega
  · apply InB_flatMap_range
    intro i hi
    refine InB_fieldAccs (size := 8) _ (by have := infoTab_wf; rwa [e8] at this) ?_
    have : i * 8 + 8 ≤ ic * 8 := by omega
    omega
  · apply InB_flatMap_range
    intro j hj
    refine InB_fieldAccs (size := 12) _ (by have := hopTab_wf; rwa [e12] at this) ?_
    have : j * 12 + 12 ≤ hc * 12 := by omega
    omega

theorem oneHop_inB : InB OneHopPath.SIZE_BYTES oneHopAccs := by
  unfold oneHopAccs
  refine InB_append.2 ⟨InB_append.2 ⟨InB_append.2 ⟨?_, ?_⟩, ?_⟩, ?_⟩
  · exact InB_single _ _ _ (by decide) (Nat.le_refl _)
  · exact InB_fieldAccs _ infoTab_wf (by decide)
  · exact InB_fieldAccs _ hopTab_wf (by decide)
  · exact InB_fieldAccs _ hopTab_wf (by decide)


theorem addrHdrSize_eq (s d : Nat) : addrHdrSize s d = AddressHeader.FIXED_SIZE_BITS / 8 + d + s := by
  unfold addrHdrSize
  have : AddressHeader.FIXED_SIZE_BITS = 128 := by decide
  rw [this]; omega

theorem segFields_sub (v : Bytes) (off m : Nat) (hm : StdPathMeta.SIZE_BYTES ≤ m) :
    segFields ((v.drop off).take m) 0 = segFields v off := by
  unfold segFields
  rw [List.drop_zero, List.take_take, Nat.min_eq_left hm]

/-- `ScionHeaderView`: every accessor (including those of the path sub-view) stays inside the view -/
theorem header_inB (v : Bytes) (l : HdrLayout) (hs : HdrSpec v l) (hlen : l.headerLen = v.length) :
    InB v.length (headerAccs v) := by
  have h12 := hs.len12
  have hsum := hs.sum
  have hhl := hs.hl
  have hpath := hs.path
  unfold HdrLayout.pathOff at hsum
  rw [hs.src, hs.dst] at hsum
  unfold PathSpec at hpath
  rw [hs.pt] at hpath
  unfold HdrLayout.pathOff at hpath
  rw [hs.src, hs.dst] at hpath
  have hadd := addrHdrSize_eq (addrSize (commonFields v).st) (addrSize (commonFields v).dt)
  have e16 : AddressHeader.FIXED_SIZE_BITS / 8 = 16 := by decide
  have e12 : CommonHeader.SIZE_BYTES = 12 := by decide
  unfold headerAccs
  simp only []
  refine InB_append.2 ⟨InB_append.2 ⟨InB_append.2 ⟨InB_append.2 ⟨?_, ?_⟩, ?_⟩, ?_⟩, ?_⟩
  · exact InB_fieldAccs _ commonTab_wf (by omega)
  · exact InB_fieldAccs _ addrTab_wf (by omega)
  · intro a ha r hr
    simp at ha
    rcases ha with rfl | rfl | rfl <;> simp at hr <;> subst hr <;> simp only <;> omega
  · unfold pathRng
    simp only []
    split at hpath <;> rename_i hk <;> simp only [hk]
    · exact InB_single _ _ _ (by omega) (by omega)
    · exact InB_single _ _ _ (by omega) (by omega)
    · exact InB_nil _
    · exact InB_single _ _ _ (by omega) (by omega)
  · split at hpath <;> rename_i hk <;> simp only [hk]
    · obtain ⟨h1, h2, h3⟩ := hpath
      have e4 : StdPathMeta.SIZE_BYTES = 4 := by decide
      have hm : (commonFields v).hl * 4 - (CommonHeader.SIZE_BYTES + addrHdrSize (addrSize (commonFields v).st) (addrSize (commonFields v).dt)) = l.pathSize := by omega
      refine InB_shift (m := l.pathSize) ?_ (by omega)
      apply std_inB
      · rw [hm, segFields_sub _ _ _ (by omega), ← h2]; exact h3
      · simp only [List.length_take, List.length_drop]; omega
    · refine InB_shift oneHop_inB (by omega)
    · exact InB_nil _
    · exact InB_nil _

theorem udp_inB (u : Bytes) (h : UdpDatagram.HEADER_SIZE_BYTES ≤ u.length) : InB u.length (udpAccs u) := by
  unfold udpAccs
  refine InB_append.2 ⟨InB_fieldAccs _ udpTab_wf (by omega), ?_⟩
  intro a ha r hr
  simp at ha
  rcases ha with rfl | rfl <;> simp at hr <;> subst hr <;> simp only <;> omega

theorem scmpMsg_inB (k : ScmpKindRow) (hk : k ∈ scmpKinds) (s : Bytes) (h : k.headerSize ≤ s.length) :
    InB s.length (scmpMsgAccs k s) := by
  unfold scmpMsgAccs
  refine InB_append.2 ⟨InB_append.2 ⟨InB_fieldAccs _ (scmpKinds_wf k hk).2 (by omega), ?_⟩, ?_⟩
  · exact InB_single _ _ _ (by omega) (Nat.le_refl _)
  · split
    · exact InB_single _ _ _ h (Nat.le_refl _)
    · exact InB_nil _


/-- what `ScionRawPacketView::has_required_size v = Ok(v.len())` means -/
theorem raw_valid (v : Bytes) (h : RawPacket.requiredSize v = .ok v.length) :
    ∃ l, HdrSpec v l ∧ l.headerLen = pktHl v ∧ l.payloadLen = pktPl v ∧ l.headerLen ≤ v.length ∧
      v.length ≤ l.headerLen + l.payloadLen := by
  unfold RawPacket.requiredSize at h
  split at h
  · rename_i l hl
    have hs := (Header.layout_ok_iff v l).1 hl
    injection h with h
    refine ⟨l, hs, hs.hl, hs.pl, hs.fits, ?_⟩
    omega
  · contradiction

theorem raw_inB (v : Bytes) (l : HdrLayout) (hs : HdrSpec v l) (h1 : l.headerLen = pktHl v) (h2 : l.payloadLen = pktPl v)
    (h3 : l.headerLen ≤ v.length) : InB v.length (rawAccs v) := by
  unfold rawAccs
  refine InB_append.2 ⟨?_, ?_⟩
  · intro a ha r hr
    simp at ha
    rcases ha with rfl | rfl | rfl <;> simp at hr <;> subst hr <;> simp only [payloadRange] <;> omega
  · have hs' := hs.take (pktHl v) (by omega)
    have := header_inB (v.take (pktHl v)) l hs' (by simp; omega)
    refine InB_mono this (by simp only [List.length_take]; omega)

theorem packetPayload_eq (v : Bytes) (l : HdrLayout) (h1 : l.headerLen = pktHl v) (h2 : l.payloadLen = pktPl v) :
    packetPayload v l = pktPayload v := by
  unfold packetPayload pktPayload
  rw [h1, h2]

theorem pktPayload_length (v : Bytes) (h : pktHl v ≤ v.length) :
    (pktPayload v).length = min (pktPl v) (v.length - pktHl v) := by
  unfold pktPayload payloadRange
  simp only [List.length_take, List.length_drop]
  omega

theorem udpPkt_inB (v : Bytes) (h : UdpPacket.requiredSize v = .ok v.length) : InB v.length (udpPktAccs v) := by
  unfold UdpPacket.requiredSize at h
  split at h
  · rename_i l hl
    split at h
    · rename_i m hm
      have hs := (Header.layout_ok_iff v l).1 hl
      rw [packetPayload_eq v l hs.hl hs.pl] at hm
      obtain ⟨u1, u2, u3⟩ := (Udp.requiredSize_ok_iff _ _).1 hm
      have hpl := pktPayload_length v (by have := hs.fits; have := hs.hl; unfold pktHl; omega)
      have hfit := hs.fits
      have hhl : l.headerLen = pktHl v := hs.hl
      unfold udpPktAccs
      simp only []
      refine InB_append.2 ⟨raw_inB v l hs hs.hl hs.pl hs.fits, ?_⟩
      refine InB_shift (m := min (pktPayload v).length (readBits (pktPayload v) UdpDatagram.LENGTH_RNG)) ?_ (by omega)
      have := udp_inB ((pktPayload v).take (min (pktPayload v).length (readBits (pktPayload v) UdpDatagram.LENGTH_RNG)))
        (by simp only [List.length_take]; omega)
      simp only [List.length_take] at this
      rw [Nat.min_eq_left (Nat.min_le_left _ _)] at this
      exact this
    · contradiction
  · contradiction

theorem scmpPkt_inB (v : Bytes) (h : ScmpPacket.requiredSize v = .ok v.length) : InB v.length (scmpPktAccs v) := by
  unfold ScmpPacket.requiredSize at h
  split at h
  · rename_i l hl
    split at h
    · rename_i m hm
      have hs := (Header.layout_ok_iff v l).1 hl
      rw [packetPayload_eq v l hs.hl hs.pl] at hm
      have hmin := Scmp.min_le _ _ hm
      rw [Scmp.requiredSize_eq _ hmin] at hm
      obtain ⟨u1, u2⟩ := (ScmpMsg.requiredSize_ok_iff _ _ _).1 hm
      have hpl := pktPayload_length v (by have := hs.fits; have := hs.hl; unfold pktHl; omega)
      have hfit := hs.fits
      have hhl : l.headerLen = pktHl v := hs.hl
      unfold scmpPktAccs
      simp only []
      refine InB_append.2 ⟨raw_inB v l hs hs.hl hs.pl hs.fits, ?_⟩
      generalize hk : scmpRow (readBits ((pktPayload v).take scmpMinSize) ScmpMessage.TYPE_RNG) = k at *
      have hkm : k ∈ scmpKinds := by rw [← hk]; exact scmpRow_mem _
      refine InB_shift (m := if k.varLen then (pktPayload v).length else k.headerSize) ?_ (by split <;> omega)
      have := scmpMsg_inB k hkm ((pktPayload v).take (if k.varLen then (pktPayload v).length else k.headerSize))
        (by simp only [List.length_take]; split <;> omega)
      simp only [List.length_take] at this
      have e : min (if k.varLen then (pktPayload v).length else k.headerSize) (pktPayload v).length
          = if k.varLen then (pktPayload v).length else k.headerSize := by split <;> omega
      rw [e] at this
      exact this
    · contradiction
  · contradiction

/-- on a view whose bytes are exactly what `has_required_size` reported, every accessor is in bounds -/
theorem access_in_bounds_view (k : ViewKind) (v : Bytes) (h : requiredSize k v = .ok v.length) :
    InB v.length (accessors k v) := by
  cases k with
  | header =>
    simp only [requiredSize, Header.requiredSize] at h
    split at h
    · rename_i l hl
      injection h with h
      exact header_inB v l ((Header.layout_ok_iff v l).1 hl) h
    · contradiction
  | stdPath =>
    obtain ⟨h1, h2, h3⟩ := (StdPath.requiredSize_ok_iff v _).1 h
    exact std_inB v _ h2 rfl
  | oneHop =>
    obtain ⟨h1, h2⟩ := (fixed_ok_iff _ _ v _).1 h
    simp only [accessors]; rw [h2]; exact oneHop_inB
  | infoField =>
    obtain ⟨h1, h2⟩ := (fixed_ok_iff _ _ v _).1 h
    exact InB_fieldAccs _ infoTab_wf (by omega)
  | hopField =>
    obtain ⟨h1, h2⟩ := (fixed_ok_iff _ _ v _).1 h
    exact InB_fieldAccs _ hopTab_wf (by omega)
  | rawPacket =>
    obtain ⟨l, hs, h1, h2, h3, h4⟩ := raw_valid v h
    exact raw_inB v l hs h1 h2 h3
  | udpPacket => exact udpPkt_inB v h
  | scmpPacket => exact scmpPkt_inB v h
  | udp =>
    obtain ⟨h1, h2, h3⟩ := (Udp.requiredSize_ok_iff v _).1 h
    exact udp_inB v h1
  | scmp =>
    have hmin := Scmp.min_le _ _ h
    simp only [requiredSize] at h
    rw [Scmp.requiredSize_eq _ hmin] at h
    obtain ⟨u1, u2⟩ := (ScmpMsg.requiredSize_ok_iff _ _ _).1 h
    exact scmpMsg_inB _ (scmpRow_mem _) v u1
  | scmpMsg i =>
    obtain ⟨u1, u2⟩ := (ScmpMsg.requiredSize_ok_iff _ _ _).1 h
    refine scmpMsg_inB _ ?_ v u1
    simp only [List.getD]
    cases hi : scmpKinds[i]? with
    | none => simp; exact scmpRow_mem _
    | some k => simp; exact List.mem_of_getElem? hi

end ScionVerif.Access

/-! # Size-neutral writes: the crate's safe setters keep every view valid -/

namespace ScionVerif.Access
open ScionVerif ScionVerif.Layout ScionVerif.Generated.Layout ScionVerif.Generated.AddrType

/-- a field inside the first `m` bytes reads the same after a write that shares no bit with it -/
theorem readBits_write_prefix (v : Bytes) (r R : BitRange) (x m : Nat) (hr : r.wf) (hrb : r.byteHi ≤ v.length)
    (hR : R.wf) (hRm : R.byteHi ≤ m) (hm : m ≤ v.length) (hd : r.disjoint R) :
    readBits ((writeBits v r x).take m) R = readBits (v.take m) R := by
  rw [readBits_take _ _ _ hR hRm, readBits_take _ _ _ hR hRm,
    readBits_writeBits_disjoint v r R x hr hrb hR (by omega) hd]

/-- a field of a sub-slice `[a, a+m)` is the shifted field of the buffer -/
theorem readBits_sub (v : Bytes) (a m : Nat) (R : BitRange) (hR : R.wf) (hRm : R.byteHi ≤ m) :
    readBits ((v.drop a).take m) R = readBits v (R.shift a) := by
  rw [readBits_take _ _ _ hR hRm, readBits_shift]

theorem readBits_write_sub (v : Bytes) (r R : BitRange) (x a m : Nat) (hr : r.wf) (hrb : r.byteHi ≤ v.length)
    (hR : R.wf) (hRm : R.byteHi ≤ m) (hm : a + m ≤ v.length) (hd : r.disjoint (R.shift a)) :
    readBits (((writeBits v r x).drop a).take m) R = readBits ((v.drop a).take m) R := by
  rw [readBits_sub _ _ _ _ hR hRm, readBits_sub _ _ _ _ hR hRm,
    readBits_writeBits_disjoint v r _ x hr hrb (R.shift_wf a hR) (by rw [BitRange.shift_byteHi]; omega) hd]

theorem commonFields_write (v : Bytes) (r : BitRange) (x : Nat) (hr : r.wf) (hrb : r.byteHi ≤ v.length)
    (h12 : CommonHeader.SIZE_BYTES ≤ v.length)
    (hd : ∀ R ∈ [CommonHeader.VERSION_RNG, CommonHeader.HEADER_LEN_RNG, CommonHeader.PAYLOAD_LEN_RNG,
      CommonHeader.PATH_TYPE_RNG, CommonHeader.DST_ADDR_INFO_RNG, CommonHeader.SRC_ADDR_INFO_RNG], r.disjoint R) :
    commonFields (writeBits v r x) = commonFields v := by
  unfold commonFields
  simp only []
  rw [readBits_write_prefix v r _ x _ hr hrb (by decide) (by decide) h12 (hd _ (by simp)),
      readBits_write_prefix v r _ x _ hr hrb (by decide) (by decide) h12 (hd _ (by simp)),
      readBits_write_prefix v r _ x _ hr hrb (by decide) (by decide) h12 (hd _ (by simp)),
      readBits_write_prefix v r _ x _ hr hrb (by decide) (by decide) h12 (hd _ (by simp)),
      readBits_write_prefix v r _ x _ hr hrb (by decide) (by decide) h12 (hd _ (by simp)),
      readBits_write_prefix v r _ x _ hr hrb (by decide) (by decide) h12 (hd _ (by simp))]

theorem segFields_write (v : Bytes) (r : BitRange) (x off : Nat) (hr : r.wf) (hrb : r.byteHi ≤ v.length)
    (h : off + StdPathMeta.SIZE_BYTES ≤ v.length)
    (hd : ∀ R ∈ [StdPathMeta.SEG0_LEN_RNG, StdPathMeta.SEG1_LEN_RNG, StdPathMeta.SEG2_LEN_RNG], r.disjoint (R.shift off)) :
    segFields (writeBits v r x) off = segFields v off := by
  unfold segFields
  simp only []
  rw [readBits_write_sub v r _ x off _ hr hrb (by decide) (by decide) h (hd _ (by simp)),
      readBits_write_sub v r _ x off _ hr hrb (by decide) (by decide) h (hd _ (by simp)),
      readBits_write_sub v r _ x off _ hr hrb (by decide) (by decide) h (hd _ (by simp))]

/-- the declarative header description survives every write that shares no bit with the protected ranges -/
theorem hdrSpec_write {v : Bytes} {l : HdrLayout} (hs : HdrSpec v l) (r : BitRange) (x : Nat) (hr : r.wf)
    (hrb : r.byteHi ≤ v.length) (hd : ∀ p ∈ headerProtected v, r.disjoint p) :
    HdrSpec (writeBits v r x) l := by
  have hlen := writeBits_length v r x hr hrb
  have hcf : commonFields (writeBits v r x) = commonFields v := by
    apply commonFields_write v r x hr hrb hs.len12
    intro R hR
    apply hd
    unfold headerProtected
    exact List.mem_append_left _ hR
  refine ⟨by rw [hlen]; exact hs.len12, by rw [hcf]; exact hs.ver, by rw [hcf]; exact hs.src,
    by rw [hcf]; exact hs.dst, by rw [hcf]; exact hs.pt, by rw [hcf]; exact hs.pl, by rw [hcf]; exact hs.hl,
    hs.sum, by rw [hlen]; exact hs.fits, ?_⟩
  have hp := hs.path
  unfold PathSpec at hp ⊢
  split at hp <;> rename_i hk <;> (try simp only [hk])
  · obtain ⟨h1, h2, h3⟩ := hp
    refine ⟨by rw [hlen]; exact h1, ?_, h3⟩
    rw [segFields_write v r x _ hr hrb h1]
    · exact h2
    · intro R hR
      apply hd
      unfold headerProtected
      apply List.mem_append_right
      have e : pathKind (commonFields v).pt = PathKind.scion := by rw [← hs.pt]; exact hk
      simp only [e]
      have eo : l.pathOff = CommonHeader.SIZE_BYTES + addrHdrSize (addrSize (commonFields v).st) (addrSize (commonFields v).dt) := by
        unfold HdrLayout.pathOff; rw [hs.src, hs.dst]
      rw [← eo]
      simp only [List.mem_cons, List.mem_nil_iff, or_false] at hR ⊢
      rcases hR with rfl | rfl | rfl <;> simp
  · exact hp
  · exact hp
  · exact hp


theorem pktPayload_write (v : Bytes) (r : BitRange) (x : Nat) (hr : r.wf) (hrb : r.byteHi ≤ v.length)
    (hcf : commonFields (writeBits v r x) = commonFields v) :
    (pktPayload (writeBits v r x)).length = (pktPayload v).length ∧
    pktHl (writeBits v r x) = pktHl v ∧ pktPl (writeBits v r x) = pktPl v := by
  have hlen := writeBits_length v r x hr hrb
  unfold pktPayload pktHl pktPl payloadRange
  rw [hcf]
  simp only [List.length_take, List.length_drop, hlen]
  exact ⟨trivial, trivial, trivial⟩

/-- **a size-neutral write keeps `has_required_size`** (all view kinds) -/
theorem write_preserves_size_view (k : ViewKind) (v : Bytes) (r : BitRange) (x : Nat)
    (h : requiredSize k v = .ok v.length) (hn : sizeNeutral k v r) :
    requiredSize k (writeBits v r x) = .ok v.length := by
  obtain ⟨hr, hrb, hd⟩ := hn
  have hlen := writeBits_length v r x hr hrb
  cases k with
  | header =>
    simp only [requiredSize, Header.requiredSize] at h ⊢
    split at h
    · rename_i l hl
      injection h with h
      have hs := hdrSpec_write ((Header.layout_ok_iff v l).1 hl) r x hr hrb hd
      rw [(Header.layout_ok_iff _ l).2 hs]
      simp only [h]
    · contradiction
  | stdPath =>
    obtain ⟨h1, h2, h3⟩ := (StdPath.requiredSize_ok_iff v _).1 h
    refine (StdPath.requiredSize_ok_iff _ _).2 ⟨by rw [hlen]; exact h1, ?_, by rw [hlen]; exact h3⟩
    rw [segFields_write v r x 0 hr hrb (by omega)]
    · exact h2
    · intro R hR
      apply hd
      simp only [protectedRanges, List.mem_cons, List.mem_nil_iff, or_false] at hR ⊢
      rcases hR with rfl | rfl | rfl <;> simp [BitRange.shift]
  | oneHop =>
    obtain ⟨h1, h2⟩ := (fixed_ok_iff _ _ v _).1 h
    exact (fixed_ok_iff _ _ _ _).2 ⟨by rw [hlen]; exact h1, h2⟩
  | infoField =>
    obtain ⟨h1, h2⟩ := (fixed_ok_iff _ _ v _).1 h
    exact (fixed_ok_iff _ _ _ _).2 ⟨by rw [hlen]; exact h1, h2⟩
  | hopField =>
    obtain ⟨h1, h2⟩ := (fixed_ok_iff _ _ v _).1 h
    exact (fixed_ok_iff _ _ _ _).2 ⟨by rw [hlen]; exact h1, h2⟩
  | rawPacket =>
    simp only [requiredSize, RawPacket.requiredSize] at h ⊢
    split at h
    · rename_i l hl
      have hs := hdrSpec_write ((Header.layout_ok_iff v l).1 hl) r x hr hrb hd
      rw [(Header.layout_ok_iff _ l).2 hs, hlen]
      exact h
    · contradiction
  | udpPacket =>
    simp only [requiredSize, UdpPacket.requiredSize] at h ⊢
    split at h
    · rename_i l hl
      split at h
      · rename_i m hm
        have hs0 := (Header.layout_ok_iff v l).1 hl
        have hdh : ∀ p ∈ headerProtected v, r.disjoint p := fun p hp => hd p (List.mem_append_left _ hp)
        have hs := hdrSpec_write hs0 r x hr hrb hdh
        rw [(Header.layout_ok_iff _ l).2 hs, hlen]
        simp only []
        have hcf : commonFields (writeBits v r x) = commonFields v := by
          apply commonFields_write v r x hr hrb hs0.len12
          intro R hR; apply hdh; unfold headerProtected; exact List.mem_append_left _ hR
        obtain ⟨pl1, pl2, pl3⟩ := pktPayload_write v r x hr hrb hcf
        rw [packetPayload_eq v l hs0.hl hs0.pl] at hm
        rw [packetPayload_eq _ l hs.hl hs.pl]
        obtain ⟨u1, u2, u3⟩ := (Udp.requiredSize_ok_iff _ _).1 hm
        have hfit := hs0.fits
        have hhl : l.headerLen = pktHl v := hs0.hl
        have hplen := pktPayload_length v (by omega)
        have hread : readBits (pktPayload (writeBits v r x)) UdpDatagram.LENGTH_RNG
            = readBits (pktPayload v) UdpDatagram.LENGTH_RNG := by
          unfold pktPayload payloadRange
          simp only [hlen, pl2, pl3]
          have hsz : pktHl v + min (pktPl v) (v.length - pktHl v) - pktHl v = min (pktPl v) (v.length - pktHl v) := by omega
          rw [hsz]
          apply readBits_write_sub v r _ x _ _ hr hrb (by decide)
          · have : UdpDatagram.LENGTH_RNG.byteHi ≤ UdpDatagram.HEADER_SIZE_BYTES := by decide
            omega
          · omega
          · apply hd
            apply List.mem_append_right
            simp
        have : Udp.requiredSize (pktPayload (writeBits v r x)) = .ok (min (pktPayload (writeBits v r x)).length
            (readBits (pktPayload (writeBits v r x)) UdpDatagram.LENGTH_RNG)) :=
          (Udp.requiredSize_ok_iff _ _).2 ⟨by rw [pl1]; exact u1, by rw [hread]; exact u2, rfl⟩
        rw [this]
        exact h
      · contradiction
    · contradiction
  | scmpPacket =>
    simp only [requiredSize, ScmpPacket.requiredSize] at h ⊢
    split at h
    · rename_i l hl
      split at h
      · rename_i m hm
        have hs0 := (Header.layout_ok_iff v l).1 hl
        have hdh : ∀ p ∈ headerProtected v, r.disjoint p := fun p hp => hd p (List.mem_append_left _ hp)
        have hs := hdrSpec_write hs0 r x hr hrb hdh
        rw [(Header.layout_ok_iff _ l).2 hs, hlen]
        simp only []
        have hcf : commonFields (writeBits v r x) = commonFields v := by
          apply commonFields_write v r x hr hrb hs0.len12
          intro R hR; apply hdh; unfold headerProtected; exact List.mem_append_left _ hR
        obtain ⟨pl1, pl2, pl3⟩ := pktPayload_write v r x hr hrb hcf
        rw [packetPayload_eq v l hs0.hl hs0.pl] at hm
        rw [packetPayload_eq _ l hs.hl hs.pl]
        have hmin := Scmp.min_le _ _ hm
        rw [Scmp.requiredSize_eq _ hmin] at hm
        obtain ⟨u1, u2⟩ := (ScmpMsg.requiredSize_ok_iff _ _ _).1 hm
        have hfit := hs0.fits
        have hhl : l.headerLen = pktHl v := hs0.hl
        have hplen := pktPayload_length v (by omega)
        have hread : readBits ((pktPayload (writeBits v r x)).take scmpMinSize) ScmpMessage.TYPE_RNG
            = readBits ((pktPayload v).take scmpMinSize) ScmpMessage.TYPE_RNG := by
          rw [readBits_take _ _ _ (by decide) scmpMinSize_type, readBits_take _ _ _ (by decide) scmpMinSize_type]
          unfold pktPayload payloadRange
          simp only [hlen, pl2, pl3]
          have hsz : pktHl v + min (pktPl v) (v.length - pktHl v) - pktHl v = min (pktPl v) (v.length - pktHl v) := by omega
          rw [hsz]
          apply readBits_write_sub v r _ x _ _ hr hrb (by decide)
          · have := scmpMinSize_type
            omega
          · omega
          · apply hd
            apply List.mem_append_right
            simp
        rw [Scmp.requiredSize_eq _ (by rw [pl1]; exact hmin), hread]
        have : ScmpMsg.requiredSize (scmpRow (readBits ((pktPayload v).take scmpMinSize) ScmpMessage.TYPE_RNG))
            (pktPayload (writeBits v r x)) = .ok m := by
          refine (ScmpMsg.requiredSize_ok_iff _ _ _).2 ⟨by rw [pl1]; exact u1, by rw [pl1]; exact u2⟩
        rw [this]
        exact h
      · contradiction
    · contradiction
  | udp =>
    obtain ⟨h1, h2, h3⟩ := (Udp.requiredSize_ok_iff v _).1 h
    have hread : readBits (writeBits v r x) UdpDatagram.LENGTH_RNG = readBits v UdpDatagram.LENGTH_RNG :=
      readBits_writeBits_disjoint v r _ x hr hrb (by decide)
        (Nat.le_trans (by decide : UdpDatagram.LENGTH_RNG.byteHi ≤ UdpDatagram.HEADER_SIZE_BYTES) h1)
        (hd _ (by simp [protectedRanges]))
    exact (Udp.requiredSize_ok_iff _ _).2 ⟨by rw [hlen]; exact h1, by rw [hread]; exact h2, by rw [hread, hlen]; exact h3⟩
  | scmp =>
    have hmin := Scmp.min_le _ _ h
    simp only [requiredSize] at h ⊢
    rw [Scmp.requiredSize_eq _ hmin] at h
    obtain ⟨u1, u2⟩ := (ScmpMsg.requiredSize_ok_iff _ _ _).1 h
    have hread : readBits ((writeBits v r x).take scmpMinSize) ScmpMessage.TYPE_RNG
        = readBits (v.take scmpMinSize) ScmpMessage.TYPE_RNG :=
      readBits_write_prefix v r _ x _ hr hrb (by decide) scmpMinSize_type hmin (hd _ (by simp [protectedRanges]))
    rw [Scmp.requiredSize_eq _ (by rw [hlen]; exact hmin), hread]
    exact (ScmpMsg.requiredSize_ok_iff _ _ _).2 ⟨by rw [hlen]; exact u1, by rw [hlen]; exact u2⟩
  | scmpMsg i =>
    obtain ⟨u1, u2⟩ := (ScmpMsg.requiredSize_ok_iff _ _ _).1 h
    exact (ScmpMsg.requiredSize_ok_iff _ _ _).2 ⟨by rw [hlen]; exact u1, by rw [hlen]; exact u2⟩


/-! ## the crate's safe setters are size-neutral -/

/-- `r'` is a sub-range of `r` (a write through a mutable slice accessor touches a sub-range of the slice) -/
def BitRange.sub (r' r : BitRange) : Prop := r'.wf ∧ r.start ≤ r'.start ∧ r'.stop ≤ r.stop

theorem sub_byteHi {r' r : BitRange} (h : BitRange.sub r' r) : r'.byteHi ≤ r.byteHi := by
  unfold BitRange.sub at h; unfold BitRange.byteHi; omega

theorem sub_disjoint {r' r p : BitRange} (h : BitRange.sub r' r) (hd : r.disjoint p) : r'.disjoint p := by
  unfold BitRange.sub BitRange.wf at h; unfold BitRange.disjoint at *; omega

theorem neutral_of_sub {k : ViewKind} {v : Bytes} {r' r : BitRange} (h : BitRange.sub r' r)
    (hb : r.byteHi ≤ v.length) (hd : ∀ p ∈ protectedRanges k v, r.disjoint p) : sizeNeutral k v r' :=
  ⟨h.1, Nat.le_trans (sub_byteHi h) hb, fun p hp => sub_disjoint h (hd p hp)⟩

theorem byteHi_mul8 (a b : Nat) : (BitRange.mk a (b * 8)).byteHi = b := by
  unfold BitRange.byteHi; simp; omega

/-! ### the extracted setter table (`Generated/Setters.lean`), evaluated

Each lemma is decided on the table the translator wrote from the current source: when a setter changes between
`gen_field_write!` and `gen_unsafe_field_write!` (or a setter is added) the lemma, and with it
`safe_setters_neutral`, has to be re-established. -/

theorem safeSettersOf_header : safeSettersOf "ScionHeaderView" =
    [CommonHeader.TRAFFIC_CLASS_RNG, CommonHeader.FLOW_ID_RNG, CommonHeader.NEXT_HEADER_RNG,
     AddressHeader.SRC_ISD_RNG.shift CommonHeader.SIZE_BYTES, AddressHeader.SRC_AS_RNG.shift CommonHeader.SIZE_BYTES,
     AddressHeader.DST_ISD_RNG.shift CommonHeader.SIZE_BYTES, AddressHeader.DST_AS_RNG.shift CommonHeader.SIZE_BYTES] := by
  decide

theorem safeSettersOf_std : safeSettersOf "StandardPathView" =
    [StdPathMeta.CURR_INFO_FIELD_RNG, StdPathMeta.CURR_HOP_FIELD_RNG] := by decide

theorem safeSettersOf_udp : safeSettersOf "UdpDatagramView" =
    [UdpDatagram.SRC_PORT_RNG, UdpDatagram.DST_PORT_RNG, UdpDatagram.CHECKSUM_RNG] := by decide

theorem safeSettersOf_scmp : safeSettersOf "ScmpPayloadView" = [ScmpMessage.CODE_RNG, ScmpMessage.CHECKSUM_RNG] := by
  decide

/-- the setters of an info / hop field view stay inside the 8 / 12 bytes of the field (this is what lets the
parent views list "all path data after the meta header" as one safe range) -/
theorem safeSettersOf_info : ∀ r ∈ safeSettersOf "InfoFieldView", r.wf ∧ r.byteHi ≤ InfoField.SIZE_BYTES := by decide
theorem safeSettersOf_hop : ∀ r ∈ safeSettersOf "HopFieldView", r.wf ∧ r.byteHi ≤ HopField.SIZE_BYTES := by decide

/-- **no safe setter of a typed SCMP message view touches the type byte** (the only size-determining field of
the `ScmpPayloadView` the typed view is handed out from by `message_mut()`), and every one stays inside the
fixed header of its kind -/
theorem safeSettersOf_msg : ∀ k ∈ scmpKinds, ∀ r ∈ safeSettersOf (msgViewName k),
    r.wf ∧ r.byteHi ≤ k.headerSize ∧ r.disjoint ScmpMessage.TYPE_RNG := by decide

/-- every safe setter of the header view (and every write through `path_mut()`'s mutable sub-views) is
size-neutral on an accepted header -/
theorem headerSafe_neutral (k : ViewKind) (v : Bytes) (l : HdrLayout) (hs : HdrSpec v l) (hlen : l.headerLen ≤ v.length)
    (hk : protectedRanges k v = headerProtected v ∨
          protectedRanges k v = headerProtected v ++ [UdpDatagram.LENGTH_RNG.shift (pktHl v)] ∨
          protectedRanges k v = headerProtected v ++ [ScmpMessage.TYPE_RNG.shift (pktHl v)])
    (r : BitRange) (hr : r ∈ headerSafe v) (r' : BitRange) (hsub : BitRange.sub r' r) : sizeNeutral k v r' := by
  have h12 := hs.len12
  have hsum := hs.sum
  have hhl := hs.hl
  have hpath := hs.path
  unfold HdrLayout.pathOff at hsum
  rw [hs.src, hs.dst] at hsum
  unfold PathSpec at hpath
  rw [hs.pt] at hpath
  unfold HdrLayout.pathOff at hpath
  rw [hs.src, hs.dst] at hpath
  have hadd := addrHdrSize_eq (addrSize (commonFields v).st) (addrSize (commonFields v).dt)
  have e16 : AddressHeader.FIXED_SIZE_BITS / 8 = 16 := by decide
  have e12 : CommonHeader.SIZE_BYTES = 12 := by decide
  have e4 : StdPathMeta.SIZE_BYTES = 4 := by decide
  have e32 : OneHopPath.SIZE_BYTES = 32 := by decide
  have hpk : pktHl v = l.headerLen := hs.hl.symm
  generalize hoff : CommonHeader.SIZE_BYTES + addrHdrSize (addrSize (commonFields v).st) (addrSize (commonFields v).dt) = off at *
  have hoff28 : 28 ≤ off := by omega
  apply neutral_of_sub hsub
  · -- in bounds
    unfold headerSafe at hr
    rw [safeSettersOf_header, safeSettersOf_std] at hr
    simp only [hoff] at hr
    rcases List.mem_append.1 hr with hr | hr
    · simp only [List.mem_cons, List.mem_nil_iff, or_false] at hr
      rcases hr with rfl | rfl | rfl | rfl | rfl | rfl | rfl <;>
        simp [BitRange.byteHi, BitRange.shift, CommonHeader.TRAFFIC_CLASS_RNG, CommonHeader.FLOW_ID_RNG,
          CommonHeader.NEXT_HEADER_RNG, AddressHeader.SRC_ISD_RNG, AddressHeader.SRC_AS_RNG,
          AddressHeader.DST_ISD_RNG, AddressHeader.DST_AS_RNG, e12] <;> omega
    · split at hpath <;> rename_i hkk <;> simp only [hkk] at hr
      · simp only [List.map_cons, List.map_nil, List.cons_append, List.nil_append, List.mem_cons, List.mem_nil_iff, or_false] at hr
        obtain ⟨p1, p2, p3⟩ := hpath
        rcases hr with rfl | rfl | rfl
        · simp [BitRange.byteHi, BitRange.shift, StdPathMeta.CURR_INFO_FIELD_RNG]; omega
        · simp [BitRange.byteHi, BitRange.shift, StdPathMeta.CURR_HOP_FIELD_RNG]; omega
        · rw [byteHi_mul8]; omega
      · simp only [List.mem_cons, List.mem_nil_iff, or_false] at hr
        subst hr
        rw [byteHi_mul8]; omega
      · simp at hr
      · simp only [List.mem_cons, List.mem_nil_iff, or_false] at hr
        subst hr
        rw [byteHi_mul8]; omega
  · -- disjoint from every protected range
    intro p hp
    have hp' : p ∈ headerProtected v ∨ p = UdpDatagram.LENGTH_RNG.shift (pktHl v) ∨ p = ScmpMessage.TYPE_RNG.shift (pktHl v) := by
      rcases hk with hk | hk | hk <;> rw [hk] at hp
      · exact Or.inl hp
      · rcases List.mem_append.1 hp with hp | hp
        · exact Or.inl hp
        · simp at hp; exact Or.inr (Or.inl hp)
      · rcases List.mem_append.1 hp with hp | hp
        · exact Or.inl hp
        · simp at hp; exact Or.inr (Or.inr hp)
    -- every safe range ends at or before bit `8 * headerLen` and starts at bit 4 or later
    have hrange : r.stop ≤ l.headerLen * 8 ∧
        (r = CommonHeader.TRAFFIC_CLASS_RNG ∨ r = CommonHeader.FLOW_ID_RNG ∨ r = CommonHeader.NEXT_HEADER_RNG ∨
         (96 ≤ r.start ∧ r.stop ≤ off * 8) ∨
         (pathKind (commonFields v).pt = .scion ∧ (r = StdPathMeta.CURR_INFO_FIELD_RNG.shift off ∨
            r = StdPathMeta.CURR_HOP_FIELD_RNG.shift off ∨ (off + 4) * 8 ≤ r.start)) ∨
         (pathKind (commonFields v).pt ≠ .scion ∧ off * 8 ≤ r.start)) := by
      unfold headerSafe at hr
      rw [safeSettersOf_header, safeSettersOf_std] at hr
      simp only [hoff] at hr
      rcases List.mem_append.1 hr with hr | hr
      · simp only [List.mem_cons, List.mem_nil_iff, or_false] at hr
        rcases hr with rfl | rfl | rfl | rfl | rfl | rfl | rfl
        · exact ⟨by simp [CommonHeader.TRAFFIC_CLASS_RNG]; omega, Or.inl rfl⟩
        · exact ⟨by simp [CommonHeader.FLOW_ID_RNG]; omega, Or.inr (Or.inl rfl)⟩
        · exact ⟨by simp [CommonHeader.NEXT_HEADER_RNG]; omega, Or.inr (Or.inr (Or.inl rfl))⟩
        all_goals
          refine ⟨by simp [BitRange.shift, AddressHeader.SRC_ISD_RNG, AddressHeader.SRC_AS_RNG,
            AddressHeader.DST_ISD_RNG, AddressHeader.DST_AS_RNG, e12]; omega, Or.inr (Or.inr (Or.inr (Or.inl ?_)))⟩
          simp [BitRange.shift, AddressHeader.SRC_ISD_RNG, AddressHeader.SRC_AS_RNG,
            AddressHeader.DST_ISD_RNG, AddressHeader.DST_AS_RNG, e12]; omega
      · split at hpath <;> rename_i hkk <;> simp only [hkk] at hr
        · simp only [List.map_cons, List.map_nil, List.cons_append, List.nil_append, List.mem_cons, List.mem_nil_iff, or_false] at hr
          obtain ⟨p1, p2, p3⟩ := hpath
          rcases hr with rfl | rfl | rfl
          · exact ⟨by simp [BitRange.shift, StdPathMeta.CURR_INFO_FIELD_RNG]; omega,
              Or.inr (Or.inr (Or.inr (Or.inr (Or.inl ⟨hkk, Or.inl rfl⟩))))⟩
          · exact ⟨by simp [BitRange.shift, StdPathMeta.CURR_HOP_FIELD_RNG]; omega,
              Or.inr (Or.inr (Or.inr (Or.inr (Or.inl ⟨hkk, Or.inr (Or.inl rfl)⟩))))⟩
          · exact ⟨by simp; omega, Or.inr (Or.inr (Or.inr (Or.inr (Or.inl ⟨hkk, Or.inr (Or.inr (by simp; omega))⟩))))⟩
        · simp only [List.mem_cons, List.mem_nil_iff, or_false] at hr
          subst hr
          exact ⟨by simp; omega, Or.inr (Or.inr (Or.inr (Or.inr (Or.inr ⟨by rw [hkk]; simp, by simp⟩))))⟩
        · simp at hr
        · simp only [List.mem_cons, List.mem_nil_iff, or_false] at hr
          subst hr
          exact ⟨by simp; omega, Or.inr (Or.inr (Or.inr (Or.inr (Or.inr ⟨by rw [hkk]; simp, by simp⟩))))⟩
    obtain ⟨hstop, hcases⟩ := hrange
    rcases hp' with hp' | rfl | rfl
    · unfold headerProtected at hp'
      simp only [hoff] at hp'
      rcases List.mem_append.1 hp' with hp' | hp'
      · simp only [List.mem_cons, List.mem_nil_iff, or_false] at hp'
        rcases hcases with rfl | rfl | rfl | ⟨c1, c2⟩ | ⟨_, rfl | rfl | c⟩ | ⟨_, c⟩ <;>
          rcases hp' with rfl | rfl | rfl | rfl | rfl | rfl <;>
          simp [BitRange.disjoint, BitRange.shift, CommonHeader.VERSION_RNG, CommonHeader.HEADER_LEN_RNG,
            CommonHeader.PAYLOAD_LEN_RNG, CommonHeader.PATH_TYPE_RNG, CommonHeader.DST_ADDR_INFO_RNG,
            CommonHeader.SRC_ADDR_INFO_RNG, CommonHeader.TRAFFIC_CLASS_RNG, CommonHeader.FLOW_ID_RNG,
            CommonHeader.NEXT_HEADER_RNG, StdPathMeta.CURR_INFO_FIELD_RNG, StdPathMeta.CURR_HOP_FIELD_RNG] <;> omega
      · split at hp' <;> rename_i hkk
        · simp only [List.mem_cons, List.mem_nil_iff, or_false] at hp'
          rcases hcases with rfl | rfl | rfl | ⟨c1, c2⟩ | ⟨_, rfl | rfl | c⟩ | ⟨c0, c⟩ <;>
            rcases hp' with rfl | rfl | rfl <;>
            (try (exact absurd hkk c0)) <;>
            simp [BitRange.disjoint, BitRange.shift, StdPathMeta.SEG0_LEN_RNG, StdPathMeta.SEG1_LEN_RNG,
              StdPathMeta.SEG2_LEN_RNG, CommonHeader.TRAFFIC_CLASS_RNG, CommonHeader.FLOW_ID_RNG,
              CommonHeader.NEXT_HEADER_RNG, StdPathMeta.CURR_INFO_FIELD_RNG, StdPathMeta.CURR_HOP_FIELD_RNG] <;> omega
        · simp at hp'
    · simp [BitRange.disjoint, BitRange.shift, UdpDatagram.LENGTH_RNG]; omega
    · simp [BitRange.disjoint, BitRange.shift, ScmpMessage.TYPE_RNG]; omega


/-- **safe setters are size-neutral**: on an accepted view, every write through a safe setter or through a
mutable slice handed out by a safe accessor (any sub-range of an entry of `safeSetterRanges`) is inside the
view and shares no bit with a size-determining field. -/
theorem safe_setters_neutral (k : ViewKind) (v : Bytes) (h : requiredSize k v = .ok v.length)
    (r : BitRange) (hr : r ∈ safeSetterRanges k v) (r' : BitRange) (hsub : BitRange.sub r' r) :
    sizeNeutral k v r' := by
  cases k with
  | header =>
    simp only [requiredSize, Header.requiredSize] at h
    split at h
    · rename_i l hl
      injection h with h
      exact headerSafe_neutral _ v l ((Header.layout_ok_iff v l).1 hl) (by omega) (Or.inl rfl) r hr r' hsub
    · contradiction
  | rawPacket =>
    obtain ⟨l, hs, h1, h2, h3, h4⟩ := raw_valid v h
    simp only [safeSetterRanges] at hr
    rcases List.mem_append.1 hr with hr | hr
    · exact headerSafe_neutral _ v l hs h3 (Or.inl rfl) r hr r' hsub
    · simp only [List.mem_cons, List.mem_nil_iff, or_false] at hr
      subst hr
      apply neutral_of_sub hsub
      · rw [byteHi_mul8]; exact Nat.le_refl _
      · intro p hp
        simp only [protectedRanges] at hp
        -- every protected header bit lies before bit 8 * headerLen
        have hsum := hs.sum
        have hpath := hs.path
        unfold HdrLayout.pathOff at hsum
        unfold PathSpec at hpath
        rw [hs.pt] at hpath
        unfold HdrLayout.pathOff at hpath
        rw [hs.src, hs.dst] at hsum hpath
        have e12 : CommonHeader.SIZE_BYTES = 12 := by decide
        have e4 : StdPathMeta.SIZE_BYTES = 4 := by decide
        unfold headerProtected at hp
        rcases List.mem_append.1 hp with hp | hp
        · simp only [List.mem_cons, List.mem_nil_iff, or_false] at hp
          rcases hp with rfl | rfl | rfl | rfl | rfl | rfl <;>
            simp [BitRange.disjoint, CommonHeader.VERSION_RNG, CommonHeader.HEADER_LEN_RNG,
              CommonHeader.PAYLOAD_LEN_RNG, CommonHeader.PATH_TYPE_RNG, CommonHeader.DST_ADDR_INFO_RNG,
              CommonHeader.SRC_ADDR_INFO_RNG] <;> omega
        · split at hpath <;> rename_i hkk <;> simp only [hkk] at hp
          · obtain ⟨p1, p2, p3⟩ := hpath
            simp only [List.mem_cons, List.mem_nil_iff, or_false] at hp
            rcases hp with rfl | rfl | rfl <;>
              simp [BitRange.disjoint, BitRange.shift, StdPathMeta.SEG0_LEN_RNG, StdPathMeta.SEG1_LEN_RNG,
                StdPathMeta.SEG2_LEN_RNG] <;> omega
          · simp at hp
          · simp at hp
          · simp at hp
  | udpPacket =>
    simp only [requiredSize, UdpPacket.requiredSize] at h
    split at h
    · rename_i l hl
      have hs := (Header.layout_ok_iff v l).1 hl
      exact headerSafe_neutral _ v l hs hs.fits (Or.inr (Or.inl rfl)) r hr r' hsub
    · contradiction
  | scmpPacket =>
    simp only [requiredSize, ScmpPacket.requiredSize] at h
    split at h
    · rename_i l hl
      have hs := (Header.layout_ok_iff v l).1 hl
      exact headerSafe_neutral _ v l hs hs.fits (Or.inr (Or.inr rfl)) r hr r' hsub
    · contradiction
  | stdPath =>
    obtain ⟨h1, h2, h3⟩ := (StdPath.requiredSize_ok_iff v _).1 h
    have e4 : StdPathMeta.SIZE_BYTES = 4 := by decide
    simp only [safeSetterRanges, safeSettersOf_std, List.cons_append, List.nil_append, List.mem_cons, List.mem_nil_iff, or_false] at hr
    apply neutral_of_sub hsub
    · rcases hr with rfl | rfl | rfl
      · simp [BitRange.byteHi, StdPathMeta.CURR_INFO_FIELD_RNG]; omega
      · simp [BitRange.byteHi, StdPathMeta.CURR_HOP_FIELD_RNG]; omega
      · rw [byteHi_mul8]; exact Nat.le_refl _
    · intro p hp
      simp only [protectedRanges, List.mem_cons, List.mem_nil_iff, or_false] at hp
      rcases hr with rfl | rfl | rfl <;> rcases hp with rfl | rfl | rfl <;>
        simp [BitRange.disjoint, StdPathMeta.SEG0_LEN_RNG, StdPathMeta.SEG1_LEN_RNG, StdPathMeta.SEG2_LEN_RNG,
          StdPathMeta.CURR_INFO_FIELD_RNG, StdPathMeta.CURR_HOP_FIELD_RNG, e4]
  | oneHop =>
    obtain ⟨h1, h2⟩ := (fixed_ok_iff _ _ v _).1 h
    simp only [safeSetterRanges, List.mem_cons, List.mem_nil_iff, or_false] at hr
    subst hr
    have e : OneHopPath.TOTAL.byteHi = OneHopPath.SIZE_BYTES := by decide
    exact neutral_of_sub hsub (by omega) (by intro p hp; simp [protectedRanges] at hp)
  | infoField =>
    obtain ⟨h1, h2⟩ := (fixed_ok_iff _ _ v _).1 h
    simp only [safeSetterRanges] at hr
    obtain ⟨_, hb⟩ := safeSettersOf_info r hr
    exact neutral_of_sub hsub (by omega) (by intro p hp; simp [protectedRanges] at hp)
  | hopField =>
    obtain ⟨h1, h2⟩ := (fixed_ok_iff _ _ v _).1 h
    simp only [safeSetterRanges] at hr
    obtain ⟨_, hb⟩ := safeSettersOf_hop r hr
    exact neutral_of_sub hsub (by omega) (by intro p hp; simp [protectedRanges] at hp)
  | udp =>
    obtain ⟨h1, h2, h3⟩ := (Udp.requiredSize_ok_iff v _).1 h
    have e8 : UdpDatagram.HEADER_SIZE_BYTES = 8 := by decide
    simp only [safeSetterRanges, safeSettersOf_udp, List.cons_append, List.nil_append, List.mem_cons, List.mem_nil_iff, or_false] at hr
    apply neutral_of_sub hsub
    · rcases hr with rfl | rfl | rfl | rfl
      · simp [BitRange.byteHi, UdpDatagram.SRC_PORT_RNG]; omega
      · simp [BitRange.byteHi, UdpDatagram.DST_PORT_RNG]; omega
      · simp [BitRange.byteHi, UdpDatagram.CHECKSUM_RNG]; omega
      · rw [byteHi_mul8]; exact Nat.le_refl _
    · intro p hp
      simp only [protectedRanges, List.mem_cons, List.mem_nil_iff, or_false] at hp
      subst hp
      rcases hr with rfl | rfl | rfl | rfl <;>
        simp [BitRange.disjoint, UdpDatagram.SRC_PORT_RNG, UdpDatagram.DST_PORT_RNG, UdpDatagram.CHECKSUM_RNG,
          UdpDatagram.LENGTH_RNG, e8]
  | scmp =>
    have hmin := Scmp.min_le _ _ h
    have e8 : scmpMinSize = 8 := by decide
    simp only [requiredSize] at h
    rw [Scmp.requiredSize_eq v hmin] at h
    have hk := scmpRow_mem (readBits (v.take scmpMinSize) ScmpMessage.TYPE_RNG)
    obtain ⟨hs1, hs2⟩ := (ScmpMsg.requiredSize_ok_iff _ v _).1 h
    have hwf := (scmpKinds_wf _ hk).1
    simp only [safeSetterRanges, safeSettersOf_scmp, List.cons_append, List.nil_append, List.mem_cons] at hr
    rcases hr with rfl | rfl | hr
    · exact neutral_of_sub hsub (by simp [BitRange.byteHi, ScmpMessage.CODE_RNG]; omega)
        (by intro p hp; simp only [protectedRanges, List.mem_cons, List.mem_nil_iff, or_false] at hp; subst hp
            simp [BitRange.disjoint, ScmpMessage.CODE_RNG, ScmpMessage.TYPE_RNG])
    · exact neutral_of_sub hsub (by simp [BitRange.byteHi, ScmpMessage.CHECKSUM_RNG]; omega)
        (by intro p hp; simp only [protectedRanges, List.mem_cons, List.mem_nil_iff, or_false] at hp; subst hp
            simp [BitRange.disjoint, ScmpMessage.CHECKSUM_RNG, ScmpMessage.TYPE_RNG])
    · unfold scmpMsgSafe at hr
      rcases List.mem_append.1 hr with hr | hr
      · obtain ⟨_, hb, hd⟩ := safeSettersOf_msg _ hk r hr
        exact neutral_of_sub hsub (by omega)
          (by intro p hp; simp only [protectedRanges, List.mem_cons, List.mem_nil_iff, or_false] at hp; subst hp; exact hd)
      · split at hr
        · simp only [List.mem_cons, List.mem_nil_iff, or_false] at hr
          subst hr
          exact neutral_of_sub hsub (by rw [byteHi_mul8]; exact Nat.le_refl _)
            (by intro p hp; simp only [protectedRanges, List.mem_cons, List.mem_nil_iff, or_false] at hp; subst hp
                refine Or.inr ?_
                show ScmpMessage.TYPE_RNG.stop ≤ _ * 8
                have : ScmpMessage.TYPE_RNG.stop = 8 := by decide
                omega)
        · simp at hr
  | scmpMsg i =>
    obtain ⟨hs1, hs2⟩ := (ScmpMsg.requiredSize_ok_iff _ v _).1 h
    simp only [safeSetterRanges] at hr
    unfold scmpMsgSafe at hr
    rcases List.mem_append.1 hr with hr | hr
    · have hk : scmpKinds.getD i (scmpRow 256) ∈ scmpKinds := by
        unfold List.getD
        cases hg : scmpKinds[i]? with
        | none => simpa using scmpRow_mem 256
        | some k => simpa using List.mem_of_getElem? hg
      obtain ⟨_, hb, _⟩ := safeSettersOf_msg _ hk r hr
      exact neutral_of_sub hsub (by omega) (by intro p hp; simp [protectedRanges] at hp)
    · split at hr
      · simp only [List.mem_cons, List.mem_nil_iff, or_false] at hr
        subst hr
        exact neutral_of_sub hsub (by rw [byteHi_mul8]; exact Nat.le_refl _) (by intro p hp; simp [protectedRanges] at hp)
      · simp at hr

/-! ## mutator sequences -/

/-- a sequence of writes, each size-neutral on the bytes it is applied to -/
def NeutralSeq (k : ViewKind) : Bytes → List (BitRange × Nat) → Prop
  | _, [] => True
  | v, (r, x) :: ws => sizeNeutral k v r ∧ NeutralSeq k (writeBits v r x) ws

def applyWrites (v : Bytes) (ws : List (BitRange × Nat)) : Bytes :=
  ws.foldl (fun b w => writeBits b w.1 w.2) v

theorem writes_preserve_size_view (k : ViewKind) (v : Bytes) (ws : List (BitRange × Nat))
    (h : requiredSize k v = .ok v.length) (hn : NeutralSeq k v ws) :
    (applyWrites v ws).length = v.length ∧ requiredSize k (applyWrites v ws) = .ok v.length := by
  induction ws generalizing v with
  | nil => exact ⟨rfl, h⟩
  | cons w ws ih =>
    obtain ⟨r, x⟩ := w
    obtain ⟨h1, h2⟩ := hn
    have hl := writeBits_length v r x h1.1 h1.2.1
    have := ih (writeBits v r x) (by rw [hl]; exact write_preserves_size_view k v r x h h1) h2
    simp only [applyWrites, List.foldl_cons] at this ⊢
    rw [hl] at this
    exact this

/-- `stdDataSize` is invariant under the two permutations `try_reverse` applies to the segment lengths -/
theorem stdDataSize_swap02 (a b c : Nat) : stdDataSize c b a = stdDataSize a b c := by
  have h1 : infoCount c b a = infoCount a b c := by unfold infoCount; omega
  have h2 : hopCount c b a = hopCount a b c := by unfold hopCount; omega
  unfold stdDataSize; rw [h1, h2]
theorem stdDataSize_swap01 (a b c : Nat) : stdDataSize b a c = stdDataSize a b c := by
  have h1 : infoCount b a c = infoCount a b c := by unfold infoCount; omega
  have h2 : hopCount b a c = hopCount a b c := by unfold hopCount; omega
  unfold stdDataSize; rw [h1, h2]

end ScionVerif.Access

/-! # Checksum: the digest of `scion/checksum.rs` computes the RFC 1071 sum, for every slice alignment -/

namespace ScionVerif.Checksum
open ScionVerif

theorem sum_cons (x : Nat) (l : List Nat) : sum (x :: l) = x + sum l := by
  unfold sum
  have : ∀ (l : List Nat) (a : Nat), l.foldl (· + ·) a = a + l.foldl (· + ·) 0 := by
    intro l
    induction l with
    | nil => intro a; simp
    | cons y ys ih => intro a; simp only [List.foldl_cons]; rw [ih (a + y), ih (0 + y)]; omega
  simp only [List.foldl_cons]
  rw [this l (0 + x)]; omega

theorem sum_nil : sum [] = 0 := rfl

/-- sums of the bytes at even / odd positions -/
def eo : Bytes → Nat × Nat
  | [] => (0, 0)
  | a :: r => (a.toNat + (eo r).2, (eo r).1)

theorem eo_cons2 (a b : UInt8) (r : Bytes) : eo (a :: b :: r) = (a.toNat + (eo r).1, b.toNat + (eo r).2) := by
  simp [eo]

theorem two_step {P : Bytes → Prop} (h0 : P []) (h1 : ∀ a, P [a]) (h2 : ∀ a b r, P r → P (a :: b :: r)) :
    ∀ d, P d := by
  have : ∀ d, P d ∧ ∀ x, P (x :: d) := by
    intro d
    induction d with
    | nil => exact ⟨h0, h1⟩
    | cons y ys ih => exact ⟨ih.2 y, fun x => h2 x y ys ih.1⟩
  exact fun d => (this d).1

theorem sumBE_eo (d : Bytes) : sumBE d = 256 * (eo d).1 + (eo d).2 := by
  induction d using two_step with
  | h0 => rfl
  | h1 a => simp [sumBE, wordsBE, eo, sum_cons, sum_nil]; omega
  | h2 a b r ih =>
    unfold sumBE at ih ⊢
    rw [wordsBE, sum_cons, ih, eo_cons2]; simp only []; omega

theorem pairs_eo (d : Bytes) : (pairsLE d).2 + sum (pairsLE d).1 = (eo d).1 + 256 * (eo d).2 := by
  induction d using two_step with
  | h0 => rfl
  | h1 a => simp [pairsLE, eo, sum_nil]
  | h2 a b r ih => rw [pairsLE, eo_cons2]; simp only [sum_cons]; omega

theorem eo_bound (d : Bytes) : (eo d).1 ≤ 255 * ((d.length + 1) / 2) ∧ (eo d).2 ≤ 255 * (d.length / 2) := by
  induction d using two_step with
  | h0 => simp [eo]
  | h1 a => have := a.toNat_lt; simp [eo]; omega
  | h2 a b r ih =>
    have := a.toNat_lt; have := b.toNat_lt
    rw [eo_cons2]; simp only [List.length_cons]; omega

theorem eo_append_even (a b : Bytes) (h : a.length % 2 = 0) :
    eo (a ++ b) = ((eo a).1 + (eo b).1, (eo a).2 + (eo b).2) := by
  induction a using two_step with
  | h0 => simp [eo]
  | h1 x => simp at h
  | h2 x y r ih =>
    have hr : r.length % 2 = 0 := by simp only [List.length_cons] at h; omega
    simp only [List.cons_append]
    rw [eo_cons2, eo_cons2, ih hr]; simp only []
    congr 1 <;> omega

theorem sumBE_append_even (a b : Bytes) (h : a.length % 2 = 0) : sumBE (a ++ b) = sumBE a + sumBE b := by
  rw [sumBE_eo, sumBE_eo, sumBE_eo, eo_append_even a b h]; simp only []; omega

/-! ## folding -/

theorem fold16_props (x : Nat) (h : x < U32) :
    fold16 x ≤ 65535 ∧ fold16 x % 65535 = x % 65535 ∧ (fold16 x = 0 ↔ x = 0) := by
  unfold U32 at h
  unfold fold16
  simp only []
  omega

theorem swap16_props (s : Nat) (h : s ≤ 65535) :
    swap16 s ≤ 65535 ∧ swap16 s % 65535 = (256 * s) % 65535 ∧ (swap16 s = 0 ↔ s = 0) ∧ swap16 (swap16 s) = s := by
  unfold swap16
  omega

/-- the running digest `acc` represents the one's-complement sum `S` -/
def Rep (acc S : Nat) : Prop := acc % 65535 = S % 65535 ∧ (acc = 0 ↔ S = 0)

theorem Rep.add {a S b T : Nat} (h1 : Rep a S) (h2 : Rep b T) : Rep (a + b) (S + T) := by
  unfold Rep at *; omega

theorem Rep.fold {a S : Nat} (h : Rep a S) (ha : a < U32) (hS : S < U32) : fold16 a = fold16 S := by
  have := fold16_props a ha
  have := fold16_props S hS
  unfold Rep at h
  omega

/-- what one `add_slice` call adds to the digest: a representative of the slice's big-endian word sum,
    whatever the alignment of the slice -/
theorem addSlice_spec (acc : Nat) (al : Bool) (d : Bytes) (hlen : d.length ≤ 131072) (hacc : acc + 65535 < U32) :
    ∃ add, addSlice acc al d = some (acc + add) ∧ add ≤ 65535 ∧ Rep add (sumBE d) := by
  cases d with
  | nil => exact ⟨0, by simp [addSlice], by omega, by simp [Rep, sumBE, wordsBE, sum_nil]⟩
  | cons d0 tl =>
    have hb := eo_bound (d0 :: tl)
    have hE := sumBE_eo (d0 :: tl)
    simp only [List.length_cons] at hb hlen
    unfold addSlice
    simp only []
    cases al with
    | true =>
      simp only [if_true]
      have hp := pairs_eo (d0 :: tl)
      have hs : 0 + (pairsLE (d0 :: tl)).2 + sum (pairsLE (d0 :: tl)).1 = (eo (d0 :: tl)).1 + 256 * (eo (d0 :: tl)).2 := by omega
      rw [hs]
      have hlt : (eo (d0 :: tl)).1 + 256 * (eo (d0 :: tl)).2 < U32 := by unfold U32; omega
      have hf := fold16_props _ hlt
      have hw := swap16_props _ hf.1
      have hn1 : ¬ ((eo (d0 :: tl)).1 + 256 * (eo (d0 :: tl)).2 ≥ U32) := by omega
      have hn2 : ¬ (acc + swap16 (fold16 ((eo (d0 :: tl)).1 + 256 * (eo (d0 :: tl)).2)) ≥ U32) := by omega
      simp only [hn1, hn2, if_false]
      refine ⟨_, rfl, hw.1, ?_⟩
      unfold Rep
      rw [hE]
      omega
    | false =>
      simp only [Bool.false_eq_true, if_false]
      have hp := pairs_eo tl
      have he : eo (d0 :: tl) = (d0.toNat + (eo tl).2, (eo tl).1) := rfl
      rw [he] at hb hE
      simp only [] at hb hE
      have hs : d0.toNat * 256 + (pairsLE tl).2 + sum (pairsLE tl).1 = sumBE (d0 :: tl) := by rw [hE]; omega
      rw [hs]
      have hlt : sumBE (d0 :: tl) < U32 := by rw [hE]; unfold U32; omega
      have hf := fold16_props _ hlt
      have hw := swap16_props _ hf.1
      have hn1 : ¬ (sumBE (d0 :: tl) ≥ U32) := by omega
      rw [hw.2.2.2]
      have hn2 : ¬ (acc + fold16 (sumBE (d0 :: tl)) ≥ U32) := by omega
      simp only [hn1, hn2, if_false]
      refine ⟨_, rfl, hf.1, ?_⟩
      unfold Rep
      omega


theorem u8_ofNat_mod (x : Nat) : (UInt8.ofNat (x % 256)).toNat = x % 256 := by
  simp [UInt8.toNat_ofNat']

theorem sumBE_beBytes8 (v : Nat) :
    sumBE (beBytes 8 v) = v % 65536 + (v / 65536) % 65536 + (v / 4294967296) % 65536 + (v / 281474976710656) % 65536 := by
  unfold beBytes sumBE
  simp only [List.range, List.range.loop, List.map, wordsBE, sum_cons, sum_nil, u8_ofNat_mod]
  simp only [Nat.reducePow, Nat.reduceSub]
  omega

theorem sumBE_beBytes4 (v : Nat) : sumBE (beBytes 4 v) = v % 65536 + (v / 65536) % 65536 := by
  unfold beBytes sumBE
  simp only [List.range, List.range.loop, List.map, wordsBE, sum_cons, sum_nil, u8_ofNat_mod]
  simp only [Nat.reducePow, Nat.reduceSub]
  omega

theorem beBytes_length (k n : Nat) : (beBytes k n).length = k := by simp [beBytes]

theorem Rep.refl (x : Nat) : Rep x x := ⟨rfl, Iff.rfl⟩

theorem addU64_spec (acc v : Nat) (h : acc + 4 * 65535 < U32) :
    addU64 acc v = some (acc + sumBE (beBytes 8 v)) ∧ sumBE (beBytes 8 v) ≤ 4 * 65535 := by
  have b := sumBE_beBytes8 v
  have hU : U32 = 4294967296 := rfl
  unfold addU64; simp only []; rw [b]
  have h' : acc + 4 * 65535 < 4294967296 := h
  have : ¬ (acc + (v % 65536 + v / 65536 % 65536 + v / 4294967296 % 65536 + v / 281474976710656 % 65536) ≥ U32) := by
    show ¬ (_ ≥ 4294967296); omega
  simp only [this, if_false]
  exact ⟨trivial, by omega⟩

theorem addU32_spec (acc v : Nat) (h : acc + 2 * 65535 < U32) :
    addU32 acc v = some (acc + sumBE (beBytes 4 v)) ∧ sumBE (beBytes 4 v) ≤ 2 * 65535 := by
  have b := sumBE_beBytes4 v
  have hU : U32 = 4294967296 := rfl
  unfold addU32; simp only []; rw [b]
  have h' : acc + 2 * 65535 < 4294967296 := h
  have : ¬ (acc + (v % 65536 + v / 65536 % 65536) ≥ U32) := by show ¬ (_ ≥ 4294967296); omega
  simp only [this, if_false]
  exact ⟨trivial, by omega⟩

theorem sumBE_bound (d : Bytes) : sumBE d ≤ 65535 * ((d.length + 1) / 2) := by
  have := sumBE_eo d
  have := eo_bound d
  omega

/-- **the digest computes the specified checksum, for every alignment of the three slices** -/
theorem messageChecksum_eq_spec (dstIa srcIa : Nat) (dstHost srcHost : Bytes) (proto : Nat) (msg : Bytes)
    (a1 a2 a3 : Bool)
    (hd : dstHost.length % 2 = 0) (hs : srcHost.length % 2 = 0) (hdl : dstHost.length ≤ 16) (hsl : srcHost.length ≤ 16)
    (hm : msg.length ≤ 130000) :
    messageChecksum dstIa srcIa dstHost srcHost proto msg a1 a2 a3
      = some (specChecksum (pseudoHeader dstIa srcIa dstHost srcHost proto msg.length ++ msg)) := by
  have hU : U32 = 4294967296 := rfl
  have hspec : sumBE (pseudoHeader dstIa srcIa dstHost srcHost proto msg.length ++ msg)
      = sumBE (beBytes 8 dstIa) + sumBE (beBytes 8 srcIa) + sumBE dstHost + sumBE srcHost
        + sumBE (beBytes 4 msg.length) + sumBE (beBytes 4 proto) + sumBE msg := by
    unfold pseudoHeader
    simp only [List.append_assoc]
    rw [sumBE_append_even _ _ (by rw [beBytes_length]), sumBE_append_even _ _ (by rw [beBytes_length]),
      sumBE_append_even _ _ hd, sumBE_append_even _ _ hs, sumBE_append_even _ _ (by rw [beBytes_length]),
      sumBE_append_even _ _ (by rw [beBytes_length])]
    omega
  have bd := sumBE_bound dstHost
  have bs := sumBE_bound srcHost
  have bm := sumBE_bound msg
  unfold messageChecksum specChecksum
  rw [hspec]
  obtain ⟨e1, c1⟩ := addU64_spec 0 dstIa (by rw [hU]; omega)
  generalize sumBE (beBytes 8 dstIa) = A at *
  rw [e1]; simp only [Nat.zero_add]
  obtain ⟨e2, c2⟩ := addU64_spec A srcIa (by rw [hU]; omega)
  generalize sumBE (beBytes 8 srcIa) = B at *
  rw [e2]; simp only []
  obtain ⟨ad, e3, had, r3⟩ := addSlice_spec (A + B) a1 dstHost (by omega) (by rw [hU]; omega)
  rw [e3]; simp only []
  obtain ⟨as_, e4, has, r4⟩ := addSlice_spec (A + B + ad) a2 srcHost (by omega) (by rw [hU]; omega)
  rw [e4]; simp only []
  have hml : msg.length % U32 = msg.length := Nat.mod_eq_of_lt (by rw [hU]; omega)
  rw [hml]
  obtain ⟨e5, c5⟩ := addU32_spec (A + B + ad + as_) msg.length (by rw [hU]; omega)
  generalize sumBE (beBytes 4 msg.length) = L at *
  rw [e5]; simp only []
  obtain ⟨e6, c6⟩ := addU32_spec (A + B + ad + as_ + L) proto (by rw [hU]; omega)
  generalize sumBE (beBytes 4 proto) = Q at *
  rw [e6]; simp only []
  obtain ⟨am, e7, ham, r7⟩ := addSlice_spec (A + B + ad + as_ + L + Q) a3 msg (by omega) (by rw [hU]; omega)
  rw [e7]; simp only []
  generalize sumBE dstHost = D at *
  generalize sumBE srcHost = S at *
  generalize sumBE msg = M at *
  have hrep : Rep (A + B + ad + as_ + L + Q + am) (A + B + D + S + L + Q + M) :=
    ((((((Rep.refl A).add (Rep.refl B)).add r3).add r4).add (Rep.refl L)).add (Rep.refl Q)).add r7
  have hlt1 : A + B + ad + as_ + L + Q + am < U32 := by rw [hU]; omega
  have hlt2 : A + B + D + S + L + Q + M < U32 := by rw [hU]; omega
  have hfold := hrep.fold hlt1 hlt2
  have hp := fold16_props _ hlt2
  unfold finish
  rw [hfold]
  congr 1
  omega

end ScionVerif.Checksum

/-! # Representability: what `wire_valid` accepts fits the wire format -/

namespace ScionVerif.Packet
open ScionVerif ScionVerif.Layout ScionVerif.Generated.Layout ScionVerif.Generated.AddrType

/-- what the Rust types guarantee about a host address -/
def HostAddr.WellTyped : HostAddr → Prop
  | .v4 b => b.length = 4
  | .v6 b => b.length = 16
  | .svc a => a < 65536
  | .unknown id b => id < 256 ∧ b.length ≤ 16

/-- what the SCION header can carry: a 2-bit type id and a length of 4, 8, 12 or 16 bytes whose nibble is
    not the one of IPv4 (0b0000), IPv6 (0b0011) or service addresses (0b0100) -/
def HostAddr.Representable : HostAddr → Prop
  | .unknown id b => id ≤ 3 ∧ (b.length = 4 ∨ b.length = 8 ∨ b.length = 12 ∨ b.length = 16) ∧
      id * 4 + (b.length / 4 - 1) ≠ 0 ∧ id * 4 + (b.length / 4 - 1) ≠ 3 ∧ id * 4 + (b.length / 4 - 1) ≠ 4
  | _ => True

theorem host_valid_repr (h : HostAddr) (hw : h.WellTyped) (hv : h.wireValid = .ok ()) : h.Representable := by
  cases h with
  | v4 b => trivial
  | v6 b => trivial
  | svc a => trivial
  | unknown id b =>
    obtain ⟨hid, hlen⟩ := hw
    unfold HostAddr.wireValid at hv
    simp only [] at hv
    split at hv
    · contradiction
    rename_i hne
    split at hv
    · contradiction
    rename_i h4
    split at hv
    · contradiction
    rename_i hsame
    have hne' : b.length ≠ 0 := by
      intro h0; apply hne; simp [List.eq_nil_of_length_eq_zero h0]
    have hl : b.length = 4 ∨ b.length = 8 ∨ b.length = 12 ∨ b.length = 16 := by omega
    have hid3 : id ≤ 3 := by omega
    refine ⟨hid3, hl, ?_⟩
    have hsame' := hsame
    simp only [not_or, Decidable.not_not, HostAddr.nibbleByte] at hsame'
    obtain ⟨_, hs1, hs2, hs3, _, _⟩ := hsame'
    have hidc : id = 0 ∨ id = 1 ∨ id = 2 ∨ id = 3 := by omega
    rcases hidc with rfl | rfl | rfl | rfl <;> rcases hl with h | h | h | h <;>
      (rw [h] at hs1 hs2 hs3 ⊢; revert hs1 hs2 hs3; decide)


/-- a standard path the wire format can carry -/
def StdPathM.Representable (p : StdPathM) : Prop :=
  1 ≤ p.segments.length ∧ p.segments.length ≤ 3 ∧
  (∀ s ∈ p.segments, 1 ≤ s.hops.length ∧ s.hops.length ≤ 63) ∧
  p.currHop < p.hopCount ∧ p.currHop ≤ 63 ∧ p.currInfo < p.segments.length ∧ p.hopCount ≤ 64

def DpPath.Representable : DpPath → Prop
  | .standard p => p.Representable
  | .unsupported t d => 3 ≤ t ∧ t < 256 ∧ d.length % 4 = 0
  | _ => True

def Payload.Representable : Payload → Prop
  | .scmp m => (m.kind = "Unknown" → (scmpRow m.typ).code = none) ∧ m.code < 256
  | _ => True

/-- **Representable**: the packet model fits the SCION wire format – written from the format, not from the
encoder: 16-bit payload length, header length ≤ 255·4 and 4-aligned, 20-bit flow id, 2-bit host type id with a
4–16 byte address that is not one of the known types, 1–3 segments of 1–63 hop fields with in-range current
indices that fit their 2- and 6-bit fields, an unsupported path whose type is none of the supported ones, an
unknown SCMP message whose type is none of the known ones; the next-header and SCMP code values are the
canonical ones of their Rust enums (a byte; `256 + k` stands for the aliasing `Other(k)` / `Unassigned(k)` with an
assigned `k`, which the decoder can never produce). -/
def PacketM.Representable (p : PacketM) : Prop :=
  p.payload.requiredSize p.header.requiredSize ≤ 65535 ∧
  p.header.requiredSize ≤ 1020 ∧ p.header.requiredSize % 4 = 0 ∧
  p.header.flowId < 2 ^ 20 ∧ p.header.nextHeader < 256 ∧
  p.header.dstHost.Representable ∧ p.header.srcHost.Representable ∧
  p.header.path.Representable ∧ p.payload.Representable

theorem std_valid_repr (p : StdPathM) (hv : p.wireValid = .ok ()) : p.Representable := by
  unfold StdPathM.wireValid at hv
  repeat (split at hv <;> try contradiction)
  rename_i h1 h2 h3 h4 h5 h5b h6 _ hfind
  have e3 : StdPathMeta.MAX_SEGMENTS = 3 := by decide
  have e63 : StdPathMeta.MAX_TOTAL_HOPS = 63 := by decide
  have e63' : StdPathMeta.MAX_SEGMENT_HOPS = 63 := by decide
  have hne : p.segments.length ≠ 0 := by
    intro h0; apply h3; simp [List.eq_nil_of_length_eq_zero h0]
  refine ⟨by omega, by omega, ?_, by omega, by omega, by omega, by omega⟩
  intro s hs
  have := List.find?_eq_none.1 hfind s hs
  simp only [Bool.or_eq_true, decide_eq_true_eq, not_or, Nat.not_lt] at this
  obtain ⟨ha, hb⟩ := this
  have : s.hops.length ≠ 0 := by
    intro h0; apply hb; simp [List.eq_nil_of_length_eq_zero h0]
  omega

theorem path_valid_repr (p : DpPath) (hw : ∀ t d, p = .unsupported t d → t < 512)
    (hv : p.wireValid = .ok ()) : p.Representable := by
  unfold DpPath.wireValid at hv
  split at hv
  · contradiction
  cases p with
  | standard s => exact std_valid_repr s hv
  | oneHop i a b => trivial
  | empty => trivial
  | unsupported t d =>
    simp only [] at hv
    split at hv
    · contradiction
    rename_i h4
    split at hv
    · contradiction
    rename_i ht
    have e0 : PATH_EMPTY = 0 := by decide
    have e1 : PATH_SCION = 1 := by decide
    have e2 : PATH_ONEHOP = 2 := by decide
    refine ⟨by omega, by omega, by omega⟩

/-- the ranges of the Rust field types (`u8`, `u16`, `ArrayVec<[u8;16]>`, `Ipv4Addr` …) -/
structure PacketM.WellTyped (p : PacketM) : Prop where
  dst : p.header.dstHost.WellTyped
  src : p.header.srcHost.WellTyped
  /-- an unsupported path type is a `PathType` value: a byte, or `256 + k` for the non-canonical `Other(k ≤ 4)` -/
  ptype : ∀ t d, p.header.path = .unsupported t d → t < 512

theorem payload_valid_repr (p : Payload) (hv : p.wireValid = .ok ()) : p.Representable := by
  cases p with
  | raw b => trivial
  | udp a b c => trivial
  | scmp m =>
    unfold Payload.wireValid at hv
    simp only [] at hv
    split at hv
    · contradiction
    rename_i h
    split at hv
    · contradiction
    rename_i hcode
    refine ⟨?_, by omega⟩
    intro hk
    cases hc : (scmpRow m.typ).code with
    | none => rfl
    | some c => exfalso; apply h; simp [hk, hc]

/-- whatever the encoder accepts is representable -/
theorem encode_ok_representable (p : PacketM) (hw : p.WellTyped) (b : Bytes) (h : encode p = .ok b) :
    p.Representable := by
  unfold encode at h
  split at h
  · contradiction
  rename_i hv
  unfold PacketM.wireValid at hv
  split at hv
  · contradiction
  rename_i hh
  split at hv
  · contradiction
  rename_i hp
  split at hv
  · contradiction
  rename_i hsz
  unfold Header.wireValid at hh
  split at hh
  · contradiction
  rename_i h4
  split at hh
  · contradiction
  rename_i h1020
  split at hh
  · contradiction
  rename_i hflow
  split at hh
  · contradiction
  rename_i hnh
  split at hh
  · contradiction
  rename_i hdst
  split at hh
  · contradiction
  rename_i hsrc
  have e1020 : ScionHeader.MAX_SIZE_BYTES = 1020 := by decide
  have eflow : CommonHeader.FLOW_ID_RNG.maxUint = 2 ^ 20 - 1 := by decide
  exact ⟨by omega, by omega, by omega, by omega, by omega, host_valid_repr _ hw.dst hdst, host_valid_repr _ hw.src hsrc,
    path_valid_repr _ hw.ptype hh, payload_valid_repr _ hp⟩

end ScionVerif.Packet

/-! # Field codecs: writeFields frame rule, info / hop field and standard path round trips -/

namespace ScionVerif
open ScionVerif.Packet

/-- every written range is well-formed, inside a buffer of `n` bytes, and either `r` itself or disjoint from `r` -/
def okFor (rs : List BitRange) (n : Nat) (r : BitRange) : Bool :=
  rs.all (fun w => decide (w.wf ∧ w.byteHi ≤ n ∧ (w = r ∨ w.disjoint r)))

/-- the value of range `r` after the writes `ws` (the last write to `r` wins) -/
def finalVal (ws : List (BitRange × Nat)) (r : BitRange) (init : Nat) : Nat :=
  ws.foldl (fun acc w => if w.1 = r then w.2 % 2 ^ r.width else acc) init

/-- every range is well-formed and inside a buffer of `n` bytes -/
def allIn (rs : List BitRange) (n : Nat) : Bool := rs.all (fun w => decide (w.wf ∧ w.byteHi ≤ n))

theorem writeFields_length (buf : Bytes) (ws : List (BitRange × Nat))
    (h : allIn (ws.map (·.1)) buf.length = true) : (writeFields buf ws).length = buf.length := by
  induction ws generalizing buf with
  | nil => rfl
  | cons w ws ih =>
    simp only [allIn, List.map_cons, List.all_cons, Bool.and_eq_true, decide_eq_true_eq] at h
    obtain ⟨⟨hw1, hw2⟩, hrest⟩ := h
    have hl := writeBits_length buf w.1 w.2 hw1 hw2
    simp only [writeFields, List.foldl_cons] at ih ⊢
    rw [ih (writeBits buf w.1 w.2) (by rw [hl]; simpa [allIn] using hrest), hl]

theorem readBits_writeFields (buf : Bytes) (ws : List (BitRange × Nat)) (r : BitRange)
    (hr : r.wf) (hrb : r.byteHi ≤ buf.length) (h : okFor (ws.map (·.1)) buf.length r = true) :
    readBits (writeFields buf ws) r = finalVal ws r (readBits buf r) := by
  induction ws generalizing buf with
  | nil => rfl
  | cons w ws ih =>
    simp only [okFor, List.map_cons, List.all_cons, Bool.and_eq_true, decide_eq_true_eq] at h
    obtain ⟨⟨hw1, hw2, hw3⟩, hrest⟩ := h
    have hl := writeBits_length buf w.1 w.2 hw1 hw2
    simp only [writeFields, finalVal, List.foldl_cons] at ih ⊢
    rw [ih (writeBits buf w.1 w.2) (by rw [hl]; exact hrb) (by rw [hl]; simpa [okFor] using hrest)]
    congr 1
    by_cases he : w.1 = r
    · simp only [he, if_true]
      rw [← he]; exact readBits_writeBits_same buf w.1 w.2 hw1 hw2
    · simp only [he, if_false]
      rcases hw3 with hw3 | hw3
      · exact absurd hw3 he
      · exact readBits_writeBits_disjoint buf w.1 r w.2 hw1 hw2 hr hrb hw3

theorem bitsNat_replicate_false (n : Nat) : bitsNat (List.replicate n false) = 0 := by
  induction n with
  | zero => rfl
  | succ k ih => rw [List.replicate_succ']; rw [bitsNat_snoc, ih]; rfl

theorem bitsOf_zeros (n : Nat) : bitsOf (zeros n) = List.replicate (8 * n) false := by
  induction n with
  | zero => rfl
  | succ k ih =>
    simp only [zeros, List.replicate_succ, bitsOf] at ih ⊢
    rw [ih]
    have : byteBits 0 = List.replicate 8 false := by decide
    rw [this, List.replicate_append_replicate]; congr 1; omega

theorem readBits_zeros (n : Nat) (r : BitRange) (hr : r.wf) (hb : r.byteHi ≤ n) : readBits (zeros n) r = 0 := by
  rw [readBits_spec _ _ hr (by simp [zeros]; exact hb), bitsOf_zeros]
  have : ((List.replicate (8 * n) false).drop r.start).take r.width = List.replicate (min r.width (8 * n - r.start)) false := by
    simp [List.drop_replicate, List.take_replicate]
  rw [this, bitsNat_replicate_false]

theorem zeros_length (n : Nat) : (zeros n).length = n := by simp [zeros]

/-- reading two adjacent ranges as one -/
theorem readBits_union (buf : Bytes) (a b c : Nat) (hab : a ≤ b) (hbc : b ≤ c) (hb : (BitRange.mk a c).byteHi ≤ buf.length) :
    readBits buf ⟨a, c⟩ = readBits buf ⟨a, b⟩ * 2 ^ (c - b) + readBits buf ⟨b, c⟩ := by
  have h1 : (BitRange.mk a b).byteHi ≤ buf.length := by
    unfold BitRange.byteHi at *; simp only at *; omega
  have h2 : (BitRange.mk b c).byteHi ≤ buf.length := hb
  have w1 : (BitRange.mk a c).wf := by show a ≤ c; omega
  have w2 : (BitRange.mk a b).wf := hab
  have w3 : (BitRange.mk b c).wf := hbc
  rw [readBits_spec _ _ w1 hb, readBits_spec _ _ w2 h1, readBits_spec _ _ w3 h2]
  simp only [BitRange.width]
  have hlen := bitsOf_length buf
  have hs : c ≤ 8 * buf.length := by
    have := (BitRange.mk a c).stop_le; simp only at this; omega
  have : ((bitsOf buf).drop a).take (c - a) = ((bitsOf buf).drop a).take (b - a) ++ ((bitsOf buf).drop b).take (c - b) := by
    apply List.ext_getElem?
    intro i
    simp only [List.getElem?_take, List.getElem?_drop, List.getElem?_append]
    simp only [List.length_take, List.length_drop]
    by_cases h : i < b - a
    · have : i < c - a := by omega
      have h' : i < min (b - a) ((bitsOf buf).length - a) := by rw [hlen]; omega
      simp [h, this, h']
    · have h' : ¬ i < min (b - a) ((bitsOf buf).length - a) := by rw [hlen]; omega
      have e : min (b - a) ((bitsOf buf).length - a) = b - a := by rw [hlen]; omega
      simp only [h, h', if_false, e]
      by_cases h2 : i < c - a
      · have : i - (b - a) < c - b := by omega
        simp only [h2, this, if_true]
        congr 1; omega
      · have : ¬ i - (b - a) < c - b := by omega
        simp only [h2, this, if_false]
  rw [this, bitsNat_append]
  have e : (((bitsOf buf).drop b).take (c - b)).length = c - b := by
    simp only [List.length_take, List.length_drop]; rw [hlen]; omega
  rw [e]

end ScionVerif

namespace ScionVerif.Packet
open ScionVerif ScionVerif.Layout ScionVerif.Generated.Layout ScionVerif.Generated.AddrType

def InfoFieldM.WellTyped (i : InfoFieldM) : Prop := i.flags < 256 ∧ i.segId < 65536 ∧ i.timestamp < 4294967296
def HopFieldM.WellTyped (h : HopFieldM) : Prop :=
  h.flags < 256 ∧ h.expTime < 256 ∧ h.consIngress < 65536 ∧ h.consEgress < 65536 ∧ h.mac.length = 6

theorem encodeInfo_length (i : InfoFieldM) : (encodeInfo i).length = InfoField.SIZE_BYTES := by
  unfold encodeInfo
  rw [writeFields_length _ _ (by simp only [List.map]; decide), zeros_length]

theorem decodeInfo_encodeInfo (i : InfoFieldM) (h : i.WellTyped) : decodeInfo (encodeInfo i) = i := by
  obtain ⟨h1, h2, h3⟩ := h
  unfold decodeInfo encodeInfo
  rw [readBits_writeFields _ _ InfoField.FLAGS_RNG (by decide) (by decide) (by simp only [List.map]; decide),
      readBits_writeFields _ _ InfoField.SEGMENT_ID_RNG (by decide) (by decide) (by simp only [List.map]; decide),
      readBits_writeFields _ _ InfoField.TIMESTAMP_RNG (by decide) (by decide) (by simp only [List.map]; decide)]
  simp only [finalVal, List.foldl_cons, List.foldl_nil]
  simp (config := {decide := true}) only [InfoField.FLAGS_RNG, InfoField.RSV_RNG, InfoField.SEGMENT_ID_RNG, InfoField.TIMESTAMP_RNG,
    BitRange.mk.injEq, BitRange.width, if_true, if_false]
  cases i
  simp only [InfoFieldM.mk.injEq] at *
  omega


theorem writeAt_length' (buf p : Bytes) (off : Nat) (h : off + p.length ≤ buf.length) :
    (writeAt buf off p).length = buf.length := by
  unfold writeAt; simp only [List.length_append, List.length_take, List.length_drop]; omega

theorem readBits_writeAt_before (buf p : Bytes) (off : Nat) (r : BitRange) (hr : r.wf) (hb : r.byteHi ≤ off)
    (ho : off ≤ buf.length) : readBits (writeAt buf off p) r = readBits buf r := by
  unfold writeAt
  rw [List.append_assoc, readBits_append_left _ _ _ hr (by simp; omega), readBits_take _ _ _ hr hb]

theorem writeAt_slice (buf p : Bytes) (off : Nat) (ho : off ≤ buf.length) :
    ((writeAt buf off p).drop off).take p.length = p := by
  unfold writeAt
  have : (buf.take off).length = off := by simp; omega
  rw [List.append_assoc, List.drop_append_of_le_length (by omega), List.drop_of_length_le (by omega),
    List.nil_append, List.take_append_of_le_length (Nat.le_refl _), List.take_length]

theorem encodeHop_length (h : HopFieldM) (hw : h.WellTyped) : (encodeHop h).length = HopField.SIZE_BYTES := by
  unfold encodeHop
  have hl : (writeFields (zeros HopField.SIZE_BYTES) [(HopField.FLAGS_RNG, h.flags), (HopField.EXP_TIME_RNG, h.expTime),
      (HopField.CONS_INGRESS_RNG, h.consIngress), (HopField.CONS_EGRESS_RNG, h.consEgress)]).length = HopField.SIZE_BYTES := by
    rw [writeFields_length _ _ (by simp only [List.map]; decide), zeros_length]
  rw [writeAt_length' _ _ _ (by rw [hl, hw.2.2.2.2]; decide), hl]

theorem decodeHop_encodeHop (h : HopFieldM) (hw : h.WellTyped) : decodeHop (encodeHop h) = h := by
  obtain ⟨h1, h2, h3, h4, h5⟩ := hw
  have hl : (writeFields (zeros HopField.SIZE_BYTES) [(HopField.FLAGS_RNG, h.flags), (HopField.EXP_TIME_RNG, h.expTime),
      (HopField.CONS_INGRESS_RNG, h.consIngress), (HopField.CONS_EGRESS_RNG, h.consEgress)]).length = HopField.SIZE_BYTES := by
    rw [writeFields_length _ _ (by simp only [List.map]; decide), zeros_length]
  have hoff : HopField.MAC_RNG.byteLo ≤ HopField.SIZE_BYTES := by decide
  unfold decodeHop encodeHop
  rw [readBits_writeAt_before _ _ _ HopField.FLAGS_RNG (by decide) (by decide) (by rw [hl]; exact hoff),
      readBits_writeAt_before _ _ _ HopField.EXP_TIME_RNG (by decide) (by decide) (by rw [hl]; exact hoff),
      readBits_writeAt_before _ _ _ HopField.CONS_INGRESS_RNG (by decide) (by decide) (by rw [hl]; exact hoff),
      readBits_writeAt_before _ _ _ HopField.CONS_EGRESS_RNG (by decide) (by decide) (by rw [hl]; exact hoff)]
  rw [readBits_writeFields _ _ HopField.FLAGS_RNG (by decide) (by decide) (by simp only [List.map]; decide),
      readBits_writeFields _ _ HopField.EXP_TIME_RNG (by decide) (by decide) (by simp only [List.map]; decide),
      readBits_writeFields _ _ HopField.CONS_INGRESS_RNG (by decide) (by decide) (by simp only [List.map]; decide),
      readBits_writeFields _ _ HopField.CONS_EGRESS_RNG (by decide) (by decide) (by simp only [List.map]; decide)]
  have hmac : HopField.MAC_RNG.byteHi - HopField.MAC_RNG.byteLo = h.mac.length := by rw [h5]; decide
  rw [hmac, writeAt_slice _ _ _ (by rw [hl]; exact hoff)]
  simp only [finalVal, List.foldl_cons, List.foldl_nil]
  simp (config := {decide := true}) only [HopField.FLAGS_RNG, HopField.EXP_TIME_RNG, HopField.CONS_INGRESS_RNG,
    HopField.CONS_EGRESS_RNG, BitRange.mk.injEq, BitRange.width, if_true, if_false]
  rw [Nat.mod_eq_of_lt (by omega : h.flags < 2 ^ (8 - 0)), Nat.mod_eq_of_lt (by omega : h.expTime < 2 ^ (16 - 8)),
    Nat.mod_eq_of_lt (by omega : h.consIngress < 2 ^ (32 - 16)), Nat.mod_eq_of_lt (by omega : h.consEgress < 2 ^ (48 - 32))]



theorem chunks_flatten (n : Nat) (l : List Bytes) (rest : Bytes) (h : ∀ x ∈ l, x.length = n) :
    chunks n l.length (l.flatten ++ rest) = l := by
  induction l with
  | nil => rfl
  | cons x xs ih =>
    have hx := h x (List.mem_cons_self)
    simp only [List.length_cons, chunks, List.flatten_cons, List.append_assoc]
    rw [List.take_append_of_le_length (by omega), List.take_of_length_le (by omega),
      List.drop_append_of_le_length (by omega), List.drop_of_length_le (by omega), List.nil_append,
      ih (fun y hy => h y (List.mem_cons_of_mem _ hy))]

theorem flatten_length_const (n : Nat) (l : List Bytes) (h : ∀ x ∈ l, x.length = n) : l.flatten.length = n * l.length := by
  induction l with
  | nil => simp
  | cons x xs ih =>
    simp only [List.flatten_cons, List.length_append, List.length_cons]
    rw [ih (fun y hy => h y (List.mem_cons_of_mem _ hy)), h x (List.mem_cons_self)]
    rw [Nat.mul_add]; omega

def StdPathM.WellTyped (p : StdPathM) : Prop :=
  ∀ s ∈ p.segments, s.info.WellTyped ∧ ∀ h ∈ s.hops, h.WellTyped

/-- all hop fields of the path in order -/
def StdPathM.allHops (p : StdPathM) : List HopFieldM := p.segments.flatMap (·.hops)

theorem hopsFlat_eq (segs : List Segment) :
    (segs.map (fun sg => (sg.hops.map encodeHop).flatten)).flatten = ((segs.flatMap (·.hops)).map encodeHop).flatten := by
  induction segs with
  | nil => rfl
  | cons s ss ih => simp only [List.map_cons, List.flatten_cons, List.flatMap_cons, List.map_append, List.flatten_append, ih]

theorem map_decode_encode_info (l : List InfoFieldM) (h : ∀ i ∈ l, i.WellTyped) :
    (l.map encodeInfo).map decodeInfo = l := by
  induction l with
  | nil => rfl
  | cons x xs ih =>
    simp only [List.map_cons]
    rw [decodeInfo_encodeInfo x (h x (List.mem_cons_self)), ih (fun y hy => h y (List.mem_cons_of_mem _ hy))]

theorem map_decode_encode_hop (l : List HopFieldM) (h : ∀ i ∈ l, i.WellTyped) :
    (l.map encodeHop).map decodeHop = l := by
  induction l with
  | nil => rfl
  | cons x xs ih =>
    simp only [List.map_cons]
    rw [decodeHop_encodeHop x (h x (List.mem_cons_self)), ih (fun y hy => h y (List.mem_cons_of_mem _ hy))]

theorem hopCount_eq (p : StdPathM) : p.hopCount = p.allHops.length := by
  unfold StdPathM.hopCount StdPathM.allHops
  have : ∀ (l : List Segment) (a : Nat), (l.map (·.hops.length)).foldl (· + ·) a = a + (l.flatMap (·.hops)).length := by
    intro l
    induction l with
    | nil => intro a; simp
    | cons x xs ih => intro a; simp only [List.map_cons, List.foldl_cons, List.flatMap_cons, List.length_append]; rw [ih]; omega
  rw [this]; omega


theorem build_spec (segs : List Segment) (tail : List Nat) (rest : List HopFieldM) :
    decodeStd.build (segs.map (·.info)) (segs.map (·.hops.length) ++ tail) (segs.flatMap (·.hops) ++ rest) = segs := by
  induction segs with
  | nil => cases tail <;> rfl
  | cons s ss ih =>
    simp only [List.map_cons, List.cons_append, List.flatMap_cons, List.append_assoc, decodeStd.build]
    rw [List.take_append_of_le_length (Nat.le_refl _), List.take_length,
      List.drop_append_of_le_length (Nat.le_refl _), List.drop_length, List.nil_append, ih]

theorem segSizes_spec (p : StdPathM) (hr : p.Representable) :
    p.segSizes.1 ≤ 63 ∧ p.segSizes.2.1 ≤ 63 ∧ p.segSizes.2.2 ≤ 63 ∧
    infoCount p.segSizes.1 p.segSizes.2.1 p.segSizes.2.2 = p.segments.length ∧
    Layout.hopCount p.segSizes.1 p.segSizes.2.1 p.segSizes.2.2 = p.allHops.length ∧
    decodeStd.build (p.segments.map (·.info)) [p.segSizes.1, p.segSizes.2.1, p.segSizes.2.2] p.allHops = p.segments := by
  obtain ⟨h1, h3, hs, _, _, _, _⟩ := hr
  obtain ⟨ci, ch, segs⟩ := p
  simp only [] at h1 h3 hs ⊢
  match segs, h1, h3, hs with
  | [a], _, _, hs =>
    have ha := hs a (by simp)
    have e1 : a.hops.length % 256 = a.hops.length := by omega
    have hsz : (StdPathM.mk ci ch [a]).segSizes = (a.hops.length, 0, 0) := by
      simp only [StdPathM.segSizes]; simp [e1]
    rw [hsz]
    dsimp only
    refine ⟨by omega, by omega, by omega, ?_, ?_, ?_⟩
    · have p1 : 0 < a.hops.length := by omega
      simp [infoCount, p1]
    · simp [Layout.hopCount, StdPathM.allHops]
    · have := build_spec [a] [0, 0] []
      simpa [StdPathM.allHops] using this
  | [a, b], _, _, hs =>
    have ha := hs a (by simp)
    have hb := hs b (by simp)
    have e1 : a.hops.length % 256 = a.hops.length := by omega
    have e2 : b.hops.length % 256 = b.hops.length := by omega
    have hsz : (StdPathM.mk ci ch [a, b]).segSizes = (a.hops.length, b.hops.length, 0) := by
      simp only [StdPathM.segSizes]; simp [e1, e2]
    rw [hsz]
    dsimp only
    refine ⟨by omega, by omega, by omega, ?_, ?_, ?_⟩
    · have p1 : 0 < a.hops.length := by omega
      have p2 : 0 < b.hops.length := by omega
      simp [infoCount, p1, p2]
    · simp [Layout.hopCount, StdPathM.allHops]
    · have := build_spec [a, b] [0] []
      simpa [StdPathM.allHops] using this
  | [a, b, c], _, _, hs =>
    have ha := hs a (by simp)
    have hb := hs b (by simp)
    have hc := hs c (by simp)
    have e1 : a.hops.length % 256 = a.hops.length := by omega
    have e2 : b.hops.length % 256 = b.hops.length := by omega
    have e3 : c.hops.length % 256 = c.hops.length := by omega
    have hsz : (StdPathM.mk ci ch [a, b, c]).segSizes = (a.hops.length, b.hops.length, c.hops.length) := by
      simp only [StdPathM.segSizes]; simp [e1, e2, e3]
    rw [hsz]
    dsimp only
    refine ⟨by omega, by omega, by omega, ?_, ?_, ?_⟩
    · have p1 : 0 < a.hops.length := by omega
      have p2 : 0 < b.hops.length := by omega
      have p3 : 0 < c.hops.length := by omega
      simp [infoCount, p1, p2, p3]
    · simp [Layout.hopCount, StdPathM.allHops]; omega
    · have := build_spec [a, b, c] [] []
      simpa [StdPathM.allHops] using this


theorem allHops_wt (p : StdPathM) (hw : p.WellTyped) : ∀ h ∈ p.allHops, h.WellTyped := by
  intro h hh
  unfold StdPathM.allHops at hh
  obtain ⟨s, hs, hhs⟩ := List.mem_flatMap.1 hh
  exact (hw s hs).2 h hhs

/-- the three parts of an encoded standard path -/
theorem encodeStd_parts (p : StdPathM) :
    encodeStd p =
      writeFields (zeros StdPathMeta.SIZE_BYTES)
        [(StdPathMeta.CURR_INFO_FIELD_RNG, p.currInfo), (StdPathMeta.CURR_HOP_FIELD_RNG, p.currHop),
         (StdPathMeta.SEG0_LEN_RNG, p.segSizes.1), (StdPathMeta.SEG1_LEN_RNG, p.segSizes.2.1),
         (StdPathMeta.SEG2_LEN_RNG, p.segSizes.2.2)]
      ++ ((p.segments.map (·.info)).map encodeInfo).flatten ++ (p.allHops.map encodeHop).flatten := by
  unfold encodeStd StdPathM.allHops
  simp only [List.map_map, hopsFlat_eq]
  rfl

theorem decodeStd_encodeStd (p : StdPathM) (hr : p.Representable) (hw : p.WellTyped) :
    decodeStd (encodeStd p) = p ∧ (encodeStd p).length = p.requiredSize := by
  obtain ⟨s0le, s1le, s2le, hic, hhc, hbuild⟩ := segSizes_spec p hr
  obtain ⟨r1, r3, rs, rch, rch63, rci, _⟩ := hr
  rw [encodeStd_parts]
  generalize hM : writeFields (zeros StdPathMeta.SIZE_BYTES)
        [(StdPathMeta.CURR_INFO_FIELD_RNG, p.currInfo), (StdPathMeta.CURR_HOP_FIELD_RNG, p.currHop),
         (StdPathMeta.SEG0_LEN_RNG, p.segSizes.1), (StdPathMeta.SEG1_LEN_RNG, p.segSizes.2.1),
         (StdPathMeta.SEG2_LEN_RNG, p.segSizes.2.2)] = M
  have hMl : M.length = StdPathMeta.SIZE_BYTES := by
    rw [← hM, writeFields_length _ _ (by simp only [List.map]; decide), zeros_length]
  have e4 : StdPathMeta.SIZE_BYTES = 4 := by decide
  have e8 : InfoField.SIZE_BYTES = 8 := by decide
  have e12 : HopField.SIZE_BYTES = 12 := by decide
  -- the reads of the meta header
  have rd : ∀ (R : BitRange), R.wf → R.byteHi ≤ StdPathMeta.SIZE_BYTES →
      okFor [StdPathMeta.CURR_INFO_FIELD_RNG, StdPathMeta.CURR_HOP_FIELD_RNG, StdPathMeta.SEG0_LEN_RNG,
        StdPathMeta.SEG1_LEN_RNG, StdPathMeta.SEG2_LEN_RNG] StdPathMeta.SIZE_BYTES R = true →
      readBits M R = finalVal [(StdPathMeta.CURR_INFO_FIELD_RNG, p.currInfo), (StdPathMeta.CURR_HOP_FIELD_RNG, p.currHop),
         (StdPathMeta.SEG0_LEN_RNG, p.segSizes.1), (StdPathMeta.SEG1_LEN_RNG, p.segSizes.2.1),
         (StdPathMeta.SEG2_LEN_RNG, p.segSizes.2.2)] R (readBits (zeros StdPathMeta.SIZE_BYTES) R) := by
    intro R h1 h2 h3
    rw [← hM]
    exact readBits_writeFields _ _ R h1 (by rw [zeros_length]; exact h2) (by simpa [zeros_length] using h3)
  have hs0 : readBits M StdPathMeta.SEG0_LEN_RNG = p.segSizes.1 := by
    rw [rd _ (by decide) (by decide) (by decide)]
    simp only [finalVal, List.foldl_cons, List.foldl_nil]
    simp (config := {decide := true}) only [StdPathMeta.CURR_INFO_FIELD_RNG, StdPathMeta.CURR_HOP_FIELD_RNG,
      StdPathMeta.SEG0_LEN_RNG, StdPathMeta.SEG1_LEN_RNG, StdPathMeta.SEG2_LEN_RNG, BitRange.mk.injEq, BitRange.width, if_true, if_false]
    exact Nat.mod_eq_of_lt (by omega)
  have hs1 : readBits M StdPathMeta.SEG1_LEN_RNG = p.segSizes.2.1 := by
    rw [rd _ (by decide) (by decide) (by decide)]
    simp only [finalVal, List.foldl_cons, List.foldl_nil]
    simp (config := {decide := true}) only [StdPathMeta.CURR_INFO_FIELD_RNG, StdPathMeta.CURR_HOP_FIELD_RNG,
      StdPathMeta.SEG0_LEN_RNG, StdPathMeta.SEG1_LEN_RNG, StdPathMeta.SEG2_LEN_RNG, BitRange.mk.injEq, BitRange.width, if_true, if_false]
    exact Nat.mod_eq_of_lt (by omega)
  have hs2 : readBits M StdPathMeta.SEG2_LEN_RNG = p.segSizes.2.2 := by
    rw [rd _ (by decide) (by decide) (by decide)]
    simp only [finalVal, List.foldl_cons, List.foldl_nil]
    simp (config := {decide := true}) only [StdPathMeta.CURR_INFO_FIELD_RNG, StdPathMeta.CURR_HOP_FIELD_RNG,
      StdPathMeta.SEG0_LEN_RNG, StdPathMeta.SEG1_LEN_RNG, StdPathMeta.SEG2_LEN_RNG, BitRange.mk.injEq, BitRange.width, if_true, if_false]
    exact Nat.mod_eq_of_lt (by omega)
  have hci : readBits M StdPathMeta.CURR_INFO_FIELD_RNG = p.currInfo := by
    rw [rd _ (by decide) (by decide) (by decide)]
    simp only [finalVal, List.foldl_cons, List.foldl_nil]
    simp (config := {decide := true}) only [StdPathMeta.CURR_INFO_FIELD_RNG, StdPathMeta.CURR_HOP_FIELD_RNG,
      StdPathMeta.SEG0_LEN_RNG, StdPathMeta.SEG1_LEN_RNG, StdPathMeta.SEG2_LEN_RNG, BitRange.mk.injEq, BitRange.width, if_true, if_false]
    exact Nat.mod_eq_of_lt (by omega)
  have hch : readBits M StdPathMeta.CURR_HOP_FIELD_RNG = p.currHop := by
    rw [rd _ (by decide) (by decide) (by decide)]
    simp only [finalVal, List.foldl_cons, List.foldl_nil]
    simp (config := {decide := true}) only [StdPathMeta.CURR_INFO_FIELD_RNG, StdPathMeta.CURR_HOP_FIELD_RNG,
      StdPathMeta.SEG0_LEN_RNG, StdPathMeta.SEG1_LEN_RNG, StdPathMeta.SEG2_LEN_RNG, BitRange.mk.injEq, BitRange.width, if_true, if_false]
    exact Nat.mod_eq_of_lt (by omega)
  generalize hI : ((p.segments.map (·.info)).map encodeInfo).flatten = I
  generalize hH : (p.allHops.map encodeHop).flatten = H
  have hIl : I.length = 8 * p.segments.length := by
    rw [← hI, flatten_length_const 8 _ (by intro x hx; obtain ⟨i, _, rfl⟩ := List.mem_map.1 hx; rw [encodeInfo_length, e8])]
    simp
  have hHl : H.length = 12 * p.allHops.length := by
    rw [← hH, flatten_length_const 12 _ (by
      intro x hx; obtain ⟨h, hh, rfl⟩ := List.mem_map.1 hx
      rw [encodeHop_length h (allHops_wt p hw h hh), e12])]
    simp
  have hseg : segFields (M ++ I ++ H) 0 = p.segSizes := by
    unfold segFields
    have : ((M ++ I ++ H).drop 0).take StdPathMeta.SIZE_BYTES = M := by
      rw [List.drop_zero, List.append_assoc, List.take_append_of_le_length (by omega), List.take_of_length_le (by omega)]
    simp only [this, hs0, hs1, hs2]
  constructor
  · unfold decodeStd
    simp only [hseg, hic, hhc]
    have hd1 : (M ++ I ++ H).drop StdPathMeta.SIZE_BYTES = I ++ H := by
      rw [List.append_assoc, List.drop_append_of_le_length (by omega), List.drop_of_length_le (by omega), List.nil_append]
    have hd2 : (M ++ I ++ H).drop (StdPathMeta.SIZE_BYTES + p.segments.length * InfoField.SIZE_BYTES) = H ++ [] := by
      rw [e8]
      rw [List.drop_append_of_le_length (by simp only [List.length_append]; omega),
        List.drop_of_length_le (by simp only [List.length_append]; omega), List.nil_append, List.append_nil]
    have hinfos : (chunks InfoField.SIZE_BYTES p.segments.length (I ++ H)).map decodeInfo = p.segments.map (·.info) := by
      have := chunks_flatten InfoField.SIZE_BYTES ((p.segments.map (·.info)).map encodeInfo) H
        (by intro x hx; obtain ⟨i, _, rfl⟩ := List.mem_map.1 hx; exact encodeInfo_length i)
      simp only [List.length_map] at this
      rw [← hI, this, map_decode_encode_info _ (by
        intro i hi; obtain ⟨s, hs, rfl⟩ := List.mem_map.1 hi; exact (hw s hs).1)]
    have hhops : (chunks HopField.SIZE_BYTES p.allHops.length (H ++ [])).map decodeHop = p.allHops := by
      have := chunks_flatten HopField.SIZE_BYTES (p.allHops.map encodeHop) []
        (by intro x hx; obtain ⟨h, hh, rfl⟩ := List.mem_map.1 hx; exact encodeHop_length h (allHops_wt p hw h hh))
      simp only [List.length_map] at this
      rw [← hH, this, map_decode_encode_hop _ (allHops_wt p hw)]
    rw [hd1, hd2, hinfos, hhops, hbuild]
    rw [readBits_append_left _ _ _ (by decide) (by rw [List.length_append, hMl]; have : StdPathMeta.CURR_INFO_FIELD_RNG.byteHi ≤ StdPathMeta.SIZE_BYTES := by decide
                                                   omega),
      readBits_append_left _ _ _ (by decide) (by rw [hMl]; decide), hci]
    rw [readBits_append_left _ _ _ (by decide) (by rw [List.length_append, hMl]; have : StdPathMeta.CURR_HOP_FIELD_RNG.byteHi ≤ StdPathMeta.SIZE_BYTES := by decide
                                                   omega),
      readBits_append_left _ _ _ (by decide) (by rw [hMl]; decide), hch]
  · simp only [List.length_append, hMl, hIl, hHl]
    unfold StdPathM.requiredSize stdDataSize
    simp only [hic, hhc, e8, e12]
    omega

end ScionVerif.Packet
