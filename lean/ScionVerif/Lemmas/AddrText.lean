import ScionVerif.Model.AddrText
/-! Helper lemmas for the address text model (C15). Property theorems live in `Theorems/C15.lean`. -/
namespace ScionVerif.AddrText
open ScionVerif.Generated.Addr

/-! ## digits -/

theorem indexOf?_getElem? {c : Char} : ∀ {l : Str} {d : Nat}, indexOf? c l = some d → l[d]? = some c
  | [], d, h => by simp [indexOf?] at h
  | x :: xs, d, h => by
    unfold indexOf? at h
    split at h
    · next hx => cases h; simp [hx]
    · split at h
      · next i hi => cases h; simpa using indexOf?_getElem? hi
      · cases h

/-- upper-case hex letters to lower case, every other character unchanged -/
def lowerHexChar (c : Char) : Char :=
  if c = 'A' then 'a' else if c = 'B' then 'b' else if c = 'C' then 'c' else if c = 'D' then 'd'
  else if c = 'E' then 'e' else if c = 'F' then 'f' else c

theorem digitChar_mem (d : Nat) : digitChar d ∈ lowerDigits := by
  unfold digitChar
  by_cases h : d < lowerDigits.length
  · have : lowerDigits[d]? = some lowerDigits[d] := List.getElem?_eq_getElem h
    simp only [List.getD, this, Option.getD_some]; exact List.getElem_mem _
  · have : lowerDigits[d]? = none := List.getElem?_eq_none (by omega)
    simp only [List.getD, this, Option.getD_none]; decide

theorem lower_fix : ∀ c ∈ lowerDigits, lowerHexChar c = c := by decide

theorem map_lower_id : ∀ (l : Str), (∀ c ∈ l, c ∈ lowerDigits) → l.map lowerHexChar = l
  | [], _ => rfl
  | c :: cs, h => by
    simp only [List.map_cons, lower_fix c (h c (by simp))]
    rw [map_lower_id cs (fun x hx => h x (by simp [hx]))]

theorem upper_lower : ∀ d, d < 16 → lowerHexChar (upperDigits.getD d '0') = digitChar d := by decide

theorem getD_of_getElem? {l : Str} {d : Nat} {c : Char} (h : l[d]? = some c) : l.getD d '0' = c := by
  simp [List.getD, h]

/-- a character that `to_digit(radix)` reads as `d` is the lower-case digit `d` up to letter case -/
theorem digitVal_spec {r d : Nat} {c : Char} (h : digitVal r c = some d) :
    lowerHexChar c = digitChar d ∧ d < r ∧ d < 16 := by
  unfold digitVal at h
  split at h
  · next d' hd =>
    cases h
    have h1 := indexOf?_getElem? hd
    rw [List.getElem?_take] at h1
    split at h1
    · next hlt =>
      have hc : digitChar d = c := getD_of_getElem? h1
      have hmem : c ∈ lowerDigits := List.mem_of_getElem? h1
      have hlen : d < lowerDigits.length := by
        rcases List.getElem?_eq_some_iff.mp h1 with ⟨hl, _⟩; exact hl
      exact ⟨by rw [lower_fix c hmem, hc], hlt, hlen⟩
    · cases h1
  · have h1 := indexOf?_getElem? h
    rw [List.getElem?_take] at h1
    split at h1
    · next hlt =>
      have hlen : d < upperDigits.length := by
        rcases List.getElem?_eq_some_iff.mp h1 with ⟨hl, _⟩; exact hl
      have hc : upperDigits.getD d '0' = c := getD_of_getElem? h1
      have := upper_lower d hlen
      rw [hc] at this
      exact ⟨this, hlt, hlen⟩
    · cases h1

theorem digitVal_digitChar {r : Nat} (hr : r = 10 ∨ r = 16) : ∀ d, d < r → digitVal r (digitChar d) = some d := by
  rcases hr with rfl | rfl <;> decide

theorem digitVal_zero {r : Nat} {c : Char} (h : digitVal r c = some 0) : c = '0' := by
  unfold digitVal at h
  split at h
  · next d' hd =>
    cases h
    have h1 := indexOf?_getElem? hd
    rw [List.getElem?_take] at h1
    split at h1
    · simpa [lowerDigits] using h1.symm
    · cases h1
  · have h1 := indexOf?_getElem? h
    rw [List.getElem?_take] at h1
    split at h1
    · simpa [upperDigits] using h1.symm
    · cases h1

theorem digitVal_mem_hex {r d : Nat} {c : Char} (h : digitVal r c = some d) : c ∈ lowerDigits ∨ c ∈ upperDigits := by
  unfold digitVal at h
  split at h
  · next d' hd =>
    have h1 := indexOf?_getElem? hd
    exact Or.inl (List.mem_of_mem_take (List.mem_of_getElem? h1))
  · have h1 := indexOf?_getElem? h
    exact Or.inr (List.mem_of_mem_take (List.mem_of_getElem? h1))

/-! ## `parseDigits` -/

theorem parseDigits_append (r : Nat) : ∀ (a b : Str) (acc : Nat),
    parseDigits r (a ++ b) acc = (parseDigits r a acc).bind (parseDigits r b)
  | [], b, acc => by simp [parseDigits]
  | c :: cs, b, acc => by
    simp only [List.cons_append, parseDigits]
    cases digitVal r c with
    | none => simp
    | some d => simpa using parseDigits_append r cs b _

theorem parseDigits_mono {r : Nat} (hr : 1 ≤ r) : ∀ (s : Str) (acc n : Nat), parseDigits r s acc = some n → acc ≤ n
  | [], acc, n, h => by simp [parseDigits] at h; omega
  | c :: cs, acc, n, h => by
    simp only [parseDigits] at h
    cases hd : digitVal r c with
    | none => simp [hd] at h
    | some d =>
      simp only [hd] at h
      have := parseDigits_mono hr cs _ _ h
      have : acc ≤ acc * r := Nat.le_mul_of_pos_right acc hr
      omega

theorem parseDigits_chars {r : Nat} : ∀ (s : Str) (acc n : Nat), parseDigits r s acc = some n →
    ∀ c ∈ s, c ∈ lowerDigits ∨ c ∈ upperDigits
  | [], _, _, _ => by simp
  | c :: cs, acc, n, h => by
    simp only [parseDigits] at h
    cases hd : digitVal r c with
    | none => simp [hd] at h
    | some d =>
      simp only [hd] at h
      intro x hx
      rcases List.mem_cons.mp hx with rfl | hx
      · exact digitVal_mem_hex hd
      · exact parseDigits_chars cs _ _ h x hx

/-! ## `showNat` -/

theorem showNatF_fuel {r : Nat} (hr : 2 ≤ r) : ∀ (f1 f2 n : Nat), n ≤ f1 → n ≤ f2 → showNatF r f1 n = showNatF r f2 n
  | 0, 0, n, _, _ => rfl
  | 0, f2 + 1, n, h1, _ => by
    have : n = 0 := by omega
    subst this
    simp [showNatF, Nat.zero_mod]; omega
  | f1 + 1, 0, n, _, h2 => by
    have : n = 0 := by omega
    subst this
    simp [showNatF, Nat.zero_mod]; omega
  | f1 + 1, f2 + 1, n, h1, h2 => by
    simp only [showNatF]
    split
    · rfl
    · next hn =>
      have hlt : n / r < n := Nat.div_lt_self (by omega) (by omega)
      rw [showNatF_fuel hr f1 f2 (n / r) (by omega) (by omega)]

theorem showNat_small {r n : Nat} (_hr : 2 ≤ r) (h : n < r) : showNat r n = [digitChar n] := by
  unfold showNat
  cases n with
  | zero => simp [showNatF, Nat.zero_mod]
  | succ k => simp [showNatF, h]

theorem showNat_step {r n : Nat} (hr : 2 ≤ r) (h : r ≤ n) :
    showNat r n = showNat r (n / r) ++ [digitChar (n % r)] := by
  unfold showNat
  cases n with
  | zero => omega
  | succ k =>
    have hlt : (k + 1) / r < k + 1 := Nat.div_lt_self (by omega) (by omega)
    simp only [showNatF]
    rw [if_neg (by omega), showNatF_fuel hr k ((k + 1) / r) ((k + 1) / r) (by omega) (Nat.le_refl _)]

theorem showNat_chars {r : Nat} (hr : 2 ≤ r) : ∀ (n : Nat), ∀ c ∈ showNat r n, c ∈ lowerDigits := by
  intro n
  induction n using Nat.strongRecOn with
  | _ n ih =>
    by_cases h : n < r
    · rw [showNat_small hr h]; intro c hc; simp at hc; subst hc; exact digitChar_mem _
    · rw [showNat_step hr (by omega)]
      intro c hc
      rcases List.mem_append.mp hc with hc | hc
      · exact ih _ (Nat.div_lt_self (by omega) (by omega)) c hc
      · simp at hc; subst hc; exact digitChar_mem _

theorem showNat_ne_nil {r : Nat} (hr : 2 ≤ r) (n : Nat) : showNat r n ≠ [] := by
  by_cases h : n < r
  · rw [showNat_small hr h]; simp
  · rw [showNat_step hr (by omega)]; simp

theorem parseDigits_showNat {r : Nat} (hr : r = 10 ∨ r = 16) : ∀ (n : Nat), parseDigits r (showNat r n) 0 = some n := by
  have h2 : 2 ≤ r := by rcases hr with rfl | rfl <;> omega
  intro n
  induction n using Nat.strongRecOn with
  | _ n ih =>
    by_cases h : n < r
    · rw [showNat_small h2 h]; simp [parseDigits, digitVal_digitChar hr n h]
    · rw [showNat_step h2 (by omega), parseDigits_append, ih _ (Nat.div_lt_self (by omega) (by omega))]
      simp only [Option.bind_some, parseDigits, digitVal_digitChar hr _ (Nat.mod_lt _ (by omega))]
      congr 1
      rw [Nat.mul_comm]; exact Nat.div_add_mod n r

theorem showNat_length_le {r : Nat} (hr : 2 ≤ r) : ∀ (k n : Nat), n < r ^ k → 1 ≤ k → (showNat r n).length ≤ k := by
  intro k
  induction k with
  | zero => intro n _ h; omega
  | succ k ih =>
    intro n hn _
    by_cases h : n < r
    · rw [showNat_small hr h]; simp
    · rw [showNat_step hr (by omega)]
      have hk : 1 ≤ k := by
        cases k with
        | zero => simp at hn; omega
        | succ k => omega
      have : n / r < r ^ k := by
        rw [Nat.div_lt_iff_lt_mul (by omega)]; rw [Nat.pow_succ] at hn; exact hn
      have := ih (n / r) this hk
      simp; omega

/-! ## `parseUInt` -/

theorem not_plus_of_mem_lower {c : Char} (h : c ∈ lowerDigits) : c ≠ '+' := by
  intro hc; subst hc; revert h; decide

theorem stripPlus_of_digit {s : Str} (h : ∀ c ∈ s, c ∈ lowerDigits) : stripPlus s = s := by
  cases s with
  | nil => rfl
  | cons c cs => simp [stripPlus, not_plus_of_mem_lower (h c (by simp))]

/-- `uN::from_str_radix(format!("{n}" / "{n:x}"))` is `n` -/
theorem parseUInt_showNat {r bits n : Nat} (hr : r = 10 ∨ r = 16) (hn : n < 2 ^ bits) :
    parseUInt r bits (showNat r n) = some n := by
  have h2 : 2 ≤ r := by rcases hr with rfl | rfl <;> omega
  unfold parseUInt
  rw [stripPlus_of_digit (showNat_chars h2 n)]
  cases hs : showNat r n with
  | nil => exact absurd hs (showNat_ne_nil h2 n)
  | cons d ds =>
    simp only []
    rw [← hs, parseDigits_showNat hr n]
    simp [hn]

/-- leading zeros do not change the value -/
theorem parseDigits_zeros {r : Nat} (hr : r = 10 ∨ r = 16) (k : Nat) (s : Str) :
    parseDigits r (List.replicate k '0' ++ s) 0 = parseDigits r s 0 := by
  induction k with
  | zero => simp
  | succ k ih =>
    have h0 : digitVal r '0' = some 0 := by rcases hr with rfl | rfl <;> decide
    simp only [List.replicate_succ, List.cons_append, parseDigits, h0]
    simpa using ih

/-! ## spelling of a number -/

/-- `s` spells `n` in `radix`: an optional `+`, any number of leading zeros, then the canonical digits of `n`
    with hex letters in either case.  Nothing else – no other character anywhere. -/
def NumSp (radix n : Nat) (s : Str) : Prop :=
  ∃ (plus : Bool) (k : Nat) (body : Str),
    s = (if plus then ['+'] else []) ++ List.replicate k '0' ++ body ∧
    body.map lowerHexChar = showNat radix n

theorem numSp_showNat (r n : Nat) : NumSp r n (showNat r n) := by
  refine ⟨false, 0, showNat r n, by simp, ?_⟩
  by_cases hr : 2 ≤ r
  · exact map_lower_id _ (showNat_chars hr n)
  · -- degenerate radix: every digit character is still a lower-case digit
    have : ∀ f m, ∀ c ∈ showNatF r f m, c ∈ lowerDigits := by
      intro f
      induction f with
      | zero => intro m c hc; simp [showNatF] at hc; subst hc; exact digitChar_mem _
      | succ f ih =>
        intro m c hc
        simp only [showNatF] at hc
        split at hc
        · simp at hc; subst hc; exact digitChar_mem _
        · rcases List.mem_append.mp hc with hc | hc
          · exact ih _ c hc
          · simp at hc; subst hc; exact digitChar_mem _
    exact map_lower_id _ (this _ _)

/-- a digit string without superfluous leading zero is the canonical one (up to letter case) -/
theorem canon_digits {r : Nat} (hr : r = 10 ∨ r = 16) : ∀ (len : Nat) (ds : Str) (n : Nat), ds.length = len →
    parseDigits r ds 0 = some n → ds ≠ [] →
    (ds.length = 1 ∨ ∀ c, ds.head? = some c → digitVal r c ≠ some 0) →
    ds.map lowerHexChar = showNat r n := by
  have h2 : 2 ≤ r := by rcases hr with rfl | rfl <;> omega
  intro len
  induction len using Nat.strongRecOn with
  | _ len ih =>
    intro ds n hlen hp hne hcanon
    rcases List.eq_nil_or_concat ds with rfl | ⟨init, c, rfl⟩
    · exact absurd rfl hne
    · rw [List.concat_eq_append] at *
      rw [parseDigits_append] at hp
      cases hm : parseDigits r init 0 with
      | none => simp [hm] at hp
      | some m =>
        simp only [hm, Option.bind_some, parseDigits] at hp
        cases hd : digitVal r c with
        | none => simp [hd] at hp
        | some d =>
          simp only [hd, Option.some.injEq] at hp
          obtain ⟨hlow, hdr, _⟩ := digitVal_spec hd
          cases init with
          | nil =>
            simp [parseDigits] at hm
            subst hm
            have : n = d := by omega
            subst this
            rw [showNat_small h2 hdr]
            simp [hlow]
          | cons x xs =>
            have hcanon' : ∀ c', (x :: xs ++ [c]).head? = some c' → digitVal r c' ≠ some 0 := by
              rcases hcanon with h | h
              · simp at h
              · exact h
            have hx : digitVal r x ≠ some 0 := hcanon' x (by simp)
            have ihx := ih (x :: xs).length (by simp at hlen ⊢; omega) (x :: xs) m rfl hm (by simp)
              (Or.inr (by intro c' hc'; simp at hc'; subst hc'; exact hx))
            -- the leading digit is non-zero, so m ≥ 1
            have hm1 : 1 ≤ m := by
              simp only [parseDigits] at hm
              cases hxd : digitVal r x with
              | none => simp [hxd] at hm
              | some dx =>
                simp only [hxd] at hm
                have := parseDigits_mono (by omega : 1 ≤ r) xs _ _ hm
                have : dx ≠ 0 := by intro h0; subst h0; exact hx hxd
                omega
            have hnr : r ≤ n := by
              have : r ≤ m * r := Nat.le_mul_of_pos_left r hm1
              omega
            have hdiv : n / r = m := by
              subst hp
              rw [Nat.mul_comm, Nat.mul_add_div (by omega), Nat.div_eq_of_lt hdr]; omega
            have hmod : n % r = d := by
              subst hp
              rw [Nat.mul_comm, Nat.mul_add_mod, Nat.mod_eq_of_lt hdr]
            rw [showNat_step h2 hnr, hdiv, hmod, List.map_append, ihx]
            simp [hlow]

theorem parseDigits_strip_zeros {r : Nat} (hr : r = 10 ∨ r = 16) : ∀ (ds : Str) (n : Nat), ds ≠ [] →
    parseDigits r ds 0 = some n →
    ∃ k body, ds = List.replicate k '0' ++ body ∧ parseDigits r body 0 = some n ∧ body ≠ [] ∧
      (body.length = 1 ∨ ∀ c, body.head? = some c → digitVal r c ≠ some 0)
  | [], _, h, _ => absurd rfl h
  | [c], n, _, hp => ⟨0, [c], by simp, hp, by simp, Or.inl rfl⟩
  | c :: c2 :: cs, n, _, hp => by
    by_cases h0 : digitVal r c = some 0
    · have hc : c = '0' := digitVal_zero h0
      have hp' : parseDigits r (c2 :: cs) 0 = some n := by
        rw [parseDigits, h0] at hp; simpa using hp
      obtain ⟨k, body, hb, hpb, hne, hcan⟩ := parseDigits_strip_zeros hr (c2 :: cs) n (by simp) hp'
      refine ⟨k + 1, body, ?_, hpb, hne, hcan⟩
      rw [List.replicate_succ, List.cons_append, ← hb, hc]
    · exact ⟨0, c :: c2 :: cs, by simp, hp, by simp, Or.inr (by intro c' hc'; simp at hc'; subst hc'; exact h0)⟩

/-- **accepted ⇒ spelling** for `from_str_radix`: the whole string is sign + zeros + canonical digits -/
theorem parseUInt_spelling {r bits n : Nat} {s : Str} (hr : r = 10 ∨ r = 16) (h : parseUInt r bits s = some n) :
    NumSp r n s ∧ n < 2 ^ bits := by
  unfold parseUInt at h
  split at h
  · cases h
  · next d ds hs =>
    cases hp : parseDigits r (d :: ds) 0 with
    | none => simp [hp] at h
    | some m =>
      simp only [hp] at h
      split at h
      · next hlt =>
        cases h
        obtain ⟨k, body, hb, hpb, hne, hcan⟩ := parseDigits_strip_zeros hr (d :: ds) n (by simp) hp
        have hbody := canon_digits hr body.length body n rfl hpb hne hcan
        refine ⟨?_, hlt⟩
        -- recover the sign
        cases s with
        | nil => simp [stripPlus] at hs
        | cons c cs =>
          simp only [stripPlus] at hs
          split at hs
          · next hc => subst hc; exact ⟨true, k, body, by simp [hs, hb], hbody⟩
          · exact ⟨false, k, body, by simp [hs, hb], hbody⟩
      · cases h

/-- characters of a number spelling: `+`, digits, hex letters -/
theorem numSp_chars {r n : Nat} {s : Str} (hr : 2 ≤ r) (h : NumSp r n s) :
    ∀ c ∈ s, c = '+' ∨ c ∈ lowerDigits ∨ c ∈ upperDigits := by
  obtain ⟨plus, k, body, rfl, hb⟩ := h
  intro c hc
  simp only [List.mem_append] at hc
  rcases hc with (hc | hc) | hc
  · cases plus <;> simp at hc; exact Or.inl hc
  · rw [List.mem_replicate] at hc; rcases hc with ⟨_, rfl⟩; exact Or.inr (Or.inl (by decide))
  · have : lowerHexChar c ∈ lowerDigits := by
      apply showNat_chars hr n; rw [← hb]; exact List.mem_map_of_mem hc
    revert this
    unfold lowerHexChar
    repeat' split
    all_goals (first | (intro _; subst_vars; exact Or.inr (Or.inr (by decide))) | (intro h; exact Or.inr (Or.inl h)))

theorem parseUInt_chars {r bits n : Nat} {s : Str} (hr : r = 10 ∨ r = 16) (h : parseUInt r bits s = some n) :
    ∀ c ∈ s, c = '+' ∨ c ∈ lowerDigits ∨ c ∈ upperDigits :=
  numSp_chars (by rcases hr with rfl | rfl <;> omega) (parseUInt_spelling hr h).1

theorem parseUInt_none_of_mem {r bits : Nat} {s : Str} (hr : r = 10 ∨ r = 16) (c : Char) (hc : c ∈ s)
    (h1 : c ≠ '+') (h2 : c ∉ lowerDigits) (h3 : c ∉ upperDigits) : parseUInt r bits s = none := by
  cases h : parseUInt r bits s with
  | none => rfl
  | some n =>
    rcases parseUInt_chars hr h c hc with h | h | h
    · exact absurd h h1
    · exact absurd h h2
    · exact absurd h h3

/-- zero-padded canonical digits parse to the number -/
theorem parseUInt_zeros_showNat {r bits n : Nat} (hr : r = 10 ∨ r = 16) (hn : n < 2 ^ bits) (k : Nat) :
    parseUInt r bits (List.replicate k '0' ++ showNat r n) = some n := by
  have h2 : 2 ≤ r := by rcases hr with rfl | rfl <;> omega
  unfold parseUInt
  have hch : ∀ c ∈ List.replicate k '0' ++ showNat r n, c ∈ lowerDigits := by
    intro c hc
    rcases List.mem_append.mp hc with hc | hc
    · rw [List.mem_replicate] at hc; rcases hc with ⟨_, rfl⟩; decide
    · exact showNat_chars h2 n c hc
  rw [stripPlus_of_digit hch]
  cases hs : List.replicate k '0' ++ showNat r n with
  | nil => simp at hs; exact absurd hs.2 (showNat_ne_nil h2 n)
  | cons d ds =>
    simp only []
    rw [← hs, parseDigits_zeros hr, parseDigits_showNat hr n]
    simp [hn]

/-! ## `str` primitives -/

theorem splitOnce_some {sep : Char} : ∀ {s a b : Str}, splitOnce sep s = some (a, b) → s = a ++ sep :: b ∧ sep ∉ a
  | [], a, b, h => by simp [splitOnce] at h
  | c :: cs, a, b, h => by
    unfold splitOnce at h
    split at h
    · next hc => cases h; subst hc; simp
    · next hc =>
      split at h
      · next a' b' hr =>
        cases h
        obtain ⟨h1, h2⟩ := splitOnce_some hr
        refine ⟨by rw [h1]; rfl, ?_⟩
        intro hm
        rcases List.mem_cons.mp hm with h | h
        · exact hc h.symm
        · exact h2 h
      · cases h

theorem splitOnce_none {sep : Char} : ∀ {s : Str}, splitOnce sep s = none → sep ∉ s
  | [], _ => by simp
  | c :: cs, h => by
    unfold splitOnce at h
    split at h
    · cases h
    · next hc =>
      split at h
      · cases h
      · next hr =>
        intro hm
        rcases List.mem_cons.mp hm with h | h
        · exact hc h.symm
        · exact splitOnce_none hr h

theorem splitOnce_append {sep : Char} : ∀ {a b : Str}, sep ∉ a → splitOnce sep (a ++ sep :: b) = some (a, b)
  | [], b, _ => by simp [splitOnce]
  | c :: cs, b, h => by
    have hc : c ≠ sep := by intro hc; subst hc; exact h (by simp)
    have ht : sep ∉ cs := by intro hm; exact h (by simp [hm])
    simp [splitOnce, hc, splitOnce_append ht]

theorem splitOnce_of_not_mem {sep : Char} {s : Str} (h : sep ∉ s) : splitOnce sep s = none := by
  cases hs : splitOnce sep s with
  | none => rfl
  | some p =>
    obtain ⟨a, b⟩ := p
    have := (splitOnce_some hs).1
    exact absurd (by rw [this]; simp) h

theorem rsplitOnce_some {sep : Char} {s a b : Str} (h : rsplitOnce sep s = some (a, b)) :
    s = a ++ sep :: b ∧ sep ∉ b := by
  unfold rsplitOnce at h
  split at h
  · next x y hs =>
    cases h
    obtain ⟨h1, h2⟩ := splitOnce_some hs
    have : s = (x ++ sep :: y).reverse := by rw [← h1, List.reverse_reverse]
    refine ⟨by rw [this]; simp, by simpa using h2⟩
  · cases h

theorem rsplitOnce_append {sep : Char} {a b : Str} (h : sep ∉ b) : rsplitOnce sep (a ++ sep :: b) = some (a, b) := by
  unfold rsplitOnce
  have : (a ++ sep :: b).reverse = b.reverse ++ sep :: a.reverse := by simp
  rw [this, splitOnce_append (by simpa using h)]
  simp

theorem stripPrefix_some : ∀ {p s r : Str}, stripPrefix p s = some r ↔ s = p ++ r
  | [], s, r => by simp [stripPrefix]
  | _ :: _, [], r => by simp [stripPrefix]
  | p :: ps, c :: cs, r => by
    unfold stripPrefix
    split
    · next h => subst h; simp [stripPrefix_some (p := ps) (s := cs) (r := r)]
    · next h => simp; intro h'; exact absurd h'.symm h

theorem stripSuffix_some {p s r : Str} : stripSuffix p s = some r ↔ s = r ++ p := by
  unfold stripSuffix
  split
  · next x hx =>
    rw [stripPrefix_some] at hx
    have : s = x.reverse ++ p := by
      have := congrArg List.reverse hx; simpa using this
    constructor
    · intro h; cases h; exact this
    · intro h; rw [this] at h; have := List.append_cancel_right h; rw [this]
  · next hx =>
    constructor
    · intro h; cases h
    · intro h
      exfalso
      have : stripPrefix p.reverse s.reverse = some r.reverse := by
        rw [stripPrefix_some, h]; simp
      rw [this] at hx; cases hx

theorem splitN_two {sep : Char} {s : Str} :
    splitN 2 sep s = match splitOnce sep s with | some (a, b) => [a, b] | none => [s] := by
  unfold splitN
  split <;> simp_all [splitN]

theorem splitN_three {sep : Char} {s : Str} :
    splitN 3 sep s = match splitOnce sep s with
      | some (a, b) => (match splitOnce sep b with | some (c, d) => [a, c, d] | none => [a, b])
      | none => [s] := by
  unfold splitN
  split
  · next a b h => simp [h, splitN_two]; split <;> simp_all
  · next h => simp [h]

theorem filter_sep_of_not_mem {sep : Char} {s : Str} (h : sep ∉ s) : s.filter (· == sep) = [] := by
  rw [List.filter_eq_nil_iff]
  intro c hc hcs
  have : c = sep := by simpa using hcs
  subst this; exact h hc

/-! ## AS numbers -/

theorem showAsn_hex (v : Nat) :
    showAsnParts v ASN_NUMBER_PARTS =
      showNat 16 (v / 2 ^ 32 % 2 ^ 16) ++ ASN_SEP :: (showNat 16 (v / 2 ^ 16 % 2 ^ 16) ++ ASN_SEP :: showNat 16 (v % 2 ^ 16)) := by
  simp [ASN_NUMBER_PARTS, showAsnParts, ASN_BITS_PER_PART]

theorem sep_not_digit : ASN_SEP ≠ '+' ∧ ASN_SEP ∉ lowerDigits ∧ ASN_SEP ∉ upperDigits := by decide

theorem foldAsnParts_three {p1 p2 p3 : Str} {val n : Nat} (h : foldAsnParts [p1, p2, p3] (0, 0) = some (val, n)) :
    ∃ a b c, parseUInt 16 16 p1 = some a ∧ parseUInt 16 16 p2 = some b ∧ parseUInt 16 16 p3 = some c ∧
      val = (a * 2 ^ 16 + b) * 2 ^ 16 + c ∧ n = 3 := by
  simp only [foldAsnParts, ASN_PART_RADIX, ASN_PART_PARSE_BITS, ASN_BITS_PER_PART] at h
  cases ha : parseUInt 16 16 p1 with
  | none => simp [ha] at h
  | some a =>
    cases hb : parseUInt 16 16 p2 with
    | none => simp [ha, hb] at h
    | some b =>
      cases hc : parseUInt 16 16 p3 with
      | none => simp [ha, hb, hc] at h
      | some c =>
        simp [ha, hb, hc] at h
        exact ⟨a, b, c, rfl, rfl, rfl, by omega, by omega⟩

theorem foldAsnParts_count : ∀ (l : List Str) (v0 n0 val n : Nat), foldAsnParts l (v0, n0) = some (val, n) → n = n0 + l.length
  | [], v0, n0, val, n, h => by simp [foldAsnParts] at h; simp; omega
  | p :: ps, v0, n0, val, n, h => by
    simp only [foldAsnParts] at h
    split at h
    · have := foldAsnParts_count ps _ _ _ _ h; simp; omega
    · cases h

/-! ## tables, separators, white space, `find` (used by the theorems in `Theorems/C15.lean`) -/

theorem ia_sep_not_in_isd (n : Nat) : IA_SEP ∉ showIsd n := fun hm => by
  have := showNat_chars (by omega) n _ hm; revert this; decide

theorem ia_sep_not_in_asn (v : Nat) : IA_SEP ∉ showAsn v := by
  unfold showAsn
  have hn : ∀ r n, 2 ≤ r → IA_SEP ∉ showNat r n := fun r n hr hm => by
    have := showNat_chars hr n _ hm; revert this; decide
  split
  · exact hn _ _ (by omega)
  · rw [showAsn_hex]
    simp only [List.mem_append, List.mem_cons, not_or]
    exact ⟨hn _ _ (by omega), by decide, hn _ _ (by omega), by decide, hn _ _ (by omega)⟩

theorem lookupValue_mem : ∀ {tab : List (Str × Nat)} {v : Nat} {n : Str}, lookupValue tab v = some n → (n, v) ∈ tab
  | [], _, _, h => by simp [lookupValue] at h
  | (n', w) :: rest, v, n, h => by
    unfold lookupValue at h
    split at h
    · next hw => cases h; subst hw; simp
    · exact List.mem_cons_of_mem _ (lookupValue_mem h)

theorem lookupName_mem : ∀ {tab : List (Str × Nat)} {s : Str} {v : Nat}, lookupName tab s = some v → (s, v) ∈ tab
  | [], _, _, h => by simp [lookupName] at h
  | (n', w) :: rest, s, v, h => by
    unfold lookupName at h
    split at h
    · next hn => cases h; subst hn; simp
    · exact List.mem_cons_of_mem _ (lookupName_mem h)

theorem lookupName_none : ∀ {tab : List (Str × Nat)} {s : Str}, (∀ p ∈ tab, p.1 ≠ s) → lookupName tab s = none
  | [], _, _ => rfl
  | (n', w) :: rest, s, h => by
    unfold lookupName
    rw [if_neg (h (n', w) (by simp))]
    exact lookupName_none (fun p hp => h p (List.mem_cons_of_mem _ hp))

/-- facts about the extracted tables that the round trip needs (re-checked when the tables change) -/
theorem svc_tables_ok :
    (∀ p ∈ SVC_SHOW_NAMES, lookupName SVC_PARSE_NAMES p.1 = some p.2 ∧ SVC_SUFFIX_SEP ∉ p.1 ∧ p.2 < SVC_MULTICAST_FLAG) ∧
    (∀ p ∈ SVC_PARSE_NAMES, p.1.head? ≠ SVC_HEX_OPEN.head? ∧ p.2 < SVC_MULTICAST_FLAG) ∧
    SVC_PARSE_HEX_OPEN = SVC_HEX_OPEN ∧ SVC_PARSE_HEX_CLOSE = SVC_HEX_CLOSE ∧
    SVC_SUFFIX_SEP ∉ SVC_HEX_OPEN ∧ SVC_SUFFIX_SEP ∉ SVC_HEX_CLOSE ∧ SVC_SUFFIX_SEP ∉ lowerDigits ∧
    SVC_SUFFIX_ANYCAST ≠ SVC_SUFFIX_MULTICAST ∧ SVC_HEX_OPEN ≠ [] ∧
    SVC_PARSE_HEX_RADIX = 16 ∧ SVC_PARSE_HEX_BITS = 16 ∧ SVC_BITS = 16 ∧ SVC_MULTICAST_FLAG = 2 ^ 15 ∧
    SVC_HEX_WIDTH = 4 := by decide

theorem svc_flag_facts (v : Nat) (hv : v < 2 ^ SVC_BITS) :
    toAnycast v < SVC_MULTICAST_FLAG ∧ isMulticast (toAnycast v) = false ∧
    (isMulticast v = true → toAnycast v + SVC_MULTICAST_FLAG = v) ∧ (isMulticast v = false → toAnycast v = v) := by
  simp only [toAnycast, isMulticast, SVC_MULTICAST_FLAG, SVC_BITS] at *
  by_cases h : v / 32768 % 2 = 1
  · simp [h]; omega
  · simp [h]; omega

theorem addr_sep_not_in_ia (v : Nat) : ADDR_SEP ∉ showIsdAsn v := by
  have hn : ∀ r n, 2 ≤ r → ADDR_SEP ∉ showNat r n := fun r n hr hm => by
    have := showNat_chars hr n _ hm; revert this; decide
  unfold showIsdAsn showIsd showAsn
  simp only [List.mem_append, not_or]
  refine ⟨⟨hn _ _ (by omega), by decide⟩, ?_⟩
  split
  · exact hn _ _ (by omega)
  · rw [showAsn_hex]
    simp only [List.mem_append, List.mem_cons, not_or]
    exact ⟨hn _ _ (by omega), by decide, hn _ _ (by omega), by decide, hn _ _ (by omega)⟩

def Ws (w : Str) : Prop := ∀ c ∈ w, isWhitespace c = true
def NoWs (s : Str) : Prop := ∀ c ∈ s, isWhitespace c = false

theorem Ws.nil : Ws [] := by intro c hc; cases hc
theorem Ws.append {a b : Str} (ha : Ws a) (hb : Ws b) : Ws (a ++ b) := by
  intro c hc; rcases List.mem_append.mp hc with h | h
  · exact ha c h
  · exact hb c h

theorem trimStart_decomp : ∀ (s : Str), ∃ w, Ws w ∧ s = w ++ trimStart s
  | [] => ⟨[], Ws.nil, rfl⟩
  | c :: cs => by
    unfold trimStart
    by_cases h : isWhitespace c = true
    · obtain ⟨w, hw, he⟩ := trimStart_decomp cs
      refine ⟨c :: w, ?_, ?_⟩
      · intro x hx; rcases List.mem_cons.mp hx with rfl | hx
        · exact h
        · exact hw x hx
      · rw [List.dropWhile_cons_of_pos h]; unfold trimStart at he; rw [List.cons_append, ← he]
    · exact ⟨[], Ws.nil, by rw [List.dropWhile_cons_of_neg h]; rfl⟩

theorem trimEnd_decomp (s : Str) : ∃ w, Ws w ∧ s = trimEnd s ++ w := by
  unfold trimEnd
  obtain ⟨w, hw, he⟩ := trimStart_decomp s.reverse
  refine ⟨w.reverse, fun c hc => hw c (by simpa using hc), ?_⟩
  have := congrArg List.reverse he
  simpa using this

theorem trim_decomp (s : Str) : ∃ w1 w2, Ws w1 ∧ Ws w2 ∧ s = w1 ++ trim s ++ w2 := by
  obtain ⟨w1, h1, e1⟩ := trimStart_decomp s
  obtain ⟨w2, h2, e2⟩ := trimEnd_decomp (trimStart s)
  exact ⟨w1, w2, h1, h2, by unfold trim; rw [List.append_assoc, ← e2, ← e1]⟩

theorem trimStart_noWs {s : Str} (h : NoWs s) : trimStart s = s := by
  cases s with
  | nil => rfl
  | cons c cs =>
    unfold trimStart
    rw [List.dropWhile_cons_of_neg (by simp [h c (by simp)])]

theorem trim_noWs {s : Str} (h : NoWs s) : trim s = s := by
  unfold trim trimEnd
  rw [trimStart_noWs h, trimStart_noWs (fun c hc => h c (by simpa using hc))]
  simp

theorem trim_length_le (s : Str) : (trim s).length ≤ s.length := by
  obtain ⟨w1, w2, _, _, e⟩ := trim_decomp s
  have := congrArg List.length e
  simp at this; omega

theorem find_some {c : Char} : ∀ {s : Str} {i : Nat}, find c s = some i →
    s = s.take i ++ c :: s.drop (i + 1) ∧ c ∉ s.take i
  | [], i, h => by simp [find] at h
  | x :: xs, i, h => by
    unfold find at h
    split at h
    · next hx => cases h; subst hx; simp
    · next hx =>
      split at h
      · next j hj =>
        cases h
        obtain ⟨h1, h2⟩ := find_some hj
        refine ⟨by simp only [List.take_succ_cons, List.drop_succ_cons, List.cons_append]; rw [← h1], ?_⟩
        simp only [List.take_succ_cons, List.mem_cons, not_or]
        exact ⟨fun h => hx h.symm, h2⟩
      · cases h

theorem find_append {c : Char} : ∀ {a b : Str}, c ∉ a → find c (a ++ c :: b) = some a.length
  | [], b, _ => by simp [find]
  | x :: xs, b, h => by
    have hx : x ≠ c := by intro hx; subst hx; exact h (by simp)
    have ht : c ∉ xs := fun hm => h (by simp [hm])
    simp [find, hx, find_append ht]

theorem txt_consts : TXT_OPEN ≠ TXT_CLOSE ∧ TXT_ENTRY_SEP = ADDR_SEP ∧ TXT_OPEN = SOCK_OPEN ∧ TXT_CLOSE = SOCK_CLOSE := by decide

theorem startsWith_iff {c : Char} {s : Str} : startsWith c s = true ↔ ∃ t, s = c :: t := by
  cases s with
  | nil => simp [startsWith]
  | cons x xs =>
    constructor
    · intro h
      have : x = c := by simpa [startsWith] using h
      exact ⟨xs, by rw [this]⟩
    · intro ⟨t, ht⟩
      cases ht
      simp [startsWith]

theorem take_cons_drop_one {c : Char} {t : Str} {k : Nat} (hk : ¬ k < 1) :
    (c :: t).take k = c :: ((c :: t).take k).drop 1 := by
  cases k with
  | zero => omega
  | succ k => simp

theorem showIsdAsn_chars (v : Nat) : ∀ c ∈ showIsdAsn v, c ∈ lowerDigits ∨ c = IA_SEP ∨ c = ASN_SEP := by
  have hn : ∀ r n, 2 ≤ r → ∀ c ∈ showNat r n, c ∈ lowerDigits ∨ c = IA_SEP ∨ c = ASN_SEP :=
    fun r n hr c hc => Or.inl (showNat_chars hr n c hc)
  intro c hc
  unfold showIsdAsn showIsd showAsn at hc
  simp only [List.mem_append, List.mem_singleton] at hc
  rcases hc with (hc | hc) | hc
  · exact hn _ _ (by omega) c hc
  · exact Or.inr (Or.inl hc)
  · split at hc
    · exact hn _ _ (by omega) c hc
    · rw [showAsn_hex] at hc
      simp only [List.mem_append, List.mem_cons] at hc
      rcases hc with hc | hc | hc | hc | hc
      · exact hn _ _ (by omega) c hc
      · exact Or.inr (Or.inr hc)
      · exact hn _ _ (by omega) c hc
      · exact Or.inr (Or.inr hc)
      · exact hn _ _ (by omega) c hc

end ScionVerif.AddrText
