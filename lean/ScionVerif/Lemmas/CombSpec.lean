import ScionVerif.Lemmas.Comb
import ScionVerif.Spec.Combine
/-!
Refinement lemmas: the model's graph edges / solutions / `PathSolution::path` against the declarative
combination rules of `Spec/Combine.lean` (C04 `sound`, metadata theorems).
-/
namespace ScionVerif.Comb
open ScionVerif.Generated.Comb

/-! ## 1. `walk` as map / flatMap / fold -/

/-- hop field chosen by `pickHop` -/
def hopOf (sc : Nat) (peer : Option Nat) (x : AsE × Nat) : HopF :=
  match peer with
  | some pi => if x.2 = sc then (match x.1.peers[pi]? with | some q => q.hop | none => x.1.hop) else x.1.hop
  | none => x.1.hop

/-- link MTU that enters the minimum at one AS entry: the peering link at a peering cut, else the
ingress link unless the entry is a shortcut cut (its ingress link is not traversed) or has none -/
def linkTerm (sc : Nat) (peer : Option Nat) (x : AsE × Nat) : Option Nat :=
  match peer with
  | some pi =>
    if x.2 = sc then x.1.peers[pi]?.map (·.peerMtu)
    else if x.1.ingressMtu ≠ 0 ∧ ¬(x.2 = sc ∧ x.2 ≠ 0) then some x.1.ingressMtu else none
  | none => if x.1.ingressMtu ≠ 0 ∧ ¬(x.2 = sc ∧ x.2 ≠ 0) then some x.1.ingressMtu else none

/-- all MTU values of one traversed AS entry: link (if any) and the AS-internal MTU (as `u16`) -/
def mtuTerms (sc : Nat) (peer : Option Nat) (x : AsE × Nat) : List Nat :=
  (linkTerm sc peer x).toList ++ [min x.1.mtu AS_MTU_SAT]

theorem pickHop_eq {sc : Nat} {peer : Option Nat} {x : AsE × Nat} {mtu : Nat} {hf : HopF} {m1 : Nat}
    (h : pickHop sc peer x.1 x.2 mtu = .ok (hf, m1)) :
    hf = hopOf sc peer x ∧ m1 = (linkTerm sc peer x).toList.foldl min mtu := by
  unfold pickHop at h
  unfold hopOf linkTerm
  cases peer with
  | none =>
    simp only at h ⊢
    injection h with h
    simp only [Prod.mk.injEq] at h
    rcases h with ⟨rfl, rfl⟩
    refine ⟨rfl, ?_⟩
    split <;> simp
  | some pi =>
    simp only at h ⊢
    by_cases hx : x.2 = sc
    · rw [if_pos hx] at h
      rw [if_pos hx, if_pos hx]
      cases hp : x.1.peers[pi]? with
      | none => simp [hp] at h
      | some q =>
        simp only [hp] at h
        injection h with h
        simp only [Prod.mk.injEq] at h
        rcases h with ⟨rfl, rfl⟩
        simp
    · rw [if_neg hx] at h
      rw [if_neg hx, if_neg hx]
      injection h with h
      simp only [Prod.mk.injEq] at h
      rcases h with ⟨rfl, rfl⟩
      refine ⟨rfl, ?_⟩
      split <;> simp

theorem walk_eq (sc : Nat) (peer : Option Nat) : ∀ (l : List (AsE × Nat)) (mtu m : Nat)
    (ifs : List (Nat × Nat)) (hops : List HopF), walk sc peer l mtu = .ok (m, ifs, hops) →
    hops = l.map (hopOf sc peer) ∧
    ifs = l.flatMap (fun x => hopIfs sc peer x.1 x.2 (hopOf sc peer x)) ∧
    m = (l.flatMap (mtuTerms sc peer)).foldl min mtu := by
  intro l
  induction l with
  | nil =>
    intro mtu m ifs hops h
    simp [walk] at h
    rcases h with ⟨rfl, rfl, rfl⟩
    simp
  | cons x rest ih =>
    intro mtu m ifs hops h
    unfold walk at h
    split at h
    · simp at h
    · rename_i hf m1 hpk
      split at h
      · simp at h
      · rename_i m' ifs' hops' hr
        injection h with h
        simp only [Prod.mk.injEq] at h
        rcases h with ⟨rfl, rfl, rfl⟩
        rcases pickHop_eq hpk with ⟨rfl, rfl⟩
        rcases ih _ _ _ _ hr with ⟨h1, h2, h3⟩
        refine ⟨by simp [h1], by simp [h2], ?_⟩
        rw [h3]
        simp only [List.flatMap_cons, mtuTerms, List.foldl_append, List.foldl_cons, List.foldl_nil]

theorem flatMap_congr' {α β : Type} {f g : α → List β} : ∀ {l : List α}, (∀ x ∈ l, f x = g x) →
    l.flatMap f = l.flatMap g := by
  intro l
  induction l with
  | nil => intro _; rfl
  | cons a as ih =>
    intro h
    simp only [List.flatMap_cons]
    rw [h a List.mem_cons_self, ih (fun x hx => h x (List.mem_cons_of_mem _ hx))]

theorem ite_err_inv {α : Type} {c : Prop} [Decidable c] {s : Site} {x : Except Site α} {v : α}
    (h : (if c then Except.error s else x) = Except.ok v) : ¬c ∧ x = Except.ok v := by
  split at h
  · cases h
  · exact ⟨‹_›, h⟩

/-! ## 2. a graph edge as a piece -/

/-- the piece a graph edge stands for -/
def pieceOf (e : GEdge) : Spec.Piece :=
  ⟨e.seg, e.edge.shortcut, e.consDir, e.edge.peer⟩

theorem consDir_of_lastIa {e : GEdge} {l : Nat} (h : e.seg.seg.lastIa = some l) :
    e.consDir = (e.dst.ia? == some l) := by
  unfold GEdge.consDir
  cases e.dst.ia? <;> simp [h]

theorem used_entry {s : Seg} {sc : Nat} {x : AsE × Nat} (hx : x ∈ s.entries.zipIdx.drop sc) :
    s.entries[x.2]? = some x.1 ∧ sc ≤ x.2 := by
  have hmem := List.mem_of_mem_drop hx
  refine ⟨List.mem_zipIdx_iff_getElem?.mp hmem, ?_⟩
  rcases List.getElem_of_mem hx with ⟨i, hi, hxi⟩
  rw [List.getElem_drop] at hxi
  have : x.2 = sc + i := by
    rw [← hxi]; simp
  omega

theorem hopOf_eq_hopAt {e : GEdge} {x : AsE × Nat} (hx : x ∈ e.seg.seg.entries.zipIdx.drop e.edge.shortcut) :
    hopOf e.edge.shortcut e.edge.peer x = (pieceOf e).hopAt x.2 x.1 := by
  have hget := (used_entry hx).1
  unfold hopOf Spec.Piece.hopAt Spec.Piece.peerE? Spec.Piece.entries pieceOf
  simp only
  cases hp : e.edge.peer with
  | none => simp
  | some pi =>
    simp only
    by_cases hc : x.2 = e.edge.shortcut
    · rw [if_pos hc, if_pos hc, ← hc, hget]
      simp only [Option.bind_some]
      cases x.1.peers[pi]? <;> rfl
    · rw [if_neg hc, if_neg hc]

theorem hopIfs_reverse {e : GEdge} {x : AsE × Nat} (hf : HopF) :
    (hopIfs e.edge.shortcut e.edge.peer x.1 x.2 hf).reverse =
      (if hf.ingress ≠ 0 ∧ (x.2 ≠ e.edge.shortcut ∨ e.edge.shortcut = 0 ∨ e.edge.peer.isSome) then [(x.1.ia, hf.ingress)] else []) ++
      (if hf.egress ≠ 0 then [(x.1.ia, hf.egress)] else []) := by
  unfold hopIfs
  have hcond : (hf.ingress ≠ 0 ∧ (¬(x.2 = e.edge.shortcut ∧ x.2 ≠ 0) ∨ (x.2 = e.edge.shortcut ∧ e.edge.peer.isSome)))
      ↔ (hf.ingress ≠ 0 ∧ (x.2 ≠ e.edge.shortcut ∨ e.edge.shortcut = 0 ∨ e.edge.peer.isSome)) := by
    constructor
    · rintro ⟨h0, h | h⟩
      · refine ⟨h0, ?_⟩
        by_cases hx : x.2 = e.edge.shortcut
        · right; left
          have : ¬ x.2 ≠ 0 := fun h' => h ⟨hx, h'⟩
          omega
        · exact Or.inl hx
      · exact ⟨h0, Or.inr (Or.inr h.2)⟩
    · rintro ⟨h0, h | h | h⟩
      · exact ⟨h0, Or.inl (fun hh => h hh.1)⟩
      · exact ⟨h0, Or.inl (fun hh => hh.2 (by omega))⟩
      · refine ⟨h0, ?_⟩
        by_cases hx : x.2 = e.edge.shortcut
        · exact Or.inr ⟨hx, h⟩
        · exact Or.inl (fun hh => hx hh.1)
  by_cases h1 : hf.egress ≠ 0 <;>
  by_cases h2 : (hf.ingress ≠ 0 ∧ (¬(x.2 = e.edge.shortcut ∧ x.2 ≠ 0) ∨ (x.2 = e.edge.shortcut ∧ e.edge.peer.isSome)))
  · rw [if_pos h1, if_pos h2, if_pos (hcond.mp h2)]; rfl
  · rw [if_pos h1, if_neg h2, if_neg (fun h => h2 (hcond.mpr h))]; rfl
  · rw [if_neg h1, if_pos h2, if_pos (hcond.mp h2)]; rfl
  · rw [if_neg h1, if_neg h2, if_neg (fun h => h2 (hcond.mpr h))]; rfl

/-- MTU values of everything a graph edge traverses -/
def edgeMtuTerms (e : GEdge) : List Nat :=
  (e.seg.seg.entries.zipIdx.drop e.edge.shortcut).reverse.flatMap (mtuTerms e.edge.shortcut e.edge.peer)

/-- `PathSolution::path` does for one edge what the specification says about the piece -/
theorem edgePart_spec {e : GEdge} {mtu m : Nat} {ifs : List (Nat × Nat)} {ps : PSeg}
    (h : edgePart e mtu = .ok (m, ifs, ps)) :
    ps = (pieceOf e).pseg ∧ ifs = (pieceOf e).ifs ∧ m = (edgeMtuTerms e).foldl min mtu := by
  unfold edgePart at h
  split at h
  · simp at h
  · split at h
    · simp at h
    · rename_i m0 ifs0 hops0 hw
      split at h
      · simp at h
      · rename_i cd hcd
        split at h
        · simp at h
        · rename_i sid hsid
          injection h with h
          simp only [Prod.mk.injEq] at h
          rcases h with ⟨rfl, rfl, rfl⟩
          rcases walk_eq _ _ _ _ _ _ _ hw with ⟨hh, hi, hm⟩
          -- the direction flag
          have hdown : (pieceOf e).down = cd := by
            unfold consDirOf at hcd
            split at hcd
            · simp at hcd
            · rename_i last hl
              injection hcd with hcd
              simp [pieceOf, consDir_of_lastIa hl, ← hcd]
          have hmapeq : (e.seg.seg.entries.zipIdx.drop e.edge.shortcut).map (hopOf e.edge.shortcut e.edge.peer)
              = (pieceOf e).consHops := by
            unfold Spec.Piece.consHops Spec.Piece.used Spec.Piece.entries
            apply List.map_congr_left
            intro x hx
            exact hopOf_eq_hopAt hx
          have hhops : (if cd = true then hops0.reverse else hops0) = (pieceOf e).hops := by
            unfold Spec.Piece.hops
            rw [hdown, hh, List.map_reverse, hmapeq]
            cases cd <;> simp
          have hifeq : (e.seg.seg.entries.zipIdx.drop e.edge.shortcut).flatMap
              (fun x => (hopIfs e.edge.shortcut e.edge.peer x.1 x.2 (hopOf e.edge.shortcut e.edge.peer x)).reverse)
              = (pieceOf e).consIfs := by
            unfold Spec.Piece.consIfs Spec.Piece.used Spec.Piece.entries
            apply flatMap_congr'
            intro x hx
            rw [hopIfs_reverse, hopOf_eq_hopAt hx]
            rfl
          have hifs : (if cd = true then ifs0.reverse else ifs0) = (pieceOf e).ifs := by
            unfold Spec.Piece.ifs
            rw [hdown, hi]
            cases cd
            · simp only [Bool.false_eq_true, if_false]
              rw [← hifeq, List.reverse_flatMap]
              simp [Function.comp_def]
            · simp only [if_true]
              rw [← hifeq, List.reverse_flatMap, List.reverse_reverse]
              simp [Function.comp_def]
          have hsid' : sid = (pieceOf e).segId := by
            unfold initSegId at hsid
            rw [hcd] at hsid
            simp only at hsid
            have h1 := (ite_err_inv hsid).2
            have h2 := (ite_err_inv h1).2
            injection h2 with h2
            rw [← h2]
            unfold Spec.Piece.segId Spec.Piece.beta Spec.Piece.len Spec.Piece.entries
            rw [hdown]
            rfl
          refine ⟨?_, hifs, ?_⟩
          · unfold Spec.Piece.pseg
            rw [hdown, ← hhops, ← hsid']
            rfl
          · rw [hm]; rfl

/-! ## 3. every `add_directed_edge` call is a valid piece between the joints the vertices stand for -/

def jointOf : Vertex → Spec.Joint
  | .as ia => .as ia
  | .peering a b c d => .link a b c d

theorem leaf_eq {s : InSeg} {leaf : Nat} (h : s.seg.lastIa = some leaf) (sc : Nat) (d : Bool) (pr : Option Nat) :
    (Spec.Piece.mk s sc d pr).leaf? = some (.as leaf) := by
  unfold Seg.lastIa at h
  unfold Spec.Piece.leaf? Spec.Piece.entries
  simp only
  cases hl : s.seg.entries.getLast? with
  | none => simp [hl] at h
  | some a => simp [hl] at h; simp [h]

theorem near_nopeer {s : InSeg} {sc : Nat} {a : AsE} (h : s.seg.entries[sc]? = some a) (d : Bool) :
    (Spec.Piece.mk s sc d none).near? = some (.as a.ia) := by
  unfold Spec.Piece.near? Spec.Piece.entries
  simp [h]

theorem peerE_eq {s : InSeg} {sc pi : Nat} {a : AsE} {q : PeerE} (h : s.seg.entries[sc]? = some a)
    (hq : a.peers[pi]? = some q) (d : Bool) : (Spec.Piece.mk s sc d (some pi)).peerE? = some q := by
  unfold Spec.Piece.peerE? Spec.Piece.entries
  simp [h, hq]

theorem near_peer {s : InSeg} {sc pi : Nat} {a : AsE} {q : PeerE} (h : s.seg.entries[sc]? = some a)
    (hq : a.peers[pi]? = some q) (d : Bool) :
    (Spec.Piece.mk s sc d (some pi)).near? =
      some (if d then .link q.peer q.peerIf a.ia q.hop.ingress else .link a.ia q.hop.ingress q.peer q.peerIf) := by
  unfold Spec.Piece.near?
  rw [peerE_eq h hq]
  unfold Spec.Piece.entries
  simp only [h]
  cases d <;> simp

theorem coreInserts_piece (s : InSeg) (hc : s.core = true) (i : Ins) (hi : i ∈ coreInserts s.seg) :
    (pieceOf ⟨i.1, i.2.1, s, i.2.2⟩).from? = some (jointOf i.1) ∧
    (pieceOf ⟨i.1, i.2.1, s, i.2.2⟩).to? = some (jointOf i.2.1) ∧
    (pieceOf ⟨i.1, i.2.1, s, i.2.2⟩).Valid := by
  unfold coreInserts at hi
  split at hi
  · rename_i f l hf hl
    have hpos := firstIa_some hf
    have h0 : ∃ a, s.seg.entries[0]? = some a ∧ a.ia = f := by
      unfold Seg.firstIa at hf
      cases hh : s.seg.entries.head? with
      | none => simp [hh] at hf
      | some a => simp [hh] at hf; exact ⟨a, by rw [← List.head?_eq_getElem?]; exact hh, hf⟩
    rcases h0 with ⟨a, ha, haf⟩
    have hvalid : ∀ d, (Spec.Piece.mk s 0 d none).Valid := by
      intro d
      refine ⟨by simpa [Spec.Piece.len, Spec.Piece.entries, Seg.len] using hpos, fun _ => ⟨rfl, rfl⟩, ?_, ?_⟩
      · intro h; rw [hc] at h; cases h
      · intro i h; cases h
    simp at hi
    rcases hi with h | h <;> subst h
    · -- as f → as l
      have hd : (pieceOf ⟨.as f, .as l, s, ⟨numberOfHops s.seg 0 false, 0, none⟩⟩)
          = Spec.Piece.mk s 0 true none := by
        simp [pieceOf, GEdge.consDir, Vertex.ia?, hl]
      rw [hd]
      refine ⟨?_, ?_, hvalid true⟩
      · simp [Spec.Piece.from?, near_nopeer ha, jointOf, haf]
      · simp [Spec.Piece.to?, leaf_eq hl, jointOf]
    · -- as l → as f
      have hd : (pieceOf ⟨.as l, .as f, s, ⟨numberOfHops s.seg 0 false, 0, none⟩⟩)
          = Spec.Piece.mk s 0 (f == l) none := by
        simp [pieceOf, GEdge.consDir, Vertex.ia?, hl]
      rw [hd]
      refine ⟨?_, ?_, hvalid _⟩
      · by_cases hfl : f = l
        · simp [Spec.Piece.from?, hfl, near_nopeer ha, jointOf, haf]
        · simp [Spec.Piece.from?, hfl, leaf_eq hl, jointOf]
      · by_cases hfl : f = l
        · simp [Spec.Piece.to?, hfl, leaf_eq hl, jointOf]
        · simp [Spec.Piece.to?, hfl, near_nopeer ha, jointOf, haf]
  · simp at hi

theorem entryInserts_piece (s : InSeg) (hc : s.core = false) (leaf : Nat) (hl : s.seg.lastIa = some leaf)
    (x : AsE × Nat) (hx : x ∈ s.seg.entries.zipIdx) (i : Ins) (hi : i ∈ entryInserts s.seg leaf x) :
    (pieceOf ⟨i.1, i.2.1, s, i.2.2⟩).from? = some (jointOf i.1) ∧
    (pieceOf ⟨i.1, i.2.1, s, i.2.2⟩).to? = some (jointOf i.2.1) ∧
    (pieceOf ⟨i.1, i.2.1, s, i.2.2⟩).Valid := by
  have hget : s.seg.entries[x.2]? = some x.1 := List.mem_zipIdx_iff_getElem?.mp hx
  have hlt : x.2 < s.seg.entries.length := (List.getElem?_eq_some_iff.mp hget).1
  unfold entryInserts at hi
  rcases List.mem_append.mp hi with h | h
  · split at h
    · rename_i hne
      have hvalid : ∀ d, (Spec.Piece.mk s x.2 d none).Valid := by
        intro d
        refine ⟨by simpa [Spec.Piece.len, Spec.Piece.entries] using hlt, ?_, ?_, ?_⟩
        · intro h'; rw [hc] at h'; cases h'
        · intro _ _
          simp only [Spec.Piece.len, Spec.Piece.entries]
          unfold Seg.len at hne
          omega
        · intro i h'; cases h'
      simp at h
      rcases h with h | h <;> subst h
      · -- as leaf → as x.ia
        have hd : (pieceOf ⟨.as leaf, .as x.1.ia, s, ⟨numberOfHops s.seg x.2 false, x.2, none⟩⟩)
            = Spec.Piece.mk s x.2 (x.1.ia == leaf) none := by
          simp [pieceOf, GEdge.consDir, Vertex.ia?, hl]
        rw [hd]
        refine ⟨?_, ?_, hvalid _⟩
        · by_cases hfl : x.1.ia = leaf
          · simp [Spec.Piece.from?, hfl, near_nopeer hget, jointOf]
          · simp [Spec.Piece.from?, hfl, leaf_eq hl, jointOf]
        · by_cases hfl : x.1.ia = leaf
          · simp [Spec.Piece.to?, hfl, leaf_eq hl, jointOf]
          · simp [Spec.Piece.to?, hfl, near_nopeer hget, jointOf]
      · -- as x.ia → as leaf
        have hd : (pieceOf ⟨.as x.1.ia, .as leaf, s, ⟨numberOfHops s.seg x.2 false, x.2, none⟩⟩)
            = Spec.Piece.mk s x.2 true none := by
          simp [pieceOf, GEdge.consDir, Vertex.ia?, hl]
        rw [hd]
        refine ⟨?_, ?_, hvalid _⟩
        · simp [Spec.Piece.from?, near_nopeer hget, jointOf]
        · simp [Spec.Piece.to?, leaf_eq hl, jointOf]
    · simp at h
  · rcases List.mem_flatMap.mp h with ⟨q, hq, hi'⟩
    have hqget : x.1.peers[q.2]? = some q.1 := List.mem_zipIdx_iff_getElem?.mp hq
    have hvalid : ∀ d, (Spec.Piece.mk s x.2 d (some q.2)).Valid := by
      intro d
      refine ⟨by simpa [Spec.Piece.len, Spec.Piece.entries] using hlt, ?_, ?_, ?_⟩
      · intro h'; rw [hc] at h'; cases h'
      · intro _ h'; cases h'
      · intro i h'
        injection h' with h'
        subst h'
        exact ⟨q.1, peerE_eq hget hqget d⟩
    simp at hi'
    rcases hi' with h | h <;> subst h
    · have hd : (pieceOf ⟨.as leaf, .peering x.1.ia q.1.hop.ingress q.1.peer q.1.peerIf, s,
          ⟨numberOfHops s.seg x.2 true, x.2, some q.2⟩⟩) = Spec.Piece.mk s x.2 false (some q.2) := by
        simp [pieceOf, GEdge.consDir, Vertex.ia?, hl]
      rw [hd]
      refine ⟨?_, ?_, hvalid _⟩
      · simp [Spec.Piece.from?, leaf_eq hl, jointOf]
      · simp [Spec.Piece.to?, near_peer hget hqget, jointOf]
    · have hd : (pieceOf ⟨.peering q.1.peer q.1.peerIf x.1.ia q.1.hop.ingress, .as leaf, s,
          ⟨numberOfHops s.seg x.2 false, x.2, some q.2⟩⟩) = Spec.Piece.mk s x.2 true (some q.2) := by
        simp [pieceOf, GEdge.consDir, Vertex.ia?, hl]
      rw [hd]
      refine ⟨?_, ?_, hvalid _⟩
      · simp [Spec.Piece.from?, near_peer hget hqget, jointOf]
      · simp [Spec.Piece.to?, leaf_eq hl, jointOf]

theorem inserts_piece (s : InSeg) (i : Ins) (hi : i ∈ inserts s) :
    (pieceOf ⟨i.1, i.2.1, s, i.2.2⟩).from? = some (jointOf i.1) ∧
    (pieceOf ⟨i.1, i.2.1, s, i.2.2⟩).to? = some (jointOf i.2.1) ∧
    (pieceOf ⟨i.1, i.2.1, s, i.2.2⟩).Valid := by
  unfold inserts at hi
  split at hi
  · rename_i hc
    exact coreInserts_piece s hc i hi
  · rename_i hc
    have hc' : s.core = false := by simpa using hc
    unfold nonCoreInserts at hi
    split at hi
    · simp at hi
    · rename_i leaf hl
      rcases List.mem_flatMap.mp hi with ⟨x, hx, hi'⟩
      exact entryInserts_piece s hc' leaf hl x (List.mem_reverse.mp hx) i hi'

/-- a graph edge is a valid piece of one of the given segments, between the joints of its vertices -/
theorem graphOf_piece {segs : List InSeg} {e : GEdge} (h : e ∈ graphOf segs) :
    (pieceOf e).from? = some (jointOf e.src) ∧ (pieceOf e).to? = some (jointOf e.dst) ∧
    (pieceOf e).Valid ∧ (pieceOf e).seg ∈ segs := by
  have hm := mem_graphOf h
  have hi := (mem_segEdges hm.2).2
  have := inserts_piece e.seg _ hi
  exact ⟨this.1, this.2.1, this.2.2, hm.1⟩

/-! ## 4. a solution of the search is a chain of graph edges -/

def edgesChain : Vertex → List GEdge → Prop
  | _, [] => True
  | v, e :: rest => e.src = v ∧ edgesChain e.dst rest

def lastV : Vertex → List GEdge → Vertex
  | v, [] => v
  | _, e :: rest => lastV e.dst rest

theorem edgesChain_snoc : ∀ (l : List GEdge) (v : Vertex) (e : GEdge),
    edgesChain v (l ++ [e]) ↔ edgesChain v l ∧ e.src = lastV v l := by
  intro l
  induction l with
  | nil => intro v e; simp [edgesChain, lastV]
  | cons a as ih => intro v e; simp [edgesChain, lastV, ih, and_assoc]

theorem lastV_snoc : ∀ (l : List GEdge) (v : Vertex) (e : GEdge), lastV v (l ++ [e]) = e.dst := by
  intro l
  induction l with
  | nil => intro v e; rfl
  | cons a as ih => intro v e; simp [lastV, ih]

/-- `Spec.Piece.use` as a function of the two flags the code looks at -/
def useOf (core cons : Bool) : Spec.Use := if core then .core else if cons then .down else .up

theorem pieceOf_use (e : GEdge) : (pieceOf e).use = useOf e.seg.core e.consDir := rfl

/-- the generated two-edge table of `valid_next_seg` admits exactly the ordered pairs of uses -/
theorem valid2_iff (aC aD nC nD : Bool) :
    valid2 aC aD nC nD = Spec.usesOk [useOf aC aD, useOf nC nD] := by
  cases aC <;> cases aD <;> cases nC <;> cases nD <;> decide

/-- the generated three-edge table admits exactly up · core · down -/
theorem valid3_iff (aC aD bC bD nC nD : Bool) (hab : valid2 aC aD bC bD = true) :
    valid3 aC aD bC bD nC nD = Spec.usesOk [useOf aC aD, useOf bC bD, useOf nC nD] := by
  revert hab
  cases aC <;> cases aD <;> cases bC <;> cases bD <;> cases nC <;> cases nD <;> decide

structure IsChain (g : List GEdge) (src : Nat) (s : Sol) : Prop where
  mem : ∀ e ∈ s.edges, e ∈ g
  chain : edgesChain (.as src) s.edges
  cur : s.cur = lastV (.as src) s.edges
  kinds : s.edges = [] ∨ Spec.usesOk (s.edges.map fun e => (pieceOf e).use) = true
  cost : s.cost = (s.edges.map fun e => e.edge.weight).sum

theorem extend_isChain {g : List GEdge} {src : Nat} {s t : Sol} (hs : IsChain g src s) (h : t ∈ extend g s) :
    IsChain g src t ∧ t.edges ≠ [] := by
  rcases mem_extend h with ⟨e, he, hsrc, hv, rfl⟩
  refine ⟨⟨?_, ?_, ?_, ?_, ?_⟩, by simp⟩
  · intro x hx
    rcases List.mem_append.mp hx with h | h
    · exact hs.mem x h
    · simp at h; subst h; exact he
  · simp only
    rw [edgesChain_snoc]
    exact ⟨hs.chain, by rw [hsrc, hs.cur]⟩
  · simp only; rw [lastV_snoc]
  · right
    simp only
    cases hE : s.edges with
    | nil => simp [Spec.usesOk]
    | cons a r1 =>
      cases r1 with
      | nil =>
        rw [hE] at hv
        simp only [validNext, valid2] at hv
        simp only [List.cons_append, List.nil_append, List.map_cons, List.map_nil, pieceOf_use]
        rw [← valid2_iff]; exact hv
      | cons b r2 =>
        cases r2 with
        | nil =>
          rw [hE] at hv
          simp only [validNext, valid3] at hv
          simp only [List.cons_append, List.nil_append, List.map_cons, List.map_nil, pieceOf_use]
          have hab : valid2 a.seg.core a.consDir b.seg.core b.consDir = true := by
            rcases hs.kinds with h | h
            · rw [hE] at h; cases h
            · rw [hE] at h
              simp only [List.map_cons, List.map_nil, pieceOf_use] at h
              rw [valid2_iff]; exact h
          rw [← valid3_iff _ _ _ _ _ _ hab]; exact hv
        | cons c r3 =>
          rw [hE] at hv
          simp [validNext] at hv
  · simp [hs.cost]

theorem bfs_isChain (g : List GEdge) (src dst : Nat) : ∀ (fuel : Nat) (fr : List Sol),
    (∀ s ∈ fr, IsChain g src s) →
    ∀ t ∈ bfs g dst fuel fr, IsChain g src t ∧ t.edges ≠ [] ∧ t.cur = .as dst := by
  intro fuel
  induction fuel with
  | zero => intro fr _ t ht; simp [bfs] at ht
  | succ n ih =>
    intro fr hfr t ht
    simp only [bfs] at ht
    have hnew : ∀ s ∈ fr.flatMap (extend g), IsChain g src s ∧ s.edges ≠ [] := by
      intro s hs
      rcases List.mem_flatMap.mp hs with ⟨p, hp, hsp⟩
      exact extend_isChain (hfr p hp) hsp
    rcases List.mem_append.mp ht with h | h
    · have := List.mem_filter.mp h
      exact ⟨(hnew t this.1).1, (hnew t this.1).2, by simpa using this.2⟩
    · exact ih _ (fun s hs => (hnew s (List.mem_filter.mp hs).1).1) t h

theorem candidates_isChain (g : List GEdge) (src dst : Nat) :
    ∀ t ∈ candidates g src dst, IsChain g src t ∧ t.edges ≠ [] ∧ t.cur = .as dst := by
  apply bfs_isChain
  intro s hs
  simp at hs
  subst hs
  exact ⟨by simp [Sol.new], by simp [Sol.new, edgesChain], by simp [Sol.new, lastV], Or.inl rfl, by simp [Sol.new]⟩

/-! ## 5. a candidate solution is a valid combination, and `path()` realises it -/

theorem chained_of_edgesChain (segs : List InSeg) : ∀ (es : List GEdge) (v : Vertex),
    (∀ e ∈ es, e ∈ graphOf segs) → edgesChain v es → Spec.chained (es.map pieceOf) := by
  intro es
  induction es with
  | nil => intro v _ _; simp [Spec.chained]
  | cons a rest ih =>
    intro v hm hc
    cases rest with
    | nil => simp [Spec.chained]
    | cons b rest' =>
      simp only [List.map_cons, Spec.chained]
      have ha := graphOf_piece (hm a List.mem_cons_self)
      have hb := graphOf_piece (hm b (by simp))
      have hc2 : edgesChain a.dst (b :: rest') := hc.2
      refine ⟨⟨jointOf a.dst, ha.2.1, ?_⟩, ?_⟩
      · rw [hb.1, hc2.1]
      · exact ih a.dst (fun e he => hm e (List.mem_cons_of_mem _ he)) hc2

theorem lastV_getLast : ∀ (es : List GEdge) (v : Vertex), es ≠ [] →
    ∃ e, es.getLast? = some e ∧ lastV v es = e.dst := by
  intro es
  induction es with
  | nil => intro v h; exact absurd rfl h
  | cons a rest ih =>
    intro v _
    cases rest with
    | nil => exact ⟨a, rfl, rfl⟩
    | cons b rest' =>
      rcases ih a.dst (by simp) with ⟨e, he, hl⟩
      exact ⟨e, by simpa using he, by simpa [lastV] using hl⟩

/-- **a candidate solution is a valid combination of the given segments** -/
theorem candidate_valid {segs : List InSeg} {src dst : Nat} {s : Sol}
    (hs : s ∈ candidates (graphOf segs) src dst) :
    Spec.Valid segs src dst (s.edges.map pieceOf) := by
  rcases candidates_isChain _ _ _ s hs with ⟨hc, hne, hcur⟩
  refine ⟨?_, ?_, ?_, ?_, ?_⟩
  · intro p hp
    rcases List.mem_map.mp hp with ⟨e, he, rfl⟩
    have := graphOf_piece (hc.mem e he)
    exact ⟨this.2.2.1, this.2.2.2⟩
  · rcases hc.kinds with h | h
    · exact absurd h hne
    · rw [List.map_map]; exact h
  · cases hE : s.edges with
    | nil => exact absurd hE hne
    | cons e rest =>
      have hch := hc.chain
      rw [hE] at hch
      have := graphOf_piece (hc.mem e (by rw [hE]; exact List.mem_cons_self))
      simp [this.1, hch.1, jointOf]
  · rcases lastV_getLast s.edges (.as src) hne with ⟨e, he, hl⟩
    have hmem : e ∈ s.edges := List.mem_of_getLast? he
    have := graphOf_piece (hc.mem e hmem)
    rw [List.getLast?_map, he]
    simp only [Option.map_some, Option.bind_some]
    rw [this.2.1, ← hl, ← hc.cur, hcur]
    rfl
  · exact chained_of_edgesChain segs s.edges (.as src) hc.mem hc.chain

/-- all MTU values entering the minimum of a solution -/
def solMtuTerms (s : Sol) : List Nat := s.edges.flatMap edgeMtuTerms

theorem edgeParts_spec : ∀ (es : List GEdge) (mtu n m : Nat) (ifs : List (Nat × Nat)) (segs : List PSeg),
    edgeParts es mtu n = .ok (m, ifs, segs) →
    segs = (es.map pieceOf).map Spec.Piece.pseg ∧ ifs = (es.map pieceOf).flatMap Spec.Piece.ifs ∧
    m = (es.flatMap edgeMtuTerms).foldl min mtu := by
  intro es
  induction es with
  | nil =>
    intro mtu n m ifs segs h
    simp [edgeParts] at h
    rcases h with ⟨rfl, rfl, rfl⟩
    simp
  | cons e rest ih =>
    intro mtu n m ifs segs h
    unfold edgeParts at h
    split at h
    · simp at h
    · rename_i m1 ifs1 ps hep
      split at h
      · simp at h
      · split at h
        · simp at h
        · rename_i m2 ifs2 pss hr
          injection h with h
          simp only [Prod.mk.injEq] at h
          rcases h with ⟨rfl, rfl, rfl⟩
          rcases edgePart_spec hep with ⟨h1, h2, h3⟩
          rcases ih _ _ _ _ _ hr with ⟨h4, h5, h6⟩
          refine ⟨by simp [h1, h4], by simp [h2, h5], ?_⟩
          rw [h6, h3]
          simp [List.foldl_append]

/-- `PathSolution::path` realises the combination the solution stands for -/
theorem solPath_realises {s : Sol} {p : Path} (h : solPath s = .path p) :
    Spec.realises (s.edges.map pieceOf) = (p.segs, p.ifs) ∧
    p.mtu = (solMtuTerms s).foldl min MTU_INIT ∧
    p.ifs.head?.map (·.1) = some p.src ∧ p.ifs.getLast?.map (·.1) = some p.dst := by
  rcases solPath_path h with ⟨mtu, ifs, segs, expiry, f, l, _, hep, _, _, _, hf, hl, rfl⟩
  rcases edgeParts_spec _ _ _ _ _ _ hep with ⟨h1, h2, h3⟩
  refine ⟨?_, h3, by simp [hf], by simp [hl]⟩
  unfold Spec.realises
  rw [← h1, ← h2]

/-- **when `PathSolution::path` returns a path**: for a solution over graph edges with at least one
edge, `path()` returns a path as soon as the data-plane segments of its combination pass `wire_valid`
(`encodeOk`: per-segment and total hop-field limits, size) and the combination names at least one
interface; the path then carries exactly the combination's segments and interface list. -/
theorem solPath_of_encodable {g : List GEdge} {s : Sol} (hs : SolOk g s)
    (hg : ∀ e ∈ g, EdgeOk e.seg.seg e.edge) (hne : s.edges ≠ [])
    (henc : encodeOk ((s.edges.map pieceOf).map Spec.Piece.pseg) = true)
    (hifs : (s.edges.map pieceOf).flatMap Spec.Piece.ifs ≠ []) :
    ∃ p, solPath s = .path p ∧ p.segs = (s.edges.map pieceOf).map Spec.Piece.pseg ∧
      p.ifs = (s.edges.map pieceOf).flatMap Spec.Piece.ifs := by
  rcases edgeParts_ok s.edges MTU_INIT 0 (fun e he => hg e (hs.edges_mem e he)) (by have := hs.len_le; omega)
    with ⟨⟨mtu, ifs, segs⟩, hr⟩
  rcases edgeParts_spec _ _ _ _ _ _ hr with ⟨h1, h2, _⟩
  rcases pathExpiry_ok segs with ⟨v, hv⟩
  rw [← h1] at henc
  rw [← h2] at hifs
  have hview := viewOk_of_encodeOk henc
  cases hh : ifs.head? with
  | none => rw [List.head?_eq_none_iff] at hh; exact absurd hh hifs
  | some f =>
    cases hl : ifs.getLast? with
    | none => rw [List.getLast?_eq_none_iff] at hl; exact absurd hl hifs
    | some l =>
      refine ⟨⟨f.1, l.1, segs, mtu, v, ifs⟩, ?_, h1, h2⟩
      unfold solPath
      have hne' : s.edges.isEmpty = false := by
        cases hE : s.edges with
        | nil => exact absurd hE hne
        | cons a as => rfl
      simp only [hne', Bool.false_eq_true, if_false, hr, hv, henc, hview, Bool.not_true, hh, hl]

/-! ## 6. the interface list read off the hop fields -/

theorem used_cons (p : Spec.Piece) (h : p.cut < p.len) :
    ∃ a rest, p.entries[p.cut]? = some a ∧ p.used = (a, p.cut) :: rest ∧
      ∀ x ∈ rest, p.cut < x.2 ∧ p.entries[x.2]? = some x.1 := by
  unfold Spec.Piece.len at h
  have hl : p.cut < p.entries.zipIdx.length := by simpa using h
  refine ⟨p.entries[p.cut], p.entries.zipIdx.drop (p.cut + 1), by simp, ?_, ?_⟩
  · unfold Spec.Piece.used
    rw [List.drop_eq_getElem_cons hl]
    simp
  · intro x hx
    have := used_entry (s := p.seg.seg) (sc := p.cut + 1) (x := x) hx
    exact ⟨by omega, this.1⟩

/-- hypothesis of `interfaces_match_hops`: the first AS entry of the segment has no ingress interface
(it is where the beacon was originated) -/
def FirstIngressZero (s : Seg) : Prop := ∀ a, s.entries[0]? = some a → a.hop.ingress = 0

theorem entry_ids (p : Spec.Piece) (x : AsE × Nat) (drop : Bool)
    (hc : (p.hopAt x.2 x.1).ingress ≠ 0 → ((x.2 ≠ p.cut ∨ p.cut = 0 ∨ p.peer.isSome = true) ↔ drop = false)) :
    ((if (p.hopAt x.2 x.1).ingress ≠ 0 ∧ (x.2 ≠ p.cut ∨ p.cut = 0 ∨ p.peer.isSome = true)
        then [(x.1.ia, (p.hopAt x.2 x.1).ingress)] else []) ++
      (if (p.hopAt x.2 x.1).egress ≠ 0 then [(x.1.ia, (p.hopAt x.2 x.1).egress)] else [])).map (·.2)
    = Spec.hopIds drop (p.hopAt x.2 x.1) := by
  unfold Spec.hopIds
  by_cases h1 : (p.hopAt x.2 x.1).ingress = 0 <;> by_cases h4 : (p.hopAt x.2 x.1).egress = 0 <;>
  by_cases h2 : (x.2 ≠ p.cut ∨ p.cut = 0 ∨ p.peer.isSome = true) <;> cases drop <;> simp_all

theorem piece_ifs_ids (p : Spec.Piece) (hv : p.cut < p.len) (hz : FirstIngressZero p.seg.seg) :
    p.ifs.map (·.2) = Spec.segIds p.pseg := by
  rcases used_cons p hv with ⟨a, rest, ha, hu, hrest⟩
  have hcons : p.consIfs.map (·.2) = Spec.consIds p.peer.isSome p.consHops := by
    unfold Spec.Piece.consIfs Spec.Piece.consHops
    rw [hu]
    simp only [List.flatMap_cons, List.map_cons, Spec.consIds]
    rw [List.map_append]
    congr 1
    · -- the entry at the cut
      apply entry_ids p (a, p.cut) (!p.peer.isSome)
      intro hne
      simp only
      by_cases hp : p.peer.isSome = true
      · simp [hp]
      · have hp' : p.peer = none := by cases h : p.peer <;> simp_all
        have hhop : p.hopAt p.cut a = a.hop := by
          simp [Spec.Piece.hopAt, Spec.Piece.peerE?, hp']
        have hc : p.cut ≠ 0 := by
          intro hc
          apply hne
          simp only
          rw [hhop]
          exact hz a (by rw [← hc]; exact ha)
        simp [hp', hc]
    · -- the entries after the cut
      rw [List.map_flatMap, List.flatMap_map]
      apply flatMap_congr'
      intro x hx
      have hne : x.2 ≠ p.cut := by have := (hrest x hx).1; omega
      apply entry_ids p x false
      intro _
      simp [hne]
  unfold Spec.Piece.ifs Spec.segIds Spec.Piece.pseg Spec.Piece.hops
  cases p.down
  · simp only [Bool.false_eq_true, if_false, List.reverse_reverse, List.map_reverse, hcons]
  · simp only [if_true, hcons]

/-! ## 7. first and last interface of a piece of a well-formed segment -/

/-- well-formed segment: at least one link; every AS entry but the last has an egress interface, every
AS entry but the first an ingress interface; peering hop fields name the peering interface -/
structure SegWf (s : Seg) : Prop where
  len2 : 2 ≤ s.len
  egress : ∀ x ∈ s.entries.zipIdx, x.2 + 1 < s.len → x.1.hop.egress ≠ 0
  ingress : ∀ x ∈ s.entries.zipIdx, 0 < x.2 → x.1.hop.ingress ≠ 0
  peerIngress : ∀ a ∈ s.entries, ∀ q ∈ a.peers, q.hop.ingress ≠ 0

theorem getLast?_flatMap_of_last {α β : Type} (f : α → List β) : ∀ (l : List α) (xl : α),
    l.getLast? = some xl → f xl ≠ [] → (l.flatMap f).getLast? = (f xl).getLast? := by
  intro l
  induction l with
  | nil => intro xl h; simp at h
  | cons a rest ih =>
    intro xl h hne
    cases rest with
    | nil =>
      simp at h; subst h; simp
    | cons b rest' =>
      have h' : (b :: rest').getLast? = some xl := by simpa using h
      have := ih xl h' hne
      rw [List.flatMap_cons, List.getLast?_append, this]
      cases hx : (f xl).getLast? with
      | none => rw [List.getLast?_eq_none_iff] at hx; exact absurd hx hne
      | some v => simp

theorem head?_flatMap_of_head {α β : Type} (f : α → List β) (l : List α) (x : α)
    (h : l.head? = some x) (hne : f x ≠ []) : (l.flatMap f).head? = (f x).head? := by
  cases l with
  | nil => simp at h
  | cons a rest =>
    simp at h; subst h
    rw [List.flatMap_cons, List.head?_append]
    cases hx : (f a).head? with
    | none => rw [List.head?_eq_none_iff] at hx; exact absurd hx hne
    | some v => simp

/-- the per-entry interface list of `Spec.Piece.consIfs` -/
def entryIfs (p : Spec.Piece) (x : AsE × Nat) : List (Nat × Nat) :=
  (if (p.hopAt x.2 x.1).ingress ≠ 0 ∧ (x.2 ≠ p.cut ∨ p.cut = 0 ∨ p.peer.isSome) then [(x.1.ia, (p.hopAt x.2 x.1).ingress)] else []) ++
  (if (p.hopAt x.2 x.1).egress ≠ 0 then [(x.1.ia, (p.hopAt x.2 x.1).egress)] else [])

theorem consIfs_eq (p : Spec.Piece) : p.consIfs = p.used.flatMap (entryIfs p) := rfl

theorem entryIfs_ia (p : Spec.Piece) (x : AsE × Nat) : ∀ i ∈ entryIfs p x, i.1 = x.1.ia := by
  intro i hi
  unfold entryIfs at hi
  rcases List.mem_append.mp hi with h | h <;> split at h <;> simp at h <;> simp [h]

/-- (A) a non-peering piece that covers a link starts, in construction order, with an interface of the AS at the cut -/
theorem consIfs_head {p : Spec.Piece} (hwf : SegWf p.seg.seg) (hpeer : p.peer = none)
    (hcut : p.cut + 1 < p.len) :
    ∃ a i, p.entries[p.cut]? = some a ∧ p.consIfs.head? = some i ∧ i.1 = a.ia := by
  rcases used_cons p (by omega) with ⟨a, rest, ha, hu, _⟩
  have hmem : (a, p.cut) ∈ p.seg.seg.entries.zipIdx := List.mem_zipIdx_iff_getElem?.mpr ha
  have heg : a.hop.egress ≠ 0 := hwf.egress (a, p.cut) hmem hcut
  have hhop : p.hopAt p.cut a = a.hop := by simp [Spec.Piece.hopAt, Spec.Piece.peerE?, hpeer]
  have hne : entryIfs p (a, p.cut) ≠ [] := by
    unfold entryIfs
    simp only [hhop]
    rw [if_pos heg]
    simp
  have hh : p.consIfs.head? = (entryIfs p (a, p.cut)).head? := by
    rw [consIfs_eq]
    exact head?_flatMap_of_head _ _ _ (by rw [hu]; rfl) hne
  cases hx : (entryIfs p (a, p.cut)).head? with
  | none => rw [List.head?_eq_none_iff] at hx; exact absurd hx hne
  | some i =>
    exact ⟨a, i, ha, by rw [hh, hx], entryIfs_ia p _ i (List.mem_of_head? hx)⟩

/-- (B) a valid piece ends, in construction order, with an interface of the leaf AS -/
theorem consIfs_last {p : Spec.Piece} (hwf : SegWf p.seg.seg) (hv : p.Valid) :
    ∃ al j, p.entries.getLast? = some al ∧ p.consIfs.getLast? = some j ∧ j.1 = al.ia := by
  have hlen : 2 ≤ p.len := hwf.len2
  have hcut := hv.cut_lt
  have hlast : p.entries[p.len - 1]? = some (p.entries[p.len - 1]'(by unfold Spec.Piece.len at *; omega)) := by
    simp
  generalize hal : p.entries[p.len - 1]'(by unfold Spec.Piece.len at *; omega) = al at hlast
  have hgl : p.entries.getLast? = some al := by
    rw [List.getLast?_eq_getElem?]; exact hlast
  have hmem : (al, p.len - 1) ∈ p.seg.seg.entries.zipIdx := List.mem_zipIdx_iff_getElem?.mpr hlast
  have hul : p.used.getLast? = some (al, p.len - 1) := by
    unfold Spec.Piece.used
    rw [List.getLast?_drop]
    have : ¬ p.entries.zipIdx.length ≤ p.cut := by simp [Spec.Piece.len] at hcut ⊢; omega
    rw [if_neg this, List.getLast?_eq_getElem?, List.getElem?_zipIdx]
    simp only [List.length_zipIdx, Nat.zero_add]
    unfold Spec.Piece.len at hlast
    rw [hlast]; rfl
  have hne : entryIfs p (al, p.len - 1) ≠ [] := by
    unfold entryIfs
    by_cases hc : p.len - 1 = p.cut
    · -- the piece consists of the leaf only: it must be a peering piece
      have hpeer : ∃ i, p.peer = some i := by
        cases hp : p.peer with
        | some i => exact ⟨i, rfl⟩
        | none =>
          exfalso
          cases hcore : p.seg.core with
          | true => have := (hv.core_whole hcore).1; omega
          | false => have := hv.noncore_link hcore hp; omega
      rcases hpeer with ⟨i, hi⟩
      rcases hv.peer_ok i hi with ⟨q, hq⟩
      have hhop : p.hopAt (p.len - 1) al = q.hop := by simp [Spec.Piece.hopAt, hc, hq]
      have hqin : q.hop.ingress ≠ 0 := by
        unfold Spec.Piece.peerE? at hq
        rw [hi] at hq
        simp only at hq
        rw [← hc, hlast] at hq
        simp only [Option.bind_some] at hq
        exact hwf.peerIngress al (List.mem_of_getElem? hlast) q (List.mem_of_getElem? hq)
      simp only [hhop]
      rw [if_pos ⟨hqin, Or.inr (Or.inr (by simp [hi]))⟩]
      simp
    · have hhop : p.hopAt (p.len - 1) al = al.hop := by simp [Spec.Piece.hopAt, hc]
      have hin : al.hop.ingress ≠ 0 := hwf.ingress (al, p.len - 1) hmem (by simp; omega)
      simp only [hhop]
      rw [if_pos ⟨hin, Or.inl hc⟩]
      simp
  have hh : p.consIfs.getLast? = (entryIfs p (al, p.len - 1)).getLast? := by
    rw [consIfs_eq]
    exact getLast?_flatMap_of_last _ _ _ hul hne
  cases hx : (entryIfs p (al, p.len - 1)).getLast? with
  | none => rw [List.getLast?_eq_none_iff] at hx; exact absurd hx hne
  | some j =>
    exact ⟨al, j, hgl, by rw [hh, hx], entryIfs_ia p _ j (List.mem_of_getLast? hx)⟩

/-- a valid piece that starts at an AS starts with an interface of that AS -/
theorem piece_ifs_head {p : Spec.Piece} (hwf : SegWf p.seg.seg) (hv : p.Valid) {x : Nat}
    (hfrom : p.from? = some (.as x)) : ∃ i, p.ifs.head? = some i ∧ i.1 = x := by
  unfold Spec.Piece.from? at hfrom
  unfold Spec.Piece.ifs
  cases hd : p.down with
  | true =>
    simp only [hd, if_true] at hfrom ⊢
    -- near? is an AS: no peering
    have hpeer : p.peer = none := by
      cases hp : p.peer with
      | none => rfl
      | some i =>
        exfalso
        unfold Spec.Piece.near? at hfrom
        split at hfrom
        · cases hfrom
        · simp only [hp] at hfrom
          split at hfrom
          · cases hfrom
          · simp [hd] at hfrom
    have hcut : p.cut + 1 < p.len := by
      cases hcore : p.seg.core with
      | true => have := (hv.core_whole hcore).1; have := hwf.len2; unfold Spec.Piece.len Spec.Piece.entries Seg.len at *; omega
      | false => exact hv.noncore_link hcore hpeer
    rcases consIfs_head hwf hpeer hcut with ⟨a, i, ha, hi, hia⟩
    refine ⟨i, hi, ?_⟩
    unfold Spec.Piece.near? at hfrom
    rw [ha] at hfrom
    simp only [hpeer] at hfrom
    injection hfrom with hfrom
    injection hfrom with hfrom
    rw [hia, hfrom]
  | false =>
    simp only [hd, Bool.false_eq_true, if_false] at hfrom ⊢
    rcases consIfs_last hwf hv with ⟨al, j, hal, hj, hja⟩
    refine ⟨j, by rw [List.head?_reverse]; exact hj, ?_⟩
    unfold Spec.Piece.leaf? at hfrom
    rw [hal] at hfrom
    simp only [Option.map_some] at hfrom
    injection hfrom with hfrom
    injection hfrom with hfrom
    rw [hja, hfrom]

/-- a valid piece that ends at an AS ends with an interface of that AS -/
theorem piece_ifs_last {p : Spec.Piece} (hwf : SegWf p.seg.seg) (hv : p.Valid) {x : Nat}
    (hto : p.to? = some (.as x)) : ∃ i, p.ifs.getLast? = some i ∧ i.1 = x := by
  unfold Spec.Piece.to? at hto
  unfold Spec.Piece.ifs
  cases hd : p.down with
  | false =>
    simp only [hd, Bool.false_eq_true, if_false] at hto ⊢
    have hpeer : p.peer = none := by
      cases hp : p.peer with
      | none => rfl
      | some i =>
        exfalso
        unfold Spec.Piece.near? at hto
        split at hto
        · cases hto
        · simp only [hp] at hto
          split at hto
          · cases hto
          · simp [hd] at hto
    have hcut : p.cut + 1 < p.len := by
      cases hcore : p.seg.core with
      | true => have := (hv.core_whole hcore).1; have := hwf.len2; unfold Spec.Piece.len Spec.Piece.entries Seg.len at *; omega
      | false => exact hv.noncore_link hcore hpeer
    rcases consIfs_head hwf hpeer hcut with ⟨a, i, ha, hi, hia⟩
    refine ⟨i, by rw [List.getLast?_reverse]; exact hi, ?_⟩
    unfold Spec.Piece.near? at hto
    rw [ha] at hto
    simp only [hpeer] at hto
    injection hto with hto
    injection hto with hto
    rw [hia, hto]
  | true =>
    simp only [hd, if_true] at hto ⊢
    rcases consIfs_last hwf hv with ⟨al, j, hal, hj, hja⟩
    refine ⟨j, hj, ?_⟩
    unfold Spec.Piece.leaf? at hto
    rw [hal] at hto
    simp only [Option.map_some] at hto
    injection hto with hto
    injection hto with hto
    rw [hja, hto]

end ScionVerif.Comb
