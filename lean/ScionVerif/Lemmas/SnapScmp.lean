import ScionVerif.Model.SnapFilter
import ScionVerif.Model.ScmpHandler
import ScionVerif.Spec.SnapFilter
/-! Helper lemmas for the SNAP ingress filter (C08) and SCMP (C14) models. Property theorems live in
`Theorems/C08.lean` and `Theorems/C14.lean`. -/
set_option linter.unusedSimpArgs false
namespace ScionVerif.SnapFilter
open ScionVerif.Generated.SnapFilter
open ScionVerif.Scmp (Bytes byteAt readBits byteEnd beRead)

/-! ## byte-level reader -/

theorem byteAt_lt (b : Bytes) (i : Nat) : byteAt b i < 256 := by
  unfold byteAt; exact (b.getD i 0).toNat_lt

theorem byteAt_drop (b : Bytes) (n i : Nat) : byteAt (b.drop n) i = byteAt b (n + i) := by
  simp [byteAt, List.getD_eq_getElem?_getD, List.getElem?_drop]

theorem byteAt_take (b : Bytes) (n i : Nat) (h : i < n) : byteAt (b.take n) i = byteAt b i := by
  simp [byteAt, List.getD_eq_getElem?_getD, h]

theorem beRead_take (b : Bytes) (n lo k : Nat) (h : lo + k ≤ n) : beRead (b.take n) lo k = beRead b lo k := by
  induction k with
  | zero => rfl
  | succ k ih =>
    simp only [beRead]
    rw [ih (by omega), byteAt_take _ _ _ (by omega)]

theorem readBits_take (b : Bytes) (n : Nat) (r : Nat × Nat) (h : byteEnd r ≤ n) :
    readBits (b.take n) r = readBits b r := by
  unfold readBits
  simp only
  rw [beRead_take]
  have : r.1 / 8 ≤ byteEnd r := by unfold byteEnd; omega
  omega

theorem readBits_version (b : Bytes) : readBits b VERSION_RNG = byteAt b 0 / 16 := by
  have := byteAt_lt b 0
  simp [readBits, VERSION_RNG, byteEnd, beRead]; omega
theorem readBits_pathType (b : Bytes) : readBits b PATH_TYPE_RNG = byteAt b 8 := by
  have := byteAt_lt b 8
  simp [readBits, PATH_TYPE_RNG, byteEnd, beRead]; omega
theorem readBits_srcNib (b : Bytes) : readBits b SRC_ADDR_INFO_RNG = byteAt b 9 % 16 := by
  simp [readBits, SRC_ADDR_INFO_RNG, byteEnd, beRead]
theorem readBits_dstNib (b : Bytes) : readBits b DST_ADDR_INFO_RNG = byteAt b 9 / 16 := by
  have := byteAt_lt b 9
  simp [readBits, DST_ADDR_INFO_RNG, byteEnd, beRead]; omega
theorem readBits_hdrLen (b : Bytes) : readBits b HEADER_LEN_RNG = byteAt b 5 := by
  have := byteAt_lt b 5
  simp [readBits, HEADER_LEN_RNG, byteEnd, beRead]; omega
theorem readBits_payloadLen (b : Bytes) : readBits b PAYLOAD_LEN_RNG = byteAt b 6 * 256 + byteAt b 7 := by
  have := byteAt_lt b 6
  have := byteAt_lt b 7
  simp [readBits, PAYLOAD_LEN_RNG, byteEnd, beRead]; omega
theorem readBits_seg0 (m : Bytes) : readBits m SEG0_LEN_RNG = byteAt m 1 % 4 * 16 + byteAt m 2 / 16 := by
  have := byteAt_lt m 1
  have := byteAt_lt m 2
  simp [readBits, SEG0_LEN_RNG, byteEnd, beRead]; omega
theorem readBits_seg1 (m : Bytes) : readBits m SEG1_LEN_RNG = byteAt m 2 % 16 * 4 + byteAt m 3 / 64 := by
  have := byteAt_lt m 2
  have := byteAt_lt m 3
  simp [readBits, SEG1_LEN_RNG, byteEnd, beRead]; omega
theorem readBits_seg2 (m : Bytes) : readBits m SEG2_LEN_RNG = byteAt m 3 % 64 := by
  simp [readBits, SEG2_LEN_RNG, byteEnd, beRead]

/-! ## tables -/

theorem addrSize_eq : ∀ n, n < 16 → addrSize n = 4 * (n % 4 + 1) := by decide
theorem addrKind_v4 : ∀ n, n < 16 → (addrKind n = 0 ↔ n = NIBBLE_IPV4) := by decide
theorem addrKind_v6 : ∀ n, n < 16 → (addrKind n = 1 ↔ n = NIBBLE_IPV6) := by decide
theorem addrSize_v4 : addrSize NIBBLE_IPV4 = 4 := by decide
theorem addrSize_v6 : addrSize NIBBLE_IPV6 = 16 := by decide

theorem rd_ok {α : Type} (b : Bytes) (limit : Nat) (r : Nat × Nat) (k : Nat → R α)
    (h1 : byteEnd r ≤ limit) (h2 : limit ≤ b.length) : rd b limit r k = k (readBits b r) := by
  simp [rd, h1, h2]

open ScionVerif.Spec.SnapFilter (B hostLen srcOff pathOff pathLen wellFormed one)

theorem B_eq (d : Bytes) (i : Nat) : B d i = byteAt d i := rfl

theorem addrEnd_eq (d : Bytes) : addrEnd (byteAt d 9 % 16) (byteAt d 9 / 16) = pathOff d := by
  have h := byteAt_lt d 9
  unfold addrEnd pathOff srcOff hostLen
  rw [addrSize_eq _ (by omega), addrSize_eq _ (by omega), B_eq]
  simp [COMMON_SIZE, ADDR_FIXED_SIZE]; omega

theorem nz_eq_one (n : Nat) : nz n = one n := by
  unfold nz one; by_cases h : n = 0 <;> simp [h] <;> omega

/-- what a successful parse establishes, in the vocabulary of the independent specification -/
structure LayoutOk (b : Bytes) (l : Layout) : Prop where
  srcNib : l.srcNib = byteAt b 9 % 16
  dstNib : l.dstNib = byteAt b 9 / 16
  pathType : l.pathType = byteAt b 8
  headerLen : l.headerLen = 4 * byteAt b 5
  payloadLen : l.payloadLen = byteAt b 6 * 256 + byteAt b 7
  sum : pathOff b + l.pathLen = l.headerLen
  fits : l.headerLen ≤ b.length
  version : byteAt b 0 / 16 = 0
  long : 12 ≤ b.length

/-- the path-size computation never reads out of bounds once the address header is known to be inside the
    buffer, and agrees with the specification's `pathLen` -/
theorem pathLayout_char (b : Bytes) (hae : pathOff b ≤ b.length) :
    (∃ n, pathLayout b (byteAt b 8) (pathOff b) (4 * byteAt b 5) = .ok n ∧ pathLen b = some n) ∨
    (∃ e, pathLayout b (byteAt b 8) (pathOff b) (4 * byteAt b 5) = .err e ∧ pathLen b = none) := by
  unfold pathLayout pathLen
  simp only [B_eq]
  by_cases h1 : byteAt b 8 = PT_SCION
  · have h1' : byteAt b 8 = 1 := h1
    simp only [h1, if_true]
    rw [if_neg (by omega)]
    simp only [show PT_SCION = 1 from rfl]
    by_cases h2 : b.length - pathOff b < PATH_META_SIZE
    · right
      have : b.length < pathOff b + 4 := by simp [PATH_META_SIZE] at h2; omega
      simp [h2, this]
    · left
      have h2' : ¬ b.length < pathOff b + 4 := by simp [PATH_META_SIZE] at h2; omega
      have hl : PATH_META_SIZE ≤ (b.drop (pathOff b)).length := by simp [PATH_META_SIZE] at h2 ⊢; omega
      rw [if_neg h2, rd_ok _ _ _ _ (by decide) hl, rd_ok _ _ _ _ (by decide) hl, rd_ok _ _ _ _ (by decide) hl]
      simp only [readBits_seg0, readBits_seg1, readBits_seg2, byteAt_drop, h2', if_false]
      refine ⟨_, rfl, ?_⟩
      simp [stdPathLen, nz_eq_one, PATH_META_SIZE, INFO_FIELD_SIZE, HOP_FIELD_SIZE]
      omega
  · simp only [h1, if_false]
    by_cases h3 : byteAt b 8 = PT_ONEHOP
    · left
      have : byteAt b 8 = 2 := h3
      simp [this, PT_ONEHOP, ONEHOP_PATH_SIZE]
    · by_cases h4 : byteAt b 8 = PT_EMPTY
      · left
        have : byteAt b 8 = 0 := h4
        simp [this, PT_ONEHOP, PT_EMPTY]
      · have e1 : byteAt b 8 ≠ 1 := h1
        have e2 : byteAt b 8 ≠ 2 := h3
        have e0 : byteAt b 8 ≠ 0 := h4
        simp only [h3, h4, if_false]
        by_cases h5 : 4 * byteAt b 5 < pathOff b
        · right
          refine ⟨.tooSmall .path (pathOff b * 8) (4 * byteAt b 5 * 8), by simp [h5], ?_⟩
          simp [h5]
        · left
          refine ⟨4 * byteAt b 5 - pathOff b, by simp [h5], ?_⟩
          simp [h5]

/-- `ScionHeaderLayout::try_from_slice` never reads out of bounds, succeeds exactly on the byte strings the
    independent specification calls well-formed, and then returns the fields the specification reads -/
theorem headerLayout_char (b : Bytes) :
    (∃ l, headerLayout b = .ok l ∧ wellFormed b = true ∧ LayoutOk b l) ∨
    (∃ e, headerLayout b = .err e ∧ wellFormed b = false) := by
  unfold headerLayout
  by_cases h0 : b.length < COMMON_SIZE
  · right
    have : ¬ 12 ≤ b.length := by simp [COMMON_SIZE] at h0; omega
    exact ⟨_, by rw [if_pos h0], by simp [wellFormed, this]⟩
  · have hl : COMMON_SIZE ≤ b.length := by omega
    have h12 : 12 ≤ b.length := by simp [COMMON_SIZE] at hl; omega
    rw [if_neg h0, rd_ok _ _ _ _ (by decide) hl]
    by_cases hv : readBits b VERSION_RNG ≠ 0
    · right
      have : ¬ byteAt b 0 / 16 = 0 := by rw [← readBits_version]; exact hv
      exact ⟨_, by rw [if_pos hv], by simp [wellFormed, B_eq, this]⟩
    · have hv0 : byteAt b 0 / 16 = 0 := by rw [← readBits_version]; simpa using hv
      rw [if_neg hv, rd_ok _ _ _ _ (by decide) hl, rd_ok _ _ _ _ (by decide) hl, rd_ok _ _ _ _ (by decide) hl,
        rd_ok _ _ _ _ (by decide) hl, rd_ok _ _ _ _ (by decide) hl]
      simp only [readBits_pathType, readBits_srcNib, readBits_dstNib, readBits_hdrLen, readBits_payloadLen,
        addrEnd_eq, show HEADER_LEN_UNIT = 4 from rfl, Nat.mul_comm (byteAt b 5) 4]
      by_cases ha : b.length < pathOff b
      · right
        have : ¬ pathOff b ≤ b.length := by omega
        exact ⟨_, by rw [if_pos ha], by simp [wellFormed, this]⟩
      · have hae : pathOff b ≤ b.length := by omega
        rw [if_neg ha]
        rcases pathLayout_char b hae with ⟨n, hp, hs⟩ | ⟨e, hp, hs⟩
        · rw [hp]
          simp only []
          by_cases hc : pathOff b + n > b.length
          · right
            have : ¬ pathOff b + n ≤ b.length := by omega
            exact ⟨_, by rw [if_pos hc], by simp [wellFormed, hs, this]⟩
          · rw [if_neg hc]
            by_cases hq : pathOff b + n ≠ 4 * byteAt b 5
            · right
              exact ⟨_, by rw [if_pos hq], by simp [wellFormed, hs, B_eq, hq]⟩
            · left
              have hq' : pathOff b + n = 4 * byteAt b 5 := by simpa using hq
              refine ⟨_, by rw [if_neg hq], ?_, ?_⟩
              · have : pathOff b + n ≤ b.length := by omega
                simp [wellFormed, hs, B_eq, hq', h12, hv0, hae]
                omega
              · exact ⟨rfl, rfl, rfl, rfl, rfl, hq', by simp only []; omega, hv0, h12⟩
        · right
          rw [hp]
          exact ⟨e, rfl, by simp [wellFormed, hs]⟩

theorem headerLayout_no_panic (b : Bytes) : headerLayout b ≠ .panic := by
  rcases headerLayout_char b with ⟨l, h, _⟩ | ⟨e, h, _⟩ <;> simp [h]

theorem pathOff_ge (b : Bytes) : 36 ≤ pathOff b ∧ srcOff b + hostLen (byteAt b 9 % 16) = pathOff b ∧ 32 ≤ srcOff b := by
  unfold pathOff srcOff hostLen; simp only [B_eq]; exact ⟨by omega, trivial, by omega⟩

theorem byteEnd_hdrLen : byteEnd HEADER_LEN_RNG = 6 := by decide
theorem byteEnd_srcNib : byteEnd SRC_ADDR_INFO_RNG = 10 := by decide
theorem byteEnd_dstNib : byteEnd DST_ADDR_INFO_RNG = 10 := by decide
theorem byteEnd_pathType : byteEnd PATH_TYPE_RNG = 9 := by decide

theorem packetView_ok (b : Bytes) (l : Layout) (h : headerLayout b = .ok l) :
    packetView b = .ok (b.take (min (l.headerLen + l.payloadLen) b.length)) := by
  simp only [packetView, h]
  rw [if_neg (Nat.not_lt.mpr (Nat.min_le_right _ _))]

/-- after a successful parse every unchecked access of `header()`, `src_host_addr()`, `path_type()` is in bounds and
    yields the bytes the specification reads at literal offsets of the datagram -/
theorem headerFields_view (b : Bytes) (l : Layout) (h : LayoutOk b l) :
    headerFields (b.take (min (l.headerLen + l.payloadLen) b.length)) =
      .ok (byteAt b 9 % 16, (b.drop (srcOff b)).take (hostLen (byteAt b 9 % 16)), srcOff b, byteAt b 8) := by
  obtain ⟨h1, h2, h3, h4, h5, h6, h7, h8, h9⟩ := h
  obtain ⟨g1, g2, g3⟩ := pathOff_ge b
  have hb := byteAt_lt b 9
  have hsz : l.headerLen ≤ min (l.headerLen + l.payloadLen) b.length := by omega
  have hvl : (b.take (min (l.headerLen + l.payloadLen) b.length)).length = min (l.headerLen + l.payloadLen) b.length := by
    simp
  unfold headerFields
  rw [rd_ok _ _ _ _ (by decide) (by rw [hvl]; simp [COMMON_SIZE]; omega)]
  rw [readBits_take _ _ _ (by simp only [byteEnd_hdrLen, byteEnd_srcNib, byteEnd_dstNib, byteEnd_pathType]; omega), readBits_hdrLen]
  simp only [show HEADER_LEN_UNIT = 4 from rfl, Nat.mul_comm (byteAt b 5) 4, ← h4]
  rw [if_neg (by rw [hvl]; omega), List.take_take, Nat.min_eq_left hsz]
  have hhl : (b.take l.headerLen).length = l.headerLen := by simp; omega
  have hc : COMMON_SIZE ≤ (b.take l.headerLen).length := by rw [hhl]; simp [COMMON_SIZE]; omega
  rw [rd_ok _ _ _ _ (by decide) hc, rd_ok _ _ _ _ (by decide) hc, rd_ok _ _ _ _ (by decide) hc]
  rw [readBits_take _ _ _ (by simp only [byteEnd_hdrLen, byteEnd_srcNib, byteEnd_dstNib, byteEnd_pathType]; omega), readBits_take _ _ _ (by simp only [byteEnd_hdrLen, byteEnd_srcNib, byteEnd_dstNib, byteEnd_pathType]; omega),
    readBits_take _ _ _ (by simp only [byteEnd_hdrLen, byteEnd_srcNib, byteEnd_dstNib, byteEnd_pathType]; omega), readBits_srcNib, readBits_dstNib, readBits_pathType]
  have hs : COMMON_SIZE + (ADDR_FIXED_SIZE + addrSize (byteAt b 9 / 16)) = srcOff b := by
    unfold srcOff hostLen; rw [addrSize_eq _ (by omega), B_eq]; simp [COMMON_SIZE, ADDR_FIXED_SIZE]; omega
  have hss : addrSize (byteAt b 9 % 16) = hostLen (byteAt b 9 % 16) := by
    unfold hostLen; rw [addrSize_eq _ (by omega)]
  simp only [hs, hss]
  rw [if_neg (by rw [hhl]; omega)]
  congr 3
  rw [List.drop_take, List.take_take, Nat.min_eq_left (by omega)]

theorem srcRaw_length (b : Bytes) (h : pathOff b ≤ b.length) :
    ((b.drop (srcOff b)).take (hostLen (byteAt b 9 % 16))).length = hostLen (byteAt b 9 % 16) := by
  obtain ⟨g1, g2, g3⟩ := pathOff_ge b
  simp; omega

theorem hostIp_char (sn : Nat) (raw : Bytes) (hsn : sn < 16) (hl : raw.length = hostLen sn) :
    hostIp sn raw = if sn = 0 then some (.v4 raw) else if sn = 3 then some (.v6 raw) else none := by
  unfold hostIp
  simp only []
  by_cases h0 : sn = 0
  · subst h0
    have : addrKind 0 = 0 := by decide
    simp [this, hl, hostLen, EXPECTED_ADDR_LEN]
  · by_cases h3 : sn = 3
    · subst h3
      have : addrKind 3 = 1 := by decide
      simp [this, hl, hostLen, EXPECTED_ADDR_LEN]
    · have k0 : addrKind sn ≠ 0 := fun h => h0 ((addrKind_v4 sn hsn).mp h)
      have k1 : addrKind sn ≠ 1 := fun h => h3 ((addrKind_v6 sn hsn).mp h)
      simp [h0, h3, k0, k1]

open ScionVerif.Spec.SnapFilter (Peer Class classify sourceMatches packetLen)

def toPeer : Ip → Peer
  | .v4 o => .v4 o
  | .v6 o => .v6 o

/-- class of a verdict in the vocabulary of the independent specification (`none` for `panic`) -/
def Verdict.cls : Verdict → Option Class
  | .dispatch _ => some .accept
  | .malformed _ => some .malformed
  | .badSource _ _ => some .badSource
  | .badPathType _ _ => some .badPathType
  | .panic => none

/-- the bytes a verdict carries (the packet view), if any -/
def Verdict.view : Verdict → Option Bytes
  | .dispatch v => some v
  | .badSource v _ => some v
  | .badPathType v _ => some v
  | _ => none

theorem sourceMatches_char (d : Bytes) (ip : Ip) (_hw : pathOff d ≤ d.length) :
    sourceMatches d (toPeer ip) = true ↔
      (if byteAt d 9 % 16 = 0 then some (Ip.v4 ((d.drop (srcOff d)).take (hostLen (byteAt d 9 % 16))))
       else if byteAt d 9 % 16 = 3 then some (Ip.v6 ((d.drop (srcOff d)).take (hostLen (byteAt d 9 % 16))))
       else none) = some ip := by
  unfold sourceMatches
  simp only [B_eq]
  by_cases h0 : byteAt d 9 % 16 = 0
  · rw [h0]
    cases ip <;> simp [toPeer, hostLen]
  · by_cases h3 : byteAt d 9 % 16 = 3
    · rw [h3]
      cases ip <;> simp [toPeer, hostLen]
    · simp only [h0, h3, if_false]
      split <;> simp_all

/-- complete characterisation of the filter in terms of the independent specification -/
theorem inboundCheck_char (d : Bytes) (ip : Ip) :
    (inboundCheck d ip).cls = some (classify d (toPeer ip)) ∧
    (∀ v, (inboundCheck d ip).view = some v → v = d.take (packetLen d)) := by
  rcases headerLayout_char d with ⟨l, h, hw, hl⟩ | ⟨e, h, hw⟩
  · have hv := packetView_ok d l h
    have hf := headerFields_view d l hl
    have hlen : min (l.headerLen + l.payloadLen) d.length = packetLen d := by
      unfold packetLen; simp only [B_eq]; rw [hl.headerLen, hl.payloadLen]
    rw [hlen] at hv hf
    have hpo : pathOff d ≤ d.length := by
      have := hl.sum; have := hl.fits; omega
    have hb := byteAt_lt d 9
    have hraw := srcRaw_length d hpo
    have hip := hostIp_char (byteAt d 9 % 16) _ (by omega) hraw
    have hsm := sourceMatches_char d ip hpo
    unfold inboundCheck
    rw [hv]; simp only []; rw [hf]; simp only []
    rw [hip]
    unfold classify
    rw [hw]
    simp only [Bool.not_true, Bool.false_eq_true, if_false]
    by_cases h0 : byteAt d 9 % 16 = 0
    · simp only [h0, if_true] at hsm ⊢
      by_cases he : Ip.v4 ((d.drop (srcOff d)).take (hostLen 0)) = ip
      · have : sourceMatches d (toPeer ip) = true := hsm.mpr (by rw [he])
        rw [this]
        simp only [he, ne_eq, not_true_eq_false, if_false, Bool.not_true, Bool.false_eq_true]
        by_cases hp : byteAt d 8 ∈ ACCEPTED_PATH_TYPES
        · have : byteAt d 8 = 0 ∨ byteAt d 8 = 1 := by simpa [ACCEPTED_PATH_TYPES] using hp
          simp only [hp, if_true]
          refine ⟨?_, ?_⟩
          · rcases this with h | h <;> simp [Verdict.cls, B_eq, h]
          · intro v hv; simp [Verdict.view] at hv; exact hv.symm
        · have : ¬ (byteAt d 8 = 0 ∨ byteAt d 8 = 1) := by simpa [ACCEPTED_PATH_TYPES] using hp
          simp only [hp, if_false]
          refine ⟨?_, ?_⟩
          · have a : byteAt d 8 ≠ 0 := fun h => this (Or.inl h)
            have b : byteAt d 8 ≠ 1 := fun h => this (Or.inr h)
            simp [Verdict.cls, B_eq, a, b]
          · intro v hv; simp [Verdict.view] at hv; exact hv.symm
      · have : ¬ sourceMatches d (toPeer ip) = true := fun h => he (by have := hsm.mp h; simpa using this)
        simp only [this, ne_eq, he, not_false_eq_true, if_true, Bool.not_false]
        refine ⟨by simp [Verdict.cls], ?_⟩
        intro v hv; simp [Verdict.view] at hv; exact hv.symm
    · by_cases h3 : byteAt d 9 % 16 = 3
      · simp only [h3, if_true, show (3 : Nat) ≠ 0 by decide, if_false] at hsm ⊢
        by_cases he : Ip.v6 ((d.drop (srcOff d)).take (hostLen 3)) = ip
        · have : sourceMatches d (toPeer ip) = true := hsm.mpr (by rw [he])
          rw [this]
          simp only [he, ne_eq, not_true_eq_false, if_false, Bool.not_true, Bool.false_eq_true]
          by_cases hp : byteAt d 8 ∈ ACCEPTED_PATH_TYPES
          · have : byteAt d 8 = 0 ∨ byteAt d 8 = 1 := by simpa [ACCEPTED_PATH_TYPES] using hp
            simp only [hp, if_true]
            refine ⟨?_, ?_⟩
            · rcases this with h | h <;> simp [Verdict.cls, B_eq, h]
            · intro v hv; simp [Verdict.view] at hv; exact hv.symm
          · have : ¬ (byteAt d 8 = 0 ∨ byteAt d 8 = 1) := by simpa [ACCEPTED_PATH_TYPES] using hp
            simp only [hp, if_false]
            refine ⟨?_, ?_⟩
            · have a : byteAt d 8 ≠ 0 := fun h => this (Or.inl h)
              have b : byteAt d 8 ≠ 1 := fun h => this (Or.inr h)
              simp [Verdict.cls, B_eq, a, b]
            · intro v hv; simp [Verdict.view] at hv; exact hv.symm
        · have : ¬ sourceMatches d (toPeer ip) = true := fun h => he (by have := hsm.mp h; simpa using this)
          simp only [this, ne_eq, he, not_false_eq_true, if_true, Bool.not_false]
          refine ⟨by simp [Verdict.cls], ?_⟩
          intro v hv; simp [Verdict.view] at hv; exact hv.symm
      · simp only [h0, h3, if_false] at hsm ⊢
        have : ¬ sourceMatches d (toPeer ip) = true := fun h => by have := hsm.mp h; simp at this
        simp only [this, Bool.not_false, if_true]
        refine ⟨by simp [Verdict.cls], ?_⟩
        intro v hv; simp [Verdict.view] at hv; exact hv.symm
  · unfold inboundCheck packetView
    rw [h]
    refine ⟨by simp [Verdict.cls, classify, hw], ?_⟩
    intro v hv; simp [Verdict.view] at hv

end ScionVerif.SnapFilter

/-! ## SCMP construction -/
namespace ScionVerif.Scmp
open ScionVerif.Generated.Scmp

theorem be16_length (n : Nat) : (be16 n).length = 2 := rfl
theorem be32_length (n : Nat) : (be32 n).length = 4 := rfl
theorem be64_length (n : Nat) : (be64 n).length = 8 := rfl

theorem encodeHeader_length (tc flow nh : Nat) (a : AddrHdr) (pt : Nat) (path : Bytes) (pl : Nat) :
    (encodeHeader tc flow nh a pt path pl).length = headerSize a path := by
  simp [encodeHeader, headerSize, be64_length]; omega

theorem quoteLen_le (off hdr fixed : Nat) : quoteLen off hdr fixed ≤ off := by
  unfold quoteLen; exact Nat.min_le_left _ _

theorem errorMsg_length (ty code : Nat) (rest off : Bytes) (a : AddrHdr) (hdr : Nat) :
    (errorMsg ty code rest off a hdr).length = 4 + rest.length + quoteLen off.length hdr (4 + rest.length) := by
  have := quoteLen_le off.length hdr (4 + rest.length)
  simp [errorMsg, be16_length, List.length_take]; omega

/-- the truncation budget: if header and fixed part fit, the whole packet fits -/
theorem errorMsg_fits (ty code : Nat) (rest off : Bytes) (a : AddrHdr) (hdr : Nat)
    (h : hdr + (4 + rest.length) ≤ SCMP_ERROR_MAX_PACKET_SIZE) :
    hdr + (errorMsg ty code rest off a hdr).length ≤ SCMP_ERROR_MAX_PACKET_SIZE := by
  rw [errorMsg_length]
  unfold quoteLen
  have := Nat.min_le_right off.length (SCMP_ERROR_MAX_PACKET_SIZE - hdr - (4 + rest.length))
  omega

/-- the quoted part is a prefix of the offending packet and everything before it has the fixed size -/
theorem errorMsg_quote (ty code : Nat) (rest off : Bytes) (a : AddrHdr) (hdr : Nat) :
    (errorMsg ty code rest off a hdr).drop (4 + rest.length) = off.take (quoteLen off.length hdr (4 + rest.length)) := by
  unfold errorMsg
  simp only []
  rw [show ∀ (x y z w : Bytes), x ++ y ++ z ++ w = (x ++ y ++ z) ++ w from fun _ _ _ _ => by simp]
  rw [List.drop_left' (by simp [be16_length]; omega)]

end ScionVerif.Scmp

namespace ScionVerif.SnapFilter
open ScionVerif.Generated.SnapFilter
open ScionVerif.Scmp (Bytes)

theorem replyAddr_headerSize (loc peer : Ip) (h1 : loc.wf) (h2 : peer.wf) :
    Scmp.headerSize (replyAddr loc peer) [] = 28 + peer.octets.length + loc.octets.length ∧
    (peer.octets.length = 4 ∨ peer.octets.length = 16) ∧ (loc.octets.length = 4 ∨ loc.octets.length = 16) := by
  refine ⟨by simp [Scmp.headerSize, replyAddr], ?_, ?_⟩
  · cases peer <;> simp_all [Ip.wf, Ip.octets]
  · cases loc <;> simp_all [Ip.wf, Ip.octets]

theorem paramProblem_rest_length (c p : Nat) : (Scmp.ErrKind.paramProblem c p).rest.length = 4 := rfl

theorem encodeReply_ok (code ptr : Nat) (off : Bytes) (loc peer : Ip) (h1 : loc.wf) (h2 : peer.wf) :
    encodeReply code ptr off loc peer =
      .ok (Scmp.encodeHeader 0 0 Generated.Scmp.PROTO_SCMP (replyAddr loc peer) PT_EMPTY []
            ((Scmp.encodeError (.paramProblem code ptr) off (replyAddr loc peer) (Scmp.headerSize (replyAddr loc peer) [])).length % 65536)
          ++ Scmp.encodeError (.paramProblem code ptr) off (replyAddr loc peer) (Scmp.headerSize (replyAddr loc peer) [])) ∧
    Scmp.headerSize (replyAddr loc peer) [] +
      (Scmp.encodeError (.paramProblem code ptr) off (replyAddr loc peer) (Scmp.headerSize (replyAddr loc peer) [])).length
        ≤ Generated.Scmp.SCMP_ERROR_MAX_PACKET_SIZE := by
  obtain ⟨hs, hp, hl⟩ := replyAddr_headerSize loc peer h1 h2
  have hfit : Scmp.headerSize (replyAddr loc peer) [] +
      (Scmp.encodeError (.paramProblem code ptr) off (replyAddr loc peer) (Scmp.headerSize (replyAddr loc peer) [])).length
        ≤ Generated.Scmp.SCMP_ERROR_MAX_PACKET_SIZE :=
    Scmp.errorMsg_fits Generated.Scmp.TYPE_ParameterProblem code (Scmp.ErrKind.paramProblem code ptr).rest off
      (replyAddr loc peer) (Scmp.headerSize (replyAddr loc peer) [])
      (by rw [paramProblem_rest_length, hs]; simp [Generated.Scmp.SCMP_ERROR_MAX_PACKET_SIZE]; omega)
  refine ⟨?_, hfit⟩
  unfold encodeReply
  simp only []
  rw [if_neg (by rw [hs]; simp [MAX_HEADER_SIZE]; omega)]
  rw [if_neg (by simp [PACKET_BUF_SIZE, Generated.Scmp.SCMP_ERROR_MAX_PACKET_SIZE] at hfit ⊢; omega)]

/-- the reply constructor never fails for well-formed addresses and produces `header ++ 8 bytes ++ quote` -/
theorem encodeReply_char (code ptr : Nat) (off : Bytes) (loc peer : Ip) (h1 : loc.wf) (h2 : peer.wf) :
    ∃ r, encodeReply code ptr off loc peer = .ok r ∧
      r.length ≤ Generated.Scmp.SCMP_ERROR_MAX_PACKET_SIZE ∧
      r.length = Scmp.headerSize (replyAddr loc peer) [] + 8 +
        Scmp.quoteLen off.length (Scmp.headerSize (replyAddr loc peer) []) 8 ∧
      r.drop (Scmp.headerSize (replyAddr loc peer) [] + 8) =
        off.take (Scmp.quoteLen off.length (Scmp.headerSize (replyAddr loc peer) []) 8) := by
  obtain ⟨hok, hfit⟩ := encodeReply_ok code ptr off loc peer h1 h2
  have hlen : (Scmp.encodeError (.paramProblem code ptr) off (replyAddr loc peer) (Scmp.headerSize (replyAddr loc peer) [])).length
      = 4 + 4 + Scmp.quoteLen off.length (Scmp.headerSize (replyAddr loc peer) []) (4 + 4) :=
    Scmp.errorMsg_length Generated.Scmp.TYPE_ParameterProblem code (Scmp.ErrKind.paramProblem code ptr).rest off
      (replyAddr loc peer) (Scmp.headerSize (replyAddr loc peer) [])
  have hq : (Scmp.encodeError (.paramProblem code ptr) off (replyAddr loc peer) (Scmp.headerSize (replyAddr loc peer) [])).drop (4 + 4)
      = off.take (Scmp.quoteLen off.length (Scmp.headerSize (replyAddr loc peer) []) (4 + 4)) :=
    Scmp.errorMsg_quote Generated.Scmp.TYPE_ParameterProblem code (Scmp.ErrKind.paramProblem code ptr).rest off
      (replyAddr loc peer) (Scmp.headerSize (replyAddr loc peer) [])
  refine ⟨_, hok, ?_, ?_, ?_⟩
  · rw [List.length_append, Scmp.encodeHeader_length]; exact hfit
  · rw [List.length_append, Scmp.encodeHeader_length, hlen, show (4 + 4 : Nat) = 8 from rfl]; omega
  · rw [List.drop_append, Scmp.encodeHeader_length, List.drop_eq_nil_of_le (by rw [Scmp.encodeHeader_length]; omega),
      List.nil_append, show Scmp.headerSize (replyAddr loc peer) [] + 8 - Scmp.headerSize (replyAddr loc peer) [] = 4 + 4 by omega]
    exact hq

end ScionVerif.SnapFilter

/-! ## SCMP handling (C14) -/
namespace ScionVerif.Scmp
open ScionVerif.Generated.Scmp

theorem kind_fixed_eq (k : ErrKind) : 4 + k.rest.length = k.fixed := by
  cases k <;> rfl

theorem table_budget : ∀ e ∈ ERROR_KINDS, MAX_HEADER_SIZE + e.2 ≤ SCMP_ERROR_MAX_PACKET_SIZE := by decide

theorem kind_fixed_le (k : ErrKind) : MAX_HEADER_SIZE + k.fixed ≤ SCMP_ERROR_MAX_PACKET_SIZE := by
  cases k
  · exact (by decide : MAX_HEADER_SIZE + 8 ≤ SCMP_ERROR_MAX_PACKET_SIZE)
  · exact (by decide : MAX_HEADER_SIZE + 8 ≤ SCMP_ERROR_MAX_PACKET_SIZE)
  · exact (by decide : MAX_HEADER_SIZE + 8 ≤ SCMP_ERROR_MAX_PACKET_SIZE)
  · exact (by decide : MAX_HEADER_SIZE + 20 ≤ SCMP_ERROR_MAX_PACKET_SIZE)
  · exact (by decide : MAX_HEADER_SIZE + 28 ≤ SCMP_ERROR_MAX_PACKET_SIZE)

theorem parseMsg_ty (m : Bytes) (x : Msg) (h : parseMsg m = some x) : x.ty = byteAt m 0 := by
  unfold parseMsg at h
  simp only [] at h
  split at h
  · cases h
  · split at h
    · cases h
    · repeat' split at h
      all_goals (cases h; simp_all [Msg.ty, ErrKind.ty])


/-! ### socket loop -/

theorem recvOne_delivered (rev : Rev) (n : Nat) (hs : List Handler) (p : Pkt) :
    (recvOne rev n hs p).delivered = if p.nextHdr = PROTO_UDP then deliverUdp p else none := by
  unfold recvOne
  by_cases h : p.nextHdr = PROTO_UDP
  · simp [h]
  · have : PROTO_SCMP ≠ PROTO_UDP := by decide
    by_cases h2 : p.nextHdr = PROTO_SCMP <;> simp [h, h2, this]

theorem recvOne_sent_nonscmp (rev : Rev) (n : Nat) (hs : List Handler) (p : Pkt) (h : p.nextHdr ≠ PROTO_SCMP) :
    (recvOne rev n hs p).sent = [] ∧ (recvOne rev n hs p).reports = [] := by
  unfold recvOne
  by_cases h1 : p.nextHdr = PROTO_UDP <;> simp [h, h1]

theorem echoHandle_some (rev : Rev) (p : Pkt) (r : RawPkt) (h : echoHandle rev p = some r) :
    ∃ i s d, asScmp p = some (.echoRequest i s d) ∧ (VERIFY_CHECKSUM_ON_RECEIVE = true → scmpChecksumOk p = true) := by
  unfold echoHandle at h
  split at h
  · rename_i i s d hm
    refine ⟨i, s, d, hm, ?_⟩
    intro hv
    by_cases hc : scmpChecksumOk p = true
    · exact hc
    · simp [hc, hv] at h
  · cases h

/-- a handler sends something only for an echo request whose checksum verifies (if verification is on) -/
theorem runHandler_sent (rev : Rev) (n : Nat) (h : Handler) (p : Pkt) (hb : h.builtin = true) (hs : (runHandler rev n h p).sent ≠ []) :
    ∃ i s d, asScmp p = some (.echoRequest i s d) ∧ (VERIFY_CHECKSUM_ON_RECEIVE = true → scmpChecksumOk p = true) := by
  cases h with
  | custom f => cases hb
  | error => unfold runHandler at hs; simp only [] at hs; split at hs <;> simp at hs
  | echo =>
    cases he : echoHandle rev p with
    | none => simp [runHandler, he] at hs
    | some r => exact echoHandle_some rev p r he

theorem exists_of_flatMap_ne_nil {α β : Type} (l : List α) (f : α → List β) (h : l.flatMap f ≠ []) :
    ∃ x ∈ l, f x ≠ [] := by
  induction l with
  | nil => simp at h
  | cons a t ih =>
    by_cases ha : f a = []
    · simp only [List.flatMap_cons, ha, List.nil_append] at h
      obtain ⟨x, hx, hfx⟩ := ih h
      exact ⟨x, List.mem_cons_of_mem _ hx, hfx⟩
    · exact ⟨a, List.mem_cons_self, ha⟩

theorem recvOne_sent (rev : Rev) (n : Nat) (hs : List Handler) (p : Pkt) (hb : ∀ x ∈ hs, x.builtin = true)
    (h : (recvOne rev n hs p).sent ≠ []) :
    p.nextHdr = PROTO_SCMP ∧
    ∃ i s d, asScmp p = some (.echoRequest i s d) ∧ (VERIFY_CHECKSUM_ON_RECEIVE = true → scmpChecksumOk p = true) := by
  by_cases hn : p.nextHdr = PROTO_SCMP
  · refine ⟨hn, ?_⟩
    unfold recvOne at h
    have hne : PROTO_SCMP ≠ PROTO_UDP := by decide
    simp only [hn, hne, if_true, if_false] at h
    obtain ⟨e, he, hx⟩ := exists_of_flatMap_ne_nil _ _ h
    rw [List.mem_map] at he
    obtain ⟨x, hxm, rfl⟩ := he
    exact runHandler_sent rev n x p (hb x hxm) hx
  · exact absurd (recvOne_sent_nonscmp rev n hs p hn).1 h

/-! ### handler lists of the production constructors (`STACK_SOCKET_HANDLERS`) -/

theorem handlersOfCodes_builtin (cs : List Nat) (hs : List Handler) (h : handlersOfCodes cs = some hs) :
    ∀ x ∈ hs, x.builtin = true := by
  induction cs generalizing hs with
  | nil => simp [handlersOfCodes] at h; subst h; simp
  | cons c t ih =>
    unfold handlersOfCodes at h
    split at h
    · rename_i h0 t0 hc ht
      cases h
      intro x hx
      rcases List.mem_cons.mp hx with rfl | hx
      · unfold handlerOfCode at hc
        split at hc <;> first | (cases hc; rfl) | cases hc
      · exact ih t0 ht x hx
    · cases h

/-- if every code is 0 (`ScmpErrorHandler`), the list consists of error handlers only -/
theorem handlersOfCodes_all_error (cs : List Nat) (hs : List Handler) (h0 : ∀ c ∈ cs, c = 0) (h : handlersOfCodes cs = some hs) :
    ∀ x ∈ hs, x = Handler.error := by
  induction cs generalizing hs with
  | nil => simp [handlersOfCodes] at h; subst h; simp
  | cons c t ih =>
    unfold handlersOfCodes at h
    split at h
    · rename_i h1 t0 hc ht
      cases h
      intro x hx
      rcases List.mem_cons.mp hx with rfl | hx
      · have : c = 0 := h0 c List.mem_cons_self
        subst this
        simp [handlerOfCode] at hc
        exact hc.symm
      · exact ih t0 (fun c hc => h0 c (List.mem_cons_of_mem _ hc)) ht x hx
    · cases h

theorem lookup_mem {α : Type} (l : List (String × α)) (f : String) (v : α) (h : l.lookup f = some v) : (f, v) ∈ l := by
  induction l with
  | nil => simp [List.lookup] at h
  | cons e t ih =>
    obtain ⟨k, w⟩ := e
    unfold List.lookup at h
    split at h
    · rename_i heq
      cases h
      have : f = k := by simpa using heq
      subst this
      exact List.mem_cons_self
    · exact List.mem_cons_of_mem _ (ih h)

/-- an error handler never sends -/
theorem runHandler_error_sent (rev : Rev) (n : Nat) (p : Pkt) : (runHandler rev n .error p).sent = [] := by
  unfold runHandler; simp only []; split <;> rfl

theorem recvOne_all_error_sent (rev : Rev) (n : Nat) (hs : List Handler) (p : Pkt) (he : ∀ x ∈ hs, x = Handler.error) :
    (recvOne rev n hs p).sent = [] := by
  unfold recvOne
  by_cases h1 : p.nextHdr = PROTO_UDP
  · simp [h1]
  · by_cases h2 : p.nextHdr = PROTO_SCMP
    · simp only [h1, h2, if_true, if_false]
      induction hs with
      | nil => rfl
      | cons a t ih =>
        have ha : a = Handler.error := he a List.mem_cons_self
        subst ha
        simp only [List.map_cons, List.flatMap_cons, runHandler_error_sent, List.nil_append]
        exact ih (fun x hx => he x (List.mem_cons_of_mem _ hx))
    · simp [h1, h2]

theorem u8_toNat (n : Nat) : (u8 n).toNat = n % 256 := by
  simp [u8]

theorem split16 (n : Nat) (h : n < 65536) : n / 256 % 256 * 256 + n % 256 = n := by
  have : n / 256 < 256 := by omega
  rw [Nat.mod_eq_of_lt this]
  omega

/-- an echo message (request `ty = 128` or reply `ty = 129`) as laid out on the wire -/
def echoWire (ty : Nat) (code c1 c2 : UInt8) (ident seq : Nat) (data : Bytes) : Bytes :=
  [u8 ty, code, c1, c2] ++ be16 ident ++ be16 seq ++ data

theorem echoWire_eq (ty : Nat) (code c1 c2 : UInt8) (ident seq : Nat) (data : Bytes) :
    echoWire ty code c1 c2 ident seq data =
      u8 ty :: code :: c1 :: c2 :: u8 (ident / 256) :: u8 ident :: u8 (seq / 256) :: u8 seq :: data := by
  simp [echoWire, be16]

theorem parse_echo (ty : Nat) (code c1 c2 : UInt8) (ident seq : Nat) (data : Bytes) (hi : ident < 65536) (hs : seq < 65536)
    (hty : ty = TYPE_EchoRequest ∨ ty = TYPE_EchoReply) :
    parseMsg (echoWire ty code c1 c2 ident seq data) =
      some (if ty = TYPE_EchoRequest then .echoRequest ident seq data else .echoReply ident seq data) := by
  rw [echoWire_eq]
  have hid : be (u8 ty :: code :: c1 :: c2 :: u8 (ident / 256) :: u8 ident :: u8 (seq / 256) :: u8 seq :: data) 4 2 = ident := by
    simp [be, beRead, byteAt, u8_toNat]; exact split16 ident hi
  have hsq : be (u8 ty :: code :: c1 :: c2 :: u8 (ident / 256) :: u8 ident :: u8 (seq / 256) :: u8 seq :: data) 6 2 = seq := by
    simp [be, beRead, byteAt, u8_toNat]; exact split16 seq hs
  have m1 : minLen 128 = 8 := by decide
  have m2 : minLen 129 = 8 := by decide
  unfold parseMsg
  simp only [hid, hsq]
  rcases hty with h | h
  · subst h
    have h0 : byteAt (u8 TYPE_EchoRequest :: code :: c1 :: c2 :: u8 (ident / 256) :: u8 ident :: u8 (seq / 256) :: u8 seq :: data) 0 = 128 := by
      simp [byteAt, u8_toNat, TYPE_EchoRequest]
    rw [h0, m1]
    simp [UNKNOWN_HEADER_SIZE, TYPE_EchoRequest, TYPE_DestinationUnreachable, TYPE_PacketTooBig, TYPE_ParameterProblem,
      TYPE_ExternalInterfaceDown, TYPE_InternalConnectivityDown, HDR_EchoRequest]
  · subst h
    have h0 : byteAt (u8 TYPE_EchoReply :: code :: c1 :: c2 :: u8 (ident / 256) :: u8 ident :: u8 (seq / 256) :: u8 seq :: data) 0 = 129 := by
      simp [byteAt, u8_toNat, TYPE_EchoReply]
    rw [h0, m2]
    simp [UNKNOWN_HEADER_SIZE, TYPE_EchoRequest, TYPE_EchoReply, TYPE_DestinationUnreachable, TYPE_PacketTooBig, TYPE_ParameterProblem,
      TYPE_ExternalInterfaceDown, TYPE_InternalConnectivityDown, HDR_EchoReply]

theorem echoMsg_eq_wire (ty ident seq : Nat) (data : Bytes) (a : AddrHdr) :
    ∃ c1 c2, echoMsg ty ident seq data a = echoWire ty 0 c1 c2 ident seq data := by
  refine ⟨u8 (checksum a PROTO_SCMP ([u8 ty, 0, 0, 0] ++ be16 ident ++ be16 seq ++ data) / 256),
    u8 (checksum a PROTO_SCMP ([u8 ty, 0, 0, 0] ++ be16 ident ++ be16 seq ++ data)), ?_⟩
  simp [echoMsg, echoWire, be16]


/-! ### echo handler -/

theorem asScmp_echoRequest (p : Pkt) (code c1 c2 : UInt8) (ident seq : Nat) (data : Bytes)
    (hnh : p.nextHdr = PROTO_SCMP) (hpl : p.payload = echoWire TYPE_EchoRequest code c1 c2 ident seq data)
    (hi : ident < 65536) (hs : seq < 65536) : asScmp p = some (.echoRequest ident seq data) := by
  unfold asScmp
  rw [if_neg (by simp [hnh]), hpl, parse_echo _ _ _ _ _ _ _ hi hs (Or.inl rfl)]
  simp

/-- the echo handler on a well-formed echo request -/
theorem echoHandle_request (rev : Rev) (p : Pkt) (code c1 c2 : UInt8) (ident seq : Nat) (data : Bytes) (pt : Nat) (path : Bytes)
    (hnh : p.nextHdr = PROTO_SCMP) (hpl : p.payload = echoWire TYPE_EchoRequest code c1 c2 ident seq data)
    (hi : ident < 65536) (hs : seq < 65536)
    (hck : VERIFY_CHECKSUM_ON_RECEIVE = true → scmpChecksumOk p = true)
    (hrev : rev p.pathType p.path = some (pt, path))
    (hsrc : knownHost p.addr.srcNib = true) (hdst : knownHost p.addr.dstNib = true) :
    echoHandle rev p = some { nextHdr := PROTO_SCMP, addr := p.addr.swap, pathType := pt, path := path,
                              payload := echoMsg TYPE_EchoReply ident seq data p.addr.swap } := by
  unfold echoHandle
  rw [asScmp_echoRequest p code c1 c2 ident seq data hnh hpl hi hs]
  simp only []
  have hc : (!scmpChecksumOk p && VERIFY_CHECKSUM_ON_RECEIVE) = false := by
    cases hv : VERIFY_CHECKSUM_ON_RECEIVE
    · simp
    · simp [hck hv]
  simp [hc, hrev, hsrc, hdst]


/-! ### checksum -/

theorem fold16_spec (x : Nat) (h : x < 4294967296) :
    fold16 x ≤ 65535 ∧ fold16 x % 65535 = x % 65535 ∧ (fold16 x = 0 ↔ x = 0) := by
  unfold fold16
  simp only []
  omega

theorem sumWords_append_even : ∀ (l1 l2 : Bytes), l1.length % 2 = 0 → sumWords (l1 ++ l2) = sumWords l1 + sumWords l2
  | [], l2, _ => by simp [sumWords]
  | [a], l2, h => by simp at h
  | a :: b :: t, l2, h => by
      have := sumWords_append_even t l2 (by simp at h; omega)
      simp [sumWords, this]; omega

theorem sumWords_le : ∀ (l : Bytes), sumWords l ≤ 65535 * ((l.length + 1) / 2)
  | [] => by simp [sumWords]
  | [a] => by have := a.toNat_lt; simp [sumWords]; omega
  | a :: b :: t => by
      have := sumWords_le t
      have := a.toNat_lt
      have := b.toNat_lt
      simp [sumWords]; omega

theorem sumWords_be32 (n : Nat) : sumWords (be32 n) = sum32 n := by
  simp [be32, sumWords, u8_toNat, sum32]; omega

theorem sumWords_be64 (n : Nat) : sumWords (be64 n) = sum64 n := by
  simp [be64, be32, sumWords, u8_toNat, sum64]; omega


theorem be_lengths (n : Nat) : (be32 n).length % 2 = 0 ∧ (be64 n).length % 2 = 0 := ⟨by simp [be32], by simp [be64, be32]⟩

/-- the byte-level pseudo-header sums to the digest's running value, up to end-around carries -/
theorem pseudo_sum (a : AddrHdr) (len proto : Nat)
    (hd : a.dstHost.length % 2 = 0) (hs : a.srcHost.length % 2 = 0) :
    sumWords (pseudoHeaderBytes a len proto) =
      sum64 a.dstIa + sum64 a.srcIa + sumWords a.dstHost + sumWords a.srcHost + sum32 len + sum32 proto := by
  unfold pseudoHeaderBytes
  simp only [List.append_assoc]
  rw [sumWords_append_even _ _ (be_lengths _).2, sumWords_append_even _ _ (be_lengths _).2, sumWords_append_even _ _ hd,
    sumWords_append_even _ _ hs, sumWords_append_even _ _ (be_lengths _).1, sumWords_be64, sumWords_be64, sumWords_be32, sumWords_be32]
  omega

theorem sum_bounds (v : Nat) : sum64 v ≤ 262140 ∧ sum32 v ≤ 131070 ∧ sum32 (v % 4294967296) = sum32 v := by
  unfold sum64 sum32; omega

theorem arithA (S T fT fV : Nat) (h1 : fT ≤ 65535) (h2 : fT % 65535 = T % 65535)
    (h4 : S % 65535 = T % 65535) (h5 : 0 < S)
    (g1 : fV ≤ 65535) (g2 : fV % 65535 = (S + (65535 - fT)) % 65535) (g3 : fV = 0 ↔ S + (65535 - fT) = 0) : fV = 65535 := by
  omega

theorem arithB (A dh sh m fd fs fm : Nat) (h1 : fd % 65535 = dh % 65535) (h2 : fs % 65535 = sh % 65535) (h3 : fm % 65535 = m % 65535) :
    (A + dh + sh + m) % 65535 = (A + fd + fs + fm) % 65535 := by
  omega

theorem host_sum_lt (l : Bytes) (h : l.length ≤ 16) : sumWords l < 4294967296 := by
  have := sumWords_le l; omega

theorem msg_sum_lt (l : Bytes) (h : l.length ≤ 65535) : sumWords l ≤ 2147450880 := by
  have := sumWords_le l; omega

theorem arithCore (A dh sh m fd fs fm fT fV : Nat)
    (hfd : fd % 65535 = dh % 65535) (hfs : fs % 65535 = sh % 65535) (hfm : fm % 65535 = m % 65535) (hA : 0 < A)
    (hT1 : fT ≤ 65535) (hT2 : fT % 65535 = (A + fd + fs + fm) % 65535)
    (hV1 : fV ≤ 65535) (hV2 : fV % 65535 = (A + dh + sh + m + (65535 - fT)) % 65535)
    (hV3 : fV = 0 ↔ A + dh + sh + m + (65535 - fT) = 0) : fV = 65535 :=
  arithA (A + dh + sh + m) (A + fd + fs + fm) fT fV hT1 hT2 (arithB A dh sh m fd fs fm hfd hfs hfm) (by omega) hV1 hV2 hV3

theorem boundT (A fd fs fm : Nat) (h1 : A ≤ 786421) (h2 : fd ≤ 65535) (h3 : fs ≤ 65535) (h4 : fm ≤ 65535) :
    A + fd + fs + fm < 4294967296 := by omega
theorem boundV (A dh sh m fT : Nat) (h1 : A ≤ 786421) (h2 : dh ≤ 524280) (h3 : sh ≤ 524280) (h4 : m ≤ 2147450880) :
    A + dh + sh + m + (65535 - fT) < 4294967296 := by omega
theorem boundA (x y z p : Nat) (h1 : x ≤ 262140) (h2 : y ≤ 262140) (h3 : z ≤ 131070) (h4 : 0 < p ∧ p < 65536) :
    x + y + z + p ≤ 786421 ∧ 0 < x + y + z + p := by omega
theorem host_le (l : Bytes) (h : l.length ≤ 16) : sumWords l ≤ 524280 := by
  have := sumWords_le l; omega

theorem sumWords_cons2 (x y : UInt8) (l : Bytes) : sumWords (x :: y :: l) = x.toNat * 256 + y.toNat + sumWords l := by
  simp [sumWords]

theorem final_assoc (X m k : Nat) : X + (m + k) = X + m + k := (Nat.add_assoc _ _ _).symm

set_option maxRecDepth 4096 in
/-- **a checksum written by the encoders verifies**: for a message `m0 = type, code, 0, 0, rest…` and the same message
    with the checksum field holding `checksum a proto m0`, the receiver's one's-complement sum over
    pseudo-header ++ message is `0xffff` -/
theorem checksum_verifies_core (a : AddrHdr) (t c : UInt8) (rest m0 : Bytes) (proto : Nat)
    (hm0 : m0 = t :: c :: 0 :: 0 :: rest)
    (hcov : CHECKSUM_COVERS_MESSAGE = true)
    (hd : a.dstHost.length % 2 = 0) (hs : a.srcHost.length % 2 = 0)
    (hdl : a.dstHost.length ≤ 16) (hsl : a.srcHost.length ≤ 16)
    (hlen : rest.length + 4 ≤ 65535) (hp : 0 < proto ∧ proto < 65536) :
    checksumVerifies a proto (t :: c :: u8 (checksum a proto m0 / 256) :: u8 (checksum a proto m0) :: rest) = true := by
  have hL : m0.length = rest.length + 4 := by rw [hm0]; simp
  have hsp : sum32 proto = proto := by unfold sum32; omega
  have hA := boundA _ _ _ _ (sum_bounds a.dstIa).1 (sum_bounds a.srcIa).1 (sum_bounds (rest.length + 4)).2.1 hp
  have hS : sumWords (pseudoHeaderBytes a (rest.length + 4) proto) =
      (sum64 a.dstIa + sum64 a.srcIa + sum32 (rest.length + 4) + proto) + sumWords a.dstHost + sumWords a.srcHost := by
    rw [pseudo_sum a (rest.length + 4) proto hd hs, hsp]; omega
  have hP : pseudoSum a (rest.length + 4) proto =
      (sum64 a.dstIa + sum64 a.srcIa + sum32 (rest.length + 4) + proto) + fold16 (sumWords a.dstHost) + fold16 (sumWords a.srcHost) := by
    unfold pseudoSum; rw [(sum_bounds (rest.length + 4)).2.2, hsp]; omega
  have hM0le : sumWords m0 ≤ 2147450880 := msg_sum_lt _ (by rw [hL]; exact hlen)
  have hM0 : sumWords m0 = t.toNat * 256 + c.toNat + sumWords rest := by
    rw [hm0, sumWords_cons2, sumWords_cons2]
    have e : ((0 : UInt8).toNat) = 0 := rfl
    rw [e]; omega
  have fd := fold16_spec (sumWords a.dstHost) (host_sum_lt _ hdl)
  have fs := fold16_spec (sumWords a.srcHost) (host_sum_lt _ hsl)
  have fm := fold16_spec (sumWords m0) (Nat.lt_of_le_of_lt hM0le (by decide))
  have hck : checksum a proto m0 = 65535 - fold16 (pseudoSum a (rest.length + 4) proto + fold16 (sumWords m0)) := by
    unfold checksum; rw [hcov, hL]; simp
  have fT := fold16_spec (pseudoSum a (rest.length + 4) proto + fold16 (sumWords m0))
    (by rw [hP]; exact boundT _ _ _ _ hA.1 fd.1 fs.1 fm.1)
  have hck_lt : checksum a proto m0 < 65536 := by rw [hck]; exact Nat.lt_of_le_of_lt (Nat.sub_le _ _) (by decide)
  have hmsg : sumWords (t :: c :: u8 (checksum a proto m0 / 256) :: u8 (checksum a proto m0) :: rest)
      = sumWords m0 + checksum a proto m0 := by
    have h16 := split16 _ hck_lt
    rw [sumWords_cons2, sumWords_cons2, hM0, u8_toNat, u8_toNat]
    generalize checksum a proto m0 = ck at h16 ⊢
    omega
  have hbV : (sum64 a.dstIa + sum64 a.srcIa + sum32 (rest.length + 4) + proto) + sumWords a.dstHost + sumWords a.srcHost + sumWords m0 +
      (65535 - fold16 (pseudoSum a (rest.length + 4) proto + fold16 (sumWords m0))) < 4294967296 :=
    boundV (sum64 a.dstIa + sum64 a.srcIa + sum32 (rest.length + 4) + proto) (sumWords a.dstHost) (sumWords a.srcHost) (sumWords m0)
      (fold16 (pseudoSum a (rest.length + 4) proto + fold16 (sumWords m0))) hA.1 (host_le _ hdl) (host_le _ hsl) hM0le
  have fV := fold16_spec _ hbV
  have hT2 : fold16 (pseudoSum a (rest.length + 4) proto + fold16 (sumWords m0)) % 65535 =
      ((sum64 a.dstIa + sum64 a.srcIa + sum32 (rest.length + 4) + proto) + fold16 (sumWords a.dstHost) + fold16 (sumWords a.srcHost) +
        fold16 (sumWords m0)) % 65535 := by
    have h := fT.2.1
    rw [hP] at h ⊢
    exact h
  have key := arithCore (sum64 a.dstIa + sum64 a.srcIa + sum32 (rest.length + 4) + proto) (sumWords a.dstHost) (sumWords a.srcHost)
    (sumWords m0) (fold16 (sumWords a.dstHost)) (fold16 (sumWords a.srcHost)) (fold16 (sumWords m0))
    (fold16 (pseudoSum a (rest.length + 4) proto + fold16 (sumWords m0))) _ fd.2.1 fs.2.1 fm.2.1 hA.2 fT.1 hT2 fV.1 fV.2.1 fV.2.2
  unfold checksumVerifies
  have hlen2 : (t :: c :: u8 (checksum a proto m0 / 256) :: u8 (checksum a proto m0) :: rest).length = rest.length + 4 := by simp
  rw [hlen2, hmsg, hS, hck, final_assoc]
  simp only [beq_iff_eq]
  exact key


theorem errorMsg_shape (ty code : Nat) (rest off : Bytes) (a : AddrHdr) (hdr : Nat) :
    errorMsg ty code rest off a hdr =
      u8 ty :: u8 code ::
        u8 (checksum a PROTO_SCMP (u8 ty :: u8 code :: 0 :: 0 :: (rest ++ off.take (quoteLen off.length hdr (4 + rest.length)))) / 256) ::
        u8 (checksum a PROTO_SCMP (u8 ty :: u8 code :: 0 :: 0 :: (rest ++ off.take (quoteLen off.length hdr (4 + rest.length))))) ::
        (rest ++ off.take (quoteLen off.length hdr (4 + rest.length))) := by
  simp [errorMsg, be16]

theorem echoMsg_shape (ty ident seq : Nat) (data : Bytes) (a : AddrHdr) :
    echoMsg ty ident seq data a =
      u8 ty :: 0 ::
        u8 (checksum a PROTO_SCMP (u8 ty :: 0 :: 0 :: 0 :: (be16 ident ++ be16 seq ++ data)) / 256) ::
        u8 (checksum a PROTO_SCMP (u8 ty :: 0 :: 0 :: 0 :: (be16 ident ++ be16 seq ++ data))) ::
        (be16 ident ++ be16 seq ++ data) := by
  simp [echoMsg, be16]

/-- well-formedness of an address header as far as the checksum needs it: host addresses of 4..16 bytes, even length -/
def AddrHdr.hostsOk (a : AddrHdr) : Prop :=
  a.dstHost.length % 2 = 0 ∧ a.srcHost.length % 2 = 0 ∧ a.dstHost.length ≤ 16 ∧ a.srcHost.length ≤ 16

end ScionVerif.Scmp
