import ScionVerif.Model.SnapFilter
import ScionVerif.Spec.SnapFilter
/-! Helper lemmas for the SNAP ingress filter (C08) and SCMP (C14) models. Property theorems live in
`Theorems/C08.lean` and `Theorems/C14.lean`. -/
set_option linter.unusedSimpArgs false
namespace ScionVerif.SnapFilter
open ScionVerif.Generated.SnapFilter
open ScionVerif.Scmp (Bytes byteAt readBits byteEnd beRead)

/-! ## byte-level reader -/

theorem byteAt_lt (b : Bytes) (i : Nat) : byteAt b i < 256 := by
  unfold byteAt; exact (b.getD i 0).toNat_lt

theorem byteAt_drop (b : Bytes) (n i : Nat) : byteAt (b.drop n) i = byteAt b (n + i) := by
  simp [byteAt, List.getD_eq_getElem?_getD, List.getElem?_drop]

theorem byteAt_take (b : Bytes) (n i : Nat) (h : i < n) : byteAt (b.take n) i = byteAt b i := by
  simp [byteAt, List.getD_eq_getElem?_getD, h]

theorem beRead_take (b : Bytes) (n lo k : Nat) (h : lo + k ≤ n) : beRead (b.take n) lo k = beRead b lo k := by
  induction k with
  | zero => rfl
  | succ k ih =>
    simp only [beRead]
    rw [ih (by omega), byteAt_take _ _ _ (by omega)]

theorem readBits_take (b : Bytes) (n : Nat) (r : Nat × Nat) (h : byteEnd r ≤ n) :
    readBits (b.take n) r = readBits b r := by
  unfold readBits
  simp only
  rw [beRead_take]
  have : r.1 / 8 ≤ byteEnd r := by unfold byteEnd; omega
  omega

theorem readBits_version (b : Bytes) : readBits b VERSION_RNG = byteAt b 0 / 16 := by
  have := byteAt_lt b 0
  simp [readBits, VERSION_RNG, byteEnd, beRead]; omega
theorem readBits_pathType (b : Bytes) : readBits b PATH_TYPE_RNG = byteAt b 8 := by
  have := byteAt_lt b 8
  simp [readBits, PATH_TYPE_RNG, byteEnd, beRead]; omega
theorem readBits_srcNib (b : Bytes) : readBits b SRC_ADDR_INFO_RNG = byteAt b 9 % 16 := by
  simp [readBits, SRC_ADDR_INFO_RNG, byteEnd, beRead]
theorem readBits_dstNib (b : Bytes) : readBits b DST_ADDR_INFO_RNG = byteAt b 9 / 16 := by
  have := byteAt_lt b 9
  simp [readBits, DST_ADDR_INFO_RNG, byteEnd, beRead]; omega
theorem readBits_hdrLen (b : Bytes) : readBits b HEADER_LEN_RNG = byteAt b 5 := by
  have := byteAt_lt b 5
  simp [readBits, HEADER_LEN_RNG, byteEnd, beRead]; omega
theorem readBits_payloadLen (b : Bytes) : readBits b PAYLOAD_LEN_RNG = byteAt b 6 * 256 + byteAt b 7 := by
  have := byteAt_lt b 6
  have := byteAt_lt b 7
  simp [readBits, PAYLOAD_LEN_RNG, byteEnd, beRead]; omega
theorem readBits_seg0 (m : Bytes) : readBits m SEG0_LEN_RNG = byteAt m 1 % 4 * 16 + byteAt m 2 / 16 := by
  have := byteAt_lt m 1
  have := byteAt_lt m 2
  simp [readBits, SEG0_LEN_RNG, byteEnd, beRead]; omega
theorem readBits_seg1 (m : Bytes) : readBits m SEG1_LEN_RNG = byteAt m 2 % 16 * 4 + byteAt m 3 / 64 := by
  have := byteAt_lt m 2
  have := byteAt_lt m 3
  simp [readBits, SEG1_LEN_RNG, byteEnd, beRead]; omega
theorem readBits_seg2 (m : Bytes) : readBits m SEG2_LEN_RNG = byteAt m 3 % 64 := by
  simp [readBits, SEG2_LEN_RNG, byteEnd, beRead]

/-! ## tables -/

theorem addrSize_eq : ∀ n, n < 16 → addrSize n = 4 * (n % 4 + 1) := by decide
theorem addrKind_v4 : ∀ n, n < 16 → (addrKind n = 0 ↔ n = NIBBLE_IPV4) := by decide
theorem addrKind_v6 : ∀ n, n < 16 → (addrKind n = 1 ↔ n = NIBBLE_IPV6) := by decide
theorem addrSize_v4 : addrSize NIBBLE_IPV4 = 4 := by decide
theorem addrSize_v6 : addrSize NIBBLE_IPV6 = 16 := by decide

theorem rd_ok {α : Type} (b : Bytes) (limit : Nat) (r : Nat × Nat) (k : Nat → R α)
    (h1 : byteEnd r ≤ limit) (h2 : limit ≤ b.length) : rd b limit r k = k (readBits b r) := by
  simp [rd, h1, h2]

open ScionVerif.Spec.SnapFilter (B hostLen srcOff pathOff pathLen wellFormed one)

theorem B_eq (d : Bytes) (i : Nat) : B d i = byteAt d i := rfl

theorem addrEnd_eq (d : Bytes) : addrEnd (byteAt d 9 % 16) (byteAt d 9 / 16) = pathOff d := by
  have h := byteAt_lt d 9
  unfold addrEnd pathOff srcOff hostLen
  rw [addrSize_eq _ (by omega), addrSize_eq _ (by omega), B_eq]
  simp [COMMON_SIZE, ADDR_FIXED_SIZE]; omega

theorem nz_eq_one (n : Nat) : nz n = one n := by
  unfold nz one; by_cases h : n = 0 <;> simp [h] <;> omega

/-- what a successful parse establishes, in the vocabulary of the independent specification -/
structure LayoutOk (b : Bytes) (l : Layout) : Prop where
  srcNib : l.srcNib = byteAt b 9 % 16
  dstNib : l.dstNib = byteAt b 9 / 16
  pathType : l.pathType = byteAt b 8
  headerLen : l.headerLen = 4 * byteAt b 5
  payloadLen : l.payloadLen = byteAt b 6 * 256 + byteAt b 7
  sum : pathOff b + l.pathLen = l.headerLen
  fits : l.headerLen ≤ b.length
  version : byteAt b 0 / 16 = 0
  long : 12 ≤ b.length

/-- the path-size computation never reads out of bounds once the address header is known to be inside the
    buffer, and agrees with the specification's `pathLen` -/
theorem pathLayout_char (b : Bytes) (hae : pathOff b ≤ b.length) :
    (∃ n, pathLayout b (byteAt b 8) (pathOff b) (4 * byteAt b 5) = .ok n ∧ pathLen b = some n) ∨
    (∃ e, pathLayout b (byteAt b 8) (pathOff b) (4 * byteAt b 5) = .err e ∧ pathLen b = none) := by
  unfold pathLayout pathLen
  simp only [B_eq]
  by_cases h1 : byteAt b 8 = PT_SCION
  · have h1' : byteAt b 8 = 1 := h1
    simp only [h1, if_true]
    rw [if_neg (by omega)]
    simp only [show PT_SCION = 1 from rfl]
    by_cases h2 : b.length - pathOff b < PATH_META_SIZE
    · right
      have : b.length < pathOff b + 4 := by simp [PATH_META_SIZE] at h2; omega
      simp [h2, this]
    · left
      have h2' : ¬ b.length < pathOff b + 4 := by simp [PATH_META_SIZE] at h2; omega
      have hl : PATH_META_SIZE ≤ (b.drop (pathOff b)).length := by simp [PATH_META_SIZE] at h2 ⊢; omega
      rw [if_neg h2, rd_ok _ _ _ _ (by decide) hl, rd_ok _ _ _ _ (by decide) hl, rd_ok _ _ _ _ (by decide) hl]
      simp only [readBits_seg0, readBits_seg1, readBits_seg2, byteAt_drop, h2', if_false]
      refine ⟨_, rfl, ?_⟩
      simp [stdPathLen, nz_eq_one, PATH_META_SIZE, INFO_FIELD_SIZE, HOP_FIELD_SIZE]
      omega
  · simp only [h1, if_false]
    by_cases h3 : byteAt b 8 = PT_ONEHOP
    · left
      have : byteAt b 8 = 2 := h3
      simp [this, PT_ONEHOP, ONEHOP_PATH_SIZE]
    · by_cases h4 : byteAt b 8 = PT_EMPTY
      · left
        have : byteAt b 8 = 0 := h4
        simp [this, PT_ONEHOP, PT_EMPTY]
      · have e1 : byteAt b 8 ≠ 1 := h1
        have e2 : byteAt b 8 ≠ 2 := h3
        have e0 : byteAt b 8 ≠ 0 := h4
        simp only [h3, h4, if_false]
        by_cases h5 : 4 * byteAt b 5 < pathOff b
        · right
          refine ⟨.tooSmall .path (pathOff b * 8) (4 * byteAt b 5 * 8), by simp [h5], ?_⟩
          simp [h5]
        · left
          refine ⟨4 * byteAt b 5 - pathOff b, by simp [h5], ?_⟩
          simp [h5]

/-- `ScionHeaderLayout::try_from_slice` never reads out of bounds, succeeds exactly on the byte strings the
    independent specification calls well-formed, and then returns the fields the specification reads -/
theorem headerLayout_char (b : Bytes) :
    (∃ l, headerLayout b = .ok l ∧ wellFormed b = true ∧ LayoutOk b l) ∨
    (∃ e, headerLayout b = .err e ∧ wellFormed b = false) := by
  unfold headerLayout
  by_cases h0 : b.length < COMMON_SIZE
  · right
    have : ¬ 12 ≤ b.length := by simp [COMMON_SIZE] at h0; omega
    exact ⟨_, by rw [if_pos h0], by simp [wellFormed, this]⟩
  · have hl : COMMON_SIZE ≤ b.length := by omega
    have h12 : 12 ≤ b.length := by simp [COMMON_SIZE] at hl; omega
    rw [if_neg h0, rd_ok _ _ _ _ (by decide) hl]
    by_cases hv : readBits b VERSION_RNG ≠ 0
    · right
      have : ¬ byteAt b 0 / 16 = 0 := by rw [← readBits_version]; exact hv
      exact ⟨_, by rw [if_pos hv], by simp [wellFormed, B_eq, this]⟩
    · have hv0 : byteAt b 0 / 16 = 0 := by rw [← readBits_version]; simpa using hv
      rw [if_neg hv, rd_ok _ _ _ _ (by decide) hl, rd_ok _ _ _ _ (by decide) hl, rd_ok _ _ _ _ (by decide) hl,
        rd_ok _ _ _ _ (by decide) hl, rd_ok _ _ _ _ (by decide) hl]
      simp only [readBits_pathType, readBits_srcNib, readBits_dstNib, readBits_hdrLen, readBits_payloadLen,
        addrEnd_eq, show HEADER_LEN_UNIT = 4 from rfl, Nat.mul_comm (byteAt b 5) 4]
      by_cases ha : b.length < pathOff b
      · right
        have : ¬ pathOff b ≤ b.length := by omega
        exact ⟨_, by rw [if_pos ha], by simp [wellFormed, this]⟩
      · have hae : pathOff b ≤ b.length := by omega
        rw [if_neg ha]
        rcases pathLayout_char b hae with ⟨n, hp, hs⟩ | ⟨e, hp, hs⟩
        · rw [hp]
          simp only []
          by_cases hc : pathOff b + n > b.length
          · right
            have : ¬ pathOff b + n ≤ b.length := by omega
            exact ⟨_, by rw [if_pos hc], by simp [wellFormed, hs, this]⟩
          · rw [if_neg hc]
            by_cases hq : pathOff b + n ≠ 4 * byteAt b 5
            · right
              exact ⟨_, by rw [if_pos hq], by simp [wellFormed, hs, B_eq, hq]⟩
            · left
              have hq' : pathOff b + n = 4 * byteAt b 5 := by simpa using hq
              refine ⟨_, by rw [if_neg hq], ?_, ?_⟩
              · have : pathOff b + n ≤ b.length := by omega
                simp [wellFormed, hs, B_eq, hq', h12, hv0, hae]
                omega
              · exact ⟨rfl, rfl, rfl, rfl, rfl, hq', by simp only []; omega, hv0, h12⟩
        · right
          rw [hp]
          exact ⟨e, rfl, by simp [wellFormed, hs]⟩

theorem headerLayout_no_panic (b : Bytes) : headerLayout b ≠ .panic := by
  rcases headerLayout_char b with ⟨l, h, _⟩ | ⟨e, h, _⟩ <;> simp [h]

theorem pathOff_ge (b : Bytes) : 36 ≤ pathOff b ∧ srcOff b + hostLen (byteAt b 9 % 16) = pathOff b ∧ 32 ≤ srcOff b := by
  unfold pathOff srcOff hostLen; simp only [B_eq]; exact ⟨by omega, trivial, by omega⟩

theorem byteEnd_hdrLen : byteEnd HEADER_LEN_RNG = 6 := by decide
theorem byteEnd_srcNib : byteEnd SRC_ADDR_INFO_RNG = 10 := by decide
theorem byteEnd_dstNib : byteEnd DST_ADDR_INFO_RNG = 10 := by decide
theorem byteEnd_pathType : byteEnd PATH_TYPE_RNG = 9 := by decide

theorem packetView_ok (b : Bytes) (l : Layout) (h : headerLayout b = .ok l) :
    packetView b = .ok (b.take (min (l.headerLen + l.payloadLen) b.length)) := by
  simp only [packetView, h]
  rw [if_neg (Nat.not_lt.mpr (Nat.min_le_right _ _))]

/-- after a successful parse every unchecked access of `header()`, `src_host_addr()`, `path_type()` is in bounds and
    yields the bytes the specification reads at literal offsets of the datagram -/
theorem headerFields_view (b : Bytes) (l : Layout) (h : LayoutOk b l) :
    headerFields (b.take (min (l.headerLen + l.payloadLen) b.length)) =
      .ok (byteAt b 9 % 16, (b.drop (srcOff b)).take (hostLen (byteAt b 9 % 16)), srcOff b, byteAt b 8) := by
  obtain ⟨h1, h2, h3, h4, h5, h6, h7, h8, h9⟩ := h
  obtain ⟨g1, g2, g3⟩ := pathOff_ge b
  have hb := byteAt_lt b 9
  have hsz : l.headerLen ≤ min (l.headerLen + l.payloadLen) b.length := by omega
  have hvl : (b.take (min (l.headerLen + l.payloadLen) b.length)).length = min (l.headerLen + l.payloadLen) b.length := by
    simp
  unfold headerFields
  rw [rd_ok _ _ _ _ (by decide) (by rw [hvl]; simp [COMMON_SIZE]; omega)]
  rw [readBits_take _ _ _ (by simp only [byteEnd_hdrLen, byteEnd_srcNib, byteEnd_dstNib, byteEnd_pathType]; omega), readBits_hdrLen]
  simp only [show HEADER_LEN_UNIT = 4 from rfl, Nat.mul_comm (byteAt b 5) 4, ← h4]
  rw [if_neg (by rw [hvl]; omega), List.take_take, Nat.min_eq_left hsz]
  have hhl : (b.take l.headerLen).length = l.headerLen := by simp; omega
  have hc : COMMON_SIZE ≤ (b.take l.headerLen).length := by rw [hhl]; simp [COMMON_SIZE]; omega
  rw [rd_ok _ _ _ _ (by decide) hc, rd_ok _ _ _ _ (by decide) hc, rd_ok _ _ _ _ (by decide) hc]
  rw [readBits_take _ _ _ (by simp only [byteEnd_hdrLen, byteEnd_srcNib, byteEnd_dstNib, byteEnd_pathType]; omega), readBits_take _ _ _ (by simp only [byteEnd_hdrLen, byteEnd_srcNib, byteEnd_dstNib, byteEnd_pathType]; omega),
    readBits_take _ _ _ (by simp only [byteEnd_hdrLen, byteEnd_srcNib, byteEnd_dstNib, byteEnd_pathType]; omega), readBits_srcNib, readBits_dstNib, readBits_pathType]
  have hs : COMMON_SIZE + (ADDR_FIXED_SIZE + addrSize (byteAt b 9 / 16)) = srcOff b := by
    unfold srcOff hostLen; rw [addrSize_eq _ (by omega), B_eq]; simp [COMMON_SIZE, ADDR_FIXED_SIZE]; omega
  have hss : addrSize (byteAt b 9 % 16) = hostLen (byteAt b 9 % 16) := by
    unfold hostLen; rw [addrSize_eq _ (by omega)]
  simp only [hs, hss]
  rw [if_neg (by rw [hhl]; omega)]
  congr 3
  rw [List.drop_take, List.take_take, Nat.min_eq_left (by omega)]

theorem srcRaw_length (b : Bytes) (h : pathOff b ≤ b.length) :
    ((b.drop (srcOff b)).take (hostLen (byteAt b 9 % 16))).length = hostLen (byteAt b 9 % 16) := by
  obtain ⟨g1, g2, g3⟩ := pathOff_ge b
  simp; omega

theorem hostIp_char (sn : Nat) (raw : Bytes) (hsn : sn < 16) (hl : raw.length = hostLen sn) :
    hostIp sn raw = if sn = 0 then some (.v4 raw) else if sn = 3 then some (.v6 raw) else none := by
  unfold hostIp
  simp only []
  by_cases h0 : sn = 0
  · subst h0
    have : addrKind 0 = 0 := by decide
    simp [this, hl, hostLen, EXPECTED_ADDR_LEN]
  · by_cases h3 : sn = 3
    · subst h3
      have : addrKind 3 = 1 := by decide
      simp [this, hl, hostLen, EXPECTED_ADDR_LEN]
    · have k0 : addrKind sn ≠ 0 := fun h => h0 ((addrKind_v4 sn hsn).mp h)
      have k1 : addrKind sn ≠ 1 := fun h => h3 ((addrKind_v6 sn hsn).mp h)
      simp [h0, h3, k0, k1]

open ScionVerif.Spec.SnapFilter (Peer Class classify sourceMatches packetLen)

def toPeer : Ip → Peer
  | .v4 o => .v4 o
  | .v6 o => .v6 o

/-- class of a verdict in the vocabulary of the independent specification (`none` for `panic`) -/
def Verdict.cls : Verdict → Option Class
  | .dispatch _ => some .accept
  | .malformed _ => some .malformed
  | .badSource _ _ => some .badSource
  | .badPathType _ _ => some .badPathType
  | .panic => none

/-- the bytes a verdict carries (the packet view), if any -/
def Verdict.view : Verdict → Option Bytes
  | .dispatch v => some v
  | .badSource v _ => some v
  | .badPathType v _ => some v
  | _ => none

theorem sourceMatches_char (d : Bytes) (ip : Ip) (_hw : pathOff d ≤ d.length) :
    sourceMatches d (toPeer ip) = true ↔
      (if byteAt d 9 % 16 = 0 then some (Ip.v4 ((d.drop (srcOff d)).take (hostLen (byteAt d 9 % 16))))
       else if byteAt d 9 % 16 = 3 then some (Ip.v6 ((d.drop (srcOff d)).take (hostLen (byteAt d 9 % 16))))
       else none) = some ip := by
  unfold sourceMatches
  simp only [B_eq]
  by_cases h0 : byteAt d 9 % 16 = 0
  · rw [h0]
    cases ip <;> simp [toPeer, hostLen]
  · by_cases h3 : byteAt d 9 % 16 = 3
    · rw [h3]
      cases ip <;> simp [toPeer, hostLen]
    · simp only [h0, h3, if_false]
      split <;> simp_all

/-- complete characterisation of the filter in terms of the independent specification -/
theorem inboundCheck_char (d : Bytes) (ip : Ip) :
    (inboundCheck d ip).cls = some (classify d (toPeer ip)) ∧
    (∀ v, (inboundCheck d ip).view = some v → v = d.take (packetLen d)) := by
  rcases headerLayout_char d with ⟨l, h, hw, hl⟩ | ⟨e, h, hw⟩
  · have hv := packetView_ok d l h
    have hf := headerFields_view d l hl
    have hlen : min (l.headerLen + l.payloadLen) d.length = packetLen d := by
      unfold packetLen; simp only [B_eq]; rw [hl.headerLen, hl.payloadLen]
    rw [hlen] at hv hf
    have hpo : pathOff d ≤ d.length := by
      have := hl.sum; have := hl.fits; omega
    have hb := byteAt_lt d 9
    have hraw := srcRaw_length d hpo
    have hip := hostIp_char (byteAt d 9 % 16) _ (by omega) hraw
    have hsm := sourceMatches_char d ip hpo
    unfold inboundCheck
    rw [hv]; simp only []; rw [hf]; simp only []
    rw [hip]
    unfold classify
    rw [hw]
    simp only [Bool.not_true, Bool.false_eq_true, if_false]
    by_cases h0 : byteAt d 9 % 16 = 0
    · simp only [h0, if_true] at hsm ⊢
      by_cases he : Ip.v4 ((d.drop (srcOff d)).take (hostLen 0)) = ip
      · have : sourceMatches d (toPeer ip) = true := hsm.mpr (by rw [he])
        rw [this]
        simp only [he, ne_eq, not_true_eq_false, if_false, Bool.not_true, Bool.false_eq_true]
        by_cases hp : byteAt d 8 ∈ ACCEPTED_PATH_TYPES
        · have : byteAt d 8 = 0 ∨ byteAt d 8 = 1 := by simpa [ACCEPTED_PATH_TYPES] using hp
          simp only [hp, if_true]
          refine ⟨?_, ?_⟩
          · rcases this with h | h <;> simp [Verdict.cls, B_eq, h]
          · intro v hv; simp [Verdict.view] at hv; exact hv.symm
        · have : ¬ (byteAt d 8 = 0 ∨ byteAt d 8 = 1) := by simpa [ACCEPTED_PATH_TYPES] using hp
          simp only [hp, if_false]
          refine ⟨?_, ?_⟩
          · have a : byteAt d 8 ≠ 0 := fun h => this (Or.inl h)
            have b : byteAt d 8 ≠ 1 := fun h => this (Or.inr h)
            simp [Verdict.cls, B_eq, a, b]
          · intro v hv; simp [Verdict.view] at hv; exact hv.symm
      · have : ¬ sourceMatches d (toPeer ip) = true := fun h => he (by have := hsm.mp h; simpa using this)
        simp only [this, ne_eq, he, not_false_eq_true, if_true, Bool.not_false]
        refine ⟨by simp [Verdict.cls], ?_⟩
        intro v hv; simp [Verdict.view] at hv; exact hv.symm
    · by_cases h3 : byteAt d 9 % 16 = 3
      · simp only [h3, if_true, show (3 : Nat) ≠ 0 by decide, if_false] at hsm ⊢
        by_cases he : Ip.v6 ((d.drop (srcOff d)).take (hostLen 3)) = ip
        · have : sourceMatches d (toPeer ip) = true := hsm.mpr (by rw [he])
          rw [this]
          simp only [he, ne_eq, not_true_eq_false, if_false, Bool.not_true, Bool.false_eq_true]
          by_cases hp : byteAt d 8 ∈ ACCEPTED_PATH_TYPES
          · have : byteAt d 8 = 0 ∨ byteAt d 8 = 1 := by simpa [ACCEPTED_PATH_TYPES] using hp
            simp only [hp, if_true]
            refine ⟨?_, ?_⟩
            · rcases this with h | h <;> simp [Verdict.cls, B_eq, h]
            · intro v hv; simp [Verdict.view] at hv; exact hv.symm
          · have : ¬ (byteAt d 8 = 0 ∨ byteAt d 8 = 1) := by simpa [ACCEPTED_PATH_TYPES] using hp
            simp only [hp, if_false]
            refine ⟨?_, ?_⟩
            · have a : byteAt d 8 ≠ 0 := fun h => this (Or.inl h)
              have b : byteAt d 8 ≠ 1 := fun h => this (Or.inr h)
              simp [Verdict.cls, B_eq, a, b]
            · intro v hv; simp [Verdict.view] at hv; exact hv.symm
        · have : ¬ sourceMatches d (toPeer ip) = true := fun h => he (by have := hsm.mp h; simpa using this)
          simp only [this, ne_eq, he, not_false_eq_true, if_true, Bool.not_false]
          refine ⟨by simp [Verdict.cls], ?_⟩
          intro v hv; simp [Verdict.view] at hv; exact hv.symm
      · simp only [h0, h3, if_false] at hsm ⊢
        have : ¬ sourceMatches d (toPeer ip) = true := fun h => by have := hsm.mp h; simp at this
        simp only [this, Bool.not_false, if_true]
        refine ⟨by simp [Verdict.cls], ?_⟩
        intro v hv; simp [Verdict.view] at hv; exact hv.symm
  · unfold inboundCheck packetView
    rw [h]
    refine ⟨by simp [Verdict.cls, classify, hw], ?_⟩
    intro v hv; simp [Verdict.view] at hv

end ScionVerif.SnapFilter

/-! ## SCMP construction -/
namespace ScionVerif.Scmp
open ScionVerif.Generated.Scmp

theorem be16_length (n : Nat) : (be16 n).length = 2 := rfl
theorem be32_length (n : Nat) : (be32 n).length = 4 := rfl
theorem be64_length (n : Nat) : (be64 n).length = 8 := rfl

theorem encodeHeader_length (tc flow nh : Nat) (a : AddrHdr) (pt : Nat) (path : Bytes) (pl : Nat) :
    (encodeHeader tc flow nh a pt path pl).length = headerSize a path := by
  simp [encodeHeader, headerSize, be64_length]; omega

theorem quoteLen_le (off hdr fixed : Nat) : quoteLen off hdr fixed ≤ off := by
  unfold quoteLen; exact Nat.min_le_left _ _

theorem errorMsg_length (ty code : Nat) (rest off : Bytes) (a : AddrHdr) (hdr : Nat) :
    (errorMsg ty code rest off a hdr).length = 4 + rest.length + quoteLen off.length hdr (4 + rest.length) := by
  have := quoteLen_le off.length hdr (4 + rest.length)
  simp [errorMsg, be16_length, List.length_take]; omega

/-- the truncation budget: if header and fixed part fit, the whole packet fits -/
theorem errorMsg_fits (ty code : Nat) (rest off : Bytes) (a : AddrHdr) (hdr : Nat)
    (h : hdr + (4 + rest.length) ≤ SCMP_ERROR_MAX_PACKET_SIZE) :
    hdr + (errorMsg ty code rest off a hdr).length ≤ SCMP_ERROR_MAX_PACKET_SIZE := by
  rw [errorMsg_length]
  unfold quoteLen
  have := Nat.min_le_right off.length (SCMP_ERROR_MAX_PACKET_SIZE - hdr - (4 + rest.length))
  omega

/-- the quoted part is a prefix of the offending packet and everything before it has the fixed size -/
theorem errorMsg_quote (ty code : Nat) (rest off : Bytes) (a : AddrHdr) (hdr : Nat) :
    (errorMsg ty code rest off a hdr).drop (4 + rest.length) = off.take (quoteLen off.length hdr (4 + rest.length)) := by
  unfold errorMsg
  simp only []
  rw [show ∀ (x y z w : Bytes), x ++ y ++ z ++ w = (x ++ y ++ z) ++ w from fun _ _ _ _ => by simp]
  rw [List.drop_left' (by simp [be16_length]; omega)]

end ScionVerif.Scmp

namespace ScionVerif.SnapFilter
open ScionVerif.Generated.SnapFilter
open ScionVerif.Scmp (Bytes)

theorem replyAddr_headerSize (loc peer : Ip) (h1 : loc.wf) (h2 : peer.wf) :
    Scmp.headerSize (replyAddr loc peer) [] = 28 + peer.octets.length + loc.octets.length ∧
    (peer.octets.length = 4 ∨ peer.octets.length = 16) ∧ (loc.octets.length = 4 ∨ loc.octets.length = 16) := by
  refine ⟨by simp [Scmp.headerSize, replyAddr], ?_, ?_⟩
  · cases peer <;> simp_all [Ip.wf, Ip.octets]
  · cases loc <;> simp_all [Ip.wf, Ip.octets]

theorem paramProblem_rest_length (c p : Nat) : (Scmp.ErrKind.paramProblem c p).rest.length = 4 := rfl

theorem encodeReply_ok (code ptr : Nat) (off : Bytes) (loc peer : Ip) (h1 : loc.wf) (h2 : peer.wf) :
    encodeReply code ptr off loc peer =
      .ok (Scmp.encodeHeader 0 0 Generated.Scmp.PROTO_SCMP (replyAddr loc peer) PT_EMPTY []
            ((Scmp.encodeError (.paramProblem code ptr) off (replyAddr loc peer) (Scmp.headerSize (replyAddr loc peer) [])).length % 65536)
          ++ Scmp.encodeError (.paramProblem code ptr) off (replyAddr loc peer) (Scmp.headerSize (replyAddr loc peer) [])) ∧
    Scmp.headerSize (replyAddr loc peer) [] +
      (Scmp.encodeError (.paramProblem code ptr) off (replyAddr loc peer) (Scmp.headerSize (replyAddr loc peer) [])).length
        ≤ Generated.Scmp.SCMP_ERROR_MAX_PACKET_SIZE := by
  obtain ⟨hs, hp, hl⟩ := replyAddr_headerSize loc peer h1 h2
  have hfit : Scmp.headerSize (replyAddr loc peer) [] +
      (Scmp.encodeError (.paramProblem code ptr) off (replyAddr loc peer) (Scmp.headerSize (replyAddr loc peer) [])).length
        ≤ Generated.Scmp.SCMP_ERROR_MAX_PACKET_SIZE :=
    Scmp.errorMsg_fits Generated.Scmp.TYPE_ParameterProblem code (Scmp.ErrKind.paramProblem code ptr).rest off
      (replyAddr loc peer) (Scmp.headerSize (replyAddr loc peer) [])
      (by rw [paramProblem_rest_length, hs]; simp [Generated.Scmp.SCMP_ERROR_MAX_PACKET_SIZE]; omega)
  refine ⟨?_, hfit⟩
  unfold encodeReply
  simp only []
  rw [if_neg (by rw [hs]; simp [MAX_HEADER_SIZE]; omega)]
  rw [if_neg (by simp [PACKET_BUF_SIZE, Generated.Scmp.SCMP_ERROR_MAX_PACKET_SIZE] at hfit ⊢; omega)]

/-- the reply constructor never fails for well-formed addresses and produces `header ++ 8 bytes ++ quote` -/
theorem encodeReply_char (code ptr : Nat) (off : Bytes) (loc peer : Ip) (h1 : loc.wf) (h2 : peer.wf) :
    ∃ r, encodeReply code ptr off loc peer = .ok r ∧
      r.length ≤ Generated.Scmp.SCMP_ERROR_MAX_PACKET_SIZE ∧
      r.length = Scmp.headerSize (replyAddr loc peer) [] + 8 +
        Scmp.quoteLen off.length (Scmp.headerSize (replyAddr loc peer) []) 8 ∧
      r.drop (Scmp.headerSize (replyAddr loc peer) [] + 8) =
        off.take (Scmp.quoteLen off.length (Scmp.headerSize (replyAddr loc peer) []) 8) := by
  obtain ⟨hok, hfit⟩ := encodeReply_ok code ptr off loc peer h1 h2
  have hlen : (Scmp.encodeError (.paramProblem code ptr) off (replyAddr loc peer) (Scmp.headerSize (replyAddr loc peer) [])).length
      = 4 + 4 + Scmp.quoteLen off.length (Scmp.headerSize (replyAddr loc peer) []) (4 + 4) :=
    Scmp.errorMsg_length Generated.Scmp.TYPE_ParameterProblem code (Scmp.ErrKind.paramProblem code ptr).rest off
      (replyAddr loc peer) (Scmp.headerSize (replyAddr loc peer) [])
  have hq : (Scmp.encodeError (.paramProblem code ptr) off (replyAddr loc peer) (Scmp.headerSize (replyAddr loc peer) [])).drop (4 + 4)
      = off.take (Scmp.quoteLen off.length (Scmp.headerSize (replyAddr loc peer) []) (4 + 4)) :=
    Scmp.errorMsg_quote Generated.Scmp.TYPE_ParameterProblem code (Scmp.ErrKind.paramProblem code ptr).rest off
      (replyAddr loc peer) (Scmp.headerSize (replyAddr loc peer) [])
  refine ⟨_, hok, ?_, ?_, ?_⟩
  · rw [List.length_append, Scmp.encodeHeader_length]; exact hfit
  · rw [List.length_append, Scmp.encodeHeader_length, hlen, show (4 + 4 : Nat) = 8 from rfl]; omega
  · rw [List.drop_append, Scmp.encodeHeader_length, List.drop_eq_nil_of_le (by rw [Scmp.encodeHeader_length]; omega),
      List.nil_append, show Scmp.headerSize (replyAddr loc peer) [] + 8 - Scmp.headerSize (replyAddr loc peer) [] = 4 + 4 by omega]
    exact hq

end ScionVerif.SnapFilter
