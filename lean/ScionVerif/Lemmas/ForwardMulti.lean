import ScionVerif.Lemmas.Forward
/-!
Lemmas for C01 on multi-segment paths: a packet frame (segment lengths + hop fields) with evolving info
fields; travel inside a segment (`seg_travel`), crossover into the next segment (`seg_cross`), delivery at
the end of the last segment (`seg_deliver`) – each an equation between `walk` states of the model of
pocketscion's router, for an arbitrary MAC function.  Property theorems: `Theorems/C01.lean`.
-/
namespace ScionVerif.Router
open ScionVerif.Generated.Router

/-- a beaconed segment as used in a path: `cons` = travelled in construction direction -/
structure Seg where
  es : List Entry
  ts : Nat
  beta0 : Nat
  cons : Bool

namespace Seg
variable (macf : MacF) (g : Seg)
def n : Nat := g.es.length
/-- index (in construction order) of the entry at travel position `k` -/
def idx (k : Nat) : Nat := if g.cons then k else g.es.length - 1 - k
def entry (k : Nat) : Option Entry := g.es[g.idx k]?
/-- accumulator with which the hop field at travel position `k` was MACed -/
def beta (k : Nat) : Nat := betaAt macf g.ts g.beta0 g.es (g.idx k)
/-- hop fields in travel order -/
def hops : List Hop := if g.cons then mkHops macf g.ts g.beta0 g.es else (mkHops macf g.ts g.beta0 g.es).reverse
def info (sid : Nat) : Info := ⟨g.cons, false, sid, g.ts⟩
/-- SegID the source puts into the info field: β of the first hop field in travel order -/
def initSid : Nat := g.beta macf 0
def tIngress (e : Entry) : Nat := if g.cons then e.consIngress else e.consEgress
def tEgress (e : Entry) : Nat := if g.cons then e.consEgress else e.consIngress
end Seg

theorem Seg.hops_length (macf : MacF) (g : Seg) : (g.hops macf).length = g.es.length := by
  unfold Seg.hops; split <;> simp [mkHops_length]

theorem Seg.hops_get (macf : MacF) (g : Seg) (k : Nat) (e : Entry) (hk : k < g.es.length)
    (he : g.entry k = some e) : (g.hops macf)[k]? = some (hopOf macf g.ts (g.beta macf k) e) := by
  unfold Seg.hops Seg.beta Seg.entry Seg.idx at *
  split
  · rename_i hc; simp only [hc, ↓reduceIte] at he ⊢; exact mkHops_get macf _ _ _ _ _ he
  · rename_i hc; simp only [hc, Bool.false_eq_true, ↓reduceIte] at he ⊢
    exact rev_hop macf g.ts g.beta0 g.es k e hk he

/-- all hop fields of the segment are valid at `now` -/
def Seg.Timely (macf : MacF) (g : Seg) (now : Nat) : Prop := ScionVerif.Router.Timely macf g.ts g.beta0 now g.es

theorem Seg.timely_at (macf : MacF) (g : Seg) (now k : Nat) (e : Entry) (h : g.Timely macf now)
    (he : g.entry k = some e) :
    g.ts ≤ now ∧ now ≤ expiryTs (hopOf macf g.ts (g.beta macf k) e) ⟨true, false, g.beta macf k, g.ts⟩ :=
  ⟨h.1, h.2 _ e he⟩


theorem g_validate (macf : MacF) (ts beta : Nat) (cons : Bool) (e : Entry) (c : VCtx)
    (hkey : c.key = e.key) (hign : c.ignoreMacs = false) (hts : ts ≤ c.now)
    (hexp : c.now ≤ expiryTs (hopOf macf ts beta e) ⟨true, false, beta, ts⟩)
    (hif : ifaceCheck c (hopOf macf ts beta e) ⟨cons, false, beta, ts⟩ = none) :
    validateHop macf c (hopOf macf ts beta e) ⟨cons, false, beta, ts⟩ = none := by
  unfold validateHop
  rw [hif]
  simp only []
  have h1 : ¬ ts > c.now := by omega
  have hexp' : c.now ≤ expiryTs (hopOf macf ts beta e) ⟨cons, false, beta, ts⟩ := by
    simpa [expiryTs] using hexp
  simp [h1, hign, hkey, hopOf]
  simpa [hopOf] using hexp'

def tIn (cons : Bool) (e : Entry) : Nat := if cons then e.consIngress else e.consEgress
def tEg (cons : Bool) (e : Entry) : Nat := if cons then e.consEgress else e.consIngress

theorem hopOf_ingressIf (macf : MacF) (ts b : Nat) (e : Entry) (cons : Bool) (sid : Nat) :
    (hopOf macf ts b e).ingressIf ⟨cons, false, sid, ts⟩ = tIn cons e := by
  cases cons <;> simp [Hop.ingressIf, hopOf, tIn]
theorem hopOf_egressIf (macf : MacF) (ts b : Nat) (e : Entry) (cons : Bool) (sid : Nat) :
    (hopOf macf ts b e).egressIf ⟨cons, false, sid, ts⟩ = tEg cons e := by
  cases cons <;> simp [Hop.egressIf, hopOf, tEg]

/-- ingress processing of a hop that is not a segment end, or of the very last hop -/
theorem g_ingress (macf : MacF) (P : Path) (s : Nat) (st en : Bool) (e : Entry) (b sid ts : Nat) (cons : Bool)
    (c : VCtx) (fi : Bool)
    (hcur : P.currInf = s) (hseg : P.segIndex P.currHf = some (s, st, en)) (hse : (st && en) = false)
    (hh : P.hops[P.currHf]? = some (hopOf macf ts b e)) (hi : P.infos[s]? = some ⟨cons, false, sid, ts⟩)
    (hsid : (if (!fi && !cons) = true then betaStep sid (hopOf macf ts b e).mac else sid) = b)
    (hkey : c.key = e.key) (hign : c.ignoreMacs = false) (hin : c.ingress = true) (hsc : c.segChanged = false)
    (hc : c.curIf = 0 ∨ c.curIf = tIn cons e) (hts : ts ≤ c.now)
    (hexp : c.now ≤ expiryTs (hopOf macf ts b e) ⟨true, false, b, ts⟩)
    (hshape : (P.currHf + 1 ≥ P.hopCount ∧ en = true) ∨ (¬ P.currHf + 1 ≥ P.hopCount ∧ en = false)) :
    advanceIngress macf c P fi =
      .ok ({ P with infos := setAt P.infos s ⟨cons, false, b, ts⟩ },
           { scmpAlert := false, ingressIf := tIn cons e,
             action := if P.currHf + 1 ≥ P.hopCount then .forwardLocal else .continueEgress (tEg cons e) }, none) := by
  have hif : ifaceCheck c (hopOf macf ts b e) ⟨cons, false, b, ts⟩ = none := by
    unfold ifaceCheck
    simp only [hin, hsc, Bool.false_eq_true, ↓reduceIte, hopOf_ingressIf]
    rcases hc with h | h <;> simp [h]
  have hval := g_validate macf ts b cons e c hkey hign hts hexp hif
  unfold advanceIngress
  rw [hseg]
  simp only [hse, Bool.false_eq_true, ↓reduceIte]
  have h2 : (s != P.currInf) = false := by simp [hcur]
  simp only [h2, Bool.false_eq_true, ↓reduceIte]
  rw [hh, hcur, hi]
  simp only []
  have hinfo1 : (if (!fi && !cons) = true then ({ consDir := cons, peer := false, segId := betaStep sid (hopOf macf ts b e).mac, ts := ts } : Info)
      else ⟨cons, false, sid, ts⟩) = ⟨cons, false, b, ts⟩ := by
    split
    · rename_i hc'; simp only [hc', ↓reduceIte] at hsid; rw [hsid]
    · rename_i hc'; simp only [hc', Bool.false_eq_true, ↓reduceIte] at hsid; rw [hsid]
  simp only [hinfo1, hval]
  have halert : (hopOf macf ts b e).ingressAlert cons = false := by cases cons <;> simp [Hop.ingressAlert, hopOf]
  simp only [halert, Bool.and_false, Bool.false_eq_true, ↓reduceIte]
  have hs1 := setAt_same _ _ _ hh
  rcases hshape with ⟨hf, he⟩ | ⟨hf, he⟩
  · simp [hf, he, hs1, hopOf_ingressIf]
  · simp [hf, he, hs1, hopOf_ingressIf, hopOf_egressIf]

/-- egress processing of a hop that is not a segment end -/
theorem g_egress (macf : MacF) (P : Path) (s : Nat) (st : Bool) (e : Entry) (b ts : Nat) (cons : Bool)
    (c : VCtx)
    (hcur : P.currInf = s) (hseg : P.segIndex P.currHf = some (s, st, false))
    (hnf : ¬ P.currHf + 1 ≥ P.hopCount) (hmax : P.hopCount ≤ MAX_TOTAL_HOPS + 1)
    (hh : P.hops[P.currHf]? = some (hopOf macf ts b e)) (hi : P.infos[s]? = some ⟨cons, false, b, ts⟩)
    (hkey : c.key = e.key) (hign : c.ignoreMacs = false) (hin : c.ingress = false)
    (hc : c.curIf = tEg cons e) (hts : ts ≤ c.now)
    (hexp : c.now ≤ expiryTs (hopOf macf ts b e) ⟨true, false, b, ts⟩) :
    advanceEgress macf c P =
      .ok ({ P with currHf := P.currHf + 1,
                    infos := setAt P.infos s ⟨cons, false, if cons then betaStep b (hopOf macf ts b e).mac else b, ts⟩ },
           { scmpAlert := false, egressIf := tEg cons e }, none) := by
  have hif : ifaceCheck c (hopOf macf ts b e) ⟨cons, false, b, ts⟩ = none := by
    unfold ifaceCheck
    simp [hin, hopOf_egressIf, hc]
  have hval := g_validate macf ts b cons e c hkey hign hts hexp hif
  unfold advanceEgress
  rw [hseg]
  simp only []
  have h2 : (s != P.currInf) = false := by simp [hcur]
  simp only [h2, Bool.false_eq_true, ↓reduceIte]
  rw [hh, hcur, hi]
  have hmx : ¬ P.currHf + 1 > MAX_TOTAL_HOPS := by omega
  simp only [hnf, hmx, Bool.false_eq_true, ↓reduceIte, hval]
  have halert : (hopOf macf ts b e).egressAlert cons = false := by cases cons <;> simp [Hop.egressAlert, hopOf]
  have hs1 := setAt_same _ _ _ hh
  simp only [halert, Bool.false_eq_true, ↓reduceIte, hs1]
  cases cons <;> simp [hopOf_egressIf]


/-- ingress processing at a crossover: last hop field of segment `s`, first hop field of segment `s+1`,
    both belonging to (and MACed by) the AS that processes the packet -/
theorem g_crossover (macf : MacF) (P : Path) (s : Nat) (st : Bool) (e e' : Entry) (b sid ts b' ts' : Nat)
    (cons cons' : Bool) (c : VCtx) (fi : Bool) (la lb : IfState)
    (hcur : P.currInf = s) (hseg : P.segIndex P.currHf = some (s, st, true)) (hst : st = false)
    (hnf : ¬ P.currHf + 1 ≥ P.hopCount) (hmax : P.hopCount ≤ MAX_TOTAL_HOPS + 1)
    (hh : P.hops[P.currHf]? = some (hopOf macf ts b e)) (hi : P.infos[s]? = some ⟨cons, false, sid, ts⟩)
    (hh' : P.hops[P.currHf + 1]? = some (hopOf macf ts' b' e')) (hi' : P.infos[s + 1]? = some ⟨cons', false, b', ts'⟩)
    (hsid : (if (!fi && !cons) = true then betaStep sid (hopOf macf ts b e).mac else sid) = b)
    (hkey : c.key = e.key) (hkey' : c.key = e'.key) (hign : c.ignoreMacs = false) (hin : c.ingress = true)
    (hsc : c.segChanged = false)
    (hc : c.curIf = 0 ∨ c.curIf = tIn cons e) (hts : ts ≤ c.now) (hts' : ts' ≤ c.now)
    (hexp : c.now ≤ expiryTs (hopOf macf ts b e) ⟨true, false, b, ts⟩)
    (hexp' : c.now ≤ expiryTs (hopOf macf ts' b' e') ⟨true, false, b', ts'⟩)
    (hla : c.lookup (tIn cons e) = some la) (hlb : c.lookup (tEg cons' e') = some lb)
    (hok : segChangeValid la.linkType lb.linkType = true) :
    advanceIngress macf c P fi =
      .ok ({ P with currHf := P.currHf + 1, currInf := s + 1, infos := setAt P.infos s ⟨cons, false, b, ts⟩ },
           { scmpAlert := false, ingressIf := tIn cons e, action := .continueEgress (tEg cons' e') }, none) := by
  have hif : ifaceCheck c (hopOf macf ts b e) ⟨cons, false, b, ts⟩ = none := by
    unfold ifaceCheck
    simp only [hin, hsc, Bool.false_eq_true, ↓reduceIte, hopOf_ingressIf]
    rcases hc with h | h <;> simp [h]
  have hval := g_validate macf ts b cons e c hkey hign hts hexp hif
  have hif' : ifaceCheck { c with segChanged := true } (hopOf macf ts' b' e') ⟨cons', false, b', ts'⟩ = none := by
    unfold ifaceCheck; simp [hin]
  have hval' := g_validate macf ts' b' cons' e' { c with segChanged := true } hkey' hign hts' hexp' hif'
  have hsegc : validateSegChange c (hopOf macf ts b e) ⟨cons, false, b, ts⟩ (hopOf macf ts' b' e') ⟨cons', false, b', ts'⟩ = none := by
    unfold validateSegChange
    have a1 : (hopOf macf ts b e).egressAlert cons = false := by cases cons <;> simp [Hop.egressAlert, hopOf]
    have a2 : (hopOf macf ts' b' e').ingressAlert cons' = false := by cases cons' <;> simp [Hop.ingressAlert, hopOf]
    simp [a1, a2, hopOf_ingressIf, hopOf_egressIf, hla, hlb, hok]
  unfold advanceIngress
  rw [hseg]
  simp only [hst, Bool.false_and, Bool.false_eq_true, ↓reduceIte]
  have h2 : (s != P.currInf) = false := by simp [hcur]
  simp only [h2, Bool.false_eq_true, ↓reduceIte]
  rw [hh, hcur, hi]
  simp only []
  have hinfo1 : (if (!fi && !cons) = true then ({ consDir := cons, peer := false, segId := betaStep sid (hopOf macf ts b e).mac, ts := ts } : Info)
      else ⟨cons, false, sid, ts⟩) = ⟨cons, false, b, ts⟩ := by
    split
    · rename_i hc'; simp only [hc', ↓reduceIte] at hsid; rw [hsid]
    · rename_i hc'; simp only [hc', Bool.false_eq_true, ↓reduceIte] at hsid; rw [hsid]
  simp only [hinfo1, hval]
  have halert : (hopOf macf ts b e).ingressAlert cons = false := by cases cons <;> simp [Hop.ingressAlert, hopOf]
  simp only [halert, Bool.and_false, Bool.false_eq_true, ↓reduceIte]
  have hs1 := setAt_same _ _ _ hh
  have hmx : ¬ P.currHf + 1 > MAX_TOTAL_HOPS := by omega
  simp only [hnf, hmx, decide_false, Bool.false_and, Bool.false_eq_true, ↓reduceIte, Bool.not_false, Bool.true_and,
    Bool.not_true, Bool.and_false]
  rw [hh', hi']
  simp only [hsegc, hval', hs1, hopOf_ingressIf, hopOf_egressIf]


theorem setAt_get_self {α} (l : List α) (i : Nat) (a b : α) (h : l[i]? = some b) : (setAt l i a)[i]? = some a := by
  unfold setAt
  have hl : i < l.length := (List.getElem?_eq_some_iff.mp h).1
  rw [List.getElem?_set_self hl]

theorem setAt_get_ne {α} (l : List α) (i j : Nat) (a : α) (h : i ≠ j) : (setAt l i a)[j]? = l[j]? := by
  unfold setAt; rw [List.getElem?_set_ne h]

theorem setAt_setAt {α} (l : List α) (i : Nat) (a b : α) : setAt (setAt l i a) i b = setAt l i b := by
  unfold setAt; simp

/-- a transit AS inside a segment: validated on ingress and egress, forwarded over the hop field's egress -/
theorem g_route_mid (macf : MacF) (P : Path) (s : Nat) (st : Bool) (e : Entry) (b sid ts : Nat) (cons : Bool)
    (dst curIf now : Nat) (lookup : Nat → Option IfState) (lst : IfState)
    (hcur : P.currInf = s) (hseg : P.segIndex P.currHf = some (s, st, false))
    (hnf : ¬ P.currHf + 1 ≥ P.hopCount) (hmax : P.hopCount ≤ MAX_TOTAL_HOPS + 1)
    (hh : P.hops[P.currHf]? = some (hopOf macf ts b e)) (hi : P.infos[s]? = some ⟨cons, false, sid, ts⟩)
    (hsid : (if (!(curIf == 0) && !cons) = true then betaStep sid (hopOf macf ts b e).mac else sid) = b)
    (hc : curIf = 0 ∨ curIf = tIn cons e) (hts : ts ≤ now)
    (hexp : now ≤ expiryTs (hopOf macf ts b e) ⟨true, false, b, ts⟩)
    (hl : lookup (tEg cons e) = some lst) (hup : lst.up = true) :
    routeStd macf e.ia dst P curIf now e.key lookup false =
      ({ P with currHf := P.currHf + 1,
                infos := setAt P.infos s ⟨cons, false, if cons then betaStep b (hopOf macf ts b e).mac else b, ts⟩ },
       .forwardNext (tEg cons e)) := by
  subst hcur
  unfold routeStd
  simp only []
  rw [g_ingress macf P _ st false e b sid ts cons _ _ rfl hseg (by simp) hh hi hsid rfl rfl rfl rfl hc hts hexp
    (Or.inr ⟨hnf, rfl⟩)]
  simp only [hnf, ↓reduceIte, Bool.false_and, Bool.false_eq_true]
  have hi1 : (setAt P.infos P.currInf (⟨cons, false, b, ts⟩ : Info))[P.currInf]? = some ⟨cons, false, b, ts⟩ :=
    setAt_get_self _ _ _ _ hi
  simp only [hi1, hl, hup, Bool.not_true, Bool.false_eq_true, ↓reduceIte]
  rw [g_egress macf { P with infos := setAt P.infos P.currInf ⟨cons, false, b, ts⟩ } _ st e b ts cons _ rfl hseg hnf hmax hh hi1
    rfl rfl rfl rfl hts hexp]
  simp [setAt_setAt]

/-- the destination AS: last hop field of the last segment -/
theorem g_route_last (macf : MacF) (P : Path) (s : Nat) (st : Bool) (e : Entry) (b sid ts : Nat) (cons : Bool)
    (curIf now : Nat) (lookup : Nat → Option IfState)
    (hcur : P.currInf = s) (hseg : P.segIndex P.currHf = some (s, st, true)) (hst : st = false)
    (hf : P.currHf + 1 ≥ P.hopCount)
    (hh : P.hops[P.currHf]? = some (hopOf macf ts b e)) (hi : P.infos[s]? = some ⟨cons, false, sid, ts⟩)
    (hsid : (if (!(curIf == 0) && !cons) = true then betaStep sid (hopOf macf ts b e).mac else sid) = b)
    (hc : curIf = 0 ∨ curIf = tIn cons e) (hts : ts ≤ now)
    (hexp : now ≤ expiryTs (hopOf macf ts b e) ⟨true, false, b, ts⟩) :
    routeStd macf e.ia e.ia P curIf now e.key lookup false =
      ({ P with infos := setAt P.infos s ⟨cons, false, b, ts⟩ }, .forwardLocal) := by
  unfold routeStd
  simp only []
  rw [g_ingress macf P s st true e b sid ts cons _ _ hcur hseg (by simp [hst]) hh hi hsid rfl rfl rfl rfl hc hts hexp
    (Or.inl ⟨hf, rfl⟩)]
  simp [hf]


/-- a crossover AS: last hop of segment `s`, first hop of segment `s+1`; the packet leaves over the egress of the
    second hop field -/
theorem g_route_cross (macf : MacF) (P : Path) (s : Nat) (st st' : Bool) (e e' : Entry) (b sid ts b' ts' : Nat)
    (cons cons' : Bool) (dst curIf now : Nat) (lookup : Nat → Option IfState) (la lb : IfState)
    (hcur : P.currInf = s) (hseg : P.segIndex P.currHf = some (s, st, true)) (hst : st = false)
    (hseg' : P.segIndex (P.currHf + 1) = some (s + 1, st', false))
    (hnf : ¬ P.currHf + 2 ≥ P.hopCount) (hmax : P.hopCount ≤ MAX_TOTAL_HOPS + 1)
    (hh : P.hops[P.currHf]? = some (hopOf macf ts b e)) (hi : P.infos[s]? = some ⟨cons, false, sid, ts⟩)
    (hh' : P.hops[P.currHf + 1]? = some (hopOf macf ts' b' e')) (hi' : P.infos[s + 1]? = some ⟨cons', false, b', ts'⟩)
    (hsid : (if (!(curIf == 0) && !cons) = true then betaStep sid (hopOf macf ts b e).mac else sid) = b)
    (hkey' : e.key = e'.key)
    (hc : curIf = 0 ∨ curIf = tIn cons e) (hts : ts ≤ now) (hts' : ts' ≤ now)
    (hexp : now ≤ expiryTs (hopOf macf ts b e) ⟨true, false, b, ts⟩)
    (hexp' : now ≤ expiryTs (hopOf macf ts' b' e') ⟨true, false, b', ts'⟩)
    (hla : lookup (tIn cons e) = some la) (hlb : lookup (tEg cons' e') = some lb)
    (hok : segChangeValid la.linkType lb.linkType = true) (hup : lb.up = true) :
    routeStd macf e.ia dst P curIf now e.key lookup false =
      ({ P with currHf := P.currHf + 2, currInf := s + 1,
                infos := setAt (setAt P.infos s ⟨cons, false, b, ts⟩) (s + 1)
                  ⟨cons', false, if cons' then betaStep b' (hopOf macf ts' b' e').mac else b', ts'⟩ },
       .forwardNext (tEg cons' e')) := by
  subst hcur
  have hnf1 : ¬ P.currHf + 1 ≥ P.hopCount := by omega
  unfold routeStd
  simp only []
  rw [g_crossover macf P _ st e e' b sid ts b' ts' cons cons' _ _ la lb rfl hseg hst hnf1 hmax hh hi hh' hi' hsid rfl hkey'
    rfl rfl rfl hc hts hts' hexp hexp' hla hlb hok]
  simp only [Bool.false_and, Bool.false_eq_true, ↓reduceIte]
  have hne : P.currInf ≠ P.currInf + 1 := by omega
  have hi1 : (setAt P.infos P.currInf (⟨cons, false, b, ts⟩ : Info))[P.currInf + 1]? = some ⟨cons', false, b', ts'⟩ := by
    rw [setAt_get_ne _ _ _ _ hne]; exact hi'
  simp only [hi1, hlb, hup, Bool.not_true, Bool.false_eq_true, ↓reduceIte]
  rw [g_egress macf { P with currHf := P.currHf + 1, currInf := P.currInf + 1,
                             infos := setAt P.infos P.currInf ⟨cons, false, b, ts⟩ } (P.currInf + 1) st' e' b' ts' cons' _
    rfl (by simpa [Path.segIndex] using hseg') (by simp [Path.hopCount] at hnf ⊢; omega) (by simpa [Path.hopCount] using hmax) hh' hi1
    hkey' rfl rfl rfl hts' hexp']
  simp


/-! ### β bookkeeping in travel order -/

theorem Seg.beta_cons_succ (macf : MacF) (g : Seg) (k : Nat) (e : Entry) (hc : g.cons = true)
    (he : g.entry k = some e) :
    g.beta macf (k + 1) = betaStep (g.beta macf k) (hopOf macf g.ts (g.beta macf k) e).mac := by
  unfold Seg.beta Seg.entry Seg.idx at *
  simp only [hc, ↓reduceIte] at he ⊢
  exact betaAt_succ macf g.ts g.beta0 g.es k e he

theorem Seg.beta_rev_succ (macf : MacF) (g : Seg) (k : Nat) (e' : Entry) (hc : g.cons = false)
    (hk : k + 1 < g.es.length) (he : g.entry (k + 1) = some e') :
    betaStep (g.beta macf k) (hopOf macf g.ts (g.beta macf (k + 1)) e').mac = g.beta macf (k + 1) := by
  unfold Seg.beta Seg.entry Seg.idx at *
  simp only [hc, Bool.false_eq_true, ↓reduceIte] at he ⊢
  have hidx : g.es.length - 1 - k = (g.es.length - 1 - (k + 1)) + 1 := by omega
  rw [hidx, betaAt_succ macf g.ts g.beta0 g.es _ e' he, betaStep_cancel]

/-- SegID carried by the packet when it arrives at travel position `k` of the segment -/
def Seg.arrSid (macf : MacF) (g : Seg) (k : Nat) : Nat :=
  if k = 0 then g.beta macf 0 else if g.cons then g.beta macf k else g.beta macf (k - 1)

/-- the packet arrives at travel position `k` over the interface the hop field names (or starts there) -/
def Arr (g : Seg) (k curIf : Nat) (e : Entry) : Prop :=
  (k = 0 → curIf = 0) ∧ (0 < k → curIf = tIn g.cons e ∧ (g.cons = false → curIf ≠ 0))

theorem Arr.hc {g : Seg} {k curIf : Nat} {e : Entry} (h : Arr g k curIf e) : curIf = 0 ∨ curIf = tIn g.cons e := by
  cases k with
  | zero => exact Or.inl (h.1 rfl)
  | succ k => exact Or.inr (h.2 (by omega)).1

theorem Arr.hsid (macf : MacF) {g : Seg} {k curIf : Nat} {e : Entry} (h : Arr g k curIf e)
    (hk : k < g.es.length) (he : g.entry k = some e) :
    (if (!(curIf == 0) && !g.cons) = true then betaStep (g.arrSid macf k) (hopOf macf g.ts (g.beta macf k) e).mac
      else g.arrSid macf k) = g.beta macf k := by
  cases k with
  | zero => simp [h.1 rfl, Seg.arrSid]
  | succ k =>
    obtain ⟨h1, h2⟩ := h.2 (by omega)
    cases hc : g.cons
    · have hne : (curIf == 0) = false := by simpa using h2 hc
      simp only [hne, hc, Bool.not_false, Bool.and_self, ↓reduceIte, Seg.arrSid, Nat.add_eq_zero_iff, Nat.succ_ne_self,
        and_false, Bool.false_eq_true, Nat.add_sub_cancel]
      exact Seg.beta_rev_succ macf g k e hc hk he
    · simp [hc, Seg.arrSid]


/-! ### a whole packet: fixed frame (segment lengths, hop fields) + evolving info fields and pointers -/

structure Frame where
  L0 : Nat
  L1 : Nat
  L2 : Nat
  H : List Hop

def Frame.pkt (F : Frame) (I : List Info) (s h : Nat) : Path := ⟨s, h, F.L0, F.L1, F.L2, I, F.H⟩

/-- segment `g` is segment number `s` of the frame and occupies its hop fields `o .. o+n` -/
structure Occupies (macf : MacF) (F : Frame) (g : Seg) (s o : Nat) : Prop where
  segidx : ∀ k, k < g.es.length → (F.pkt [] 0 0).segIndex (o + k) = some (s, k == 0, k + 1 == g.es.length)
  hops : ∀ k e, k < g.es.length → g.entry k = some e → F.H[o + k]? = some (hopOf macf g.ts (g.beta macf k) e)
  fits : o + g.es.length ≤ F.L0 + F.L1 + F.L2
  len2 : 2 ≤ g.es.length

/-- the topology contains the ASes of the segment and the links between consecutive ones (travel order) -/
structure TravelOK (t : Topo) (g : Seg) : Prop where
  asOk : ∀ (k : Nat) (e : Entry), g.entry k = some e → ∃ a, t.asInfo e.ia = some a ∧ a.key = e.key ∧ a.external = false
  link : ∀ (k : Nat) (e e' : Entry), k + 1 < g.es.length → g.entry k = some e → g.entry (k + 1) = some e' →
    ∃ l, t.link e.ia (tEg g.cons e) = some l ∧ l.peerAs = e'.ia ∧ l.peerIf = tIn g.cons e' ∧ l.up = true ∧
      (g.cons = false → tIn g.cons e' ≠ 0)

theorem Seg.entry_some (g : Seg) (k : Nat) (hk : k < g.es.length) : ∃ e, g.entry k = some e := by
  unfold Seg.entry Seg.idx
  split
  · exact ⟨g.es[k], List.getElem?_eq_getElem hk⟩
  · exact ⟨g.es[g.es.length - 1 - k]'(by omega), List.getElem?_eq_getElem (by omega)⟩

/-- **travel inside one segment**: from travel position `k` the walk reaches the last hop field of the segment
    after `r = n-1-k` AS steps, with the SegID bookkeeping intact -/
theorem seg_travel (macf : MacF) (t : Topo) (now dst : Nat) (F : Frame) (g : Seg) (s o : Nat)
    (hmaxF : F.L0 + F.L1 + F.L2 ≤ MAX_TOTAL_HOPS + 1) (hocc : Occupies macf F g s o) (htr : TravelOK t g) (htm : g.Timely macf now) :
    ∀ (r k : Nat) (e : Entry) (I : List Info) (curIf steps fuel : Nat),
      k + r + 1 = g.es.length → g.entry k = some e → Arr g k curIf e →
      I[s]? = some (g.info (g.arrSid macf k)) →
      ∃ e' I' curIf', g.entry (g.es.length - 1) = some e' ∧ Arr g (g.es.length - 1) curIf' e' ∧
        I'[s]? = some (g.info (g.arrSid macf (g.es.length - 1))) ∧ (∀ j, j ≠ s → I'[j]? = I[j]?) ∧
        I'.length = I.length ∧
        walk macf t dst now false (fuel + r) e.ia curIf (F.pkt I s (o + k)) steps =
          walk macf t dst now false fuel e'.ia curIf' (F.pkt I' s (o + (g.es.length - 1))) (steps + r) := by
  intro r
  induction r with
  | zero =>
    intro k e I curIf steps fuel hk he harr hI
    have hkn : k = g.es.length - 1 := by omega
    subst hkn
    exact ⟨e, I, curIf, he, harr, hI, fun _ _ => rfl, rfl, rfl⟩
  | succ r ih =>
    intro k e I curIf steps fuel hk he harr hI
    have hkl : k < g.es.length := by omega
    have hk1 : k + 1 < g.es.length := by omega
    obtain ⟨e1, he1⟩ := g.entry_some (k + 1) hk1
    obtain ⟨a, ha, hkey, _⟩ := htr.asOk k e he
    obtain ⟨l, hl, hpa, hpi, hup, hnz⟩ := htr.link k e e1 hk1 he he1
    obtain ⟨b1, hb1, _, hb1e⟩ := htr.asOk (k + 1) e1 he1
    obtain ⟨hts, hexp⟩ := g.timely_at macf now k e htm he
    have hseg := hocc.segidx k hkl
    have hend : (k + 1 == g.es.length) = false := by simp; omega
    rw [hend] at hseg
    have hlook : t.lookup e.ia (tEg g.cons e) = some ⟨roleToLinkType l.role, l.up⟩ := by simp [Topo.lookup, hl]
    have hroute := g_route_mid macf (F.pkt I s (o + k)) s (k == 0) e (g.beta macf k) (g.arrSid macf k) g.ts g.cons
      dst curIf now (t.lookup e.ia) _ rfl hseg
      (by have := hocc.fits; simp [Frame.pkt, Path.hopCount]; omega)
      (by simpa [Frame.pkt, Path.hopCount] using hmaxF)
      (hocc.hops k e hkl he) hI (harr.hsid macf hkl he) harr.hc hts hexp hlook hup
    have hsidnext : (if g.cons = true then betaStep (g.beta macf k) (hopOf macf g.ts (g.beta macf k) e).mac else g.beta macf k) =
        g.arrSid macf (k + 1) := by
      cases hc : g.cons
      · simp [Seg.arrSid, hc]
      · simp [Seg.arrSid, hc, Seg.beta_cons_succ macf g k e hc he]
    have harr1 : Arr g (k + 1) l.peerIf e1 := by
      refine ⟨by omega, fun _ => ⟨hpi, ?_⟩⟩
      intro hc; rw [hpi]; exact hnz hc
    have hI1 : (setAt I s (g.info (g.arrSid macf (k + 1))))[s]? = some (g.info (g.arrSid macf (k + 1))) :=
      setAt_get_self _ _ _ _ hI
    obtain ⟨e', I', curIf', h1, h2, h3, h4, hlen, h5⟩ :=
      ih (k + 1) e1 (setAt I s (g.info (g.arrSid macf (k + 1)))) l.peerIf (steps + 1) fuel (by omega) he1 harr1 hI1
    refine ⟨e', I', curIf', h1, h2, h3, ?_, ?_, ?_⟩
    · intro j hj; rw [h4 j hj, setAt_get_ne _ _ _ _ (Ne.symm hj)]
    · rw [hlen]; simp [setAt]
    · have hfuel : fuel + (r + 1) = (fuel + r) + 1 := by omega
      rw [hfuel]
      conv => lhs; unfold walk
      simp only [ha]
      rw [hkey, hroute]
      simp only [hl, hpa, hb1, hb1e, Bool.false_eq_true, ↓reduceIte]
      simp only [Frame.pkt] at h5 ⊢
      rw [hsidnext]
      have h6 : o + k + 1 = o + (k + 1) := by omega
      have h7 : steps + 1 + r = steps + (r + 1) := by omega
      rw [h6]
      simp only [Seg.info] at h5 ⊢
      rw [h5, h7]


/-- **end of the last segment**: the packet is delivered in the AS of the last hop field -/
theorem seg_deliver (macf : MacF) (t : Topo) (now : Nat) (F : Frame) (g : Seg) (s o : Nat)
    (hocc : Occupies macf F g s o) (htr : TravelOK t g) (htm : g.Timely macf now)
    (hlast : o + g.es.length = F.L0 + F.L1 + F.L2)
    (e : Entry) (I : List Info) (curIf steps fuel : Nat)
    (he : g.entry (g.es.length - 1) = some e) (harr : Arr g (g.es.length - 1) curIf e)
    (hI : I[s]? = some (g.info (g.arrSid macf (g.es.length - 1)))) :
    walk macf t e.ia now false (fuel + 1) e.ia curIf (F.pkt I s (o + (g.es.length - 1))) steps =
      some (.delivered e.ia, F.pkt (setAt I s (g.info (g.beta macf (g.es.length - 1)))) s (o + (g.es.length - 1)),
            steps + 1) := by
  have hn := hocc.len2
  have hkl : g.es.length - 1 < g.es.length := by omega
  obtain ⟨a, ha, hkey, _⟩ := htr.asOk _ e he
  obtain ⟨hts, hexp⟩ := g.timely_at macf now _ e htm he
  have hseg := hocc.segidx _ hkl
  have h0 : (g.es.length - 1 == 0) = false := by simp; omega
  have h1 : (g.es.length - 1 + 1 == g.es.length) = true := by simp; omega
  rw [h0, h1] at hseg
  have hroute := g_route_last macf (F.pkt I s (o + (g.es.length - 1))) s false e (g.beta macf _) (g.arrSid macf _) g.ts g.cons
    curIf now (t.lookup e.ia) rfl hseg rfl (by simp [Frame.pkt, Path.hopCount]; omega)
    (hocc.hops _ e hkl he) hI (harr.hsid macf hkl he) harr.hc hts hexp
  unfold walk
  simp only [ha]
  rw [hkey, hroute]
  rfl

/-- **crossover into the next segment**: the AS that owns the last hop field of segment `s` and the first hop
    field of segment `s+1` validates both and the segment change, and forwards the packet over the egress
    interface of the second hop field; the neighbour receives it at travel position 1 of segment `s+1` -/
theorem seg_cross (macf : MacF) (t : Topo) (now dst : Nat) (F : Frame) (g g' : Seg) (s o : Nat)
    (hmaxF : F.L0 + F.L1 + F.L2 ≤ MAX_TOTAL_HOPS + 1) (hocc : Occupies macf F g s o) (hocc' : Occupies macf F g' (s + 1) (o + g.es.length))
    (htr : TravelOK t g) (htr' : TravelOK t g') (htm : g.Timely macf now) (htm' : g'.Timely macf now)
    (e e0 : Entry) (I : List Info) (curIf steps fuel : Nat) (la lb : IfState)
    (he : g.entry (g.es.length - 1) = some e) (he0 : g'.entry 0 = some e0)
    (hia : e0.ia = e.ia) (hkeys : e.key = e0.key)
    (hla : t.lookup e.ia (tIn g.cons e) = some la) (hlb : t.lookup e.ia (tEg g'.cons e0) = some lb)
    (hok : segChangeValid la.linkType lb.linkType = true)
    (harr : Arr g (g.es.length - 1) curIf e)
    (hI : I[s]? = some (g.info (g.arrSid macf (g.es.length - 1))))
    (hI' : I[s + 1]? = some (g'.info (g'.beta macf 0))) :
    ∃ e1 I' curIf', g'.entry 1 = some e1 ∧ Arr g' 1 curIf' e1 ∧ I'[s + 1]? = some (g'.info (g'.arrSid macf 1)) ∧
      (∀ j, j ≠ s → j ≠ s + 1 → I'[j]? = I[j]?) ∧
      I'[s]? = some (g.info (g.beta macf (g.es.length - 1))) ∧ I'.length = I.length ∧
      walk macf t dst now false (fuel + 1) e.ia curIf (F.pkt I s (o + (g.es.length - 1))) steps =
        walk macf t dst now false fuel e1.ia curIf' (F.pkt I' (s + 1) (o + g.es.length + 1)) (steps + 1) := by
  have hn := hocc.len2
  have hn' := hocc'.len2
  have hkl : g.es.length - 1 < g.es.length := by omega
  obtain ⟨e1, he1⟩ := g'.entry_some 1 (by omega)
  obtain ⟨a, ha, hkey, _⟩ := htr.asOk _ e he
  obtain ⟨l, hl, hpa, hpi, hup, hnz⟩ := htr'.link 0 e0 e1 (by omega) he0 he1
  obtain ⟨b1, hb1, _, hb1e⟩ := htr'.asOk 1 e1 he1
  obtain ⟨hts, hexp⟩ := g.timely_at macf now _ e htm he
  obtain ⟨hts', hexp'⟩ := g'.timely_at macf now 0 e0 htm' he0
  have hseg := hocc.segidx _ hkl
  have h0 : (g.es.length - 1 == 0) = false := by simp; omega
  have h1 : (g.es.length - 1 + 1 == g.es.length) = true := by simp; omega
  rw [h0, h1] at hseg
  have hseg' := hocc'.segidx 0 (by omega)
  have h2 : ((0 : Nat) + 1 == g'.es.length) = false := by simp; omega
  have h3 : o + (g.es.length - 1) + 1 = o + g.es.length + 0 := by omega
  rw [h2] at hseg'
  -- the egress link of the second hop field is up (it is the first link of segment s+1)
  rw [hia] at hl
  have hlb' : lb.up = true := by
    simp only [Topo.lookup, hl, Option.map_some, Option.some.injEq] at hlb
    rw [← hlb]; exact hup
  have hroute := g_route_cross macf (F.pkt I s (o + (g.es.length - 1))) s false (0 == 0) e e0
    (g.beta macf _) (g.arrSid macf _) g.ts (g'.beta macf 0) g'.ts g.cons g'.cons dst curIf now (t.lookup e.ia) la lb
    rfl hseg rfl (by show (F.pkt [] 0 0).segIndex (o + (g.es.length - 1) + 1) = _; rw [h3]; exact hseg')
    (by have := hocc'.fits; simp [Frame.pkt, Path.hopCount]; omega)
    (by simpa [Frame.pkt, Path.hopCount] using hmaxF)
    (hocc.hops _ e hkl he) hI
    (by show F.H[o + (g.es.length - 1) + 1]? = _; rw [h3]; exact hocc'.hops 0 e0 (by omega) he0) hI'
    (harr.hsid macf hkl he) hkeys harr.hc hts hts' hexp hexp' hla hlb hok hlb'
  have hsidnext : (if g'.cons = true then betaStep (g'.beta macf 0) (hopOf macf g'.ts (g'.beta macf 0) e0).mac else g'.beta macf 0) =
      g'.arrSid macf 1 := by
    cases hc : g'.cons
    · simp [Seg.arrSid, hc]
    · simp [Seg.arrSid, hc, Seg.beta_cons_succ macf g' 0 e0 hc he0]
  have hI1 : (setAt I s (g.info (g.beta macf (g.es.length - 1))))[s + 1]? = some (g'.info (g'.beta macf 0)) := by
    rw [setAt_get_ne _ _ _ _ (by omega)]; exact hI'
  refine ⟨e1, setAt (setAt I s (g.info (g.beta macf (g.es.length - 1)))) (s + 1) (g'.info (g'.arrSid macf 1)),
    l.peerIf, he1, ⟨by omega, fun _ => ⟨hpi, fun hc => by rw [hpi]; exact hnz hc⟩⟩, setAt_get_self _ _ _ _ hI1, ?_, ?_, ?_, ?_⟩
  · intro j hj hj'
    rw [setAt_get_ne _ _ _ _ (Ne.symm hj'), setAt_get_ne _ _ _ _ (Ne.symm hj)]
  · rw [setAt_get_ne _ _ _ _ (by omega)]; exact setAt_get_self _ _ _ _ hI
  · simp [setAt]
  · conv => lhs; unfold walk
    simp only [ha]
    rw [hkey, hroute]
    simp only [hl, hpa, hb1, hb1e, Bool.false_eq_true, ↓reduceIte]
    simp only [Frame.pkt, Seg.info]
    rw [hsidnext]
    have h6 : o + (g.es.length - 1) + 2 = o + g.es.length + 1 := by omega
    rw [h6]


/-! ### packets of one, two and three segments -/

/-- the AS where segment `g` ends and `g'` starts owns both hop fields and the pair of links is a legal
    segment change for it -/
def Junction (t : Topo) (g g' : Seg) : Prop :=
  ∃ e e0 la lb, g.entry (g.es.length - 1) = some e ∧ g'.entry 0 = some e0 ∧ e0.ia = e.ia ∧ e.key = e0.key ∧
    t.lookup e.ia (tIn g.cons e) = some la ∧ t.lookup e.ia (tEg g'.cons e0) = some lb ∧
    segChangeValid la.linkType lb.linkType = true

def frame3 (macf : MacF) (a b c : Seg) : Frame :=
  ⟨a.es.length, b.es.length, c.es.length, a.hops macf ++ (b.hops macf ++ c.hops macf)⟩
def infos3 (macf : MacF) (a b c : Seg) : List Info :=
  [a.info (a.beta macf 0), b.info (b.beta macf 0), c.info (c.beta macf 0)]

theorem beq_add_left (x k : Nat) : (x + k == x) = (k == 0) := by
  rw [Bool.eq_iff_iff]; simp
theorem beq_add_succ (x k n : Nat) : (x + k + 1 == x + n) = (k + 1 == n) := by
  rw [Bool.eq_iff_iff]; simp; omega

theorem occ3_a (macf : MacF) (a b c : Seg) (ha : 2 ≤ a.es.length) : Occupies macf (frame3 macf a b c) a 0 0 := by
  refine ⟨?_, ?_, by simp only [frame3]; omega, ha⟩
  · intro k hk
    simp [Frame.pkt, frame3, Path.segIndex, hk]
  · intro k e hk he
    simp only [frame3, Nat.zero_add]
    rw [List.getElem?_append_left (by rw [Seg.hops_length]; exact hk)]
    exact Seg.hops_get macf a k e hk he

theorem occ3_b (macf : MacF) (a b c : Seg) (hb : 2 ≤ b.es.length) :
    Occupies macf (frame3 macf a b c) b (0 + 1) (0 + a.es.length) := by
  refine ⟨?_, ?_, by simp only [frame3]; omega, hb⟩
  · intro k hk
    have h1 : ¬ (a.es.length + k < a.es.length) := by omega
    have h2 : a.es.length + k < a.es.length + b.es.length := by omega
    simp only [Frame.pkt, frame3, Path.segIndex, Nat.zero_add, h1, h2, ↓reduceIte, beq_add_left, beq_add_succ]
  · intro k e hk he
    simp only [frame3, Nat.zero_add]
    rw [List.getElem?_append_right (by rw [Seg.hops_length]; omega), Seg.hops_length,
      List.getElem?_append_left (by rw [Seg.hops_length]; omega)]
    have : a.es.length + k - a.es.length = k := by omega
    rw [this]; exact Seg.hops_get macf b k e hk he

theorem occ3_c (macf : MacF) (a b c : Seg) (hc : 2 ≤ c.es.length) :
    Occupies macf (frame3 macf a b c) c (0 + 1 + 1) (0 + a.es.length + b.es.length) := by
  refine ⟨?_, ?_, by simp only [frame3]; omega, hc⟩
  · intro k hk
    have h1 : ¬ (a.es.length + b.es.length + k < a.es.length) := by omega
    have h2 : ¬ (a.es.length + b.es.length + k < a.es.length + b.es.length) := by omega
    have h3 : a.es.length + b.es.length + k < a.es.length + b.es.length + c.es.length := by omega
    simp only [Frame.pkt, frame3, Path.segIndex, Nat.zero_add, h1, h2, h3, ↓reduceIte, beq_add_left, beq_add_succ]
  · intro k e hk he
    simp only [frame3, Nat.zero_add]
    rw [List.getElem?_append_right (by rw [Seg.hops_length]; omega), Seg.hops_length,
      List.getElem?_append_right (by rw [Seg.hops_length]; omega), Seg.hops_length]
    have : a.es.length + b.es.length + k - a.es.length - b.es.length = k := by omega
    rw [this]; exact Seg.hops_get macf c k e hk he


def frame2 (macf : MacF) (a b : Seg) : Frame := ⟨a.es.length, b.es.length, 0, a.hops macf ++ b.hops macf⟩
def infos2 (macf : MacF) (a b : Seg) : List Info := [a.info (a.beta macf 0), b.info (b.beta macf 0)]

theorem occ2_a (macf : MacF) (a b : Seg) (ha : 2 ≤ a.es.length) : Occupies macf (frame2 macf a b) a 0 0 := by
  refine ⟨?_, ?_, by simp only [frame2]; omega, ha⟩
  · intro k hk
    simp [Frame.pkt, frame2, Path.segIndex, hk]
  · intro k e hk he
    simp only [frame2, Nat.zero_add]
    rw [List.getElem?_append_left (by rw [Seg.hops_length]; exact hk)]
    exact Seg.hops_get macf a k e hk he

theorem occ2_b (macf : MacF) (a b : Seg) (hb : 2 ≤ b.es.length) :
    Occupies macf (frame2 macf a b) b (0 + 1) (0 + a.es.length) := by
  refine ⟨?_, ?_, by simp only [frame2]; omega, hb⟩
  · intro k hk
    have h1 : ¬ (a.es.length + k < a.es.length) := by omega
    have h2 : a.es.length + k < a.es.length + b.es.length := by omega
    simp only [Frame.pkt, frame2, Path.segIndex, Nat.zero_add, h1, h2, ↓reduceIte, beq_add_left, beq_add_succ]
  · intro k e hk he
    simp only [frame2, Nat.zero_add]
    rw [List.getElem?_append_right (by rw [Seg.hops_length]; omega), Seg.hops_length]
    have : a.es.length + k - a.es.length = k := by omega
    rw [this]; exact Seg.hops_get macf b k e hk he

/-- the travel-order facts follow from the construction-order facts of beaconing, in either direction -/
theorem travelOK_of_chain (t : Topo) (g : Seg) (h : ChainOK t g.es) : TravelOK t g := by
  refine ⟨?_, ?_⟩
  · intro k e he
    exact h.asOk _ e he
  · intro k e e' hk he he'
    unfold Seg.entry Seg.idx at he he'
    cases hc : g.cons
    · simp only [hc, Bool.false_eq_true, ↓reduceIte] at he he'
      have hidx : g.es.length - 1 - k = (g.es.length - 1 - (k + 1)) + 1 := by omega
      rw [hidx] at he
      obtain ⟨l, h1, h2, h3, h4, h5⟩ := h.linkBwd _ e' e he' he
      exact ⟨l, by simpa [tEg] using h1, h2, by simpa [tIn] using h3, h4, fun _ => by simpa [tIn] using h5⟩
    · simp only [hc, ↓reduceIte] at he he'
      obtain ⟨l, h1, h2, h3, h4⟩ := h.linkFwd _ e e' he he'
      exact ⟨l, by simpa [tEg] using h1, h2, by simpa [tIn] using h3, h4, fun hf => by simp at hf⟩


end ScionVerif.Router
