import ScionVerif.Model.Token
/-!
Specification vocabulary and helper lemmas for the SNAP token verifier model (C10).
Property theorems live in `Theorems/C10.lean`.

Part A writes the property text out as predicates over a `ParsedToken` – *without* reference to the
functions of the model (`verify`, `validate`, `anyClaims`, …).  Part B relates each stage of the model to
its predicate.
-/
namespace ScionVerif.Token
open ScionVerif.Generated.Token

/-! ## Part A – the property text, written out -/

/-- "the configured (or JWKS-resolved) key": a token that names a `kid` is checked against the JWKS
entry of that name when a JWKS store is configured; every other token against the static key. -/
def trustedKey (keys : Keys) (kid : Option String) : Option KeyId :=
  match kid, keys.jwks with
  | some k, some store => store.lookup k
  | _, _ => some keys.static

/-- the claim is present and has the type its claims struct declares -/
def WellTyped : FieldTy → Option JVal → Prop
  | .u64, v => ∃ n, v = some (.num (.u64 n))
  | .str, v => ∃ s, v = some (.str s)
  | .pssidV0, v => ∃ s, v = some (.str s) ∧ uuidOk s = true
  | .pssidV1, v => ∃ s, v = some (.str s) ∧ pssidV1Ok s = true

/-- "carries every claim its claims version requires" -/
def CarriesAll (fs : List (String × FieldTy)) (cs : List (String × JVal)) : Prop :=
  ∀ f ∈ fs, WellTyped f.2 (lookup cs f.1)

/-- "… in a supported version": no `ver` claim (legacy v0) or `ver = 1` -/
def SupportedVersion (cs : List (String × JVal)) : Prop :=
  (lookup cs "ver" = none ∧ CarriesAll v0Fields cs) ∨
  (lookup cs "ver" = some (.num (.u64 v1Tag)) ∧ CarriesAll v1Fields cs)

/-- how the verifier reads a time claim: an integer, or a float rounded to the nearest second -/
def timeValue : JVal → Option Nat
  | .num (.u64 n) => some n
  | .num (.float (some r)) => some r
  | _ => none

/-- "names the SNAP audience whenever it names an audience" (an audience is named by a string or by an
array of strings, RFC 7519 §4.1.3) -/
def AudienceOk (cs : List (String × JVal)) : Prop :=
  match lookup cs "aud" with
  | some (.str s) => s = "snap"
  | some (.strs l) => "snap" ∈ l
  | _ => True

/-- "not before its not-before time when it has one … up to the leeway" -/
def NotBeforeOk (leeway : Nat) (cs : List (String × JVal)) (now : Nat) : Prop :=
  ∀ v, lookup cs "nbf" = some v → ∃ n, timeValue v = some n ∧ n ≤ now + leeway

/-- "not after its expiry … up to the leeway" (`now − leeway ≤ exp`) -/
def NotExpired (leeway : Nat) (cs : List (String × JVal)) (now : Nat) : Prop :=
  ∃ n, lookup cs "exp" = some (.num (.u64 n)) ∧ now ≤ n + leeway

/-- the claims set is one jsonwebtoken's claims reader can read: no registered claim name is repeated,
and `sub` (unused by the verifier) is not an array or object -/
def ReadableClaims (cs : List (String × JVal)) : Prop :=
  (∀ k ∈ registered, count cs k ≤ 1) ∧ subShapeOk (lookup cs "sub") = true

/-- **The property's acceptance condition.** -/
structure Spec (leeway : Nat) (keys : Keys) (t : ParsedToken) (now : Nat) : Prop where
  /-- a JWT signed with EdDSA … -/
  eddsa : t.alg = "EdDSA"
  /-- … by the configured (or JWKS-resolved) key -/
  signed : ∃ k, trustedKey keys t.kid = some k ∧ keys.edKey k = true ∧ t.sigB64 = true ∧ t.sigOkUnder k = true
  /-- claims: version, required claims, audience, validity window -/
  claims : ∃ cs, t.payload = .obj cs ∧ ReadableClaims cs ∧ SupportedVersion cs ∧ AudienceOk cs ∧
    NotBeforeOk leeway cs now ∧ NotExpired leeway cs now

/-- What must be true of the verifier configuration for the property to be about it: EdDSA only,
`exp`, `nbf` and `aud` checked, audience `snap`, nothing else demanded. -/
structure SnapProfile (cfg : Validation) : Prop where
  algs : cfg.algorithms = ["EdDSA"]
  vexp : cfg.validateExp = true
  vnbf : cfg.validateNbf = true
  vaud : cfg.validateAud = true
  aud : cfg.aud = some ["snap"]
  iss : cfg.iss = none
  sub : cfg.sub = none
  rej : cfg.rejectExpiringIn = 0
  req : ∀ c ∈ cfg.requiredSpecClaims, c = "exp" ∨ (c ≠ "sub" ∧ c ≠ "iss" ∧ c ≠ "aud" ∧ c ≠ "nbf")

/-! ## Part B – stage lemmas -/

theorem selectKey_ok (keys : Keys) (kid : Option String) (k : KeyId) :
    selectKey keys kid = .ok k ↔ trustedKey keys kid = some k := by
  unfold selectKey trustedKey
  cases kid with
  | none => simp
  | some kd =>
    cases keys.jwks with
    | none => simp
    | some store =>
      simp only
      cases List.lookup kd store <;> simp

theorem selectKey_err (keys : Keys) (kid : Option String) (e : Err) :
    selectKey keys kid = .error e → e = .unknownKid ∧ trustedKey keys kid = none := by
  unfold selectKey trustedKey
  cases kid with
  | none => simp
  | some kd =>
    cases keys.jwks with
    | none => simp
    | some store =>
      simp only
      cases List.lookup kd store <;> simp
      exact fun h => h.symm

theorem checkSignature_ok (cfg : Validation) (keys : Keys) (t : ParsedToken) (k : KeyId)
    (h : cfg.algorithms = ["EdDSA"]) :
    checkSignature cfg keys t k = .ok () ↔
      t.alg = "EdDSA" ∧ keys.edKey k = true ∧ t.sigB64 = true ∧ t.sigOkUnder k = true := by
  unfold checkSignature
  rw [h]
  by_cases ha : t.alg = "EdDSA"
  · simp [ha, family]
    cases keys.edKey k <;> cases t.sigB64 <;> cases t.sigOkUnder k <;> simp
  · have hb : (t.alg == "EdDSA") = false := by simp [ha]
    simp [List.contains, List.elem, hb, ha]

theorem fieldOk_iff (ty : FieldTy) (v : Option JVal) : fieldOk ty v = true ↔ WellTyped ty v := by
  cases ty <;> unfold fieldOk WellTyped <;> split <;> simp_all

theorem fieldsOk_iff (fs : List (String × FieldTy)) (cs : List (String × JVal)) :
    fieldsOk fs cs = true ↔ CarriesAll fs cs := by
  unfold fieldsOk CarriesAll
  simp [List.all_eq_true, fieldOk_iff]

theorem anyClaims_ok (cs : List (String × JVal)) :
    (∃ c, anyClaims cs = .ok c) ↔ SupportedVersion cs := by
  unfold anyClaims SupportedVersion
  cases hv : lookup cs "ver" with
  | none =>
    simp [← fieldsOk_iff]
    cases fieldsOk v0Fields cs <;> simp
  | some v =>
    cases v with
    | num m =>
      cases m with
      | u64 n =>
        by_cases hn : n = v1Tag
        · simp [hn, ← fieldsOk_iff]
          cases fieldsOk v1Fields cs <;> simp
        · simp [hn]
      | neg => simp
      | float r => simp
    | null => simp
    | bool b => simp
    | str s => simp
    | strs l => simp
    | arr => simp
    | obj e => simp

theorem anyClaims_exp (cs : List (String × JVal)) (c : Claims) (h : anyClaims cs = .ok c) :
    c.exp = expOf cs := by
  unfold anyClaims at h
  split at h
  · split at h <;> simp_all; rw [← h]
  · split at h
    · split at h <;> simp_all; rw [← h]
    · simp at h
  · simp at h

theorem supported_exp (cs : List (String × JVal)) (h : SupportedVersion cs) :
    ∃ n, lookup cs "exp" = some (.num (.u64 n)) := by
  rcases h with ⟨_, h⟩ | ⟨_, h⟩
  · exact h ("exp", FieldTy.u64) (by simp [v0Fields])
  · exact h ("exp", FieldTy.u64) (by simp [v1Fields])

theorem required_present (cfg : Validation) (cs : List (String × JVal)) (h : SnapProfile cfg)
    (hexp : ∃ n, lookup cs "exp" = some (.num (.u64 n))) :
    cfg.requiredSpecClaims.all (specClaimPresent cs) = true := by
  rw [List.all_eq_true]
  intro c hc
  obtain ⟨n, hn⟩ := hexp
  rcases h.req c hc with rfl | ⟨h1, h2, h3, h4⟩
  · simp [specClaimPresent, hn, numericClaim, TryParse.isParsed]
  · unfold specClaimPresent
    by_cases he : c = "exp"
    · subst he; simp [hn, numericClaim, TryParse.isParsed]
    · simp [he, h1, h2, h3, h4]

theorem window_aux (n k now l : Nat) (hl : l ≤ now) :
    ((if n < now - l then Except.error Err.expired
      else if now + l < k then Except.error Err.immature else Except.ok ()) = (Except.ok () : Except Err Unit))
      ↔ (k ≤ now + l ∧ now ≤ n + l) := by
  by_cases h1 : n < now - l <;> by_cases h2 : now + l < k <;> simp [h1, h2] <;> omega

theorem validateTime_ok (cfg : Validation) (cs : List (String × JVal)) (now n : Nat) (h : SnapProfile cfg)
    (hnow : cfg.leeway ≤ now) (hmax : now + cfg.leeway ≤ u64Max)
    (hexp : lookup cs "exp" = some (.num (.u64 n))) :
    validateTime cfg cs now = .ok () ↔ (NotBeforeOk cfg.leeway cs now ∧ now ≤ n + cfg.leeway) := by
  have hm : ¬ (u64Max < now + cfg.leeway) := by omega
  have hl : ¬ (now < cfg.leeway) := by omega
  unfold validateTime NotBeforeOk
  simp only [h.vexp, h.vnbf, h.rej, hexp, numericClaim]
  cases hv : lookup cs "nbf" with
  | none =>
    simp [hl]
  | some v =>
    cases v with
    | num m =>
      cases m with
      | u64 k => simp [timeValue, hl, hm]; exact window_aux n k now cfg.leeway hnow
      | neg => simp [timeValue]
      | float r =>
        cases r with
        | none => simp [timeValue]
        | some k => simp [timeValue, hl, hm]; exact window_aux n k now cfg.leeway hnow
    | null => simp [timeValue]
    | bool b => simp [timeValue]
    | str s => simp [timeValue]
    | strs l => simp [timeValue]
    | arr => simp [timeValue]
    | obj e => simp [timeValue]

theorem validateAud_ok (cfg : Validation) (cs : List (String × JVal)) (h : SnapProfile cfg) :
    validateAud cfg cs = .ok () ↔ AudienceOk cs := by
  unfold validateAud AudienceOk
  simp only [h.vaud, h.aud]
  cases hv : lookup cs "aud" with
  | none => simp [setClaim]
  | some v =>
    cases v with
    | str s =>
      simp [setClaim]
    | strs l =>
      simp [setClaim]
    | num m => simp [setClaim]
    | null => simp [setClaim]
    | bool b => simp [setClaim]
    | arr => simp [setClaim]
    | obj e => simp [setClaim]

theorem validate_ok (cfg : Validation) (cs : List (String × JVal)) (now : Nat) (h : SnapProfile cfg)
    (hnow : cfg.leeway ≤ now) (hmax : now + cfg.leeway ≤ u64Max) (hv : SupportedVersion cs) :
    validate cfg cs now = .ok () ↔
      (AudienceOk cs ∧ NotBeforeOk cfg.leeway cs now ∧ NotExpired cfg.leeway cs now) := by
  obtain ⟨n, hn⟩ := supported_exp cs hv
  have hreq := required_present cfg cs h ⟨n, hn⟩
  have ht := validateTime_ok cfg cs now n h hnow hmax hn
  have ha := validateAud_ok cfg cs h
  have hne : NotExpired cfg.leeway cs now ↔ now ≤ n + cfg.leeway := by
    unfold NotExpired
    constructor
    · rintro ⟨m, hm, hle⟩
      rw [hn] at hm
      cases hm
      exact hle
    · intro hle; exact ⟨n, hn, hle⟩
  unfold validate
  simp only [hreq, h.sub, h.iss]
  cases hvt : validateTime cfg cs now with
  | error e =>
    have : ¬ (NotBeforeOk cfg.leeway cs now ∧ now ≤ n + cfg.leeway) := by
      rw [← ht, hvt]; simp
    simp
    intro _ h1 h2
    exact this ⟨h1, hne.mp h2⟩
  | ok u =>
    have h2 := ht.mp (by rw [hvt])
    simp
    rw [ha, hne]
    constructor
    · intro h1; exact ⟨h1, h2.1, h2.2⟩
    · intro h1; exact h1.1

theorem dupRegistered_false (cs : List (String × JVal)) :
    dupRegistered cs = false ↔ ∀ k ∈ registered, count cs k ≤ 1 := by
  unfold dupRegistered
  rw [Bool.eq_false_iff]
  simp only [ne_eq, List.any_eq_true, decide_eq_true_eq, not_exists, not_and, Nat.not_lt]

theorem notBefore_shape (l : Nat) (cs : List (String × JVal)) (now : Nat) (h : NotBeforeOk l cs now) :
    numShapeOk (lookup cs "nbf") = true := by
  unfold NotBeforeOk at h
  cases hv : lookup cs "nbf" with
  | none => rfl
  | some v =>
    obtain ⟨n, hn, _⟩ := h v hv
    cases v with
    | num m => rfl
    | null => rfl
    | bool b => rfl
    | str s => rfl
    | strs l => simp [timeValue] at hn
    | arr => simp [timeValue] at hn
    | obj e => simp [timeValue] at hn

theorem cfvReadable_iff (l : Nat) (cs : List (String × JVal)) (now : Nat)
    (hexp : ∃ n, lookup cs "exp" = some (.num (.u64 n))) (hnbf : NotBeforeOk l cs now) :
    cfvReadable cs = true ↔ ReadableClaims cs := by
  obtain ⟨n, hn⟩ := hexp
  unfold cfvReadable ReadableClaims
  rw [notBefore_shape l cs now hnbf, hn]
  simp [numShapeOk, dupRegistered_false]

/-- the nested matches of `verify`, flattened -/
theorem verify_eq_ok (cfg : Validation) (keys : Keys) (t : ParsedToken) (now : Nat) (c : Claims) :
    verify cfg keys t now = .ok c ↔
      (knownAlgorithms.contains t.alg = true ∧
        ∃ key, selectKey keys t.kid = .ok key ∧ checkSignature cfg keys t key = .ok () ∧
          ∃ cs, t.payload = .obj cs ∧ anyClaims cs = .ok c ∧ cfvReadable cs = true ∧
            validate cfg cs now = .ok ()) := by
  unfold verify
  cases hk : knownAlgorithms.contains t.alg with
  | false => simp
  | true =>
    simp only [Bool.not_true, Bool.false_eq_true, if_false, true_and]
    cases hs : selectKey keys t.kid with
    | error e => simp
    | ok key =>
      simp only [Except.ok.injEq, exists_eq_left']
      cases hc : checkSignature cfg keys t key with
      | error e => simp
      | ok u =>
        simp only [true_and]
        cases hp : t.payload with
        | badB64 => simp
        | badJson => simp
        | nonObj => simp
        | obj cs =>
          simp only [Payload.obj.injEq, exists_eq_left']
          cases ha : anyClaims cs with
          | error e => simp
          | ok c' =>
            cases hr : cfvReadable cs with
            | false => simp
            | true =>
              cases hv : validate cfg cs now with
              | error e => simp
              | ok u => simp

/-! ### panic freedom -/

theorem validateTime_no_panic (cfg : Validation) (cs : List (String × JVal)) (now : Nat)
    (hl : cfg.leeway ≤ now) (hm : now + cfg.leeway ≤ u64Max) :
    validateTime cfg cs now ≠ .error .panic := by
  have hl' : ¬ now < cfg.leeway := by omega
  have hm' : ¬ u64Max < now + cfg.leeway := by omega
  unfold validateTime
  simp only [hl', hm', decide_false, Bool.and_false, Bool.false_eq_true, if_false]
  repeat' split
  all_goals simp

theorem validateAud_no_panic (cfg : Validation) (cs : List (String × JVal)) :
    validateAud cfg cs ≠ .error .panic := by
  unfold validateAud
  repeat' split
  all_goals simp

theorem ite_chain_no_panic (c1 c2 : Bool) (x : Except Err Unit) (hx : x ≠ .error .panic) :
    (if c1 = true then Except.error Err.invalidSubject
     else if c2 = true then Except.error Err.invalidIssuer else x) ≠ .error .panic := by
  cases c1 <;> cases c2 <;> simp [hx]

theorem validate_no_panic (cfg : Validation) (cs : List (String × JVal)) (now : Nat)
    (hl : cfg.leeway ≤ now) (hm : now + cfg.leeway ≤ u64Max) :
    validate cfg cs now ≠ .error .panic := by
  unfold validate
  split
  · simp
  · split
    · next e he =>
      intro h
      simp only [Except.error.injEq] at h
      subst h
      exact validateTime_no_panic cfg cs now hl hm he
    · exact ite_chain_no_panic _ _ _ (validateAud_no_panic cfg cs)

theorem checkSignature_no_panic (cfg : Validation) (keys : Keys) (t : ParsedToken) (k : KeyId) :
    checkSignature cfg keys t k ≠ .error .panic := by
  unfold checkSignature
  repeat' split
  all_goals simp

theorem anyClaims_no_panic (cs : List (String × JVal)) : anyClaims cs ≠ .error .panic := by
  unfold anyClaims
  repeat' split
  all_goals simp

theorem verify_no_panic_of (cfg : Validation) (keys : Keys) (t : ParsedToken) (now : Nat)
    (hl : cfg.leeway ≤ now) (hm : now + cfg.leeway ≤ u64Max) :
    verify cfg keys t now ≠ .error .panic := by
  unfold verify
  split
  · simp
  · split
    · next e he => have := (selectKey_err keys t.kid e he).1; subst this; simp
    · split
      · next e he =>
        intro h; simp only [Except.error.injEq] at h; subst h
        exact checkSignature_no_panic cfg keys t _ he
      · split
        · simp
        · simp
        · simp
        · split
          · next e he =>
            intro h; simp only [Except.error.injEq] at h; subst h
            exact anyClaims_no_panic _ he
          · split
            · simp
            · split
              · next e he =>
                intro h; simp only [Except.error.injEq] at h; subst h
                exact validate_no_panic cfg _ now hl hm he
              · simp

end ScionVerif.Token
