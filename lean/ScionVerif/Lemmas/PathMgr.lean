import ScionVerif.Model.PathSet
/-!
Helper lemmas for the path-manager model (C05/C06/C07): membership / length facts about ranking,
the retain loop and the merge, and the generic "every cached entry and the active slot satisfy `P`"
invariant over arbitrary operation histories.  Property theorems live in `Theorems/C0{5,6,7}.lean`.
-/
namespace ScionVerif.PathMgr
open ScionVerif.Generated.PathMgr

def AllP (P : Path → Prop) (l : List Path) : Prop := ∀ x ∈ l, P x
def OptP (P : Path → Prop) (o : Option Path) : Prop := ∀ x, o = some x → P x

/-- every cached entry and the active slot satisfy `P` -/
def Inv (P : Path → Prop) (s : St) : Prop := AllP P s.cached ∧ OptP P s.active

theorem AllP_nil (P : Path → Prop) : AllP P [] := by intro x h; cases h
theorem OptP_none (P : Path → Prop) : OptP P none := by intro x h; cases h
theorem OptP_some {P : Path → Prop} {a : Path} (h : P a) : OptP P (some a) := by
  intro x hx; cases hx; exact h
theorem AllP_cons {P : Path → Prop} {a : Path} {l : List Path} (ha : P a) (hl : AllP P l) :
    AllP P (a :: l) := by
  intro x hx
  cases hx with
  | head => exact ha
  | tail _ h => exact hl x h
theorem AllP_tail {P : Path → Prop} {a : Path} {l : List Path} (h : AllP P (a :: l)) : AllP P l :=
  fun x hx => h x (List.mem_cons_of_mem _ hx)
theorem AllP_head {P : Path → Prop} {a : Path} {l : List Path} (h : AllP P (a :: l)) : P a :=
  h a (List.mem_cons_self)
theorem AllP_append {P : Path → Prop} {l₁ l₂ : List Path} (h₁ : AllP P l₁) (h₂ : AllP P l₂) :
    AllP P (l₁ ++ l₂) := by
  intro x hx
  rcases List.mem_append.mp hx with h | h
  · exact h₁ x h
  · exact h₂ x h
theorem AllP_filter {P : Path → Prop} {l : List Path} (f : Path → Bool) (h : AllP P l) :
    AllP P (l.filter f) := fun x hx => h x (List.mem_filter.mp hx).1

/-! ## ranking -/

theorem mem_insertBy (lt : Path → Path → Bool) (x a : Path) (l : List Path) :
    a ∈ insertBy lt x l ↔ a = x ∨ a ∈ l := by
  induction l with
  | nil => simp [insertBy]
  | cons y ys ih =>
    unfold insertBy
    split
    · simp only [List.mem_cons, ih]
      constructor
      · rintro (h | h | h)
        · exact Or.inr (Or.inl h)
        · exact Or.inl h
        · exact Or.inr (Or.inr h)
      · rintro (h | h | h)
        · exact Or.inr (Or.inl h)
        · exact Or.inl h
        · exact Or.inr (Or.inr h)
    · simp only [List.mem_cons]

theorem mem_sortBy (lt : Path → Path → Bool) (a : Path) (l : List Path) :
    a ∈ sortBy lt l ↔ a ∈ l := by
  induction l with
  | nil => simp [sortBy]
  | cons y ys ih =>
    have : sortBy lt (y :: ys) = insertBy lt y (sortBy lt ys) := rfl
    rw [this, mem_insertBy, ih]
    simp only [List.mem_cons]

theorem length_insertBy (lt : Path → Path → Bool) (x : Path) (l : List Path) :
    (insertBy lt x l).length = l.length + 1 := by
  induction l with
  | nil => simp [insertBy]
  | cons y ys ih =>
    unfold insertBy
    split
    · simp [ih]
    · simp

theorem length_sortBy (lt : Path → Path → Bool) (l : List Path) : (sortBy lt l).length = l.length := by
  induction l with
  | nil => simp [sortBy]
  | cons y ys ih =>
    have : sortBy lt (y :: ys) = insertBy lt y (sortBy lt ys) := rfl
    rw [this, length_insertBy, ih]
    simp

theorem mem_rank (sc : Nat → Int) (a : Path) (l : List Path) : a ∈ rank sc l ↔ a ∈ l :=
  mem_sortBy _ a l
theorem length_rank (sc : Nat → Int) (l : List Path) : (rank sc l).length = l.length :=
  length_sortBy _ l
theorem mem_orderBy (ord : List Nat) (a : Path) (l : List Path) : a ∈ orderBy ord l ↔ a ∈ l :=
  mem_sortBy _ a l

theorem AllP_rank {P : Path → Prop} (sc : Nat → Int) {l : List Path} (h : AllP P l) :
    AllP P (rank sc l) := fun x hx => h x ((mem_rank sc x l).mp hx)
theorem AllP_orderBy {P : Path → Prop} (ord : List Nat) {l : List Path} (h : AllP P l) :
    AllP P (orderBy ord l) := fun x hx => h x ((mem_orderBy ord x l).mp hx)

/-! ## update_path_cache -/

theorem mem_dedupLast {a : Path} {l : List Path} (h : a ∈ dedupLast l) : a ∈ l := by
  induction l with
  | nil => simp [dedupLast] at h
  | cons p rest ih =>
    unfold dedupLast at h
    split at h
    · exact List.mem_cons_of_mem _ (ih h)
    · cases h with
      | head => exact List.mem_cons_self
      | tail _ h => exact List.mem_cons_of_mem _ (ih h)

theorem AllP_dedupLast {P : Path → Prop} {l : List Path} (h : AllP P l) : AllP P (dedupLast l) :=
  fun x hx => h x (mem_dedupLast hx)

theorem refreshed_P {P : Path → Prop} {fm : List Path} {c : Path} (hf : AllP P fm) (hc : P c) :
    P (refreshed fm c) := by
  unfold refreshed
  split
  · next m hm => exact hf m (List.mem_of_find?_eq_some hm)
  · exact hc

theorem retainActive_P {P : Path → Prop} (afp : Option Nat) (c c' : Path) (keep : Bool)
    (act : Option Path) (hc : P c') (ha : OptP P act) : OptP P (retainActive afp c c' keep act) := by
  unfold retainActive
  split
  · split
    · exact OptP_some hc
    · exact OptP_none P
  · exact ha

theorem retainLoop_P {P : Path → Prop} (now thr : Nat) (afp : Option Nat) :
    ∀ (cs fm : List Path) (act : Option Path), AllP P cs → AllP P fm → OptP P act →
      AllP P (retainLoop now thr afp cs fm act).1 ∧
      AllP P (retainLoop now thr afp cs fm act).2.1 ∧
      OptP P (retainLoop now thr afp cs fm act).2.2 := by
  intro cs
  induction cs with
  | nil => intro fm act _ hf ha; exact ⟨AllP_nil P, hf, ha⟩
  | cons c cs ih =>
    intro fm act hc hf ha
    have hc' : P (refreshed fm c) := refreshed_P hf (AllP_head hc)
    have := ih (fm.filter (·.fp != c.fp))
      (retainActive afp c (refreshed fm c) (checkExpiry (refreshed fm c) now thr != .expired) act)
      (AllP_tail hc) (AllP_filter _ hf) (retainActive_P afp c _ _ act hc' ha)
    unfold retainLoop
    refine ⟨?_, this.2.1, this.2.2⟩
    simp only
    split
    · exact AllP_cons hc' this.1
    · exact this.1

theorem length_retainLoop (now thr : Nat) (afp : Option Nat) :
    ∀ (cs fm : List Path) (act : Option Path),
      (retainLoop now thr afp cs fm act).1.length ≤ cs.length := by
  intro cs
  induction cs with
  | nil => intro fm act; simp [retainLoop]
  | cons c cs ih =>
    intro fm act
    unfold retainLoop
    simp only
    split
    · simp only [List.length_cons]; exact Nat.succ_le_succ (ih _ _)
    · exact Nat.le_succ_of_le (ih _ _)

theorem AllP_set {P : Path → Prop} {l : List Path} (i : Nat) {a : Path} (h : AllP P l) (ha : P a) :
    AllP P (l.set i a) := by
  intro x hx
  rcases List.mem_or_eq_of_mem_set hx with h' | h'
  · exact h x h'
  · exact h' ▸ ha

theorem AllP_swapFront {P : Path → Prop} {l : List Path} (idx : Nat) (h : AllP P l) :
    AllP P (swapFront l idx) := by
  unfold swapFront
  split
  · next a b ha hb =>
    exact AllP_set _ (AllP_set _ h (h b (List.mem_of_getElem? hb))) (h a (List.mem_of_getElem? ha))
  · exact h

theorem length_swapFront (l : List Path) (idx : Nat) : (swapFront l idx).length = l.length := by
  unfold swapFront
  split <;> simp

theorem mergeTake_P {P : Path → Prop} (sc : Nat → Int) :
    ∀ (b : Nat) (ex nw : List Path), AllP P ex → AllP P nw →
      AllP P (mergeTake sc b ex nw).1 ∧ AllP P (mergeTake sc b ex nw).2 := by
  intro b
  induction b with
  | zero => intro ex nw _ _; simp only [mergeTake]; exact ⟨AllP_nil P, AllP_nil P⟩
  | succ b ih =>
    intro ex nw he hn
    cases ex with
    | nil =>
      cases nw with
      | nil => simp only [mergeTake]; exact ⟨AllP_nil P, AllP_nil P⟩
      | cons n ns =>
        have := ih [] ns he (AllP_tail hn)
        simp only [mergeTake]
        exact ⟨this.1, AllP_cons (AllP_head hn) this.2⟩
    | cons e es =>
      cases nw with
      | nil =>
        have := ih es [] (AllP_tail he) hn
        simp only [mergeTake]
        exact ⟨AllP_cons (AllP_head he) this.1, this.2⟩
      | cons n ns =>
        simp only [mergeTake]
        split
        · have := ih es (n :: ns) (AllP_tail he) hn
          exact ⟨AllP_cons (AllP_head he) this.1, this.2⟩
        · have := ih (e :: es) ns he (AllP_tail hn)
          exact ⟨this.1, AllP_cons (AllP_head hn) this.2⟩

theorem length_mergeTake (sc : Nat → Int) :
    ∀ (b : Nat) (ex nw : List Path),
      (mergeTake sc b ex nw).1.length + (mergeTake sc b ex nw).2.length ≤ b := by
  intro b
  induction b with
  | zero => intro ex nw; simp [mergeTake]
  | succ b ih =>
    intro ex nw
    cases ex with
    | nil =>
      cases nw with
      | nil => simp [mergeTake]
      | cons n ns => have := ih [] ns; simp only [mergeTake, List.length_cons]; omega
    | cons e es =>
      cases nw with
      | nil => have := ih es []; simp only [mergeTake, List.length_cons]; omega
      | cons n ns =>
        simp only [mergeTake]
        split
        · have := ih es (n :: ns); simp only [List.length_cons]; omega
        · have := ih (e :: es) ns; simp only [List.length_cons]; omega

theorem mergeNew_P {P : Path → Prop} (sc : Nat → Int) (ex nw : List Path) (afp : Option Nat) (t : Nat)
    (he : AllP P ex) (hn : AllP P nw) : AllP P (mergeNew sc ex nw afp t).1 := by
  unfold mergeNew
  split
  · split
    · next idx _ =>
      have hs := AllP_swapFront (P := P) idx he
      split
      · next a rest hsw =>
        rw [hsw] at hs
        have := mergeTake_P (P := P) sc (t - 1) rest nw (AllP_tail hs) hn
        exact AllP_cons (AllP_head hs) (AllP_append this.1 this.2)
      · exact AllP_nil P
    · have := mergeTake_P (P := P) sc t ex nw he hn
      exact AllP_append this.1 this.2
  · have := mergeTake_P (P := P) sc t ex nw he hn
    exact AllP_append this.1 this.2

/-- the merge never keeps more than `max target 1` paths (1 because the active path is always kept) -/
theorem length_mergeNew (sc : Nat → Int) (ex nw : List Path) (afp : Option Nat) (t : Nat) :
    (mergeNew sc ex nw afp t).1.length ≤ max t 1 := by
  unfold mergeNew
  split
  · split
    · split
      · next a rest _ =>
        have := length_mergeTake sc (t - 1) rest nw
        simp only [List.length_cons, List.length_append]
        omega
      · simp
    · have := length_mergeTake sc t ex nw
      simp only [List.length_append]; omega
  · have := length_mergeTake sc t ex nw
    simp only [List.length_append]; omega

theorem updateCache_P {P : Path → Prop} (env : Env) (s : St) (fetched : List Path) (now : Nat)
    (sc1 : Nat → Int) (ord : List Nat) (hs : Inv P s) (hf : AllP P fetched) :
    Inv P (updateCache env s fetched now sc1 ord).1 := by
  have hr := retainLoop_P (P := P) now env.cfg.minExpiryThreshold (s.active.map (·.fp)) s.cached
    (dedupLast fetched) s.active hs.1 (AllP_dedupLast hf) hs.2
  unfold updateCache
  simp only
  split
  · exact ⟨hr.1, hr.2.2⟩
  · refine ⟨?_, hr.2.2⟩
    exact mergeNew_P sc1 _ _ _ _ hr.1 (AllP_rank _ (AllP_orderBy _ hr.2.1))

/-! ## active path decision -/

theorem bestPath_mem {cached : List Path} {now thr : Nat} {b : Path}
    (h : bestPath cached now thr = some b) : b ∈ cached := List.mem_of_find?_eq_some h

theorem decideActive_best_mem (env : Env) (s : St) (now : Nat) (sc : Nat → Int) {b : Path}
    (h : (decideActive env s now sc).2.1 = some b) : b ∈ s.cached := by
  unfold decideActive at h
  simp only at h
  split at h
  · split at h
    · split at h <;> exact bestPath_mem h
    · exact bestPath_mem h
  · exact bestPath_mem h

theorem applyDecision_P {P : Path → Prop} (s : St) (d : Decision) (best : Option Path)
    (hs : Inv P s) (hb : OptP P best) : Inv P (applyDecision s d best) := by
  unfold applyDecision
  simp only
  split
  · next b hb' =>
    split
    · exact hs
    · refine ⟨hs.1, OptP_some ?_⟩
      split at hb'
      · cases hb'
      · exact hb b hb'
  · split
    · exact ⟨hs.1, OptP_none P⟩
    · exact hs

theorem reevaluate_P {P : Path → Prop} (env : Env) (s : St) (now : Nat) (sc : Nat → Int)
    (hs : Inv P s) : Inv P (reevaluate env s now sc) := by
  unfold reevaluate
  simp only
  have hc : AllP P (rank sc s.cached) := AllP_rank sc hs.1
  apply applyDecision_P
  · exact ⟨hc, hs.2⟩
  · intro b hb
    exact hc b (decideActive_best_mem env _ now sc hb)

/-! ## fetch, maintain, issues, step -/

theorem fetchFiltered_ok {env : Env} {now : Nat} {resp : Resp} {f : List Path}
    (h : fetchFiltered env now resp = .ok f) :
    ∀ p ∈ f, p ∈ resp.paths ∧ env.allowed p = true ∧
      checkExpiry p now env.cfg.minExpiryThreshold ≠ .expired := by
  unfold fetchFiltered at h
  split at h
  · next ps =>
    simp only at h
    split at h
    · cases h
    · cases h
      intro p hp
      have h1 := List.mem_filter.mp hp
      have h2 := List.mem_filter.mp h1.1
      exact ⟨h2.1, h2.2, by simpa using h1.2⟩
  · cases h
  · cases h

theorem fetchAndUpdate_P {P : Path → Prop} (env : Env) (s : St) (now : Nat) (resp : Resp)
    (sc0 sc1 : Nat → Int) (ord : List Nat) (backoff : Nat) (hs : Inv P s)
    (hf : ∀ p ∈ resp.paths, env.allowed p = true → P p) :
    Inv P (fetchAndUpdate env s now resp sc0 sc1 ord backoff) := by
  unfold fetchAndUpdate
  simp only
  split
  · next f hok =>
    have hfP : AllP P f := fun p hp => hf p (fetchFiltered_ok hok p hp).1 (fetchFiltered_ok hok p hp).2.1
    have hu := updateCache_P (P := P) env { s with delivered := s.delivered ++ resp.paths } f now sc1 ord hs hfP
    split
    · exact hu
    · exact reevaluate_P env _ now _ hu
  · have hu := updateCache_P (P := P) env { s with delivered := s.delivered ++ resp.paths } [] now sc1 ord hs
      (AllP_nil P)
    exact reevaluate_P env _ now _ hu

theorem idleCheck_P {P : Path → Prop} (env : Env) (s : St) (now : Nat) (hs : Inv P s) :
    Inv P (idleCheck env s now).1 := by
  unfold idleCheck; split <;> exact hs

theorem refetchIfDue_P {P : Path → Prop} (env : Env) (s : St) (now : Nat) (resp : Resp)
    (sc0 sc1 : Nat → Int) (ord : List Nat) (backoff : Nat) (hs : Inv P s)
    (hf : ∀ p ∈ resp.paths, env.allowed p = true → P p) :
    Inv P (refetchIfDue env s now resp sc0 sc1 ord backoff) := by
  unfold refetchIfDue
  split
  · exact fetchAndUpdate_P env s now resp sc0 sc1 ord backoff hs hf
  · exact hs

theorem maintain_P {P : Path → Prop} (env : Env) (s : St) (now : Nat) (resp : Resp)
    (sc0 sc1 : Nat → Int) (ord : List Nat) (backoff : Nat) (hs : Inv P s)
    (hf : ∀ p ∈ resp.paths, env.allowed p = true → P p) :
    Inv P (maintain env s now resp sc0 sc1 ord backoff) := by
  unfold maintain
  split
  · split
    · exact idleCheck_P env s now hs
    · exact refetchIfDue_P env _ now resp sc0 sc1 ord backoff (idleCheck_P env s now hs) hf
  · exact refetchIfDue_P env s now resp sc0 sc1 ord backoff hs hf

theorem deliver_P {P : Path → Prop} (env : Env) (s : St) (now : Nat) (sc : Nat → Int)
    (hs : Inv P s) : Inv P (deliver env s now sc) := by
  unfold deliver
  split
  · exact hs
  · split
    · exact hs
    · simp only
      split
      · exact reevaluate_P env _ now sc hs
      · exact hs

theorem report_P {P : Path → Prop} (env : Env) (s : St) (k : Kind) (id ts : Nat)
    (hs : Inv P s) : Inv P (report env s k id ts) := by
  unfold report
  split
  · exact hs
  · exact hs

/-- what one operation must guarantee about the paths its fetcher answer contains -/
def Op.fetchOK (P : Path → Prop) (env : Env) : Op → Prop
  | .maintain _ resp _ _ _ _ => ∀ p ∈ resp.paths, env.allowed p = true → P p
  | _ => True

theorem step_P {P : Path → Prop} (env : Env) (s : St) (op : Op) (hs : Inv P s)
    (hf : op.fetchOK P env) : Inv P (step env s op) := by
  unfold step
  split
  · exact hs
  · cases op with
    | maintain now resp sc0 sc1 ord backoff => exact maintain_P env s now resp sc0 sc1 ord backoff hs hf
    | report k id ts => exact report_P env s k id ts hs
    | deliver now sc => exact deliver_P env s now sc hs
    | send now => exact hs

theorem foldl_P {P : Path → Prop} (env : Env) (ops : List Op) :
    ∀ (s : St), Inv P s → (∀ op ∈ ops, op.fetchOK P env) → Inv P (ops.foldl (step env) s) := by
  induction ops with
  | nil => intro s hs _; exact hs
  | cons op ops ih =>
    intro s hs hf
    exact ih _ (step_P env s op hs (hf op List.mem_cons_self))
      (fun o ho => hf o (List.mem_cons_of_mem _ ho))

theorem init_P (P : Path → Prop) (env : Env) (t0 : Nat) : Inv P (init env t0) :=
  ⟨AllP_nil P, OptP_none P⟩

/-- the generic invariant: for every history, every cached entry and the active slot satisfy `P`,
    provided every policy-conforming path any fetch answers with satisfies `P` -/
theorem run_P {P : Path → Prop} (env : Env) (t0 : Nat) (ops : List Op)
    (hf : ∀ op ∈ ops, op.fetchOK P env) : Inv P (run env t0 ops) :=
  foldl_P env ops _ (init_P P env t0) hf

end ScionVerif.PathMgr
