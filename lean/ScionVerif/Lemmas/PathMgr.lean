import ScionVerif.Model.PathSet
/-!
Helper lemmas for the path-manager model (C05/C06/C07): membership / length facts about ranking,
the retain loop and the merge, and the generic "every cached entry and the active slot satisfy `P`"
invariant over arbitrary operation histories.  Property theorems live in `Theorems/C0{5,6,7}.lean`.
-/
namespace ScionVerif.PathMgr
open ScionVerif.Generated.PathMgr

def AllP (P : Path → Prop) (l : List Path) : Prop := ∀ x ∈ l, P x
def OptP (P : Path → Prop) (o : Option Path) : Prop := ∀ x, o = some x → P x

/-- every cached entry and the active slot satisfy `P` -/
def Inv (P : Path → Prop) (s : St) : Prop := AllP P s.cached ∧ OptP P s.active

theorem AllP_nil (P : Path → Prop) : AllP P [] := by intro x h; cases h
theorem OptP_none (P : Path → Prop) : OptP P none := by intro x h; cases h
theorem OptP_some {P : Path → Prop} {a : Path} (h : P a) : OptP P (some a) := by
  intro x hx; cases hx; exact h
theorem AllP_cons {P : Path → Prop} {a : Path} {l : List Path} (ha : P a) (hl : AllP P l) :
    AllP P (a :: l) := by
  intro x hx
  cases hx with
  | head => exact ha
  | tail _ h => exact hl x h
theorem AllP_tail {P : Path → Prop} {a : Path} {l : List Path} (h : AllP P (a :: l)) : AllP P l :=
  fun x hx => h x (List.mem_cons_of_mem _ hx)
theorem AllP_head {P : Path → Prop} {a : Path} {l : List Path} (h : AllP P (a :: l)) : P a :=
  h a (List.mem_cons_self)
theorem AllP_append {P : Path → Prop} {l₁ l₂ : List Path} (h₁ : AllP P l₁) (h₂ : AllP P l₂) :
    AllP P (l₁ ++ l₂) := by
  intro x hx
  rcases List.mem_append.mp hx with h | h
  · exact h₁ x h
  · exact h₂ x h
theorem AllP_filter {P : Path → Prop} {l : List Path} (f : Path → Bool) (h : AllP P l) :
    AllP P (l.filter f) := fun x hx => h x (List.mem_filter.mp hx).1

/-! ## ranking -/

theorem mem_insertBy (lt : Path → Path → Bool) (x a : Path) (l : List Path) :
    a ∈ insertBy lt x l ↔ a = x ∨ a ∈ l := by
  induction l with
  | nil => simp [insertBy]
  | cons y ys ih =>
    unfold insertBy
    split
    · simp only [List.mem_cons, ih]
      constructor
      · rintro (h | h | h)
        · exact Or.inr (Or.inl h)
        · exact Or.inl h
        · exact Or.inr (Or.inr h)
      · rintro (h | h | h)
        · exact Or.inr (Or.inl h)
        · exact Or.inl h
        · exact Or.inr (Or.inr h)
    · simp only [List.mem_cons]

theorem mem_sortBy (lt : Path → Path → Bool) (a : Path) (l : List Path) :
    a ∈ sortBy lt l ↔ a ∈ l := by
  induction l with
  | nil => simp [sortBy]
  | cons y ys ih =>
    have : sortBy lt (y :: ys) = insertBy lt y (sortBy lt ys) := rfl
    rw [this, mem_insertBy, ih]
    simp only [List.mem_cons]

theorem length_insertBy (lt : Path → Path → Bool) (x : Path) (l : List Path) :
    (insertBy lt x l).length = l.length + 1 := by
  induction l with
  | nil => simp [insertBy]
  | cons y ys ih =>
    unfold insertBy
    split
    · simp [ih]
    · simp

theorem length_sortBy (lt : Path → Path → Bool) (l : List Path) : (sortBy lt l).length = l.length := by
  induction l with
  | nil => simp [sortBy]
  | cons y ys ih =>
    have : sortBy lt (y :: ys) = insertBy lt y (sortBy lt ys) := rfl
    rw [this, length_insertBy, ih]
    simp

theorem mem_rank (sc : Nat → Int) (a : Path) (l : List Path) : a ∈ rank sc l ↔ a ∈ l :=
  mem_sortBy _ a l
theorem length_rank (sc : Nat → Int) (l : List Path) : (rank sc l).length = l.length :=
  length_sortBy _ l
theorem mem_orderBy (ord : List Nat) (a : Path) (l : List Path) : a ∈ orderBy ord l ↔ a ∈ l :=
  mem_sortBy _ a l

theorem AllP_rank {P : Path → Prop} (sc : Nat → Int) {l : List Path} (h : AllP P l) :
    AllP P (rank sc l) := fun x hx => h x ((mem_rank sc x l).mp hx)
theorem AllP_orderBy {P : Path → Prop} (ord : List Nat) {l : List Path} (h : AllP P l) :
    AllP P (orderBy ord l) := fun x hx => h x ((mem_orderBy ord x l).mp hx)

/-! ## update_path_cache -/

theorem mem_dedupLast {a : Path} {l : List Path} (h : a ∈ dedupLast l) : a ∈ l := by
  induction l with
  | nil => simp [dedupLast] at h
  | cons p rest ih =>
    unfold dedupLast at h
    split at h
    · exact List.mem_cons_of_mem _ (ih h)
    · cases h with
      | head => exact List.mem_cons_self
      | tail _ h => exact List.mem_cons_of_mem _ (ih h)

theorem AllP_dedupLast {P : Path → Prop} {l : List Path} (h : AllP P l) : AllP P (dedupLast l) :=
  fun x hx => h x (mem_dedupLast hx)

theorem refreshed_P {P : Path → Prop} {fm : List Path} {c : Path} (hf : AllP P fm) (hc : P c) :
    P (refreshed fm c) := by
  unfold refreshed
  split
  · next m hm => exact hf m (List.mem_of_find?_eq_some hm)
  · exact hc

theorem retainActive_P {P : Path → Prop} (afp : Option Nat) (c c' : Path) (keep : Bool)
    (act : Option Path) (hc : P c') (ha : OptP P act) : OptP P (retainActive afp c c' keep act) := by
  unfold retainActive
  split
  · split
    · exact OptP_some hc
    · exact OptP_none P
  · exact ha

theorem retainLoop_P {P : Path → Prop} (now thr : Nat) (afp : Option Nat) :
    ∀ (cs fm : List Path) (act : Option Path), AllP P cs → AllP P fm → OptP P act →
      AllP P (retainLoop now thr afp cs fm act).1 ∧
      AllP P (retainLoop now thr afp cs fm act).2.1 ∧
      OptP P (retainLoop now thr afp cs fm act).2.2 := by
  intro cs
  induction cs with
  | nil => intro fm act _ hf ha; exact ⟨AllP_nil P, hf, ha⟩
  | cons c cs ih =>
    intro fm act hc hf ha
    have hc' : P (refreshed fm c) := refreshed_P hf (AllP_head hc)
    have := ih (fm.filter (·.fp != c.fp))
      (retainActive afp c (refreshed fm c) (checkExpiry (refreshed fm c) now thr != .expired) act)
      (AllP_tail hc) (AllP_filter _ hf) (retainActive_P afp c _ _ act hc' ha)
    unfold retainLoop
    refine ⟨?_, this.2.1, this.2.2⟩
    simp only
    split
    · exact AllP_cons hc' this.1
    · exact this.1

theorem length_retainLoop (now thr : Nat) (afp : Option Nat) :
    ∀ (cs fm : List Path) (act : Option Path),
      (retainLoop now thr afp cs fm act).1.length ≤ cs.length := by
  intro cs
  induction cs with
  | nil => intro fm act; simp [retainLoop]
  | cons c cs ih =>
    intro fm act
    unfold retainLoop
    simp only
    split
    · simp only [List.length_cons]; exact Nat.succ_le_succ (ih _ _)
    · exact Nat.le_succ_of_le (ih _ _)

theorem swapFront_perm (l : List Path) (idx : Nat) : (swapFront l idx).Perm l := by
  unfold swapFront
  split
  · exact List.Perm.refl _
  · exact List.Perm.refl _
  · next a t i =>
    split
    · next b hb =>
      have ht : t = t.take i ++ b :: t.drop (i + 1) := by
        have hi : i < t.length := (List.getElem?_eq_some_iff.mp hb).1
        have hb' : t[i] = b := (List.getElem?_eq_some_iff.mp hb).2
        rw [← hb', List.getElem_cons_drop, List.take_append_drop]
      -- b :: (take ++ a :: drop) ~ a :: (take ++ b :: drop) = a :: t
      have h1 : (b :: (t.take i ++ a :: t.drop (i + 1))).Perm (b :: a :: (t.take i ++ t.drop (i + 1))) :=
        List.Perm.cons _ List.perm_middle
      have h2 : (a :: t).Perm (a :: b :: (t.take i ++ t.drop (i + 1))) := by
        conv => lhs; rw [ht]
        exact List.Perm.cons _ List.perm_middle
      exact h1.trans ((List.Perm.swap a b _).trans h2.symm)
    · exact List.Perm.refl _

theorem AllP_swapFront {P : Path → Prop} {l : List Path} (idx : Nat) (h : AllP P l) :
    AllP P (swapFront l idx) := fun x hx => h x ((swapFront_perm l idx).mem_iff.mp hx)

theorem length_swapFront (l : List Path) (idx : Nat) : (swapFront l idx).length = l.length :=
  (swapFront_perm l idx).length_eq

theorem mergeTake_P {P : Path → Prop} (sc : Nat → Int) :
    ∀ (b : Nat) (ex nw : List Path), AllP P ex → AllP P nw →
      AllP P (mergeTake sc b ex nw).1 ∧ AllP P (mergeTake sc b ex nw).2 := by
  intro b
  induction b with
  | zero => intro ex nw _ _; simp only [mergeTake]; exact ⟨AllP_nil P, AllP_nil P⟩
  | succ b ih =>
    intro ex nw he hn
    cases ex with
    | nil =>
      cases nw with
      | nil => simp only [mergeTake]; exact ⟨AllP_nil P, AllP_nil P⟩
      | cons n ns =>
        have := ih [] ns he (AllP_tail hn)
        simp only [mergeTake]
        exact ⟨this.1, AllP_cons (AllP_head hn) this.2⟩
    | cons e es =>
      cases nw with
      | nil =>
        have := ih es [] (AllP_tail he) hn
        simp only [mergeTake]
        exact ⟨AllP_cons (AllP_head he) this.1, this.2⟩
      | cons n ns =>
        simp only [mergeTake]
        split
        · have := ih es (n :: ns) (AllP_tail he) hn
          exact ⟨AllP_cons (AllP_head he) this.1, this.2⟩
        · have := ih (e :: es) ns he (AllP_tail hn)
          exact ⟨this.1, AllP_cons (AllP_head hn) this.2⟩

theorem length_mergeTake (sc : Nat → Int) :
    ∀ (b : Nat) (ex nw : List Path),
      (mergeTake sc b ex nw).1.length + (mergeTake sc b ex nw).2.length ≤ b := by
  intro b
  induction b with
  | zero => intro ex nw; simp [mergeTake]
  | succ b ih =>
    intro ex nw
    cases ex with
    | nil =>
      cases nw with
      | nil => simp [mergeTake]
      | cons n ns => have := ih [] ns; simp only [mergeTake, List.length_cons]; omega
    | cons e es =>
      cases nw with
      | nil => have := ih es []; simp only [mergeTake, List.length_cons]; omega
      | cons n ns =>
        simp only [mergeTake]
        split
        · have := ih es (n :: ns); simp only [List.length_cons]; omega
        · have := ih (e :: es) ns; simp only [List.length_cons]; omega

theorem mergeNew_P {P : Path → Prop} (sc : Nat → Int) (ex nw : List Path) (afp : Option Nat) (t : Nat)
    (he : AllP P ex) (hn : AllP P nw) : AllP P (mergeNew sc ex nw afp t).1 := by
  unfold mergeNew
  split
  · split
    · next idx _ =>
      have hs := AllP_swapFront (P := P) idx he
      split
      · next a rest hsw =>
        rw [hsw] at hs
        have := mergeTake_P (P := P) sc (t - 1) rest nw (AllP_tail hs) hn
        exact AllP_cons (AllP_head hs) (AllP_append this.1 this.2)
      · exact AllP_nil P
    · have := mergeTake_P (P := P) sc t ex nw he hn
      exact AllP_append this.1 this.2
  · have := mergeTake_P (P := P) sc t ex nw he hn
    exact AllP_append this.1 this.2

/-- the merge never keeps more than `max target 1` paths (1 because the active path is always kept) -/
theorem length_mergeNew (sc : Nat → Int) (ex nw : List Path) (afp : Option Nat) (t : Nat) :
    (mergeNew sc ex nw afp t).1.length ≤ max t 1 := by
  unfold mergeNew
  split
  · split
    · split
      · next a rest _ =>
        have := length_mergeTake sc (t - 1) rest nw
        simp only [List.length_cons, List.length_append]
        omega
      · simp
    · have := length_mergeTake sc t ex nw
      simp only [List.length_append]; omega
  · have := length_mergeTake sc t ex nw
    simp only [List.length_append]; omega

theorem updateCache_P {P : Path → Prop} (env : Env) (s : St) (fetched : List Path) (now : Nat)
    (sc1 : Nat → Int) (ord : List Nat) (hs : Inv P s) (hf : AllP P fetched) :
    Inv P (updateCache env s fetched now sc1 ord).1 := by
  have hr := retainLoop_P (P := P) now env.cfg.minExpiryThreshold (s.active.map (·.fp)) s.cached
    (dedupLast fetched) s.active hs.1 (AllP_dedupLast hf) hs.2
  unfold updateCache
  simp only
  split
  · exact ⟨hr.1, hr.2.2⟩
  · refine ⟨?_, hr.2.2⟩
    exact mergeNew_P sc1 _ _ _ _ hr.1 (AllP_rank _ (AllP_orderBy _ hr.2.1))

/-! ## active path decision -/

theorem bestPath_mem {cached : List Path} {now thr : Nat} {b : Path}
    (h : bestPath cached now thr = some b) : b ∈ cached := List.mem_of_find?_eq_some h

theorem decideActive_best (env : Env) (s : St) (now : Nat) (sc : Nat → Int) :
    (decideActive env s now sc).2.1 = bestPath s.cached now env.cfg.minExpiryThreshold := by
  unfold decideActive
  simp only
  split <;> rfl

theorem decideActive_best_mem (env : Env) (s : St) (now : Nat) (sc : Nat → Int) {b : Path}
    (h : (decideActive env s now sc).2.1 = some b) : b ∈ s.cached := by
  rw [decideActive_best] at h
  exact bestPath_mem h

theorem applyDecision_P {P : Path → Prop} (s : St) (d : Decision) (best : Option Path)
    (hs : Inv P s) (hb : OptP P best) : Inv P (applyDecision s d best) := by
  unfold applyDecision
  simp only
  split
  · next b hb' =>
    split
    · exact hs
    · refine ⟨hs.1, OptP_some ?_⟩
      split at hb'
      · cases hb'
      · exact hb b hb'
  · split
    · exact ⟨hs.1, OptP_none P⟩
    · exact hs

theorem reevaluate_P {P : Path → Prop} (env : Env) (s : St) (now : Nat) (sc : Nat → Int)
    (hs : Inv P s) : Inv P (reevaluate env s now sc) := by
  unfold reevaluate
  simp only
  have hc : AllP P (rank sc s.cached) := AllP_rank sc hs.1
  apply applyDecision_P
  · exact ⟨hc, hs.2⟩
  · intro b hb
    exact hc b (decideActive_best_mem env _ now sc hb)

/-! ## fetch, maintain, issues, step -/

theorem fetchFiltered_ok {env : Env} {now : Nat} {resp : Resp} {f : List Path}
    (h : fetchFiltered env now resp = .ok f) :
    ∀ p ∈ f, p ∈ resp.paths ∧ env.allowed p = true ∧
      checkExpiry p now env.cfg.minExpiryThreshold ≠ .expired := by
  unfold fetchFiltered at h
  split at h
  · next ps =>
    simp only at h
    split at h
    · cases h
    · cases h
      intro p hp
      have h1 := List.mem_filter.mp hp
      have h2 := List.mem_filter.mp h1.1
      exact ⟨h2.1, h2.2, by simpa using h1.2⟩
  · cases h
  · cases h

theorem fetchAndUpdate_P {P : Path → Prop} (env : Env) (s : St) (now : Nat) (resp : Resp)
    (sc0 sc1 : Nat → Int) (ord : List Nat) (backoff : Nat) (hs : Inv P s)
    (hf : ∀ f, fetchFiltered env now resp = .ok f → AllP P f) :
    Inv P (fetchAndUpdate env s now resp sc0 sc1 ord backoff) := by
  unfold fetchAndUpdate
  simp only
  split
  · next f hok =>
    have hu := updateCache_P (P := P) env (noteDelivered s resp) f now sc1 ord hs (hf f hok)
    split
    · exact hu
    · exact reevaluate_P env (afterOk env.cfg _ now _) now _ hu
  · have hu := updateCache_P (P := P) env (noteDelivered s resp) [] now sc1 ord hs (AllP_nil P)
    exact reevaluate_P env (afterErr env.cfg _ s.failed now backoff _) now _ hu

theorem idleCheck_P {P : Path → Prop} (env : Env) (s : St) (now : Nat) (hs : Inv P s) :
    Inv P (idleCheck env s now).1 := by
  unfold idleCheck; split <;> exact hs

theorem refetchIfDue_P {P : Path → Prop} (env : Env) (s : St) (now : Nat) (resp : Resp)
    (sc0 sc1 : Nat → Int) (ord : List Nat) (backoff : Nat) (hs : Inv P s)
    (hf : ∀ f, fetchFiltered env now resp = .ok f → AllP P f) :
    Inv P (refetchIfDue env s now resp sc0 sc1 ord backoff) := by
  unfold refetchIfDue
  split
  · exact fetchAndUpdate_P env s now resp sc0 sc1 ord backoff hs hf
  · exact hs

theorem maintain_P {P : Path → Prop} (env : Env) (s : St) (now : Nat) (resp : Resp)
    (sc0 sc1 : Nat → Int) (ord : List Nat) (backoff : Nat) (hs : Inv P s)
    (hf : ∀ f, fetchFiltered env now resp = .ok f → AllP P f) :
    Inv P (maintain env s now resp sc0 sc1 ord backoff) := by
  unfold maintain
  split
  · split
    · exact idleCheck_P env s now hs
    · exact refetchIfDue_P env _ now resp sc0 sc1 ord backoff (idleCheck_P env s now hs) hf
  · exact refetchIfDue_P env s now resp sc0 sc1 ord backoff hs hf

theorem deliver_P {P : Path → Prop} (env : Env) (s : St) (now : Nat) (sc : Nat → Int)
    (hs : Inv P s) : Inv P (deliver env s now sc) := by
  unfold deliver
  split
  · exact hs
  · split
    · exact hs
    · simp only
      split
      · exact reevaluate_P env _ now sc hs
      · exact hs

theorem report_P {P : Path → Prop} (env : Env) (s : St) (k : Kind) (id ts : Nat)
    (hs : Inv P s) : Inv P (report env s k id ts) := by
  unfold report
  split
  · exact hs
  · exact hs

/-- what one operation must guarantee about the paths that survive its fetch filter (policy, not expired) -/
def Op.fetchOK (P : Path → Prop) (env : Env) : Op → Prop
  | .maintain now resp _ _ _ _ => ∀ f, fetchFiltered env now resp = .ok f → AllP P f
  | _ => True

/-- sufficient: every policy-conforming path of the fetcher answer satisfies `P` -/
theorem Op.fetchOK_of_allowed {P : Path → Prop} {env : Env} {now : Nat} {resp : Resp}
    {sc0 sc1 : Nat → Int} {ord : List Nat} {b : Nat}
    (h : ∀ p ∈ resp.paths, env.allowed p = true → P p) :
    (Op.maintain now resp sc0 sc1 ord b).fetchOK P env :=
  fun _ hok p hp => h p (fetchFiltered_ok hok p hp).1 (fetchFiltered_ok hok p hp).2.1

theorem step_P {P : Path → Prop} (env : Env) (s : St) (op : Op) (hs : Inv P s)
    (hf : op.fetchOK P env) : Inv P (step env s op) := by
  unfold step
  split
  · exact hs
  · cases op with
    | maintain now resp sc0 sc1 ord backoff => exact maintain_P env s now resp sc0 sc1 ord backoff hs hf
    | report k id ts => exact report_P env s k id ts hs
    | deliver now sc => exact deliver_P env s now sc hs
    | send now => exact hs

theorem foldl_P {P : Path → Prop} (env : Env) (ops : List Op) :
    ∀ (s : St), Inv P s → (∀ op ∈ ops, op.fetchOK P env) → Inv P (ops.foldl (step env) s) := by
  induction ops with
  | nil => intro s hs _; exact hs
  | cons op ops ih =>
    intro s hs hf
    exact ih _ (step_P env s op hs (hf op List.mem_cons_self))
      (fun o ho => hf o (List.mem_cons_of_mem _ ho))

theorem init_P (P : Path → Prop) (env : Env) (t0 : Nat) : Inv P (init env t0) :=
  ⟨AllP_nil P, OptP_none P⟩

/-- the generic invariant: for every history, every cached entry and the active slot satisfy `P`,
    provided every policy-conforming path any fetch answers with satisfies `P` -/
theorem run_P {P : Path → Prop} (env : Env) (t0 : Nat) (ops : List Op)
    (hf : ∀ op ∈ ops, op.fetchOK P env) : Inv P (run env t0 ops) :=
  foldl_P env ops _ (init_P P env t0) hf

end ScionVerif.PathMgr

/-! # C06: sizes, timers -/
namespace ScionVerif.PathMgr
open ScionVerif.Generated.PathMgr

theorem applyDecision_cached (s : St) (d : Decision) (b : Option Path) :
    (applyDecision s d b).cached = s.cached := by
  unfold applyDecision; simp only; split <;> split <;> rfl
theorem applyDecision_nextRefetch (s : St) (d : Decision) (b : Option Path) :
    (applyDecision s d b).nextRefetch = s.nextRefetch := by
  unfold applyDecision; simp only; split <;> split <;> rfl
theorem applyDecision_im (s : St) (d : Decision) (b : Option Path) :
    (applyDecision s d b).im = s.im := by
  unfold applyDecision; simp only; split <;> split <;> rfl

theorem reevaluate_cached (env : Env) (s : St) (now : Nat) (sc : Nat → Int) :
    (reevaluate env s now sc).cached = rank sc s.cached := by
  unfold reevaluate; simp only [applyDecision_cached]
theorem reevaluate_nextRefetch (env : Env) (s : St) (now : Nat) (sc : Nat → Int) :
    (reevaluate env s now sc).nextRefetch = s.nextRefetch := by
  unfold reevaluate; simp only [applyDecision_nextRefetch]
theorem reevaluate_im (env : Env) (s : St) (now : Nat) (sc : Nat → Int) :
    (reevaluate env s now sc).im = s.im := by
  unfold reevaluate; simp only [applyDecision_im]

theorem updateCache_length (env : Env) (s : St) (fetched : List Path) (now : Nat) (sc1 : Nat → Int)
    (ord : List Nat) (n : Nat) (hn : max env.cfg.maxCached 1 ≤ n) (hs : s.cached.length ≤ n) :
    (updateCache env s fetched now sc1 ord).1.cached.length ≤ n := by
  unfold updateCache
  simp only
  split
  · exact Nat.le_trans (length_retainLoop _ _ _ _ _ _) hs
  · exact Nat.le_trans (length_mergeNew _ _ _ _ _) hn

theorem updateCache_im (env : Env) (s : St) (fetched : List Path) (now : Nat) (sc1 : Nat → Int)
    (ord : List Nat) : (updateCache env s fetched now sc1 ord).1.im = s.im := by
  unfold updateCache; simp only; split <;> rfl

theorem fetchAndUpdate_length (env : Env) (s : St) (now : Nat) (resp : Resp) (sc0 sc1 : Nat → Int)
    (ord : List Nat) (b : Nat) (n : Nat) (hn : max env.cfg.maxCached 1 ≤ n) (hs : s.cached.length ≤ n) :
    (fetchAndUpdate env s now resp sc0 sc1 ord b).cached.length ≤ n := by
  unfold fetchAndUpdate
  simp only
  split
  · next f _ =>
    have hu := updateCache_length env (noteDelivered s resp) f now sc1 ord n hn hs
    split
    · exact hu
    · simp only [markInit, reevaluate_cached, length_rank, afterOk]; exact hu
  · have hu := updateCache_length env (noteDelivered s resp) [] now sc1 ord n hn hs
    simp only [markInit, reevaluate_cached, length_rank, afterErr]; exact hu

theorem fetchAndUpdate_im (env : Env) (s : St) (now : Nat) (resp : Resp) (sc0 sc1 : Nat → Int)
    (ord : List Nat) (b : Nat) : (fetchAndUpdate env s now resp sc0 sc1 ord b).im = s.im := by
  unfold fetchAndUpdate
  simp only
  split
  · split
    · simp only [updateCache_im, noteDelivered]
    · simp only [markInit, reevaluate_im, afterOk, updateCache_im, noteDelivered]
  · simp only [markInit, reevaluate_im, afterErr, updateCache_im, noteDelivered]

theorem idleCheck_cached (env : Env) (s : St) (now : Nat) : (idleCheck env s now).1.cached = s.cached := by
  unfold idleCheck; split <;> rfl
theorem idleCheck_im (env : Env) (s : St) (now : Nat) : (idleCheck env s now).1.im = s.im := by
  unfold idleCheck; split <;> rfl

theorem maintain_length (env : Env) (s : St) (now : Nat) (resp : Resp) (sc0 sc1 : Nat → Int)
    (ord : List Nat) (b : Nat) (n : Nat) (hn : max env.cfg.maxCached 1 ≤ n) (hs : s.cached.length ≤ n) :
    (maintain env s now resp sc0 sc1 ord b).cached.length ≤ n := by
  unfold maintain refetchIfDue
  split
  · split
    · simp only [idleCheck_cached]; exact hs
    · split
      · exact fetchAndUpdate_length env _ now resp sc0 sc1 ord b n hn (by rw [idleCheck_cached]; exact hs)
      · rw [idleCheck_cached]; exact hs
  · split
    · exact fetchAndUpdate_length env s now resp sc0 sc1 ord b n hn hs
    · exact hs

theorem maintain_im (env : Env) (s : St) (now : Nat) (resp : Resp) (sc0 sc1 : Nat → Int)
    (ord : List Nat) (b : Nat) : (maintain env s now resp sc0 sc1 ord b).im = s.im := by
  unfold maintain refetchIfDue
  split
  · split
    · simp only [idleCheck_im]
    · split
      · rw [fetchAndUpdate_im, idleCheck_im]
      · rw [idleCheck_im]
  · split
    · rw [fetchAndUpdate_im]
    · rfl

theorem deliver_cached_length (env : Env) (s : St) (now : Nat) (sc : Nat → Int) :
    (deliver env s now sc).cached.length = s.cached.length := by
  unfold deliver
  split
  · rfl
  · split
    · rfl
    · simp only
      split
      · simp only [reevaluate_cached, length_rank]
      · rfl

theorem deliver_im (env : Env) (s : St) (now : Nat) (sc : Nat → Int) : (deliver env s now sc).im = s.im := by
  unfold deliver
  split
  · rfl
  · split
    · rfl
    · simp only
      split
      · simp only [reevaluate_im]
      · rfl

theorem report_cached (env : Env) (s : St) (k : Kind) (id ts : Nat) :
    (report env s k id ts).cached = s.cached := by
  unfold report; split <;> rfl

theorem step_length (env : Env) (s : St) (op : Op) (n : Nat) (hn : max env.cfg.maxCached 1 ≤ n)
    (hs : s.cached.length ≤ n) : (step env s op).cached.length ≤ n := by
  unfold step
  split
  · exact hs
  · cases op with
    | maintain now resp sc0 sc1 ord b => exact maintain_length env s now resp sc0 sc1 ord b n hn hs
    | report k id ts => simp only [report_cached]; exact hs
    | deliver now sc => simp only [deliver_cached_length]; exact hs
    | send now => exact hs

theorem run_length (env : Env) (t0 : Nat) (ops : List Op) :
    (run env t0 ops).cached.length ≤ max env.cfg.maxCached 1 := by
  unfold run
  have : ∀ (s : St), s.cached.length ≤ max env.cfg.maxCached 1 →
      (ops.foldl (step env) s).cached.length ≤ max env.cfg.maxCached 1 := by
    induction ops with
    | nil => intro s hs; exact hs
    | cons op ops ih => intro s hs; exact ih _ (step_length env s op _ (Nat.le_refl _) hs)
  exact this _ (by simp [init])

/-! ## refetch window -/

theorem nextAfterOk_bounds (cfg : Cfg) (now ee : Nat) :
    now + cfg.minRefetchDelay ≤ nextAfterOk cfg now ee ∧
    nextAfterOk cfg now ee ≤ now + max cfg.refetchInterval cfg.minRefetchDelay := by
  unfold nextAfterOk
  omega

theorem fetchAndUpdate_window (env : Env) (s : St) (now : Nat) (resp : Resp) (sc0 sc1 : Nat → Int)
    (ord : List Nat) (b : Nat) :
    (fetchAndUpdate env s now resp sc0 sc1 ord b).bad = true ∨
    (now + env.cfg.minRefetchDelay ≤ (fetchAndUpdate env s now resp sc0 sc1 ord b).nextRefetch ∧
     (fetchAndUpdate env s now resp sc0 sc1 ord b).nextRefetch ≤
       now + max env.cfg.refetchInterval (max b env.cfg.minRefetchDelay)) := by
  unfold fetchAndUpdate
  simp only
  split
  · split
    · exact Or.inl rfl
    · next ee _ =>
      refine Or.inr ?_
      simp only [markInit, reevaluate_nextRefetch, afterOk]
      have := nextAfterOk_bounds env.cfg now ee
      omega
  · refine Or.inr ?_
    simp only [markInit, reevaluate_nextRefetch, afterErr, failDelay]
    omega

end ScionVerif.PathMgr

/-! # C06: the issue memory (`PathIssueManager`) -/
namespace ScionVerif.PathMgr
open ScionVerif.Generated.PathMgr

/-- keys of the issue cache are distinct and every cached issue has its live FIFO entry -/
structure IMInv (m : IssueMgr) : Prop where
  nodup : (m.cache.map (·.1)).Nodup
  live : ∀ e ∈ m.cache, (e.1, e.2.ts) ∈ m.fifo

theorem find_key_unique {c : List (Nat × Marker)} (hn : (c.map (·.1)).Nodup) {id : Nat} {ex mk : Marker}
    (hf : (c.find? (·.1 == id)).map (·.2) = some ex) (hm : (id, mk) ∈ c) : mk = ex := by
  induction c with
  | nil => cases hm
  | cons a l ih =>
    simp only [List.map_cons, List.nodup_cons] at hn
    simp only [List.find?_cons] at hf
    cases hm with
    | head =>
      simp at hf
      exact hf
    | tail _ hm' =>
      split at hf
      · next heq =>
        have : a.1 = id := by simpa using heq
        exact absurd (List.mem_map.mpr ⟨(id, mk), hm', rfl⟩) (this ▸ hn.1)
      · exact ih hn.2 hf hm'

theorem find_none_no_key {c : List (Nat × Marker)} {id : Nat}
    (hf : (c.find? (·.1 == id)).map (·.2) = none) (mk : Marker) : (id, mk) ∉ c := by
  intro hm
  have : c.find? (·.1 == id) = none := by
    cases h : c.find? (·.1 == id) with
    | none => rfl
    | some x => rw [h] at hf; cases hf
  have := List.find?_eq_none.mp this (id, mk) hm
  simp at this

theorem nodup_filter_keys {c : List (Nat × Marker)} (f : Nat × Marker → Bool)
    (hn : (c.map (·.1)).Nodup) : ((c.filter f).map (·.1)).Nodup := by
  induction c with
  | nil => simp
  | cons a l ih =>
    simp only [List.map_cons, List.nodup_cons] at hn
    simp only [List.filter_cons]
    split
    · simp only [List.map_cons, List.nodup_cons]
      refine ⟨?_, ih hn.2⟩
      intro h
      rcases List.mem_map.mp h with ⟨x, hx, hx1⟩
      exact hn.1 (List.mem_map.mpr ⟨x, (List.mem_filter.mp hx).1, hx1⟩)
    · exact ih hn.2

/-- the eviction loop keeps the invariant, never grows the cache, and frees a slot whenever there is
    something to evict -/
theorem popLoop_spec (cache : List (Nat × Marker)) (hn : (cache.map (·.1)).Nodup) :
    ∀ (fifo : List (Nat × Nat)), (∀ e ∈ cache, (e.1, e.2.ts) ∈ fifo) →
      ((popLoop cache fifo).2.map (·.1)).Nodup ∧
      (∀ e ∈ (popLoop cache fifo).2, (e.1, e.2.ts) ∈ (popLoop cache fifo).1) ∧
      (popLoop cache fifo).2.length ≤ cache.length ∧
      (cache ≠ [] → (popLoop cache fifo).2.length + 1 ≤ cache.length) ∧
      (popLoop cache fifo).1.length ≤ fifo.length := by
  intro fifo
  induction fifo with
  | nil =>
    intro hl
    refine ⟨hn, ?_, Nat.le_refl _, ?_, Nat.le_refl _⟩
    · intro e he; exact absurd (hl e he) (by simp)
    · intro hne
      cases cache with
      | nil => exact absurd rfl hne
      | cons a l => exact absurd (hl a List.mem_cons_self) (by simp)
  | cons p rest ih =>
    intro hl
    obtain ⟨id, ts⟩ := p
    unfold popLoop
    split
    · next ex hf =>
      split
      · next hts =>
        refine ⟨nodup_filter_keys _ hn, ?_, List.length_filter_le _ _, ?_, Nat.le_succ _⟩
        · intro e he
          have hm := List.mem_filter.mp he
          have hne : e.1 ≠ id := by simpa using hm.2
          have := hl e hm.1
          cases this with
          | head => exact absurd rfl hne
          | tail _ h => exact h
        · intro _
          -- the evicted entry is in the cache and is removed by the filter
          have hmem : ∃ mk, (id, mk) ∈ cache := by
            cases h : cache.find? (·.1 == id) with
            | none => rw [h] at hf; cases hf
            | some x =>
              have hx := List.mem_of_find?_eq_some h
              have hk : x.1 = id := by simpa using List.find?_some h
              exact ⟨x.2, by rw [← hk]; exact hx⟩
          obtain ⟨mk, hmk⟩ := hmem
          have hlt : (cache.filter (·.1 != id)).length < cache.length := by
            apply List.length_filter_lt_length_iff_exists.mpr
            exact ⟨(id, mk), hmk, by simp⟩
          show (cache.filter (·.1 != id)).length + 1 ≤ cache.length
          omega
      · next hts =>
        have hl' : ∀ e ∈ cache, (e.1, e.2.ts) ∈ rest := by
          intro e he
          have := hl e he
          cases this with
          | head =>
            -- e has key `id` and timestamp `ts`, but the entry with key `id` is `ex` with another timestamp
            have : e.2 = ex := find_key_unique hn hf (by cases e; exact he)
            exact absurd (this ▸ rfl) hts
          | tail _ h => exact h
        have := ih hl'
        exact ⟨this.1, this.2.1, this.2.2.1, this.2.2.2.1, Nat.le_succ_of_le this.2.2.2.2⟩
    · next hf =>
      have hl' : ∀ e ∈ cache, (e.1, e.2.ts) ∈ rest := by
        intro e he
        have := hl e he
        cases this with
        | head => exact absurd (by cases e; exact he) (find_none_no_key hf e.2)
        | tail _ h => exact h
      have := ih hl'
      exact ⟨this.1, this.2.1, this.2.2.1, this.2.2.2.1, Nat.le_succ_of_le this.2.2.2.2⟩

theorem cacheInsert_length (c : List (Nat × Marker)) (id : Nat) (mk : Marker) :
    (cacheInsert c id mk).length ≤ c.length + 1 := by
  unfold cacheInsert
  simp only [List.length_cons]
  exact Nat.succ_le_succ (List.length_filter_le _ _)

theorem evictIfFull_spec (m : IssueMgr) (maxE : Nat) (hm : IMInv m) (hb : m.cache.length ≤ max maxE 1) :
    IMInv (m.evictIfFull maxE) ∧ (m.evictIfFull maxE).cache.length + 1 ≤ max maxE 1 ∧
    (m.evictIfFull maxE).fifo.length ≤ m.fifo.length := by
  unfold IssueMgr.evictIfFull
  split
  · next hge =>
    have sp := popLoop_spec m.cache hm.nodup m.fifo hm.live
    refine ⟨⟨sp.1, sp.2.1⟩, ?_, sp.2.2.2.2⟩
    show (popLoop m.cache m.fifo).2.length + 1 ≤ max maxE 1
    by_cases hne : m.cache = []
    · have h0 := sp.2.2.1
      have hz : m.cache.length = 0 := by rw [hne]; rfl
      omega
    · have := sp.2.2.2.1 hne
      omega
  · next hlt => exact ⟨hm, by omega, Nat.le_refl _⟩

theorem insert_inv (m1 : IssueMgr) (id : Nat) (mk : Marker) (h1 : IMInv m1) : IMInv (m1.insert id mk) := by
  unfold IssueMgr.insert
  constructor
  · simp only [cacheInsert, List.map_cons, List.nodup_cons]
    refine ⟨?_, nodup_filter_keys _ h1.nodup⟩
    intro h
    rcases List.mem_map.mp h with ⟨x, hx, hx1⟩
    have h2 := (List.mem_filter.mp hx).2
    have : x.1 ≠ id := by simpa using h2
    exact this hx1
  · intro e he
    simp only [cacheInsert] at he
    cases he with
    | head => exact List.mem_append_right _ (by simp)
    | tail _ h => exact List.mem_append_left _ (h1.live e (List.mem_filter.mp h).1)

theorem addIssue_inv (m : IssueMgr) (maxE win id : Nat) (mk : Marker) (hm : IMInv m)
    (hb : m.cache.length ≤ max maxE 1) :
    IMInv (m.addIssue maxE win id mk).1 ∧ (m.addIssue maxE win id mk).1.cache.length ≤ max maxE 1 := by
  unfold IssueMgr.addIssue
  split
  · exact ⟨hm, hb⟩
  · have he := evictIfFull_spec m maxE hm hb
    refine ⟨insert_inv _ id mk he.1, ?_⟩
    have := cacheInsert_length (m.evictIfFull maxE).cache id mk
    show (cacheInsert (m.evictIfFull maxE).cache id mk).length ≤ max maxE 1
    omega

theorem report_im_inv (env : Env) (s : St) (k : Kind) (id ts : Nat) (hm : IMInv s.im)
    (hb : s.im.cache.length ≤ max env.cfg.issueCacheSize 1) :
    IMInv (report env s k id ts).im ∧ (report env s k id ts).im.cache.length ≤ max env.cfg.issueCacheSize 1 := by
  unfold report
  split
  · exact ⟨hm, hb⟩
  · next t _ => exact addIssue_inv s.im _ _ id ⟨t, ts⟩ hm hb

theorem step_im_inv (env : Env) (s : St) (op : Op) (hm : IMInv s.im)
    (hb : s.im.cache.length ≤ max env.cfg.issueCacheSize 1) :
    IMInv (step env s op).im ∧ (step env s op).im.cache.length ≤ max env.cfg.issueCacheSize 1 := by
  unfold step
  split
  · exact ⟨hm, hb⟩
  · cases op with
    | maintain now resp sc0 sc1 ord b => simp only [maintain_im]; exact ⟨hm, hb⟩
    | report k id ts => exact report_im_inv env s k id ts hm hb
    | deliver now sc => simp only [deliver_im]; exact ⟨hm, hb⟩
    | send now => exact ⟨hm, hb⟩

theorem run_im_inv (env : Env) (t0 : Nat) (ops : List Op) :
    IMInv (run env t0 ops).im ∧ (run env t0 ops).im.cache.length ≤ max env.cfg.issueCacheSize 1 := by
  unfold run
  have : ∀ (s : St), IMInv s.im → s.im.cache.length ≤ max env.cfg.issueCacheSize 1 →
      IMInv (ops.foldl (step env) s).im ∧
      (ops.foldl (step env) s).im.cache.length ≤ max env.cfg.issueCacheSize 1 := by
    induction ops with
    | nil => intro s h1 h2; exact ⟨h1, h2⟩
    | cons op ops ih =>
      intro s h1 h2
      have := step_im_inv env s op h1 h2
      exact ih _ this.1 this.2
  exact this _ ⟨by simp [init], by intro e he; simp [init] at he⟩ (by simp [init])

end ScionVerif.PathMgr

/-! # C06: structural invariant – the active path is a cached entry, fingerprints are distinct -/
namespace ScionVerif.PathMgr
open ScionVerif.Generated.PathMgr

def fps (l : List Path) : List Nat := l.map (·.fp)

structure WF (s : St) : Prop where
  active_mem : ∀ a, s.active = some a → a ∈ s.cached
  nodup : (fps s.cached).Nodup

theorem insertBy_perm (lt : Path → Path → Bool) (x : Path) (l : List Path) :
    (insertBy lt x l).Perm (x :: l) := by
  induction l with
  | nil => exact List.Perm.refl _
  | cons y ys ih =>
    unfold insertBy
    split
    · exact (List.Perm.cons y ih).trans (List.Perm.swap x y ys)
    · exact List.Perm.refl _

theorem sortBy_perm (lt : Path → Path → Bool) (l : List Path) : (sortBy lt l).Perm l := by
  induction l with
  | nil => exact List.Perm.refl _
  | cons y ys ih =>
    have : sortBy lt (y :: ys) = insertBy lt y (sortBy lt ys) := rfl
    rw [this]
    exact (insertBy_perm lt y _).trans (List.Perm.cons y ih)

theorem rank_perm (sc : Nat → Int) (l : List Path) : (rank sc l).Perm l := sortBy_perm _ l
theorem orderBy_perm (ord : List Nat) (l : List Path) : (orderBy ord l).Perm l := sortBy_perm _ l

theorem nodup_fps_perm {l l' : List Path} (h : l.Perm l') : (fps l).Nodup ↔ (fps l').Nodup :=
  (h.map _).nodup_iff

theorem mem_fps {x : Path} {l : List Path} (h : x ∈ l) : x.fp ∈ fps l := List.mem_map.mpr ⟨x, h, rfl⟩

/-- with distinct fingerprints, an entry is determined by its fingerprint -/
theorem eq_of_fp_eq {l : List Path} (hn : (fps l).Nodup) {a b : Path} (ha : a ∈ l) (hb : b ∈ l)
    (h : a.fp = b.fp) : a = b := by
  induction l with
  | nil => cases ha
  | cons x xs ih =>
    simp only [fps, List.map_cons, List.nodup_cons] at hn
    cases ha with
    | head =>
      cases hb with
      | head => rfl
      | tail _ hb' => exact absurd (h ▸ mem_fps hb') hn.1
    | tail _ ha' =>
      cases hb with
      | head => exact absurd (h ▸ mem_fps ha') hn.1
      | tail _ hb' => exact ih hn.2 ha' hb'

theorem refreshed_fp (fm : List Path) (c : Path) : (refreshed fm c).fp = c.fp := by
  unfold refreshed
  split
  · next m hm => simpa using List.find?_some hm
  · rfl

theorem dedupLast_nodup (l : List Path) : (fps (dedupLast l)).Nodup := by
  induction l with
  | nil => simp [dedupLast, fps]
  | cons p rest ih =>
    unfold dedupLast
    split
    · exact ih
    · next hany =>
      simp only [fps, List.map_cons, List.nodup_cons]
      refine ⟨?_, ih⟩
      intro hm
      rcases List.mem_map.mp hm with ⟨x, hx, hxf⟩
      exact hany (List.any_eq_true.mpr ⟨x, mem_dedupLast hx, by simpa using hxf⟩)

theorem retainLoop_sublist (now thr : Nat) (afp : Option Nat) :
    ∀ (cs fm : List Path) (act : Option Path),
      (fps (retainLoop now thr afp cs fm act).1).Sublist (fps cs) := by
  intro cs
  induction cs with
  | nil => intro fm act; simp [retainLoop, fps]
  | cons c cs ih =>
    intro fm act
    unfold retainLoop
    simp only
    split
    · simp only [fps, List.map_cons, refreshed_fp]
      exact List.Sublist.cons_cons _ (ih _ _)
    · exact List.Sublist.cons _ (ih _ _)

theorem retainLoop_rest (now thr : Nat) (afp : Option Nat) :
    ∀ (cs fm : List Path) (act : Option Path),
      (retainLoop now thr afp cs fm act).2.1.Sublist fm ∧
      ∀ x ∈ (retainLoop now thr afp cs fm act).2.1, ∀ c ∈ cs, x.fp ≠ c.fp := by
  intro cs
  induction cs with
  | nil => intro fm act; exact ⟨List.Sublist.refl _, fun _ _ c hc => absurd hc (by simp)⟩
  | cons c cs ih =>
    intro fm act
    unfold retainLoop
    simp only
    have := ih (fm.filter (·.fp != c.fp))
      (retainActive afp c (refreshed fm c) (checkExpiry (refreshed fm c) now thr != .expired) act)
    refine ⟨this.1.trans List.filter_sublist, ?_⟩
    intro x hx c' hc'
    cases hc' with
    | head =>
      have := (List.mem_filter.mp (this.1.subset hx)).2
      simpa using this
    | tail _ h => exact this.2 x hx c' h

theorem retainLoop_active (now thr : Nat) (afp : Option Nat) :
    ∀ (cs fm : List Path) (act : Option Path) (a' : Path),
      (retainLoop now thr afp cs fm act).2.2 = some a' →
      a' ∈ (retainLoop now thr afp cs fm act).1 ∨ (act = some a' ∧ ∀ c ∈ cs, some c.fp ≠ afp) := by
  intro cs
  induction cs with
  | nil => intro fm act a' h; exact Or.inr ⟨h, fun c hc => absurd hc (by simp)⟩
  | cons c cs ih =>
    intro fm act a' h
    unfold retainLoop at h ⊢
    simp only at h ⊢
    rcases ih _ _ a' h with hin | ⟨hact, hno⟩
    · left
      split
      · exact List.mem_cons_of_mem _ hin
      · exact hin
    · unfold retainActive at hact
      split at hact
      · next hc =>
        split at hact
        · next hk =>
          left
          cases hact
          rw [if_pos hk]
          exact List.mem_cons_self
        · cases hact
      · next hc =>
        right
        refine ⟨hact, ?_⟩
        intro c' hc'
        cases hc' with
        | head => intro heq; exact hc (by simp [heq])
        | tail _ h' => exact hno c' h'

/-- every entry kept by the retain loop is not expired -/
theorem retainLoop_kept_live (now thr : Nat) (afp : Option Nat) :
    ∀ (cs fm : List Path) (act : Option Path),
      ∀ x ∈ (retainLoop now thr afp cs fm act).1, checkExpiry x now thr ≠ .expired := by
  intro cs
  induction cs with
  | nil => intro fm act x hx; simp [retainLoop] at hx
  | cons c cs ih =>
    intro fm act x hx
    unfold retainLoop at hx
    simp only at hx
    split at hx
    · next hk =>
      cases hx with
      | head => simpa using hk
      | tail _ h => exact ih _ _ x h
    · exact ih _ _ x hx

/-- if every fetched path is live and none is left over as a new candidate, one of them refreshed a
    cached entry, which is therefore kept -/
theorem retainLoop_nonempty (now thr : Nat) (afp : Option Nat) :
    ∀ (cs fm : List Path) (act : Option Path),
      (∀ x ∈ fm, checkExpiry x now thr ≠ .expired) → fm ≠ [] →
      (retainLoop now thr afp cs fm act).2.1 = [] → (retainLoop now thr afp cs fm act).1 ≠ [] := by
  intro cs
  induction cs with
  | nil => intro fm act _ hne hr; simp [retainLoop] at hr; exact absurd hr hne
  | cons c cs ih =>
    intro fm act hl hne hr
    unfold retainLoop at hr ⊢
    simp only at hr ⊢
    cases hf : fm.find? (·.fp == c.fp) with
    | some m =>
      have hm : refreshed fm c = m := by unfold refreshed; rw [hf]
      have : (checkExpiry (refreshed fm c) now thr != ExpiryState.expired) = true := by
        rw [hm]; simpa using hl m (List.mem_of_find?_eq_some hf)
      rw [if_pos this]
      simp
    | none =>
      have hall : fm.filter (·.fp != c.fp) = fm := by
        apply List.filter_eq_self.mpr
        intro x hx
        have := List.find?_eq_none.mp hf x hx
        simpa using this
      have := ih (fm.filter (·.fp != c.fp)) _ (fun x hx => hl x (List.mem_filter.mp hx).1)
        (by rw [hall]; exact hne) hr
      split
      · simp
      · exact this

theorem mergeTake_sublist (sc : Nat → Int) :
    ∀ (b : Nat) (ex nw : List Path),
      (mergeTake sc b ex nw).1.Sublist ex ∧ (mergeTake sc b ex nw).2.Sublist nw := by
  intro b
  induction b with
  | zero => intro ex nw; simp only [mergeTake]; exact ⟨List.nil_sublist _, List.nil_sublist _⟩
  | succ b ih =>
    intro ex nw
    cases ex with
    | nil =>
      cases nw with
      | nil => simp only [mergeTake]; exact ⟨List.Sublist.refl _, List.Sublist.refl _⟩
      | cons n ns =>
        have := ih [] ns
        simp only [mergeTake]
        exact ⟨this.1, List.Sublist.cons_cons _ this.2⟩
    | cons e es =>
      cases nw with
      | nil =>
        have := ih es []
        simp only [mergeTake]
        exact ⟨List.Sublist.cons_cons _ this.1, this.2⟩
      | cons n ns =>
        simp only [mergeTake]
        split
        · have := ih es (n :: ns)
          exact ⟨List.Sublist.cons_cons _ this.1, this.2⟩
        · have := ih (e :: es) ns
          exact ⟨this.1, List.Sublist.cons_cons _ this.2⟩

/-- with a budget of at least one and something to choose from, the merge keeps something -/
theorem mergeTake_nonempty (sc : Nat → Int) (b : Nat) (ex nw : List Path) (hb : 0 < b)
    (h : ex ≠ [] ∨ nw ≠ []) : (mergeTake sc b ex nw).1 ++ (mergeTake sc b ex nw).2 ≠ [] := by
  cases b with
  | zero => exact absurd hb (Nat.lt_irrefl _)
  | succ b =>
    cases ex with
    | nil =>
      cases nw with
      | nil => rcases h with h | h <;> exact absurd rfl h
      | cons n ns => simp [mergeTake]
    | cons e es =>
      cases nw with
      | nil => simp [mergeTake]
      | cons n ns =>
        simp only [mergeTake]
        split <;> simp

theorem swapFront_head {l : List Path} {idx : Nat} {x : Path} (h : l[idx]? = some x) :
    ∃ rest, swapFront l idx = x :: rest := by
  unfold swapFront
  split
  · simp at h
  · next a t => simp at h; exact ⟨t, by rw [h]⟩
  · next a t i =>
    have : t[i]? = some x := by simpa using h
    rw [this]
    exact ⟨_, rfl⟩

theorem nodup_append_fps {l₁ l₂ : List Path} (h₁ : (fps l₁).Nodup) (h₂ : (fps l₂).Nodup)
    (hd : ∀ a ∈ l₁, ∀ b ∈ l₂, a.fp ≠ b.fp) : (fps (l₁ ++ l₂)).Nodup := by
  simp only [fps, List.map_append]
  refine List.nodup_append.mpr ⟨h₁, h₂, ?_⟩
  intro x hx y hy hxy
  rcases List.mem_map.mp hx with ⟨a, ha, hae⟩
  rcases List.mem_map.mp hy with ⟨b, hb, hbe⟩
  exact hd a ha b hb (by rw [hae, hbe, hxy])

/-- the merge: distinct fingerprints are preserved, the active path stays cached, no assertion fires -/
theorem mergeNew_wf (sc : Nat → Int) (ex nw : List Path) (act : Option Path) (t : Nat)
    (hact : ∀ a, act = some a → a ∈ ex) (hex : (fps ex).Nodup) (hnw : (fps nw).Nodup)
    (hd : ∀ a ∈ ex, ∀ b ∈ nw, a.fp ≠ b.fp) :
    (fps (mergeNew sc ex nw (act.map (·.fp)) t).1).Nodup ∧
    (∀ a, act = some a → a ∈ (mergeNew sc ex nw (act.map (·.fp)) t).1) ∧
    (mergeNew sc ex nw (act.map (·.fp)) t).2 = false := by
  have hsub := fun b ex' => mergeTake_sublist sc b ex' nw
  cases act with
  | none =>
    simp only [Option.map_none, mergeNew]
    refine ⟨?_, fun a h => (nomatch h), trivial⟩
    have s := hsub t ex
    exact nodup_append_fps ((s.1.map _).nodup hex) ((s.2.map _).nodup hnw)
      (fun a ha b hb => hd a (s.1.subset ha) b (s.2.subset hb))
  | some a =>
    have ha := hact a rfl
    simp only [Option.map_some, mergeNew]
    cases hfi : ex.findIdx? (·.fp == a.fp) with
    | none =>
      have := List.findIdx?_eq_none_iff.mp hfi a ha
      simp at this
    | some idx =>
      simp only
      obtain ⟨hlt, hp, _⟩ := List.findIdx?_eq_some_iff_getElem.mp hfi
      have hx : ex[idx]? = some ex[idx] := List.getElem?_eq_getElem hlt
      have hxa : ex[idx] = a :=
        eq_of_fp_eq hex (List.getElem_mem hlt) ha (by simpa using hp)
      obtain ⟨rest, hrest⟩ := swapFront_head hx
      rw [hrest, hxa]
      simp only
      have hperm : (a :: rest).Perm ex := by rw [← hxa, ← hrest]; exact swapFront_perm ex idx
      have hn' : (fps (a :: rest)).Nodup := (nodup_fps_perm hperm).mpr hex
      have s := hsub (t - 1) rest
      refine ⟨?_, ?_, trivial⟩
      · simp only [fps, List.map_cons, List.nodup_cons] at hn' ⊢
        refine ⟨?_, ?_⟩
        · intro hm
          rcases List.mem_map.mp hm with ⟨x, hx', hxf⟩
          rcases List.mem_append.mp hx' with h1 | h2
          · exact hn'.1 (List.mem_map.mpr ⟨x, s.1.subset h1, hxf⟩)
          · exact hd a ha x (s.2.subset h2) hxf.symm
        · exact nodup_append_fps ((s.1.map _).nodup hn'.2) ((s.2.map _).nodup hnw)
            (fun p hp q hq => hd p (hperm.mem_iff.mp (List.mem_cons_of_mem _ (s.1.subset hp))) q (s.2.subset hq))
      · intro a' ha'; cases ha'; exact List.mem_cons_self

end ScionVerif.PathMgr

/-! # C06: no panic site is reached; a sender is not left without a path after a refetch -/
namespace ScionVerif.PathMgr
open ScionVerif.Generated.PathMgr

def Live (now thr : Nat) (p : Path) : Prop := checkExpiry p now thr ≠ .expired

theorem updateCache_wf (env : Env) (s : St) (fetched : List Path) (now : Nat) (sc1 : Nat → Int)
    (ord : List Nat) (hw : WF s) :
    WF (updateCache env s fetched now sc1 ord).1 ∧ (updateCache env s fetched now sc1 ord).1.bad = s.bad := by
  have hsub := retainLoop_sublist now env.cfg.minExpiryThreshold (s.active.map (·.fp)) s.cached
    (dedupLast fetched) s.active
  have hrest := retainLoop_rest now env.cfg.minExpiryThreshold (s.active.map (·.fp)) s.cached
    (dedupLast fetched) s.active
  have hact : ∀ a', (retainLoop now env.cfg.minExpiryThreshold (s.active.map (·.fp)) s.cached
      (dedupLast fetched) s.active).2.2 = some a' →
      a' ∈ (retainLoop now env.cfg.minExpiryThreshold (s.active.map (·.fp)) s.cached
        (dedupLast fetched) s.active).1 := by
    intro a' h
    rcases retainLoop_active _ _ _ _ _ _ a' h with hin | ⟨hs, hno⟩
    · exact hin
    · exact absurd (by rw [hs]; rfl) (hno a' (hw.active_mem a' hs))
  have hkn : (fps (retainLoop now env.cfg.minExpiryThreshold (s.active.map (·.fp)) s.cached
      (dedupLast fetched) s.active).1).Nodup := hsub.nodup hw.nodup
  unfold updateCache
  simp only
  split
  · exact ⟨⟨hact, hkn⟩, rfl⟩
  · have hcn : (fps (rank sc1 (orderBy ord (retainLoop now env.cfg.minExpiryThreshold
        (s.active.map (·.fp)) s.cached (dedupLast fetched) s.active).2.1))).Nodup := by
      rw [nodup_fps_perm ((rank_perm _ _).trans (orderBy_perm _ _))]
      exact (hrest.1.map _).nodup (dedupLast_nodup fetched)
    have hd : ∀ a ∈ (retainLoop now env.cfg.minExpiryThreshold (s.active.map (·.fp)) s.cached
        (dedupLast fetched) s.active).1,
        ∀ b ∈ rank sc1 (orderBy ord (retainLoop now env.cfg.minExpiryThreshold
          (s.active.map (·.fp)) s.cached (dedupLast fetched) s.active).2.1), a.fp ≠ b.fp := by
      intro a ha b hb
      have hb' := ((rank_perm _ _).trans (orderBy_perm _ _)).mem_iff.mp hb
      rcases List.mem_map.mp (hsub.subset (mem_fps ha)) with ⟨c, hc, hcf⟩
      intro h
      exact hrest.2 b hb' c hc (by rw [hcf, h])
    have hm := mergeNew_wf sc1 _ _ _ env.cfg.maxCached hact hkn hcn hd
    refine ⟨⟨hm.2.1, hm.1⟩, ?_⟩
    simp only [hm.2.2, Bool.or_false]

theorem updateCache_live (env : Env) (s : St) (fetched : List Path) (now : Nat) (sc1 : Nat → Int)
    (ord : List Nat) (hf : AllP (Live now env.cfg.minExpiryThreshold) fetched) :
    AllP (Live now env.cfg.minExpiryThreshold) (updateCache env s fetched now sc1 ord).1.cached := by
  have hk := retainLoop_kept_live now env.cfg.minExpiryThreshold (s.active.map (·.fp)) s.cached
    (dedupLast fetched) s.active
  have hrest := retainLoop_rest now env.cfg.minExpiryThreshold (s.active.map (·.fp)) s.cached
    (dedupLast fetched) s.active
  unfold updateCache
  simp only
  split
  · exact hk
  · apply mergeNew_P
    · exact hk
    · exact AllP_rank _ (AllP_orderBy _ (fun x hx => hf x (mem_dedupLast (hrest.1.subset hx))))

theorem dedupLast_ne_nil {l : List Path} (h : l ≠ []) : dedupLast l ≠ [] := by
  induction l with
  | nil => exact absurd rfl h
  | cons p rest ih =>
    unfold dedupLast
    split
    · next hany =>
      apply ih
      intro hr; rw [hr] at hany; simp at hany
    · simp

theorem mergeNew_nonempty (sc : Nat → Int) (ex nw : List Path) (afp : Option Nat) (t : Nat)
    (ht : 1 ≤ t) (hnw : nw ≠ []) : (mergeNew sc ex nw afp t).1 ≠ [] := by
  unfold mergeNew
  cases afp with
  | none => exact mergeTake_nonempty sc _ _ _ ht (Or.inr hnw)
  | some fp =>
    simp only
    cases hfi : ex.findIdx? (·.fp == fp) with
    | none => exact mergeTake_nonempty sc _ _ _ ht (Or.inr hnw)
    | some idx =>
      simp only
      have hlt := (List.findIdx?_eq_some_iff_getElem.mp hfi).1
      have hlen := length_swapFront ex idx
      cases hsw : swapFront ex idx with
      | nil => rw [hsw] at hlen; simp at hlen; omega
      | cons a rest => simp

theorem updateCache_nonempty (env : Env) (s : St) (fetched : List Path) (now : Nat) (sc1 : Nat → Int)
    (ord : List Nat) (hmc : 1 ≤ env.cfg.maxCached)
    (hf : AllP (Live now env.cfg.minExpiryThreshold) fetched) (hne : fetched ≠ []) :
    (updateCache env s fetched now sc1 ord).1.cached ≠ [] := by
  unfold updateCache
  simp only
  split
  · next hemp =>
    apply retainLoop_nonempty
    · exact fun x hx => hf x (mem_dedupLast hx)
    · exact dedupLast_ne_nil hne
    · simpa using hemp
  · next hemp =>
    apply mergeNew_nonempty _ _ _ _ _ hmc
    intro h
    have hl := congrArg List.length h
    simp only [length_rank, orderBy, length_sortBy, List.length_nil] at hl
    exact hemp (by simp [List.length_eq_zero_iff.mp hl])

theorem minOpt_ne_none {l : List Nat} (h : l ≠ []) : minOpt l ≠ none := by
  cases l with
  | nil => exact absurd rfl h
  | cons x xs => unfold minOpt; split <;> simp

theorem live_expiry_some {now thr : Nat} {p : Path} (h : Live now thr p) : ∃ e, p.expiry = some e := by
  cases he : p.expiry with
  | some e => exact ⟨e, rfl⟩
  | none =>
    exfalso; apply h
    unfold checkExpiry Path.expiryNs
    rw [he]; simp

theorem earliestExpiry_some {now thr : Nat} {l : List Path} (hne : l ≠ [])
    (hl : AllP (Live now thr) l) : earliestExpiry l ≠ none := by
  unfold earliestExpiry
  apply minOpt_ne_none
  cases l with
  | nil => exact absurd rfl hne
  | cons x xs =>
    obtain ⟨e, he⟩ := live_expiry_some (hl x List.mem_cons_self)
    simp [he]

theorem activeEntry_some {s : St} (hw : WF s) {a : Path} (ha : s.active = some a) :
    activeEntry s = some a := by
  unfold activeEntry
  rw [ha]
  simp only
  cases hf : s.cached.find? (·.fp == a.fp) with
  | none =>
    have := List.find?_eq_none.mp hf a (hw.active_mem a ha)
    simp at this
  | some x =>
    have hx := List.mem_of_find?_eq_some hf
    have hfp : x.fp = a.fp := by simpa using List.find?_some hf
    rw [eq_of_fp_eq hw.nodup hx (hw.active_mem a ha) hfp]

theorem baseDecision_noChange {active : Option Path} {now thr : Nat}
    (h : baseDecision active now thr = .noChange) :
    ∃ a, active = some a ∧ checkExpiry a now thr = .valid := by
  unfold baseDecision at h
  split at h
  · cases h
  · next a =>
    split at h
    · next hc => exact ⟨a, rfl, hc⟩
    · split at h <;> cases h

theorem expiryState_expired (e : ExpiryState) (h1 : e ≠ .valid) (h2 : e ≠ .near) : e = .expired := by
  cases e
  · exact absurd rfl h1
  · exact absurd rfl h2
  · rfl

theorem baseDecision_force {active : Option Path} {now thr : Nat}
    (h : baseDecision active now thr = .forceReplace) :
    ∃ a, active = some a ∧ checkExpiry a now thr = .expired := by
  unfold baseDecision at h
  split at h
  · cases h
  · next a =>
    split at h
    · cases h
    · next h1 =>
      split at h
      · cases h
      · next h2 => exact ⟨a, rfl, expiryState_expired _ h1 h2⟩

theorem swapCheck_decision (env : Env) (s : St) (sc : Nat → Int) (best : Option Path) :
    (swapCheck env s sc best).1 = .noChange ∨ (swapCheck env s sc best).1 = .replace := by
  unfold swapCheck
  split
  · simp only; split
    · exact Or.inr rfl
    · exact Or.inl rfl
  · exact Or.inl rfl
  · exact Or.inl rfl

/-- what the decision says about the active path -/
theorem decideActive_decision (env : Env) (s : St) (now : Nat) (sc : Nat → Int) :
    ((decideActive env s now sc).1 = .noChange →
      ∃ a, s.active = some a ∧ checkExpiry a now env.cfg.minExpiryThreshold = .valid) ∧
    ((decideActive env s now sc).1 = .forceReplace →
      ∃ a, s.active = some a ∧ checkExpiry a now env.cfg.minExpiryThreshold = .expired) := by
  unfold decideActive
  simp only
  split
  · next h0 =>
    refine ⟨fun _ => baseDecision_noChange h0, ?_⟩
    intro h
    rcases swapCheck_decision env s sc (bestPath s.cached now env.cfg.minExpiryThreshold) with h' | h' <;>
      rw [h'] at h <;> cases h
  · next h0 =>
    exact ⟨fun h => absurd h h0, fun h => baseDecision_force h⟩

theorem decideActive_no_bad (env : Env) (s : St) (now : Nat) (sc : Nat → Int) (hw : WF s) :
    (decideActive env s now sc).2.2 = false := by
  unfold decideActive
  simp only
  split
  · next h0 =>
    obtain ⟨a, ha, _⟩ := baseDecision_noChange h0
    show (swapCheck env s sc _).2 = false
    unfold swapCheck
    rw [activeEntry_some hw ha]
    split <;> first | rfl | (next h => cases h)
  · rfl

theorem reevaluate_wf (env : Env) (s : St) (now : Nat) (sc : Nat → Int) (hw : WF s) :
    WF (reevaluate env s now sc) ∧ (reevaluate env s now sc).bad = s.bad := by
  have hw' : WF { s with cached := rank sc s.cached } :=
    ⟨fun a ha => (rank_perm sc s.cached).mem_iff.mpr (hw.active_mem a ha),
     (nodup_fps_perm (rank_perm sc s.cached)).mpr hw.nodup⟩
  have hnb := decideActive_no_bad env { s with cached := rank sc s.cached } now sc hw'
  have hbest : ∀ b, (decideActive env { s with cached := rank sc s.cached } now sc).2.1 = some b →
      b ∈ rank sc s.cached := fun b hb => decideActive_best_mem env _ now sc hb
  unfold reevaluate
  simp only [hnb, Bool.or_false]
  unfold applyDecision
  simp only
  split
  · next b hb =>
    have hbm : b ∈ rank sc s.cached := by
      split at hb
      · cases hb
      · exact hbest b hb
    split
    · exact ⟨hw', rfl⟩
    · exact ⟨⟨fun a ha => (by cases ha; exact hbm), hw'.nodup⟩, rfl⟩
  · split
    · exact ⟨⟨fun a ha => (nomatch ha), hw'.nodup⟩, rfl⟩
    · exact ⟨hw', rfl⟩

theorem fetchFiltered_live {env : Env} {now : Nat} {resp : Resp} {f : List Path}
    (h : fetchFiltered env now resp = .ok f) :
    AllP (Live now env.cfg.minExpiryThreshold) f ∧ f ≠ [] := by
  refine ⟨fun p hp => (fetchFiltered_ok h p hp).2.2, ?_⟩
  unfold fetchFiltered at h
  split at h
  · simp only at h
    split at h
    · cases h
    · next hne => cases h; intro he; rw [he] at hne; simp at hne
  · cases h
  · cases h

theorem fetchAndUpdate_wf (env : Env) (s : St) (now : Nat) (resp : Resp) (sc0 sc1 : Nat → Int)
    (ord : List Nat) (b : Nat) (hmc : 1 ≤ env.cfg.maxCached) (hw : WF s) :
    WF (fetchAndUpdate env s now resp sc0 sc1 ord b) ∧
    (fetchAndUpdate env s now resp sc0 sc1 ord b).bad = s.bad := by
  have hw0 : WF (noteDelivered s resp) := ⟨hw.active_mem, hw.nodup⟩
  unfold fetchAndUpdate
  simp only
  split
  · next f hok =>
    have hu := updateCache_wf env (noteDelivered s resp) f now sc1 ord hw0
    have hl := fetchFiltered_live hok
    split
    · next hnone =>
      exact absurd hnone (earliestExpiry_some
        (updateCache_nonempty env _ f now sc1 ord hmc hl.1 hl.2) (updateCache_live env _ f now sc1 ord hl.1))
    · next ee _ =>
      have hr := reevaluate_wf env (afterOk env.cfg (updateCache env (noteDelivered s resp) f now sc1 ord).1 now ee)
        now (if (updateCache env (noteDelivered s resp) f now sc1 ord).2 then sc1 else sc0)
        ⟨hu.1.active_mem, hu.1.nodup⟩
      exact ⟨⟨hr.1.active_mem, hr.1.nodup⟩, by
        show (reevaluate env _ now _).bad = s.bad
        rw [hr.2]; exact hu.2⟩
  · next e _ =>
    have hu := updateCache_wf env (noteDelivered s resp) [] now sc1 ord hw0
    have hr := reevaluate_wf env (afterErr env.cfg (updateCache env (noteDelivered s resp) [] now sc1 ord).1
      s.failed now b e) now sc0 ⟨hu.1.active_mem, hu.1.nodup⟩
    exact ⟨⟨hr.1.active_mem, hr.1.nodup⟩, by
      show (reevaluate env _ now _).bad = s.bad
      rw [hr.2]; exact hu.2⟩

end ScionVerif.PathMgr

/-! # C06: invariants over histories; a sender is not left without a path -/
namespace ScionVerif.PathMgr
open ScionVerif.Generated.PathMgr

theorem WF_of_eq {s s' : St} (hc : s'.cached = s.cached) (ha : s'.active = s.active) (hw : WF s) :
    WF s' := ⟨fun a h => by rw [hc]; exact hw.active_mem a (by rw [← ha]; exact h), by rw [hc]; exact hw.nodup⟩

theorem idleCheck_wf (env : Env) (s : St) (now : Nat) (hw : WF s) :
    WF (idleCheck env s now).1 ∧ (idleCheck env s now).1.bad = s.bad := by
  unfold idleCheck; split
  · exact ⟨⟨hw.active_mem, hw.nodup⟩, rfl⟩
  · exact ⟨hw, rfl⟩

theorem maintain_wf (env : Env) (s : St) (now : Nat) (resp : Resp) (sc0 sc1 : Nat → Int)
    (ord : List Nat) (b : Nat) (hmc : 1 ≤ env.cfg.maxCached) (hw : WF s) :
    WF (maintain env s now resp sc0 sc1 ord b) ∧ (maintain env s now resp sc0 sc1 ord b).bad = s.bad := by
  unfold maintain refetchIfDue
  have hi := idleCheck_wf env s now hw
  split
  · split
    · exact ⟨⟨hi.1.active_mem, hi.1.nodup⟩, hi.2⟩
    · split
      · have := fetchAndUpdate_wf env (idleCheck env s now).1 now resp sc0 sc1 ord b hmc hi.1
        exact ⟨this.1, by rw [this.2, hi.2]⟩
      · exact hi
  · split
    · exact fetchAndUpdate_wf env s now resp sc0 sc1 ord b hmc hw
    · exact ⟨hw, rfl⟩

theorem deliver_wf (env : Env) (s : St) (now : Nat) (sc : Nat → Int) (hw : WF s) :
    WF (deliver env s now sc) ∧ (deliver env s now sc).bad = s.bad := by
  unfold deliver
  split
  · exact ⟨hw, rfl⟩
  · split
    · exact ⟨⟨hw.active_mem, hw.nodup⟩, rfl⟩
    · simp only
      split
      · have := reevaluate_wf env { s with pending := [] } now sc ⟨hw.active_mem, hw.nodup⟩
        exact this
      · exact ⟨⟨hw.active_mem, hw.nodup⟩, rfl⟩

theorem report_wf (env : Env) (s : St) (k : Kind) (id ts : Nat) (hw : WF s) :
    WF (report env s k id ts) ∧ (report env s k id ts).bad = s.bad := by
  unfold report
  split
  · exact ⟨hw, rfl⟩
  · exact ⟨⟨hw.active_mem, hw.nodup⟩, rfl⟩

theorem step_wf (env : Env) (s : St) (op : Op) (hmc : 1 ≤ env.cfg.maxCached) (hw : WF s) :
    WF (step env s op) ∧ (step env s op).bad = s.bad := by
  unfold step
  split
  · exact ⟨hw, rfl⟩
  · cases op with
    | maintain now resp sc0 sc1 ord b => exact maintain_wf env s now resp sc0 sc1 ord b hmc hw
    | report k id ts => exact report_wf env s k id ts hw
    | deliver now sc => exact deliver_wf env s now sc hw
    | send now => exact ⟨⟨hw.active_mem, hw.nodup⟩, rfl⟩

theorem run_wf (env : Env) (t0 : Nat) (ops : List Op) (hmc : 1 ≤ env.cfg.maxCached) :
    WF (run env t0 ops) ∧ (run env t0 ops).bad = false := by
  unfold run
  have : ∀ (s : St), WF s → s.bad = false →
      WF (ops.foldl (step env) s) ∧ (ops.foldl (step env) s).bad = false := by
    induction ops with
    | nil => intro s h1 h2; exact ⟨h1, h2⟩
    | cons op ops ih =>
      intro s h1 h2
      have := step_wf env s op hmc h1
      exact ih _ this.1 (by rw [this.2]; exact h2)
  exact this _ ⟨fun a h => by simp [init] at h, by simp [init, fps]⟩ (by simp [init])

/-! ## a sender is not left without a path -/

theorem live_not_expiredAt {now thr : Nat} {p : Path} (h : Live now thr p) : p.expiredAt now = false := by
  unfold Live checkExpiry at h
  unfold Path.expiredAt
  cases he : p.expiry with
  | none => rfl
  | some e =>
    simp only [decide_eq_false_iff_not]
    intro hle
    apply h
    have : e * NS ≤ now := (Nat.le_div_iff_mul_le (by decide)).mp hle
    simp only [Path.expiryNs, he, Option.getD_some]
    rw [if_pos this]

theorem valid_live {now thr : Nat} {p : Path} (h : checkExpiry p now thr = .valid) : Live now thr p := by
  unfold Live; rw [h]; decide

theorem bestPath_some {cached : List Path} {now thr : Nat}
    (h : ∃ e ∈ cached, checkExpiry e now thr = .valid) :
    ∃ b, bestPath cached now thr = some b ∧ b ∈ cached ∧ checkExpiry b now thr = .valid := by
  obtain ⟨e, he, hv⟩ := h
  unfold bestPath
  cases hf : cached.find? (fun p => checkExpiry p now thr == .valid) with
  | none =>
    have := List.find?_eq_none.mp hf e he
    simp [hv] at this
  | some b =>
    exact ⟨b, rfl, List.mem_of_find?_eq_some hf, by simpa using List.find?_some hf⟩


theorem applyDecision_active (s : St) (d : Decision) (best : Option Path) :
    (applyDecision s d best).active =
      (match (if s.active.map (·.fp) == best.map (·.fp) then none else best) with
       | some b => if d = .noChange then s.active else some b
       | none => if d = .forceReplace then none else s.active) := by
  unfold applyDecision
  simp only
  generalize (if s.active.map (·.fp) == best.map (·.fp) then none else best) = bb
  cases bb with
  | none => simp only []; split <;> rfl
  | some b => simp only []; split <;> rfl

/-- after re-evaluation, if some cached path is valid (not near expiry) the active slot holds a path
    that is not expired -/
theorem reevaluate_has_path (env : Env) (s : St) (now : Nat) (sc : Nat → Int) (hw : WF s)
    (hv : ∃ e ∈ s.cached, checkExpiry e now env.cfg.minExpiryThreshold = .valid) :
    ∃ p, (reevaluate env s now sc).active = some p ∧ Live now env.cfg.minExpiryThreshold p := by
  have hw' : WF { s with cached := rank sc s.cached } :=
    ⟨fun a ha => (rank_perm sc s.cached).mem_iff.mpr (hw.active_mem a ha),
     (nodup_fps_perm (rank_perm sc s.cached)).mpr hw.nodup⟩
  have hv' : ∃ e ∈ rank sc s.cached, checkExpiry e now env.cfg.minExpiryThreshold = .valid := by
    obtain ⟨e, he, h⟩ := hv; exact ⟨e, (mem_rank sc e _).mpr he, h⟩
  obtain ⟨b, hb, hbm, hbv⟩ := bestPath_some hv'
  have hbest : (decideActive env { s with cached := rank sc s.cached } now sc).2.1 = some b := by
    rw [decideActive_best]; exact hb
  have hdec := decideActive_decision env { s with cached := rank sc s.cached } now sc
  unfold reevaluate
  simp only
  rw [applyDecision_active, hbest]
  simp only
  by_cases hfp : (s.active.map (·.fp) == (some b).map (·.fp)) = true
  · -- the best path is the active path
    rw [if_pos hfp]
    simp only
    have hex : ∃ a, s.active = some a := by
      cases h : s.active with
      | none => rw [h] at hfp; simp at hfp
      | some a => exact ⟨a, rfl⟩
    obtain ⟨a, ha⟩ := hex
    have hab : a = b := by
      have hfp' := hfp
      rw [ha] at hfp'
      exact eq_of_fp_eq hw'.nodup (hw'.active_mem a ha) hbm (by simpa using hfp')
    split
    · next hf =>
      obtain ⟨a', ha', hex⟩ := hdec.2 hf
      have : a' = a := by
        have h2 : s.active = some a' := ha'
        rw [ha] at h2; cases h2; rfl
      rw [this, hab, hbv] at hex; cases hex
    · exact ⟨a, ha, hab ▸ valid_live hbv⟩
  · rw [if_neg hfp]
    simp only
    split
    · next hn =>
      obtain ⟨a', ha', hva⟩ := hdec.1 hn
      exact ⟨a', ha', valid_live hva⟩
    · exact ⟨b, rfl, valid_live hbv⟩

end ScionVerif.PathMgr

namespace ScionVerif.PathMgr
open ScionVerif.Generated.PathMgr

theorem addIssue_fifo_le (m : IssueMgr) (maxE win id : Nat) (mk : Marker) (hm : IMInv m)
    (hb : m.cache.length ≤ max maxE 1) :
    (m.addIssue maxE win id mk).1.fifo.length ≤ m.fifo.length + 1 := by
  unfold IssueMgr.addIssue
  split
  · exact Nat.le_succ _
  · have he := evictIfFull_spec m maxE hm hb
    show ((m.evictIfFull maxE).fifo ++ [(id, mk.ts)]).length ≤ m.fifo.length + 1
    simp only [List.length_append, List.length_cons, List.length_nil]
    omega

theorem fetchAndUpdate_has_path (env : Env) (s : St) (now : Nat) (resp : Resp) (sc0 sc1 : Nat → Int)
    (ord : List Nat) (b : Nat) (hmc : 1 ≤ env.cfg.maxCached) (hw : WF s)
    (hv : ∃ e ∈ (fetchAndUpdate env s now resp sc0 sc1 ord b).cached,
      checkExpiry e now env.cfg.minExpiryThreshold = .valid) :
    ∃ p, (fetchAndUpdate env s now resp sc0 sc1 ord b).active = some p ∧
      Live now env.cfg.minExpiryThreshold p := by
  have hw0 : WF (noteDelivered s resp) := ⟨hw.active_mem, hw.nodup⟩
  unfold fetchAndUpdate at hv ⊢
  simp only at hv ⊢
  split at hv
  · next f hok =>
    have hu := updateCache_wf env (noteDelivered s resp) f now sc1 ord hw0
    have hl := fetchFiltered_live hok
    split at hv
    · next hnone =>
      exact absurd hnone (earliestExpiry_some
        (updateCache_nonempty env _ f now sc1 ord hmc hl.1 hl.2) (updateCache_live env _ f now sc1 ord hl.1))
    · next ee hee =>
      obtain ⟨e, he, hev⟩ := hv
      have he' : e ∈ (afterOk env.cfg (updateCache env (noteDelivered s resp) f now sc1 ord).1 now ee).cached := by
        have : e ∈ (reevaluate env (afterOk env.cfg (updateCache env (noteDelivered s resp) f now sc1 ord).1 now ee)
          now (if (updateCache env (noteDelivered s resp) f now sc1 ord).2 then sc1 else sc0)).cached := he
        rw [reevaluate_cached] at this
        exact (mem_rank _ e _).mp this
      exact reevaluate_has_path env _ now _ ⟨hu.1.active_mem, hu.1.nodup⟩ ⟨e, he', hev⟩
  · next er _ =>
    have hu := updateCache_wf env (noteDelivered s resp) [] now sc1 ord hw0
    obtain ⟨e, he, hev⟩ := hv
    have he' : e ∈ (afterErr env.cfg (updateCache env (noteDelivered s resp) [] now sc1 ord).1 s.failed now b er).cached := by
      have : e ∈ (reevaluate env (afterErr env.cfg (updateCache env (noteDelivered s resp) [] now sc1 ord).1
        s.failed now b er) now sc0).cached := he
      rw [reevaluate_cached] at this
      exact (mem_rank _ e _).mp this
    exact reevaluate_has_path env _ now _ ⟨hu.1.active_mem, hu.1.nodup⟩ ⟨e, he', hev⟩

/-! ## refetch schedule vs. the expiry of every cached path -/

theorem minOpt_le {l : List Nat} {m : Nat} (h : minOpt l = some m) : ∀ x ∈ l, m ≤ x := by
  induction l generalizing m with
  | nil => intro x hx; cases hx
  | cons y ys ih =>
    intro x hx
    unfold minOpt at h
    split at h
    · next m' hm' =>
      have hm : m = min y m' := by cases h; rfl
      rcases List.mem_cons.mp hx with rfl | hx'
      · omega
      · have := ih hm' x hx'; omega
    · next hn =>
      have hm : m = y := by cases h; rfl
      rcases List.mem_cons.mp hx with rfl | hx'
      · omega
      · cases ys with
        | nil => cases hx'
        | cons z zs => exact absurd hn (minOpt_ne_none (by simp))

/-- the schedule after a successful fetch is monotone in the earliest expiry: computed from `ee`, it is no
    later than `min_expiry_threshold` before any expiry `x ≥ ee`, unless `min_refetch_delay` forbids it -/
theorem nextAfterOk_le_of_expiry (cfg : Cfg) (now ee x : Nat) (h : ee ≤ x) :
    nextAfterOk cfg now ee ≤ max (now + cfg.minRefetchDelay) (x * NS - cfg.minExpiryThreshold) := by
  unfold nextAfterOk
  have h2 : ee * NS ≤ x * NS := Nat.mul_le_mul_right _ h
  generalize ee * NS = a at *
  generalize x * NS = c at *
  omega

end ScionVerif.PathMgr
